-- Root of the `MdVerif` library: models (core Lean only), helper lemmas, property theorems.
import MdVerif.Model.Cursor
import MdVerif.Properties.C18
import MdVerif.Properties.C02
