/-
Editing a topology in place (property C04): `Topology.insert_atom(..., index=i)` and `Topology.delete_atom_by_index(i)` on the flat atom list.
An atom is its identity (`uid`, the Python object) and the `index` field it carries; bonds name atoms by identity.  `insertAt` is the code's
list insertion with the renumbering loop `for k in range(i, len): atoms[k].index += 1`, `deleteAt` the removal with `-= 1` and the filter on
the bonds.  `insertRaw` is the same without the range check the code now makes (repair b5d87905).  Core Lean only.
-/
namespace MdVerif.TopoEdit

structure EAtom where
  uid : Nat
  index : Nat
  deriving DecidableEq, Repr

structure ETop where
  atoms : List EAtom
  bonds : List (Nat × Nat)      -- pairs of uids
  deriving Repr

def bump (a : EAtom) : EAtom := { a with index := a.index + 1 }
def lower (a : EAtom) : EAtom := { a with index := a.index - 1 }

/-- `atoms.insert(i, Atom(index=i))` after `for k in range(i, len(atoms)): atoms[k].index += 1` — Python's `list.insert` clamps `i` to the end -/
def insertRaw (t : ETop) (i uid : Nat) : ETop :=
  { t with atoms := t.atoms.take i ++ [⟨uid, i⟩] ++ (t.atoms.drop i).map bump }

/-- `insert_atom(index=i)`: refused (`none`) when `i` is not a position of the list -/
def insertAt (t : ETop) (i uid : Nat) : Option ETop :=
  if i ≤ t.atoms.length then some (insertRaw t i uid) else none

/-- `delete_atom_by_index(i)`: the atom goes, the later ones move up, its bonds go -/
def deleteAt (t : ETop) (i : Nat) : Option ETop :=
  match t.atoms[i]? with
  | none => none
  | some a => some { atoms := t.atoms.take i ++ (t.atoms.drop (i + 1)).map lower,
                     bonds := t.bonds.filter (fun b => b.1 != a.uid && b.2 != a.uid) }

/-- every atom's `index` field is its position (`top.atom(i).index == i`) -/
def IndexOk (t : ETop) : Prop := ∀ (k : Nat) (a : EAtom), t.atoms[k]? = some a → a.index = k

inductive EOp where
  | ins (i uid : Nat)
  | del (i : Nat)

def stepE (t : ETop) : EOp → Option ETop
  | .ins i uid => insertAt t i uid
  | .del i => deleteAt t i

/-- a refused operation leaves the topology as it was -/
def runE (t : ETop) : List EOp → ETop
  | [] => t
  | op :: ops => runE ((stepE t op).getD t) ops

end MdVerif.TopoEdit
