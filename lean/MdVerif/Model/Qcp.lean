/-
Quaternion characteristic polynomial RMSD (C06): exact-arithmetic transcription of `msdFromMandG` and of the inner-product
accumulation of mdtraj/rmsd/src/theobald_rmsd.cpp / theobald_rmsd_generic.h / theobald_rmsd_sse.h:
centring, traces `G`, `M[3i+j] = Σ a_i b_j`, the ten entries of the symmetric 4×4 key matrix `K`, the coefficients
`C2 = −2ΣM²`, `C1 = −8 det M`, `C0 = det K` (the 17-term expansion as coded), the adjugate-column quaternion and the nine
entries of the rotation matrix.  The quartic root finder (Ferrari/Cardano in double precision) is outside the model: its
result is validated through a root certificate.  Core Lean only.
-/
import MdVerif.Model.Mic
namespace MdVerif.Qcp
open MdVerif.Mic

/-- the nine inner products, in the code's flat layout `M[3i+j] = Σ_k a_{k,i} b_{k,j}` -/
structure M9 where
  m0 : Rat
  m1 : Rat
  m2 : Rat
  m3 : Rat
  m4 : Rat
  m5 : Rat
  m6 : Rat
  m7 : Rat
  m8 : Rat
  deriving Repr

def M9.zero : M9 := ⟨0, 0, 0, 0, 0, 0, 0, 0, 0⟩
def M9.add (a b : M9) : M9 := ⟨a.m0 + b.m0, a.m1 + b.m1, a.m2 + b.m2, a.m3 + b.m3, a.m4 + b.m4, a.m5 + b.m5, a.m6 + b.m6, a.m7 + b.m7, a.m8 + b.m8⟩
def M9.ofPair (a b : V3) : M9 := ⟨a.x * b.x, a.x * b.y, a.x * b.z, a.y * b.x, a.y * b.y, a.y * b.z, a.z * b.x, a.z * b.y, a.z * b.z⟩
def innerM (pairs : List (V3 × V3)) : M9 := pairs.foldr (fun p acc => (M9.ofPair p.1 p.2).add acc) M9.zero
def traceG (l : List V3) : Rat := (l.map V3.norm2).sum

/-- the key matrix entries, with the code's column-major reads `M[i + 3j]` -/
structure K10 where
  k00 : Rat
  k01 : Rat
  k02 : Rat
  k03 : Rat
  k11 : Rat
  k12 : Rat
  k13 : Rat
  k22 : Rat
  k23 : Rat
  k33 : Rat
  deriving Repr

def keyK (M : M9) : K10 :=
  { k00 := M.m0 + M.m4 + M.m8, k01 := M.m7 - M.m5, k02 := M.m2 - M.m6, k03 := M.m3 - M.m1,
    k11 := M.m0 - M.m4 - M.m8, k12 := M.m3 + M.m1, k13 := M.m2 + M.m6,
    k22 := -M.m0 + M.m4 - M.m8, k23 := M.m7 + M.m5, k33 := -M.m0 - M.m4 + M.m8 }

def C2 (M : M9) : Rat := -2 * (M.m0 * M.m0 + M.m1 * M.m1 + M.m2 * M.m2 + M.m3 * M.m3 + M.m4 * M.m4 + M.m5 * M.m5 + M.m6 * M.m6 + M.m7 * M.m7 + M.m8 * M.m8)
def detM (M : M9) : Rat := M.m0 * (M.m4 * M.m8 - M.m5 * M.m7) + M.m3 * (M.m7 * M.m2 - M.m8 * M.m1) + M.m6 * (M.m1 * M.m5 - M.m2 * M.m4)
def C1 (M : M9) : Rat := -8 * detM M
/-- `detK`, the 17 terms as coded -/
def C0 (M : M9) : Rat :=
  let k := keyK M
  k.k01*k.k01*k.k23*k.k23 - k.k22*k.k33*k.k01*k.k01 + 2*k.k33*k.k01*k.k02*k.k12
  - 2*k.k01*k.k02*k.k13*k.k23 - 2*k.k01*k.k03*k.k12*k.k23 + 2*k.k22*k.k01*k.k03*k.k13
  + k.k02*k.k02*k.k13*k.k13 - k.k11*k.k33*k.k02*k.k02 - 2*k.k02*k.k03*k.k12*k.k13
  + 2*k.k11*k.k02*k.k03*k.k23 + k.k03*k.k03*k.k12*k.k12 - k.k11*k.k22*k.k03*k.k03
  - k.k00*k.k33*k.k12*k.k12 + 2*k.k00*k.k12*k.k13*k.k23 - k.k00*k.k22*k.k13*k.k13
  - k.k00*k.k11*k.k23*k.k23 + k.k00*k.k11*k.k22*k.k33

/-- the characteristic polynomial the code hands to the quartic solver -/
def P (M : M9) (l : Rat) : Rat := l * l * l * l + C2 M * l * l + C1 M * l + C0 M
def dP (M : M9) (l : Rat) : Rat := 4 * l * l * l + 2 * C2 M * l + C1 M
def ddP (M : M9) (l : Rat) : Rat := 12 * l * l + 2 * C2 M

structure Quat where
  q0 : Rat
  q1 : Rat
  q2 : Rat
  q3 : Rat
  deriving Repr

def Quat.norm2 (q : Quat) : Rat := q.q0 * q.q0 + q.q1 * q.q1 + q.q2 * q.q2 + q.q3 * q.q3

/-- the (un-normalised) quaternion: first column of the adjugate of `K − λI`, as coded -/
def quatOf (M : M9) (l : Rat) : Quat :=
  let k := keyK M
  let k00 := k.k00 - l; let k11 := k.k11 - l; let k22 := k.k22 - l; let k33 := k.k33 - l
  let k2233_2323 := k22 * k33 - k.k23 * k.k23
  let k1233_1323 := k.k12 * k33 - k.k13 * k.k23
  let k1223_1322 := k.k12 * k.k23 - k.k13 * k22
  let k0223_0322 := k.k02 * k.k23 - k.k03 * k22
  let k0233_0323 := k.k02 * k33 - k.k03 * k.k23
  let k0213_0312 := k.k02 * k.k13 - k.k03 * k.k12
  let _ := k00
  { q0 := k11 * k2233_2323 - k.k12 * k1233_1323 + k.k13 * k1223_1322,
    q1 := -k.k01 * k2233_2323 + k.k12 * k0233_0323 - k.k13 * k0223_0322,
    q2 := k.k01 * k1233_1323 - k11 * k0233_0323 + k.k13 * k0213_0312,
    q3 := -k.k01 * k1223_1322 + k11 * k0223_0322 - k.k12 * k0213_0312 }

/-- `K − λI` as a 4×4 array -/
def shifted (M : M9) (l : Rat) (i j : Nat) : Rat :=
  let k := keyK M
  match i, j with
  | 0, 0 => k.k00 - l | 0, 1 => k.k01 | 0, 2 => k.k02 | 0, 3 => k.k03
  | 1, 0 => k.k01 | 1, 1 => k.k11 - l | 1, 2 => k.k12 | 1, 3 => k.k13
  | 2, 0 => k.k02 | 2, 1 => k.k12 | 2, 2 => k.k22 - l | 2, 3 => k.k23
  | 3, 0 => k.k03 | 3, 1 => k.k13 | 3, 2 => k.k23 | 3, 3 => k.k33 - l
  | _, _ => 0

/-- `cofactor4`: the (i, j) cofactor, rows/columns other than i/j in increasing order -/
def cofactor4 (A : Nat → Nat → Rat) (i j : Nat) : Rat :=
  let r := (List.range 4).filter (· != i)
  let c := (List.range 4).filter (· != j)
  let r0 := r.getD 0 0; let r1 := r.getD 1 0; let r2 := r.getD 2 0
  let c0 := c.getD 0 0; let c1 := c.getD 1 0; let c2 := c.getD 2 0
  let d := A r0 c0 * (A r1 c1 * A r2 c2 - A r1 c2 * A r2 c1)
         - A r0 c1 * (A r1 c0 * A r2 c2 - A r1 c2 * A r2 c0)
         + A r0 c2 * (A r1 c0 * A r2 c1 - A r1 c1 * A r2 c0)
  if (i + j) % 2 == 0 then d else -d

/-- column `col` of the adjugate of `K − λI` (the loop over `row` in the code) -/
def adjCol (M : M9) (l : Rat) (col : Nat) : Quat :=
  let A := shifted M l
  ⟨cofactor4 A col 0, cofactor4 A col 1, cofactor4 A col 2, cofactor4 A col 3⟩

/-- the quaternion the code uses: the first column by the explicit formulas, replaced by a later column of strictly larger norm -/
def bestCol (M : M9) (l : Rat) : Quat :=
  [1, 2, 3].foldl (fun q col => let c := adjCol M l col; if c.norm2 > q.norm2 then c else q) (quatOf M l)

/-- convergence test of the code: the rotation is the identity unless |q|² > 1e-11 λ⁶ -/
def converged (M : M9) (l : Rat) : Bool := (bestCol M l).norm2 > (1 / 100000000000 : Rat) * (l * l * l) * (l * l * l)

/-- the rotation matrix entries `rot[0..8]` from a quaternion (before the division by |q|²) -/
def rotOf (q : Quat) : M9 :=
  let a2 := q.q0 * q.q0; let x2 := q.q1 * q.q1; let y2 := q.q2 * q.q2; let z2 := q.q3 * q.q3
  let xy := q.q1 * q.q2; let az := q.q0 * q.q3; let zx := q.q3 * q.q1; let ay := q.q0 * q.q2; let yz := q.q2 * q.q3; let ax := q.q0 * q.q1
  { m0 := a2 + x2 - y2 - z2, m3 := 2 * (xy + az), m6 := 2 * (zx - ay),
    m1 := 2 * (xy - az), m4 := a2 - x2 + y2 - z2, m7 := 2 * (yz + ax),
    m2 := 2 * (zx + ay), m5 := 2 * (yz - ax), m8 := a2 - x2 - y2 + z2 }

/-- `qᵀ K q` -/
def quadK (M : M9) (q : Quat) : Rat :=
  let k := keyK M
  k.k00 * q.q0 * q.q0 + k.k11 * q.q1 * q.q1 + k.k22 * q.q2 * q.q2 + k.k33 * q.q3 * q.q3
  + 2 * (k.k01 * q.q0 * q.q1 + k.k02 * q.q0 * q.q2 + k.k03 * q.q0 * q.q3 + k.k12 * q.q1 * q.q2 + k.k13 * q.q1 * q.q3 + k.k23 * q.q2 * q.q3)

/-- a row vector times the rotation matrix (`rot_atom_major`): (aR)_j = Σ_i a_i R[3i+j] -/
def applyRot (R : M9) (a : V3) : V3 :=
  ⟨a.x * R.m0 + a.y * R.m3 + a.z * R.m6, a.x * R.m1 + a.y * R.m4 + a.z * R.m7, a.x * R.m2 + a.y * R.m5 + a.z * R.m8⟩

/-- Σ_idx R[idx]·M[idx] -/
def frob (R M : M9) : Rat :=
  R.m0 * M.m0 + R.m1 * M.m1 + R.m2 * M.m2 + R.m3 * M.m3 + R.m4 * M.m4 + R.m5 * M.m5 + R.m6 * M.m6 + R.m7 * M.m7 + R.m8 * M.m8

def centroid (l : List V3) : V3 :=
  let n : Rat := l.length
  ⟨(l.map (·.x)).sum / n, (l.map (·.y)).sum / n, (l.map (·.z)).sum / n⟩
def center (l : List V3) : List V3 := let c := centroid l; l.map (·.sub c)

/-- mean square deviation from the root the solver returned -/
def msd (Ga Gb lam : Rat) (n : Nat) : Rat := let v := (Ga + Gb - 2 * lam) / n; if v > 0 then v else 0

end MdVerif.Qcp
