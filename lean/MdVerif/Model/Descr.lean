/-
Derived descriptors (C16): the index bookkeeping of mdtraj/geometry/contact.py (residue membership per scheme, the 'all' pair list, the
flattened atom-pair list with its running offsets, squareform), the one-pass moments of mdtraj/geometry/src/moments.cpp used by DRID with
the partner sets of drid.pyx, and the mass-weighted sums behind centre of mass, radius of gyration, gyration and inertia tensors, over
exact rationals.  Core Lean only.
-/
import MdVerif.Model.Mic
namespace MdVerif.Descr
open MdVerif.Mic

/-! ### compute_contacts -/

structure AtomRec where
  res : Nat
  name : String
  isH : Bool
  protein : Bool      -- residue.is_protein
  gly : Bool          -- residue.name == "GLY"
  deriving Repr

def isSidechain (a : AtomRec) : Bool := !(["C", "CA", "N", "O", "HA", "H"].contains a.name) && a.protein
def isCA (a : AtomRec) : Bool := a.name.toLower == "ca"

inductive Scheme where
  | closest | closestHeavy | sidechain | sidechainHeavy
  deriving DecidableEq, Repr

def keep (s : Scheme) (a : AtomRec) : Bool :=
  match s with
  | .closest => true
  | .closestHeavy => !a.isH
  | .sidechain => isSidechain a
  | .sidechainHeavy => if a.gly then isSidechain a else (isSidechain a && !a.isH)

/-- atom indices of residue `r` that the scheme designates (atoms in index order) -/
def membership (s : Scheme) (atoms : List AtomRec) (r : Nat) : List Nat :=
  (List.range atoms.length).filter (fun i => match atoms[i]? with | some a => a.res == r && keep s a | none => false)

def caAtoms (atoms : List AtomRec) (r : Nat) : List Nat :=
  (List.range atoms.length).filter (fun i => match atoms[i]? with | some a => a.res == r && isCA a | none => false)

/-- `itertools.product(a, b)` -/
def product (a b : List Nat) : List (Nat × Nat) := a.flatMap (fun x => b.map (fun y => (x, y)))

/-- the flattened atom-pair list handed to compute_distances -/
def atomPairs (mem : Nat → List Nat) (rps : List (Nat × Nat)) : List (Nat × Nat) :=
  rps.flatMap (fun p => product (mem p.1) (mem p.2))

def pairCounts (mem : Nat → List Nat) (rps : List (Nat × Nat)) : List Nat :=
  rps.map (fun p => (mem p.1).length * (mem p.2).length)

/-- `atom_distances[:, index : index + n]` with `index = sum(n_atom_pairs_per_residue_pair[:i])` -/
def sliceFor {α : Type} (dists : List α) (counts : List Nat) (i : Nat) : List α :=
  (dists.drop (counts.take i).sum).take (counts.getD i 0)

/-- contacts == "all": residue pairs at least three apart in the same chain, both with an alpha carbon when `ignoreNonprotein` -/
def allPairs (n : Nat) (hasCA : Nat → Bool) (chain : Nat → Nat) (ignoreNonprotein : Bool) : List (Nat × Nat) :=
  (List.range n).flatMap (fun i =>
    if ignoreNonprotein && !hasCA i then [] else
    ((List.range n).filter (fun j => i + 3 ≤ j && !(ignoreNonprotein && !hasCA j) && chain i == chain j)).map (fun j => (i, j)))

/-- scheme 'ca': pairs whose residues both have exactly one CA (more than one raises) -/
def caPairs (atoms : List AtomRec) (rps : List (Nat × Nat)) : Option (List ((Nat × Nat) × (Nat × Nat))) :=
  rps.foldr (fun p acc => match acc with
    | none => none
    | some l =>
      let c0 := caAtoms atoms p.1
      let c1 := caAtoms atoms p.2
      if c0.length == 1 && c1.length == 1 then some ((p, (c0.getD 0 0, c1.getD 0 0)) :: l)
      else if c0.length == 0 || c1.length == 0 then some l else none) (some [])

/-- squareform: entry (i, j) of the contact map -/
def squareEntry (dists : List Rat) (rps : List (Nat × Nat)) (i j : Nat) : Rat :=
  match (rps.zip dists).reverse.find? (fun pd => (pd.1.1 == i && pd.1.2 == j) || (pd.1.1 == j && pd.1.2 == i)) with
  | some pd => pd.2
  | none => 0

/-! ### one-pass moments (moments.cpp) and DRID partners -/

structure Mom where
  n : Nat
  u : Rat
  m2 : Rat
  m3 : Rat
  deriving Repr

def Mom.clear : Mom := ⟨0, 0, 0, 0⟩

def Mom.push (s : Mom) (x : Rat) : Mom :=
  let n1 : Rat := s.n
  let n : Rat := (s.n + 1 : Nat)
  let delta := x - s.u
  let deltaN := delta / n
  let term1 := delta * deltaN * n1
  { n := s.n + 1, u := s.u + deltaN, m3 := s.m3 + term1 * deltaN * (n - 2) - 3 * deltaN * s.m2, m2 := s.m2 + term1 }

def pushAll (l : List Rat) : Mom := l.foldl Mom.push Mom.clear

def Mom.mean (s : Mom) : Rat := s.u
def Mom.second (s : Mom) : Rat := s.m2 / s.n
def Mom.third (s : Mom) : Rat := s.m3 / s.n

/-- partners of atom `j` in DRID: the selected atoms other than `j` and its bonded neighbours among the selection, ascending -/
def dridPartners (sel : List Nat) (bonds : List (Nat × Nat)) (j : Nat) : List Nat :=
  let bonded := fun k => bonds.any (fun b => sel.contains b.1 && sel.contains b.2 && ((b.1 == j && b.2 == k) || (b.2 == j && b.1 == k)))
  ((List.range ((sel.foldl max 0) + 1)).filter (fun k => sel.contains k && k != j && !bonded k))

/-! ### mass-weighted sums -/

def wTotal (l : List (Rat × V3)) : Rat := (l.map (·.1)).sum
def wFirst (l : List (Rat × V3)) : V3 := l.foldr (fun p acc => (V3.smul p.1 p.2).add acc) ⟨0, 0, 0⟩
def wSecond (l : List (Rat × V3)) : Rat := (l.map (fun p => p.1 * p.2.norm2)).sum
/-- Σ w |x − c|² -/
def wDev2 (l : List (Rat × V3)) (c : V3) : Rat := (l.map (fun p => p.1 * (p.2.sub c).norm2)).sum
def com (l : List (Rat × V3)) : V3 := V3.smul (1 / wTotal l) (wFirst l)
/-- squared radius of gyration about the centre of mass -/
def rg2 (l : List (Rat × V3)) : Rat := wDev2 l (com l) / wTotal l

/-- symmetric 3×3 tensor: xx yy zz xy xz yz -/
structure Sym3 where
  xx : Rat
  yy : Rat
  zz : Rat
  xy : Rat
  xz : Rat
  yz : Rat
  deriving Repr

/-- Σ w (x−c)(x−c)ᵀ -/
def wOuter (l : List (Rat × V3)) (c : V3) : Sym3 :=
  l.foldr (fun p acc => let d := p.2.sub c
    ⟨acc.xx + p.1 * d.x * d.x, acc.yy + p.1 * d.y * d.y, acc.zz + p.1 * d.z * d.z, acc.xy + p.1 * d.x * d.y, acc.xz + p.1 * d.x * d.z, acc.yz + p.1 * d.y * d.z⟩) ⟨0, 0, 0, 0, 0, 0⟩

def Sym3.scale (k : Rat) (s : Sym3) : Sym3 := ⟨k * s.xx, k * s.yy, k * s.zz, k * s.xy, k * s.xz, k * s.yz⟩
def Sym3.tr (s : Sym3) : Rat := s.xx + s.yy + s.zz
/-- tr(S²) -/
def Sym3.tr2 (s : Sym3) : Rat := s.xx * s.xx + s.yy * s.yy + s.zz * s.zz + 2 * (s.xy * s.xy + s.xz * s.xz + s.yz * s.yz)
/-- sum of principal 2×2 minors -/
def Sym3.e2 (s : Sym3) : Rat := s.xx * s.yy + s.xx * s.zz + s.yy * s.zz - s.xy * s.xy - s.xz * s.xz - s.yz * s.yz
def Sym3.det (s : Sym3) : Rat :=
  s.xx * (s.yy * s.zz - s.yz * s.yz) - s.xy * (s.xy * s.zz - s.yz * s.xz) + s.xz * (s.xy * s.yz - s.yy * s.xz)
/-- det(S − x·I) -/
def Sym3.charpoly (s : Sym3) (x : Rat) : Rat := (⟨s.xx - x, s.yy - x, s.zz - x, s.xy, s.xz, s.yz⟩ : Sym3).det

/-- gyration tensor: unit weights about the centre of geometry, divided by N -/
def gyration (xs : List V3) : Sym3 :=
  let l := xs.map (fun x => ((1 : Rat), x))
  (wOuter l (com l)).scale (1 / (xs.length : Rat))

/-- inertia tensor I = Σ m (|r|² δ − r rᵀ) about the centre of mass -/
def inertia (l : List (Rat × V3)) : Sym3 :=
  let o := wOuter l (com l)
  ⟨o.yy + o.zz, o.xx + o.zz, o.xx + o.yy, -o.xy, -o.xz, -o.yz⟩

/-! ### radial distribution function (`compute_rdf`): `np.histogram(distances, range, bins)`, shell volumes, normalisation; π is factored out -/

/-- bin edge k of `n` equal bins on `[lo, hi]` (`np.linspace(lo, hi, n + 1)[k]`) -/
def edge (lo hi : Rat) (n k : Nat) : Rat := lo + (hi - lo) * k / n

/-- `np.histogram`'s bin of a value: half-open bins `[e_k, e_{k+1})`, the last one closed; values outside the range are not counted -/
def binIndex (lo hi : Rat) (n : Nat) (d : Rat) : Option Nat :=
  if d < lo ∨ hi < d then none
  else if d = hi then some (n - 1)
  else some (((d - lo) * n / (hi - lo)).floor.toNat)

def histogram (lo hi : Rat) (n : Nat) (ds : List Rat) : List Nat :=
  (List.range n).map (fun k => (ds.filter (fun d => binIndex lo hi n d == some k)).length)

/-- volume of the spherical shell between edges k and k+1, divided by π: `4/3 (e_{k+1}³ − e_k³)` -/
def shellVolOverPi (lo hi : Rat) (n k : Nat) : Rat :=
  4 / 3 * (edge lo hi n (k + 1) * edge lo hi n (k + 1) * edge lo hi n (k + 1) - edge lo hi n k * edge lo hi n k * edge lo hi n k)

/-- `g_r[k]·π = hist[k] / (n_pairs · Σ_f 1/V_f · shellVol_k/π)` -/
def rdfTimesPi (lo hi : Rat) (n : Nat) (nPairs : Nat) (invVolSum : Rat) (ds : List Rat) : List Rat :=
  (List.range n).map (fun k => ((histogram lo hi n ds).getD k 0 : Rat) / ((nPairs : Rat) * invVolSum * shellVolOverPi lo hi n k))

/-- bin centres `0.5·(edges[1:] + edges[:-1])` -/
def binCentre (lo hi : Rat) (n k : Nat) : Rat := (edge lo hi n k + edge lo hi n (k + 1)) / 2

end MdVerif.Descr
