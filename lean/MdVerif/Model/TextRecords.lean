/-
Whole text records as mdtraj's writers print them (property C01), on top of the field model of Model/TextFmt.lean:

* the ATOM record of a PDB file (mdtraj/formats/pdb/pdbfile.py `write`):
    "ATOM  %5d %-4s %3s %1s%4d    %s%s%s  1.00 %5s      %-4s%2s  " % (serial % 100000, atomName, resName, chainName,
        _resseq_field(resSeq), _format_83(x), _format_83(y), _format_83(z), '%5.2f' % bfactor, segment_id[:4], symbol[-2:])
  with the atom-name column rule (a name shorter than four characters that begins with a letter, for an element whose symbol has one
  letter, starts in the second column) and `_resseq_field` (numbers beyond 9999 wrap, negative ones down to -999 are kept);
* the atom line of a .gro file (mdtraj/formats/gro.py `_write_frame`):
    "%5d%-5s%5s%5d" % (resSeq mod 100000, resName, atomName, serial mod 100000) followed by three '%{p+5}.{p}f' fields.
Core Lean only.
-/
import MdVerif.Model.TextFmt
namespace MdVerif.Txt

def padRight (w : Nat) (s : List Char) : List Char := s ++ List.replicate (w - s.length) ' '

/-- `'%d' % n` -/
def intBody (n : Int) : List Char := (if n < 0 then ['-'] else []) ++ (natDigits n.natAbs).map digitChar

/-- `'%wd' % n` -/
def fmtInt (w : Nat) (n : Int) : List Char := padLeft w (intBody n)

def isAlphaChar (c : Char) : Bool := (97 ≤ c.toNat && c.toNat ≤ 122) || (65 ≤ c.toNat && c.toNat ≤ 90)

/-- `_resseq_field` -/
def resseqField (r : Int) : Int := if 0 ≤ r then r % 10000 else -((-r) % 1000)

/-- the four columns of the atom name; `symLen` is the length of the element symbol (0: no element) -/
def pdbAtomName (name : List Char) (symLen : Nat) : List Char :=
  if name.length < 4 ∧ (name.head?.map isAlphaChar = some true) ∧ symLen < 2 then ' ' :: name
  else if 4 < name.length then name.take 4 else name

structure PdbAtom where
  serial : Nat
  name : List Char
  resName : List Char
  chain : Char
  resSeq : Int
  x : Rat
  y : Rat
  z : Rat
  bfactor : Rat
  segId : List Char
  symbol : List Char        -- element symbol, empty for none (printed as a blank)

def takeLast (k : Nat) (s : List Char) : List Char := s.drop (s.length - k)

/-- the ATOM record; `none` where `_format_83` raises -/
def pdbAtomLine (a : PdbAtom) : Option (List Char) := do
  let fx ← pdb83 a.x
  let fy ← pdb83 a.y
  let fz ← pdb83 a.z
  let sym := if a.symbol.isEmpty then [' '] else a.symbol
  pure ("ATOM  ".toList ++ fmtInt 5 ((a.serial % 100000 : Nat) : Int) ++ [' '] ++ padRight 4 (pdbAtomName a.name a.symbol.length) ++ [' '] ++
    padLeft 3 (a.resName.take 3) ++ [' '] ++ [a.chain] ++ fmtInt 4 (resseqField a.resSeq) ++ "    ".toList ++ fx ++ fy ++ fz ++ "  1.00 ".toList ++
    padLeft 5 (fmtFixed 5 2 a.bfactor) ++ "      ".toList ++ padRight 4 (a.segId.take 4) ++ padLeft 2 (takeLast 2 sym) ++ "  ".toList)

/-- the atom line of a .gro frame at precision `p` -/
def groAtomLine (p : Nat) (resSeq : Int) (resName atomName : List Char) (serial : Nat) (x y z : Rat) : List Char :=
  fmtInt 5 (if 100000 ≤ resSeq then resSeq % 100000 else resSeq) ++ padRight 5 resName ++ padLeft 5 atomName ++
  fmtInt 5 ((serial % 100000 : Nat) : Int) ++ groField p x ++ groField p y ++ groField p z

/-- the CRYST1 record of a PDB file: `"CRYST1{:9.3f}{:9.3f}{:9.3f}{:7.2f}{:7.2f}{:7.2f} P 1           1 "` (lengths in angstrom, angles in degrees) -/
def cryst1Line (a b c al be ga : Rat) : List Char :=
  ['C', 'R', 'Y', 'S', 'T', '1'] ++ fmtFixed 9 3 a ++ fmtFixed 9 3 b ++ fmtFixed 9 3 c ++ fmtFixed 7 2 al ++ fmtFixed 7 2 be ++ fmtFixed 7 2 ga ++
  [' ', 'P', ' ', '1'] ++ List.replicate 11 ' ' ++ ['1', ' ']

/-- the box line of a .gro frame: nine `'%10.5f'` fields (v1x v2y v3z v1y v1z v2x v2z v3x v3y, nanometres) -/
def groBoxLine (vs : List Rat) : List Char := (vs.map (fmtFixed 10 5)).flatten

end MdVerif.Txt
