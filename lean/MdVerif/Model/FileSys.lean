/-
A directory of files as the writers of mdtraj see it (property C20): paths are strings compared exactly (case matters), a file is its
content.  `openWrite` is the open-for-write step every writer class performs — `if not force_overwrite and os.path.exists(p): raise`,
then `open(p, 'w')` (truncating) or unlink-and-create — and `saveMany` the numbered restart files `name.rst7.1 … name.rst7.n`, each opened
in turn.  `overlay` is what an open WITHOUT truncation leaves behind (the new bytes over the start of the old file).  Core Lean only.
-/
namespace MdVerif.FileSys

abbrev Dir (β : Type) := List (String × β)

def lookup {β : Type} (d : Dir β) (p : String) : Option β := (d.find? (·.1 == p)).map (·.2)

/-- create or replace the file at `p` -/
def put {β : Type} (d : Dir β) (p : String) (c : β) : Dir β :=
  if (d.any (·.1 == p)) then d.map (fun e => if e.1 == p then (p, c) else e) else d ++ [(p, c)]

/-- the existence test looks at `check`, the file is opened at `p`; the result and whether an error was raised -/
def openWriteAt {β : Type} (check p : String) (force : Bool) (d : Dir β) (c : β) : Dir β × Bool :=
  if !force && (lookup d check).isSome then (d, true) else (put d p c, false)

def openWrite {β : Type} (p : String) (force : Bool) (d : Dir β) (c : β) : Dir β × Bool := openWriteAt p p force d c

/-- several files written one after the other (multi-frame restart saves): stops at the first refusal -/
def saveMany {β : Type} (force : Bool) : Dir β → List (String × β) → Dir β × Bool
  | d, [] => (d, false)
  | d, (p, c) :: rest =>
    match openWrite p force d c with
    | (d', true) => (d', true)
    | (d', false) => saveMany force d' rest

/-- `Trajectory.save`: the saver validates its input (`valid`) before it opens anything; an input it rejects raises and touches nothing -/
def save {β : Type} (valid : Bool) (p : String) (force : Bool) (d : Dir β) (c : β) : Dir β × Bool :=
  if valid then openWrite p force d c else (d, true)
/-- the same with a clean-up of the target on a rejected input ("do not leave a truncated file behind") -/
def saveWithCleanup {β : Type} (valid : Bool) (p : String) (force : Bool) (d : Dir β) (c : β) : Dir β × Bool :=
  if valid then openWrite p force d c else (d.filter (fun e => !(e.1 == p)), true)
/-- bytes left in a file that was opened without truncation and written from its start -/
def overlay (old new : List Nat) : List Nat := new ++ old.drop new.length

end MdVerif.FileSys
