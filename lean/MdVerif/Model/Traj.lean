/-
Model of `mdtraj.Trajectory` as a container (property C03): numpy-style indexing of all per-frame
fields, join / stack / atom_slice, the in-place operations, aliasing of coordinate storage
(`slice(copy=False)` views) and the hidden RMSD cache `_rmsd_traces`.

Coordinates live in a heap: every frame of every trajectory has an *address*; two trajectories share
memory iff they hold a common address (`np.shares_memory`).  The frame type `F`, the cached value type `T`
and the geometric operations are abstract (`FrameOps`): the theorems hold for every instance.

Transcribed from mdtraj/core/trajectory.py (after the two `fix:` commits for slice and atom_slice):
`slice`, `__getitem__`, `join`, `stack`, `atom_slice`, `center_coordinates`, `superpose`, the `xyz`,
`time`, `unitcell_*` setters, and the in-place edit of the coordinate array followed by its assignment (`assignSame`).  Core Lean only.
-/
namespace MdVerif.TrajModel

/-- python/numpy index keys along the frame axis -/
inductive Key where
  | int (i : Int)
  | slice (start stop : Option Int) (step : Int)
  | idx (l : List Int)
  | mask (m : List Bool)
  deriving Repr

/-- normalise one integer index against length `n` (numpy: negative counts from the end) -/
def normIndex (n : Nat) (i : Int) : Option Nat :=
  if 0 ≤ i ∧ i < n then some i.toNat
  else if i < 0 ∧ -(n : Int) ≤ i then some (i + n).toNat
  else none

/-- `range(start, stop, step)` for `step > 0`, with fuel -/
def rangeUp (stop step : Nat) : Nat → Nat → List Nat
  | 0, _ => []
  | fuel + 1, cur => if cur < stop then cur :: rangeUp stop step fuel (cur + step) else []

/-- `range(start, stop, -step)` for `step > 0`; `stop = -1` is encoded by `stopP1 = 0` (stop + 1) -/
def rangeDown (stopP1 step : Nat) : Nat → Nat → List Nat
  | 0, _ => []
  | fuel + 1, curP1 => if stopP1 < curP1 then (curP1 - 1) :: rangeDown stopP1 step fuel (curP1 - step) else []

/-- CPython `slice(start, stop, step).indices(n)` followed by `range` -/
def sliceIndices (n : Nat) (start stop : Option Int) (step : Int) : Option (List Nat) :=
  if step = 0 then none
  else if step > 0 then
    let clamp (v : Int) : Nat := if v < 0 then (if v + n < 0 then 0 else (v + n).toNat) else (if v > n then n else v.toNat)
    let s := match start with | none => 0 | some v => clamp v
    let e := match stop with | none => n | some v => clamp v
    some (rangeUp e step.toNat n s)
  else
    -- positions are kept shifted by one so that "-1" (before the first element) is representable as 0
    let clampP1 (v : Int) : Nat :=
      if v < 0 then (if v + n < 0 then 0 else (v + n).toNat + 1) else (if v ≥ n then n else v.toNat + 1)
    let s := match start with | none => n | some v => clampP1 v
    let e := match stop with | none => 0 | some v => clampP1 v
    some (rangeDown e (-step).toNat n s)

/-- the positions (into a length-`n` axis) that a key selects; `none`: numpy raises -/
def Key.positions (n : Nat) : Key → Option (List Nat)
  | .int i => (normIndex n i).map ([·])
  | .slice a b s => sliceIndices n a b s
  | .idx l => l.mapM (normIndex n)
  | .mask m => if m.length = n then some ((List.range n).filter (fun i => m.getD i false)) else none

/-- geometric operations on frames, abstract -/
structure FrameOps (F T : Type) where
  center : F → F
  centerW : F → F
  trace : F → T
  pick : List Nat → F → F
  hcat : F → F → F
  sup : F → F → F
  center_idem : ∀ f, center (center f) = center f

structure Traj (T : Type) where
  rows : List Nat
  time : List Int
  cell : Option (List Int)
  traces : Option (List T)
  natoms : Nat
  deriving Repr

structure World (F T : Type) where
  heap : List F
  trajs : List (Traj T)

def gather (l : List α) : List Nat → List α
  | [] => []
  | p :: ps => match l[p]? with
    | some x => x :: gather l ps
    | none => gather l ps

/-- allocate fresh storage for a list of frames; returns the new heap and the addresses -/
def alloc (heap : List F) (fs : List F) : List F × List Nat :=
  (heap ++ fs, (List.range fs.length).map (· + heap.length))

def frames (heap : List F) (t : Traj T) : List F := gather heap t.rows

variable {F T : Type}

inductive Op (F : Type) where
  | getitem (i : Nat) (k : Key)
  | view (i a b : Nat)
  | join (i : Nat) (js : List Nat)
  | stack (i j : Nat)
  | atomSlice (i : Nat) (idx : List Nat) (inplace : Bool)
  | center (i : Nat)
  | centerW (i : Nat)
  | superpose (i ref : Nat)
  | setXyz (i : Nat) (fs : List F)
  | assignSame (i : Nat) (fs : List F)   -- `x = t.xyz; x[...] = fs; t.xyz = x`, also `t.xyz += c`: the array the trajectory holds is edited in place, then assigned
  | setTime (i : Nat) (ts : List Int)
  | setCell (i : Nat) (c : Option (List Int))

def setTraj (w : World F T) (i : Nat) (t : Traj T) : World F T := { w with trajs := w.trajs.set i t }
def addTraj (w : World F T) (heap : List F) (t : Traj T) : World F T := { heap := heap, trajs := w.trajs ++ [t] }

/-- write `g f` at every address in `rows` -/
def mapAt (g : F → F) (heap : List F) (rows : List Nat) : List F :=
  rows.foldl (fun h a => match h[a]? with | some f => h.set a (g f) | none => h) heap

/-- write `fs` at the addresses `rows`, position by position -/
def writeAt (heap : List F) : List Nat → List F → List F
  | a :: rows, f :: fs => writeAt (heap.set a f) rows fs
  | _, _ => heap

def step (ops : FrameOps F T) (w : World F T) : Op F → World F T
  | .getitem i k =>
    match w.trajs[i]? with
    | none => w
    | some t =>
      match k.positions t.rows.length with
      | none => w
      | some ps =>
        let (heap', rows') := alloc w.heap (gather (frames w.heap t) ps)
        addTraj w heap' { rows := rows', time := gather t.time ps, cell := t.cell.map (gather · ps),
                          traces := t.traces.map (gather · ps), natoms := t.natoms }
  | .view i a b =>
    match w.trajs[i]? with
    | none => w
    | some t =>
      let ps := (List.range t.rows.length).filter (fun p => a ≤ p ∧ p < b)
      addTraj w w.heap { rows := gather t.rows ps, time := gather t.time ps, cell := t.cell.map (gather · ps),
                         traces := t.traces.map (gather · ps), natoms := t.natoms }
  | .join i js =>
    match w.trajs[i]?, js.mapM (w.trajs[·]?) with
    | some t, some others =>
      if others.all (fun o => o.natoms = t.natoms ∧ o.cell.isSome = t.cell.isSome) then
        let all := t :: others
        let (heap', rows') := alloc w.heap (all.flatMap (frames w.heap))
        addTraj w heap' { rows := rows', time := all.flatMap (·.time),
                          cell := if t.cell.isSome then some (all.flatMap (fun o => o.cell.getD [])) else none,
                          traces := none, natoms := t.natoms }
      else w
    | _, _ => w
  | .stack i j =>
    match w.trajs[i]?, w.trajs[j]? with
    | some t, some o =>
      if t.rows.length = o.rows.length then
        let (heap', rows') := alloc w.heap (List.zipWith ops.hcat (frames w.heap t) (frames w.heap o))
        addTraj w heap' { rows := rows', time := t.time, cell := t.cell, traces := none, natoms := t.natoms + o.natoms }
      else w
    | _, _ => w
  | .atomSlice i idx inplace =>
    match w.trajs[i]? with
    | none => w
    | some t =>
      if idx.all (· < t.natoms) then
        let (heap', rows') := alloc w.heap ((frames w.heap t).map (ops.pick idx))
        if inplace then
          { heap := heap', trajs := w.trajs.set i { t with rows := rows', traces := none, natoms := idx.length } }
        else
          addTraj w heap' { rows := rows', time := t.time, cell := t.cell, traces := none, natoms := idx.length }
      else w
  | .center i =>
    match w.trajs[i]? with
    | none => w
    | some t =>
      let heap' := mapAt ops.center w.heap t.rows
      { heap := heap', trajs := w.trajs.set i { t with traces := some ((gather heap' t.rows).map ops.trace) } }
  | .centerW i =>
    match w.trajs[i]? with
    | none => w
    | some t =>
      let (heap', rows') := alloc w.heap ((frames w.heap t).map ops.centerW)
      { heap := heap', trajs := w.trajs.set i { t with rows := rows', traces := none } }
  | .superpose i r =>
    match w.trajs[i]?, w.trajs[r]? with
    | some t, some rt =>
      match (frames w.heap rt).head? with
      | none => w
      | some rf =>
        if rt.natoms = t.natoms then
          let (heap', rows') := alloc w.heap ((frames w.heap t).map (ops.sup · rf))
          { heap := heap', trajs := w.trajs.set i { t with rows := rows', traces := none } }
        else w
    | _, _ => w
  | .setXyz i fs =>
    match w.trajs[i]? with
    | none => w
    | some t =>
      if fs.length = t.rows.length then
        let (heap', rows') := alloc w.heap fs
        { heap := heap', trajs := w.trajs.set i { t with rows := rows', traces := none } }
      else w
  | .assignSame i fs =>
    match w.trajs[i]? with
    | none => w
    | some t =>
      if fs.length = t.rows.length then
        -- the storage is overwritten where it is (every trajectory that shares it sees the new values); the setter drops the cache of `i` only
        { heap := writeAt w.heap t.rows fs, trajs := w.trajs.set i { t with traces := none } }
      else w
  | .setTime i ts =>
    match w.trajs[i]? with
    | none => w
    | some t => if ts.length = t.rows.length then setTraj w i { t with time := ts } else w
  | .setCell i c =>
    match w.trajs[i]? with
    | none => w
    | some t =>
      if (match c with | none => true | some l => l.length = t.rows.length) then setTraj w i { t with cell := c } else w

def run (ops : FrameOps F T) (w : World F T) (l : List (Op F)) : World F T := l.foldl (step ops) w

end MdVerif.TrajModel
