/-
Model of the atom-selection language (property C12): mdtraj/core/selection.py after the precedence `fix:`.

* tokens (canonically spaced input), the operator/keyword classification tables,
* the grammar as pyparsing builds it: `range_condition | in_list_condition | base`, parentheses, and the five
  `infixNotation` levels — comparisons (a flat chain keeps each operator), `=~`, `not`, `and`, `or` —
  with the "literal used as truth / compared with a literal" checks of the parse actions,
* evaluation of the resulting Python expression on one atom (comparison chains, `in`, truthiness,
  short-circuit, TypeError on ordering a string against a number, `re.match` for a regex subset),
* `select` = indices of the atoms for which the expression is truthy.
Core Lean only.
-/
namespace MdVerif.Sel

inductive CmpOp where
  | lt | le | eq | ne | ge | gt
  deriving DecidableEq, Repr

inductive Lit where
  | int (n : Int)
  | dec (num : Int) (den : Nat)     -- decimal literal num/den
  | str (s : String)                -- quoted or bare word
  | bad                             -- a NUMS word python cannot parse (1.2.3)
  deriving DecidableEq, Repr

inductive Expr where
  | kw (k : String)
  | lit (l : Lit)
  | not (e : Expr)
  | bool (isAnd : Bool) (es : List Expr)
  | cmp (left : Expr) (ops : List CmpOp) (rest : List Expr)
  | regex (s pat : Expr)
  | range (k : String) (lo hi : Lit)
  | inlist (k : String) (ls : List Lit)
  | opaque (n : Nat)      -- a placeholder for an arbitrary non-literal operand (schematic precedence theorems)
  deriving Repr

inductive Tok where
  | kw (s : String)
  | lit (l : Lit)
  | op (s : String)
  | lp | rp
  | tree (e : Expr)       -- an already parsed operand (for schematic precedence theorems)
  deriving Repr

inductive OpKind where
  | cmp (c : CmpOp) | regex | not | and | or
  deriving DecidableEq, Repr

/-- classification of operator spellings (transcribed; `Properties/C12` checks it against the regenerated table) -/
def opKind : String → Option OpKind
  | "<" => some (.cmp .lt) | "lt" => some (.cmp .lt)
  | "<=" => some (.cmp .le) | "le" => some (.cmp .le)
  | "==" => some (.cmp .eq) | "eq" => some (.cmp .eq)
  | "!=" => some (.cmp .ne) | "ne" => some (.cmp .ne)
  | ">=" => some (.cmp .ge) | "ge" => some (.cmp .ge)
  | ">" => some (.cmp .gt) | "gt" => some (.cmp .gt)
  | "=~" => some .regex
  | "not" => some .not | "!" => some .not
  | "and" => some .and | "&&" => some .and
  | "or" => some .or | "||" => some .or
  | _ => none

inductive Err where
  | parse          -- ParseException → ValueError
  | literalTruth   -- "Cannot use literals as truth/booleans", "Cannot compare literals", …
  | syntax         -- ast.parse of a malformed number
  | type           -- TypeError while evaluating
  deriving DecidableEq, Repr

def isLit : Expr → Bool
  | .lit _ => true
  | _ => false

def litIsTo : Lit → Bool
  | .str "to" => true
  | _ => false

/-- in literal position a word is a literal even when it is spelled like a selection keyword
(`literal` only excludes the operator words) -/
def asLit : Tok → Option Lit
  | .lit l => some l
  | .kw s => some (.str s)
  | _ => none

/-- `OneOrMore(literal)` -/
def takeLits : List Tok → List Lit × List Tok
  | t :: r =>
    match asLit t with
    | some l => let x := takeLits r; (l :: x.1, x.2)
    | none => ([], t :: r)
  | [] => ([], [])

/- levels: 0 or, 1 and, 2 not, 3 regex, 4 comparison, 5 operand.  One fuel counter decreases on every call. -/
mutual
def parseLevel : Nat → Nat → List Tok → Except Err (Expr × List Tok)
  | 0, _, _ => .error .parse
  | fuel + 1, 5, toks =>
    match toks with
    | .tree e :: r => .ok (e, r)
    | .lp :: r =>
      match parseLevel fuel 0 r with
      | .ok (e, .rp :: r') => .ok (e, r')
      | .ok _ => .error .parse
      | .error e => .error e
    | .kw k :: r =>
      -- range_condition | in_list_condition | keyword
      match r with
      | a :: t :: b :: r' =>
        match asLit a, asLit t, asLit b with
        | some la, some lt, some lb =>
          if litIsTo lt then .ok (.range k la lb, r')
          else let x := takeLits r; .ok (.inlist k x.1, x.2)
        | _, _, _ => let x := takeLits r; if x.1.isEmpty then .ok (.kw k, r) else .ok (.inlist k x.1, x.2)
      | _ => let x := takeLits r; if x.1.isEmpty then .ok (.kw k, r) else .ok (.inlist k x.1, x.2)
    | .lit l :: r => .ok (.lit l, r)
    | _ => .error .parse
  | fuel + 1, 4, toks =>
    -- operand (cmpop operand)*  as one flat chain
    match parseLevel fuel 5 toks with
    | .error e => .error e
    | .ok (first, r) =>
      let x := cmpChain fuel [] [] r
      if x.1.isEmpty then .ok (first, x.2.2)
      else if (first :: x.2.1).all isLit then .error .literalTruth
      else .ok (.cmp first x.1 x.2.1, x.2.2)
  | fuel + 1, 3, toks =>
    match parseLevel fuel 4 toks with
    | .error e => .error e
    | .ok (a, .op s :: r) =>
      if opKind s = some .regex then
        match parseLevel fuel 4 r with
        | .ok (b, r') => if isLit a then .error .literalTruth else .ok (.regex a b, r')
        | .error _ => .ok (a, .op s :: r)
      else .ok (a, .op s :: r)
    | .ok x => .ok x
  | fuel + 1, 2, toks =>
    match toks with
    | .op s :: r =>
      if opKind s = some .not then
        match parseLevel fuel 2 r with
        | .ok (e, r') => if isLit e then .error .literalTruth else .ok (.not e, r')
        | .error e => .error e
      else parseLevel fuel 3 toks
    | _ => parseLevel fuel 3 toks
  | fuel + 1, lvl, toks =>
    -- lvl 1 (and) over level 2, lvl 0 (or) over level 1
    match parseLevel fuel (lvl + 1) toks with
    | .error e => .error e
    | .ok (first, r) =>
      let x := boolChain fuel lvl [] r
      if x.1.isEmpty then .ok (first, x.2)
      else if (first :: x.1).any isLit then .error .literalTruth
      else .ok (.bool (lvl == 1) (first :: x.1), x.2)

/-- `(cmpop operand)*`; pyparsing backtracks when no operand follows an operator: the chain ends before it -/
def cmpChain : Nat → List CmpOp → List Expr → List Tok → List CmpOp × List Expr × List Tok
  | 0, ops, es, r => (ops.reverse, es.reverse, r)
  | fuel + 1, ops, es, r =>
    match r with
    | .op s :: r' =>
      match opKind s with
      | some (.cmp c) =>
        match parseLevel fuel 5 r' with
        | .ok (e, r'') => cmpChain fuel (c :: ops) (e :: es) r''
        | .error _ => (ops.reverse, es.reverse, r)
      | _ => (ops.reverse, es.reverse, r)
    | _ => (ops.reverse, es.reverse, r)

def boolChain : Nat → Nat → List Expr → List Tok → List Expr × List Tok
  | 0, _, es, r => (es.reverse, r)
  | fuel + 1, lvl, es, r =>
    match r with
    | .op s :: r' =>
      if opKind s = some (if lvl = 1 then OpKind.and else OpKind.or) then
        match parseLevel fuel (lvl + 1) r' with
        | .ok (e, r'') => boolChain fuel lvl (e :: es) r''
        | .error _ => (es.reverse, r)
      else (es.reverse, r)
    | _ => (es.reverse, r)
end

/-- `parse_selection(string)`: the whole input must be consumed; a lone literal is refused unless it is a
boolean name -/
def parse (toks : List Tok) : Except Err Expr :=
  match parseLevel (8 * toks.length + 16) 0 toks with
  | .error e => .error e
  | .ok (e, []) =>
    match e with
    | .lit (.str "True") | .lit (.str "False") | .lit (.str "None") => .ok e
    | .lit .bad => .error .syntax
    | .lit _ => .error .literalTruth
    | _ => .ok e
  | .ok _ => .error .parse

/-! ### evaluation on one atom -/

inductive Val where
  | b (v : Bool)
  | i (n : Int)
  | d (num : Int) (den : Nat)
  | s (v : String)
  | none
  deriving DecidableEq, Repr

def litVal : Lit → Except Err Val
  | .int n => .ok (.i n)
  | .dec a b => .ok (.d a b)
  | .str "True" => .ok (.b true)
  | .str "False" => .ok (.b false)
  | .str "None" => .ok .none
  | .str s => .ok (.s s)
  | .bad => .error .syntax

def truthy : Val → Bool
  | .b v => v
  | .i n => n != 0
  | .d a _ => a != 0
  | .s v => v != ""
  | .none => false

/-- numeric view: (numerator, denominator) -/
def num? : Val → Option (Int × Nat)
  | .b v => some (if v then 1 else 0, 1)
  | .i n => some (n, 1)
  | .d a b => some (a, b)
  | _ => Option.none

def valEq (x y : Val) : Bool :=
  match num? x, num? y with
  | some (a, b), some (c, d) => a * d == c * b
  | Option.none, Option.none => x == y
  | _, _ => false

def cmpVal (op : CmpOp) (x y : Val) : Except Err Bool :=
  match op with
  | .eq => .ok (valEq x y)
  | .ne => .ok (!valEq x y)
  | _ =>
    match num? x, num? y with
    | some (a, b), some (c, d) =>
      let l := a * d; let r := c * b
      .ok (match op with | .lt => l < r | .le => l ≤ r | .ge => l ≥ r | .gt => l > r | _ => false)
    | _, _ =>
      match x, y with
      | .s u, .s v => .ok (match op with | .lt => u < v | .le => u ≤ v | .ge => u ≥ v | .gt => u > v | _ => false)
      | _, _ => .error .type

/-- regex subset: literal characters, `.`, postfix `*`, and `[a-z]`-style classes; `re.match` = match a prefix -/
inductive Re where
  | chr (c : Char) | any | cls (ranges : List (Char × Char))
  deriving Repr

def Re.matches : Re → Char → Bool
  | .chr c, x => c == x
  | .any, x => x != '\n'
  | .cls rs, x => rs.any (fun r => r.1 ≤ x ∧ x ≤ r.2)

/-- items: (atom, starred) -/
def reMatch : List (Re × Bool) → List Char → Bool
  | [], _ => true
  | (r, false) :: rest, c :: cs => r.matches c && reMatch rest cs
  | (_, false) :: _, [] => false
  | (r, true) :: rest, s =>
    -- greedy with backtracking = exists a split
    let rec star (fuel : Nat) (s : List Char) : Bool :=
      match fuel with
      | 0 => reMatch rest s
      | f + 1 =>
        reMatch rest s || (match s with | c :: cs => r.matches c && star f cs | [] => false)
    star s.length s

def parseClass : List Char → Option (List (Char × Char) × List Char)
  | ']' :: r => some ([], r)
  | a :: '-' :: b :: r => if b != ']' then (parseClass r).map (fun x => ((a, b) :: x.1, x.2)) else none
  | a :: r => (parseClass r).map (fun x => ((a, a) :: x.1, x.2))
  | [] => none
termination_by l => l.length

def parseRe : Nat → List Char → Option (List (Re × Bool))
  | 0, _ => none
  | _, [] => some []
  | f + 1, cs =>
    let atom : Option (Re × List Char) := match cs with
      | '.' :: r => some (.any, r)
      | '[' :: r => (parseClass r).map (fun x => (.cls x.1, x.2))
      | c :: r => if c.isAlphanum || c == '\'' || c == '_' then some (.chr c, r) else none
      | [] => none
    match atom with
    | none => none
    | some (a, '*' :: r) => (parseRe f r).map ((a, true) :: ·)
    | some (a, r) => (parseRe f r).map ((a, false) :: ·)

abbrev AtomView := String → Option Val

def evalFuel : Nat → AtomView → Expr → Except Err Val
  | 0, _, _ => .error .type
  | _ + 1, av, .kw k => match av k with | some v => .ok v | none => .error .parse
  | _ + 1, _, .lit l => litVal l
  | f + 1, av, .not e => match evalFuel f av e with | .ok v => .ok (.b (!truthy v)) | .error x => .error x
  | f + 1, av, .bool isAnd es =>
    let rec go (last : Val) : List Expr → Except Err Val
      | [] => .ok last
      | e :: r => match evalFuel f av e with
        | .error x => .error x
        | .ok v => if truthy v == isAnd then go v r else .ok v
    go (.b isAnd) es
  | f + 1, av, .cmp left ops rest =>
    match evalFuel f av left with
    | .error x => .error x
    | .ok l =>
      let rec goC (l : Val) : List CmpOp → List Expr → Except Err Val
        | op :: ops, e :: es => match evalFuel f av e with
          | .error x => .error x
          | .ok r => match cmpVal op l r with
            | .error x => .error x
            | .ok true => goC r ops es
            | .ok false => .ok (.b false)
        | _, _ => .ok (.b true)
      goC l ops rest
  | f + 1, av, .regex s pat =>
    match evalFuel f av s, evalFuel f av pat with
    | .ok (.s str), .ok (.s p) =>
      match parseRe (p.length + 1) p.toList with
      | some items => .ok (.b (reMatch items str.toList))
      | none => .error .syntax
    | .error x, _ => .error x
    | _, .error x => .error x
    | _, _ => .error .type
  | _ + 1, av, .range k lo hi =>
    match av k, litVal lo, litVal hi with
    | some v, .ok a, .ok b =>
      match cmpVal .le a v with
      | .error x => .error x
      | .ok false => .ok (.b false)
      | .ok true => (cmpVal .le v b).map .b
    | _, .error x, _ => .error x
    | _, _, .error x => .error x
    | none, _, _ => .error .parse
  | _ + 1, av, .inlist k ls =>
    match av k, ls.mapM litVal with
    | some v, .ok [x] => .ok (.b (valEq v x))
    | some v, .ok xs => .ok (.b (xs.any (valEq v)))
    | _, .error x => .error x
    | none, _ => .error .parse
  | _ + 1, _, .opaque _ => .error .parse

def exprSize : Expr → Nat
  | .not e => exprSize e + 1
  | .bool _ es => 1 + (es.attach.map (fun ⟨e, _⟩ => exprSize e)).sum
  | .cmp l _ es => 1 + exprSize l + (es.attach.map (fun ⟨e, _⟩ => exprSize e)).sum
  | .regex a b => 1 + exprSize a + exprSize b
  | _ => 1

def eval (av : AtomView) (e : Expr) : Except Err Val := evalFuel (exprSize e + 2) av e

/-- `Topology.select`: indices (ascending) of the atoms on which the expression is truthy; any error aborts -/
def select (atoms : List AtomView) (e : Expr) : Except Err (List Nat) :=
  let rec go (i : Nat) : List AtomView → Except Err (List Nat)
    | [] => .ok []
    | a :: r => match eval a e, go (i + 1) r with
      | .ok v, .ok rest => .ok (if truthy v then i :: rest else rest)
      | .error x, _ => .error x
      | _, .error x => .error x
  go 0 atoms

end MdVerif.Sel
