/-
Frame loops with thread-private state (C08).  A schedule assigns every frame index to a thread and fixes the order in
which each thread handles its frames; a thread's private state is threaded through the frames it handles; the result
for frame `i` is written to `out[i]`.  Core Lean only.
-/
namespace MdVerif.Sched

/-- one thread: frames handled in the given order, state threaded; yields (frame index, output) pairs -/
def runThread (step : σ → φ → σ × ω) (frames : List φ) : σ → List Nat → List (Nat × ω)
  | _, [] => []
  | s, i :: is =>
    match frames[i]? with
    | some f => let r := step s f; (i, r.2) :: runThread step frames r.1 is
    | none => runThread step frames s is

/-- all threads; each starts from its own copy of `init` -/
def runSchedule (step : σ → φ → σ × ω) (init : σ) (frames : List φ) (sched : List (List Nat)) : List (Nat × ω) :=
  sched.flatMap (runThread step frames init)

/-- what ends up in `out[i]` (the last write, if any) -/
def outAt (writes : List (Nat × ω)) (i : Nat) : Option ω :=
  ((writes.filter (·.1 == i)).getLast?).map (·.2)

end MdVerif.Sched
