/-
Unit-cell descriptions (C17): mdtraj/utils/unitcell.py and the unitcell setters of mdtraj/core/trajectory.py.

`toVectors` is `lengths_and_angles_to_box_vectors` with the trigonometric values as parameters
(`cα, cβ, cγ` the cosines of the three angles, `sγ = sin γ`, `cz` the square root the code takes), so that the model
is exact rational arithmetic; `ofVectors` returns what `box_vectors_to_lengths_and_angles` takes `sqrt` and `arccos` of.
The half-setters (`unitcell_lengths`, `unitcell_angles`, `unitcell_vectors = None / all-zero`) are a small state machine.
Uses `MdVerif.Mic.V3`/`Cell`.  Core Lean only.
-/
import MdVerif.Model.Mic
namespace MdVerif.UnitCell
open MdVerif.Mic

structure Params where
  a : Rat
  b : Rat
  c : Rat
  cα : Rat
  cβ : Rat
  cγ : Rat
  sγ : Rat
  cz : Rat
  deriving Repr

/-- `v[|v| < 1e-6] = 0` -/
def snap (x : Rat) : Rat := if -1/1000000 < x ∧ x < 1/1000000 then 0 else x

def toVectorsRaw (p : Params) : Cell :=
  ⟨⟨p.a, 0, 0⟩, ⟨p.b * p.cγ, p.b * p.sγ, 0⟩, ⟨p.c * p.cβ, p.c * (p.cα - p.cβ * p.cγ) / p.sγ, p.cz⟩⟩

def snapV (v : V3) : V3 := ⟨snap v.x, snap v.y, snap v.z⟩

def toVectors (p : Params) : Cell :=
  let B := toVectorsRaw p
  ⟨snapV B.a, snapV B.b, snapV B.c⟩

/-- squared lengths and the three dot products (b·c, c·a, a·b): the arguments of `sqrt` and of `arccos(·/(|u||v|))` -/
def ofVectors (B : Cell) : (Rat × Rat × Rat) × (Rat × Rat × Rat) :=
  ((B.a.norm2, B.b.norm2, B.c.norm2), (B.b.dot B.c, B.c.dot B.a, B.a.dot B.b))

def det (B : Cell) : Rat := B.a.dot (B.b.cross B.c)

/-- 3×3 matrix acting on a vector (rows r1 r2 r3) -/
structure M3 where
  r1 : V3
  r2 : V3
  r3 : V3

def M3.apply (R : M3) (v : V3) : V3 := ⟨R.r1.dot v, R.r2.dot v, R.r3.dot v⟩
def M3.applyCell (R : M3) (B : Cell) : Cell := ⟨R.apply B.a, R.apply B.b, R.apply B.c⟩
/-- columns of R are orthonormal: RᵀR = I -/
def M3.Orthogonal (R : M3) : Prop :=
  R.r1.x * R.r1.x + R.r2.x * R.r2.x + R.r3.x * R.r3.x = 1 ∧ R.r1.y * R.r1.y + R.r2.y * R.r2.y + R.r3.y * R.r3.y = 1 ∧
  R.r1.z * R.r1.z + R.r2.z * R.r2.z + R.r3.z * R.r3.z = 1 ∧ R.r1.x * R.r1.y + R.r2.x * R.r2.y + R.r3.x * R.r3.y = 0 ∧
  R.r1.x * R.r1.z + R.r2.x * R.r2.z + R.r3.x * R.r3.z = 0 ∧ R.r1.y * R.r1.z + R.r2.y * R.r2.z + R.r3.y * R.r3.z = 0

/-! ### the cell fields of a trajectory -/

structure CellState where
  lengths : Option Nat     -- number of frames the array covers
  angles : Option Nat
  deriving DecidableEq, Repr

inductive CellOp where
  | setLengths (v : Option Nat)
  | setAngles (v : Option Nat)
  | setVectors (v : Option Nat)      -- `None` or an all-zero array clears both
  deriving Repr

/-- assignments check the frame count (`shape=(len(self), 3)`); a refused assignment leaves the state -/
def cellStep (n : Nat) (s : CellState) : CellOp → CellState
  | .setLengths none => { s with lengths := none }
  | .setLengths (some k) => if k = n then { s with lengths := some k } else s
  | .setAngles none => { s with angles := none }
  | .setAngles (some k) => if k = n then { s with angles := some k } else s
  | .setVectors none => ⟨none, none⟩
  | .setVectors (some k) => if k = n then ⟨some k, some k⟩ else s

def haveUnitcell (s : CellState) : Bool := s.lengths.isSome && s.angles.isSome
/-- `unitcell_vectors` is reported iff both halves are present -/
def vectorsReported (s : CellState) : Bool := haveUnitcell s

end MdVerif.UnitCell
