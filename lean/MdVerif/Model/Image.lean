/-
Re-imaging (C11): transcription of mdtraj/geometry/src/image_molecules.pxi (make_whole, the anchor offset, wrap_mols) and of
mdtraj/core/trajectory.py:_bonds_in_placement_order over exact rationals.  Positions are functions `Nat → V3` (atom index ↦ position).
The loops over `k in range(3)` that read `offset[1]` / `offset[0]` while updating them are transcribed literally (the primed roundings).
Not modelled: the choice of which anchor molecule is attached next (find_closest_contact + argmin), only the move it then makes.
Core Lean only.
-/
import MdVerif.Model.Mic
namespace MdVerif.Image
open MdVerif.Mic

def upd (f : Nat → V3) (j : Nat) (v : V3) : Nat → V3 := fun k => if k = j then v else f k

/-- `make_whole`: the offset subtracted from `atom2`, with the in-loop reads of the partially updated `offset` as in the code -/
def bondOffset (rnd : Rat → Int) (B : Cell) (d : V3) : V3 :=
  let nc : Rat := rnd (d.z / B.c.z)
  let o1x := nc * B.c.x
  let o1y := nc * B.c.y
  let o1z := nc * B.c.z
  let nb : Rat := rnd ((d.y - o1y) / B.b.y)
  let o2x := o1x + nb * B.b.x
  let o2y := o1y + nb * B.b.y
  let nb' : Rat := rnd ((d.y - o2y) / B.b.y)
  let o2z := o1z + nb' * B.b.z
  let na : Rat := rnd ((d.x - o2x) / B.a.x)
  let o3x := o2x + na * B.a.x
  let na' : Rat := rnd ((d.x - o3x) / B.a.x)
  ⟨o3x, o2y + na' * B.a.y, o2z + na' * B.a.z⟩

/-- the vectorised form used for anchor molecules (`np.round`, whole-vector updates) -/
def anchorOffset (rnd : Rat → Int) (B : Cell) (d : V3) : V3 :=
  let nc : Int := rnd (d.z / B.c.z)
  let o1 := V3.smul nc B.c
  let nb : Int := rnd ((d.y - o1.y) / B.b.y)
  let o2 := o1.add (V3.smul nb B.b)
  let na : Int := rnd ((d.x - o2.x) / B.a.x)
  o2.add (V3.smul na B.a)

/-- one bond of `make_whole`: move `atom2` next to `atom1` -/
def wholeStep (rnd : Rat → Int) (B : Cell) (pos : Nat → V3) (bd : Nat × Nat) : Nat → V3 :=
  upd pos bd.2 ((pos bd.2).sub (bondOffset rnd B ((pos bd.2).sub (pos bd.1))))

def makeWhole (rnd : Rat → Int) (B : Cell) (pos : Nat → V3) (bonds : List (Nat × Nat)) : Nat → V3 :=
  bonds.foldl (wholeStep rnd B) pos

/-- the order `make_whole` needs: the second atom of every pair is new, the pair is not a self-bond -/
def validOrder : List Nat → List (Nat × Nat) → Bool
  | _, [] => true
  | seen, bd :: bs => !(seen.contains bd.2) && (bd.2 != bd.1) && validOrder (bd.1 :: bd.2 :: seen) bs

/-! ### `_bonds_in_placement_order` -/

def neighborsOf (n : Nat) (bonds : List (Nat × Nat)) (i : Nat) : List Nat :=
  (List.range n).filter (fun j => bonds.any (fun b => (b.1 == i && b.2 == j) || (b.1 == j && b.2 == i)))

structure Bfs where
  placed : List Nat
  pairs : List (Nat × Nat)
  next : List Nat

def visitNeighbor (i : Nat) (st : Bfs) (j : Nat) : Bfs :=
  if st.placed.contains j then st else { placed := j :: st.placed, pairs := st.pairs ++ [(i, j)], next := st.next ++ [j] }

def visitAtom (n : Nat) (bonds : List (Nat × Nat)) (st : Bfs) (i : Nat) : Bfs :=
  (neighborsOf n bonds i).foldl (visitNeighbor i) st

/-- the `while queue:` loop, one level per unit of fuel -/
def bfsLevels (n : Nat) (bonds : List (Nat × Nat)) : Nat → Bfs → List Nat → Bfs
  | 0, st, _ => st
  | fuel + 1, st, queue =>
    if queue.isEmpty then st else
    let r := queue.foldl (visitAtom n bonds) { st with next := [] }
    bfsLevels n bonds fuel r r.next

def visitRoot (n : Nat) (bonds : List (Nat × Nat)) (st : Bfs) (root : Nat) : Bfs :=
  if st.placed.contains root || (neighborsOf n bonds root).isEmpty then st
  else bfsLevels n bonds (n + 1) { st with placed := root :: st.placed } [root]

def placementOrder (n : Nat) (bonds : List (Nat × Nat)) : List (Nat × Nat) :=
  ((List.range n).foldl (visitRoot n bonds) ⟨[], [], []⟩).pairs

/-! ### `wrap_mols` -/

/-- `mol_offset − mol_center` for a molecule whose centre (after the common translation) is `ctr` -/
def molShift (B : Cell) (ctr : V3) : V3 :=
  let kc : Rat := (ctr.z / B.c.z).floor
  let m1x := ctr.x - B.c.x * kc
  let m1y := ctr.y - B.c.y * kc
  let m1z := ctr.z - B.c.z * kc
  let kb : Rat := (m1y / B.b.y).floor
  let m2x := m1x - B.b.x * kb
  let m2y := m1y - B.b.y * kb
  let kb' : Rat := (m2y / B.b.y).floor
  let m2z := m1z - B.b.z * kb'
  let ka : Rat := (m2x / B.a.x).floor
  let m3x := m2x - B.a.x * ka
  let ka' : Rat := (m3x / B.a.x).floor
  ⟨m3x - ctr.x, m2y - B.a.y * ka' - ctr.y, m2z - B.a.z * ka' - ctr.z⟩

def vsum (pos : Nat → V3) (mol : List Nat) : V3 := mol.foldl (fun acc k => acc.add (pos k)) ⟨0, 0, 0⟩

def centroid (pos : Nat → V3) (mol : List Nat) : V3 := V3.smul (1 / (mol.length : Rat)) (vsum pos mol)

/-- move every atom of one molecule by the molecule's shift -/
def wrapMol (B : Cell) (pos : Nat → V3) (mol : List Nat) : Nat → V3 :=
  let s := molShift B (centroid pos mol)
  fun k => if mol.contains k then (pos k).add s else pos k

/-- `wrap_mols`: the common translation, then every non-anchor molecule as a unit -/
def wrapMols (B : Cell) (T : V3) (pos : Nat → V3) (mols : List (List Nat)) : Nat → V3 :=
  mols.foldl (wrapMol B) (fun k => (pos k).add T)

/-- an anchor molecule joins the cluster: all its atoms move by the offset of the closest contact `a1 → a2` -/
def anchorMove (rnd : Rat → Int) (B : Cell) (pos : Nat → V3) (mol : List Nat) (a1 a2 : Nat) : Nat → V3 :=
  let off := anchorOffset rnd B ((pos a2).sub (pos a1))
  fun k => if mol.contains k then (pos k).sub off else pos k

/-! ### list-based evaluators used by the driver

Closures `Nat → V3` re-evaluate their history on every lookup; the driver therefore runs these list versions, proved equal to the
functional model in `Properties/C11.lean` (`makeWholeL_eq`, `wrapMolsL_eq`). -/

def zero3 : V3 := ⟨0, 0, 0⟩
def ofList (l : List V3) : Nat → V3 := fun k => l.getD k zero3

def wholeStepL (rnd : Rat → Int) (B : Cell) (l : List V3) (bd : Nat × Nat) : List V3 :=
  l.set bd.2 ((l.getD bd.2 zero3).sub (bondOffset rnd B ((l.getD bd.2 zero3).sub (l.getD bd.1 zero3))))

def makeWholeL (rnd : Rat → Int) (B : Cell) (l : List V3) (bonds : List (Nat × Nat)) : List V3 :=
  bonds.foldl (wholeStepL rnd B) l

def wrapMolL (B : Cell) (l : List V3) (mol : List Nat) : List V3 :=
  let s := molShift B (centroid (ofList l) mol)
  l.mapIdx (fun k p => if mol.contains k then p.add s else p)

def wrapMolsL (B : Cell) (T : V3) (l : List V3) (mols : List (List Nat)) : List V3 :=
  mols.foldl (wrapMolL B) (l.map (fun p => p.add T))

end MdVerif.Image
