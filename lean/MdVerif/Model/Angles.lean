/-
Angles and dihedrals (C07): exact-arithmetic transcription of mdtraj/geometry/src/kernels/anglekernels.h and
dihedralkernels.h on top of C05's displacement model, and of the atom-pattern matching of
mdtraj/geometry/dihedral.py (`_atom_sequence`, PHI/PSI/OMEGA/CHI tables).
`acos` and `atan2f` are outside the model: an angle is represented by the rational quantities that determine it.
Core Lean only.
-/
import MdVerif.Model.Mic
import MdVerif.Model.Topology
namespace MdVerif.Ang
open MdVerif.Mic

/-- how bond vectors are formed: plain difference, or the minimum-image displacement kernels of C05 -/
inductive Pbc where
  | none
  | ortho (B : Cell)
  | tri (B : Cell)

def disp (rnd : Rat → Int) : Pbc → V3 → V3 → V3
  | .none, p, q => q.sub p
  | .ortho B, p, q => distOrtho rnd B (q.sub p)
  | .tri B, p, q => distTri rnd B (q.sub p)

/-- `angle`: vectors from the middle atom; returns (v1·v2, |v1|², |v2|²): cos θ = first / sqrt(second·third) -/
def angleInv (v1 v2 : V3) : Rat × Rat × Rat := (v1.dot v2, v1.norm2, v2.norm2)

def angle (rnd : Rat → Int) (pbc : Pbc) (a b c : V3) : Rat × Rat × Rat :=
  angleInv (disp rnd pbc b a) (disp rnd pbc b c)

/-- `dihedral`: returns (b1·(b2×b3), |b2|², (b2×b3)·(b1×b2)); the kernel computes atan2(first·sqrt(second), third) -/
def dihedralInv (b1 b2 b3 : V3) : Rat × Rat × Rat :=
  (b1.dot (b2.cross b3), b2.norm2, (b2.cross b3).dot (b1.cross b2))

def dihedral (rnd : Rat → Int) (pbc : Pbc) (a b c d : V3) : Rat × Rat × Rat :=
  dihedralInv (disp rnd pbc a b) (disp rnd pbc b c) (disp rnd pbc c d)

/-! ### named torsions -/

structure AtomRec where
  index : Nat
  name : String
  chain : Nat
  res : Nat        -- global residue index
  deriving Repr, DecidableEq

/-- flatten a topology into atom records (atom index, name, chain index, global residue index) -/
def recsRes (ci ri : Nat) : Nat → List Topo.Atom → List AtomRec
  | _, [] => []
  | ai, a :: as => ⟨ai, a.name, ci, ri⟩ :: recsRes ci ri (ai + 1) as

def recsChain (ci : Nat) : Nat → Nat → List Topo.Residue → List AtomRec
  | _, _, [] => []
  | ri, ai, r :: rs => recsRes ci ri ai r.atoms ++ recsChain ci (ri + 1) (ai + r.atoms.length) rs

def recsTop : Nat → Nat → Nat → List Topo.Chain → List AtomRec
  | _, _, _, [] => []
  | ci, ri, ai, c :: cs =>
    recsChain ci ri ai c.residues ++ recsTop (ci + 1) (ri + c.residues.length) (ai + c.nAtoms) cs

def atomRecs (t : Topo.Topology) : List AtomRec := recsTop 0 0 0 t.chains

/-- `atom_dict[cid][rid][name]`: the last atom of that name in the residue -/
def lookup (recs : List AtomRec) (chain : Nat) (res : Int) (name : String) : Option Nat :=
  ((recs.filter (fun r => r.chain == chain && (r.res : Int) == res && r.name == name)).getLast?).map (·.index)

def resExists (recs : List AtomRec) (chain : Nat) (res : Int) : Bool :=
  recs.any (fun r => r.chain == chain && (r.res : Int) == res)

/-- distinct (chain, residue) pairs in order -/
def residuesOf (recs : List AtomRec) : List (Nat × Nat) :=
  (recs.map (fun r => (r.chain, r.res))).eraseDups

/-- `_atom_sequence`: for every residue whose offset residues exist in the same chain and carry the named atoms -/
def atomSequence (recs : List AtomRec) (pattern : List (String × Int)) : List (Nat × List Nat) :=
  (residuesOf recs).filterMap (fun cr =>
    if pattern.all (fun p => resExists recs cr.1 ((cr.2 : Int) + p.2)) then
      (pattern.mapM (fun p => lookup recs cr.1 ((cr.2 : Int) + p.2) p.1)).map (fun q => (cr.2, q))
    else none)

def PHI : List (String × Int) := [("C", -1), ("N", 0), ("CA", 0), ("C", 0)]
def PSI : List (String × Int) := [("N", 0), ("CA", 0), ("C", 0), ("N", 1)]
def OMEGA : List (String × Int) := [("CA", 0), ("C", 0), ("N", 1), ("CA", 1)]

end MdVerif.Ang
