/-
Neighbour searches (C10): exact-arithmetic transcription of mdtraj/geometry/src/neighbors.cpp (`_compute_neighbors`,
which *is* the specification: a double loop with the wrap of C05 and `dist2 < cutoff2`) and of the two ends of
mdtraj/geometry/src/neighborlist.cpp: what the voxel search must find (`neighborlistSpec`, `dSquared > max → skip`,
i.e. `≤`) and the symmetric completion of the half lists.  The voxel pruning itself is not modelled (DESIGN: partial).
Core Lean only.
-/
import MdVerif.Model.Mic
namespace MdVerif.Nb
open MdVerif.Mic

inductive Wrap where
  | none
  | ortho (B : Cell)
  | tri (B : Cell)      -- reduce, then wrap along c, b, a (no 27-image search in these kernels)

def Wrap.apply (rnd : Rat → Int) : Wrap → V3 → V3
  | .none, r => r
  | .ortho B, r => distOrtho rnd B r
  | .tri B, r => wrapTri rnd (reduce rnd B) r

def getD0 (pos : List V3) (i : Nat) : V3 := pos.getD i ⟨0, 0, 0⟩

/-- squared wrapped distance between atoms `i` and `j` -/
def d2 (rnd : Rat → Int) (w : Wrap) (pos : List V3) (i j : Nat) : Rat :=
  (w.apply rnd ((getD0 pos i).sub (getD0 pos j))).norm2

/-- `_compute_neighbors`: the haystack atoms within the cutoff of at least one other query atom, in haystack order -/
def neighbors (rnd : Rat → Int) (w : Wrap) (pos : List V3) (cutoff2 : Rat) (query haystack : List Nat) : List Nat :=
  haystack.filter (fun i => query.any (fun j => i != j && decide (d2 rnd w pos i j < cutoff2)))

/-- what `Voxels::getNeighbors` must return for atom `i`: the lower-indexed atoms within the cutoff (`≤`) -/
def halfList (rnd : Rat → Int) (w : Wrap) (pos : List V3) (cutoff2 : Rat) (i : Nat) : List Nat :=
  (List.range i).filter (fun j => decide (d2 rnd w pos i j ≤ cutoff2))

/-- "Add in the symmetric entries": list `k` receives every later atom `i` whose half list contains `k` -/
def complete (H : List (List Nat)) : List (List Nat) :=
  (List.range H.length).map (fun k => H.getD k [] ++ (List.range H.length).filter (fun i => (H.getD i []).contains k))

def neighborlist (rnd : Rat → Int) (w : Wrap) (pos : List V3) (cutoff2 : Rat) : List (List Nat) :=
  complete ((List.range pos.length).map (halfList rnd w pos cutoff2))

end MdVerif.Nb
