/-
Minimum-image displacements (C05; reused by C07, C09, C10, C11, C14): exact-arithmetic (ℚ) transcription of

* `dist_mic`            mdtraj/geometry/src/kernels/distancekernels.h   r -= round(r/L)·L          (orthorhombic)
* `dist_mic_triclinic`  mdtraj/geometry/src/geometry.cpp               reduce the box, wrap along c, b, a,
                                                                        then search the 27 neighbouring images (`<=`: last wins)
* `_reduce_box_vectors`, `_displacement_mic`  mdtraj/geometry/distance.py  (numpy reference path; `<` : first wins)

Every float32/float64 input is a rational, so the model runs on literally the same inputs as the kernels; the
kernels' own roundings are outside the model (DESIGN §3.2).  Core Lean only.
-/
namespace MdVerif.Mic

/-- C `roundf`/`round`: half away from zero -/
def roundHA (x : Rat) : Int := if 0 ≤ x then (x + 1/2).floor else -((-x + 1/2).floor)

/-- `_mm_round_ps2` of vectorize_sse.h: truncation plus truncated 2·remainder, i.e. half toward zero -/
def roundHZ (x : Rat) : Int := if 0 ≤ x then -((1/2 - x).floor) else (x + 1/2).floor

/-- python/numpy `round`: half to even -/
def roundHE (x : Rat) : Int :=
  let f := x.floor
  let d := x - f
  if d < 1/2 then f else if 1/2 < d then f + 1 else if f % 2 = 0 then f else f + 1

structure V3 where
  x : Rat
  y : Rat
  z : Rat
  deriving DecidableEq, Repr

namespace V3
def add (a b : V3) : V3 := ⟨a.x + b.x, a.y + b.y, a.z + b.z⟩
def sub (a b : V3) : V3 := ⟨a.x - b.x, a.y - b.y, a.z - b.z⟩
def smul (k : Rat) (a : V3) : V3 := ⟨k * a.x, k * a.y, k * a.z⟩
def dot (a b : V3) : Rat := a.x * b.x + a.y * b.y + a.z * b.z
def norm2 (a : V3) : Rat := dot a a
def cross (a b : V3) : V3 := ⟨a.y * b.z - a.z * b.y, a.z * b.x - a.x * b.z, a.x * b.y - a.y * b.x⟩
end V3

/-- a periodic cell: the three box vectors (rows of `unitcell_vectors`) -/
structure Cell where
  a : V3
  b : V3
  c : V3
  deriving DecidableEq, Repr

/-- lattice vector `i·a + j·b + k·c` -/
def Cell.latt (B : Cell) (i j k : Int) : V3 :=
  (V3.smul i B.a).add ((V3.smul j B.b).add (V3.smul k B.c))

/-! ### orthorhombic kernel -/

def wrap1 (rnd : Rat → Int) (r L : Rat) : Rat := r - (rnd (r / L) : Rat) * L

/-- `dist_mic`: uses only the diagonal of the box matrix -/
def distOrtho (rnd : Rat → Int) (B : Cell) (r : V3) : V3 :=
  ⟨wrap1 rnd r.x B.a.x, wrap1 rnd r.y B.b.y, wrap1 rnd r.z B.c.z⟩

/-- the integer shifts applied by `distOrtho` -/
def shiftOrtho (rnd : Rat → Int) (B : Cell) (r : V3) : Int × Int × Int :=
  (-rnd (r.x / B.a.x), -rnd (r.y / B.b.y), -rnd (r.z / B.c.z))

/-! ### triclinic kernel -/

/-- box reduction as coded: c -= b·round(c_y/b_y); c -= a·round(c_x/a_x); b -= a·round(b_x/a_x) -/
def reduce (rnd : Rat → Int) (B : Cell) : Cell :=
  let c1 := B.c.sub (V3.smul (rnd (B.c.y / B.b.y)) B.b)
  let c2 := c1.sub (V3.smul (rnd (c1.x / B.a.x)) B.a)
  let b1 := B.b.sub (V3.smul (rnd (B.b.x / B.a.x)) B.a)
  ⟨B.a, b1, c2⟩

/-- wrap along c, then b, then a, with the reciprocal of the diagonal of the (reduced) box -/
def wrapTri (rnd : Rat → Int) (B : Cell) (r : V3) : V3 :=
  let r1 := r.sub (V3.smul (rnd (r.z / B.c.z)) B.c)
  let r2 := r1.sub (V3.smul (rnd (r1.y / B.b.y)) B.b)
  r2.sub (V3.smul (rnd (r2.x / B.a.x)) B.a)

def offsets : List Int := [-1, 0, 1]

/-- the 27 images in the kernel's loop order (x outermost, z innermost) -/
def images27 (B : Cell) (r : V3) : List ((Int × Int × Int) × V3) :=
  offsets.flatMap (fun x => offsets.flatMap (fun y => offsets.map (fun z => ((x, y, z), r.add (B.latt x y z)))))

/-- `if (dist2 <= min_dist2)`: the last of the minimal candidates wins (C kernel) -/
def pickLast (cands : List ((Int × Int × Int) × V3)) (init : (Int × Int × Int) × V3) : (Int × Int × Int) × V3 :=
  cands.foldl (fun best c => if c.2.norm2 ≤ best.2.norm2 then c else best) init

/-- `<`: the first of the minimal candidates wins (numpy reference path) -/
def pickFirst (cands : List ((Int × Int × Int) × V3)) (init : (Int × Int × Int) × V3) : (Int × Int × Int) × V3 :=
  cands.foldl (fun best c => if c.2.norm2 < best.2.norm2 then c else best) init

/-- `dist_mic_triclinic` on one pair: reduced box, wrapped vector, best of the 27 images -/
def distTri (rnd : Rat → Int) (B : Cell) (r : V3) : V3 :=
  let R := reduce rnd B
  let w := wrapTri rnd R r
  match images27 R w with
  | [] => w
  | c0 :: cs => (pickLast cs c0).2

/-- squared distance reported -/
def dist2Tri (rnd : Rat → Int) (B : Cell) (r : V3) : Rat := (distTri rnd B r).norm2

end MdVerif.Mic
