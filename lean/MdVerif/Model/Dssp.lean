/-
Secondary structure (C15): transcription of mdtraj/geometry/src/dssp.cpp (bridge test, bridge/ladder construction with bulge merging,
helix flags, H/G/I assignment, turns and bends) and of the post-processing of mdtraj/geometry/dssp.py, as functions of the backbone hydrogen-bond
relation `B donor acceptor` (what kabsch_sander reports), the chain ids, the skip mask and the bend flags.
Loop order: dssp.cpp walks `std::map` chains in ascending chain id and each chain's residues in ascending order; with chain ids that do not
decrease along the residue list (always the case for a Topology) this is the plain ascending order used here.  `std::sort` of the bridges is
modelled by a stable insertion sort (equal keys keep their order).  Core Lean only.
-/
namespace MdVerif.Dssp

inductive HF where
  | none | start | endF | startEnd | middle
  deriving DecidableEq, Repr

inductive SS where
  | loop | alpha | bridge | strand | helix3 | helix5 | turn | bend
  deriving DecidableEq, Repr

inductive BT where
  | none | parallel | anti
  deriving DecidableEq, Repr

def HF.isStart (f : HF) : Bool := f == .start || f == .startEnd

/-- residue i has both neighbours, in one chain (a = i-1 ≥ 0, c = i+1 < n, chain_ids[a] == chain_ids[c]) -/
def okAt (chain : Nat → Nat) (n i : Nat) : Bool := decide (1 ≤ i) && decide (i + 1 < n) && chain (i - 1) == chain (i + 1)

/-- `_residue_test_bridge(i, j, …)`: a = i-1, b = i, c = i+1, d = j-1, e = j, f = j+1 -/
def testBridge (B : Nat → Nat → Bool) (chain : Nat → Nat) (n i j : Nat) : BT :=
  if okAt chain n i && okAt chain n j then
    if (B (i + 1) j && B j (i - 1)) || (B (j + 1) i && B i (j - 1)) then .parallel
    else if (B (i + 1) (j - 1) && B (j + 1) (i - 1)) || (B j i && B i j) then .anti
    else .none
  else .none

structure Bridge where
  type : BT
  is : List Nat        -- deque i, front first
  js : List Nat        -- deque j, front first
  chainI : Nat
  chainJ : Nat
  deriving Repr

def front (l : List Nat) : Nat := l.headD 0
def back (l : List Nat) : Nat := l.getLastD 0

/-- extend the first matching bridge, or none -/
def extend (type : BT) (i j : Nat) : List Bridge → Option (List Bridge)
  | [] => none
  | b :: bs =>
    if type != b.type || i != back b.is + 1 then (extend type i j bs).map (b :: ·)
    else if type == .parallel && back b.js + 1 == j then some ({ b with is := b.is ++ [i], js := b.js ++ [j] } :: bs)
    else if type == .anti && front b.js == j + 1 then some ({ b with is := b.is ++ [i], js := j :: b.js } :: bs)
    else (extend type i j bs).map (b :: ·)

/-- the double loop that collects bridges -/
def collect (B : Nat → Nat → Bool) (chain : Nat → Nat) (skip : Nat → Bool) (n : Nat) : List Bridge :=
  (List.range n).foldl (fun bs i =>
    if i < 1 || ¬ (i + 4 < n) then bs else
    (List.range n).foldl (fun bs j =>
      if j < i + 3 || ¬ (j + 1 < n) then bs else
      let t := testBridge B chain n j i
      if t == .none || skip i || skip j then bs else
      match extend t i j bs with
      | some bs' => bs'
      | none => bs ++ [{ type := t, is := [i], js := [j], chainI := chain i, chainJ := chain j }]) bs) []

def Bridge.lt (a b : Bridge) : Bool := a.chainI < b.chainI || (a.chainI == b.chainI && front a.is < front b.is)

def insertSorted (x : Bridge) : List Bridge → List Bridge
  | [] => [x]
  | y :: ys => if x.lt y then x :: y :: ys else y :: insertSorted x ys

def sortBridges (l : List Bridge) : List Bridge := l.foldl (fun acc x => insertSorted x acc) []

/-- should bridge `b` (later in the list) be merged into `a` as a bulge-linked continuation -/
def mergeable (chain : Nat → Nat) (a b : Bridge) : Bool :=
  let ibi := front a.is; let iei := back a.is; let jbi := front a.js; let jei := back a.js
  let ibj := front b.is; let iej := back b.is; let jbj := front b.js; let jej := back b.js
  if a.type != b.type || chain (min ibi ibj) != chain (max iei iej) || chain (min jbi jbj) != chain (max jei jej) ||
      (ibj : Int) - iei ≥ 6 || (iei ≥ ibj && ibi ≤ iej) then false
  else if a.type == .parallel then
    jbj > jbi && (((jbj : Int) - jei < 6 && (ibj : Int) - iei < 3) || ((jbj : Int) - jei < 3))
  else
    jbj < jbi && (((jbi : Int) - jej < 6 && (ibj : Int) - iei < 3) || ((jbi : Int) - jej < 3))

def mergeInto (a b : Bridge) : Bridge :=
  { a with is := a.is ++ b.is, js := if a.type == .parallel then a.js ++ b.js else b.js ++ a.js }

/-- inner loop over `j` for a fixed `i`: returns the updated bridge `a` and the remaining later bridges -/
def mergeInner (chain : Nat → Nat) (a : Bridge) : List Bridge → Bridge × List Bridge
  | [] => (a, [])
  | b :: bs =>
    if mergeable chain a b then mergeInner chain (mergeInto a b) bs
    else let r := mergeInner chain a bs; (r.1, b :: r.2)

def mergeAll (chain : Nat → Nat) : Nat → List Bridge → List Bridge
  | 0, l => l
  | _, [] => []
  | fuel + 1, a :: rest => let r := mergeInner chain a rest; r.1 :: mergeAll chain fuel r.2

def setRange (sec : List SS) (lo hi : Nat) (ss : SS) : List SS :=
  sec.mapIdx (fun k s => if lo ≤ k && k ≤ hi && s != .strand then ss else s)

def minL (l : List Nat) : Nat := l.foldl min (front l)
def maxL (l : List Nat) : Nat := l.foldl max (front l)

/-- every ladder marks its two strands from the smallest to the largest member (after bulge merging the deques need not be monotonic) -/
def markBridges (sec : List SS) (bs : List Bridge) : List SS :=
  bs.foldl (fun sec b =>
    let ss := if b.is.length > 1 then SS.strand else SS.bridge
    setRange (setRange sec (minL b.is) (maxL b.is) ss) (minL b.js) (maxL b.js) ss) sec

def betaSheets (B : Nat → Nat → Bool) (chain : Nat → Nat) (skip : Nat → Bool) (n : Nat) : List SS :=
  let bs := sortBridges (collect B chain skip n)
  markBridges (List.replicate n SS.loop) (mergeAll chain bs.length bs)

/-! ### helices, turns, bends -/

def setIf (l : List HF) (k : Nat) (f : HF → HF) : List HF := l.mapIdx (fun i x => if i == k then f x else x)

/-- one step of the flag loop for residue `i` and stride `s` -/
def flagStep (B : Nat → Nat → Bool) (chain : Nat → Nat) (n s : Nat) (fl : List HF) (i : Nat) : List HF :=
  if i + s < n && B (i + s) i && chain i == chain (i + s) then
    let fl1 := setIf fl (i + s) (fun _ => .endF)
    let fl2 := fl1.mapIdx (fun j x => if i < j && j < i + s && x == .none then .middle else x)
    setIf fl2 i (fun x => if x == .endF then .startEnd else .start)
  else fl

def helixFlags (B : Nat → Nat → Bool) (chain : Nat → Nat) (n s : Nat) : List HF :=
  (List.range n).foldl (flagStep B chain n s) (List.replicate n HF.none)

def startAt (fl : List HF) (i : Nat) : Bool := (fl.getD i .none).isStart

def fillIf (sec : List SS) (lo len : Nat) (ok : SS → Bool) (ss : SS) : List SS :=
  if (List.range len).all (fun t => ok (sec.getD (lo + t) .loop)) then sec.mapIdx (fun k s => if lo ≤ k && k < lo + len then ss else s) else sec

def helices (f3 f4 f5 : List HF) (n : Nat) (sec : List SS) : List SS :=
  let s1 := (List.range n).foldl (fun sec i =>
    if 1 ≤ i && i + 4 < n && startAt f4 i && startAt f4 (i - 1) then fillIf sec i 4 (fun _ => true) .alpha else sec) sec
  let s2 := (List.range n).foldl (fun sec i =>
    if 1 ≤ i && i + 3 < n && startAt f3 i && startAt f3 (i - 1) then fillIf sec i 3 (fun s => s == .loop || s == .helix3) .helix3 else sec) s1
  (List.range n).foldl (fun sec i =>
    if 1 ≤ i && i + 5 < n && startAt f5 i && startAt f5 (i - 1) then fillIf sec i 5 (fun s => s == .loop || s == .helix5 || s == .alpha) .helix5 else sec) s2

def isTurn (f3 f4 f5 : List HF) (i : Nat) : Bool :=
  [(3, f3), (4, f4), (5, f5)].any (fun sf => (List.range sf.1).any (fun k => 1 ≤ k && k ≤ i && startAt sf.2 (i - k)))

/-- `calculate_bends` evaluates the angle at residue i only under these conditions -/
def bendOK (chain : Nat → Nat) (skip : Nat → Bool) (n i : Nat) : Bool :=
  2 ≤ i && i + 2 < n && chain (i - 2) == chain (i + 2) && !skip (i - 2) && !skip i && !skip (i + 2)

/-- `kappa i`: the C-alpha angle at i exceeds 70 degrees -/
def turnsBends (f3 f4 f5 : List HF) (chain : Nat → Nat) (skip kappa : Nat → Bool) (n : Nat) (sec : List SS) : List SS :=
  sec.mapIdx (fun i s =>
    if 1 ≤ i && i + 1 < n && s == .loop && !skip i then
      (if isTurn f3 f4 f5 i then .turn else if bendOK chain skip n i && kappa i then .bend else s)
    else s)

/-- the secondary structure of one frame -/
def dsspFrame (B : Nat → Nat → Bool) (chain : Nat → Nat) (skip kappa : Nat → Bool) (n : Nat) : List SS :=
  let f3 := helixFlags B chain n 3
  let f4 := helixFlags B chain n 4
  let f5 := helixFlags B chain n 5
  turnsBends f3 f4 f5 chain skip kappa n (helices f3 f4 f5 n (betaSheets B chain skip n))

def SS.code : SS → Char
  | .alpha => 'H' | .bridge => 'B' | .strand => 'E' | .helix3 => 'G' | .helix5 => 'I' | .turn => 'T' | .bend => 'S' | .loop => ' '

/-- SIMPLIFIED_CODE_TRANSLATION of dssp.py -/
def simplify : Char → Char
  | 'H' => 'H' | 'G' => 'H' | 'I' => 'H' | 'E' => 'E' | 'B' => 'E' | 'T' => 'C' | 'S' => 'C' | ' ' => 'C' | c => c

/-- compute_dssp for one frame: the code of every residue, "NA" for residues that are not complete protein residues -/
def computeDssp (B : Nat → Nat → Bool) (chain : Nat → Nat) (skip kappa : Nat → Bool) (n : Nat) (simplified : Bool) : List String :=
  (dsspFrame B chain skip kappa n).mapIdx (fun i s => if skip i then "NA" else String.singleton (if simplified then simplify s.code else s.code))

end MdVerif.Dssp
