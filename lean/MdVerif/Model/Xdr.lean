/-
Byte-level model of the GROMACS .trr file as mdtraj writes and reads it (property C01: "a file written by mdtraj holds, in the format's
native units and layout, the numbers an independent reader of that format extracts").

XDR: every item is a big-endian 32-bit word (the 12-byte version tag "GMX_trn_file" is three words).  A single-precision frame is
  1993, 13, 12, "GMX_", "trn_", "file",                                   magic, length of the tag (with its terminator), the xdr string
  ir_size e_size box_size vir_size pres_size top_size sym_size x_size v_size f_size natoms step nre   thirteen integers
  time lambda                                                              two floats
  box (box_size/4 words: the rows a, b, c), vir, pres, x (x_size/4 words: atom by atom), v, f
Transcribed from mdtraj/formats/xtc/src/xdrfile_trr.c (`do_trnheader`, `do_htrn`, single precision branch).  `parseFrame` follows the sizes
announced in the header, as any reader of the format does; `renderFrame` is what `write_trr` emits (box and positions only).
IEEE-754 single precision words are decoded to exact rationals (`f32ToRat`).  Core Lean only.
-/
namespace MdVerif.Xdr

/-- the four bytes of a 32-bit word, most significant first -/
def be32 (w : Nat) : List Nat := [w / 16777216 % 256, w / 65536 % 256, w / 256 % 256, w % 256]

def bytesOfWords (ws : List Nat) : List Nat := ws.flatMap be32

/-- a byte string as 32-bit words; `none` unless its length is a multiple of four -/
def toWords : List Nat → Option (List Nat)
  | [] => some []
  | a :: b :: c :: d :: r => (toWords r).map (fun ws => (a * 16777216 + b * 65536 + c * 256 + d) :: ws)
  | _ => none

structure Frame where
  natoms : Nat
  step : Nat
  time : Nat          -- the words of the two floats
  lambda : Nat
  box : List Nat      -- 9 words, rows a b c (empty: no box stored)
  x : List Nat        -- 3·natoms words
  deriving DecidableEq, Repr

def tagWords : List Nat := [1196251231, 1953656415, 1718185061]     -- "GMX_" "trn_" "file"

/-- `write_trr` for one frame -/
def renderFrame (f : Frame) : List Nat :=
  [1993, 13, 12] ++ tagWords ++ [0, 0, 4 * f.box.length, 0, 0, 0, 0, 4 * f.x.length, 0, 0, f.natoms, f.step, 0, f.time, f.lambda] ++ f.box ++ f.x

/-- one frame from the front of a word list, following the sizes in its header (single precision: four bytes per real) -/
def parseFrame : List Nat → Option (Frame × List Nat)
  | magic :: slen :: n :: t1 :: t2 :: t3 :: ir :: e :: boxS :: vir :: pres :: top :: sym :: xS :: vS :: fS :: natoms :: step :: _nre :: time :: lam :: rest =>
    if magic = 1993 ∧ slen = 13 ∧ n = 12 ∧ [t1, t2, t3] = tagWords ∧ ir = 0 ∧ e = 0 ∧ top = 0 ∧ sym = 0 ∧
        boxS % 4 = 0 ∧ vir % 4 = 0 ∧ pres % 4 = 0 ∧ xS % 4 = 0 ∧ vS % 4 = 0 ∧ fS % 4 = 0 ∧
        (boxS = 0 ∨ boxS = 36) ∧ (xS = 0 ∨ xS = 12 * natoms) then
      let r1 := rest.drop (boxS / 4)
      let r2 := r1.drop (vir / 4 + pres / 4)
      let r3 := r2.drop (xS / 4)
      if (boxS / 4 + vir / 4 + pres / 4 + xS / 4 + vS / 4 + fS / 4) ≤ rest.length then
        some (⟨natoms, step, time, lam, rest.take (boxS / 4), r2.take (xS / 4)⟩, r3.drop (vS / 4 + fS / 4))
      else none
    else none
  | _ => none

def parseAll : Nat → List Nat → Option (List Frame)
  | _, [] => some []
  | 0, _ => none
  | fuel + 1, ws => match parseFrame ws with
    | some (f, rest) => (parseAll fuel rest).map (f :: ·)
    | none => none

/-- the frames of a .trr file given as bytes -/
def readTrr (bytes : List Nat) : Option (List Frame) := (toWords bytes).bind (fun ws => parseAll (ws.length + 1) ws)

def writeTrr (fs : List Frame) : List Nat := bytesOfWords (fs.flatMap renderFrame)

/-- a frame as mdtraj writes it: 9 box words or none, three words per atom, every field a 32-bit word -/
def Frame.WF (f : Frame) : Prop :=
  (f.box.length = 9 ∨ f.box.length = 0) ∧ f.x.length = 3 * f.natoms ∧
  f.natoms < 4294967296 ∧ f.step < 4294967296 ∧ f.time < 4294967296 ∧ f.lambda < 4294967296 ∧
  (∀ w ∈ f.box, w < 4294967296) ∧ (∀ w ∈ f.x, w < 4294967296) ∧ 12 * f.natoms < 4294967296


/-! ### .xtc frames (mdtraj/formats/xtc/src/xdrfile_xtc.c `xtc_header`, `xtc_coord`; xdrfile.c `xdrfile_compress_coord_float`)

  1995 natoms step time box(9 floats) natoms  then
  * natoms ≤ 9: 3·natoms floats, uncompressed;
  * otherwise: precision(float) minint(3) maxint(3) smallidx nbytes, then nbytes of packed integers padded to a multiple of four.
The packed integers are not decoded here: the reader below follows the byte count and keeps the payload words. -/

structure XtcFrame where
  natoms : Nat
  step : Nat
  time : Nat
  box : List Nat            -- 9 words
  x : List Nat              -- 3·natoms words when natoms ≤ 9, else empty
  packed : List Nat         -- for natoms > 9: precision, minint, maxint, smallidx, nbytes and the payload words
  deriving DecidableEq, Repr

def renderXtc (f : XtcFrame) : List Nat := [1995, f.natoms, f.step, f.time] ++ f.box ++ [f.natoms] ++ f.x ++ f.packed

def parseXtcFrame : List Nat → Option (XtcFrame × List Nat)
  | magic :: natoms :: step :: time :: rest =>
    if magic = 1995 ∧ 10 ≤ rest.length ∧ (rest.drop 9).head? = some natoms then
      let body := rest.drop 10
      if natoms ≤ 9 then
        if 3 * natoms ≤ body.length then some (⟨natoms, step, time, rest.take 9, body.take (3 * natoms), []⟩, body.drop (3 * natoms)) else none
      else
        match body.drop 8 with
        | nbytes :: _ =>
          let n := 9 + (nbytes + 3) / 4
          if n ≤ body.length then some (⟨natoms, step, time, rest.take 9, [], body.take n⟩, body.drop n) else none
        | [] => none
    else none
  | _ => none

def parseXtcAll : Nat → List Nat → Option (List XtcFrame)
  | _, [] => some []
  | 0, _ => none
  | fuel + 1, ws => match parseXtcFrame ws with
    | some (f, rest) => (parseXtcAll fuel rest).map (f :: ·)
    | none => none

def readXtc (bytes : List Nat) : Option (List XtcFrame) := (toWords bytes).bind (fun ws => parseXtcAll (ws.length + 1) ws)

def writeXtc (fs : List XtcFrame) : List Nat := bytesOfWords (fs.flatMap renderXtc)

/-- a frame of at most nine atoms as mdtraj writes it (uncompressed) -/
def XtcFrame.SmallWF (f : XtcFrame) : Prop :=
  f.natoms ≤ 9 ∧ f.box.length = 9 ∧ f.x.length = 3 * f.natoms ∧ f.packed = [] ∧
  f.step < 4294967296 ∧ f.time < 4294967296 ∧ (∀ w ∈ f.box, w < 4294967296) ∧ (∀ w ∈ f.x, w < 4294967296)

/-- the value of an IEEE-754 single precision word, exactly (`none`: infinity or NaN) -/
def f32ToRat (w : Nat) : Option Rat :=
  let sign : Int := if w / 2147483648 % 2 = 1 then -1 else 1
  let e := w / 8388608 % 256
  let m := w % 8388608
  if e = 255 then none
  else if e = 0 then some (sign * (m : Int) / (2 : Rat) ^ 149)
  else if e ≥ 150 then some (sign * ((8388608 + m : Nat) : Int) * (2 : Rat) ^ (e - 150))
  else some (sign * ((8388608 + m : Nat) : Int) / (2 : Rat) ^ (150 - e))

end MdVerif.Xdr
