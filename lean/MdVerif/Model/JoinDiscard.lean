/-
`Trajectory.join(other, discard_overlapping_frames=True)` and `md.join` / `md.load([...], discard_overlapping_frames=True)` (property C03):
the pieces are whole trajectories, a frame is whatever a trajectory carries per frame (coordinates, time, cell: `trajectories[i][:-1]` slices
all of them together), `close` is the code's test "every atom within 2e-3 nm" between the last frame of a piece and the first frame of the
next one *as given* (the next piece is shortened only in its own turn).  Core Lean only.
-/
namespace MdVerif.JoinDiscard

/-- does the junction between `a` and the piece after it overlap? (`x0 = a.xyz[-1]`, `x1 = b.xyz[0]`) -/
def overlaps {α : Type} (close : α → α → Bool) (a b : List α) : Bool :=
  match a.getLast?, b.head? with
  | some x0, some x1 => close x0 x1
  | _, _ => false

/-- the pieces after the loop over the junctions: piece `i` loses its last frame when it overlaps with piece `i+1` -/
def trimmed {α : Type} (close : α → α → Bool) : List (List α) → List (List α)
  | [] => []
  | [a] => [a]
  | a :: b :: rest => (if overlaps close a b then a.dropLast else a) :: trimmed close (b :: rest)

def joinDiscard {α : Type} (close : α → α → Bool) (ps : List (List α)) : List α := (trimmed close ps).flatten

/-- the number of overlapping junctions -/
def junctions {α : Type} (close : α → α → Bool) : List (List α) → Nat
  | [] => 0
  | [_] => 0
  | a :: b :: rest => (if overlaps close a b then 1 else 0) + junctions close (b :: rest)

end MdVerif.JoinDiscard
