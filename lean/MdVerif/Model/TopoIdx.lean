/-
Model of `mdtraj.Topology` for topologies whose atom numbering does NOT follow the chain / residue nesting
(property C04; an atom appended to an earlier residue with `add_atom`, or `insert_atom(index=…)`).

`Model/Topology.lean` identifies an atom's index with its position in the flattened chains → residues → atoms
order.  Here the atoms are a list in *index* order (the order of the coordinate columns of a Trajectory) and each
atom names its residue; residues are a list in chain / residue order and each names its chain.  Transcribed from
mdtraj/core/topology.py after the `fix:` commits: `_topology_from_subset` (residues that keep an atom, in their
order; then the kept atoms in index order), `join` (residues of `other`, then its atoms in index order; with
`keep_resSeq=False` numbering continues from the residue of the *last atom*), `copy`.  Core Lean only.
-/
import MdVerif.Model.Topology
namespace MdVerif.Topo

structure IAtom where
  name : String
  elem : String
  serial : Option Int
  res : Nat
  deriving DecidableEq, Repr

structure IRes where
  name : String
  resSeq : Int
  segId : String
  chain : Nat
  deriving DecidableEq, Repr

structure ITop where
  chainIds : List (Option String)
  residues : List IRes
  atoms : List IAtom
  bonds : List Bond
  deriving DecidableEq, Repr

/-- what an atom is, apart from where it sits -/
def IAtom.core (a : IAtom) : String × String × Option Int := (a.name, a.elem, a.serial)
def Atom.core (a : Atom) : String × String × Option Int := (a.name, a.elem, a.serial)
def IRes.core (r : IRes) : String × Int × String := (r.name, r.resSeq, r.segId)

/-- keep the elements whose position (counted from `base`) satisfies `keep` -/
def filterIdx {α : Type} (keep : Nat → Bool) : Nat → List α → List α
  | _, [] => []
  | base, a :: as => if keep base then a :: filterIdx keep (base + 1) as else filterIdx keep (base + 1) as

/-- `Topology.subset`: the kept atoms in index order; the residues that keep at least one atom; the chains that
keep at least one residue; references renumbered by rank -/
def isubset (t : ITop) (keep : Nat → Bool) : ITop :=
  let atoms' := filterIdx keep 0 t.atoms
  let usedR : Nat → Bool := fun r => atoms'.any (fun a => a.res == r)
  let res' := filterIdx usedR 0 t.residues
  let usedC : Nat → Bool := fun c => res'.any (fun r => r.chain == c)
  { chainIds := filterIdx usedC 0 t.chainIds
    residues := res'.map (fun r => { r with chain := rank usedC r.chain })
    atoms := atoms'.map (fun a => { a with res := rank usedR a.res })
    bonds := (t.bonds.filter (fun b => keep b.i && keep b.j)).map
      (fun b => { b with i := rank keep b.i, j := rank keep b.j }) }

/-- numpy-style gathering: the elements at the listed positions, in the listed order (positions that name nothing select nothing) -/
def gatherIdx {α : Type} (l : List α) (idx : List Nat) : List α := idx.filterMap (l[·]?)

/-- a bond of the source in the subset: both ends found (first copies), the lower new index first -/
def rebond (firstPos : Nat → Option Nat) (b : Bond) : Option Bond :=
  match firstPos b.i, firstPos b.j with
  | some x, some y => some { b with i := min x y, j := max x y }
  | _, _ => none

/-- `Topology.subset(atom_indices)` for an index *list* (after the `fix:`): the atoms follow the list as numpy indexing of the coordinate
columns does — any order, repeats allowed; a bond goes to the first copy of each of its atoms and stores the lower new index first -/
def isubsetL (t : ITop) (idx : List Nat) : ITop :=
  let atoms' := gatherIdx t.atoms idx
  let usedR : Nat → Bool := fun r => atoms'.any (fun a => a.res == r)
  let res' := filterIdx usedR 0 t.residues
  let usedC : Nat → Bool := fun c => res'.any (fun r => r.chain == c)
  let live := idx.filter (· < t.atoms.length)
  let firstPos : Nat → Option Nat := fun i => live.findIdx? (· == i)
  { chainIds := filterIdx usedC 0 t.chainIds
    residues := res'.map (fun r => { r with chain := rank usedC r.chain })
    atoms := atoms'.map (fun a => { a with res := rank usedR a.res })
    bonds := t.bonds.filterMap (rebond firstPos) }

def icopy (t : ITop) : ITop := { chainIds := t.chainIds, residues := t.residues, atoms := t.atoms, bonds := t.bonds }

def renumberIRes : Int → List IRes → List IRes
  | _, [] => []
  | s, r :: rs => { r with resSeq := s + 1 } :: renumberIRes (s + 1) rs

/-- `a.join(b, keep_resSeq)` -/
def ijoin (a b : ITop) (keepResSeq : Bool) : ITop :=
  let last : Int := match a.atoms.getLast? with
    | some x => (match a.residues[x.res]? with | some r => r.resSeq | none => 0)
    | none => 0
  let rb := if keepResSeq then b.residues else renumberIRes last b.residues
  { chainIds := a.chainIds ++ b.chainIds
    residues := a.residues ++ rb.map (fun r => { r with chain := r.chain + a.chainIds.length })
    atoms := a.atoms ++ b.atoms.map (fun x => { x with res := x.res + a.residues.length })
    bonds := a.bonds ++ b.bonds.map (shiftBond a.atoms.length) }

/-! ### the nested model as a special case -/

def flattenRes (ci : Nat) : List Residue → List IRes
  | [] => []
  | r :: rs => ⟨r.name, r.resSeq, r.segId, ci⟩ :: flattenRes ci rs

def flattenChains : Nat → List Chain → List IRes
  | _, [] => []
  | ci, c :: cs => flattenRes ci c.residues ++ flattenChains (ci + 1) cs

def flattenAtoms : Nat → List Residue → List IAtom
  | _, [] => []
  | ri, r :: rs => r.atoms.map (fun a => ⟨a.name, a.elem, a.serial, ri⟩) ++ flattenAtoms (ri + 1) rs

/-- an ordered topology (index = flattened position) in the indexed representation -/
def ofNested (t : Topology) : ITop :=
  { chainIds := t.chains.map (·.chainId)
    residues := flattenChains 0 t.chains
    atoms := flattenAtoms 0 t.residues
    bonds := t.bonds }

end MdVerif.Topo
