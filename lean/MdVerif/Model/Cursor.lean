/-
Model of mdtraj's trajectory-file *readers* as cursors (properties C02, C18).

A file is the list of its frames (`List α`, `α` opaque: every theorem is parametric in the
frame type and holds for files of every size).  Per format the reader state and the
operations `read / seek / tell / len` are transcribed from the code:

* h5   mdtraj/formats/hdf5.py      read: `slice(fi, min(fi+n*stride,total), stride)`, `fi = stop`
* nc   mdtraj/formats/netcdf.py    read: `n *= stride`, slice, `fi = min(fi+n,total)`
* xtc  mdtraj/formats/xtc/xtc.pyx  `_read` with the raw XDR pointer (`phys`), `frame_counter`
                                    (`pos`), the cached offsets flag (`offs`) and the
                                    "efficient striding" branch with its end-of-file case
* trr  mdtraj/formats/xtc/trr.pyx  as xtc, but `frame_counter += i` counts the failed read
* dcd  mdtraj/formats/dcd/dcd.pyx  `setsread` is the position; skip-reads for stride/seek
* txt  mdcrd / xyz / lammpstrj / arc: `_frame_index`, skip-reads, rewind on backward seek

Core Lean only (no Mathlib import): this file is also compiled into the driver executable.
-/
namespace MdVerif

/-- numpy `l[::s]` for `s ≥ 1`: the first element and then every `s`-th one. -/
def everyNthAux (s : Nat) : Nat → List α → List α
  | _, [] => []
  | 0, x :: xs => x :: everyNthAux s (s - 1) xs
  | k + 1, _ :: xs => everyNthAux s k xs

def everyNth (s : Nat) (l : List α) : List α := everyNthAux s 0 l

/-- python `l[a:b:s]` for `0 ≤ a`, `s ≥ 1`. -/
def pySlice (l : List α) (a b s : Nat) : List α := everyNth s ((l.take b).drop a)

inductive Fmt where
  | h5 | nc | xtc | trr | dcd | txt
  deriving DecidableEq, Repr

structure St where
  /-- what `tell()` reports (`_frame_index`, `frame_counter`, `setsread`) -/
  pos : Nat
  /-- position of the underlying stream for the formats that have one -/
  phys : Nat
  /-- xtc/trr: the byte offsets of all frames have been computed (by `seek` or `len`) -/
  offs : Bool
  deriving DecidableEq, Repr

def St.init : St := ⟨0, 0, false⟩

/-- `n` iterations of "decode one frame at the stream position, then skip `s-1` frames",
stopping at the first failed decode.  Returns the frames and the new stream position.
(dcd.pyx `read`, mdcrd/xyz/lammpstrj `read`, and the non-seeking branch of xtc/trr `_read`.) -/
def seqLoop (file : List α) (s : Nat) : Nat → Nat → List α × Nat
  | 0, p => ([], p)
  | n + 1, p =>
    match file[p]? with
    | none => ([], p)
    | some f =>
      let r := seqLoop file s n (min (p + s) file.length)
      (f :: r.1, r.2)

/-- xtc.pyx `_read` when `stride > 1` and the offsets are cached ("efficient striding"). -/
def xtcEffLoop (junk : α) (file : List α) (s : Nat) : Nat → St → List α × St
  | 0, st => ([], st)
  | n + 1, st =>
    match file[st.phys]? with
    | some f =>
      if st.pos + s < file.length then
        let r := xtcEffLoop junk file s n { st with pos := st.pos + s, phys := st.pos + s }
        (f :: r.1, r.2)
      else
        -- `status = EOF; n_read_frames += 1`: the loop ends, the frame just read is kept,
        -- neither the counter nor the caller learn that the end was reached
        ([f], { st with phys := st.phys + 1 })
    | none =>
      if st.pos + s < file.length then
        ([], { st with pos := st.pos + s, phys := st.pos + s })
      else
        -- failed decode, then `n_read_frames += 1` twice and `xyz[:n_read_frames-1]`:
        -- one frame of uninitialised memory is returned
        ([junk], st)

/-- trr.pyx `_read` with cached offsets and `stride > 1`. -/
def trrEffLoop (file : List α) (s : Nat) : Nat → St → List α × St
  | 0, st => ([], st)
  | n + 1, st =>
    match file[st.phys]? with
    | some f =>
      if st.pos + s < file.length then
        let r := trrEffLoop file s n { st with pos := st.pos + s, phys := st.pos + s }
        (f :: r.1, r.2)
      else
        let r := trrEffLoop file s n { st with phys := min (st.phys + s) file.length }
        (f :: r.1, r.2)
    | none =>
      if st.pos + s < file.length then
        ([], { st with pos := st.pos + s, phys := st.pos + s })
      else ([], st)

/-- `read(n_frames, stride)` of the file object of each format; `n = none` is "the rest". -/
def read (junk : α) (fmt : Fmt) (file : List α) (st : St) (n : Option Nat) (s : Nat) : List α × St :=
  let total := file.length
  match fmt with
  | .h5 =>
    let stop := match n with
      | none => total
      | some k => min (st.pos + k * s) total
    if stop - st.pos = 0 then ([], st)
    else (pySlice file st.pos stop s, { st with pos := stop })
  | .nc =>
    let stop := match n with
      | none => total
      | some k => min (st.pos + k * s) total
    if total ≤ st.pos then ([], st)
    else (pySlice file st.pos stop s, { st with pos := stop })
  | .dcd =>
    let k := match n with
      | none => total - st.pos
      | some k => k
    let r := seqLoop file s k st.phys
    (r.1, { st with pos := r.2, phys := r.2 })
  | .txt =>
    let k := match n with
      | none => total
      | some k => k
    let r := seqLoop file s k st.phys
    (r.1, { st with pos := r.2, phys := r.2 })
  | .xtc =>
    let k := match n with
      | none => total + 1
      | some k => k
    if s > 1 ∧ st.offs then xtcEffLoop junk file s k st
    else
      let r := seqLoop file s k st.phys
      (r.1, { st with pos := st.pos + r.1.length, phys := r.2 })
  | .trr =>
    let k := match n with
      | none => total + 1
      | some k => k
    if s > 1 ∧ st.offs then trrEffLoop file s k st
    else
      let r := seqLoop file s k st.phys
      -- `frame_counter += i`: the iteration whose decode failed is counted as well; the
      -- read-to-end loop issues one more (empty) `_read`, which is counted again
      let failed := if r.1.length < k then 1 else 0
      let again := if n.isNone ∧ ¬ r.1.isEmpty then 1 else 0
      (r.1, { st with pos := st.pos + r.1.length + failed + again, phys := r.2 })

/-- `seek(k)` absolute (`whence = 0`). `none`: the call raises. -/
def seek (fmt : Fmt) (file : List α) (st : St) (k : Nat) : Option St :=
  match fmt with
  | .h5 | .nc => some { st with pos := k }
  | .xtc | .trr => if k < file.length then some ⟨k, k, true⟩ else none
  | .dcd | .txt => some { st with pos := min k file.length, phys := min k file.length }

/-- `len(f)`; xtc/trr compute and cache the offsets as a side effect. -/
def len (fmt : Fmt) (file : List α) (st : St) : Nat × St :=
  match fmt with
  | .xtc | .trr => (file.length, { st with offs := true })
  | _ => (file.length, st)

/-! ### operation scripts (C18) -/

inductive Op where
  | read (n : Nat)
  | readAll
  | seek (k : Nat)
  | seekRel (d : Int)
  | tell
  | len
  deriving Repr

inductive Out (α : Type) where
  | frames (l : List α)
  | num (n : Nat)
  | unit
  | error
  deriving Repr, DecidableEq

def step (junk : α) (fmt : Fmt) (file : List α) (st : St) : Op → St × Out α
  | .read n => let r := read junk fmt file st (some n) 1; (r.2, .frames r.1)
  | .readAll =>
    let r := read junk fmt file st none 1
    -- trr.pyx `read()`: `np.concatenate([])` raises when the first internal `_read` returns nothing
    if fmt = .trr ∧ r.1.isEmpty then (r.2, .error) else (r.2, .frames r.1)
  | .seek k => match seek fmt file st k with
    | some st' => (st', .unit)
    | none => (st, .error)
  | .seekRel d =>
    -- xtc/trr raise IOError for a negative absolute target; dcd and the text formats clamp it to 0
    if (fmt = .xtc ∨ fmt = .trr) ∧ (st.pos : Int) + d < 0 then (st, .error) else
    match seek fmt file st ((st.pos : Int) + d).toNat with
    | some st' => (st', .unit)
    | none => (st, .error)
  | .tell => (st, .num st.pos)
  | .len => let r := len fmt file st; (r.2, .num r.1)

def runOps (junk : α) (fmt : Fmt) (file : List α) : St → List Op → List (Out α)
  | _, [] => []
  | st, op :: ops => let r := step junk fmt file st op; r.2 :: runOps junk fmt file r.1 ops

/-- The abstract cursor the property describes: a position into the list of frames. -/
def specStep (file : List α) (pos : Nat) : Op → Nat × Out α
  | .read n => (min (pos + n) file.length, .frames ((file.drop pos).take n))
  | .readAll => (file.length, .frames (file.drop pos))
  | .seek k => (k, .unit)
  | .seekRel d => (((pos : Int) + d).toNat, .unit)
  | .tell => (pos, .num pos)
  | .len => (pos, .num file.length)

def runSpec (file : List α) : Nat → List Op → List (Out α)
  | _, [] => []
  | pos, op :: ops => let r := specStep file pos op; r.2 :: runSpec file r.1 ops

/-- The operations of the property's alphabet that are in range at position `pos`. -/
def Op.inRange (file : List α) (pos : Nat) : Op → Prop
  | .read n => 1 ≤ n
  | .readAll => True
  | .seek k => k < file.length
  | .seekRel d => 0 ≤ (pos : Int) + d ∧ (pos : Int) + d < file.length
  | .tell => True
  | .len => True

def opsInRange (file : List α) : Nat → List Op → Prop
  | _, [] => True
  | pos, op :: ops => op.inRange file pos ∧ opsInRange file (specStep file pos op).1 ops

/-! ### `md.load`, `md.load_frame`, `md.iterload` (C02) -/

/-- `md.load(file, stride=s)`: open, read everything with the stride. -/
def load (junk : α) (fmt : Fmt) (file : List α) (s : Nat) : List α :=
  (read junk fmt file St.init none s).1

/-- `md.load_frame(file, i)`: open, `seek(i)`, read one frame. -/
def loadFrame (junk : α) (fmt : Fmt) (file : List α) (i : Nat) : List α :=
  match seek fmt file St.init i with
  | some st => (read junk fmt file st (some 1) 1).1
  | none => []

/-- The `while True: read_as_traj(n_frames=chunk, stride=stride)` loop of `iterload`,
with fuel: `none` means the fuel ran out before an empty chunk was seen. -/
def iterGo (junk : α) (fmt : Fmt) (file : List α) (chunk s : Nat) : Nat → St → Option (List (List α))
  | 0, _ => none
  | fuel + 1, st =>
    let r := read junk fmt file st (some chunk) s
    if r.1.isEmpty then some []
    else (iterGo junk fmt file chunk s fuel r.2).map (r.1 :: ·)

/-- `md.iterload(file, chunk, stride, skip)` for `chunk ≥ 1` (for `chunk = 0` the code, after
the repair, yields the single chunk `load(file)[skip::stride]`). -/
def iterload (junk : α) (fmt : Fmt) (file : List α) (chunk s skip fuel : Nat) : Option (List (List α)) :=
  if chunk = 0 then some [everyNth s ((load junk fmt file 1).drop skip)]
  else
    let st0 : Option St := if skip > 0 then seek fmt file St.init skip else some St.init
    match st0 with
    | none => none
    | some st => iterGo junk fmt file chunk s fuel st

end MdVerif
