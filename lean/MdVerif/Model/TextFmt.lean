/-
Digit-level model of the fixed-point text fields mdtraj's text trajectory writers produce and its readers consume (C01):

* `fmtFixed w p x`       Python's `'%w.pf' % x` / `'{:w.pf}'.format(x)` (p ≥ 1) for the exact (rational) value of a float:
                         sign, decimal digits of `|roundHE (x·10ᵖ)|` with the point p places from the right, space-padded on
                         the left to width w (never truncated: a value that needs more than w characters overflows the field)
* `parseField s`         Python's `float(s)` restricted to the strings those writers emit (optional blanks, optional `-`,
                         digits, optional `.` and digits, optional blanks); anything else is rejected
* `chunks w`, `parseFixedLine w`     the fixed-column readers (`line[j:j+8]` of mdcrd.py, `line[j:j+12]` of amberrst.py,
                         columns 31–54 of a PDB ATOM record)
* `splitWs`, `parseTokens`           the whitespace readers (`line.split()` of xyzfile.py, lammpstrj.py, the mdcrd box line)
* `mdcrdFrame`, `mdcrdParse`         the coordinate block of one .mdcrd frame: ten `%8.3f` fields per line
* `pdb83`                `_format_83` of pdbfile.py: `%8.3f`, or the first eight characters of it when it overflows
Core Lean only.
-/
import MdVerif.Model.Formats
namespace MdVerif.Txt
open MdVerif.Mic MdVerif.Fmt

def digitChar (d : Nat) : Char := Char.ofNat (48 + d)
def isDigit (c : Char) : Bool := 48 ≤ c.toNat && c.toNat ≤ 57
def digitVal (c : Char) : Nat := c.toNat - 48

/-- decimal digits of `n`, most significant first (`natDigits 0 = [0]`) -/
def natDigits (n : Nat) : List Nat :=
  if n < 10 then [n] else natDigits (n / 10) ++ [n % 10]

/-- exactly `p` decimal digits of `n mod 10ᵖ`, zero padded -/
def fracDigits : Nat → Nat → List Nat
  | 0, _ => []
  | p + 1, n => fracDigits p (n / 10) ++ [n % 10]

def ofDigits (ds : List Nat) : Nat := ds.foldl (fun a d => 10 * a + d) 0

/-- the scaled integer a `%.pf` field prints: `roundHE (x·10ᵖ)` (correct rounding of the exact value, ties to even) -/
def scaled (p : Nat) (x : Rat) : Int := roundHE (x * pow10 p)

/-- `'%.pf' % x` without padding (p ≥ 1) -/
def fixedBody (p : Nat) (x : Rat) : List Char :=
  let m := (scaled p x).natAbs
  (if x < 0 then ['-'] else []) ++ (natDigits (m / 10 ^ p)).map digitChar ++ '.' :: (fracDigits p (m % 10 ^ p)).map digitChar

def padLeft (w : Nat) (s : List Char) : List Char := List.replicate (w - s.length) ' ' ++ s

/-- `'%w.pf' % x` -/
def fmtFixed (w p : Nat) (x : Rat) : List Char := padLeft w (fixedBody p x)

/-- the field is not wider than `w` characters -/
def Fits (w p : Nat) (x : Rat) : Prop := (fixedBody p x).length ≤ w

instance (w p : Nat) (x : Rat) : Decidable (Fits w p x) := by unfold Fits; infer_instance

/-! ### `float(s)` on the strings the writers emit -/

def isBlank (c : Char) : Bool := c == ' '

def digitsVal (cs : List Char) : Nat := ofDigits (cs.map digitVal)

def parseUnsigned (s : List Char) : Option Rat :=
  let ip := s.takeWhile isDigit
  match s.dropWhile isDigit with
  | '.' :: r =>
    let fp := r.takeWhile isDigit
    let rest := r.dropWhile isDigit
    if ip.isEmpty && fp.isEmpty then none
    else if rest.all isBlank then some ((digitsVal ip : Rat) + (digitsVal fp : Rat) / pow10 fp.length) else none
  | rest => if ip.isEmpty then none else if rest.all isBlank then some (digitsVal ip : Rat) else none

def parseField (s : List Char) : Option Rat :=
  match s.dropWhile isBlank with
  | '-' :: r => (parseUnsigned r).map (fun v => -v)
  | r => parseUnsigned r

/-! ### fixed columns -/

/-- consecutive pieces of `w` characters (the last one may be shorter) -/
def chunks (w : Nat) (l : List Char) : List (List Char) :=
  if h : l = [] ∨ w = 0 then [] else l.take w :: chunks w (l.drop w)
termination_by l.length
decreasing_by
  have h1 : l ≠ [] := fun e => h (Or.inl e)
  have h2 : w ≠ 0 := fun e => h (Or.inr e)
  have : 0 < l.length := List.length_pos_iff.mpr h1
  simp only [List.length_drop]; omega

def parseFixedLine (w : Nat) (line : List Char) : Option (List Rat) := (chunks w line).mapM parseField

def renderFixedLine (w p : Nat) (xs : List Rat) : List Char := (xs.map (fmtFixed w p)).flatten

/-! ### whitespace-separated tokens (`str.split()`) -/

def splitWsAux : List Char → List Char → List (List Char)
  | [], cur => if cur.isEmpty then [] else [cur.reverse]
  | c :: cs, cur =>
    if isBlank c then (if cur.isEmpty then splitWsAux cs [] else cur.reverse :: splitWsAux cs [])
    else splitWsAux cs (c :: cur)

def splitWs (s : List Char) : List (List Char) := splitWsAux s []

def parseTokens (line : List Char) : Option (List Rat) := (splitWs line).mapM parseField

/-- fields joined by single blanks, each preceded by one blank (`" %8.3f %8.3f %8.3f"`-style records) -/
def renderSpaced (w p : Nat) (xs : List Rat) : List Char := (xs.map (fun x => ' ' :: fmtFixed w p x)).flatten

/-! ### the coordinate block of an .mdcrd frame -/

/-- groups of at most `k` consecutive elements -/
def groupsOf {α : Type} (k : Nat) (l : List α) : List (List α) :=
  if h : l = [] ∨ k = 0 then [] else l.take k :: groupsOf k (l.drop k)
termination_by l.length
decreasing_by
  have h1 : l ≠ [] := fun e => h (Or.inl e)
  have h2 : k ≠ 0 := fun e => h (Or.inr e)
  have : 0 < l.length := List.length_pos_iff.mpr h1
  simp only [List.length_drop]; omega

/-- the lines `MDCRDTrajectoryFile.write` emits for one frame's flattened coordinates (Å): ten `%8.3f` per line -/
def mdcrdFrame (xs : List Rat) : List (List Char) := (groupsOf 10 xs).map (renderFixedLine 8 3)

/-- what `_read` collects from those lines: `float(line[j:j+8])` for every eight columns -/
def mdcrdParse (lines : List (List Char)) : Option (List Rat) := (lines.mapM (parseFixedLine 8)).map List.flatten

/-- `"{:8.3f} {:8.3f} {:8.3f}"`: the box line -/
def mdcrdBoxLine (a b c : Rat) : List Char := fmtFixed 8 3 a ++ ' ' :: fmtFixed 8 3 b ++ ' ' :: fmtFixed 8 3 c

/-- the peek `[float(e) for e in line.strip().split()]`, `none` standing for the `ValueError` branch (not a box line) -/
def mdcrdPeek (line : List Char) : Option (List Rat) := parseTokens line

/-! ### PDB `_format_83` -/

/-- `_format_83(f)`: `'%8.3f'` if it fits in eight characters, else its first eight characters when `-9999999 < f < 99999999`;
`none` for the `ValueError` branch -/
def pdb83 (x : Rat) : Option (List Char) :=
  let s := fmtFixed 8 3 x
  if s.length = 8 then some s
  else if (-9999999 : Rat) < x ∧ x < 99999999 then some (s.take 8) else none

/-- a gro coordinate field: `'%{p+5}.{p}f'` -/
def groField (p : Nat) (x : Rat) : List Char := fmtFixed (p + 5) p x

/-- an amber restart coordinate field: `'%12.7f'` -/
def rst7Field (x : Rat) : List Char := fmtFixed 12 7 x

end MdVerif.Txt
