/-
Hydrogen bonds (C14): transcription of mdtraj/geometry/hbond.py (_get_bond_triplets, the frequency prefilter and the threshold tests of
baker_hubbard / wernet_nilsson, decided on exact squared distances) and of the discrete part of the Kabsch-Sander kernel in
mdtraj/geometry/src/geometry.cpp (skip mask, C-alpha prefilter, pair loop order, proline donors, threshold, best-two bookkeeping).
The Kabsch-Sander energies themselves (four reciprocal square roots) enter as a table.  Core Lean only.
-/
import MdVerif.Model.Mic
namespace MdVerif.Hb
open MdVerif.Mic

/-- element class: 0 other, 1 H, 2 N, 3 O -/
structure HAtom where
  elem : Nat
  water : Bool
  sidechain : Bool
  deriving Repr

def canPart (exWater scOnly : Bool) (a : HAtom) : Bool := !(exWater && a.water) && !(scOnly && !a.sidechain)

/-- `get_donors(heavy, "H")`: bonds between the heavy element and hydrogen, both atoms participating, returned as (heavy, H) -/
def donors (atoms : List HAtom) (bonds : List (Nat × Nat)) (heavy : Nat) (exWater scOnly : Bool) : List (Nat × Nat) :=
  bonds.filterMap (fun b =>
    match atoms[b.1]?, atoms[b.2]? with
    | some a0, some a1 =>
      if ((a0.elem == heavy && a1.elem == 1) || (a0.elem == 1 && a1.elem == heavy)) && canPart exWater scOnly a0 && canPart exWater scOnly a1
      then some (if a0.elem == 1 then (b.2, b.1) else (b.1, b.2)) else none
    | _, _ => none)

def acceptors (atoms : List HAtom) (exWater scOnly : Bool) : List Nat :=
  (List.range atoms.length).filter (fun i => match atoms[i]? with
    | some a => (a.elem == 2 || a.elem == 3) && canPart exWater scOnly a | none => false)

/-- `_get_bond_triplets`: every N-H then every O-H donor, each against every acceptor other than the donor itself -/
def triplets (atoms : List HAtom) (bonds : List (Nat × Nat)) (exWater scOnly : Bool) : List (Nat × Nat × Nat) :=
  (donors atoms bonds 2 exWater scOnly ++ donors atoms bonds 3 exWater scOnly).flatMap (fun dh =>
    (acceptors atoms exWater scOnly).filterMap (fun a => if a == dh.1 then none else some (dh.1, dh.2, a)))

/-- `num / (2·√ab2) < k`, decided without the square root (`ab2 > 0`) -/
def cosLt (num ab2 k : Rat) : Bool :=
  if k = 0 then num < 0
  else if 0 < k then (num < 0 || num * num < 4 * k * k * ab2)
  else (num < 0 && 4 * k * k * ab2 < num * num)

/-- Baker-Hubbard presence in one frame: |H-A|² < cutoff² and cos(D-H-A) < cos(angle cutoff) -/
def bhPresent (pD pH pA : V3) (cut kcos : Rat) : Bool :=
  let a2 := (pD.sub pH).norm2
  let b2 := (pH.sub pA).norm2
  let c2 := (pA.sub pD).norm2
  b2 < cut * cut && cosLt (a2 + b2 - c2) (a2 * b2) kcos

def bhClose (pH pA : V3) (cut : Rat) : Bool := (pH.sub pA).norm2 < cut * cut

/-- fraction of `true` strictly above `freq` -/
def above (flags : List Bool) (freq : Rat) : Bool := ((flags.count true : Nat) : Rat) / (flags.length : Rat) > freq

/-- baker_hubbard for one triplet: the distance prefilter, then the presence test on the survivors -/
def bhKeep (close pres : List Bool) (freq : Rat) : Bool := above close freq && above pres freq

/-- Wernet-Nilsson presence: r_DA < 0.33 − 0.000044·δ², δ in degrees -/
def wnPresent (r2 delta2 : Rat) : Bool :=
  let c := (33 : Rat) / 100 - 44 / 1000000 * delta2
  0 < c && r2 < c * c

/-! ### Kabsch-Sander bookkeeping -/

abbrev Slot := Option (Nat × Rat)

/-- `store_energies` for one donor: (slot 0, slot 1) -/
def store (st : Slot × Slot) (acc : Nat) (e : Rat) : Slot × Slot :=
  match st.1 with
  | none => (some (acc, e), none)              -- isnan(existing_e0): the old #0 (nothing) moves to #1
  | some (a0, e0) =>
    if e < e0 then (some (acc, e), some (a0, e0))
    else match st.2 with
      | none => (some (a0, e0), some (acc, e))
      | some (_, e1) => if e < e1 then (some (a0, e0), some (acc, e)) else st

/-- the (donor, acceptor) energy evaluations of one frame in kernel order -/
def ksCandidates (n : Nat) (skip : Nat → Bool) (caClose : Nat → Nat → Bool) : List (Nat × Nat) :=
  (List.range n).flatMap (fun ri => if skip ri then [] else
    ((List.range n).filter (fun rj => ri < rj && !skip rj && caClose ri rj)).flatMap (fun rj =>
      (ri, rj) :: (if rj != ri + 1 then [(rj, ri)] else [])))

/-- the two best acceptors of every donor -/
def ksFrame (n : Nat) (skip proline : Nat → Bool) (caClose : Nat → Nat → Bool) (energy : Nat → Nat → Rat) (donor : Nat) : Slot × Slot :=
  ((ksCandidates n skip caClose).filter (fun da => da.1 == donor && energy da.1 da.2 < -1 / 2 && !proline da.1)).foldl
    (fun st da => store st da.2 (energy da.1 da.2)) (none, none)

end MdVerif.Hb
