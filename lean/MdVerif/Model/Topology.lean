/-
Model of `mdtraj.Topology` and its transformations (property C04; also used by C02, C12, C14).

A topology is a value: chains → residues → atoms, plus a bond list over atom *indices* (the position of
the atom in the flattened order).  Transcribed from mdtraj/core/topology.py (after the `fix:` commits):
`_topology_from_subset`, `copy`, `join`, `to_dataframe`/`from_dataframe`, `__eq__`, `__hash__`, and the
ATOM/TER/CONECT numbering of mdtraj/formats/pdb/pdbfile.py.  Core Lean only.
-/
namespace MdVerif.Topo

structure Atom where
  name : String
  elem : String
  serial : Option Int
  deriving DecidableEq, Repr

structure Residue where
  name : String
  resSeq : Int
  segId : String
  atoms : List Atom
  deriving DecidableEq, Repr

structure Chain where
  chainId : Option String
  residues : List Residue
  deriving DecidableEq, Repr

structure Bond where
  i : Nat
  j : Nat
  type : Option Nat
  order : Option Nat
  deriving DecidableEq, Repr

structure Topology where
  chains : List Chain
  bonds : List Bond
  deriving DecidableEq, Repr

def Residue.nAtoms (r : Residue) : Nat := r.atoms.length
def Chain.nAtoms (c : Chain) : Nat := (c.residues.map Residue.nAtoms).sum
def Topology.nAtoms (t : Topology) : Nat := (t.chains.map Chain.nAtoms).sum
def Topology.atoms (t : Topology) : List Atom := t.chains.flatMap (fun c => c.residues.flatMap (·.atoms))
def Topology.residues (t : Topology) : List Residue := t.chains.flatMap (·.residues)

/-! ### subset -/

/-- keep the atoms whose flattened index (starting at `base`) satisfies `keep` -/
def filterAtoms (keep : Nat → Bool) : Nat → List Atom → List Atom
  | _, [] => []
  | base, a :: as => if keep base then a :: filterAtoms keep (base + 1) as else filterAtoms keep (base + 1) as

def subsetResidues (keep : Nat → Bool) : Nat → List Residue → List Residue
  | _, [] => []
  | base, r :: rs =>
    let kept := filterAtoms keep base r.atoms
    let rest := subsetResidues keep (base + r.atoms.length) rs
    if kept.isEmpty then rest else { r with atoms := kept } :: rest

def subsetChains (keep : Nat → Bool) : Nat → List Chain → List Chain
  | _, [] => []
  | base, c :: cs =>
    let kept := subsetResidues keep base c.residues
    let rest := subsetChains keep (base + c.nAtoms) cs
    if kept.isEmpty then rest else { c with residues := kept } :: rest

/-- new index of old atom `i`: the number of kept atoms before it -/
def rank (keep : Nat → Bool) (i : Nat) : Nat := ((List.range i).filter keep).length

/-- `Topology.subset(idx)` for a set of kept indices -/
def subset (t : Topology) (keep : Nat → Bool) : Topology :=
  { chains := subsetChains keep 0 t.chains,
    bonds := (t.bonds.filter (fun b => keep b.i && keep b.j)).map
      (fun b => { b with i := rank keep b.i, j := rank keep b.j }) }

/-! ### copy and join -/

def copy (t : Topology) : Topology := { chains := t.chains, bonds := t.bonds }

def shiftBond (n : Nat) (b : Bond) : Bond := { b with i := b.i + n, j := b.j + n }

/-- renumber residues consecutively from `start` (join with `keep_resSeq=False`) -/
def renumberRes : Int → List Residue → List Residue × Int
  | s, [] => ([], s)
  | s, r :: rs => let x := renumberRes (s + 1) rs; ({ r with resSeq := s + 1 } :: x.1, x.2)

def renumberChains : Int → List Chain → List Chain
  | _, [] => []
  | s, c :: cs => let x := renumberRes s c.residues; { c with residues := x.1 } :: renumberChains x.2 cs

def join (a b : Topology) (keepResSeq : Bool) : Topology :=
  let last : Int := match a.residues.getLast? with | some r => r.resSeq | none => 0
  { chains := a.chains ++ (if keepResSeq then b.chains else renumberChains last b.chains),
    bonds := a.bonds ++ b.bonds.map (shiftBond a.nAtoms) }

/-! ### data-frame rows -/

structure Row where
  serial : Option Int
  name : String
  elem : String
  resSeq : Int
  resName : String
  chainIx : Nat
  segId : String
  deriving DecidableEq, Repr

def resRows (ci : Nat) (r : Residue) : List Row :=
  r.atoms.map (fun a => ⟨a.serial, a.name, a.elem, r.resSeq, r.name, ci, r.segId⟩)

def chainRows (ci : Nat) (c : Chain) : List Row := c.residues.flatMap (resRows ci)

def toRowsFrom : Nat → List Chain → List Row
  | _, [] => []
  | ci, c :: cs => chainRows ci c ++ toRowsFrom (ci + 1) cs

def toRows (t : Topology) : List Row := toRowsFrom 0 t.chains

/-- `from_dataframe`: a new chain when `chainID` changes, a new residue when `resSeq` or `resName` changes
or the chain is new.  The accumulator holds the chains built so far, most recent last. -/
def addRow (acc : List Chain) (prev : Option Row) (row : Row) : List Chain :=
  let newChain := match prev with | none => true | some p => p.chainIx != row.chainIx
  let atom : Atom := ⟨row.name, row.elem, row.serial⟩
  if newChain then acc ++ [{ chainId := none, residues := [⟨row.resName, row.resSeq, row.segId, [atom]⟩] }]
  else
    match acc.getLast?, prev with
    | some c, some p =>
      let newRes := p.resSeq != row.resSeq || p.resName != row.resName
      let residues' :=
        if newRes then c.residues ++ [⟨row.resName, row.resSeq, row.segId, [atom]⟩]
        else match c.residues.getLast? with
          | some r => c.residues.dropLast ++ [{ r with atoms := r.atoms ++ [atom] }]
          | none => [⟨row.resName, row.resSeq, row.segId, [atom]⟩]
      acc.dropLast ++ [{ c with residues := residues' }]
    | _, _ => acc

def fromRowsGo : List Chain → Option Row → List Row → List Chain
  | acc, _, [] => acc
  | acc, prev, r :: rs => fromRowsGo (addRow acc prev r) (some r) rs

def fromRows (rows : List Row) (bonds : List Bond) : Topology := { chains := fromRowsGo [] none rows, bonds := bonds }

/-! ### equality and hash (as coded) -/

/-- what `Topology.__eq__` compares: residue names and atom name/element per chain and residue, and the
sorted bond list; chain ids, residue numbers, segment ids and serials are not compared -/
def eqKey (t : Topology) : List (List (String × List (String × String))) × List Bond :=
  (t.chains.map (fun c => c.residues.map (fun r => (r.name, r.atoms.map (fun a => (a.name, a.elem))))), t.bonds)

/-- what `Topology.__hash__` depends on after the repair: chain count, atom count, residue (name, index)
pairs and the bonds -/
def hashKey (t : Topology) : Nat × Nat × List String × List Bond :=
  (t.chains.length, t.nAtoms, t.residues.map (·.name), t.bonds)

/-! ### PDB numbering -/

/-- serial numbers printed in the ATOM records (`useSerial`: single chain and the atom has a serial),
with a TER record after each chain consuming one number when `ter` -/
def pdbSerialsRes (useSerial : Bool) : Nat → List Atom → List Int × Nat
  | next, [] => ([], next)
  | next, a :: as =>
    let s : Int := match useSerial, a.serial with | true, some v => v | _, _ => next
    let x := pdbSerialsRes useSerial (next + 1) as
    (s :: x.1, x.2)

def pdbSerialsChains (useSerial ter : Bool) : Nat → List Chain → List Int
  | _, [] => []
  | next, c :: cs =>
    let x := pdbSerialsRes useSerial next (c.residues.flatMap (·.atoms))
    x.1 ++ pdbSerialsChains useSerial ter (if ter then x.2 + 1 else x.2) cs

def pdbSerials (t : Topology) (ter : Bool) : List Int :=
  pdbSerialsChains (t.chains.length < 2) ter 1 t.chains

/-- the pairs of numbers written in CONECT records for the bond list (one direction) -/
def pdbConect (t : Topology) (ter : Bool) : List (Int × Int) :=
  let s := pdbSerials t ter
  t.bonds.filterMap (fun b => match s[b.i]?, s[b.j]? with | some x, some y => some (x, y) | _, _ => none)

end MdVerif.Topo
