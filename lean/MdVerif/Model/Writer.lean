/-
Model of mdtraj's streaming trajectory writers (C19) and of the open-for-writing decision (C20).

C19: the first `write` fixes the layout of the file (atom count, presence of cell and time); later writes are
validated against it *before* anything is appended (the order of validation and appending is what the
`fix:` commit for HDF5/NetCDF established); `flush` makes everything written so far durable.
Per format the policy says which layout components are compared (transcribed from the write methods):

  h5, nc, dtr, gro         atoms, cell, time        xtc, trr   atoms, cell (a missing time is filled with 0,1,2,…)
  dcd, mdcrd, lammpstrj    atoms, cell              xyz        atoms

C20: `Trajectory.save` / `md.open(mode='w')`: existence check before any open-for-write or unlink.
Core Lean only.
-/
namespace MdVerif.Writer

structure Schema where
  natoms : Nat
  cell : Bool
  time : Bool
  deriving DecidableEq, Repr

structure Policy where
  checkCell : Bool
  checkTime : Bool
  autoFlush : Bool
  deriving DecidableEq, Repr

inductive Fmt where
  | h5 | nc | dtr | xtc | trr | dcd | mdcrd | lammpstrj | xyz | gro
  deriving DecidableEq, Repr

def policy : Fmt → Policy
  | .h5 => ⟨true, true, true⟩      -- HDF5TrajectoryFile.write ends with self.flush()
  | .nc => ⟨true, true, false⟩
  | .dtr => ⟨true, true, false⟩
  | .xtc => ⟨true, false, false⟩
  | .trr => ⟨true, false, false⟩
  | .dcd => ⟨true, false, false⟩
  | .mdcrd => ⟨true, false, false⟩
  | .lammpstrj => ⟨true, false, false⟩
  | .xyz => ⟨false, false, false⟩
  | .gro => ⟨true, true, false⟩     -- GroTrajectoryFile.write: atom count, time stamps and box vectors fixed by the first write

structure Chunk (α : Type) where
  frames : List α
  sch : Schema

structure W (α : Type) where
  schema : Option Schema
  content : List α
  durable : List α

def W.init : W α := ⟨none, [], []⟩

def conforms (p : Policy) (s c : Schema) : Bool :=
  s.natoms == c.natoms && (!p.checkCell || s.cell == c.cell) && (!p.checkTime || s.time == c.time)

/-- one `write` call: `(state, accepted)`; a refused write leaves the state untouched -/
def write (p : Policy) (w : W α) (c : Chunk α) : W α × Bool :=
  match w.schema with
  | none =>
    let content := w.content ++ c.frames
    ({ schema := some c.sch, content := content, durable := if p.autoFlush then content else w.durable }, true)
  | some s =>
    if conforms p s c.sch then
      let content := w.content ++ c.frames
      ({ w with content := content, durable := if p.autoFlush then content else w.durable }, true)
    else (w, false)

def flush (w : W α) : W α := { w with durable := w.content }

/-- what a reader finds after the writing process is killed -/
def crashLoad (w : W α) : List α := w.durable
/-- what a reader finds after `close()` -/
def closeLoad (w : W α) : List α := w.content

inductive Op (α : Type) where
  | write (c : Chunk α)
  | flush

def step (p : Policy) (w : W α) : Op α → W α
  | .write c => (write p w c).1
  | .flush => flush w

def run (p : Policy) (w : W α) (ops : List (Op α)) : W α := ops.foldl (step p) w

/-- frames of the accepted writes of a history, in order -/
def accepted (p : Policy) : W α → List (Op α) → List α
  | _, [] => []
  | w, .write c :: ops => (if (write p w c).2 then c.frames else []) ++ accepted p (write p w c).1 ops
  | w, .flush :: ops => accepted p (flush w) ops

/-! ### C20 -/

structure FS (β : Type) where
  file : Option β
  deriving DecidableEq, Repr

/-- open-for-write followed by writing `new`: `(file system, raised)` -/
def save (fs : FS β) (force : Bool) (new : β) : FS β × Bool :=
  match fs.file with
  | none => (⟨some new⟩, false)
  | some _ => if force then (⟨some new⟩, false) else (fs, true)

/-- the numbered files of multi-frame restart output, written one after the other; stops at the first refusal -/
def saveMany (files : List (FS β)) (force : Bool) (news : List β) : List (FS β) × Bool :=
  match files, news with
  | f :: fs, n :: ns =>
    let r := save f force n
    if r.2 then (f :: fs, true)
    else let rest := saveMany fs force ns; (r.1 :: rest.1, rest.2)
  | fs, _ => (fs, false)

/-- extensions whose writer is modelled by `save` (existence check first, then truncate/unlink-and-create) -/
def modelledExts : List String :=
  [".xtc", ".trr", ".pdb", ".pdb.gz", ".dcd", ".h5", ".hdf5", ".lh5", ".binpos", ".nc", ".netcdf", ".ncdf", ".ncrst",
   ".crd", ".mdcrd", ".lammpstrj", ".xyz", ".xyz.gz", ".gro", ".rst7", ".dtr", ".gsd", ".stk", ".arc", ".hoomdxml",
   ".mol2", ".psf", ".prmtop", ".parm7", ".prm7", ".pdbx", ".cif", ".xml", ".inpcrd", ".restrt"]

end MdVerif.Writer
