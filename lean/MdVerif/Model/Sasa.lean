/-
Shrake–Rupley solvent-accessible areas (C13) and the frame loop with its per-thread buffer (C08):
exact-arithmetic transcription of mdtraj/geometry/src/sasa.cpp (`asa_frame`, `sasa`) after the `fix:` commit.
The sphere points are an input (the harness obtains the kernel's own float32 points through a C shim).
Areas are kept as point *counts* (area = count · 4πR²/n).  Core Lean only.
-/
import MdVerif.Model.Mic
namespace MdVerif.Sasa
open MdVerif.Mic

structure Atom where
  pos : V3
  rad : Rat      -- atomic radius + probe
  deriving Repr

/-- neighbour prefilter: `r2 < (R_i + R_j)^2`, j ≠ i, in index order -/
def neighbors (atoms : List Atom) (i : Nat) (ai : Atom) : List Atom :=
  ((atoms.zipIdx).filter (fun p => p.2 != i && decide (((ai.pos.sub p.1.pos).norm2) < (ai.rad + p.1.rad) * (ai.rad + p.1.rad)))).map (·.1)

/-- the sphere point `s` of atom `a` in the lab frame -/
def pointOf (a : Atom) (s : V3) : V3 := a.pos.add (V3.smul a.rad s)

def covers (p : V3) (n : Atom) : Bool := decide ((p.sub n.pos).norm2 < n.rad * n.rad)

/-- the list read cyclically from position `k` -/
def rot (l : List α) (k : Nat) : List α := l.drop k ++ l.take k

/-- the cyclic scan `for k in k_closest .. k_closest + n: k' = k % n` visits the neighbours in the order of the list rotated
by `k_closest % n` and stops at the first one that covers the point; returns (covered?, new k_closest) -/
def scan (nbrs : List Atom) (p : V3) (start : Nat) : Bool × Nat :=
  match (rot nbrs (start % nbrs.length)).findIdx? (covers p) with
  | some j => (true, start + j)
  | none => (false, start)

/-- count of accessible points of one atom, threading the closest-neighbour cache through the points -/
def countAtom (atoms : List Atom) (points : List V3) (i : Nat) (ai : Atom) : Nat :=
  let nbrs := neighbors atoms i ai
  (points.foldl (fun (st : Nat × Nat) s =>
      let r := scan nbrs (pointOf ai s) st.2
      (if r.1 then st.1 else st.1 + 1, r.2)) (0, 0)).1

/-- the specification: points of atom `i` not inside any *other* atom's sphere (no prefilter, no cache) -/
def countSpec (atoms : List Atom) (points : List V3) (i : Nat) (ai : Atom) : Nat :=
  (points.filter (fun s => !((atoms.zipIdx).any (fun p => p.2 != i && covers (pointOf ai s) p.1)))).length

/-- `asa_frame` on a work buffer: selected atoms are overwritten with their count, the others are not touched -/
def asaFrameBuf (points : List V3) (mask : List Bool) (buf : List Nat) (atoms : List Atom) : List Nat :=
  (atoms.zipIdx).map (fun p => if mask.getD p.2 false then countAtom atoms points p.2 p.1 else buf.getD p.2 0)

def asaFrame (points : List V3) (mask : List Bool) (atoms : List Atom) : List Nat :=
  asaFrameBuf points mask (atoms.map (fun _ => 0)) atoms

/-- the selection mask `shrake_rupley` builds from `atom_indices`: `None` selects every atom, a list exactly its members — an empty list none -/
def maskOf (n : Nat) : Option (List Nat) → List Bool
  | none => List.replicate n true
  | some idx => (List.range n).map (fun i => idx.contains i)

/-- `outframe[atom_mapping[j]] += buffer[j]` -/
def groupSums (nGroups : Nat) (mapping : List Nat) (vals : List Nat) : List Nat :=
  (List.range nGroups).map (fun g => (((mapping.zip vals).filter (fun p => p.1 == g)).map (·.2)).sum)

end MdVerif.Sasa
