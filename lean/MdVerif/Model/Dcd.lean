/-
Byte-level model of the CHARMM .dcd file as mdtraj writes and reads it (properties C01 and C19).

Little-endian 32-bit words; every Fortran record is framed by its byte count.  Transcribed from mdtraj/formats/dcd/src/dcdplugin.c
(`write_dcdheader`, `write_dcdstep`, `read_dcdheader`, `open_dcd_read`):
  84 "CORD" NSET ISTART NSAVC NSTEP 0 0 0 0 0 DELTA(float) hasCell 0×8 24 84          the control record (23 words)
  164 2 <160 bytes of title> 164                                                          the title record (43 words)
  4 N 4                                                                                    the atom count (3 words)
then per frame  [48 <6 doubles: A cos(gamma) B cos(beta) cos(alpha) C> 48]  4N x… 4N  4N y… 4N  4N z… 4N.
`write_dcdstep` appends the frame and then rewrites NSET and NSTEP in the control record (`appendFrame`): after every write call the header
counts the frames that are in the file.  The reader derives the number of frames from the size of the file.
IEEE-754 double precision values are decoded to exact rationals (`f64ToRat`).  Core Lean only.
-/
namespace MdVerif.Dcd

def le32 (w : Nat) : List Nat := [w % 256, w / 256 % 256, w / 65536 % 256, w / 16777216 % 256]

def bytesOfWords (ws : List Nat) : List Nat := ws.flatMap le32

def toWords : List Nat → Option (List Nat)
  | [] => some []
  | a :: b :: c :: d :: r => (toWords r).map (fun ws => (a + b * 256 + c * 65536 + d * 16777216) :: ws)
  | _ => none

structure Header where
  nset : Nat
  istart : Nat
  nsavc : Nat
  nstep : Nat
  delta : Nat            -- the word of a float
  hasCell : Bool
  title : List Nat       -- 40 words (two 80-character lines)
  natoms : Nat
  deriving DecidableEq, Repr

structure Frame where
  cell : List Nat        -- 12 words (six doubles), or none
  x : List Nat
  y : List Nat
  z : List Nat
  deriving DecidableEq, Repr

def cordWord : Nat := 1146244931       -- "CORD"

def renderHeader (h : Header) : List Nat :=
  [84, cordWord, h.nset, h.istart, h.nsavc, h.nstep, 0, 0, 0, 0, 0, h.delta, (if h.hasCell then 1 else 0), 0, 0, 0, 0, 0, 0, 0, 0, 24, 84] ++
  [164, 2] ++ h.title ++ [164] ++ [4, h.natoms, 4]

def renderFrame (f : Frame) : List Nat :=
  (if f.cell.isEmpty then [] else [48] ++ f.cell ++ [48]) ++
  [4 * f.x.length] ++ f.x ++ [4 * f.x.length] ++ [4 * f.y.length] ++ f.y ++ [4 * f.y.length] ++ [4 * f.z.length] ++ f.z ++ [4 * f.z.length]

def renderFile (h : Header) (fs : List Frame) : List Nat := renderHeader h ++ fs.flatMap renderFrame

def parseHeader : List Nat → Option (Header × List Nat)
  | 84 :: cord :: nset :: istart :: nsavc :: nstep :: 0 :: 0 :: 0 :: 0 :: 0 :: delta :: hc :: 0 :: 0 :: 0 :: 0 :: 0 :: 0 :: 0 :: 0 :: 24 :: 84 :: 164 :: 2 :: rest =>
    if cord = cordWord ∧ (hc = 0 ∨ hc = 1) ∧ 43 ≤ rest.length then
      match rest.drop 40 with
      | 164 :: 4 :: n :: 4 :: rest' => some (⟨nset, istart, nsavc, nstep, delta, hc == 1, rest.take 40, n⟩, rest')
      | _ => none
    else none
  | _ => none

/-- one coordinate block: byte count, `n` words, byte count -/
def parseBlock (n : Nat) : List Nat → Option (List Nat × List Nat)
  | c :: rest =>
    if c = 4 * n ∧ n + 1 ≤ rest.length ∧ (rest.drop n).head? = some (4 * n) then some (rest.take n, rest.drop (n + 1)) else none
  | [] => none

def parseFrame (hasCell : Bool) (n : Nat) (ws : List Nat) : Option (Frame × List Nat) := do
  let (cell, r0) ← (if hasCell then
      match ws with
      | 48 :: rest => if 13 ≤ rest.length ∧ (rest.drop 12).head? = some 48 then some (rest.take 12, rest.drop 13) else none
      | _ => none
    else some ([], ws))
  let (x, r1) ← parseBlock n r0
  let (y, r2) ← parseBlock n r1
  let (z, r3) ← parseBlock n r2
  pure (⟨cell, x, y, z⟩, r3)

def parseFrames (hasCell : Bool) (n : Nat) : Nat → List Nat → Option (List Frame)
  | _, [] => some []
  | 0, _ => none
  | fuel + 1, ws => match parseFrame hasCell n ws with
    | some (f, rest) => (parseFrames hasCell n fuel rest).map (f :: ·)
    | none => none

/-- header and frames of a .dcd file given as bytes; the number of frames is what the size of the file holds -/
def readDcd (bytes : List Nat) : Option (Header × List Frame) := do
  let ws ← toWords bytes
  let (h, rest) ← parseHeader ws
  let fs ← parseFrames h.hasCell h.natoms (rest.length + 1) rest
  pure (h, fs)

def writeDcd (h : Header) (fs : List Frame) : List Nat := bytesOfWords (renderFile h fs)

/-- the state of a file being written: `write_dcdstep` appends the frame, then rewrites the two counts of the control record -/
structure File where
  header : Header
  frames : List Frame

def appendFrame (fl : File) (f : Frame) : File :=
  { header := { fl.header with nset := fl.header.nset + 1, nstep := fl.header.istart + (fl.header.nset + 1) * fl.header.nsavc },
    frames := fl.frames ++ [f] }

def Header.WF (h : Header) : Prop :=
  h.nset < 4294967296 ∧ h.istart < 4294967296 ∧ h.nsavc < 4294967296 ∧ h.nstep < 4294967296 ∧ h.delta < 4294967296 ∧
  h.title.length = 40 ∧ (∀ w ∈ h.title, w < 4294967296) ∧ 4 * h.natoms < 4294967296

def Frame.WF (hasCell : Bool) (n : Nat) (f : Frame) : Prop :=
  f.cell.length = (if hasCell then 12 else 0) ∧ f.x.length = n ∧ f.y.length = n ∧ f.z.length = n ∧
  (∀ w ∈ f.cell, w < 4294967296) ∧ (∀ w ∈ f.x, w < 4294967296) ∧ (∀ w ∈ f.y, w < 4294967296) ∧ (∀ w ∈ f.z, w < 4294967296)

/-- the value of an IEEE-754 double given as its low and high words (`none`: infinity or NaN) -/
def f64ToRat (lo hi : Nat) : Option Rat :=
  let sign : Int := if hi / 2147483648 % 2 = 1 then -1 else 1
  let e := hi / 1048576 % 2048
  let m := (hi % 1048576) * 4294967296 + lo
  if e = 2047 then none
  else if e = 0 then some (sign * (m : Int) / (2 : Rat) ^ 1074)
  else if e ≥ 1075 then some (sign * ((4503599627370496 + m : Nat) : Int) * (2 : Rat) ^ (e - 1075))
  else some (sign * ((4503599627370496 + m : Nat) : Int) / (2 : Rat) ^ (1075 - e))

end MdVerif.Dcd
