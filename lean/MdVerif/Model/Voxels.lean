/-
The voxel search of `compute_neighborlist` (C10): transcription over ℚ of the discrete skeleton of
mdtraj/geometry/src/neighborlist.cpp (class `Voxels`, `_compute_neighborlist`):

* `prewrap`            the wrapped copy of every position made before binning (`pos -= c·floorf(pos_z/c_z)`, then b, then a)
* `voxelIndex`         `getVoxelIndex`: `max(0, min(n-1, int(floorf(y / voxelSize))))`
* `lowerBound`, `upperBound`   `findLowerBound` / `findUpperBound`: bisection in a bin sorted by x
* `xRanges`            the one or two index ranges of a bin that `getNeighbors` scans (the direct x interval and its periodic image)
* `visited`            the bin positions scanned, in scanning order
The geometric bounds `minx`, `maxx` handed to `xRanges` (from the voxel corner offsets) are inputs here.  Core Lean only.
-/
import MdVerif.Model.Mic
namespace MdVerif.Vox
open MdVerif.Mic

/-! ### wrapping into the primary cell -/

/-- `_compute_neighborlist`: `scale = floorf(pos[2]/c_z); pos -= c*scale`, then the same with `b` (y) and `a` (x) -/
def prewrap (B : Cell) (p : V3) : V3 :=
  let p1 := p.sub (V3.smul ((p.z / B.c.z).floor : Int) B.c)
  let p2 := p1.sub (V3.smul ((p1.y / B.b.y).floor : Int) B.b)
  p2.sub (V3.smul ((p2.x / B.a.x).floor : Int) B.a)

/-- the integer shifts applied by `prewrap`, along a, b, c -/
def prewrapShift (B : Cell) (p : V3) : Int × Int × Int :=
  let k := (p.z / B.c.z).floor
  let p1 := p.sub (V3.smul (k : Int) B.c)
  let j := (p1.y / B.b.y).floor
  let p2 := p1.sub (V3.smul (j : Int) B.b)
  ((p2.x / B.a.x).floor, j, k)

/-- a reduced cell as the kernel holds it: lower triangular with positive diagonal -/
def LowerTri (B : Cell) : Prop :=
  B.a.y = 0 ∧ B.a.z = 0 ∧ B.b.z = 0 ∧ 0 < B.a.x ∧ 0 < B.b.y ∧ 0 < B.c.z

/-! ### voxel index -/

/-- `max(0, min(n-1, int(floorf(y / size))))` -/
def voxelIndex (n : Nat) (size y : Rat) : Nat :=
  let f := (y / size).floor
  if f < 0 then 0 else if (n : Int) - 1 < f then n - 1 else f.toNat

/-! ### bisection in a sorted bin -/

def lowerBoundAux (xs : List Rat) (x : Rat) : Nat → Nat → Nat → Nat
  | 0, lower, _ => lower
  | fuel + 1, lower, upper =>
    if lower < upper then
      let middle := (lower + upper) / 2
      if xs.getD middle 0 < x then lowerBoundAux xs x fuel (middle + 1) upper
      else lowerBoundAux xs x fuel lower middle
    else lower

/-- `findLowerBound`: the first position in `[lower, upper)` whose x is `≥ x` -/
def lowerBound (xs : List Rat) (x : Rat) (lower upper : Nat) : Nat := lowerBoundAux xs x (upper - lower + 1) lower upper

def upperBoundAux (xs : List Rat) (x : Rat) : Nat → Nat → Nat → Nat
  | 0, _, upper => upper
  | fuel + 1, lower, upper =>
    if lower < upper then
      let middle := (lower + upper) / 2
      if x < xs.getD middle 0 then upperBoundAux xs x fuel lower middle
      else upperBoundAux xs x fuel (middle + 1) upper
    else upper

/-- `findUpperBound`: the first position in `[lower, upper)` whose x is `> x` -/
def upperBound (xs : List Rat) (x : Rat) (lower upper : Nat) : Nat := upperBoundAux xs x (upper - lower + 1) lower upper

/-- the bin is sorted by x (`sortItems`) -/
def Sorted (xs : List Rat) : Prop := ∀ i j : Nat, i ≤ j → j < xs.length → xs.getD i 0 ≤ xs.getD j 0

/-! ### the ranges scanned in one bin -/

structure Ranges where
  s0 : Nat
  e0 : Nat
  second : Option (Nat × Nat)
  deriving Repr, DecidableEq

/-- `rangeStart/rangeEnd` of `getNeighbors` for a bin with x coordinates `xs`, search interval `[minx, maxx]`, box length `L` along x -/
def xRanges (xs : List Rat) (minx maxx L : Rat) (needPeriodic : Bool) : Ranges :=
  let n := xs.length
  let s0 := lowerBound xs minx 0 n
  if needPeriodic then
    let e0 := upperBound xs maxx s0 n
    if 0 < s0 ∧ e0 < n then ⟨s0, e0, none⟩
    else if 0 < s0 then ⟨s0, e0, some (0, min (upperBound xs (maxx - L) 0 s0) s0)⟩
    else ⟨s0, e0, some (max (lowerBound xs (minx + L) e0 n) e0, n)⟩
  else ⟨s0, upperBound xs maxx s0 n, none⟩

def Ranges.visited (r : Ranges) : List Nat :=
  (List.range' r.s0 (r.e0 - r.s0)) ++ (match r.second with | none => [] | some (a, b) => List.range' a (b - a))

end MdVerif.Vox
