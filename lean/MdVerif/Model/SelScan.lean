/-
Character-level scanner of the atom-selection language (property C12): from the text of a selection to the token list
that `Model/Selection.lean` parses.  mdtraj/core/selection.py has no separate lexer (pyparsing scans while it parses);
this is the token structure its terminals induce on inputs whose words are delimited by blanks, parentheses, quotes or
symbolic operators:

* blanks (space, tab, newline, carriage return) separate tokens and are otherwise ignored;
* `(` and `)`;
* `quotedString`: `'…'` or `"…"`, content taken literally (backslashes, doubled quotes, line breaks: not modelled);
* the symbolic operator spellings (`<= == != >= < > =~ && || !`), longest first, need no blanks around them;
* a maximal run of letters, digits, dots and underscores is one word (an underscore occurs only inside the keywords
  `n_bonds`, `is_protein`, …: no other terminal can hold one), classified as pyparsing's alternatives do:
  `Regex([0-9]+[A-Za-z][A-Za-z0-9]*)` (a bare word that begins with digits: 1HB, after the `fix:`) | `Word(".0123456789")`
  (python literal: int, decimal, or a syntax error such as `1.2.3`) | `Word(alphas, alphanums)` (an operator spelling, a
  selection keyword, or a bare-word string);
* the word spelling of negation is the four characters `not␣`: `not(` holds the bare word `not` (pyparsing expands a tab to blanks before it scans);
* any other character cannot begin a terminal: the selection is rejected.
`unmodelled` marks inputs outside this domain (a run mixing dots and letters, escapes in quoted strings).  Word operators
glued to a following word (`protein andwater`) are read by pyparsing according to the parsing context; such inputs are
outside the domain the correspondence check generates.  Core Lean only.
-/
import MdVerif.Model.Selection
namespace MdVerif.Sel

inductive ScanErr where
  | parse | unmodelled
  deriving DecidableEq, Repr

def isDigitC (c : Char) : Bool := decide ('0' ≤ c) && decide (c ≤ '9')
def isAlphaC (c : Char) : Bool := (decide ('a' ≤ c) && decide (c ≤ 'z')) || (decide ('A' ≤ c) && decide (c ≤ 'Z'))
def isAlnumC (c : Char) : Bool := isAlphaC c || isDigitC c
def isNumsC (c : Char) : Bool := isDigitC c || c == '.'
def isWordC (c : Char) : Bool := isAlnumC c || c == '.' || c == '_'
def isBlankC (c : Char) : Bool := c == ' ' || c == '\t' || c == '\n' || c == '\r'
def isSymC (c : Char) : Bool := c == '<' || c == '>' || c == '=' || c == '!' || c == '&' || c == '|' || c == '~'

def digitsVal (cs : List Char) : Nat := cs.foldl (fun a c => a * 10 + (c.toNat - '0'.toNat)) 0

/-- `[0-9]+[A-Za-z][A-Za-z0-9]*` -/
def isDigitWord (cs : List Char) : Bool :=
  match cs.dropWhile isDigitC with
  | c :: r => !(cs.takeWhile isDigitC).isEmpty && isAlphaC c && r.all isAlnumC
  | [] => false

/-- one maximal run of word characters -/
def classifyWord (ops kws : List String) (w : List Char) : Except ScanErr Tok :=
  let s := String.ofList w
  if w.isEmpty then .error .parse
  else if w.any (· == '_') then (if kws.contains s then .ok (.kw s) else .error .parse)
  else if w.all isDigitC then .ok (.lit (.int (digitsVal w)))
  else if w.all isNumsC then
    match w.dropWhile isDigitC with
    | '.' :: fr =>
      if fr.all isDigitC && !((w.takeWhile isDigitC).isEmpty && fr.isEmpty) then
        .ok (.lit (.dec (digitsVal (w.takeWhile isDigitC ++ fr)) (10 ^ fr.length)))
      else .ok (.lit .bad)
    | _ => .ok (.lit .bad)
  else if isDigitWord w then .ok (.lit (.str s))
  else match w with
    | c :: r =>
      if isAlphaC c && r.all isAlnumC then
        (if ops.contains s then .ok (.op s) else if kws.contains s then .ok (.kw s) else .ok (.lit (.str s)))
      else .error .unmodelled
    | [] => .error .parse

/-- the longest symbolic operator spelling that begins the input -/
def longestSym (syms : List (List Char)) (cs : List Char) : Option (List Char) :=
  (syms.filter (fun s => s.isPrefixOf cs)).foldl
    (fun best s => match best with | none => some s | some b => if b.length < s.length then some s else some b) none

/-- content of a quoted string up to the closing quote, and what follows it -/
def readQuoted (q : Char) : List Char → Option (List Char × List Char)
  | [] => none
  | c :: r => if c == q then some ([], r) else (readQuoted q r).map (fun p => (c :: p.1, p.2))

def symOps (ops : List String) : List (List Char) := (ops.map String.toList).filter (fun s => s.all isSymC && !s.isEmpty)

def scanFuel (ops kws : List String) : Nat → List Char → Except ScanErr (List Tok)
  | 0, _ => .ok []
  | _ + 1, [] => .ok []
  | f + 1, c :: r =>
    if isBlankC c then scanFuel ops kws f r
    else if c == '(' then (scanFuel ops kws f r).map (Tok.lp :: ·)
    else if c == ')' then (scanFuel ops kws f r).map (Tok.rp :: ·)
    else if c == '\'' || c == '"' then
      match readQuoted c r with
      | none => .error .parse
      | some (content, rest) =>
        if content.any (fun x => x == '\\' || x == '\n' || x == '\r') || rest.head? == some c then .error .unmodelled
        else (scanFuel ops kws f rest).map (Tok.lit (.str (String.ofList content)) :: ·)
    else if isSymC c then
      match longestSym (symOps ops) (c :: r) with
      | none => .error .parse
      | some s => (scanFuel ops kws f ((c :: r).drop s.length)).map (Tok.op (String.ofList s) :: ·)
    else if isWordC c then
      let w := (c :: r).takeWhile isWordC
      let rest := (c :: r).dropWhile isWordC
      match classifyWord ops kws w with
      | .error e => .error e
      | .ok t =>
        -- the word spelling of negation is `"not "`, blank included: before anything else `not` is an ordinary bare word
        let t' := if w == ['n', 'o', 't'] && rest.head? != some ' ' && rest.head? != some '\t' then Tok.lit (.str "not") else t
        (scanFuel ops kws f rest).map (t' :: ·)
    else .error .parse

/-- the tokens of a selection text -/
def scan (ops kws : List String) (cs : List Char) : Except ScanErr (List Tok) := scanFuel ops kws (cs.length + 1) cs

end MdVerif.Sel
