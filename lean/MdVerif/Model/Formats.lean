/-
Trajectory file formats (C01): what each writable format stores and with which quantisation, over exact rationals.
`unitFactor`: native unit per nanometre (mdtraj's `distance_unit` of each file class: angstroms → 10, nanometers → 1);
`fixedQ p`: Python's `'%.pf'` — the correctly rounded p-decimal value, ties to even on the exact value;
`xtcQ`: xdrfile's `(int)(x*1000 ± 0.5)` quantisation used when a frame has more than 9 atoms (raw floats otherwise);
restart files: one file per frame, named `"%s.%0{len(str(n))}d" % (name, i+1)`.  Core Lean only.
-/
import MdVerif.Model.Mic
namespace MdVerif.Fmt
open MdVerif.Mic

inductive F where
  | h5 | xtc | trr | dcd | nc | mdcrd | xyz | lammpstrj | gro | pdb | dtr | rst7 | ncrst
  deriving DecidableEq, Repr

def unitFactor : F → Rat
  | .h5 | .xtc | .trr | .gro => 1
  | _ => 10

/-- decimals of the fixed-point text field in native units (`none`: binary float32 storage); gro takes its `precision` argument -/
def decimals (groPrecision : Nat) : F → Option Nat
  | .mdcrd | .xyz | .lammpstrj | .pdb => some 3
  | .rst7 => some 7
  | .gro => some groPrecision
  | _ => none

def storesTime : F → Bool
  | .h5 | .xtc | .trr | .nc | .gro | .dtr | .rst7 | .ncrst => true
  | _ => false

/-- does the format hold a unit cell at all (mdcrd: rectilinear lengths only; pdb: one CRYST1 record for all frames) -/
def storesCell : F → Bool
  | .xyz => false
  | _ => true

def pow10 (p : Nat) : Rat := (10 : Rat) ^ p

def fixedQ (p : Nat) (x : Rat) : Rat := (roundHE (x * pow10 p) : Rat) / pow10 p

def xtcQ (x : Rat) : Rat := (roundHA (x * 1000) : Rat) / 1000

def toNative (f : F) (x : Rat) : Rat := x * unitFactor f
def fromNative (f : F) (v : Rat) : Rat := v / unitFactor f

/-- the number the file holds for a coordinate of `x` nm in a frame of `nAtoms` atoms -/
def stored (f : F) (groPrecision nAtoms : Nat) (x : Rat) : Rat :=
  match f, decimals groPrecision f with
  | .xtc, _ => if nAtoms ≤ 9 then x else xtcQ x
  | _, some p => fixedQ p (toNative f x)
  | _, none => toNative f x

/-- what loading gives back, in nm -/
def loaded (f : F) (groPrecision nAtoms : Nat) (x : Rat) : Rat := fromNative f (stored f groPrecision nAtoms x)

/-- guaranteed bound on |loaded − x| -/
def precision (f : F) (groPrecision nAtoms : Nat) : Rat :=
  match f, decimals groPrecision f with
  | .xtc, _ => if nAtoms ≤ 9 then 0 else 1 / 2000
  | _, some p => 1 / (2 * pow10 p * unitFactor f)
  | _, none => 0

/-! ### restart file names -/

def digits (n : Nat) : List Char := (Nat.toDigits 10 n)

def padLeft (w : Nat) (l : List Char) : List Char := List.replicate (w - l.length) '0' ++ l

/-- `"%s.%0{len(str(n))}d" % (name, i + 1)` -/
def restartSuffix (n i : Nat) : List Char := padLeft (digits n).length (digits (i + 1))

end MdVerif.Fmt
