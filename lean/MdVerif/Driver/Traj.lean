/- driver protocol for Model/Traj.lean (C03, C17) -/
import MdVerif.Model.Traj
namespace MdVerif.Driver.TrajP
open MdVerif.TrajModel

/-- frames are opaque tags here: the driver only reports structure (lengths, tags, cache flag, sharing) -/
def natOps : FrameOps Nat Nat where
  center := id
  centerW := id
  trace := id
  pick := fun _ f => f
  hcat := fun a _ => a
  sup := fun a _ => a
  center_idem := fun _ => rfl

def optInt (s : String) : Option (Option Int) := if s == "_" then some none else s.toInt?.map some

def parseInts (s : String) : Option (List Int) := if s == "" then some [] else (s.splitOn ",").mapM (·.toInt?)
def parseNats (s : String) : Option (List Nat) := if s == "" then some [] else (s.splitOn ",").mapM (·.toNat?)

def parseKey (s : String) : Option Key :=
  let body := (s.drop 1).toString
  if s.startsWith "i" then body.toInt?.map .int
  else if s.startsWith "s" then
    match body.splitOn "," with
    | [a, b, c] => do
      let a ← optInt a; let b ← optInt b; let c ← c.toInt?
      pure (.slice a b c)
    | _ => none
  else if s.startsWith "x" then (parseInts body).map .idx
  else if s.startsWith "m" then some (.mask (body.toList.map (· == '1')))
  else none

def parseOp (w : World Nat Nat) (s : String) : Option (Op Nat) :=
  match s.splitOn ":" with
  | [h] =>
    let i := (h.drop 1).toString.toNat?
    if h.startsWith "c" then i.map .center
    else if h.startsWith "w" then i.map .centerW
    else if h.startsWith "X" then i.bind (fun i => (w.trajs[i]?).map (fun t => .setXyz i ((List.range t.rows.length).map (· + 1000))))
    else if h.startsWith "Y" then i.bind (fun i => (w.trajs[i]?).map (fun t => .assignSame i ((List.range t.rows.length).map (· + 2000))))
    else none
  | [h, a] =>
    let i := (h.drop 1).toString.toNat?
    if h.startsWith "g" then do let i ← i; let k ← parseKey a; pure (.getitem i k)
    else if h.startsWith "v" then
      match a.splitOn "," with
      | [x, y] => do let i ← i; let x ← x.toNat?; let y ← y.toNat?; pure (.view i x y)
      | _ => none
    -- md.join of a one-element list is a copy of that trajectory, i.e. t[:] (cache included); with more operands it is `join`
    else if h.startsWith "j" then do let i ← i; let js ← parseNats a; pure (if js.isEmpty then .getitem i (.slice none none 1) else .join i js)
    else if h.startsWith "k" then do let i ← i; let j ← a.toNat?; pure (.stack i j)
    else if h.startsWith "p" then do let i ← i; let r ← a.toNat?; pure (.superpose i r)
    else if h.startsWith "T" then do
      let i ← i; let d ← a.toInt?; let t ← w.trajs[i]?
      pure (.setTime i (t.time.map (· + d)))
    else if h.startsWith "C" then do
      let i ← i; let t ← w.trajs[i]?
      pure (.setCell i (if a == "1" then some t.time else none))
    else none
  | [h, a, b] =>
    if h.startsWith "a" then do
      let i ← (h.drop 1).toString.toNat?; let idx ← parseNats b
      pure (.atomSlice i idx (a == "1"))
    else none
  | _ => none

def showInts (l : List Int) : String := ".".intercalate (l.map toString)

def digest (w : World Nat Nat) : String :=
  let ts := w.trajs.map (fun t =>
    s!"n={t.rows.length},a={t.natoms},t={showInts t.time},c={match t.cell with | none => "-" | some c => showInts c},k={if t.traces.isSome then 1 else 0}")
  let n := w.trajs.length
  let pairs := (List.range n).flatMap (fun i => (List.range n).filterMap (fun j =>
    if i < j then
      match w.trajs[i]?, w.trajs[j]? with
      | some a, some b => if a.rows.any (fun x => b.rows.contains x) then some s!"{i}-{j}" else none
      | _, _ => none
    else none))
  ";".intercalate ts ++ "|S:" ++ ",".intercalate pairs

def runTokens (w : World Nat Nat) : List String → Option (World Nat Nat)
  | [] => some w
  | t :: ts => match parseOp w t with
    | some op => runTokens (step natOps w op) ts
    | none => none

def handleTraj : List String → String
  | ["traj", n, a, c, ops] =>
    match n.toNat?, a.toNat? with
    | some n, some a =>
      let t0 : Traj Nat := {
        rows := List.range n, time := (List.range n).map Int.ofNat,
        cell := if c == "1" then some ((List.range n).map Int.ofNat) else none, traces := none, natoms := a }
      let w0 : World Nat Nat := { heap := List.range n, trajs := [t0] }
      match runTokens w0 (if ops == "" then [] else ops.splitOn ";") with
      | some w => digest w
      | none => "bad-op"
    | _, _ => "bad-op"
  | ["key", n, k] =>
    match n.toNat?, parseKey k with
    | some n, some k => match k.positions n with
      | some ps => "P" ++ ",".intercalate (ps.map toString)
      | none => "ERR"
    | _, _ => "bad-op"
  | _ => "bad-op"

end MdVerif.Driver.TrajP
