/- driver protocol for Model/UnitCell.lean (C17) -/
import MdVerif.Model.UnitCell
import MdVerif.Driver.Mic
namespace MdVerif.Driver.CellP
open MdVerif.Mic MdVerif.UnitCell MdVerif.Driver.MicP

def parseCellOp (s : String) : Option CellOp :=
  let body := (s.drop 1).toString
  let v : Option (Option Nat) := if body == "-" then some none else body.toNat?.map some
  if s.startsWith "L" then v.map .setLengths
  else if s.startsWith "A" then v.map .setAngles
  else if s.startsWith "V" then v.map .setVectors
  else none

def handleCell : List String → String
  | "cell" :: nums =>
    match nums.mapM parseRat with
    | some [a, b, c, ca, cb, cg, sg, cz] =>
      let p : Params := ⟨a, b, c, ca, cb, cg, sg, cz⟩
      let B := toVectors p
      let o := ofVectors (toVectorsRaw p)
      s!"V {showV B.a} {showV B.b} {showV B.c} L {showRat o.1.1} {showRat o.1.2.1} {showRat o.1.2.2} D {showRat o.2.1} {showRat o.2.2.1} {showRat o.2.2.2} DET {showRat (det (toVectorsRaw p))}"
    | _ => "bad-op"
  | ["cellops", n, ops] =>
    match n.toNat?, (if ops == "" then some [] else (ops.splitOn ";").mapM parseCellOp) with
    | some n, some os =>
      let s := os.foldl (cellStep n) ⟨none, none⟩
      s!"have={if haveUnitcell s then 1 else 0} L={if s.lengths.isSome then 1 else 0} A={if s.angles.isSome then 1 else 0}"
    | _, _ => "bad-op"
  | _ => "bad-op"

end MdVerif.Driver.CellP
