/- driver protocol for Model/Topology.lean (C04) -/
import MdVerif.Model.Topology
import MdVerif.Model.TopoIdx
namespace MdVerif.Driver.TopoP
open MdVerif.Topo

/- encoding:  chains "/"-separated;  chain = id ":" residues(";"-separated);  residue = name~resSeq~seg~atoms(","-separated);
   atom = name^elem^serial  ("-" for none / empty);  bonds ","-separated  i-j-type-order ("_" for none) -/

def optStr (s : String) : Option String := if s == "-" then none else some s
def dash (s : String) : String := if s == "" then "-" else s
def undash (s : String) : String := if s == "-" then "" else s

def parseAtom (s : String) : Option Atom :=
  match s.splitOn "^" with
  | [n, e, sr] => some ⟨n, e, if sr == "-" then none else sr.toInt?⟩
  | _ => none

def parseRes (s : String) : Option Residue :=
  match s.splitOn "~" with
  | [n, rs, seg, as] => do
    let rs ← rs.toInt?
    let atoms ← (if as == "" then some [] else (as.splitOn ",").mapM parseAtom)
    pure ⟨n, rs, undash seg, atoms⟩
  | _ => none

def parseChain (s : String) : Option Chain :=
  match s.splitOn ":" with
  | [cid, rs] => do
    let res ← (if rs == "" then some [] else (rs.splitOn ";").mapM parseRes)
    pure ⟨optStr cid, res⟩
  | _ => none

def parseBond (s : String) : Option Bond :=
  match s.splitOn "-" with
  | [i, j, t, o] => do
    let i ← i.toNat?; let j ← j.toNat?
    pure ⟨i, j, if t == "_" then none else t.toNat?, if o == "_" then none else o.toNat?⟩
  | _ => none

def parseTop (cs bs : String) : Option Topology := do
  let chains ← (if cs == "-" then some [] else (cs.splitOn "/").mapM parseChain)
  let bonds ← (if bs == "-" then some [] else (bs.splitOn ",").mapM parseBond)
  pure ⟨chains, bonds⟩

def showAtom (a : Atom) : String := s!"{a.name}^{a.elem}^{match a.serial with | none => "-" | some v => toString v}"
def showRes (r : Residue) : String := s!"{r.name}~{r.resSeq}~{dash r.segId}~{",".intercalate (r.atoms.map showAtom)}"
def showChain (c : Chain) : String := s!"{match c.chainId with | none => "-" | some v => v}:{";".intercalate (c.residues.map showRes)}"
def showOptNat : Option Nat → String | none => "_" | some v => toString v
def showBond (b : Bond) : String := s!"{b.i}-{b.j}-{showOptNat b.type}-{showOptNat b.order}"
def showTop (t : Topology) : String :=
  (if t.chains.isEmpty then "-" else "/".intercalate (t.chains.map showChain)) ++ " " ++
  (if t.bonds.isEmpty then "-" else ",".intercalate (t.bonds.map showBond))

/- indexed topologies:  chainIds ","-separated ("-" none; "=" empty list);  residues ";"-separated name~resSeq~seg~chain;
   atoms ","-separated name^elem^serial^res (index order);  bonds as above -/
def parseIAtom (s : String) : Option IAtom :=
  match s.splitOn "^" with
  | [n, e, sr, r] => do let r ← r.toNat?; pure ⟨n, e, if sr == "-" then none else sr.toInt?, r⟩
  | _ => none

def parseIRes (s : String) : Option IRes :=
  match s.splitOn "~" with
  | [n, rs, seg, c] => do let rs ← rs.toInt?; let c ← c.toNat?; pure ⟨n, rs, undash seg, c⟩
  | _ => none

def parseITop (cs rs as bs : String) : Option ITop := do
  let cids := if cs == "=" then [] else (cs.splitOn ",").map optStr
  let res ← (if rs == "=" then some [] else (rs.splitOn ";").mapM parseIRes)
  let atoms ← (if as == "=" then some [] else (as.splitOn ",").mapM parseIAtom)
  let bonds ← (if bs == "-" then some [] else (bs.splitOn ",").mapM parseBond)
  pure ⟨cids, res, atoms, bonds⟩

def showITop (t : ITop) : String :=
  (if t.chainIds.isEmpty then "=" else ",".intercalate (t.chainIds.map (fun c => match c with | none => "-" | some v => v))) ++ " " ++
  (if t.residues.isEmpty then "=" else ";".intercalate (t.residues.map (fun r => s!"{r.name}~{r.resSeq}~{dash r.segId}~{r.chain}"))) ++ " " ++
  (if t.atoms.isEmpty then "=" else ",".intercalate (t.atoms.map (fun a => s!"{a.name}^{a.elem}^{match a.serial with | none => "-" | some v => toString v}^{a.res}"))) ++ " " ++
  (if t.bonds.isEmpty then "-" else ",".intercalate (t.bonds.map showBond))

def handleTopo : List String → String
  | ["itopsubset", cs, rs, as, bs, mask] =>
    match parseITop cs rs as bs with
    | some t => let m := mask.toList.map (· == '1'); showITop (isubset t (fun i => m.getD i false))
    | none => "bad-op"
  | ["itopsubsetl", cs, rs, as, bs, idx] =>
    match parseITop cs rs as bs, (if idx == "=" then some [] else (idx.splitOn ",").mapM (·.toNat?)) with
    | some t, some l => showITop (isubsetL t l)
    | _, _ => "bad-op"
  | ["itopjoin", cs, rs, as, bs, cs2, rs2, as2, bs2, k] =>
    match parseITop cs rs as bs, parseITop cs2 rs2 as2 bs2 with
    | some a, some b => showITop (ijoin a b (k == "1"))
    | _, _ => "bad-op"
  | ["itopnested", cs, bs] =>
    match parseTop cs bs with
    | some t => showITop (ofNested t)
    | none => "bad-op"
  | ["topsubset", cs, bs, mask] =>
    match parseTop cs bs with
    | some t => let m := mask.toList.map (· == '1'); showTop (subset t (fun i => m.getD i false))
    | none => "bad-op"
  | ["topjoin", cs, bs, cs2, bs2, k] =>
    match parseTop cs bs, parseTop cs2 bs2 with
    | some a, some b => showTop (join a b (k == "1"))
    | _, _ => "bad-op"
  | ["toprows", cs, bs] =>
    match parseTop cs bs with
    | some t => showTop (fromRows (toRows t) t.bonds)
    | none => "bad-op"
  | ["toppdb", cs, bs, ter] =>
    match parseTop cs bs with
    | some t =>
      let s := pdbSerials t (ter == "1")
      "S" ++ ",".intercalate (s.map toString) ++ " C" ++ ",".intercalate ((pdbConect t (ter == "1")).map (fun p => s!"{p.1}-{p.2}"))
    | none => "bad-op"
  | ["topeqhash", cs, bs, cs2, bs2] =>
    match parseTop cs bs, parseTop cs2 bs2 with
    | some a, some b => s!"eq={decide (eqKey a = eqKey b)} hash={decide (hashKey a = hashKey b)}"
    | _, _ => "bad-op"
  | _ => "bad-op"

end MdVerif.Driver.TopoP
