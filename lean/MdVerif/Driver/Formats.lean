/- driver protocol for Model/Formats.lean (C01) -/
import MdVerif.Model.Formats
import MdVerif.Model.TextFmt
import MdVerif.Model.Xdr
import MdVerif.Model.TextRecords
import MdVerif.Model.Dcd
import MdVerif.Driver.Mic
namespace MdVerif.Driver.FmtP
open MdVerif.Mic MdVerif.Fmt MdVerif.Txt MdVerif.Driver.MicP

def parseF : String → Option F
  | "h5" => some .h5 | "xtc" => some .xtc | "trr" => some .trr | "dcd" => some .dcd | "nc" => some .nc | "mdcrd" => some .mdcrd
  | "xyz" => some .xyz | "lammpstrj" => some .lammpstrj | "gro" => some .gro | "pdb" => some .pdb | "dtr" => some .dtr
  | "rst7" => some .rst7 | "ncrst" => some .ncrst | _ => none

/-- text travels with blanks written as `_` (no numeric field contains an underscore) -/
def enc (s : List Char) : String := String.ofList (s.map (fun c => if c = ' ' then '_' else c))
def dec (s : String) : List Char := s.toList.map (fun c => if c = '_' then ' ' else c)

def showRats : Option (List Rat) → String
  | some xs => "ok " ++ " ".intercalate (xs.map showRat)
  | none => "none"

def hexNib (c : Char) : Option Nat :=
  if '0' ≤ c ∧ c ≤ '9' then some (c.toNat - '0'.toNat)
  else if 'a' ≤ c ∧ c ≤ 'f' then some (c.toNat - 'a'.toNat + 10) else none

def hexBytes : List Char → Option (List Nat)
  | [] => some []
  | a :: b :: r => do let x ← hexNib a; let y ← hexNib b; let rest ← hexBytes r; pure ((x * 16 + y) :: rest)
  | _ => none

def allFit (w p : Nat) (xs : List Rat) : Bool := xs.all (fun x => decide (Fits w p x))

/-- digit-level text model (Model/TextFmt.lean): `txt …` renders, `txtparse …` scans -/
def handleTxt : List String → String
  -- txt fixed <w> <p> <values…>: the fields back to back; F1/F0 tells whether every field fits its width
  | "txt" :: "fixed" :: ws :: ps :: rest =>
    match ws.toNat?, ps.toNat?, rest.mapM parseRat with
    | some w, some p, some xs => s!"F{if allFit w p xs then 1 else 0} " ++ enc (renderFixedLine w p xs)
    | _, _, _ => "bad-op"
  -- txt spaced <w> <p> <values…>: every field preceded by one blank
  | "txt" :: "spaced" :: ws :: ps :: rest =>
    match ws.toNat?, ps.toNat?, rest.mapM parseRat with
    | some w, some p, some xs => "F1 " ++ enc (renderSpaced w p xs)
    | _, _, _ => "bad-op"
  -- txt mdcrd <values in angstrom…>: the coordinate lines of one frame, joined by `|`
  | "txt" :: "mdcrd" :: rest =>
    match rest.mapM parseRat with
    | some xs => s!"F{if allFit 8 3 xs then 1 else 0} " ++ "|".intercalate ((mdcrdFrame xs).map enc)
    | none => "bad-op"
  | ["txt", "box", a, b, c] =>
    match parseRat a, parseRat b, parseRat c with
    | some a, some b, some c => "F1 " ++ enc (mdcrdBoxLine a b c)
    | _, _, _ => "bad-op"
  -- txt pdbline <serial> <name> <symbol> <resName> <chain> <resSeq> <x> <y> <z> <bfactor> <segId>   (strings hex-encoded; "-" = empty): the ATOM record
  | ["txt", "pdbline", serial, name, sym, resn, chain, resseq, x, y, z, b, seg] =>
    let hs := fun (h : String) => if h == "-" then some [] else (hexBytes h.toList).map (fun bs => bs.map Char.ofNat)
    match serial.toNat?, hs name, hs sym, hs resn, hs chain, resseq.toInt?, parseRat x, parseRat y, parseRat z, parseRat b, hs seg with
    | some sr, some nm, some sy, some rn, some ch, some rs, some x, some y, some z, some b, some sg =>
      match pdbAtomLine ⟨sr, nm, rn, ch.headD ' ', rs, x, y, z, b, sg, sy⟩ with
      | some l => "L " ++ enc l
      | none => "ERR"
    | _, _, _, _, _, _, _, _, _, _, _ => "bad-op"
  | ["txt", "cryst1", a, b, c, al, be, ga] =>
    match parseRat a, parseRat b, parseRat c, parseRat al, parseRat be, parseRat ga with
    | some a, some b, some c, some al, some be, some ga => "L " ++ enc (cryst1Line a b c al be ga)
    | _, _, _, _, _, _ => "bad-op"
  | "txt" :: "grobox" :: rest =>
    match rest.mapM parseRat with
    | some vs => "L " ++ enc (groBoxLine vs)
    | none => "bad-op"
  -- txt groline <p> <resSeq> <resName> <atomName> <serial> <x> <y> <z>
  | ["txt", "groline", ps, resseq, resn, name, serial, x, y, z] =>
    let hs := fun (h : String) => if h == "-" then some [] else (hexBytes h.toList).map (fun bs => bs.map Char.ofNat)
    match ps.toNat?, resseq.toInt?, hs resn, hs name, serial.toNat?, parseRat x, parseRat y, parseRat z with
    | some p, some rs, some rn, some nm, some sr, some x, some y, some z => "L " ++ enc (groAtomLine p rs rn nm sr x y z)
    | _, _, _, _, _, _, _, _ => "bad-op"
  -- txt pdb83 <values…>: `_format_83` of each value, back to back (ERR if one of them raises)
  | "txt" :: "pdb83" :: rest =>
    match rest.mapM parseRat with
    | some xs => match xs.mapM pdb83 with
      | some fs => s!"F{if allFit 8 3 xs then 1 else 0} " ++ enc fs.flatten
      | none => "ERR"
    | none => "bad-op"
  | ["txtparse", "fixed", ws, line] =>
    match ws.toNat? with
    | some w => showRats (parseFixedLine w (dec line))
    | none => "bad-op"
  | ["txtparse", "tokens", line] => showRats (parseTokens (dec line))
  | ["txtparse", "mdcrd", block] => showRats (mdcrdParse ((block.splitOn "|").map dec))
  | _ => "bad-op"

def showF32 (w : Nat) : String := match MdVerif.Xdr.f32ToRat w with | some q => showRat q | none => "nonfinite"

/-- `trr <hex of the file>`: the frames the byte-level model reads: natoms step time lambda B box… X coordinates…, frames separated by ";" -/
def handleTrr (hex : String) : String :=
  match hexBytes hex.toList with
  | none => "bad-op"
  | some bytes =>
    match MdVerif.Xdr.readTrr bytes with
    | none => "unreadable"
    | some fs => "ok " ++ ";".intercalate (fs.map (fun f =>
        s!"{f.natoms} {f.step} {showF32 f.time} {showF32 f.lambda} B {" ".intercalate (f.box.map showF32)} X {" ".intercalate (f.x.map showF32)}"))

/-- `xtc <hex of the file>`: per frame natoms step time B box… X coordinates… (X empty when the coordinates are stored compressed) -/
def handleXtc (hex : String) : String :=
  match hexBytes hex.toList with
  | none => "bad-op"
  | some bytes =>
    match MdVerif.Xdr.readXtc bytes with
    | none => "unreadable"
    | some fs => "ok " ++ ";".intercalate (fs.map (fun f =>
        s!"{f.natoms} {f.step} {showF32 f.time} B {" ".intercalate (f.box.map showF32)} X {" ".intercalate (f.x.map showF32)}"))

def showF64Pairs : List Nat → List String
  | lo :: hi :: r => (match MdVerif.Dcd.f64ToRat lo hi with | some q => showRat q | none => "nonfinite") :: showF64Pairs r
  | _ => []

/-- `dcd <hex of the file>`: "ok nset istart nsavc nstep hasCell natoms" then per frame ";C six doubles X … Y … Z …" -/
def handleDcd (hex : String) : String :=
  match hexBytes hex.toList with
  | none => "bad-op"
  | some bytes =>
    match MdVerif.Dcd.readDcd bytes with
    | none => "unreadable"
    | some (h, fs) => s!"ok {h.nset} {h.istart} {h.nsavc} {h.nstep} {if h.hasCell then 1 else 0} {h.natoms}" ++ String.join (fs.map (fun f =>
        s!";C {" ".intercalate (showF64Pairs f.cell)} X {" ".intercalate (f.x.map showF32)} Y {" ".intercalate (f.y.map showF32)} Z {" ".intercalate (f.z.map showF32)}"))

def handleFmt : List String → String
  | ["trr", hex] => handleTrr hex
  | ["dcd", hex] => handleDcd hex
  | ["xtc", hex] => handleXtc hex
  -- fmtq <format> <gro precision> <n atoms> <values in nm …>: stored (native) and loaded (nm) value of each, and the tie margin of the rounding
  | "fmtq" :: fs :: gs :: ns :: rest =>
    match parseF fs, gs.toNat?, ns.toNat?, rest.mapM parseRat with
    | some f, some g, some n, some xs =>
      let marg := fun (x : Rat) => match f, decimals g f with
        | .xtc, _ => if n ≤ 9 then (1 : Rat) else tieMargin (x * 1000)
        | _, some p => tieMargin (toNative f x * pow10 p)
        | _, none => 1
      s!"P {showRat (precision f g n)} T {if storesTime f then 1 else 0} C {if storesCell f then 1 else 0} V " ++
        " ".intercalate (xs.map (fun x => s!"{showRat (stored f g n x)}:{showRat (loaded f g n x)}:{showRat (marg x)}"))
    | _, _, _, _ => "bad-op"
  -- rstnames <n>: the suffixes of the numbered restart files
  | ["rstnames", ns] =>
    match ns.toNat? with
    | some n => ",".intercalate ((List.range n).map (fun i => String.ofList (restartSuffix n i)))
    | none => "bad-op"
  | ws => handleTxt ws

end MdVerif.Driver.FmtP
