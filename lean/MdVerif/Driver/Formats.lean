/- driver protocol for Model/Formats.lean (C01) -/
import MdVerif.Model.Formats
import MdVerif.Driver.Mic
namespace MdVerif.Driver.FmtP
open MdVerif.Mic MdVerif.Fmt MdVerif.Driver.MicP

def parseF : String → Option F
  | "h5" => some .h5 | "xtc" => some .xtc | "trr" => some .trr | "dcd" => some .dcd | "nc" => some .nc | "mdcrd" => some .mdcrd
  | "xyz" => some .xyz | "lammpstrj" => some .lammpstrj | "gro" => some .gro | "pdb" => some .pdb | "dtr" => some .dtr
  | "rst7" => some .rst7 | "ncrst" => some .ncrst | _ => none

def handleFmt : List String → String
  -- fmtq <format> <gro precision> <n atoms> <values in nm …>: stored (native) and loaded (nm) value of each, and the tie margin of the rounding
  | "fmtq" :: fs :: gs :: ns :: rest =>
    match parseF fs, gs.toNat?, ns.toNat?, rest.mapM parseRat with
    | some f, some g, some n, some xs =>
      let marg := fun (x : Rat) => match f, decimals g f with
        | .xtc, _ => if n ≤ 9 then (1 : Rat) else tieMargin (x * 1000)
        | _, some p => tieMargin (toNative f x * pow10 p)
        | _, none => 1
      s!"P {showRat (precision f g n)} T {if storesTime f then 1 else 0} C {if storesCell f then 1 else 0} V " ++
        " ".intercalate (xs.map (fun x => s!"{showRat (stored f g n x)}:{showRat (loaded f g n x)}:{showRat (marg x)}"))
    | _, _, _, _ => "bad-op"
  -- rstnames <n>: the suffixes of the numbered restart files
  | ["rstnames", ns] =>
    match ns.toNat? with
    | some n => ",".intercalate ((List.range n).map (fun i => String.ofList (restartSuffix n i)))
    | none => "bad-op"
  | _ => "bad-op"

end MdVerif.Driver.FmtP
