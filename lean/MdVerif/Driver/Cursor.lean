/- driver protocol for Model/Cursor.lean (C02, C18) -/
import MdVerif.Model.Cursor
namespace MdVerif.Driver
open MdVerif

def junkId : Nat := 999999

def parseFmt : String → Option Fmt
  | "h5" => some .h5 | "nc" => some .nc | "xtc" => some .xtc | "trr" => some .trr
  | "dcd" => some .dcd | "txt" => some .txt | _ => none

def parseOp (t : String) : Option Op :=
  if t == "ra" then some .readAll
  else if t == "t" then some .tell
  else if t == "l" then some .len
  else if t.startsWith "r" then (t.drop 1).toNat?.map .read
  else if t.startsWith "s" then (t.drop 1).toNat?.map .seek
  else if t.startsWith "d" then (t.drop 1).toInt?.map .seekRel
  else none

def showNats (l : List Nat) : String := ",".intercalate (l.map toString)

def showOut : Out Nat → String
  | .frames l => "F" ++ showNats l
  | .num n => "N" ++ toString n
  | .unit => "U"
  | .error => "E"

def handleCursor : List String → String
  | ["cursor", f, n, ops] =>
    match parseFmt f, n.toNat? with
    | some fmt, some n =>
      let toks := if ops == "" then [] else ops.splitOn ";"
      match toks.mapM parseOp with
      | some os => "|".intercalate ((runOps junkId fmt (List.range n) St.init os).map showOut)
      | none => "bad-op"
    | _, _ => "bad-op"
  | ["spec", n, ops] =>
    match n.toNat? with
    | some n =>
      let toks := if ops == "" then [] else ops.splitOn ";"
      match toks.mapM parseOp with
      | some os => "|".intercalate ((runSpec (List.range n) 0 os).map showOut)
      | none => "bad-op"
    | _ => "bad-op"
  | ["load", f, n, s] =>
    match parseFmt f, n.toNat?, s.toNat? with
    | some fmt, some n, some s => showNats (load junkId fmt (List.range n) s)
    | _, _, _ => "bad-op"
  | ["loadframe", f, n, i] =>
    match parseFmt f, n.toNat?, i.toNat? with
    | some fmt, some n, some i => showNats (loadFrame junkId fmt (List.range n) i)
    | _, _, _ => "bad-op"
  | ["iter", f, n, c, s, k, fuel] =>
    match parseFmt f, n.toNat?, c.toNat?, s.toNat?, k.toNat?, fuel.toNat? with
    | some fmt, some n, some c, some s, some k, some fuel =>
      match iterload junkId fmt (List.range n) c s k fuel with
      | some chunks => "C" ++ ";".intercalate (chunks.map showNats)
      | none => "NONTERM"
    | _, _, _, _, _, _ => "bad-op"
  | _ => "bad-op"

end MdVerif.Driver
