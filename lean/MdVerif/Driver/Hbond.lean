/- driver protocol for Model/Hbond.lean (C14) -/
import MdVerif.Model.Hbond
import MdVerif.Driver.Mic
import MdVerif.Driver.Nb
import MdVerif.Driver.Image
namespace MdVerif.Driver.HbP
open MdVerif.Mic MdVerif.Hb MdVerif.Driver.MicP MdVerif.Driver.NbP MdVerif.Driver.ImageP

/-- `elem|water|sidechain` -/
def parseHAtom (s : String) : Option HAtom :=
  match s.splitOn "|" with
  | [e, w, sc] => do let e ← e.toNat?; pure ⟨e, w == "1", sc == "1"⟩
  | _ => none

def showTrip (t : Nat × Nat × Nat) : String := s!"{t.1}-{t.2.1}-{t.2.2}"

def absR (x : Rat) : Rat := if x < 0 then -x else x

def parseTrips (s : String) : Option (List (Nat × Nat × Nat)) :=
  if s == "-" then some [] else
  (s.splitOn ",").mapM (fun p => match p.splitOn "-" with
    | [a, b, c] => do let a ← a.toNat?; let b ← b.toNat?; let c ← c.toNat?; pure (a, b, c)
    | _ => none)

def handleHb : List String → String
  -- hbtrip <exWater> <scOnly> <natoms> <atoms…> <bonds>
  | "hbtrip" :: w :: sc :: ns :: rest =>
    match ns.toNat? with
    | some n =>
      match (rest.take n).mapM parseHAtom, parsePairs (rest.getD n "-") with
      | some atoms, some bonds =>
        let t := triplets atoms bonds (w == "1") (sc == "1")
        if t.isEmpty then "-" else ",".intercalate (t.map showTrip)
      | _, _ => "bad-op"
    | none => "bad-op"
  -- bh <cut> <kcos> <freq> <nframes> <triplets> <coords nframes·3n>: per triplet kept flag, and the smallest relative margin of its decisions
  | "bh" :: cuts :: ks :: fs :: nfs :: ts :: rest =>
    match parseRat cuts, parseRat ks, parseRat fs, nfs.toNat?, parseTrips ts, rest.mapM parseRat with
    | some cut, some kcos, some freq, some nf, some trips, some qs =>
      if nf == 0 then "bad-op" else
      let per := qs.length / nf
      let frames := (List.range nf).map (fun f => toV3s ((qs.drop (f * per)).take per))
      ";".intercalate (trips.map (fun t =>
        let geo := frames.map (fun pl =>
          let pD := pl.getD t.1 ⟨0, 0, 0⟩; let pH := pl.getD t.2.1 ⟨0, 0, 0⟩; let pA := pl.getD t.2.2 ⟨0, 0, 0⟩
          let a2 := (pD.sub pH).norm2; let b2 := (pH.sub pA).norm2; let c2 := (pA.sub pD).norm2
          let num := a2 + b2 - c2
          let m1 := absR (b2 - cut * cut) / (cut * cut)
          let m2 := if a2 * b2 == 0 then 0 else absR (num * num - 4 * kcos * kcos * a2 * b2) / (4 * a2 * b2)
          (bhPresent pD pH pA cut kcos, bhClose pH pA cut, min m1 m2))
        let pres := geo.map (·.1)
        let close := geo.map (·.2.1)
        let keep := bhKeep close pres freq
        let fm := absR (((pres.count true : Nat) : Rat) / (nf : Rat) - freq)
        s!"{if keep then 1 else 0}:{showRat (minList (geo.map (·.2.2)))}:{showRat fm}:{pres.count true}"))
    | _, _, _, _, _, _ => "bad-op"
  -- wn <r2> <delta2>
  | ["wn", r2, d2] =>
    match parseRat r2, parseRat d2 with
    | some r, some d => if wnPresent r d then "1" else "0"
    | _, _ => "bad-op"
  -- ks <n> <skip bits> <proline bits> <ca coords 3n> <k> <d-a:e …>: slots of every donor
  | "ks" :: ns :: skips :: pros :: rest =>
    match ns.toNat? with
    | some n =>
      match (rest.take (3 * n)).mapM parseRat with
      | some cq =>
        let ca := toV3s cq
        let sk := skips.toList; let pr := pros.toList
        let ents := (rest.drop (3 * n)).filterMap (fun s => match s.splitOn ":" with
          | [da, e] => match da.splitOn "-", parseRat e with
            | [d, a], some ev => do let d ← d.toNat?; let a ← a.toNat?; pure ((d, a), ev)
            | _, _ => none
          | _ => none)
        let energy := fun d a => match ents.find? (fun x => x.1 == (d, a)) with | some x => x.2 | none => 0
        let skip := fun i => sk.getD i '1' == '1'
        let pro := fun i => pr.getD i '0' == '1'
        let caClose : Nat → Nat → Bool := fun i j => decide (((ca.getD i ⟨0, 0, 0⟩).sub (ca.getD j ⟨0, 0, 0⟩)).norm2 < 81 / 100)
        let showSlot := fun (s : Slot) => match s with | some x => s!"{x.1}" | none => "-"
        ";".intercalate ((List.range n).map (fun d => let r := ksFrame n skip pro caClose energy d; s!"{showSlot r.1},{showSlot r.2}"))
          ++ " C " ++ showPairs (ksCandidates n skip caClose)
      | none => "bad-op"
    | none => "bad-op"
  | _ => "bad-op"

end MdVerif.Driver.HbP
