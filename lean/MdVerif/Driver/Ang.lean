/- driver protocol for Model/Angles.lean (C07) -/
import MdVerif.Model.Angles
import MdVerif.Driver.Mic
import MdVerif.Driver.Topo
import MdVerif.Driver.Nb
namespace MdVerif.Driver.AngP
open MdVerif.Mic MdVerif.Ang MdVerif.Driver.MicP MdVerif.Driver.NbP

def mkPbc (kind : String) (B : Cell) : Pbc :=
  if kind == "ortho" then .ortho B else if kind == "tri" then .tri B else .none

/-- margins of all displacement computations of a kernel call: (min rounding margin, min gap, max ties) -/
def margins (kind : String) (rf : Rat → Int) (B : Cell) (pairs : List (V3 × V3)) : Rat × Rat × Nat :=
  let infos := pairs.map (fun pq => micInfo kind rf B (pq.2.sub pq.1))
  (minList (infos.map (·.2.1)), minList (infos.map (·.2.2.1)), (infos.map (·.2.2.2)).foldl max 0)

def handleAng : List String → String
  | "ang" :: kind :: rnd :: rest =>
    match parseRnd rnd, rest.mapM parseRat with
    | some rf, some qs =>
      match mkCell (qs.take 9), toV3s (qs.drop 9) with
      | some B, [a, b, c] =>
        let r := angle rf (mkPbc kind B) a b c
        let m := margins kind rf B [(b, a), (b, c)]
        s!"A {showRat r.1} {showRat r.2.1} {showRat r.2.2} M {showRat m.1} G {showRat m.2.1} T {m.2.2}"
      | _, _ => "bad-op"
    | _, _ => "bad-op"
  | "dih" :: kind :: rnd :: rest =>
    match parseRnd rnd, rest.mapM parseRat with
    | some rf, some qs =>
      match mkCell (qs.take 9), toV3s (qs.drop 9) with
      | some B, [a, b, c, d] =>
        let r := dihedral rf (mkPbc kind B) a b c d
        let m := margins kind rf B [(a, b), (b, c), (c, d)]
        let b1 := disp rf (mkPbc kind B) a b
        let b3 := disp rf (mkPbc kind B) c d
        s!"D {showRat r.1} {showRat r.2.1} {showRat r.2.2} M {showRat m.1} G {showRat m.2.1} T {m.2.2} N {showRat b1.norm2} {showRat b3.norm2}"
      | _, _ => "bad-op"
    | _, _ => "bad-op"
  | ["tors", which, cs, bs] =>
    match MdVerif.Driver.TopoP.parseTop cs bs with
    | some t =>
      let pat := if which == "phi" then PHI else if which == "psi" then PSI else OMEGA
      ";".intercalate ((atomSequence (atomRecs t) pat).map (fun rq => s!"{rq.1}:{showNats rq.2}"))
    | none => "bad-op"
  | _ => "bad-op"

end MdVerif.Driver.AngP
