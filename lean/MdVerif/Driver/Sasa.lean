/- driver protocol for Model/Sasa.lean (C13, C08) -/
import MdVerif.Model.Sasa
import MdVerif.Driver.Mic
import MdVerif.Driver.Nb
namespace MdVerif.Driver.SasaP
open MdVerif.Mic MdVerif.Sasa MdVerif.Driver.MicP MdVerif.Driver.NbP

def toAtoms : List Rat → List Atom
  | x :: y :: z :: r :: rest => ⟨⟨x, y, z⟩, r⟩ :: toAtoms rest
  | _ => []

/-- points of atom `i` lying within `tol` of some other atom's surface: |d² − R²| < tol·(2R + tol) -/
def marginal (atoms : List Atom) (points : List V3) (i : Nat) (ai : Atom) (tol : Rat) : Nat :=
  (points.filter (fun s =>
    (atoms.zipIdx).any (fun p =>
      p.2 != i &&
        (let d := ((pointOf ai s).sub p.1.pos).norm2 - p.1.rad * p.1.rad
         let w := tol * (2 * p.1.rad + tol)
         decide (-w < d ∧ d < w))))).length

def handleSasa : List String → String
  | "sasa" :: tol :: np :: rest =>
    match parseRat tol, np.toNat?, rest.mapM parseRat with
    | some t, some np, some qs =>
      let points := toV3s (qs.take (3 * np))
      let atoms := toAtoms (qs.drop (3 * np))
      ",".intercalate ((atoms.zipIdx).map (fun p =>
        s!"{countAtom atoms points p.2 p.1}:{countSpec atoms points p.2 p.1}:{marginal atoms points p.2 p.1 t}"))
    | _, _, _ => "bad-op"
  -- sasamask <n> <none | - | i,j,…>: the selection mask as a string of 0/1
  | ["sasamask", n, idx] =>
    match n.toNat?, (if idx == "none" then some none else if idx == "-" then some (some []) else ((idx.splitOn ",").mapM (fun (w : String) => w.toNat?)).map some) with
    | some n, some sel => "".intercalate ((maskOf n sel).map (fun b => if b then "1" else "0"))
    | _, _ => "bad-op"
  | _ => "bad-op"

end MdVerif.Driver.SasaP
