/- driver protocol for Model/Image.lean (C11) -/
import MdVerif.Model.Image
import MdVerif.Driver.Mic
import MdVerif.Driver.Nb
namespace MdVerif.Driver.ImageP
open MdVerif.Mic MdVerif.Image MdVerif.Driver.MicP MdVerif.Driver.NbP

def parsePairs (s : String) : Option (List (Nat × Nat)) :=
  if s == "-" then some [] else
  (s.splitOn ",").mapM (fun p => match p.splitOn "-" with
    | [a, b] => do let a ← a.toNat?; let b ← b.toNat?; pure (a, b)
    | _ => none)

def showPairs (l : List (Nat × Nat)) : String :=
  if l.isEmpty then "-" else ",".intercalate (l.map (fun p => s!"{p.1}-{p.2}"))

/-- distance of `x` from the nearest integer: the margin of a floor decision -/
def floorMargin (x : Rat) : Rat :=
  let f := x - (x.floor : Rat)
  if f < 1 - f then f else 1 - f

/-- the rounding arguments of one `make_whole` step -/
def stepMargin (rnd : Rat → Int) (B : Cell) (d : V3) : Rat :=
  let x1 := d.z / B.c.z
  let nc : Rat := rnd x1
  let x2 := (d.y - nc * B.c.y) / B.b.y
  let nb : Rat := rnd x2
  let x3 := (d.x - nc * B.c.x - nb * B.b.x) / B.a.x
  min (tieMargin x1) (min (tieMargin x2) (tieMargin x3))

def wholeMargin (rnd : Rat → Int) (B : Cell) (pl : List V3) (bonds : List (Nat × Nat)) : Rat :=
  (bonds.foldl (fun (st : List V3 × Rat) bd =>
    (wholeStepL rnd B st.1 bd, min st.2 (stepMargin rnd B ((st.1.getD bd.2 zero3).sub (st.1.getD bd.1 zero3))))) (pl, 1)).2

def molMargin (B : Cell) (ctr : V3) : Rat :=
  let x1 := ctr.z / B.c.z
  let kc : Rat := x1.floor
  let y := ctr.y - B.c.y * kc
  let x2 := y / B.b.y
  let kb : Rat := x2.floor
  let x := ctr.x - B.c.x * kc - B.b.x * kb
  min (floorMargin x1) (min (floorMargin x2) (floorMargin (x / B.a.x)))

/-- split a flat atom list into molecules of the given sizes -/
def splitMols : List Nat → List Nat → List (List Nat)
  | [], _ => []
  | s :: ss, atoms => atoms.take s :: splitMols ss (atoms.drop s)

def handleImage : List String → String
  -- imgorder <n> <bonds>: the placement order and whether it is valid
  | ["imgorder", ns, bs] =>
    match ns.toNat?, parsePairs bs with
    | some n, some bonds =>
      let o := placementOrder n bonds
      s!"{showPairs o} V {if validOrder [] o then 1 else 0}"
    | _, _ => "bad-op"
  -- imgvalid <bonds>: is this list a valid placement order
  | ["imgvalid", bs] =>
    match parsePairs bs with
    | some bonds => if validOrder [] bonds then "1" else "0"
    | none => "bad-op"
  -- imgwhole <rnd> <bonds> <box 9> <coords 3n>
  | "imgwhole" :: rnd :: bs :: rest =>
    match parseRnd rnd, parsePairs bs, rest.mapM parseRat with
    | some rf, some bonds, some qs =>
      match mkCell (qs.take 9) with
      | some B =>
        let pl := toV3s (qs.drop 9)
        if bonds.any (fun bd => bd.2 ≥ pl.length || bd.1 ≥ pl.length) then "bad-op" else
        let out := makeWholeL rf B pl bonds          -- = makeWhole (makeWholeL_eq)
        let m := wholeMargin rf B pl bonds
        s!"P {" ".intercalate (out.map showV)} M {showRat m}"
      | none => "bad-op"
    | _, _, _ => "bad-op"
  -- imgwrap <nmols> <sizes...> <natoms_in_mols> <atoms...> <box 9> <T 3> <coords 3n>
  | "imgwrap" :: nm :: rest =>
    match nm.toNat? with
    | some nmol =>
      match (rest.take nmol).mapM String.toNat? with
      | some sizes =>
        let tot := sizes.foldl (· + ·) 0
        match ((rest.drop nmol).take tot).mapM String.toNat?, ((rest.drop nmol).drop tot).mapM parseRat with
        | some atoms, some qs =>
          match mkCell (qs.take 9), toV3s ((qs.drop 9).take 3) with
          | some B, [T] =>
            let pl := toV3s (qs.drop 12)
            let mols := splitMols sizes atoms
            let out := wrapMolsL B T pl mols             -- = wrapMols (wrapMolsL_eq)
            -- margins: centroid of each molecule at the time it is wrapped (molecules are disjoint: use translated input)
            let p0 : Nat → V3 := fun k => ((ofList pl) k).add T
            let m := minList (mols.map (fun mol => molMargin B (centroid p0 mol)))
            if mols.any (fun mol => mol.any (· ≥ pl.length)) then "bad-op" else
            s!"P {" ".intercalate (out.map showV)} M {showRat m}"
          | _, _ => "bad-op"
        | _, _ => "bad-op"
      | none => "bad-op"
    | none => "bad-op"
  | _ => "bad-op"

end MdVerif.Driver.ImageP
