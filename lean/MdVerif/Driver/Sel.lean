/- driver protocol for Model/Selection.lean (C12) -/
import MdVerif.Model.Selection
import MdVerif.Model.SelScan
import MdVerif.Generated.Tables
namespace MdVerif.Driver.SelP
open MdVerif.Sel

def hexVal (c : Char) : Option Nat :=
  if '0' ≤ c ∧ c ≤ '9' then some (c.toNat - '0'.toNat)
  else if 'a' ≤ c ∧ c ≤ 'f' then some (c.toNat - 'a'.toNat + 10) else none

def unhex : List Char → Option (List Char)
  | [] => some []
  | a :: b :: r => do
    let x ← hexVal a; let y ← hexVal b; let rest ← unhex r
    pure (Char.ofNat (x * 16 + y) :: rest)
  | _ => none

def unhexStr (s : String) : Option String := (unhex s.toList).map String.ofList

def parseDec (s : String) : Option (Int × Nat) :=
  match s.splitOn "/" with
  | [a, b] => do let a ← a.toInt?; let b ← b.toNat?; pure (a, b)
  | _ => none

def parseTok (s : String) : Option Tok :=
  let body := (s.drop 2).toString
  if s == "(" then some .lp else if s == ")" then some .rp
  else if s.startsWith "k:" then some (.kw body)
  else if s.startsWith "o:" then (unhexStr body).map .op
  else if s.startsWith "n:" then body.toInt?.map (fun n => .lit (.int n))
  else if s.startsWith "d:" then (parseDec body).map (fun p => .lit (.dec p.1 p.2))
  else if s.startsWith "s:" then (unhexStr body).map (fun v => .lit (.str v))
  else if s.startsWith "b:" then some (.lit .bad)
  else none

def parseVal (s : String) : Option Val :=
  let body := (s.drop 1).toString
  if s == "b1" then some (.b true) else if s == "b0" then some (.b false)
  else if s == "n" then some .none
  else if s.startsWith "i" then body.toInt?.map .i
  else if s.startsWith "d" then (parseDec body).map (fun p => .d p.1 p.2)
  else if s.startsWith "s" then (unhexStr body).map .s
  else none

def parseAtom (s : String) : Option (List (String × Val)) :=
  (s.splitOn ",").mapM (fun kv => match kv.splitOn "=" with
    | [k, v] => (parseVal v).map (fun x => (k, x))
    | _ => none)

def view (kvs : List (String × Val)) : AtomView := fun k => (kvs.find? (·.1 == k)).map (·.2)

def showErr : Err → String
  | .parse => "parse" | .literalTruth => "literal" | .syntax => "syntax" | .type => "type"

def scanOps : List String := MdVerif.Generated.selOps.map (·.1)
def scanKws : List String := MdVerif.Generated.selKeywords.flatMap (·.2)

def handleSel : List String → String
  | ["sel", toks, atoms] =>
    match (toks.splitOn ";").mapM parseTok, (if atoms == "-" then some [] else (atoms.splitOn "|").mapM parseAtom) with
    | some ts, some as =>
      match parse ts with
      | .error e => "ERR " ++ showErr e
      | .ok e =>
        match select (as.map view) e with
        | .ok l => "OK " ++ ",".intercalate (l.map toString)
        | .error x => "ERR " ++ showErr x
    | _, _ => "bad-op"
  | ["selraw", hex, atoms] =>
    -- the text of the selection (hex-encoded), scanned by the model with the operator / keyword tables regenerated from the source
    match unhex hex.toList, (if atoms == "-" then some [] else (atoms.splitOn "|").mapM parseAtom) with
    | some cs, some as =>
      match scan scanOps scanKws cs with
      | .error .unmodelled => "UNMODELLED"
      | .error .parse => "ERR parse"
      | .ok ts =>
        match parse ts with
        | .error e => "ERR " ++ showErr e
        | .ok e =>
          match select (as.map view) e with
          | .ok l => "OK " ++ ",".intercalate (l.map toString)
          | .error x => "ERR " ++ showErr x
    | _, _ => "bad-op"
  | _ => "bad-op"

end MdVerif.Driver.SelP
