/- driver protocol for Model/Mic.lean (C05, C07, C09, C10, C11) -/
import MdVerif.Model.Mic
namespace MdVerif.Driver.MicP
open MdVerif.Mic

def parseRat (s : String) : Option Rat :=
  match s.splitOn "/" with
  | [a] => a.toInt?.map (fun n => (n : Rat))
  | [a, b] => do let a ← a.toInt?; let b ← b.toNat?; if b = 0 then none else pure ((a : Rat) / (b : Rat))
  | _ => none

def showRat (q : Rat) : String := if q.den = 1 then toString q.num else s!"{q.num}/{q.den}"

def parseRnd : String → Option (Rat → Int)
  | "ha" => some roundHA | "hz" => some roundHZ | "he" => some roundHE | _ => none

/-- distance of `x` from the nearest half-integer: the margin of a rounding decision -/
def tieMargin (x : Rat) : Rat :=
  let f := x - (x.floor : Rat)
  let d := f - 1/2
  if d < 0 then -d else d

def mkCell : List Rat → Option Cell
  | [a, b, c, d, e, f, g, h, i] => some ⟨⟨a, b, c⟩, ⟨d, e, f⟩, ⟨g, h, i⟩⟩
  | _ => none

def showV (v : V3) : String := s!"{showRat v.x} {showRat v.y} {showRat v.z}"

def minList : List Rat → Rat
  | [] => 1
  | x :: xs => xs.foldl min x

/-- displacement with the safety margins of its discrete decisions: (vector, rounding margin, relative gap to the
second best image, number of tied best images) -/
def micInfo (kind : String) (rf : Rat → Int) (B : Cell) (r : V3) : V3 × Rat × Rat × Nat :=
  if kind == "none" then (r, 1, 1, 1)
  else if kind == "ortho" then
    (distOrtho rf B r, minList [tieMargin (r.x / B.a.x), tieMargin (r.y / B.b.y), tieMargin (r.z / B.c.z)], 1, 1)
  else
    let R := reduce rf B
    let c1 := B.c.sub (V3.smul (rf (B.c.y / B.b.y)) B.b)
    let mred := minList [tieMargin (B.c.y / B.b.y), tieMargin (c1.x / B.a.x), tieMargin (B.b.x / B.a.x)]
    let r1 := r.sub (V3.smul (rf (r.z / R.c.z)) R.c)
    let r2 := r1.sub (V3.smul (rf (r1.y / R.b.y)) R.b)
    let mw := minList [tieMargin (r.z / R.c.z), tieMargin (r1.y / R.b.y), tieMargin (r2.x / R.a.x)]
    let w := wrapTri rf R r
    let ns := (images27 R w).map (·.2.norm2)
    let best := minList ns
    let others := ns.filter (· ≠ best)
    let gap := if others.isEmpty then 1 else (minList others - best)
    (distTri rf B r, min mred mw, gap, (ns.filter (· == best)).length)

def handleMic : List String → String
  | "mic" :: kind :: rnd :: nums =>
    match parseRnd rnd, nums.mapM parseRat with
    | some rf, some qs =>
      match mkCell (qs.take 9), qs.drop 9 with
      | some B, [x, y, z] =>
        let r : V3 := ⟨x, y, z⟩
        if kind == "ortho" then
          let d := distOrtho rf B r
          let m := minList [tieMargin (r.x / B.a.x), tieMargin (r.y / B.b.y), tieMargin (r.z / B.c.z)]
          s!"D {showV d} N {showRat d.norm2} M {showRat m} G 1"
        else
          let R := reduce rf B
          let c1 := B.c.sub (V3.smul (rf (B.c.y / B.b.y)) B.b)
          let mred := minList [tieMargin (B.c.y / B.b.y), tieMargin (c1.x / B.a.x), tieMargin (B.b.x / B.a.x)]
          let r1 := r.sub (V3.smul (rf (r.z / R.c.z)) R.c)
          let r2 := r1.sub (V3.smul (rf (r1.y / R.b.y)) R.b)
          let mw := minList [tieMargin (r.z / R.c.z), tieMargin (r1.y / R.b.y), tieMargin (r2.x / R.a.x)]
          let w := wrapTri rf R r
          let d := if kind == "trifirst" then
              (match images27 R w with | [] => w | _ => (pickFirst (images27 R w) ((0, 0, 0), w)).2)
            else distTri rf B r
          -- gap between the best and the second best squared length among the 27 candidates
          let ns := (images27 R w).map (·.2.norm2)
          let best := minList ns
          let others := ns.filter (· ≠ best)
          let gap := if others.isEmpty then 1 else (minList others - best)
          let ties := (ns.filter (· == best)).length
          s!"D {showV d} N {showRat d.norm2} M {showRat (min mred mw)} G {showRat gap} T {ties} W {showV w}"
      | _, _ => "bad-op"
    | _, _ => "bad-op"
  | _ => "bad-op"

end MdVerif.Driver.MicP
