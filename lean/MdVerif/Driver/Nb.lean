/- driver protocol for Model/Neighbors.lean (C10) -/
import MdVerif.Model.Neighbors
import MdVerif.Driver.Mic
namespace MdVerif.Driver.NbP
open MdVerif.Mic MdVerif.Nb MdVerif.Driver.MicP

def toV3s : List Rat → List V3
  | x :: y :: z :: r => ⟨x, y, z⟩ :: toV3s r
  | _ => []

def mkWrap (kind : String) (B : Cell) : Wrap :=
  if kind == "ortho" then .ortho B else if kind == "tri" then .tri B else .none

def showNats (l : List Nat) : String := ",".intercalate (l.map toString)

/-- 0 = certainly outside, 1 = certainly inside, 2 = within `tol` of the cutoff -/
def classify (d2v cutoff tol : Rat) : Nat :=
  let lo := if cutoff - tol < 0 then 0 else (cutoff - tol) * (cutoff - tol)
  let hi := (cutoff + tol) * (cutoff + tol)
  if d2v < lo then 1 else if d2v > hi then 0 else 2

def handleNb : List String → String
  | "nbl" :: kind :: rnd :: cutoff :: tol :: rest =>
    match parseRnd rnd, parseRat cutoff, parseRat tol, rest.mapM parseRat with
    | some rf, some c, some t, some qs =>
      match mkCell (qs.take 9) with
      | some B =>
        let pos := toV3s (qs.drop 9)
        let w := mkWrap kind B
        let n := pos.length
        let rows := (List.range n).map (fun i =>
          let cls := (List.range n).filter (· ≠ i) |>.map (fun j => (j, classify (d2 rf w pos i j) c t))
          s!"{showNats ((cls.filter (·.2 == 1)).map (·.1))}/{showNats ((cls.filter (·.2 == 2)).map (·.1))}")
        ";".intercalate rows
      | none => "bad-op"
    | _, _, _, _ => "bad-op"
  | "nbs" :: kind :: rnd :: cutoff :: tol :: nq :: rest =>
    match parseRnd rnd, parseRat cutoff, parseRat tol, nq.toNat? with
    | some rf, some c, some t, some nq =>
      match (rest.take nq).mapM (·.toNat?), ((rest.drop nq).head?.bind (·.toNat?)) with
      | some q, some nh =>
        match ((rest.drop (nq + 1)).take nh).mapM (·.toNat?), ((rest.drop (nq + 1 + nh)).mapM parseRat) with
        | some h, some qs =>
          match mkCell (qs.take 9) with
          | some B =>
            let pos := toV3s (qs.drop 9)
            let w := mkWrap kind B
            let cls := h.map (fun i =>
              let cs := (q.filter (· ≠ i)).map (fun j => classify (d2 rf w pos i j) c t)
              (i, if cs.any (· == 1) then 1 else if cs.any (· == 2) then 2 else 0))
            s!"{showNats ((cls.filter (·.2 == 1)).map (·.1))}/{showNats ((cls.filter (·.2 == 2)).map (·.1))}"
          | none => "bad-op"
        | _, _ => "bad-op"
      | _, _ => "bad-op"
    | _, _, _, _ => "bad-op"
  | _ => "bad-op"

end MdVerif.Driver.NbP
