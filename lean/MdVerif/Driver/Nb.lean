/- driver protocol for Model/Neighbors.lean (C10) -/
import MdVerif.Model.Neighbors
import MdVerif.Model.Voxels
import MdVerif.Driver.Mic
namespace MdVerif.Driver.NbP
open MdVerif.Mic MdVerif.Nb MdVerif.Vox MdVerif.Driver.MicP

def toV3s : List Rat → List V3
  | x :: y :: z :: r => ⟨x, y, z⟩ :: toV3s r
  | _ => []

def mkWrap (kind : String) (B : Cell) : Wrap :=
  if kind == "ortho" then .ortho B else if kind == "tri" then .tri B else .none

def showNats (l : List Nat) : String := ",".intercalate (l.map toString)

/-- 0 = certainly outside, 1 = certainly inside, 2 = within `tol` of the cutoff -/
def classify (d2v cutoff tol : Rat) : Nat :=
  let lo := if cutoff - tol < 0 then 0 else (cutoff - tol) * (cutoff - tol)
  let hi := (cutoff + tol) * (cutoff + tol)
  if d2v < lo then 1 else if d2v > hi then 0 else 2

def handleNb : List String → String
  | "nbl" :: kind :: rnd :: cutoff :: tol :: rest =>
    match parseRnd rnd, parseRat cutoff, parseRat tol, rest.mapM parseRat with
    | some rf, some c, some t, some qs =>
      match mkCell (qs.take 9) with
      | some B =>
        let pos := toV3s (qs.drop 9)
        let w := mkWrap kind B
        let n := pos.length
        let rows := (List.range n).map (fun i =>
          let cls := (List.range n).filter (· ≠ i) |>.map (fun j => (j, classify (d2 rf w pos i j) c t))
          s!"{showNats ((cls.filter (·.2 == 1)).map (·.1))}/{showNats ((cls.filter (·.2 == 2)).map (·.1))}")
        ";".intercalate rows
      | none => "bad-op"
    | _, _, _, _ => "bad-op"
  | "nbs" :: kind :: rnd :: cutoff :: tol :: nq :: rest =>
    match parseRnd rnd, parseRat cutoff, parseRat tol, nq.toNat? with
    | some rf, some c, some t, some nq =>
      match (rest.take nq).mapM (·.toNat?), ((rest.drop nq).head?.bind (·.toNat?)) with
      | some q, some nh =>
        match ((rest.drop (nq + 1)).take nh).mapM (·.toNat?), ((rest.drop (nq + 1 + nh)).mapM parseRat) with
        | some h, some qs =>
          match mkCell (qs.take 9) with
          | some B =>
            let pos := toV3s (qs.drop 9)
            let w := mkWrap kind B
            let cls := h.map (fun i =>
              let cs := (q.filter (· ≠ i)).map (fun j => classify (d2 rf w pos i j) c t)
              (i, if cs.any (· == 1) then 1 else if cs.any (· == 2) then 2 else 0))
            s!"{showNats ((cls.filter (·.2 == 1)).map (·.1))}/{showNats ((cls.filter (·.2 == 2)).map (·.1))}"
          | none => "bad-op"
        | _, _ => "bad-op"
      | _, _ => "bad-op"
    | _, _, _, _ => "bad-op"
  -- voxel search skeleton (Model/Voxels.lean)
  | "vox" :: "lb" :: x :: lo :: hi :: rest =>
    match parseRat x, lo.toNat?, hi.toNat?, rest.mapM parseRat with
    | some x, some lo, some hi, some xs => toString (lowerBound xs x lo hi)
    | _, _, _, _ => "bad-op"
  | "vox" :: "ub" :: x :: lo :: hi :: rest =>
    match parseRat x, lo.toNat?, hi.toNat?, rest.mapM parseRat with
    | some x, some lo, some hi, some xs => toString (upperBound xs x lo hi)
    | _, _, _, _ => "bad-op"
  -- vox ranges <minx> <maxx> <L> <needPeriodic 0/1> <xs…>: the ranges and the bin positions in scanning order
  | "vox" :: "ranges" :: minx :: maxx :: l :: np :: rest =>
    match parseRat minx, parseRat maxx, parseRat l, rest.mapM parseRat with
    | some minx, some maxx, some l, some xs =>
      let r := xRanges xs minx maxx l (np == "1")
      let sec := match r.second with | none => "-" | some (a, b) => s!"{a},{b}"
      s!"R {r.s0},{r.e0} {sec} V {showNats r.visited}"
    | _, _, _, _ => "bad-op"
  -- vox index <n> <size> <y>: voxel index and the distance of y/size from the nearest integer (tie margin)
  | ["vox", "index", n, size, y] =>
    match n.toNat?, parseRat size, parseRat y with
    | some n, some size, some y =>
      let q := y / size
      let fr := q - (q.floor : Rat)
      s!"{voxelIndex n size y} {showRat (if fr < 1 - fr then fr else 1 - fr)}"
    | _, _, _ => "bad-op"
  -- vox prewrap <9 box entries> <x y z>: the wrapped position and the integer shifts
  | "vox" :: "prewrap" :: rest =>
    match rest.mapM parseRat with
    | some qs =>
      match mkCell (qs.take 9), qs.drop 9 with
      | some B, [x, y, z] =>
        let p := prewrap B ⟨x, y, z⟩
        let s := prewrapShift B ⟨x, y, z⟩
        s!"{showV p} {s.1} {s.2.1} {s.2.2}"
      | _, _ => "bad-op"
    | none => "bad-op"
  | _ => "bad-op"

end MdVerif.Driver.NbP
