/- driver protocol for Model/Qcp.lean (C06) -/
import MdVerif.Model.Qcp
import MdVerif.Driver.Mic
import MdVerif.Driver.Nb
namespace MdVerif.Driver.QcpP
open MdVerif.Mic MdVerif.Qcp MdVerif.Driver.MicP MdVerif.Driver.NbP

def sgn (q : Rat) : String := if q > 0 then "+" else if q < 0 then "-" else "0"

def showM (m : M9) : String :=
  " ".intercalate ([m.m0, m.m1, m.m2, m.m3, m.m4, m.m5, m.m6, m.m7, m.m8].map showRat)

def handleQcp : List String → String
  -- root certificate: qcp <n> <rmsd²> <tolerance on λ> <3n coordinates a> <3n coordinates b>
  | "qcp" :: ns :: r2s :: tols :: rest =>
    match ns.toNat?, parseRat r2s, parseRat tols, rest.mapM parseRat with
    | some n, some r2, some tol, some qs =>
      if qs.length != 6 * n || n == 0 then "bad-op" else
      let a := center (toV3s (qs.take (3 * n)))
      let b := center (toV3s (qs.drop (3 * n)))
      let ga := traceG a
      let gb := traceG b
      let M := innerM (a.zip b)
      let lam := (ga + gb - (n : Rat) * r2) / 2
      let lo := lam - tol
      let hi := lam + tol
      s!"G {showRat ga} {showRat gb} L {showRat lam} S {sgn (P M lo)} {sgn (P M hi)} {sgn (dP M hi)} {sgn (ddP M hi)} {sgn hi} D {sgn (dP M lam)}"
    | _, _, _, _ => "bad-op"
  -- rotation: qrot <n> <λ> <3n coordinates a (mobile)> <3n coordinates b (target)>
  | "qrot" :: ns :: ls :: rest =>
    match ns.toNat?, parseRat ls, rest.mapM parseRat with
    | some n, some lam, some qs =>
      if qs.length != 6 * n || n == 0 then "bad-op" else
      let a := center (toV3s (qs.take (3 * n)))
      let b := center (toV3s (qs.drop (3 * n)))
      let M := innerM (a.zip b)
      let q := bestCol M lam
      s!"R {showM (rotOf q)} N {showRat q.norm2} C {if converged M lam then 1 else 0} Z {showRat (quatOf M lam).norm2} Q {showRat (quadK M q)}"
    | _, _, _ => "bad-op"
  | _ => "bad-op"

end MdVerif.Driver.QcpP
