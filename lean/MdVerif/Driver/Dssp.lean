/- driver protocol for Model/Dssp.lean (C15) -/
import MdVerif.Model.Dssp
import MdVerif.Driver.Image
namespace MdVerif.Driver.DsspP
open MdVerif.Dssp MdVerif.Driver.ImageP

def handleDssp : List String → String
  -- dssp <n> <simplified> <chains comma> <skip bits> <kappa bits> <bonds donor-acceptor,…>
  | ["dssp", ns, simp, chains, skips, kappas, bs] =>
    match ns.toNat?, (chains.splitOn ",").mapM String.toNat?, parsePairs bs with
    | some n, some cs, some bonds =>
      let carr := cs.toArray
      let sk := skips.toList.toArray
      let kp := kappas.toList.toArray
      -- per donor: the (at most two) acceptors
      let tab : Array (List Nat) := bonds.foldl (fun t b => if b.1 < t.size then t.modify b.1 (fun l => b.2 :: l) else t) (Array.replicate n [])
      let B : Nat → Nat → Bool := fun d a => (tab.getD d []).contains a
      let out := computeDssp B (fun i => carr.getD i 0) (fun i => sk.getD i '1' == '1') (fun i => kp.getD i '0' == '1') n (simp == "1")
      ",".intercalate (out.map (fun s => if s == " " then "_" else s))
    | _, _, _ => "bad-op"
  | _ => "bad-op"

end MdVerif.Driver.DsspP
