/- driver protocol for Model/Writer.lean (C19, C20) -/
import MdVerif.Model.Writer
import MdVerif.Model.FileSys
import MdVerif.Model.JoinDiscard
import MdVerif.Model.TopoEdit
namespace MdVerif.Driver.WriterP
open MdVerif.Writer

def parseFmt : String → Option Fmt
  | "h5" => some .h5 | "nc" => some .nc | "dtr" => some .dtr | "xtc" => some .xtc | "trr" => some .trr
  | "dcd" => some .dcd | "mdcrd" => some .mdcrd | "lammpstrj" => some .lammpstrj | "xyz" => some .xyz | "gro" => some .gro | _ => none

def parseOp (s : String) : Option (Op Nat) :=
  if s == "f" then some .flush
  else match (s.drop 1).toString.splitOn ":" with
    | [ids, n, c, t] => do
      let ids ← (if ids == "" then some [] else (ids.splitOn ",").mapM (·.toNat?))
      let n ← n.toNat?
      pure (.write ⟨ids, ⟨n, c == "1", t == "1"⟩⟩)
    | _ => none

def showNats (l : List Nat) : String := ",".intercalate (l.map toString)

def flags (p : Policy) : W Nat → List (Op Nat) → List String
  | _, [] => []
  | w, .write c :: ops => (if (write p w c).2 then "1" else "0") :: flags p (write p w c).1 ops
  | w, .flush :: ops => flags p (flush w) ops

def handleWriter : List String → String
  | ["writer", f, ops] =>
    match parseFmt f, (if ops == "" then some [] else (ops.splitOn ";").mapM parseOp) with
    | some fmt, some os =>
      let w := run (policy fmt) W.init os
      s!"close={showNats (closeLoad w)} crash={showNats (crashLoad w)} acc={"".intercalate (flags (policy fmt) W.init os)}"
    | _, _ => "bad-op"
  -- fsys <name=id,…|-> <force> <name=id,…>: the directory after writing the listed files one after the other, and whether it was refused
  | ["fsys", entries, force, writes] =>
    let parse := fun (s : String) => if s == "-" then some [] else (s.splitOn ",").mapM (fun kv => match kv.splitOn "=" with
      | [k, v] => some (k, v) | _ => none)
    match parse entries, parse writes with
    | some d, some ws =>
      let r := MdVerif.FileSys.saveMany (force == "1") (d : MdVerif.FileSys.Dir String) ws
      s!"err={if r.2 then 1 else 0} " ++ ",".intercalate (r.1.map (fun e => s!"{e.1}={e.2}"))
    | _, _ => "bad-op"
  -- fsave <name=id,…|-> <valid> <force> <name=id>: Trajectory.save of an input the saver accepts (valid=1) or rejects before opening anything
  | ["fsave", entries, valid, force, write] =>
    let parse := fun (s : String) => if s == "-" then some [] else (s.splitOn ",").mapM (fun kv => match kv.splitOn "=" with
      | [k, v] => some (k, v) | _ => none)
    match parse entries, parse write with
    | some d, some [(p, c)] =>
      let r := MdVerif.FileSys.save (valid == "1") p (force == "1") (d : MdVerif.FileSys.Dir String) c
      s!"err={if r.2 then 1 else 0} " ++ ",".intercalate (r.1.map (fun e => s!"{e.1}={e.2}"))
    | _, _ => "bad-op"
  -- joindiscard <ids;ids;…>: join(discard_overlapping_frames=True) of pieces given as frame identifiers (- = no frames); frames overlap when equal
  | ["joindiscard", pieces] =>
    match (pieces.splitOn ";").mapM (fun (w : String) => if w == "-" then some [] else (w.splitOn ",").mapM (fun (x : String) => x.toNat?)) with
    | some ps => showNats (MdVerif.JoinDiscard.joinDiscard (fun x y => x == y) ps)
    | none => "bad-op"
  -- topedit <n> <u-v,…|-> <i<k>:<uid>;d<k>;…|->: n atoms with uids 0..n-1, bonds between uids, then insertions / deletions (refused ones change
  -- nothing); prints the uids in list order, their index fields and the bonds as pairs of positions
  | ["topedit", n, bonds, ops] =>
    let pb := fun (w : String) => match w.splitOn "-" with
      | [u, v] => do let u ← u.toNat?; let v ← v.toNat?; pure (u, v)
      | _ => none
    let po := fun (w : String) =>
      if w.startsWith "d" then (w.drop 1).toString.toNat?.map MdVerif.TopoEdit.EOp.del
      else match (w.drop 1).toString.splitOn ":" with
        | [k, u] => do let k ← k.toNat?; let u ← u.toNat?; pure (MdVerif.TopoEdit.EOp.ins k u)
        | _ => none
    match n.toNat?, (if bonds == "-" then some [] else (bonds.splitOn ",").mapM pb), (if ops == "-" then some [] else (ops.splitOn ";").mapM po) with
    | some n, some bs, some os =>
      let t := MdVerif.TopoEdit.runE ⟨(List.range n).map (fun k => ⟨k, k⟩), bs⟩ os
      let pos := fun (u : Nat) => (t.atoms.findIdx? (fun a => a.uid == u)).getD 999999
      s!"{showNats (t.atoms.map (·.uid))} | {showNats (t.atoms.map (·.index))} | " ++
        ",".intercalate (t.bonds.map (fun b => s!"{pos b.1}-{pos b.2}"))
    | _, _, _ => "bad-op"
  | ["save", ex, force] =>
    let r := save (⟨if ex == "1" then some 0 else none⟩ : FS Nat) (force == "1") 1
    s!"raised={r.2} content={match r.1.file with | none => "none" | some 0 => "old" | some _ => "new"}"
  | _ => "bad-op"

end MdVerif.Driver.WriterP
