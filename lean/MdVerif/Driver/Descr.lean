/- driver protocol for Model/Descr.lean (C16) -/
import MdVerif.Model.Descr
import MdVerif.Driver.Mic
import MdVerif.Driver.Nb
import MdVerif.Driver.Image
namespace MdVerif.Driver.DescrP
open MdVerif.Mic MdVerif.Descr MdVerif.Driver.MicP MdVerif.Driver.NbP MdVerif.Driver.ImageP

/-- `res|name|isH|protein|gly` -/
def parseAtom (s : String) : Option AtomRec :=
  match s.splitOn "|" with
  | [r, nm, h, p, g] => do let r ← r.toNat?; pure ⟨r, nm, h == "1", p == "1", g == "1"⟩
  | _ => none

def parseScheme : String → Option Scheme
  | "closest" => some .closest | "closest-heavy" => some .closestHeavy
  | "sidechain" => some .sidechain | "sidechain-heavy" => some .sidechainHeavy | _ => none

def d2 (pl : List V3) (p : Nat × Nat) : Rat := ((pl.getD p.2 ⟨0, 0, 0⟩).sub (pl.getD p.1 ⟨0, 0, 0⟩)).norm2

def minRat : List Rat → Option Rat
  | [] => none
  | x :: xs => some (xs.foldl min x)

def showSym (s : Sym3) : String := s!"{showRat s.xx} {showRat s.yy} {showRat s.zz} {showRat s.xy} {showRat s.xz} {showRat s.yz}"

def handleDescr : List String → String
  -- contacts <scheme> <natoms> <atomrecs…> <pairs> <coords 3n>
  | "contacts" :: sch :: ns :: rest =>
    match ns.toNat? with
    | some n =>
      match (rest.take n).mapM parseAtom, parsePairs (rest.getD n "-"), ((rest.drop (n + 1)).mapM parseRat) with
      | some atoms, some rps, some qs =>
        let pl := toV3s qs
        if sch == "ca" then
          match caPairs atoms rps with
          | none => "ERR-multiple-ca"
          | some l => "CA " ++ ";".intercalate (l.map (fun e => s!"{e.1.1}-{e.1.2}:{e.2.1}-{e.2.2}:{showRat (d2 pl e.2)}"))
        else match parseScheme sch with
          | some s =>
            let mem := membership s atoms
            let all := (atomPairs mem rps).map (d2 pl)
            let counts := pairCounts mem rps
            "C " ++ ";".intercalate ((List.range rps.length).map (fun i =>
              let sl := sliceFor all counts i          -- the code's slice; = distances of the designated product (c16_contact_slice)
              match minRat sl with
              | some m => s!"{counts.getD i 0}:{showRat m}"
              | none => "0:E"))
          | none => "bad-op"
      | _, _, _ => "bad-op"
    | none => "bad-op"
  -- allpairs <n> <ignore> <hasCA bits> <chains comma>
  | ["allpairs", ns, ig, bits, chains] =>
    match ns.toNat?, (chains.splitOn ",").mapM String.toNat? with
    | some n, some cs =>
      let b := bits.toList
      showPairs (allPairs n (fun i => b.getD i '0' == '1') (fun i => cs.getD i 0) (ig == "1"))
    | _, _ => "bad-op"
  -- moments <values…>
  | "moments" :: rest =>
    match rest.mapM parseRat with
    | some l => if l.isEmpty then "bad-op" else let m := pushAll l; s!"{showRat m.mean} {showRat m.second} {showRat m.third}"
    | none => "bad-op"
  -- drid <sel comma> <bonds> <j>
  | ["drid", sel, bs, js] =>
    match (sel.splitOn ",").mapM String.toNat?, parsePairs bs, js.toNat? with
    | some s, some bonds, some j => showNats (dridPartners s bonds j)
    | _, _, _ => "bad-op"
  -- wsums <n> <masses n> <coords 3n>
  | "wsums" :: ns :: rest =>
    match ns.toNat?, rest.mapM parseRat with
    | some n, some qs =>
      let ms := qs.take n
      let pl := toV3s (qs.drop n)
      if pl.length != n || n == 0 then "bad-op" else
      let l := ms.zip pl
      let g := gyration pl
      s!"COM {showV (com l)} RG2 {showRat (rg2 l)} G {showSym g} GI {showRat g.tr} {showRat g.tr2} {showRat g.e2} {showRat g.det} I {showSym (inertia l)}"
    | _, _ => "bad-op"
  -- rdf <lo> <hi> <n bins> <n pairs> <sum of 1/V> <distances…>: histogram, g(r)·π, bin centres, and the smallest distance of a value from an edge
  | "rdf" :: lo :: hi :: ns :: np :: iv :: rest =>
    match parseRat lo, parseRat hi, ns.toNat?, np.toNat?, parseRat iv, rest.mapM parseRat with
    | some lo, some hi, some n, some np, some iv, some ds =>
      if hi ≤ lo || n == 0 then "bad-op" else
      let marg := ds.foldl (fun m d => (List.range (n + 1)).foldl (fun m k => let e := d - edge lo hi n k; let a := if e < 0 then -e else e; if a < m then a else m) m) 1
      s!"H {showNats (histogram lo hi n ds)} G {" ".intercalate ((rdfTimesPi lo hi n np iv ds).map showRat)} C {" ".intercalate ((List.range n).map (fun k => showRat (binCentre lo hi n k)))} M {showRat marg}"
    | _, _, _, _, _, _ => "bad-op"
  | _ => "bad-op"

end MdVerif.Driver.DescrP
