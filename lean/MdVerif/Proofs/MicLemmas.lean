import MdVerif.Model.Mic
import Mathlib.Data.Rat.Floor
import Mathlib.Tactic.Linarith
import Mathlib.Tactic.Ring
import Mathlib.Tactic.Positivity
import Mathlib.Tactic.NormNum
/-! Lemmas about rounding and one-dimensional wrapping (used by C05, C07, C09, C10, C11). -/
namespace MdVerif.Mic

/-- a rounding function that returns a nearest integer (ties broken in any way) -/
def NearestRound (rnd : Rat → Int) : Prop := ∀ x : Rat, |x - (rnd x : Rat)| ≤ 1 / 2

theorem floor_eq (x : Rat) : x.floor = ⌊x⌋ := rfl

theorem nearest_of_floor_half (x : Rat) : |x - ((⌊x + 1 / 2⌋ : Int) : Rat)| ≤ 1 / 2 := by
  have h1 := Int.floor_le (x + 1 / 2)
  have h2 := Int.lt_floor_add_one (x + 1 / 2)
  rw [abs_le]; constructor <;> linarith

theorem roundHA_nearest : NearestRound roundHA := by
  intro x
  unfold roundHA
  split
  · rw [floor_eq]; exact nearest_of_floor_half x
  · rw [floor_eq]
    have := nearest_of_floor_half (-x)
    rw [abs_le] at this ⊢
    push_cast
    constructor <;> linarith [this.1, this.2]

theorem roundHZ_nearest : NearestRound roundHZ := by
  intro x
  unfold roundHZ
  split
  · rw [floor_eq]
    have h1 := Int.floor_le (1 / 2 - x)
    have h2 := Int.lt_floor_add_one (1 / 2 - x)
    rw [abs_le]; push_cast; constructor <;> linarith
  · rw [floor_eq]; exact nearest_of_floor_half x

theorem roundHE_nearest : NearestRound roundHE := by
  intro x
  unfold roundHE
  have h1 := Int.floor_le x
  have h2 := Int.lt_floor_add_one x
  simp only [floor_eq]
  by_cases c1 : x - ((⌊x⌋ : Int) : Rat) < 1 / 2
  · simp only [c1, if_true]; rw [abs_le]; constructor <;> linarith
  · by_cases c2 : 1 / 2 < x - ((⌊x⌋ : Int) : Rat)
    · simp only [c1, c2, if_true, if_false]; rw [abs_le]; push_cast; constructor <;> linarith
    · by_cases c3 : ⌊x⌋ % 2 = 0
      · simp only [c1, c2, c3, if_true, if_false]; rw [abs_le]; constructor <;> linarith
      · simp only [c1, c2, c3, if_false]; rw [abs_le]; push_cast; constructor <;> linarith

/-- one-dimensional wrap lands within half a period -/
theorem wrap1_bound (rnd : Rat → Int) (h : NearestRound rnd) (r L : Rat) (hL : 0 < L) :
    |wrap1 rnd r L| ≤ L / 2 := by
  unfold wrap1
  have h1 := h (r / L)
  have e : r - (rnd (r / L) : Rat) * L = L * (r / L - rnd (r / L)) := by field_simp
  rw [e, abs_mul, abs_of_pos hL]
  calc L * |r / L - (rnd (r / L) : Rat)| ≤ L * (1 / 2) := by exact mul_le_mul_of_nonneg_left h1 (le_of_lt hL)
    _ = L / 2 := by ring

/-- the wrapped value is congruent to `r` modulo the period -/
theorem wrap1_congr (rnd : Rat → Int) (r L : Rat) : wrap1 rnd r L = r + ((-rnd (r / L) : Int) : Rat) * L := by
  unfold wrap1; push_cast; ring

/-- and it is the smallest representative: no other image is shorter -/
theorem wrap1_min (rnd : Rat → Int) (h : NearestRound rnd) (r L : Rat) (hL : 0 < L) (k : Int) :
    |wrap1 rnd r L| ≤ |r + (k : Rat) * L| := by
  have hb := wrap1_bound rnd h r L hL
  have hc := wrap1_congr rnd r L
  set w := wrap1 rnd r L with hw
  set n : Int := -rnd (r / L) with hn
  -- r + kL = w + (k - n) L
  have e : r + (k : Rat) * L = w + ((k - n : Int) : Rat) * L := by rw [hc]; push_cast; ring
  rw [e]
  by_cases hkn : k - n = 0
  · simp [hkn]
  · have hm : (1 : Rat) ≤ |((k - n : Int) : Rat)| := by
      have : (1 : Int) ≤ |k - n| := Int.one_le_abs hkn
      exact_mod_cast this
    have hmL : L ≤ |((k - n : Int) : Rat) * L| := by
      rw [abs_mul, abs_of_pos hL]
      calc L = 1 * L := (one_mul L).symm
        _ ≤ |((k - n : Int) : Rat)| * L := mul_le_mul_of_nonneg_right hm (le_of_lt hL)
    have tri : |((k - n : Int) : Rat) * L| - |w| ≤ |w + ((k - n : Int) : Rat) * L| := by
      have := abs_sub_abs_le_abs_sub (((k - n : Int) : Rat) * L) (-w)
      simpa [abs_neg, sub_neg_eq_add, add_comm] using this
    linarith

end MdVerif.Mic
