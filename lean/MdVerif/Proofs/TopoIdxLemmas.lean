/- helper lemmas for the indexed topology model (Model/TopoIdx.lean); the property theorems are in Properties/C04.lean -/
import MdVerif.Model.TopoIdx
namespace MdVerif.Topo


theorem filterIdx_getElem?_rankFrom {α : Type} (keep : Nat → Bool) (l : List α) (b i : Nat) (hk : keep (b + i) = true) :
    (filterIdx keep b l)[((List.range' b i).filter keep).length]? = l[i]? := by
  induction l generalizing b i with
  | nil => simp [filterIdx]
  | cons a as ih =>
    cases i with
    | zero =>
      have : keep b = true := by simpa using hk
      simp [filterIdx, this]
    | succ i =>
      have hk' : keep (b + 1 + i) = true := by rw [← hk]; congr 1; omega
      simp only [List.range'_succ, List.filter_cons, filterIdx]
      by_cases hb : keep b = true
      · simp only [hb, if_true, List.length_cons, List.getElem?_cons_succ]
        exact ih (b + 1) i hk'
      · simp only [hb, List.getElem?_cons_succ]
        simpa using ih (b + 1) i hk'

/-- a kept element is found at its rank -/
theorem filterIdx_getElem?_rank {α : Type} (keep : Nat → Bool) (l : List α) (i : Nat) (hk : keep i = true) :
    (filterIdx keep 0 l)[rank keep i]? = l[i]? := by
  have := filterIdx_getElem?_rankFrom keep l 0 i (by simpa using hk)
  rwa [← List.range_eq_range'] at this

theorem filterIdx_map {α β : Type} (f : α → β) (keep : Nat → Bool) (b : Nat) (l : List α) :
    (filterIdx keep b l).map f = filterIdx keep b (l.map f) := by
  induction l generalizing b with
  | nil => rfl
  | cons a as ih => simp only [filterIdx, List.map_cons]; split <;> simp [ih]

theorem filterIdx_congr {α : Type} (k1 k2 : Nat → Bool) (b : Nat) (l : List α)
    (h : ∀ i, i < l.length → k1 (b + i) = k2 (b + i)) : filterIdx k1 b l = filterIdx k2 b l := by
  induction l generalizing b with
  | nil => rfl
  | cons a as ih =>
    have h0 : k1 b = k2 b := by simpa using h 0 (by simp)
    have hr : filterIdx k1 (b + 1) as = filterIdx k2 (b + 1) as :=
      ih (b + 1) (fun i hi => by have := h (i + 1) (by simpa using hi); rwa [show b + (i + 1) = b + 1 + i by omega] at this)
    simp [filterIdx, h0, hr]

theorem filterIdx_true {α : Type} (b : Nat) (l : List α) : filterIdx (fun _ => true) b l = l := by
  induction l generalizing b with
  | nil => rfl
  | cons a as ih => simp [filterIdx, ih]

theorem rank_eq_self (keep : Nat → Bool) (i : Nat) (h : ∀ j, j < i → keep j = true) : rank keep i = i := by
  unfold rank
  have : (List.range i).filter keep = List.range i := by
    apply List.filter_eq_self.mpr
    intro j hj
    exact h j (List.mem_range.mp hj)
  simp [this]

theorem filterAtoms_eq_filterIdx (keep : Nat → Bool) (b : Nat) (l : List Atom) : filterAtoms keep b l = filterIdx keep b l := by
  induction l generalizing b with
  | nil => rfl
  | cons a as ih => simp [filterAtoms, filterIdx, ih]

theorem flattenAtoms_core (ri : Nat) (rs : List Residue) :
    (flattenAtoms ri rs).map IAtom.core = (rs.flatMap (·.atoms)).map Atom.core := by
  induction rs generalizing ri with
  | nil => rfl
  | cons r rs ih =>
    simp only [flattenAtoms, List.map_append, List.flatMap_cons, ih, List.map_map]
    rfl

theorem ofNested_atoms_core (t : Topology) : (ofNested t).atoms.map IAtom.core = t.atoms.map Atom.core := by
  simp only [ofNested, flattenAtoms_core, Topology.atoms, Topology.residues, List.flatMap_assoc]

theorem filterMap_congr_mem {α β : Type} (f g : α → Option β) (l : List α) (h : ∀ a ∈ l, f a = g a) :
    l.filterMap f = l.filterMap g := by
  induction l with
  | nil => rfl
  | cons a as ih => simp only [List.filterMap_cons, h a (by simp), ih (fun x hx => h x (by simp [hx]))]

/-- the filter by position is the gathering of the kept positions in increasing order -/
theorem filterIdx_eq_gather_from {α : Type} (keep : Nat → Bool) (l : List α) (b : Nat) :
    filterIdx keep b l = ((List.range' b l.length).filter keep).filterMap (fun i => l[i - b]?) := by
  induction l generalizing b with
  | nil => simp [filterIdx]
  | cons a as ih =>
    have hcongr : ((List.range' (b + 1) as.length).filter keep).filterMap (fun i => (a :: as)[i - b]?) =
        ((List.range' (b + 1) as.length).filter keep).filterMap (fun i => as[i - (b + 1)]?) := by
      apply filterMap_congr_mem
      intro i hi
      have hi' := (List.mem_filter.mp hi).1
      have : b + 1 ≤ i := (List.mem_range'_1.mp hi').1
      have e : i - b = (i - (b + 1)) + 1 := by omega
      rw [e, List.getElem?_cons_succ]
    simp only [filterIdx, List.length_cons, List.range'_succ, List.filter_cons]
    by_cases hb : keep b = true
    · simp only [hb, if_true, List.filterMap_cons, Nat.sub_self, List.getElem?_cons_zero]
      rw [ih (b + 1), hcongr]
    · simp only [hb, if_false, Bool.false_eq_true]
      rw [ih (b + 1), hcongr]

theorem filterIdx_eq_gather {α : Type} (keep : Nat → Bool) (l : List α) :
    filterIdx keep 0 l = gatherIdx l ((List.range l.length).filter keep) := by
  rw [filterIdx_eq_gather_from keep l 0, List.range_eq_range']
  rfl


theorem mem_filter_range_lt (keep : Nat → Bool) (n x : Nat) (h : x ∈ (List.range n).filter keep) : x < n :=
  List.mem_range.mp (List.mem_filter.mp h).1

theorem findIdx?_none_of_all_ne (l : List Nat) (i : Nat) (h : ∀ x ∈ l, x ≠ i) : l.findIdx? (· == i) = none := by
  rw [List.findIdx?_eq_none_iff]
  intro x hx
  simpa using h x hx

/-- where a kept position is found in the increasing list of kept positions: at its rank -/
theorem findIdx?_filter_range (keep : Nat → Bool) (n i : Nat) :
    ((List.range n).filter keep).findIdx? (· == i) = if i < n ∧ keep i = true then some (rank keep i) else none := by
  induction n with
  | zero => simp
  | succ n ih =>
    rw [List.range_succ, List.filter_append, List.findIdx?_append, ih]
    by_cases hin : i < n
    · by_cases hk : keep i = true
      · simp [hin, hk, Nat.lt_succ_of_lt hin]
      · have hnot : ¬ (i < n + 1 ∧ keep i = true) := fun h => hk h.2
        have hne : i ≠ n := Nat.ne_of_lt hin
        simp only [hin, hk]
        by_cases hkn : keep n = true
        · simp [List.filter, hkn, hne.symm]
        · simp [List.filter, hkn]
    · simp only [hin, false_and, if_false, Option.none_or]
      by_cases hkn : keep n = true
      · by_cases hien : i = n
        · subst hien
          simp [List.filter, hkn, rank]
        · have : ¬ (i < n + 1) := by omega
          simp [List.filter, hkn, this, Ne.symm hien]
      · by_cases hien : i = n
        · subst hien; simp [List.filter, hkn]
        · have : ¬ (i < n + 1) := by omega
          simp [List.filter, hkn, this]

theorem filterMap_ite_eq {α β : Type} (p : α → Bool) (g : α → β) (l : List α) :
    l.filterMap (fun b => if p b = true then some (g b) else none) = (l.filter p).map g := by
  induction l with
  | nil => rfl
  | cons a as ih =>
    by_cases h : p a = true
    · simp [h, ih]
    · simp [h, ih]

end MdVerif.Topo
