/- helper lemmas for the indexed topology model (Model/TopoIdx.lean); the property theorems are in Properties/C04.lean -/
import MdVerif.Model.TopoIdx
namespace MdVerif.Topo


theorem filterIdx_getElem?_rankFrom {α : Type} (keep : Nat → Bool) (l : List α) (b i : Nat) (hk : keep (b + i) = true) :
    (filterIdx keep b l)[((List.range' b i).filter keep).length]? = l[i]? := by
  induction l generalizing b i with
  | nil => simp [filterIdx]
  | cons a as ih =>
    cases i with
    | zero =>
      have : keep b = true := by simpa using hk
      simp [filterIdx, this]
    | succ i =>
      have hk' : keep (b + 1 + i) = true := by rw [← hk]; congr 1; omega
      simp only [List.range'_succ, List.filter_cons, filterIdx]
      by_cases hb : keep b = true
      · simp only [hb, if_true, List.length_cons, List.getElem?_cons_succ]
        exact ih (b + 1) i hk'
      · simp only [hb, List.getElem?_cons_succ]
        simpa using ih (b + 1) i hk'

/-- a kept element is found at its rank -/
theorem filterIdx_getElem?_rank {α : Type} (keep : Nat → Bool) (l : List α) (i : Nat) (hk : keep i = true) :
    (filterIdx keep 0 l)[rank keep i]? = l[i]? := by
  have := filterIdx_getElem?_rankFrom keep l 0 i (by simpa using hk)
  rwa [← List.range_eq_range'] at this

theorem filterIdx_map {α β : Type} (f : α → β) (keep : Nat → Bool) (b : Nat) (l : List α) :
    (filterIdx keep b l).map f = filterIdx keep b (l.map f) := by
  induction l generalizing b with
  | nil => rfl
  | cons a as ih => simp only [filterIdx, List.map_cons]; split <;> simp [ih]

theorem filterIdx_congr {α : Type} (k1 k2 : Nat → Bool) (b : Nat) (l : List α)
    (h : ∀ i, i < l.length → k1 (b + i) = k2 (b + i)) : filterIdx k1 b l = filterIdx k2 b l := by
  induction l generalizing b with
  | nil => rfl
  | cons a as ih =>
    have h0 : k1 b = k2 b := by simpa using h 0 (by simp)
    have hr : filterIdx k1 (b + 1) as = filterIdx k2 (b + 1) as :=
      ih (b + 1) (fun i hi => by have := h (i + 1) (by simpa using hi); rwa [show b + (i + 1) = b + 1 + i by omega] at this)
    simp [filterIdx, h0, hr]

theorem filterIdx_true {α : Type} (b : Nat) (l : List α) : filterIdx (fun _ => true) b l = l := by
  induction l generalizing b with
  | nil => rfl
  | cons a as ih => simp [filterIdx, ih]

theorem rank_eq_self (keep : Nat → Bool) (i : Nat) (h : ∀ j, j < i → keep j = true) : rank keep i = i := by
  unfold rank
  have : (List.range i).filter keep = List.range i := by
    apply List.filter_eq_self.mpr
    intro j hj
    exact h j (List.mem_range.mp hj)
  simp [this]

theorem filterAtoms_eq_filterIdx (keep : Nat → Bool) (b : Nat) (l : List Atom) : filterAtoms keep b l = filterIdx keep b l := by
  induction l generalizing b with
  | nil => rfl
  | cons a as ih => simp [filterAtoms, filterIdx, ih]

theorem flattenAtoms_core (ri : Nat) (rs : List Residue) :
    (flattenAtoms ri rs).map IAtom.core = (rs.flatMap (·.atoms)).map Atom.core := by
  induction rs generalizing ri with
  | nil => rfl
  | cons r rs ih =>
    simp only [flattenAtoms, List.map_append, List.flatMap_cons, ih, List.map_map]
    rfl

theorem ofNested_atoms_core (t : Topology) : (ofNested t).atoms.map IAtom.core = t.atoms.map Atom.core := by
  simp only [ofNested, flattenAtoms_core, Topology.atoms, Topology.residues, List.flatMap_assoc]

end MdVerif.Topo
