import MdVerif.Model.Qcp
import Mathlib.Analysis.Matrix.PosDef
/-!
Spectral bound for the QCP key matrix (C06): for a real symmetric 4×4 matrix, an upper bound of the real roots of det (K − x·1) bounds the
Rayleigh quotient.  Proved from Mathlib's spectral theorem for Hermitian matrices (`Matrix.IsHermitian.posSemidef_iff_eigenvalues_nonneg`):
every eigenvalue ν of B = lam·1 − K has an eigenvector v ≠ 0, so (K − (lam − ν)·1) v = 0, so det (K − (lam − ν)·1) = 0, so lam − ν ≤ lam.
-/
namespace MdVerif.Qcp
open Matrix

/-- symmetric 4×4 real matrix from its ten entries -/
def K4 (a b c d e f g h i j : ℝ) : Matrix (Fin 4) (Fin 4) ℝ :=
  !![a, b, c, d; b, e, f, g; c, f, h, i; d, g, i, j]

/-- determinant of `K4 − x·1`, cofactor expansion -/
def det4R (a b c d e f g h i j x : ℝ) : ℝ :=
  (a - x) * ((e - x) * ((h - x) * (j - x) - i * i) - f * (f * (j - x) - i * g) + g * (f * i - (h - x) * g))
  - b * (b * ((h - x) * (j - x) - i * i) - f * (c * (j - x) - i * d) + g * (c * i - (h - x) * d))
  + c * (b * (f * (j - x) - g * i) - (e - x) * (c * (j - x) - i * d) + g * (c * g - f * d))
  - d * (b * (f * i - g * (h - x)) - (e - x) * (c * i - (h - x) * d) + f * (c * g - f * d))

theorem det_K4_sub (a b c d e f g h i j x : ℝ) :
    (K4 a b c d e f g h i j - x • (1 : Matrix (Fin 4) (Fin 4) ℝ)).det = det4R a b c d e f g h i j x := by
  have e : K4 a b c d e f g h i j - x • (1 : Matrix (Fin 4) (Fin 4) ℝ)
      = !![a - x, b, c, d; b, e - x, f, g; c, f, h - x, i; d, g, i, j - x] := by
    ext r s; fin_cases r <;> fin_cases s <;> simp [K4]
  rw [e, Matrix.det_succ_row_zero]
  simp [Fin.sum_univ_succ, Matrix.det_fin_three, Matrix.submatrix, Fin.succAbove, det4R]
  ring

theorem K4_isHermitian (a b c d e f g h i j : ℝ) : (K4 a b c d e f g h i j).IsHermitian := by
  unfold Matrix.IsHermitian
  ext r s; fin_cases r <;> fin_cases s <;> simp [K4, Matrix.conjTranspose]

/-- **Rayleigh bound**: if `lam` is an upper bound of the real roots of `det (K − x·1)`, then `xᵀ K x ≤ lam · xᵀx` for every `x` -/
theorem rayleigh_le_of_root_bound (a b c d e f g h i j lam : ℝ)
    (hmax : ∀ μ : ℝ, det4R a b c d e f g h i j μ = 0 → μ ≤ lam) (x : Fin 4 → ℝ) :
    x ⬝ᵥ ((K4 a b c d e f g h i j) *ᵥ x) ≤ lam * (x ⬝ᵥ x) := by
  set K := K4 a b c d e f g h i j with hKdef
  have hK : K.IsHermitian := K4_isHermitian a b c d e f g h i j
  set B : Matrix (Fin 4) (Fin 4) ℝ := lam • (1 : Matrix (Fin 4) (Fin 4) ℝ) - K with hBdef
  have hB : B.IsHermitian := by
    have h1 : (lam • (1 : Matrix (Fin 4) (Fin 4) ℝ)).IsHermitian := by
      unfold Matrix.IsHermitian; ext r s; fin_cases r <;> fin_cases s <;> simp [Matrix.conjTranspose]
    exact h1.sub hK
  have hpsd : B.PosSemidef := by
    rw [hB.posSemidef_iff_eigenvalues_nonneg]
    intro k
    simp only [Pi.zero_apply]
    set ν := hB.eigenvalues k with hν
    set v : Fin 4 → ℝ := (hB.eigenvectorBasis k).ofLp with hv
    have hBv : B *ᵥ v = ν • v := hB.mulVec_eigenvectorBasis k
    have hvne : v ≠ 0 := by
      intro h0
      have hn : ‖hB.eigenvectorBasis k‖ = 1 := (hB.eigenvectorBasis.orthonormal.1 k)
      have : hB.eigenvectorBasis k = 0 := by
        apply (WithLp.ofLp_injective 2)
        simpa [hv] using h0
      rw [this, norm_zero] at hn
      exact zero_ne_one hn
    have hker : (K - (lam - ν) • (1 : Matrix (Fin 4) (Fin 4) ℝ)) *ᵥ v = 0 := by
      have : K = lam • (1 : Matrix (Fin 4) (Fin 4) ℝ) - B := by rw [hBdef]; abel
      rw [this, Matrix.sub_mulVec, Matrix.sub_mulVec, hBv, Matrix.smul_mulVec, Matrix.smul_mulVec, Matrix.one_mulVec]
      ext r; simp only [Pi.sub_apply, Pi.smul_apply, smul_eq_mul, Pi.zero_apply]; ring
    have hdet : (K - (lam - ν) • (1 : Matrix (Fin 4) (Fin 4) ℝ)).det = 0 :=
      Matrix.exists_mulVec_eq_zero_iff.mp ⟨v, hvne, hker⟩
    rw [hKdef, det_K4_sub] at hdet
    have := hmax _ hdet
    linarith
  have h := hpsd.re_dotProduct_nonneg x
  simp only [RCLike.re_to_real, star_trivial] at h
  rw [hBdef, Matrix.sub_mulVec, Matrix.smul_mulVec, Matrix.one_mulVec, dotProduct_sub, dotProduct_smul, smul_eq_mul] at h
  linarith

/-- the characteristic polynomial over ℝ with the model's (rational) coefficients -/
noncomputable def PR (M : M9) (x : ℝ) : ℝ := x * x * x * x + (C2 M : ℝ) * x * x + (C1 M : ℝ) * x + (C0 M : ℝ)

theorem PR_cast (M : M9) (l : Rat) : PR M (l : ℝ) = ((P M l : Rat) : ℝ) := by
  simp only [PR, P]; push_cast; ring

/-- the model's key matrix as a real matrix -/
noncomputable def keyKR (M : M9) : Matrix (Fin 4) (Fin 4) ℝ :=
  let k := keyK M
  K4 k.k00 k.k01 k.k02 k.k03 k.k11 k.k12 k.k13 k.k22 k.k23 k.k33

theorem det_keyKR_sub (M : M9) (x : ℝ) : (keyKR M - x • (1 : Matrix (Fin 4) (Fin 4) ℝ)).det = PR M x := by
  unfold keyKR
  rw [det_K4_sub]
  simp only [det4R, PR, keyK, C2, C1, C0, detM]
  push_cast
  ring

/-- a quaternion as a real vector -/
noncomputable def Quat.toR (q : Quat) : Fin 4 → ℝ := ![(q.q0 : ℝ), (q.q1 : ℝ), (q.q2 : ℝ), (q.q3 : ℝ)]

theorem quadK_cast (M : M9) (q : Quat) : ((quadK M q : Rat) : ℝ) = q.toR ⬝ᵥ (keyKR M *ᵥ q.toR) := by
  simp only [quadK, keyKR, K4, Quat.toR, dotProduct, mulVec, Fin.sum_univ_four]
  simp
  push_cast
  ring

theorem norm2_cast (q : Quat) : ((q.norm2 : Rat) : ℝ) = q.toR ⬝ᵥ q.toR := by
  simp only [Quat.norm2, Quat.toR, dotProduct, Fin.sum_univ_four]
  simp

end MdVerif.Qcp
