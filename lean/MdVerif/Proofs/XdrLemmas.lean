/- helper lemmas for the XDR / .trr byte-level model (Model/Xdr.lean); property theorems are in Properties/C01.lean -/
import MdVerif.Model.Xdr
namespace MdVerif.Xdr


theorem toWords_bytesOfWords (ws : List Nat) (h : ∀ w ∈ ws, w < 4294967296) : toWords (bytesOfWords ws) = some ws := by
  induction ws with
  | nil => rfl
  | cons w ws ih =>
    have hw : w < 4294967296 := h w (by simp)
    have ih' := ih (fun x hx => h x (by simp [hx]))
    simp only [bytesOfWords, List.flatMap_cons, be32, List.cons_append, List.nil_append, toWords] at ih' ⊢
    rw [ih']
    simp only [Option.map_some, Option.some.injEq, List.cons.injEq, and_true]
    omega

theorem parseFrame_render (f : Frame) (hf : f.WF) (rest : List Nat) :
    parseFrame (renderFrame f ++ rest) = some (f, rest) := by
  obtain ⟨hbox, hx, _, _, _, _, _, _, _⟩ := hf
  have e1 : 4 * f.box.length / 4 = f.box.length := Nat.mul_div_cancel_left _ (by decide)
  have e2 : 4 * f.x.length / 4 = f.x.length := Nat.mul_div_cancel_left _ (by decide)
  have c1 : 4 * f.box.length % 4 = 0 := Nat.mul_mod_right _ _
  have c2 : 4 * f.x.length % 4 = 0 := Nat.mul_mod_right _ _
  have c3 : 4 * f.box.length = 0 ∨ 4 * f.box.length = 36 := by omega
  have c4 : 4 * f.x.length = 0 ∨ 4 * f.x.length = 12 * f.natoms := by omega
  simp only [renderFrame, tagWords, List.cons_append, List.nil_append, List.append_assoc, parseFrame]
  simp only [c1, c2, c3, c4, e1, e2, and_self, if_true, Nat.zero_div, Nat.add_zero, List.drop_zero]
  have hlen : f.box.length + f.x.length ≤ (f.box ++ (f.x ++ rest)).length := by simp
  simp only [hlen, if_true, List.take_left', List.drop_left']


theorem renderFrame_length_pos (f : Frame) : 0 < (renderFrame f).length := by simp [renderFrame]

theorem parseAll_render (fs : List Frame) (h : ∀ f ∈ fs, f.WF) (fuel : Nat) (hfuel : fs.length < fuel) :
    parseAll fuel (fs.flatMap renderFrame) = some fs := by
  induction fs generalizing fuel with
  | nil => cases fuel <;> rfl
  | cons f fs ih =>
    cases fuel with
    | zero => simp at hfuel
    | succ fuel =>
      simp only [List.flatMap_cons]
      obtain ⟨a, l, hl⟩ : ∃ a l, renderFrame f ++ fs.flatMap renderFrame = a :: l := by simp [renderFrame]
      rw [hl]
      simp only [parseAll]
      rw [← hl, parseFrame_render f (h f (by simp))]
      simp only [ih (fun x hx => h x (by simp [hx])) fuel (by simpa using hfuel), Option.map_some]

theorem flatMap_render_length (fs : List Frame) : fs.length ≤ (fs.flatMap renderFrame).length := by
  induction fs with
  | nil => simp
  | cons f fs ih =>
    have := renderFrame_length_pos f
    simp only [List.flatMap_cons, List.length_append, List.length_cons]
    omega

theorem render_words_bound (f : Frame) (hf : f.WF) : ∀ w ∈ renderFrame f, w < 4294967296 := by
  obtain ⟨hbox, hx, h1, h2, h3, h4, h5, h6, h7⟩ := hf
  intro w hw
  simp only [renderFrame, tagWords, List.cons_append, List.nil_append, List.mem_cons, List.mem_append] at hw
  rcases hw with rfl | rfl | rfl | rfl | rfl | rfl | rfl | rfl | rfl | rfl | rfl | rfl | rfl | rfl | rfl | rfl | rfl | rfl | rfl | rfl | rfl | hw | hw
  all_goals first | omega | exact h5 _ hw | exact h6 _ hw | (simp at hw)

end MdVerif.Xdr
