/- helper lemmas for the XDR / .trr byte-level model (Model/Xdr.lean); property theorems are in Properties/C01.lean -/
import MdVerif.Model.Xdr
namespace MdVerif.Xdr


theorem toWords_bytesOfWords (ws : List Nat) (h : ∀ w ∈ ws, w < 4294967296) : toWords (bytesOfWords ws) = some ws := by
  induction ws with
  | nil => rfl
  | cons w ws ih =>
    have hw : w < 4294967296 := h w (by simp)
    have ih' := ih (fun x hx => h x (by simp [hx]))
    simp only [bytesOfWords, List.flatMap_cons, be32, List.cons_append, List.nil_append, toWords] at ih' ⊢
    rw [ih']
    simp only [Option.map_some, Option.some.injEq, List.cons.injEq, and_true]
    omega

theorem parseFrame_render (f : Frame) (hf : f.WF) (rest : List Nat) :
    parseFrame (renderFrame f ++ rest) = some (f, rest) := by
  obtain ⟨hbox, hx, _, _, _, _, _, _, _⟩ := hf
  have e1 : 4 * f.box.length / 4 = f.box.length := Nat.mul_div_cancel_left _ (by decide)
  have e2 : 4 * f.x.length / 4 = f.x.length := Nat.mul_div_cancel_left _ (by decide)
  have c1 : 4 * f.box.length % 4 = 0 := Nat.mul_mod_right _ _
  have c2 : 4 * f.x.length % 4 = 0 := Nat.mul_mod_right _ _
  have c3 : 4 * f.box.length = 0 ∨ 4 * f.box.length = 36 := by omega
  have c4 : 4 * f.x.length = 0 ∨ 4 * f.x.length = 12 * f.natoms := by omega
  simp only [renderFrame, tagWords, List.cons_append, List.nil_append, List.append_assoc, parseFrame]
  simp only [c1, c2, c3, c4, e1, e2, and_self, if_true, Nat.zero_div, Nat.add_zero, List.drop_zero]
  have hlen : f.box.length + f.x.length ≤ (f.box ++ (f.x ++ rest)).length := by simp
  simp only [hlen, if_true, List.take_left', List.drop_left']


theorem renderFrame_length_pos (f : Frame) : 0 < (renderFrame f).length := by simp [renderFrame]

theorem parseAll_render (fs : List Frame) (h : ∀ f ∈ fs, f.WF) (fuel : Nat) (hfuel : fs.length < fuel) :
    parseAll fuel (fs.flatMap renderFrame) = some fs := by
  induction fs generalizing fuel with
  | nil => cases fuel <;> rfl
  | cons f fs ih =>
    cases fuel with
    | zero => simp at hfuel
    | succ fuel =>
      simp only [List.flatMap_cons]
      obtain ⟨a, l, hl⟩ : ∃ a l, renderFrame f ++ fs.flatMap renderFrame = a :: l := by simp [renderFrame]
      rw [hl]
      simp only [parseAll]
      rw [← hl, parseFrame_render f (h f (by simp))]
      simp only [ih (fun x hx => h x (by simp [hx])) fuel (by simpa using hfuel), Option.map_some]

theorem flatMap_render_length (fs : List Frame) : fs.length ≤ (fs.flatMap renderFrame).length := by
  induction fs with
  | nil => simp
  | cons f fs ih =>
    have := renderFrame_length_pos f
    simp only [List.flatMap_cons, List.length_append, List.length_cons]
    omega

theorem render_words_bound (f : Frame) (hf : f.WF) : ∀ w ∈ renderFrame f, w < 4294967296 := by
  obtain ⟨hbox, hx, h1, h2, h3, h4, h5, h6, h7⟩ := hf
  intro w hw
  simp only [renderFrame, tagWords, List.cons_append, List.nil_append, List.mem_cons, List.mem_append] at hw
  rcases hw with rfl | rfl | rfl | rfl | rfl | rfl | rfl | rfl | rfl | rfl | rfl | rfl | rfl | rfl | rfl | rfl | rfl | rfl | rfl | rfl | rfl | hw | hw
  all_goals first | omega | exact h5 _ hw | exact h6 _ hw | (simp at hw)


theorem parseXtcFrame_render (f : XtcFrame) (hf : f.SmallWF) (rest : List Nat) :
    parseXtcFrame (renderXtc f ++ rest) = some (f, rest) := by
  obtain ⟨hn, hb, hx, hp, _, _, _, _⟩ := hf
  have hlen : 10 ≤ (f.box ++ (f.natoms :: (f.x ++ rest))).length := by simp [hb]; omega
  have hhead : ((f.box ++ (f.natoms :: (f.x ++ rest))).drop 9).head? = some f.natoms := by rw [← hb]; simp
  have htake : (f.box ++ (f.natoms :: (f.x ++ rest))).take 9 = f.box := by rw [← hb]; exact List.take_left
  have hdrop : (f.box ++ (f.natoms :: (f.x ++ rest))).drop 10 = f.x ++ rest := by
    have : (f.box ++ (f.natoms :: (f.x ++ rest))).drop (f.box.length + 1) = f.x ++ rest := by rw [← List.drop_drop]; simp
    rwa [hb] at this
  have hxl : 3 * f.natoms ≤ (f.x ++ rest).length := by simp [hx]
  have hxt : (f.x ++ rest).take (3 * f.natoms) = f.x := by rw [← hx]; exact List.take_left
  have hxd : (f.x ++ rest).drop (3 * f.natoms) = rest := by rw [← hx]; exact List.drop_left
  simp only [renderXtc, hp, List.append_nil, List.cons_append, List.nil_append, List.append_assoc, parseXtcFrame,
    hlen, hhead, htake, hdrop, hn, hxl, hxt, hxd, and_self, if_true]
  cases f; simp_all

theorem renderXtc_ne_nil (f : XtcFrame) : ∃ a l, renderXtc f = a :: l := ⟨1995, _, rfl⟩

theorem parseXtcAll_render (fs : List XtcFrame) (h : ∀ f ∈ fs, f.SmallWF) (fuel : Nat) (hfuel : fs.length < fuel) :
    parseXtcAll fuel (fs.flatMap renderXtc) = some fs := by
  induction fs generalizing fuel with
  | nil => cases fuel <;> rfl
  | cons f fs ih =>
    cases fuel with
    | zero => simp at hfuel
    | succ fuel =>
      simp only [List.flatMap_cons]
      obtain ⟨a, l, hl⟩ : ∃ a l, renderXtc f ++ fs.flatMap renderXtc = a :: l := ⟨1995, _, rfl⟩
      rw [hl]
      simp only [parseXtcAll]
      rw [← hl, parseXtcFrame_render f (h f (by simp))]
      simp only [ih (fun x hx => h x (by simp [hx])) fuel (by simpa using hfuel), Option.map_some]

theorem renderXtc_bound (f : XtcFrame) (hf : f.SmallWF) : ∀ w ∈ renderXtc f, w < 4294967296 := by
  obtain ⟨hn, _, _, hp, h1, h2, h3, h4⟩ := hf
  intro w hm
  simp only [renderXtc, hp, List.append_nil, List.mem_append, List.mem_cons, List.mem_nil_iff, or_false, List.mem_singleton] at hm
  rcases hm with (((rfl | rfl | rfl | rfl) | hb) | rfl) | hx
  all_goals first | omega | exact h3 _ hb | exact h4 _ hx

theorem flatMap_xtc_length (fs : List XtcFrame) : fs.length ≤ (fs.flatMap renderXtc).length := by
  induction fs with
  | nil => simp
  | cons f fs ih =>
    have : 0 < (renderXtc f).length := by simp [renderXtc]
    simp only [List.flatMap_cons, List.length_append, List.length_cons]
    omega

end MdVerif.Xdr
