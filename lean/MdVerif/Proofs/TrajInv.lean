import MdVerif.Proofs.TrajLemmas
/-! The cache/shape invariant of the trajectory-container model and its preservation by every operation. -/
namespace MdVerif.TrajModel

variable {F T : Type}

/-- all per-frame fields have the length of the coordinate array and every address is allocated -/
def WF (heap : List F) (t : Traj T) : Prop :=
  t.time.length = t.rows.length ∧ (∀ c, t.cell = some c → c.length = t.rows.length) ∧
  (∀ tr, t.traces = some tr → tr.length = t.rows.length) ∧ (∀ a ∈ t.rows, a < heap.length)

/-- the hidden RMSD cache, when present, is the trace of the current coordinates, which are centred -/
def CacheOK (ops : FrameOps F T) (heap : List F) (t : Traj T) : Prop :=
  ∀ tr, t.traces = some tr → tr = (frames heap t).map ops.trace ∧ ∀ f ∈ frames heap t, ops.center f = f

def Inv (ops : FrameOps F T) (w : World F T) : Prop :=
  ∀ t ∈ w.trajs, WF w.heap t ∧ CacheOK ops w.heap t

theorem frames_length {heap : List F} {t : Traj T} (h : WF heap t) : (frames heap t).length = t.rows.length :=
  gather_length_of_bounds h.2.2.2

theorem wf_append {heap : List F} {t : Traj T} (fs : List F) (h : WF heap t) : WF (heap ++ fs) t :=
  ⟨h.1, h.2.1, h.2.2.1, fun a ha => by have := h.2.2.2 a ha; simp; omega⟩

theorem cache_append {ops : FrameOps F T} {heap : List F} {t : Traj T} (fs : List F) (hw : WF heap t)
    (h : CacheOK ops heap t) : CacheOK ops (heap ++ fs) t := by
  intro tr htr
  have : frames (heap ++ fs) t = frames heap t := gather_append_left hw.2.2.2
  rw [this]
  exact h tr htr

theorem alloc_rows_bound (heap fs : List F) : ∀ a ∈ (alloc heap fs).2, a < (alloc heap fs).1.length := by
  intro a ha
  simp only [alloc, List.mem_map, List.mem_range] at ha
  obtain ⟨i, hi, rfl⟩ := ha
  simp [alloc]; omega

theorem alloc_rows_length (heap fs : List F) : (alloc heap fs).2.length = fs.length := by simp [alloc]

theorem frames_alloc (heap fs : List F) (t : Traj T) (h : t.rows = (alloc heap fs).2) :
    frames (alloc heap fs).1 t = fs := by
  unfold frames; rw [h]; exact gather_alloc heap fs

/-- a freshly allocated trajectory without cache satisfies the invariant as soon as its lengths match -/
theorem fresh_ok (ops : FrameOps F T) (heap fs : List F) (t : Traj T) (hr : t.rows = (alloc heap fs).2)
    (htr : t.traces = none) (ht : t.time.length = fs.length) (hc : ∀ c, t.cell = some c → c.length = fs.length) :
    WF (alloc heap fs).1 t ∧ CacheOK ops (alloc heap fs).1 t := by
  refine ⟨⟨?_, ?_, ?_, ?_⟩, ?_⟩
  · rw [hr, alloc_rows_length]; exact ht
  · intro c h; rw [hr, alloc_rows_length]; exact hc c h
  · intro tr h; rw [htr] at h; cases h
  · rw [hr]; exact alloc_rows_bound heap fs
  · intro tr h; rw [htr] at h; cases h

theorem inv_add (ops : FrameOps F T) (w : World F T) (fs : List F) (t' : Traj T) (hI : Inv ops w)
    (hnew : WF (w.heap ++ fs) t' ∧ CacheOK ops (w.heap ++ fs) t') :
    Inv ops { heap := w.heap ++ fs, trajs := w.trajs ++ [t'] } := by
  intro t ht
  rcases List.mem_append.mp ht with h | h
  · exact ⟨wf_append fs (hI t h).1, cache_append fs (hI t h).1 (hI t h).2⟩
  · simp at h; subst h; exact hnew

theorem inv_set (ops : FrameOps F T) (w : World F T) (fs : List F) (i : Nat) (t' : Traj T) (hI : Inv ops w)
    (hnew : WF (w.heap ++ fs) t' ∧ CacheOK ops (w.heap ++ fs) t') :
    Inv ops { heap := w.heap ++ fs, trajs := w.trajs.set i t' } := by
  intro t ht
  rcases List.mem_or_eq_of_mem_set ht with h | h
  · exact ⟨wf_append fs (hI t h).1, cache_append fs (hI t h).1 (hI t h).2⟩
  · subst h; exact hnew

theorem inv_add_same (ops : FrameOps F T) (w : World F T) (t' : Traj T) (hI : Inv ops w)
    (hnew : WF w.heap t' ∧ CacheOK ops w.heap t') :
    Inv ops { heap := w.heap, trajs := w.trajs ++ [t'] } := by
  have := inv_add ops w [] t' hI (by simpa using hnew)
  simpa using this

theorem inv_set_same (ops : FrameOps F T) (w : World F T) (i : Nat) (t' : Traj T) (hI : Inv ops w)
    (hnew : WF w.heap t' ∧ CacheOK ops w.heap t') :
    Inv ops { heap := w.heap, trajs := w.trajs.set i t' } := by
  have := inv_set ops w [] i t' hI (by simpa using hnew)
  simpa using this

theorem gather_getElem?_of_bounds {h : List F} {rows : List Nat} (hb : ∀ a ∈ rows, a < h.length) (p : Nat) :
    (gather h rows)[p]? = (rows[p]?).bind (h[·]?) := by
  induction rows generalizing p with
  | nil => simp [gather]
  | cons a r ih =>
    have ha : a < h.length := hb a (by simp)
    simp only [gather, List.getElem?_eq_getElem ha]
    cases p with
    | zero => simp [List.getElem?_eq_getElem ha]
    | succ p => simpa using ih (fun x hx => hb x (by simp [hx])) p

theorem gather_gather {h : List F} {rows : List Nat} (hb : ∀ a ∈ rows, a < h.length) (ps : List Nat) :
    gather h (gather rows ps) = gather (gather h rows) ps := by
  induction ps with
  | nil => rfl
  | cons p ps ih =>
    simp only [gather, gather_getElem?_of_bounds hb]
    cases hp : rows[p]? with
    | none => simp [ih]
    | some a =>
      have ha : a < h.length := hb a (List.mem_of_getElem? hp)
      simp [gather, List.getElem?_eq_getElem ha, ih]

theorem mem_of_mapM_getElem? {l : List α} {js : List Nat} {os : List α}
    (h : js.mapM (l[·]?) = some os) : ∀ o ∈ os, o ∈ l := by
  induction js generalizing os with
  | nil => simp at h; subst h; simp
  | cons j js ih =>
    simp only [List.mapM_cons] at h
    cases hj : l[j]? with
    | none => simp [hj] at h
    | some x =>
      cases hr : js.mapM (l[·]?) with
      | none => simp [hj, hr] at h
      | some r =>
        simp [hj, hr] at h
        subst h
        intro o ho
        rcases List.mem_cons.mp ho with rfl | ho
        · exact List.mem_of_getElem? hj
        · exact ih hr o ho

theorem flatMap_length_eq {l : List γ} (f : γ → List α) (g : γ → List β)
    (h : ∀ x ∈ l, (f x).length = (g x).length) : (l.flatMap f).length = (l.flatMap g).length := by
  induction l with
  | nil => rfl
  | cons x xs ih =>
    simp only [List.flatMap_cons, List.length_append]
    rw [h x (by simp), ih (fun y hy => h y (by simp [hy]))]


/-! ### in-place assignment of the coordinate array (`Op.assignSame`) -/

theorem writeAt_length (heap : List F) (rows : List Nat) (fs : List F) : (writeAt heap rows fs).length = heap.length := by
  induction rows generalizing heap fs with
  | nil => simp [writeAt]
  | cons a rows ih =>
    cases fs with
    | nil => simp [writeAt]
    | cons f fs => simp [writeAt, ih]

theorem writeAt_getElem?_of_not_mem (heap : List F) (rows : List Nat) (fs : List F) (a : Nat) (ha : a ∉ rows) :
    (writeAt heap rows fs)[a]? = heap[a]? := by
  induction rows generalizing heap fs with
  | nil => simp [writeAt]
  | cons r rows ih =>
    cases fs with
    | nil => simp [writeAt]
    | cons f fs =>
      have hr : r ≠ a := fun h => ha (by simp [h])
      have hrows : a ∉ rows := fun h => ha (by simp [h])
      simp only [writeAt]
      rw [ih (heap.set r f) fs hrows, List.getElem?_set_ne hr]

theorem gather_writeAt_disjoint (heap : List F) (rows : List Nat) (fs : List F) (rows' : List Nat)
    (hd : ∀ a ∈ rows', a ∉ rows) : gather (writeAt heap rows fs) rows' = gather heap rows' := by
  induction rows' with
  | nil => rfl
  | cons a r ih =>
    have h1 := writeAt_getElem?_of_not_mem heap rows fs a (hd a (by simp))
    simp only [gather, h1, ih (fun x hx => hd x (by simp [hx]))]

/-- the condition under which `assignSame` keeps every cache right: no *other* trajectory that holds a cache shares storage with `i` -/
def Safe (w : World F T) : Op F → Prop
  | .assignSame i _ => ∀ t, w.trajs[i]? = some t → ∀ j u, j ≠ i → w.trajs[j]? = some u → u.traces ≠ none → ∀ a ∈ u.rows, a ∉ t.rows
  | _ => True

/-- every step of the history is safe in the state it is applied to -/
def SafeRun (ops : FrameOps F T) : World F T → List (Op F) → Prop
  | _, [] => True
  | w, op :: l => Safe w op ∧ SafeRun ops (step ops w op) l

theorem mem_set_cases {α : Type} (l : List α) (i : Nat) (b x : α) (h : x ∈ l.set i b) :
    (∃ j, j ≠ i ∧ l[j]? = some x) ∨ x = b := by
  obtain ⟨j, hj⟩ := List.mem_iff_getElem?.mp h
  rw [List.getElem?_set] at hj
  by_cases hij : i = j
  · subst hij
    simp only [if_true] at hj
    split at hj
    · right; exact (Option.some.inj hj).symm
    · cases hj
  · simp only [hij, if_false] at hj
    left; exact ⟨j, fun e => hij e.symm, hj⟩

/-- `assignSame` preserves the invariant when it is safe -/
theorem inv_assignSame (ops : FrameOps F T) (w : World F T) (i : Nat) (fs : List F) (hI : Inv ops w)
    (hs : Safe w (.assignSame i fs)) : Inv ops (step ops w (.assignSame i fs)) := by
  cases hi : w.trajs[i]? with
  | none => simp only [step, hi]; exact hI
  | some t =>
    simp only [step, hi]
    split
    · rename_i hlen
      have ht := hI t (List.mem_of_getElem? hi)
      intro u hu
      have hbound : ∀ (x : Traj T), WF w.heap x → WF (writeAt w.heap t.rows fs) x := fun x hx =>
        ⟨hx.1, hx.2.1, hx.2.2.1, fun a ha => by rw [writeAt_length]; exact hx.2.2.2 a ha⟩
      rcases mem_set_cases _ _ _ _ hu with ⟨j, hji, huj⟩ | h
      · have hu' := hI u (List.mem_of_getElem? huj)
        refine ⟨hbound u hu'.1, ?_⟩
        intro tr htr
        have hdis := hs t hi j u hji huj (by rw [htr]; simp)
        have : frames (writeAt w.heap t.rows fs) u = frames w.heap u := gather_writeAt_disjoint _ _ _ _ hdis
        rw [this]; exact hu'.2 tr htr
      · subst h
        refine ⟨⟨ht.1.1, ht.1.2.1, ?_, fun a ha => by rw [writeAt_length]; exact ht.1.2.2.2 a ha⟩, ?_⟩
        · intro tr htr; cases htr
        · intro tr htr; cases htr
    · exact hI

end MdVerif.TrajModel
