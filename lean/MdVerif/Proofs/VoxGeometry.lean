/- geometry of the voxel pruning of neighborlist.cpp over the reals (helper lemmas; the property theorems are in Properties/C10.lean) -/
import Mathlib.Analysis.Real.Sqrt
import Mathlib.Tactic.Linarith
import Mathlib.Tactic.NormNum
import Mathlib.Algebra.Order.Round
import Mathlib.Tactic.FieldSimp

namespace MdVerif.VoxGeo

/-- distance from a coordinate `c` of the centre atom to the interval `[lo, hi]` of a voxel row, as `getNeighbors` computes it: zero when the
atom sits in this row (`y == atomVoxelIndex.y`), otherwise the smaller of the distances to the two ends -/
noncomputable def gap (c lo hi : ℝ) : ℝ := if lo ≤ c ∧ c ≤ hi then 0 else min |lo - c| |hi - c|

theorem gap_nonneg (c lo hi : ℝ) : 0 ≤ gap c lo hi := by
  unfold gap; split
  · exact le_refl 0
  · exact le_min (abs_nonneg _) (abs_nonneg _)

/-- every point of the interval is at least `gap` away from `c` -/
theorem gap_le (c lo hi p : ℝ) (h1 : lo ≤ p) (h2 : p ≤ hi) : gap c lo hi ≤ |p - c| := by
  unfold gap; split
  · exact abs_nonneg _
  · rename_i hc
    rcases not_and_or.mp hc with h | h
    · -- c < lo ≤ p
      have hlt : c < lo := lt_of_not_ge h
      calc min |lo - c| |hi - c| ≤ |lo - c| := min_le_left _ _
        _ = lo - c := abs_of_pos (by linarith)
        _ ≤ p - c := by linarith
        _ ≤ |p - c| := le_abs_self _
    · have hlt : hi < c := lt_of_not_ge h
      calc min |lo - c| |hi - c| ≤ |hi - c| := min_le_right _ _
        _ = c - hi := by rw [abs_of_neg (by linarith)]; ring
        _ ≤ c - p := by linarith
        _ = -(p - c) := by ring
        _ ≤ |p - c| := neg_le_abs _

/-- `δ − round(δ/L)·L`: the separation to the nearest periodic image along one axis of a rectangular cell -/
noncomputable def wrap (L x : ℝ) : ℝ := x - round (x / L) * L

/-- the wrapped separation is the smallest over all images -/
theorem abs_wrap_le (L x : ℝ) (hL : 0 < L) (k : ℤ) : |wrap L x| ≤ |x - k * L| := by
  have h := round_le (x / L) k
  have e1 : wrap L x = (x / L - round (x / L)) * L := by unfold wrap; field_simp
  have e2 : x - k * L = (x / L - k) * L := by field_simp
  rw [e1, e2, abs_mul, abs_mul, abs_of_pos hL]
  exact mul_le_mul_of_nonneg_right h (le_of_lt hL)

/-- distance from the nearest image of `c` to a voxel row that holds no image of `c` (the periodic rectangular branch: `delta -= round(delta/L)·L`
on both ends, then the smaller absolute value) -/
noncomputable def gapP (L c lo hi : ℝ) : ℝ := min |wrap L (lo - c)| |wrap L (hi - c)|

theorem gapP_le (L c lo hi p : ℝ) (hL : 0 < L) (h1 : lo ≤ p) (h2 : p ≤ hi) (k : ℤ)
    (hout : ¬ (lo ≤ c + k * L ∧ c + k * L ≤ hi)) : gapP L c lo hi ≤ |p - c - k * L| := by
  have hg := gap_le (c + k * L) lo hi p h1 h2
  have hgdef : gap (c + k * L) lo hi = min |lo - (c + k * L)| |hi - (c + k * L)| := by unfold gap; rw [if_neg hout]
  have a1 : |wrap L (lo - c)| ≤ |lo - (c + k * L)| := by
    have := abs_wrap_le L (lo - c) hL k
    rwa [show lo - c - k * L = lo - (c + k * L) by ring] at this
  have a2 : |wrap L (hi - c)| ≤ |hi - (c + k * L)| := by
    have := abs_wrap_le L (hi - c) hL k
    rwa [show hi - c - k * L = hi - (c + k * L) by ring] at this
  calc gapP L c lo hi ≤ min |lo - (c + k * L)| |hi - (c + k * L)| := min_le_min a1 a2
    _ = gap (c + k * L) lo hi := hgdef.symm
    _ ≤ |p - (c + k * L)| := hg
    _ = |p - c - k * L| := by rw [show p - (c + k * L) = p - c - k * L by ring]

end MdVerif.VoxGeo
