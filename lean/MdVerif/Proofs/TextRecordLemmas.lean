/- width lemmas for whole text records (Model/TextRecords.lean); property theorems are in Properties/C01.lean -/
import MdVerif.Model.TextRecords
import MdVerif.Proofs.TextLemmas
namespace MdVerif.Txt

theorem padLeft_length (w : Nat) (s : List Char) (h : s.length ≤ w) : (padLeft w s).length = w := by
  simp [padLeft]; omega

theorem padRight_length (w : Nat) (s : List Char) (h : s.length ≤ w) : (padRight w s).length = w := by
  simp [padRight]; omega

theorem intBody_length_nonneg (n : Int) (k : Nat) (hk : 1 ≤ k) (h0 : 0 ≤ n) (h1 : n < 10 ^ k) : (intBody n).length ≤ k := by
  have hn : n.natAbs < 10 ^ k := by
    have : (n.natAbs : Int) = n := Int.natAbs_of_nonneg h0
    have h2 : (n.natAbs : Int) < ((10 ^ k : Nat) : Int) := by rw [this]; exact_mod_cast h1
    exact_mod_cast h2
  have := (natDigits_length_le n.natAbs k hk).mpr hn
  have hneg : ¬ n < 0 := by omega
  simp [intBody, hneg, this]

theorem intBody_length_neg (n : Int) (k : Nat) (hk : 1 ≤ k) (h0 : n < 0) (h1 : -(10 ^ k : Int) < n) : (intBody n).length ≤ k + 1 := by
  have hn : n.natAbs < 10 ^ k := by
    have : (n.natAbs : Int) = -n := by omega
    have h2 : (n.natAbs : Int) < ((10 ^ k : Nat) : Int) := by rw [this]; push_cast; omega
    exact_mod_cast h2
  have := (natDigits_length_le n.natAbs k hk).mpr hn
  simp [intBody, h0]; omega

theorem fmtInt_serial_length (n : Nat) : (fmtInt 5 ((n % 100000 : Nat) : Int)).length = 5 := by
  apply padLeft_length
  apply intBody_length_nonneg _ 5 (by decide) (by omega)
  have : n % 100000 < 100000 := Nat.mod_lt _ (by decide)
  omega

theorem fmtInt_resseq_length (r : Int) : (fmtInt 4 (resseqField r)).length = 4 := by
  apply padLeft_length
  unfold resseqField
  split
  · apply intBody_length_nonneg _ 4 (by decide) (Int.emod_nonneg _ (by decide))
    have := Int.emod_lt_of_pos r (show (0 : Int) < 10000 by decide)
    omega
  · rename_i h
    have h1 := Int.emod_nonneg (-r) (show (1000 : Int) ≠ 0 by decide)
    have h2 := Int.emod_lt_of_pos (-r) (show (0 : Int) < 1000 by decide)
    by_cases hz : (-r) % 1000 = 0
    · rw [hz]; exact intBody_length_nonneg _ 4 (by decide) (by simp) (by simp)
    · have := intBody_length_neg (-((-r) % 1000)) 3 (by decide) (by omega) (by omega)
      omega

theorem pdbAtomName_length (name : List Char) (k : Nat) : (pdbAtomName name k).length ≤ 4 := by
  unfold pdbAtomName
  split
  · rename_i h; simp; omega
  · split
    · simp
    · omega

theorem takeLast_length (k : Nat) (s : List Char) : (takeLast k s).length ≤ k := by
  simp [takeLast]; omega


end MdVerif.Txt
