import MdVerif.Model.Cursor
/-! Helper lemmas about `everyNth`, `pySlice`, `seqLoop` (used by Properties/C02, C18). -/
namespace MdVerif

@[simp] theorem everyNth_nil (s : Nat) : everyNth s ([] : List α) = [] := by
  simp [everyNth, everyNthAux]

theorem everyNthAux_eq (s k : Nat) (l : List α) : everyNthAux s k l = everyNth s (l.drop k) := by
  induction l generalizing k with
  | nil => simp [everyNth, everyNthAux]
  | cons x xs ih =>
    cases k with
    | zero => simp [everyNth]
    | succ k => simp [everyNthAux, ih]

theorem everyNth_cons (s : Nat) (x : α) (xs : List α) :
    everyNth s (x :: xs) = x :: everyNth s (xs.drop (s - 1)) := by
  show everyNthAux s 0 (x :: xs) = _
  rw [everyNthAux, everyNthAux_eq]

theorem everyNth_one (l : List α) : everyNth 1 l = l := by
  induction l with
  | nil => simp
  | cons x xs ih => simp [everyNth_cons, ih]

/-- dropping `k` strided elements is dropping `k*s` raw ones -/
theorem everyNth_drop (s : Nat) (hs : 1 ≤ s) (k : Nat) (l : List α) :
    (everyNth s l).drop k = everyNth s (l.drop (k * s)) := by
  induction k generalizing l with
  | zero => simp
  | succ k ih =>
    cases l with
    | nil => simp
    | cons x xs =>
      rw [everyNth_cons, List.drop_succ_cons, ih]
      have : (k + 1) * s = (s - 1) + k * s + 1 := by
        rw [Nat.add_mul]; omega
      rw [this, List.drop_succ_cons, List.drop_drop]

/-- taking `k` strided elements only looks at the first `k*s` raw ones -/
theorem everyNth_take (s : Nat) (hs : 1 ≤ s) (k : Nat) (l : List α) :
    everyNth s (l.take (k * s)) = (everyNth s l).take k := by
  induction k generalizing l with
  | zero => simp
  | succ k ih =>
    cases l with
    | nil => simp
    | cons x xs =>
      have h1 : (k + 1) * s = (k * s + (s - 1)) + 1 := by rw [Nat.add_mul]; omega
      rw [h1, List.take_succ_cons, everyNth_cons, everyNth_cons, List.take_succ_cons]
      congr 1
      rw [← ih]
      congr 1
      rw [List.drop_take]
      congr 1
      omega

theorem getElem?_drop_cons {l : List α} {p : Nat} {f : α} (h : l[p]? = some f) :
    l.drop p = f :: l.drop (p + 1) := by
  have hp : p < l.length := by
    cases hlt : decide (p < l.length) with
    | true => simpa using hlt
    | false =>
      have : l.length ≤ p := by simpa using hlt
      rw [List.getElem?_eq_none this] at h; cases h
  rw [List.drop_eq_getElem_cons hp]
  congr 1
  rw [List.getElem?_eq_getElem hp] at h
  exact Option.some.inj h

theorem drop_min_length (l : List α) (a : Nat) : l.drop (min a l.length) = l.drop a := by
  rcases Nat.le_total a l.length with h | h
  · rw [Nat.min_eq_left h]
  · rw [Nat.min_eq_right h, List.drop_eq_nil_of_le h, List.drop_eq_nil_of_le (Nat.le_refl _)]

/-- closed form of the sequential read loop -/
theorem seqLoop_eq (file : List α) (s : Nat) (hs : 1 ≤ s) (n p : Nat) (hp : p ≤ file.length) :
    seqLoop file s n p = ((everyNth s (file.drop p)).take n, min (p + n * s) file.length) := by
  induction n generalizing p with
  | zero => simp [seqLoop, Nat.min_eq_left hp]
  | succ n ih =>
    unfold seqLoop
    cases hf : file[p]? with
    | none =>
      have hge : file.length ≤ p := by
        rcases Nat.lt_or_ge p file.length with h | h
        · rw [List.getElem?_eq_getElem h] at hf; cases hf
        · exact h
      have : file.drop p = [] := List.drop_eq_nil_of_le hge
      simp [this]; omega
    | some f =>
      have hd := getElem?_drop_cons hf
      have hmin : min (p + s) file.length ≤ file.length := Nat.min_le_right _ _
      simp only [ih _ hmin]
      rw [hd, everyNth_cons, List.take_succ_cons, List.drop_drop, drop_min_length]
      have e1 : p + 1 + (s - 1) = p + s := by omega
      have e2 : min (min (p + s) file.length + n * s) file.length = min (p + (n + 1) * s) file.length := by
        rw [Nat.add_mul]; omega
      rw [e1, e2]

theorem pySlice_eq (file : List α) (s : Nat) (hs : 1 ≤ s) (a k : Nat) :
    pySlice file a (min (a + k * s) file.length) s = (everyNth s (file.drop a)).take k := by
  unfold pySlice
  rw [← everyNth_take s hs, List.drop_take]
  congr 1
  rcases Nat.le_total (a + k * s) file.length with h | h
  · rw [Nat.min_eq_left h]; congr 1; omega
  · rw [Nat.min_eq_right h]
    rw [List.take_of_length_le (by simp), List.take_of_length_le (by simp; omega)]

theorem pySlice_all (file : List α) (s : Nat) (a : Nat) :
    pySlice file a file.length s = everyNth s (file.drop a) := by
  unfold pySlice
  rw [List.take_length]

end MdVerif

namespace MdVerif

theorem everyNth_length_le (s : Nat) (l : List α) : (everyNth s l).length ≤ l.length := by
  suffices h : ∀ k, (everyNthAux s k l).length ≤ l.length from h 0
  induction l with
  | nil => simp [everyNthAux]
  | cons x xs ih =>
    intro k
    cases k with
    | zero => simp [everyNthAux]; exact ih _
    | succ k => simp [everyNthAux]; exact Nat.le_succ_of_le (ih _)

theorem everyNth_map (g : α → β) (s : Nat) (l : List α) :
    everyNth s (l.map g) = (everyNth s l).map g := by
  suffices h : ∀ k, everyNthAux s k (l.map g) = (everyNthAux s k l).map g from h 0
  induction l with
  | nil => simp [everyNthAux]
  | cons x xs ih =>
    intro k
    cases k with
    | zero => simp [everyNthAux, ih]
    | succ k => simp [everyNthAux, ih]

/-- the position that determines what the next read returns -/
def cur (fmt : Fmt) (st : St) : Nat :=
  match fmt with
  | .h5 | .nc => st.pos
  | _ => st.phys

/-- the "efficient striding" branch of the XDR readers is taken -/
def Eff (fmt : Fmt) (st : St) (s : Nat) : Prop :=
  (fmt = .xtc ∨ fmt = .trr) ∧ s > 1 ∧ st.offs = true

theorem take_eq_nil_of_min_le {l : List α} {a k s tot : Nat} (hs : 1 ≤ s)
    (hl : l.length + a ≤ tot ∨ (tot ≤ a ∧ l = []))
    (h : min (a + k * s) tot - a = 0) : l.take k = [] := by
  rcases hl with hl | ⟨_, rfl⟩
  · by_cases hk : k = 0
    · simp [hk]
    · have : 1 ≤ k * s := Nat.mul_pos (Nat.pos_of_ne_zero hk) hs
      have : l.length = 0 := by omega
      simp [List.length_eq_zero_iff.mp this]
  · simp

theorem read_some_spec (junk : α) (fmt : Fmt) (file : List α) (st : St) (k s : Nat) (hs : 1 ≤ s)
    (hc : cur fmt st ≤ file.length) (hne : ¬ Eff fmt st s) :
    (read junk fmt file st (some k) s).1 = (everyNth s (file.drop (cur fmt st))).take k ∧
    cur fmt (read junk fmt file st (some k) s).2 = min (cur fmt st + k * s) file.length ∧
    (read junk fmt file st (some k) s).2.offs = st.offs := by
  cases fmt <;> simp only [cur] at hc ⊢
  · -- h5
    simp only [read]
    split
    · rename_i h0
      refine ⟨?_, ?_, rfl⟩
      · symm
        apply take_eq_nil_of_min_le hs _ h0
        left; have := everyNth_length_le s (file.drop st.pos); simp at this; omega
      · show st.pos = _; omega
    · exact ⟨pySlice_eq file s hs st.pos k, rfl, rfl⟩
  · -- nc
    simp only [read]
    split
    · rename_i h0
      have : file.drop st.pos = [] := List.drop_eq_nil_of_le h0
      simp [this]; omega
    · exact ⟨pySlice_eq file s hs st.pos k, rfl, rfl⟩
  · -- xtc
    have : ¬ (s > 1 ∧ st.offs = true) := fun h => hne ⟨Or.inl rfl, h.1, h.2⟩
    simp [read, this, seqLoop_eq file s hs k st.phys hc]
  · -- trr
    have : ¬ (s > 1 ∧ st.offs = true) := fun h => hne ⟨Or.inr rfl, h.1, h.2⟩
    simp [read, this, seqLoop_eq file s hs k st.phys hc]
  · -- dcd
    simp [read, seqLoop_eq file s hs k st.phys hc]
  · -- txt
    simp [read, seqLoop_eq file s hs k st.phys hc]

theorem read_none_spec (junk : α) (fmt : Fmt) (file : List α) (st : St) (s : Nat) (hs : 1 ≤ s)
    (hc : cur fmt st ≤ file.length) (hd : fmt = .dcd → st.pos = st.phys) (hne : ¬ Eff fmt st s) :
    (read junk fmt file st none s).1 = everyNth s (file.drop (cur fmt st)) ∧
    cur fmt (read junk fmt file st none s).2 = file.length := by
  have hlen : ∀ p, (everyNth s (file.drop p)).length ≤ file.length - p := fun p => by
    have := everyNth_length_le s (file.drop p); simpa using this
  cases fmt <;> simp only [cur] at hc ⊢
  · simp only [read]
    split
    · rename_i h0
      have : file.drop st.pos = [] := List.drop_eq_nil_of_le (by omega)
      simp [this]; omega
    · exact ⟨pySlice_all file s st.pos, rfl⟩
  · simp only [read]
    split
    · rename_i h0
      have : file.drop st.pos = [] := List.drop_eq_nil_of_le h0
      simp [this]; omega
    · exact ⟨pySlice_all file s st.pos, rfl⟩
  · have : ¬ (s > 1 ∧ st.offs = true) := fun h => hne ⟨Or.inl rfl, h.1, h.2⟩
    simp only [read, this, if_false, seqLoop_eq file s hs _ st.phys hc]
    refine ⟨List.take_of_length_le (by have := hlen st.phys; omega), ?_⟩
    have : 1 * (file.length + 1) ≤ (file.length + 1) * s := by rw [Nat.mul_comm]; exact Nat.mul_le_mul_left _ hs
    omega
  · have : ¬ (s > 1 ∧ st.offs = true) := fun h => hne ⟨Or.inr rfl, h.1, h.2⟩
    simp only [read, this, if_false, seqLoop_eq file s hs _ st.phys hc]
    refine ⟨List.take_of_length_le (by have := hlen st.phys; omega), ?_⟩
    have : 1 * (file.length + 1) ≤ (file.length + 1) * s := by rw [Nat.mul_comm]; exact Nat.mul_le_mul_left _ hs
    omega
  · have hp := hd rfl
    simp only [read, seqLoop_eq file s hs _ st.phys hc]
    refine ⟨List.take_of_length_le (by have := hlen st.phys; omega), ?_⟩
    have : 1 * (file.length - st.pos) ≤ (file.length - st.pos) * s := by rw [Nat.mul_comm]; exact Nat.mul_le_mul_left _ hs
    omega
  · simp only [read, seqLoop_eq file s hs _ st.phys hc]
    refine ⟨List.take_of_length_le (by have := hlen st.phys; omega), ?_⟩
    have : 1 * file.length ≤ file.length * s := by rw [Nat.mul_comm]; exact Nat.mul_le_mul_left _ hs
    omega

end MdVerif
