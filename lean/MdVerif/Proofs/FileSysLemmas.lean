/- helper lemmas for the directory model (Model/FileSys.lean); property theorems are in Properties/C20.lean -/
import MdVerif.Model.FileSys
namespace MdVerif.FileSys
variable {β : Type}

theorem lookup_cons (e : String × β) (d : Dir β) (q : String) :
    lookup (e :: d) q = if (e.1 == q) = true then some e.2 else lookup d q := by
  simp only [lookup, List.find?_cons]
  by_cases h : (e.1 == q) = true <;> simp [h]

theorem lookup_map_same (d : Dir β) (p : String) (c : β) (h : d.any (·.1 == p) = true) :
    lookup (d.map (fun e => if (e.1 == p) = true then (p, c) else e)) p = some c := by
  induction d with
  | nil => simp at h
  | cons e d ih =>
    rw [List.map_cons, lookup_cons]
    by_cases he : (e.1 == p) = true
    · simp [he]
    · have hd : d.any (·.1 == p) = true := by simpa [he] using h
      simp only [he, Bool.false_eq_true, if_false]
      exact ih hd

theorem lookup_map_other (d : Dir β) (p q : String) (c : β) (hq : q ≠ p) :
    lookup (d.map (fun e => if (e.1 == p) = true then (p, c) else e)) q = lookup d q := by
  have hpq : (p == q) = false := by simpa using Ne.symm hq
  induction d with
  | nil => rfl
  | cons e d ih =>
    rw [List.map_cons, lookup_cons, lookup_cons, ih]
    by_cases he : (e.1 == p) = true
    · have heq : e.1 = p := by simpa using he
      have hne : (e.1 == q) = false := by rw [heq]; exact hpq
      simp [he, hpq, hne]
    · simp [he]

theorem lookup_append_single (d : Dir β) (p q : String) (c : β) :
    lookup (d ++ [(p, c)]) q = match lookup d q with | some x => some x | none => if (p == q) = true then some c else none := by
  induction d with
  | nil => simp [lookup]
  | cons e d ih =>
    rw [List.cons_append, lookup_cons, lookup_cons, ih]
    by_cases he : (e.1 == q) = true <;> simp [he]

theorem lookup_none_of_not_any (d : Dir β) (p : String) (h : ¬ d.any (·.1 == p) = true) : lookup d p = none := by
  induction d with
  | nil => rfl
  | cons e d ih =>
    rw [lookup_cons]
    have h1 : ¬ (e.1 == p) = true := fun he => h (by simp [he])
    have h2 : ¬ d.any (·.1 == p) = true := fun hd => h (by simp [hd])
    simp [h1, ih h2]

theorem lookup_put_same (d : Dir β) (p : String) (c : β) : lookup (put d p c) p = some c := by
  unfold put
  split
  · rename_i h; exact lookup_map_same d p c h
  · rename_i h
    rw [lookup_append_single, lookup_none_of_not_any d p h]
    simp

theorem lookup_put_other (d : Dir β) (p q : String) (c : β) (hq : q ≠ p) : lookup (put d p c) q = lookup d q := by
  have hpq : (p == q) = false := by simpa using Ne.symm hq
  unfold put
  split
  · exact lookup_map_other d p q c hq
  · rw [lookup_append_single]
    cases lookup d q <;> simp [hpq]

end MdVerif.FileSys
