import MdVerif.Model.Voxels
import Mathlib.Tactic.Linarith
import Mathlib.Tactic.Ring
import Mathlib.Tactic.FieldSimp
import Mathlib.Data.Rat.Floor
import Mathlib.Algebra.Order.Floor.Ring
import Mathlib.Data.List.Nodup
import Mathlib.Data.List.Range
/-! Helper lemmas for the voxel-search model (C10): bisection invariants, floor bounds. -/
namespace MdVerif.Vox
open MdVerif.Mic

theorem lowerBoundAux_spec (xs : List Rat) (x : Rat) (hs : Sorted xs) :
    ∀ fuel lower upper, lower ≤ upper → upper ≤ xs.length → upper - lower < fuel →
      lower ≤ lowerBoundAux xs x fuel lower upper ∧ lowerBoundAux xs x fuel lower upper ≤ upper ∧
      (∀ i, lower ≤ i → i < lowerBoundAux xs x fuel lower upper → xs.getD i 0 < x) ∧
      (∀ i, lowerBoundAux xs x fuel lower upper ≤ i → i < upper → x ≤ xs.getD i 0) := by
  intro fuel
  induction fuel with
  | zero => intro lower upper _ _ h; omega
  | succ fuel ih =>
    intro lower upper hlu hul hf
    unfold lowerBoundAux
    by_cases hlt : lower < upper
    · simp only [hlt, if_true]
      have hm1 : lower ≤ (lower + upper) / 2 := by omega
      have hm2 : (lower + upper) / 2 < upper := by omega
      by_cases hc : xs.getD ((lower + upper) / 2) 0 < x
      · simp only [hc, if_true]
        obtain ⟨r1, r2, r3, r4⟩ := ih ((lower + upper) / 2 + 1) upper (by omega) hul (by omega)
        refine ⟨by omega, r2, ?_, r4⟩
        intro i hi1 hi2
        by_cases him : i ≤ (lower + upper) / 2
        · exact lt_of_le_of_lt (hs i _ him (by omega)) hc
        · exact r3 i (by omega) hi2
      · simp only [hc, if_false]
        obtain ⟨r1, r2, r3, r4⟩ := ih lower ((lower + upper) / 2) hm1 (by omega) (by omega)
        refine ⟨r1, by omega, r3, ?_⟩
        intro i hi1 hi2
        by_cases him : i < (lower + upper) / 2
        · exact r4 i hi1 him
        · exact le_trans (not_lt.mp hc) (hs _ i (by omega) (by omega))
    · simp only [hlt, if_false]
      refine ⟨le_refl _, hlu, ?_, ?_⟩ <;> intro i h1 h2 <;> omega

theorem upperBoundAux_spec (xs : List Rat) (x : Rat) (hs : Sorted xs) :
    ∀ fuel lower upper, lower ≤ upper → upper ≤ xs.length → upper - lower < fuel →
      lower ≤ upperBoundAux xs x fuel lower upper ∧ upperBoundAux xs x fuel lower upper ≤ upper ∧
      (∀ i, lower ≤ i → i < upperBoundAux xs x fuel lower upper → xs.getD i 0 ≤ x) ∧
      (∀ i, upperBoundAux xs x fuel lower upper ≤ i → i < upper → x < xs.getD i 0) := by
  intro fuel
  induction fuel with
  | zero => intro lower upper _ _ h; omega
  | succ fuel ih =>
    intro lower upper hlu hul hf
    unfold upperBoundAux
    by_cases hlt : lower < upper
    · simp only [hlt, if_true]
      have hm1 : lower ≤ (lower + upper) / 2 := by omega
      have hm2 : (lower + upper) / 2 < upper := by omega
      by_cases hc : x < xs.getD ((lower + upper) / 2) 0
      · simp only [hc, if_true]
        obtain ⟨r1, r2, r3, r4⟩ := ih lower ((lower + upper) / 2) hm1 (by omega) (by omega)
        refine ⟨r1, by omega, r3, ?_⟩
        intro i hi1 hi2
        by_cases him : i < (lower + upper) / 2
        · exact r4 i hi1 him
        · exact lt_of_lt_of_le hc (hs _ i (by omega) (by omega))
      · simp only [hc, if_false]
        obtain ⟨r1, r2, r3, r4⟩ := ih ((lower + upper) / 2 + 1) upper (by omega) hul (by omega)
        refine ⟨by omega, r2, ?_, r4⟩
        intro i hi1 hi2
        by_cases him : i ≤ (lower + upper) / 2
        · exact le_trans (hs i _ him (by omega)) (not_lt.mp hc)
        · exact r3 i (by omega) hi2
    · simp only [hlt, if_false]
      refine ⟨hlu, le_refl _, ?_, ?_⟩ <;> intro i h1 h2 <;> omega

theorem floor_eq (x : Rat) : x.floor = ⌊x⌋ := rfl

/-- `r - ⌊r/L⌋·L` lies in `[0, L)` -/
theorem sub_floor_mul_bound (r L : Rat) (hL : 0 < L) : 0 ≤ r - ((r / L).floor : Rat) * L ∧ r - ((r / L).floor : Rat) * L < L := by
  rw [floor_eq]
  have h1 := Int.floor_le (r / L)
  have h2 := Int.lt_floor_add_one (r / L)
  have e : r = (r / L) * L := by field_simp
  constructor
  · have : ((⌊r / L⌋ : Int) : Rat) * L ≤ (r / L) * L := mul_le_mul_of_nonneg_right h1 (le_of_lt hL)
    linarith
  · have : (r / L) * L < (((⌊r / L⌋ : Int) : Rat) + 1) * L := mul_lt_mul_of_pos_right h2 hL
    linarith

theorem xRanges_s0 (xs : List Rat) (minx maxx L : Rat) (np : Bool) : (xRanges xs minx maxx L np).s0 = lowerBound xs minx 0 xs.length := by
  unfold xRanges; simp only []; split <;> [split <;> [rfl; (split <;> rfl)]; rfl]

theorem xRanges_e0 (xs : List Rat) (minx maxx L : Rat) (np : Bool) :
    (xRanges xs minx maxx L np).e0 = upperBound xs maxx (lowerBound xs minx 0 xs.length) xs.length := by
  unfold xRanges; simp only []; split <;> [split <;> [rfl; (split <;> rfl)]; rfl]

end MdVerif.Vox
