/- helper lemmas for the .dcd byte-level model (Model/Dcd.lean); property theorems are in Properties/C01.lean and C19.lean -/
import MdVerif.Model.Dcd
namespace MdVerif.Dcd


theorem toWords_bytesOfWords (ws : List Nat) (h : ∀ w ∈ ws, w < 4294967296) : toWords (bytesOfWords ws) = some ws := by
  induction ws with
  | nil => rfl
  | cons w ws ih =>
    have hw : w < 4294967296 := h w (by simp)
    have ih' := ih (fun x hx => h x (by simp [hx]))
    simp only [bytesOfWords, List.flatMap_cons, le32, List.cons_append, List.nil_append, toWords] at ih' ⊢
    rw [ih']
    simp only [Option.map_some, Option.some.injEq, List.cons.injEq, and_true]
    omega

theorem parseHeader_render (h : Header) (hw : h.WF) (rest : List Nat) :
    parseHeader (renderHeader h ++ rest) = some (h, rest) := by
  obtain ⟨_, _, _, _, _, ht, _, _⟩ := hw
  have hlen : 43 ≤ (h.title ++ (164 :: 4 :: h.natoms :: 4 :: rest)).length := by simp [ht]; omega
  have hdrop : (h.title ++ (164 :: 4 :: h.natoms :: 4 :: rest)).drop 40 = 164 :: 4 :: h.natoms :: 4 :: rest := by
    rw [← ht]; exact List.drop_left
  have htake : (h.title ++ (164 :: 4 :: h.natoms :: 4 :: rest)).take 40 = h.title := by
    rw [← ht]; exact List.take_left
  cases hc : h.hasCell <;>
    simp [renderHeader, parseHeader, hc, hlen, hdrop, htake, cordWord] <;>
    (cases h; simp_all)

theorem parseBlock_render (n : Nat) (xs rest : List Nat) (hx : xs.length = n) :
    parseBlock n ([4 * xs.length] ++ xs ++ [4 * xs.length] ++ rest) = some (xs, rest) := by
  subst hx
  simp only [List.cons_append, List.nil_append, List.append_assoc, parseBlock]
  have h1 : xs.length + 1 ≤ (xs ++ (4 * xs.length :: rest)).length := by simp
  have h2 : ((xs ++ (4 * xs.length :: rest)).drop xs.length).head? = some (4 * xs.length) := by simp
  have h3 : (xs ++ (4 * xs.length :: rest)).take xs.length = xs := List.take_left
  have h4 : (xs ++ (4 * xs.length :: rest)).drop (xs.length + 1) = rest := by
    rw [← List.drop_drop]; simp
  simp [h1, h2, h3, h4]


theorem parseFrame_render (hasCell : Bool) (n : Nat) (f : Frame) (hf : f.WF hasCell n) (rest : List Nat) :
    parseFrame hasCell n (renderFrame f ++ rest) = some (f, rest) := by
  obtain ⟨hc, hx, hy, hz, _, _, _, _⟩ := hf
  have bz := parseBlock_render n f.z rest hz
  have by' := parseBlock_render n f.y ([4 * f.z.length] ++ f.z ++ [4 * f.z.length] ++ rest) hy
  have bx := parseBlock_render n f.x ([4 * f.y.length] ++ f.y ++ [4 * f.y.length] ++ ([4 * f.z.length] ++ f.z ++ [4 * f.z.length] ++ rest)) hx
  cases hasCell with
  | false =>
    have hce : f.cell = [] := List.eq_nil_of_length_eq_zero (by simpa using hc)
    simp only [renderFrame, hce, List.isEmpty_nil, if_true, List.nil_append, parseFrame, Bool.false_eq_true, if_false]
    simp only [List.append_assoc] at bx by' bz ⊢
    simp only [bx, by', bz, Option.bind_eq_bind, Option.bind_some, Option.pure_def]
    cases f; simp_all
  | true =>
    have hlen : f.cell.length = 12 := by simpa using hc
    have hne : f.cell.isEmpty = false := by
      cases hcl : f.cell with
      | nil => rw [hcl] at hlen; simp at hlen
      | cons a l => rfl
    simp only [renderFrame, hne, Bool.false_eq_true, if_false, parseFrame, if_true, List.cons_append, List.nil_append, List.append_assoc]
    have h1 : 13 ≤ (f.cell ++ (48 :: (4 * f.x.length :: (f.x ++ (4 * f.x.length :: 4 * f.y.length :: (f.y ++ (4 * f.y.length :: 4 * f.z.length :: (f.z ++ (4 * f.z.length :: rest))))))))).length := by
      simp [hlen]; omega
    have h2 : ∀ tail : List Nat, ((f.cell ++ (48 :: tail)).drop 12).head? = some 48 := by
      intro tail; rw [← hlen]; simp
    have h3 : ∀ tail : List Nat, (f.cell ++ (48 :: tail)).take 12 = f.cell := by
      intro tail; rw [← hlen]; exact List.take_left
    have h4 : ∀ tail : List Nat, (f.cell ++ (48 :: tail)).drop 13 = tail := by
      intro tail
      have : (f.cell ++ (48 :: tail)).drop (f.cell.length + 1) = tail := by rw [← List.drop_drop]; simp
      rwa [hlen] at this
    simp only [List.append_assoc, List.cons_append, List.nil_append] at bx by' bz
    simp only [h1, h2, h3, h4, and_self, if_true, Option.bind_eq_bind, Option.bind_some, bx, by', bz, Option.pure_def]

theorem renderFrame_ne_nil (f : Frame) : renderFrame f ≠ [] := by
  intro h
  have : (renderFrame f).length = 0 := by rw [h]; rfl
  simp [renderFrame] at this

theorem parseFrames_render (hasCell : Bool) (n : Nat) (fs : List Frame) (h : ∀ f ∈ fs, f.WF hasCell n) (fuel : Nat) (hfuel : fs.length < fuel) :
    parseFrames hasCell n fuel (fs.flatMap renderFrame) = some fs := by
  induction fs generalizing fuel with
  | nil => cases fuel <;> rfl
  | cons f fs ih =>
    cases fuel with
    | zero => simp at hfuel
    | succ fuel =>
      simp only [List.flatMap_cons]
      obtain ⟨a, l, hl⟩ : ∃ a l, renderFrame f ++ fs.flatMap renderFrame = a :: l := by
        cases hr : renderFrame f with
        | nil => exact absurd hr (renderFrame_ne_nil f)
        | cons a l => exact ⟨a, l ++ fs.flatMap renderFrame, rfl⟩
      rw [hl]
      simp only [parseFrames]
      rw [← hl, parseFrame_render hasCell n f (h f (by simp))]
      simp only [ih (fun x hx => h x (by simp [hx])) fuel (by simpa using hfuel), Option.map_some]


theorem renderHeader_bound (h : Header) (hw : h.WF) : ∀ w ∈ renderHeader h, w < 4294967296 := by
  obtain ⟨h1, h2, h3, h4, h5, _, h7, h8⟩ := hw
  intro w hm
  simp only [renderHeader, List.mem_append] at hm
  rcases hm with (((hA | hB) | hT) | hC) | hD
  · simp only [cordWord, List.mem_cons, List.mem_nil_iff, or_false] at hA
    rcases hA with rfl | rfl | rfl | rfl | rfl | rfl | rfl | rfl | rfl | rfl | rfl | rfl | rfl | rfl | rfl | rfl | rfl | rfl | rfl | rfl | rfl | rfl | rfl
    all_goals first | omega | (split <;> omega)
  · simp only [List.mem_cons, List.mem_nil_iff, or_false] at hB
    rcases hB with rfl | rfl <;> omega
  · exact h7 _ hT
  · simp only [List.mem_singleton] at hC; omega
  · simp only [List.mem_cons, List.mem_nil_iff, or_false] at hD
    rcases hD with rfl | rfl | rfl <;> omega

theorem renderFrame_bound (hasCell : Bool) (n : Nat) (f : Frame) (hf : f.WF hasCell n) (hn : 4 * n < 4294967296) :
    ∀ w ∈ renderFrame f, w < 4294967296 := by
  obtain ⟨_, hx, hy, hz, c1, c2, c3, c4⟩ := hf
  intro w hm
  simp only [renderFrame, List.mem_append, List.mem_singleton] at hm
  rcases hm with ((((((((hC | h1) | hX) | h2) | h3) | hY) | h4) | h5) | hZ) | h6
  · split at hC
    · simp at hC
    · simp only [List.mem_append, List.mem_singleton] at hC
      rcases hC with (rfl | hC) | rfl
      · omega
      · exact c1 _ hC
      · omega
  all_goals first | omega | exact c2 _ hX | exact c3 _ hY | exact c4 _ hZ

theorem flatMap_frames_length (fs : List Frame) : fs.length ≤ (fs.flatMap renderFrame).length := by
  induction fs with
  | nil => simp
  | cons f fs ih =>
    have : 0 < (renderFrame f).length := by
      cases hr : renderFrame f with
      | nil => exact absurd hr (renderFrame_ne_nil f)
      | cons a l => simp
    simp only [List.flatMap_cons, List.length_append, List.length_cons]
    omega

end MdVerif.Dcd
