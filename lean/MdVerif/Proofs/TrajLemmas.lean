import MdVerif.Model.Traj
/-! Helper lemmas for the trajectory-container model (C03, C17). -/
namespace MdVerif.TrajModel

variable {F T : Type}

theorem gather_map (g : α → β) (l : List α) (ps : List Nat) :
    gather (l.map g) ps = (gather l ps).map g := by
  induction ps with
  | nil => rfl
  | cons p ps ih =>
    simp only [gather, List.getElem?_map]
    cases h : l[p]? <;> simp [ih]

theorem mem_gather {l : List α} {ps : List Nat} {x : α} (h : x ∈ gather l ps) : x ∈ l := by
  induction ps with
  | nil => simp [gather] at h
  | cons p ps ih =>
    simp only [gather] at h
    cases hp : l[p]? with
    | none => rw [hp] at h; exact ih h
    | some y =>
      rw [hp] at h
      rcases List.mem_cons.mp h with rfl | h'
      · exact List.mem_of_getElem? hp
      · exact ih h'

theorem gather_length_eq {l1 : List α} {l2 : List β} (h : l1.length = l2.length) (ps : List Nat) :
    (gather l1 ps).length = (gather l2 ps).length := by
  induction ps with
  | nil => rfl
  | cons p ps ih =>
    simp only [gather]
    by_cases hp : p < l1.length
    · have hp2 : p < l2.length := h ▸ hp
      simp [List.getElem?_eq_getElem hp, List.getElem?_eq_getElem hp2, ih]
    · have hp2 : ¬ p < l2.length := h ▸ hp
      simp [List.getElem?_eq_none (Nat.le_of_not_lt hp), List.getElem?_eq_none (Nat.le_of_not_lt hp2), ih]

theorem gather_length_of_bounds {l : List α} {ps : List Nat} (hb : ∀ p ∈ ps, p < l.length) :
    (gather l ps).length = ps.length := by
  induction ps with
  | nil => rfl
  | cons p ps ih =>
    have hp : p < l.length := hb p (by simp)
    simp [gather, List.getElem?_eq_getElem hp, ih (fun x hx => hb x (by simp [hx]))]

theorem gather_append_left {h fs : List α} {rows : List Nat} (hb : ∀ a ∈ rows, a < h.length) :
    gather (h ++ fs) rows = gather h rows := by
  induction rows with
  | nil => rfl
  | cons a r ih =>
    have ha : a < h.length := hb a (by simp)
    simp only [gather, List.getElem?_append_left ha, ih (fun x hx => hb x (by simp [hx]))]

theorem gather_shift (h fs : List α) (ps : List Nat) :
    gather (h ++ fs) (ps.map (· + h.length)) = gather fs ps := by
  induction ps with
  | nil => rfl
  | cons p ps ih =>
    simp only [List.map_cons, gather, ih]
    rw [List.getElem?_append_right (by omega)]
    simp

theorem gather_range (l : List α) : gather l (List.range l.length) = l := by
  induction l with
  | nil => rfl
  | cons x xs ih =>
    rw [List.length_cons, List.range_succ_eq_map]
    simp only [gather, List.getElem?_cons_zero]
    have := gather_shift [x] xs (List.range xs.length)
    simp only [List.singleton_append, List.length_singleton] at this
    have e : (fun x => x + 1) = Nat.succ := rfl
    rw [e] at this
    rw [this, ih]

theorem gather_alloc (h fs : List α) :
    gather (h ++ fs) ((List.range fs.length).map (· + h.length)) = fs := by
  rw [gather_shift, gather_range]


theorem mapAt_cons (g : F → F) (h : List F) (r : Nat) (rows : List Nat) :
    mapAt g h (r :: rows) = mapAt g (match h[r]? with | some f => h.set r (g f) | none => h) rows := rfl

theorem mapAt_length (g : F → F) (h : List F) (rows : List Nat) : (mapAt g h rows).length = h.length := by
  induction rows generalizing h with
  | nil => rfl
  | cons r rows ih =>
    rw [mapAt_cons, ih]
    cases h[r]? <;> simp

theorem mapAt_getElem? (g : F → F) (hg : ∀ f, g (g f) = g f) (h : List F) (rows : List Nat) (a : Nat) :
    (mapAt g h rows)[a]? = if a ∈ rows then h[a]?.map g else h[a]? := by
  induction rows generalizing h with
  | nil => simp [mapAt]
  | cons r rows ih =>
    rw [mapAt_cons, ih]
    cases hr : h[r]? with
    | none =>
      by_cases har : a = r
      · subst har; simp [hr]
      · simp [har]
    | some f =>
      have hlt : r < h.length := by
        rcases Nat.lt_or_ge r h.length with hl | hl
        · exact hl
        · rw [List.getElem?_eq_none hl] at hr; cases hr
      by_cases har : a = r
      · subst har
        simp [List.getElem?_set_self hlt, hr, hg]
      · have : (h.set r (g f))[a]? = h[a]? := List.getElem?_set_ne (Ne.symm har)
        simp [this, har]

theorem gather_mapAt_self (g : F → F) (hg : ∀ f, g (g f) = g f) (h : List F) (rows sub : List Nat)
    (hs : ∀ a ∈ sub, a ∈ rows) : gather (mapAt g h rows) sub = (gather h sub).map g := by
  induction sub with
  | nil => rfl
  | cons a sub ih =>
    have ha := hs a (by simp)
    simp only [gather, mapAt_getElem? g hg, ha, if_true, ih (fun x hx => hs x (by simp [hx]))]
    cases h[a]? <;> simp

theorem gather_mapAt_fixed (g : F → F) (hg : ∀ f, g (g f) = g f) (h : List F) (rows rows' : List Nat)
    (hfix : ∀ f ∈ gather h rows', g f = f) : gather (mapAt g h rows) rows' = gather h rows' := by
  induction rows' with
  | nil => rfl
  | cons a r ih =>
    simp only [gather, mapAt_getElem? g hg] at hfix ⊢
    cases ha : h[a]? with
    | none =>
      simp only [ha] at hfix
      simp [ih hfix]
    | some f =>
      simp only [ha] at hfix
      have hf : g f = f := hfix f (by simp)
      have := ih (fun x hx => hfix x (by simp [hx]))
      by_cases hm : a ∈ rows <;> simp [hm, hf, this]

end MdVerif.TrajModel
