import MdVerif.Model.TextFmt
import MdVerif.Proofs.MicLemmas
import Mathlib.Tactic.Ring
import Mathlib.Tactic.Linarith
import Mathlib.Tactic.FieldSimp
import Mathlib.Tactic.Positivity
import Mathlib.Tactic.NormNum
/-! Helper lemmas for the digit-level text-field model (C01). -/
namespace MdVerif.Txt
open MdVerif.Mic MdVerif.Fmt

theorem digitChar_props : ∀ d, d < 10 →
    isDigit (digitChar d) = true ∧ digitVal (digitChar d) = d ∧ isBlank (digitChar d) = false ∧
      digitChar d ≠ '-' ∧ digitChar d ≠ '.' := by decide

theorem ofDigits_append_single (l : List Nat) (d : Nat) : ofDigits (l ++ [d]) = 10 * ofDigits l + d := by
  simp [ofDigits, List.foldl_append]

theorem natDigits_lt (n : Nat) : ∀ d ∈ natDigits n, d < 10 := by
  fun_induction natDigits n with
  | case1 n h => intro d hd; simp at hd; omega
  | case2 n h ih =>
    intro d hd
    rcases List.mem_append.mp hd with h1 | h1
    · exact ih d h1
    · simp at h1; omega

theorem natDigits_ne_nil (n : Nat) : natDigits n ≠ [] := by
  fun_induction natDigits n with
  | case1 n h => simp
  | case2 n h ih => simp

theorem ofDigits_natDigits (n : Nat) : ofDigits (natDigits n) = n := by
  fun_induction natDigits n with
  | case1 n h => simp [ofDigits]
  | case2 n h ih => rw [ofDigits_append_single, ih]; omega

/-- a number has at most `k` digits iff it is below `10ᵏ` (k ≥ 1) -/
theorem natDigits_length_le (n k : Nat) (hk : 1 ≤ k) : (natDigits n).length ≤ k ↔ n < 10 ^ k := by
  fun_induction natDigits n generalizing k with
  | case1 n h =>
    simp only [List.length_singleton]
    constructor
    · intro _
      calc n < 10 := h
        _ = 10 ^ 1 := by norm_num
        _ ≤ 10 ^ k := Nat.pow_le_pow_right (by norm_num) hk
    · intro _; exact hk
  | case2 n h ih =>
    simp only [List.length_append, List.length_singleton]
    rcases Nat.lt_or_ge k 2 with hk2 | hk2
    · have hk1 : k = 1 := by omega
      subst hk1
      have := List.length_pos_iff.mpr (natDigits_ne_nil (n / 10))
      constructor
      · intro h'; omega
      · intro h'; norm_num at h'; omega
    · have e : k = (k - 1) + 1 := by omega
      have ih' := ih (k - 1) (by omega)
      constructor
      · intro h'
        have : n / 10 < 10 ^ (k - 1) := ih'.mp (by omega)
        rw [e, Nat.pow_succ]; omega
      · intro h'
        rw [e, Nat.pow_succ] at h'
        have : n / 10 < 10 ^ (k - 1) := by omega
        have := ih'.mpr this
        omega

theorem fracDigits_length (p n : Nat) : (fracDigits p n).length = p := by
  induction p generalizing n with
  | zero => simp [fracDigits]
  | succ p ih => simp [fracDigits, ih]

theorem fracDigits_lt (p n : Nat) : ∀ d ∈ fracDigits p n, d < 10 := by
  induction p generalizing n with
  | zero => simp [fracDigits]
  | succ p ih =>
    intro d hd
    simp only [fracDigits] at hd
    rcases List.mem_append.mp hd with h1 | h1
    · exact ih _ d h1
    · simp at h1; omega

theorem ofDigits_fracDigits (p n : Nat) : ofDigits (fracDigits p n) = n % 10 ^ p := by
  induction p generalizing n with
  | zero => simp [fracDigits, ofDigits, Nat.mod_one]
  | succ p ih =>
    simp only [fracDigits]
    rw [ofDigits_append_single, ih, Nat.pow_succ, Nat.mul_comm (10 ^ p) 10, Nat.mod_mul]
    omega

/-! ### scanning -/

theorem takeWhile_append_stop {α : Type} (p : α → Bool) (l : List α) (c : α) (r : List α)
    (hl : ∀ x ∈ l, p x = true) (hc : p c = false) :
    (l ++ c :: r).takeWhile p = l ∧ (l ++ c :: r).dropWhile p = c :: r := by
  induction l with
  | nil => simp [List.takeWhile, List.dropWhile, hc]
  | cons a l ih =>
    have ha : p a = true := hl a (by simp)
    have := ih (fun x hx => hl x (by simp [hx]))
    simp [List.takeWhile, List.dropWhile, ha, this.1, this.2]

theorem takeWhile_all {α : Type} (p : α → Bool) (l : List α) (hl : ∀ x ∈ l, p x = true) :
    l.takeWhile p = l ∧ l.dropWhile p = [] := by
  induction l with
  | nil => simp
  | cons a l ih =>
    have ha : p a = true := hl a (by simp)
    have := ih (fun x hx => hl x (by simp [hx]))
    simp [List.takeWhile, List.dropWhile, ha, this.1, this.2]

theorem dropWhile_replicate_blank (k : Nat) (s : List Char) (hs : ∀ c, s.head? = some c → isBlank c = false) :
    (List.replicate k ' ' ++ s).dropWhile isBlank = s := by
  induction k with
  | zero =>
    cases s with
    | nil => simp
    | cons c s => have := hs c (by simp); simp [List.dropWhile, this]
  | succ k ih => simp [List.replicate_succ, List.dropWhile, isBlank, ih] at *

theorem map_digitChar_isDigit (ds : List Nat) (h : ∀ d ∈ ds, d < 10) : ∀ c ∈ ds.map digitChar, isDigit c = true := by
  intro c hc
  rcases List.mem_map.mp hc with ⟨d, hd, rfl⟩
  exact (digitChar_props d (h d hd)).1

theorem digitsVal_map_digitChar (ds : List Nat) (h : ∀ d ∈ ds, d < 10) : digitsVal (ds.map digitChar) = ofDigits ds := by
  unfold digitsVal
  congr 1
  rw [List.map_map]
  calc ds.map (digitVal ∘ digitChar) = ds.map id := by
        apply List.map_congr_left
        intro d hd
        exact (digitChar_props d (h d hd)).2.1
    _ = ds := by simp

/-- scanning an unsigned `iii.fff` literal -/
theorem parseUnsigned_digits (ip fp : List Nat) (hi : ∀ d ∈ ip, d < 10) (hf : ∀ d ∈ fp, d < 10) (hne : ip ≠ []) :
    parseUnsigned (ip.map digitChar ++ '.' :: fp.map digitChar) =
      some ((ofDigits ip : Rat) + (ofDigits fp : Rat) / pow10 fp.length) := by
  have h1 := takeWhile_append_stop isDigit (ip.map digitChar) '.' (fp.map digitChar) (map_digitChar_isDigit ip hi) (by decide)
  have h2 := takeWhile_all isDigit (fp.map digitChar) (map_digitChar_isDigit fp hf)
  unfold parseUnsigned
  simp only [h1.1, h1.2, h2.1, h2.2]
  have hne' : (ip.map digitChar).isEmpty = false := by
    cases ip with
    | nil => exact absurd rfl hne
    | cons a l => simp
  simp [hne', digitsVal_map_digitChar ip hi, digitsVal_map_digitChar fp hf]

/-! ### the printed value -/

theorem scaled_sign (p : Nat) (x : Rat) : (x < 0 → scaled p x ≤ 0) ∧ (0 ≤ x → 0 ≤ scaled p x) := by
  have hp : 0 < pow10 p := by unfold pow10; positivity
  have h := roundHE_nearest (x * pow10 p)
  rw [abs_le] at h
  unfold scaled
  constructor
  · intro hx
    by_contra hc
    have : (1 : Int) ≤ roundHE (x * pow10 p) := by omega
    have h1 : (1 : Rat) ≤ (roundHE (x * pow10 p) : Rat) := by exact_mod_cast this
    have : x * pow10 p < 0 := mul_neg_of_neg_of_pos hx hp
    linarith [h.1]
  · intro hx
    by_contra hc
    have : roundHE (x * pow10 p) ≤ (-1 : Int) := by omega
    have h1 : (roundHE (x * pow10 p) : Rat) ≤ (-1 : Rat) := by exact_mod_cast this
    have : 0 ≤ x * pow10 p := mul_nonneg hx (le_of_lt hp)
    linarith [h.2]

theorem natdiv_add_mod_cast (m q : Nat) (hq : 0 < q) : ((m / q : Nat) : Rat) + ((m % q : Nat) : Rat) / (q : Rat) = (m : Rat) / (q : Rat) := by
  have hq' : (q : Rat) ≠ 0 := by exact_mod_cast (Nat.pos_iff_ne_zero.mp hq)
  have h := Nat.div_add_mod m q
  have h' : (q : Rat) * ((m / q : Nat) : Rat) + ((m % q : Nat) : Rat) = (m : Rat) := by exact_mod_cast h
  field_simp
  linarith


/-! ### fields, lines, tokens -/

theorem fixedBody_head (p : Nat) (x : Rat) : ∀ c, (fixedBody p x).head? = some c → isBlank c = false := by
  intro c hc
  unfold fixedBody at hc
  by_cases hx : x < 0
  · simp [hx] at hc; subst hc; decide
  · simp only [hx, if_false, List.nil_append] at hc
    have hne := natDigits_ne_nil ((scaled p x).natAbs / 10 ^ p)
    cases hd : natDigits ((scaled p x).natAbs / 10 ^ p) with
    | nil => exact absurd hd hne
    | cons a l =>
      rw [hd] at hc
      simp at hc
      have ha : a < 10 := natDigits_lt _ a (by rw [hd]; simp)
      subst hc
      exact (digitChar_props a ha).2.2.1

theorem fixedBody_length (p : Nat) (x : Rat) :
    (fixedBody p x).length = (if x < 0 then 1 else 0) + (natDigits ((scaled p x).natAbs / 10 ^ p)).length + 1 + p := by
  unfold fixedBody
  by_cases hx : x < 0 <;> simp [hx, fracDigits_length] <;> omega

theorem fits_length (w p : Nat) (x : Rat) (h : Fits w p x) : (fmtFixed w p x).length = w := by
  unfold fmtFixed padLeft; unfold Fits at h
  simp only [List.length_append, List.length_replicate]; omega

theorem chunks_append (w : Nat) (a rest : List Char) (ha : a.length = w) (hw : 0 < w) :
    chunks w (a ++ rest) = a :: chunks w rest := by
  rw [chunks]
  have hne : a ≠ [] := by intro e; subst e; simp at ha; omega
  have : ¬ ((a ++ rest = []) ∨ w = 0) := by
    intro h; rcases h with h | h
    · exact hne (List.append_eq_nil_iff.mp h).1
    · omega
  simp only [this, dif_neg, not_false_eq_true]
  rw [List.take_left' ha, List.drop_left' ha]

theorem chunks_nil (w : Nat) : chunks w [] = [] := by rw [chunks]; simp

theorem groupsOf_flatten {α : Type} (k : Nat) (hk : 0 < k) (l : List α) : (groupsOf k l).flatten = l := by
  fun_induction groupsOf k l with
  | case1 l h => rcases h with h | h; · simp [h]
                 · omega
  | case2 l h ih => simp [ih]

theorem groupsOf_mem {α : Type} (k : Nat) (l : List α) : ∀ g ∈ groupsOf k l, (∀ x ∈ g, x ∈ l) ∧ g.length ≤ k ∧ g ≠ [] := by
  fun_induction groupsOf k l with
  | case1 l h => simp
  | case2 l h ih =>
    intro g hg
    rcases List.mem_cons.mp hg with h1 | h1
    · subst h1
      refine ⟨fun x hx => List.mem_of_mem_take hx, by simp, ?_⟩
      intro e
      have h1 : l ≠ [] := fun e => h (Or.inl e)
      have h2 : k ≠ 0 := fun e => h (Or.inr e)
      rcases List.take_eq_nil_iff.mp e with e | e
      · exact h2 e
      · exact h1 e
    · have := ih g h1
      exact ⟨fun x hx => List.mem_of_mem_drop (this.1 x hx), this.2⟩

theorem splitWsAux_token (tok rest cur : List Char) (ht : ∀ c ∈ tok, isBlank c = false) :
    splitWsAux (tok ++ rest) cur = splitWsAux rest (tok.reverse ++ cur) := by
  induction tok generalizing cur with
  | nil => simp
  | cons a tok ih =>
    have ha : isBlank a = false := ht a (by simp)
    have := ih (a :: cur) (fun c hc => ht c (by simp [hc]))
    simp only [List.cons_append, splitWsAux, ha, List.reverse_cons, List.append_assoc, List.singleton_append]
    simpa using this

theorem splitWsAux_blanks (k : Nat) (rest : List Char) : splitWsAux (List.replicate k ' ' ++ rest) [] = splitWsAux rest [] := by
  induction k with
  | zero => simp
  | succ k ih => simp [List.replicate_succ, splitWsAux, isBlank, ih]

/-- one step of `str.split()`: blanks, a blank-free token, then the end or another blank -/
theorem splitWs_step (k : Nat) (tok rest : List Char) (ht : ∀ c ∈ tok, isBlank c = false) (hne : tok ≠ [])
    (hr : rest = [] ∨ ∃ r, rest = ' ' :: r) :
    splitWsAux (List.replicate k ' ' ++ (tok ++ rest)) [] = tok :: splitWsAux rest [] := by
  rw [splitWsAux_blanks, splitWsAux_token _ _ _ ht]
  have hne' : (tok.reverse ++ []).isEmpty = false := by
    cases tok with
    | nil => exact absurd rfl hne
    | cons a l => simp
  rcases hr with hr | ⟨r, hr⟩
  · subst hr; simp only [splitWsAux, hne']; simp
  · subst hr
    simp only [splitWsAux, hne']
    simp [isBlank]

theorem fixedBody_noblank (p : Nat) (x : Rat) : ∀ c ∈ fixedBody p x, isBlank c = false := by
  intro c hc
  unfold fixedBody at hc
  simp only [List.mem_append, List.mem_cons, List.mem_map] at hc
  rcases hc with (hc | ⟨d, hd, rfl⟩) | hc | ⟨d, hd, rfl⟩
  · by_cases hx : x < 0 <;> simp [hx] at hc; subst hc; decide
  · exact (digitChar_props d (natDigits_lt _ d hd)).2.2.1
  · subst hc; decide
  · exact (digitChar_props d (fracDigits_lt _ _ d hd)).2.2.1

theorem fixedBody_ne_nil (p : Nat) (x : Rat) : fixedBody p x ≠ [] := by
  unfold fixedBody; simp

theorem splitWs_renderSpaced (w p : Nat) (xs : List Rat) : splitWs (renderSpaced w p xs) = xs.map (fixedBody p) := by
  unfold splitWs renderSpaced
  induction xs with
  | nil => simp [splitWsAux]
  | cons x xs ih =>
    simp only [List.map_cons, List.flatten_cons]
    have hr : ((xs.map (fun x => ' ' :: fmtFixed w p x)).flatten = []) ∨ ∃ r, (xs.map (fun x => ' ' :: fmtFixed w p x)).flatten = ' ' :: r := by
      cases xs with
      | nil => left; simp
      | cons y ys => right; simp
    have e : (' ' :: fmtFixed w p x) ++ (xs.map (fun x => ' ' :: fmtFixed w p x)).flatten
        = List.replicate (w - (fixedBody p x).length + 1) ' ' ++ (fixedBody p x ++ (xs.map (fun x => ' ' :: fmtFixed w p x)).flatten) := by
      simp [fmtFixed, padLeft, List.replicate_succ]
    rw [e, splitWs_step _ _ _ (fixedBody_noblank p x) (fixedBody_ne_nil p x) hr, ih]

theorem fmtFixed_zero (p : Nat) (x : Rat) : fmtFixed 0 p x = fixedBody p x := by simp [fmtFixed, padLeft]

end MdVerif.Txt
