/- character-class lemmas for the selection scanner (Model/SelScan.lean); property theorems are in Properties/C12.lean -/
import MdVerif.Model.SelScan
namespace MdVerif.Sel


theorem digit_not_special (c : Char) (h : isDigitC c = true) :
    isBlankC c = false ∧ (c == '(') = false ∧ (c == ')') = false ∧ (c == '\'' || c == '"') = false ∧ isSymC c = false ∧ isWordC c = true := by
  have h1 : '0' ≤ c ∧ c ≤ '9' := by simpa [isDigitC] using h
  have hv : 48 ≤ c.val.toNat ∧ c.val.toNat ≤ 57 := by
    obtain ⟨a, b⟩ := h1
    have a' := UInt32.le_iff_toNat_le.mp (Char.le_def.mp a)
    have b' := UInt32.le_iff_toNat_le.mp (Char.le_def.mp b)
    exact ⟨by simpa using a', by simpa using b'⟩
  have ne : ∀ d : Char, (d.val.toNat < 48 ∨ 57 < d.val.toNat) → (c == d) = false := by
    intro d hd
    simp only [beq_eq_false_iff_ne, ne_eq]
    rintro rfl
    omega
  refine ⟨?_, ne _ (by decide), ne _ (by decide), ?_, ?_, ?_⟩
  · simp [isBlankC, ne ' ' (by decide), ne '\t' (by decide), ne '\n' (by decide), ne '\r' (by decide)]
  · simp [ne '\'' (by decide), ne '"' (by decide)]
  · simp [isSymC, ne '<' (by decide), ne '>' (by decide), ne '=' (by decide), ne '!' (by decide), ne '&' (by decide), ne '|' (by decide), ne '~' (by decide)]
  · simp [isWordC, isAlnumC, h]


theorem digit_val (c : Char) (h : isDigitC c = true) : 48 ≤ c.val.toNat ∧ c.val.toNat ≤ 57 := by
  have h1 : '0' ≤ c ∧ c ≤ '9' := by simpa [isDigitC] using h
  obtain ⟨a, b⟩ := h1
  have a' := UInt32.le_iff_toNat_le.mp (Char.le_def.mp a)
  have b' := UInt32.le_iff_toNat_le.mp (Char.le_def.mp b)
  exact ⟨by simpa using a', by simpa using b'⟩

theorem alpha_val (c : Char) (h : isAlphaC c = true) : (97 ≤ c.val.toNat ∧ c.val.toNat ≤ 122) ∨ (65 ≤ c.val.toNat ∧ c.val.toNat ≤ 90) := by
  have h1 : ('a' ≤ c ∧ c ≤ 'z') ∨ ('A' ≤ c ∧ c ≤ 'Z') := by simpa [isAlphaC] using h
  rcases h1 with ⟨a, b⟩ | ⟨a, b⟩
  · left
    have a' := UInt32.le_iff_toNat_le.mp (Char.le_def.mp a)
    have b' := UInt32.le_iff_toNat_le.mp (Char.le_def.mp b)
    exact ⟨by simpa using a', by simpa using b'⟩
  · right
    have a' := UInt32.le_iff_toNat_le.mp (Char.le_def.mp a)
    have b' := UInt32.le_iff_toNat_le.mp (Char.le_def.mp b)
    exact ⟨by simpa using a', by simpa using b'⟩

theorem alpha_not_digit (c : Char) (h : isAlphaC c = true) : isDigitC c = false := by
  cases hd : isDigitC c with
  | false => rfl
  | true => have := digit_val c hd; have := alpha_val c h; omega

theorem alnum_ne (c d : Char) (h : isAlnumC c = true) (hd : d.val.toNat < 48 ∨ (57 < d.val.toNat ∧ d.val.toNat < 65) ∨ (90 < d.val.toNat ∧ d.val.toNat < 97) ∨ 122 < d.val.toNat) :
    (c == d) = false := by
  simp only [beq_eq_false_iff_ne, ne_eq]
  rintro rfl
  have : isAlphaC c = true ∨ isDigitC c = true := by simpa [isAlnumC] using h
  rcases this with h | h
  · have := alpha_val c h; omega
  · have := digit_val c h; omega

theorem alpha_not_nums (c : Char) (h : isAlphaC c = true) : isNumsC c = false := by
  simp [isNumsC, alpha_not_digit c h, alnum_ne c '.' (by simp [isAlnumC, h]) (by decide)]

theorem all_word_of_alnum (l : List Char) (h : l.all isAlnumC = true) : l.all isWordC = true := by
  simp only [List.all_eq_true] at *
  intro x hx; simp [isWordC, h x hx]

theorem takeWhile_all {α : Type} (p : α → Bool) (l : List α) (h : l.all p = true) : l.takeWhile p = l ∧ l.dropWhile p = [] := by
  induction l with
  | nil => simp
  | cons a as ih =>
    simp only [List.all_cons, Bool.and_eq_true] at h
    simp [List.takeWhile, List.dropWhile, h.1, ih h.2]

theorem mem_takeWhile_true {α : Type} (p : α → Bool) (l : List α) (x : α) (h : x ∈ l.takeWhile p) : p x = true := by
  induction l with
  | nil => simp at h
  | cons a as ih =>
    by_cases hp : p a = true
    · simp only [List.takeWhile, hp, List.mem_cons] at h
      rcases h with rfl | h
      · exact hp
      · exact ih h
    · simp [List.takeWhile, hp] at h

end MdVerif.Sel
