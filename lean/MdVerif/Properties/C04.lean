import MdVerif.Model.Topology
import MdVerif.Proofs.TopoIdxLemmas
import MdVerif.Model.TopoEdit
/-!
# C04 — topology transformations preserve atoms, residues, chains and bonds

Value model of `Topology` (Model/Topology.lean).  Proved for every topology and every kept-index set:
* `c04_subset_atoms`       the atoms of `subset t keep` are exactly the kept atoms, in order, with their data
* `c04_subset_no_empty`    no empty residue or chain survives
* `c04_subset_bonds`       bonds = those with both ends kept, re-pointed by `rank`; `c04_rank_lt` new indices are in range,
                           `c04_rank_strictMono` re-pointing is injective on kept atoms
* `c04_subset_all`         keeping everything is the identity (chain ids, residue numbers, serials, bonds)
* `c04_copy`, `c04_join_atoms`, `c04_join_bonds`, `c04_join_chain_ids`
* `c04_eq_hash`            topologies that compare equal hash equal
* `c04_isubset_atoms`, `c04_isubset_preserves`, `c04_isubset_all`, `c04_ijoin_*`, `c04_isubset_refines_atoms`
                           the same for topologies whose atom numbering does not follow the residues (Model/TopoIdx.lean):
                           kept atoms stay in index order, each in its own residue and chain
* `c04_pdb_serials_*`      ATOM numbering (1-based, one number per TER) and CONECT numbers are the ATOM serials
-/
namespace MdVerif.Topo

theorem filterAtoms_append (keep : Nat → Bool) (base : Nat) (xs ys : List Atom) :
    filterAtoms keep base (xs ++ ys) = filterAtoms keep base xs ++ filterAtoms keep (base + xs.length) ys := by
  induction xs generalizing base with
  | nil => simp [filterAtoms]
  | cons a as ih =>
    simp only [List.cons_append, filterAtoms, ih (base + 1), List.length_cons]
    have : base + 1 + as.length = base + (as.length + 1) := by omega
    split <;> simp [this]

theorem subsetResidues_atoms (keep : Nat → Bool) (base : Nat) (rs : List Residue) :
    (subsetResidues keep base rs).flatMap (·.atoms) = filterAtoms keep base (rs.flatMap (·.atoms)) := by
  induction rs generalizing base with
  | nil => simp [subsetResidues, filterAtoms]
  | cons r rs ih =>
    simp only [subsetResidues, List.flatMap_cons, filterAtoms_append]
    split
    · rename_i h
      rw [ih]; simp [List.isEmpty_iff.mp h]
    · simp [ih]

theorem chain_nAtoms_eq (c : Chain) : c.nAtoms = (c.residues.flatMap (·.atoms)).length := by
  simp only [Chain.nAtoms, List.length_flatMap]; rfl

theorem filter_const_true (l : List Nat) : l.filter (fun _ => true) = l := by
  induction l with
  | nil => rfl
  | cons x xs ih => simp [ih]

theorem range_split (i n : Nat) (h : i ≤ n) : List.range n = List.range i ++ List.range' i (n - i) := by
  have := List.range'_append_1 (s := 0) (m := i) (n := n - i)
  simp only [Nat.zero_add] at this
  rw [List.range_eq_range', List.range_eq_range', this]
  congr 1; omega

theorem subsetChains_atoms (keep : Nat → Bool) (base : Nat) (cs : List Chain) :
    (subsetChains keep base cs).flatMap (fun c => c.residues.flatMap (·.atoms))
      = filterAtoms keep base (cs.flatMap (fun c => c.residues.flatMap (·.atoms))) := by
  induction cs generalizing base with
  | nil => simp [subsetChains, filterAtoms]
  | cons c cs ih =>
    simp only [subsetChains, List.flatMap_cons, filterAtoms_append, ← chain_nAtoms_eq]
    split
    · rename_i h
      rw [ih]
      have := subsetResidues_atoms keep base c.residues
      rw [List.isEmpty_iff.mp h] at this
      simp at this
      simp [← this]
    · simp [ih, subsetResidues_atoms]

/-- **subset keeps exactly the selected atoms, in order, with name/element/serial untouched** -/
theorem c04_subset_atoms (t : Topology) (keep : Nat → Bool) :
    (subset t keep).atoms = filterAtoms keep 0 t.atoms :=
  subsetChains_atoms keep 0 t.chains

theorem subsetResidues_nonempty (keep : Nat → Bool) (base : Nat) (rs : List Residue) :
    ∀ r ∈ subsetResidues keep base rs, r.atoms ≠ [] := by
  induction rs generalizing base with
  | nil => simp [subsetResidues]
  | cons r rs ih =>
    intro x hx
    simp only [subsetResidues] at hx
    split at hx
    · exact ih _ x hx
    · rename_i h
      rcases List.mem_cons.mp hx with rfl | hx
      · simpa [List.isEmpty_iff] using h
      · exact ih _ x hx

/-- **empty residues and chains are dropped** -/
theorem c04_subset_no_empty (t : Topology) (keep : Nat → Bool) :
    ∀ c ∈ (subset t keep).chains, c.residues ≠ [] ∧ ∀ r ∈ c.residues, r.atoms ≠ [] := by
  suffices h : ∀ base cs, ∀ c ∈ subsetChains keep base cs, c.residues ≠ [] ∧ ∀ r ∈ c.residues, r.atoms ≠ [] from
    h 0 t.chains
  intro base cs
  induction cs generalizing base with
  | nil => simp [subsetChains]
  | cons c cs ih =>
    intro x hx
    simp only [subsetChains] at hx
    split at hx
    · exact ih _ x hx
    · rename_i h
      rcases List.mem_cons.mp hx with rfl | hx
      · exact ⟨by simpa [List.isEmpty_iff] using h, subsetResidues_nonempty keep base c.residues⟩
      · exact ih _ x hx

/-- **bonds**: exactly those with both ends kept, re-pointed through `rank`, type and order untouched -/
theorem c04_subset_bonds (t : Topology) (keep : Nat → Bool) :
    (subset t keep).bonds = (t.bonds.filter (fun b => keep b.i && keep b.j)).map
      (fun b => ⟨rank keep b.i, rank keep b.j, b.type, b.order⟩) := rfl

theorem filterAtoms_length (keep : Nat → Bool) (base : Nat) (as : List Atom) :
    (filterAtoms keep base as).length = ((List.range' base as.length).filter keep).length := by
  induction as generalizing base with
  | nil => simp [filterAtoms]
  | cons a as ih =>
    simp only [filterAtoms, List.length_cons, List.range'_succ, List.filter_cons]
    split <;> simp [ih]

/-- the new index of a kept atom is a valid index of the subset topology -/
theorem c04_rank_lt (t : Topology) (keep : Nat → Bool) (i : Nat) (hi : i < t.atoms.length) (hk : keep i = true) :
    rank keep i < (subset t keep).atoms.length := by
  rw [c04_subset_atoms, filterAtoms_length, ← List.range_eq_range']
  unfold rank
  have hsplit := range_split i t.atoms.length (Nat.le_of_lt hi)
  rw [hsplit, List.filter_append, List.length_append]
  have : t.atoms.length - i = (t.atoms.length - i - 1) + 1 := by omega
  rw [this, List.range'_succ, List.filter_cons, hk]
  simp

/-- re-pointing is strictly monotone on kept atoms: distinct kept atoms get distinct new indices -/
theorem c04_rank_strictMono (keep : Nat → Bool) (i j : Nat) (hij : i < j) (hk : keep i = true) :
    rank keep i < rank keep j := by
  unfold rank
  have := range_split i j (Nat.le_of_lt hij)
  rw [this, List.filter_append, List.length_append]
  have : j - i = (j - i - 1) + 1 := by omega
  rw [this, List.range'_succ, List.filter_cons, hk]
  simp

theorem filterAtoms_true (base : Nat) (as : List Atom) : filterAtoms (fun _ => true) base as = as := by
  induction as generalizing base with
  | nil => rfl
  | cons a as ih => simp [filterAtoms, ih]

theorem subsetResidues_true (base : Nat) (rs : List Residue) (h : ∀ r ∈ rs, r.atoms ≠ []) :
    subsetResidues (fun _ => true) base rs = rs := by
  induction rs generalizing base with
  | nil => rfl
  | cons r rs ih =>
    have hr : r.atoms ≠ [] := h r (by simp)
    simp only [subsetResidues, filterAtoms_true]
    have : r.atoms.isEmpty = false := by cases hra : r.atoms <;> simp_all
    simp [this, ih _ (fun x hx => h x (by simp [hx]))]

theorem rank_true (i : Nat) : rank (fun _ => true) i = i := by simp [rank, filter_const_true]

/-- **keeping every atom changes nothing** (chain ids, residue numbers, segment ids, serials, bonds), for
topologies without empty residues or chains -/
theorem c04_subset_all (t : Topology) (h : ∀ c ∈ t.chains, c.residues ≠ [] ∧ ∀ r ∈ c.residues, r.atoms ≠ []) :
    subset t (fun _ => true) = t := by
  have hc : ∀ base cs, (∀ c ∈ cs, c.residues ≠ [] ∧ ∀ r ∈ c.residues, r.atoms ≠ []) →
      subsetChains (fun _ => true) base cs = cs := by
    intro base cs
    induction cs generalizing base with
    | nil => intro _; rfl
    | cons c cs ih =>
      intro hh
      have h1 := hh c (by simp)
      simp only [subsetChains, subsetResidues_true base c.residues h1.2]
      have : c.residues.isEmpty = false := by cases hcr : c.residues <;> simp_all
      simp [this, ih _ (fun x hx => hh x (by simp [hx]))]
  cases t with
  | mk chains bonds =>
    simp only [subset, hc 0 chains h, rank_true, Bool.and_self]
    congr 1
    induction bonds with
    | nil => rfl
    | cons b bs ih => simp at ih ⊢

/-- **copy** is the identity on the value (every field, including chain ids); independence of a copy from its
source is a statement about object identity in the implementation and is settled by the correspondence run -/
theorem c04_copy (t : Topology) : copy t = t := rfl

theorem atoms_append (a b : List Chain) :
    (a ++ b).flatMap (fun c => c.residues.flatMap (·.atoms)) =
      a.flatMap (fun c => c.residues.flatMap (·.atoms)) ++ b.flatMap (fun c => c.residues.flatMap (·.atoms)) := by
  simp

/-- **join** appends: atoms of `a` then atoms of `b`, unchanged -/
theorem c04_join_atoms (a b : Topology) : (join a b true).atoms = a.atoms ++ b.atoms := by
  simp [join, Topology.atoms]

/-- bonds of `b` are shifted by the number of atoms of `a`, type and order kept -/
theorem c04_join_bonds (a b : Topology) (k : Bool) :
    (join a b k).bonds = a.bonds ++ b.bonds.map (fun x => ⟨x.i + a.nAtoms, x.j + a.nAtoms, x.type, x.order⟩) := rfl

theorem c04_join_chain_ids (a b : Topology) :
    (join a b true).chains.map (·.chainId) = a.chains.map (·.chainId) ++ b.chains.map (·.chainId) := by
  simp [join]

/-- **equal ⇒ hash-equal**: everything `__hash__` depends on is determined by what `__eq__` compares -/
theorem c04_eq_hash (a b : Topology) (h : eqKey a = eqKey b) : hashKey a = hashKey b := by
  have key : ∀ t : Topology, hashKey t =
      ((eqKey t).1.length, ((eqKey t).1.map (fun c => (c.map (fun r => r.2.length)).sum)).sum,
       (eqKey t).1.flatMap (fun c => c.map (·.1)), (eqKey t).2) := by
    intro t
    simp only [hashKey, eqKey, Topology.nAtoms, Chain.nAtoms, Residue.nAtoms, Topology.residues, List.length_map,
      List.map_map, Prod.mk.injEq, true_and]
    refine ⟨?_, ?_, trivial⟩
    · congr 1
      apply List.map_congr_left
      intro c _
      simp only [Function.comp_def, List.map_map, List.length_map]
      rfl
    · simp [List.flatMap, Function.comp_def, List.map_flatten]
  rw [key a, key b, h]

/-- PDB ATOM numbering without per-atom serials: consecutive from `next` inside a chain -/
theorem pdbSerialsRes_false (next : Nat) (as : List Atom) :
    pdbSerialsRes false next as = ((List.range' next as.length).map Int.ofNat, next + as.length) := by
  induction as generalizing next with
  | nil => simp [pdbSerialsRes]
  | cons a as ih =>
    simp only [pdbSerialsRes, ih, List.length_cons, List.range'_succ, List.map_cons]
    refine Prod.ext ?_ ?_ <;> simp <;> omega

/-- multi-chain files: atoms are numbered 1, 2, … and every TER record (one per chain) consumes one number -/
theorem c04_pdb_serials_two_chains (c1 c2 : Chain) (ter : Bool) :
    pdbSerials ⟨[c1, c2], []⟩ ter =
      (List.range' 1 c1.nAtoms).map Int.ofNat ++
      (List.range' (1 + c1.nAtoms + (if ter then 1 else 0)) c2.nAtoms).map Int.ofNat := by
  simp only [pdbSerials, pdbSerialsChains, List.length_cons, List.length_nil, chain_nAtoms_eq]
  have h2 : decide ((0 : Nat) + 1 + 1 < 2) = false := by decide
  rw [h2]
  simp only [pdbSerialsRes_false, List.append_nil]
  cases ter <;> simp <;> omega

/-- CONECT records carry the numbers of the ATOM records of the two bonded atoms, whatever `ter` is -/
theorem c04_pdb_conect (t : Topology) (ter : Bool) (b : Bond) (hb : b ∈ t.bonds) (x y : Int)
    (hx : (pdbSerials t ter)[b.i]? = some x) (hy : (pdbSerials t ter)[b.j]? = some y) :
    (x, y) ∈ pdbConect t ter := by
  simp only [pdbConect, List.mem_filterMap]
  exact ⟨b, hb, by simp [hx, hy]⟩

/-- non-vacuity: a two-chain ligand topology with explicit ids, zero residue number and a cross-chain bond -/
def exTop : Topology :=
  { chains := [⟨some "X", [⟨"LIG", 0, "S1", [⟨"C1", "C", some 7⟩, ⟨"C2", "C", some 9⟩]⟩]⟩,
               ⟨some "Y", [⟨"LIG", 5, "", [⟨"N1", "N", none⟩, ⟨"VS", "VS", none⟩]⟩]⟩],
    bonds := [⟨0, 1, some 1, some 1⟩, ⟨1, 2, none, none⟩, ⟨2, 3, some 2, some 2⟩] }

example : subset exTop (fun i => i != 0) =
    { chains := [⟨some "X", [⟨"LIG", 0, "S1", [⟨"C2", "C", some 9⟩]⟩]⟩,
                 ⟨some "Y", [⟨"LIG", 5, "", [⟨"N1", "N", none⟩, ⟨"VS", "VS", none⟩]⟩]⟩],
      bonds := [⟨0, 1, none, none⟩, ⟨1, 2, some 2, some 2⟩] } := by decide
example : pdbConect exTop false = [(1, 2), (2, 3), (3, 4)] := by decide
example : pdbConect exTop true = [(1, 2), (2, 4), (4, 5)] := by decide

/-! ## topologies whose numbering does not follow the residues (Model/TopoIdx.lean) -/

/-- **atoms (any numbering)**: the atoms of a subset are the kept atoms in index order, each with its name, element and serial -/
theorem c04_isubset_atoms (t : ITop) (keep : Nat → Bool) :
    (isubset t keep).atoms.map IAtom.core = filterIdx keep 0 (t.atoms.map IAtom.core) := by
  simp only [isubset, List.map_map, ← filterIdx_map]
  rfl

/-- **every kept atom keeps its residue and chain**: the atom found at the new index `rank keep i` has the old atom's name,
element and serial, sits in a residue with the old residue's name, number and segment id, in a chain with the old chain's id -/
theorem c04_isubset_preserves (t : ITop) (keep : Nat → Bool) (i : Nat) (a : IAtom) (r : IRes)
    (hi : t.atoms[i]? = some a) (hk : keep i = true) (hr : t.residues[a.res]? = some r) :
    ∃ a' r', (isubset t keep).atoms[rank keep i]? = some a' ∧ a'.core = a.core ∧
      (isubset t keep).residues[a'.res]? = some r' ∧ r'.core = r.core ∧
      (isubset t keep).chainIds[r'.chain]? = t.chainIds[r.chain]? := by
  let atoms' := filterIdx keep 0 t.atoms
  let usedR : Nat → Bool := fun x => atoms'.any (fun y => y.res == x)
  let res' := filterIdx usedR 0 t.residues
  let usedC : Nat → Bool := fun c => res'.any (fun x => x.chain == c)
  have ha' : atoms'[rank keep i]? = some a := by
    rw [← hi]; exact filterIdx_getElem?_rank keep t.atoms i hk
  have hmem : a ∈ atoms' := List.mem_of_getElem? ha'
  have hu : usedR a.res = true := List.any_eq_true.mpr ⟨a, hmem, by simp⟩
  have hr' : res'[rank usedR a.res]? = some r := by
    rw [← hr]; exact filterIdx_getElem?_rank usedR t.residues a.res hu
  have hrmem : r ∈ res' := List.mem_of_getElem? hr'
  have huc : usedC r.chain = true := List.any_eq_true.mpr ⟨r, hrmem, by simp⟩
  refine ⟨{ a with res := rank usedR a.res }, { r with chain := rank usedC r.chain }, ?_, rfl, ?_, rfl, ?_⟩
  · show (atoms'.map _)[rank keep i]? = _
    rw [List.getElem?_map, ha']; rfl
  · show (res'.map _)[rank usedR a.res]? = _
    rw [List.getElem?_map, hr']; rfl
  · exact filterIdx_getElem?_rank usedC t.chainIds r.chain huc

/-- **keeping every atom changes nothing** when every residue holds an atom and every chain a residue -/
theorem c04_isubset_all (t : ITop)
    (hres : ∀ r, r < t.residues.length → ∃ a ∈ t.atoms, a.res = r)
    (hch : ∀ c, c < t.chainIds.length → ∃ r ∈ t.residues, r.chain = c)
    (hwfA : ∀ a ∈ t.atoms, a.res < t.residues.length) (hwfR : ∀ r ∈ t.residues, r.chain < t.chainIds.length) :
    isubset t (fun _ => true) = t := by
  have hA : filterIdx (fun _ => true) 0 t.atoms = t.atoms := filterIdx_true 0 _
  have huR : ∀ r, r < t.residues.length → (t.atoms.any (fun a => a.res == r)) = true := by
    intro r hr
    obtain ⟨a, ha, har⟩ := hres r hr
    exact List.any_eq_true.mpr ⟨a, ha, by simp [har]⟩
  have hR : filterIdx (fun r => t.atoms.any (fun a => a.res == r)) 0 t.residues = t.residues := by
    rw [filterIdx_congr _ (fun _ => true) 0 t.residues (fun i hi => by simpa using huR i hi)]
    exact filterIdx_true 0 _
  have huC : ∀ c, c < t.chainIds.length → (t.residues.any (fun r => r.chain == c)) = true := by
    intro c hc
    obtain ⟨r, hr, hrc⟩ := hch c hc
    exact List.any_eq_true.mpr ⟨r, hr, by simp [hrc]⟩
  have hC : filterIdx (fun c => t.residues.any (fun r => r.chain == c)) 0 t.chainIds = t.chainIds := by
    rw [filterIdx_congr _ (fun _ => true) 0 t.chainIds (fun i hi => by simpa using huC i hi)]
    exact filterIdx_true 0 _
  have hAm : t.atoms.map (fun a => ({ a with res := rank (fun r => t.atoms.any (fun a => a.res == r)) a.res } : IAtom)) = t.atoms := by
    refine (List.map_congr_left (g := id) ?_).trans (List.map_id _)
    intro a ha
    have : rank (fun r => t.atoms.any (fun a => a.res == r)) a.res = a.res :=
      rank_eq_self _ _ (fun j hj => huR j (Nat.lt_trans hj (hwfA a ha)))
    simp [this]
  have hRm : t.residues.map (fun r => ({ r with chain := rank (fun c => t.residues.any (fun r => r.chain == c)) r.chain } : IRes)) = t.residues := by
    refine (List.map_congr_left (g := id) ?_).trans (List.map_id _)
    intro r hr
    have : rank (fun c => t.residues.any (fun r => r.chain == c)) r.chain = r.chain :=
      rank_eq_self _ _ (fun j hj => huC j (Nat.lt_trans hj (hwfR r hr)))
    simp [this]
  have hB : (t.bonds.filter (fun b => (true && true))).map (fun b => ({ b with i := rank (fun _ => true) b.i, j := rank (fun _ => true) b.j } : Bond)) = t.bonds := by
    simp [rank_true]
  cases t with
  | mk cids res atoms bonds =>
    simp only [isubset] at *
    simp only [hA, hR, hC, hAm, hRm]
    simp [rank_true]


/-- **join (any numbering)**: the atoms of the first operand, then those of the second, each in index order -/
theorem c04_ijoin_atoms (a b : ITop) (k : Bool) :
    (ijoin a b k).atoms.map IAtom.core = a.atoms.map IAtom.core ++ b.atoms.map IAtom.core := by
  simp only [ijoin, List.map_append, List.map_map]
  rfl

/-- an atom of the second operand sits, after the join, in its own residue (same name, number when `keep_resSeq`, segment id) -/
theorem c04_ijoin_second_residue (a b : ITop) (x : IAtom) (r : IRes) (hr : b.residues[x.res]? = some r) :
    (ijoin a b true).residues[x.res + a.residues.length]? = some { r with chain := r.chain + a.chainIds.length } := by
  simp only [ijoin, if_true]
  rw [List.getElem?_append_right (by omega)]
  simp [hr]

theorem c04_ijoin_first_residue (a b : ITop) (k : Bool) (i : Nat) (hi : i < a.residues.length) :
    (ijoin a b k).residues[i]? = a.residues[i]? := by
  simp only [ijoin]
  rw [List.getElem?_append_left hi]

theorem c04_ijoin_bonds (a b : ITop) (k : Bool) :
    (ijoin a b k).bonds = a.bonds ++ b.bonds.map (shiftBond a.atoms.length) := rfl

theorem c04_icopy (t : ITop) : icopy t = t := rfl

/-! the nested model is the special case "index = flattened position" -/

/-- on a topology numbered along its residues the two models select the same atoms in the same order -/
theorem c04_isubset_refines_atoms (t : Topology) (keep : Nat → Bool) :
    (isubset (ofNested t) keep).atoms.map IAtom.core = (ofNested (subset t keep)).atoms.map IAtom.core := by
  rw [c04_isubset_atoms, ofNested_atoms_core, ofNested_atoms_core, c04_subset_atoms, filterAtoms_eq_filterIdx, filterIdx_map]

/-! the list form of `subset` (any order, repeats): numpy semantics, and the ordered subset as its special case -/

/-- **numpy semantics**: the atoms of `subset(idx)` are the atoms at the listed positions, in the listed order, with their data -/
theorem c04_isubsetL_atoms (t : ITop) (idx : List Nat) :
    (isubsetL t idx).atoms.map IAtom.core = (gatherIdx t.atoms idx).map IAtom.core := by
  simp only [isubsetL, List.map_map]
  rfl

theorem c04_isubsetL_length (t : ITop) (idx : List Nat) (h : ∀ i ∈ idx, i < t.atoms.length) :
    (isubsetL t idx).atoms.length = idx.length := by
  simp only [isubsetL, List.length_map, gatherIdx]
  induction idx with
  | nil => rfl
  | cons i is ih =>
    have hi : i < t.atoms.length := h i (by simp)
    simp only [List.filterMap_cons, List.getElem?_eq_getElem hi, List.length_cons]
    rw [ih (fun j hj => h j (by simp [hj]))]

theorem rank_mono (keep : Nat → Bool) (i j : Nat) (h : i ≤ j) : rank keep i ≤ rank keep j := by
  unfold rank
  have := range_split i j h
  rw [this, List.filter_append, List.length_append]
  omega

/-- **the ordered subset is the special case**: for the increasing list of the kept positions the list form is the predicate form of
`subset` (bonds well-formed: both ends atoms of the topology, lower index first, as `add_bond` stores them) -/
theorem c04_isubsetL_sorted (t : ITop) (keep : Nat → Bool)
    (hb : ∀ b ∈ t.bonds, b.i ≤ b.j ∧ b.j < t.atoms.length) :
    isubsetL t ((List.range t.atoms.length).filter keep) = isubset t keep := by
  have hg : gatherIdx t.atoms ((List.range t.atoms.length).filter keep) = filterIdx keep 0 t.atoms :=
    (filterIdx_eq_gather keep t.atoms).symm
  have hlive : ((List.range t.atoms.length).filter keep).filter (· < t.atoms.length) = (List.range t.atoms.length).filter keep := by
    apply List.filter_eq_self.mpr
    intro x hx
    simpa using mem_filter_range_lt keep _ x hx
  have hbonds : t.bonds.filterMap (rebond (fun i =>
      (((List.range t.atoms.length).filter keep).filter (· < t.atoms.length)).findIdx? (· == i))) =
      (t.bonds.filter (fun b => keep b.i && keep b.j)).map (fun b => ({ b with i := rank keep b.i, j := rank keep b.j } : Bond)) := by
    rw [← filterMap_ite_eq]
    apply filterMap_congr_mem
    intro b hbm
    obtain ⟨hij, hj⟩ := hb b hbm
    have hi : b.i < t.atoms.length := Nat.lt_of_le_of_lt hij hj
    simp only [rebond]
    rw [hlive, findIdx?_filter_range, findIdx?_filter_range]
    by_cases hki : keep b.i = true <;> by_cases hkj : keep b.j = true
    · have hm := rank_mono keep b.i b.j hij
      simp [hi, hj, hki, hkj, Nat.min_eq_left hm, Nat.max_eq_right hm]
    · simp [hi, hj, hki, hkj]
    · simp [hi, hj, hki, hkj]
    · simp [hi, hj, hki, hkj]
  unfold isubsetL isubset
  simp only [hg, hbonds]


/-! non-vacuity: a topology whose numbering interleaves two residues (A0 B0 A1 B1) -/
def exI : ITop :=
  { chainIds := [some "X"]
    residues := [⟨"AAA", 1, "", 0⟩, ⟨"BBB", 2, "", 0⟩]
    atoms := [⟨"A0", "C", none, 0⟩, ⟨"B0", "N", none, 1⟩, ⟨"A1", "O", none, 0⟩, ⟨"B1", "S", none, 1⟩]
    bonds := [⟨0, 2, none, none⟩, ⟨1, 3, none, none⟩, ⟨1, 2, none, none⟩] }

example : isubset exI (fun i => i != 0) =
    { chainIds := [some "X"], residues := [⟨"AAA", 1, "", 0⟩, ⟨"BBB", 2, "", 0⟩],
      atoms := [⟨"B0", "N", none, 1⟩, ⟨"A1", "O", none, 0⟩, ⟨"B1", "S", none, 1⟩],
      bonds := [⟨0, 2, none, none⟩, ⟨0, 1, none, none⟩] } := by decide
example : isubset exI (fun i => i == 1 || i == 3) =
    { chainIds := [some "X"], residues := [⟨"BBB", 2, "", 0⟩],
      atoms := [⟨"B0", "N", none, 0⟩, ⟨"B1", "S", none, 0⟩], bonds := [⟨0, 1, none, none⟩] } := by decide
example : (ijoin exI exI false).atoms.map (·.res) = [0, 1, 0, 1, 2, 3, 2, 3] ∧
    (ijoin exI exI false).residues.map (·.resSeq) = [1, 2, 3, 4] := by decide
example : (isubsetL exI [3, 0, 3]).atoms.map (·.name) = ["B1", "A0", "B1"] ∧ (isubsetL exI [2, 0]).bonds = [⟨0, 1, none, none⟩] := by decide

example : isubset exI (fun _ => true) = exI :=
  c04_isubset_all exI (by decide) (by decide) (by decide) (by decide)

end MdVerif.Topo

/-! ## editing in place: `insert_atom(index=)` and `delete_atom_by_index` keep every atom's index equal to its position -/
namespace MdVerif.TopoEdit

theorem insertRaw_index_ok (t : ETop) (i uid : Nat) (hi : i ≤ t.atoms.length) (hok : IndexOk t) : IndexOk (insertRaw t i uid) := by
  intro k a h
  simp only [insertRaw, List.append_assoc] at h
  have hlen : (t.atoms.take i).length = i := by simp [List.length_take, Nat.min_eq_left hi]
  by_cases hk : k < i
  · rw [List.getElem?_append_left (by omega)] at h
    rw [List.getElem?_take] at h
    simp only [hk, if_true] at h
    exact hok k a h
  · rw [List.getElem?_append_right (by omega)] at h
    rw [hlen] at h
    by_cases hk2 : k = i
    · subst hk2; simp at h; subst h; rfl
    · have : k - i = (k - i - 1) + 1 := by omega
      rw [this] at h
      simp only [List.cons_append, List.nil_append, List.getElem?_cons_succ, List.getElem?_map, List.getElem?_drop] at h
      cases hx : t.atoms[i + (k - i - 1)]? with
      | none => simp [hx] at h
      | some b =>
        simp only [hx, Option.map_some] at h
        injection h with h; subst h
        have := hok _ b hx
        simp only [bump]; omega

/-- **an accepted insertion keeps `atom(k).index = k` for every atom** -/
theorem c04_insert_index_ok (t : ETop) (i uid : Nat) (t' : ETop) (hok : IndexOk t) (h : insertAt t i uid = some t') : IndexOk t' := by
  unfold insertAt at h
  split at h
  · rename_i hi
    injection h with h; subst h
    exact insertRaw_index_ok t i uid hi hok
  · cases h

/-- **an accepted deletion keeps it too** -/
theorem c04_delete_index_ok (t : ETop) (i : Nat) (t' : ETop) (hok : IndexOk t) (h : deleteAt t i = some t') : IndexOk t' := by
  unfold deleteAt at h
  cases ha : t.atoms[i]? with
  | none => simp [ha] at h
  | some a0 =>
    simp only [ha] at h
    injection h with h; subst h
    have hi : i < t.atoms.length := (List.getElem?_eq_some_iff.mp ha).1
    intro k a h
    simp only at h
    have hlen : (t.atoms.take i).length = i := by simp [List.length_take, Nat.min_eq_left (Nat.le_of_lt hi)]
    by_cases hk : k < i
    · rw [List.getElem?_append_left (by omega)] at h
      rw [List.getElem?_take] at h
      simp only [hk, if_true] at h
      exact hok k a h
    · rw [List.getElem?_append_right (by omega)] at h
      rw [hlen] at h
      simp only [List.getElem?_map, List.getElem?_drop] at h
      cases hx : t.atoms[i + 1 + (k - i)]? with
      | none => simp [hx] at h
      | some b =>
        simp only [hx, Option.map_some] at h
        injection h with h; subst h
        have := hok _ b hx
        simp only [lower]; omega

/-- a refused operation changes nothing, so **every history of insertions and deletions keeps the indices right** -/
theorem c04_edit_history_index_ok (ops : List EOp) : ∀ (t : ETop), IndexOk t → IndexOk (runE t ops) := by
  induction ops with
  | nil => intro t h; exact h
  | cons op ops ih =>
    intro t h
    simp only [runE]
    apply ih
    cases hs : stepE t op with
    | none => simpa using h
    | some t' =>
      simp only [Option.getD_some]
      cases op with
      | ins i uid => exact c04_insert_index_ok t i uid t' h hs
      | del i => exact c04_delete_index_ok t i t' h hs

/-- **why the index must be checked** (repair b5d87905): the unchecked insertion at a position beyond the end leaves an atom whose index is
not its position -/
theorem c04_insert_outside_witness :
    (insertRaw ⟨[⟨0, 0⟩, ⟨1, 1⟩], []⟩ 5 9).atoms.map (·.index) = [0, 1, 5] ∧ insertAt ⟨[⟨0, 0⟩, ⟨1, 1⟩], []⟩ 5 9 = none := by
  refine ⟨by decide, by decide⟩

/-- a deletion removes exactly the bonds of the deleted atom -/
theorem c04_delete_bonds (t : ETop) (i : Nat) (a : EAtom) (t' : ETop) (ha : t.atoms[i]? = some a) (h : deleteAt t i = some t') (b : Nat × Nat) :
    b ∈ t'.bonds ↔ b ∈ t.bonds ∧ b.1 ≠ a.uid ∧ b.2 ≠ a.uid := by
  unfold deleteAt at h
  simp only [ha] at h
  injection h with h; subst h
  simp [List.mem_filter]

end MdVerif.TopoEdit

