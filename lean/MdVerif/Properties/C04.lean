import MdVerif.Model.Topology
/-!
# C04 — topology transformations preserve atoms, residues, chains and bonds

Value model of `Topology` (Model/Topology.lean).  Proved for every topology and every kept-index set:
* `c04_subset_atoms`       the atoms of `subset t keep` are exactly the kept atoms, in order, with their data
* `c04_subset_no_empty`    no empty residue or chain survives
* `c04_subset_bonds`       bonds = those with both ends kept, re-pointed by `rank`; `c04_rank_lt` new indices are in range,
                           `c04_rank_strictMono` re-pointing is injective on kept atoms
* `c04_subset_all`         keeping everything is the identity (chain ids, residue numbers, serials, bonds)
* `c04_copy`, `c04_join_atoms`, `c04_join_bonds`, `c04_join_chain_ids`
* `c04_eq_hash`            topologies that compare equal hash equal
* `c04_pdb_serials_*`      ATOM numbering (1-based, one number per TER) and CONECT numbers are the ATOM serials
-/
namespace MdVerif.Topo

theorem filterAtoms_append (keep : Nat → Bool) (base : Nat) (xs ys : List Atom) :
    filterAtoms keep base (xs ++ ys) = filterAtoms keep base xs ++ filterAtoms keep (base + xs.length) ys := by
  induction xs generalizing base with
  | nil => simp [filterAtoms]
  | cons a as ih =>
    simp only [List.cons_append, filterAtoms, ih (base + 1), List.length_cons]
    have : base + 1 + as.length = base + (as.length + 1) := by omega
    split <;> simp [this]

theorem subsetResidues_atoms (keep : Nat → Bool) (base : Nat) (rs : List Residue) :
    (subsetResidues keep base rs).flatMap (·.atoms) = filterAtoms keep base (rs.flatMap (·.atoms)) := by
  induction rs generalizing base with
  | nil => simp [subsetResidues, filterAtoms]
  | cons r rs ih =>
    simp only [subsetResidues, List.flatMap_cons, filterAtoms_append]
    split
    · rename_i h
      rw [ih]; simp [List.isEmpty_iff.mp h]
    · simp [ih]

theorem chain_nAtoms_eq (c : Chain) : c.nAtoms = (c.residues.flatMap (·.atoms)).length := by
  simp only [Chain.nAtoms, List.length_flatMap]; rfl

theorem filter_const_true (l : List Nat) : l.filter (fun _ => true) = l := by
  induction l with
  | nil => rfl
  | cons x xs ih => simp [ih]

theorem range_split (i n : Nat) (h : i ≤ n) : List.range n = List.range i ++ List.range' i (n - i) := by
  have := List.range'_append_1 (s := 0) (m := i) (n := n - i)
  simp only [Nat.zero_add] at this
  rw [List.range_eq_range', List.range_eq_range', this]
  congr 1; omega

theorem subsetChains_atoms (keep : Nat → Bool) (base : Nat) (cs : List Chain) :
    (subsetChains keep base cs).flatMap (fun c => c.residues.flatMap (·.atoms))
      = filterAtoms keep base (cs.flatMap (fun c => c.residues.flatMap (·.atoms))) := by
  induction cs generalizing base with
  | nil => simp [subsetChains, filterAtoms]
  | cons c cs ih =>
    simp only [subsetChains, List.flatMap_cons, filterAtoms_append, ← chain_nAtoms_eq]
    split
    · rename_i h
      rw [ih]
      have := subsetResidues_atoms keep base c.residues
      rw [List.isEmpty_iff.mp h] at this
      simp at this
      simp [← this]
    · simp [ih, subsetResidues_atoms]

/-- **subset keeps exactly the selected atoms, in order, with name/element/serial untouched** -/
theorem c04_subset_atoms (t : Topology) (keep : Nat → Bool) :
    (subset t keep).atoms = filterAtoms keep 0 t.atoms :=
  subsetChains_atoms keep 0 t.chains

theorem subsetResidues_nonempty (keep : Nat → Bool) (base : Nat) (rs : List Residue) :
    ∀ r ∈ subsetResidues keep base rs, r.atoms ≠ [] := by
  induction rs generalizing base with
  | nil => simp [subsetResidues]
  | cons r rs ih =>
    intro x hx
    simp only [subsetResidues] at hx
    split at hx
    · exact ih _ x hx
    · rename_i h
      rcases List.mem_cons.mp hx with rfl | hx
      · simpa [List.isEmpty_iff] using h
      · exact ih _ x hx

/-- **empty residues and chains are dropped** -/
theorem c04_subset_no_empty (t : Topology) (keep : Nat → Bool) :
    ∀ c ∈ (subset t keep).chains, c.residues ≠ [] ∧ ∀ r ∈ c.residues, r.atoms ≠ [] := by
  suffices h : ∀ base cs, ∀ c ∈ subsetChains keep base cs, c.residues ≠ [] ∧ ∀ r ∈ c.residues, r.atoms ≠ [] from
    h 0 t.chains
  intro base cs
  induction cs generalizing base with
  | nil => simp [subsetChains]
  | cons c cs ih =>
    intro x hx
    simp only [subsetChains] at hx
    split at hx
    · exact ih _ x hx
    · rename_i h
      rcases List.mem_cons.mp hx with rfl | hx
      · exact ⟨by simpa [List.isEmpty_iff] using h, subsetResidues_nonempty keep base c.residues⟩
      · exact ih _ x hx

/-- **bonds**: exactly those with both ends kept, re-pointed through `rank`, type and order untouched -/
theorem c04_subset_bonds (t : Topology) (keep : Nat → Bool) :
    (subset t keep).bonds = (t.bonds.filter (fun b => keep b.i && keep b.j)).map
      (fun b => ⟨rank keep b.i, rank keep b.j, b.type, b.order⟩) := rfl

theorem filterAtoms_length (keep : Nat → Bool) (base : Nat) (as : List Atom) :
    (filterAtoms keep base as).length = ((List.range' base as.length).filter keep).length := by
  induction as generalizing base with
  | nil => simp [filterAtoms]
  | cons a as ih =>
    simp only [filterAtoms, List.length_cons, List.range'_succ, List.filter_cons]
    split <;> simp [ih]

/-- the new index of a kept atom is a valid index of the subset topology -/
theorem c04_rank_lt (t : Topology) (keep : Nat → Bool) (i : Nat) (hi : i < t.atoms.length) (hk : keep i = true) :
    rank keep i < (subset t keep).atoms.length := by
  rw [c04_subset_atoms, filterAtoms_length, ← List.range_eq_range']
  unfold rank
  have hsplit := range_split i t.atoms.length (Nat.le_of_lt hi)
  rw [hsplit, List.filter_append, List.length_append]
  have : t.atoms.length - i = (t.atoms.length - i - 1) + 1 := by omega
  rw [this, List.range'_succ, List.filter_cons, hk]
  simp

/-- re-pointing is strictly monotone on kept atoms: distinct kept atoms get distinct new indices -/
theorem c04_rank_strictMono (keep : Nat → Bool) (i j : Nat) (hij : i < j) (hk : keep i = true) :
    rank keep i < rank keep j := by
  unfold rank
  have := range_split i j (Nat.le_of_lt hij)
  rw [this, List.filter_append, List.length_append]
  have : j - i = (j - i - 1) + 1 := by omega
  rw [this, List.range'_succ, List.filter_cons, hk]
  simp

theorem filterAtoms_true (base : Nat) (as : List Atom) : filterAtoms (fun _ => true) base as = as := by
  induction as generalizing base with
  | nil => rfl
  | cons a as ih => simp [filterAtoms, ih]

theorem subsetResidues_true (base : Nat) (rs : List Residue) (h : ∀ r ∈ rs, r.atoms ≠ []) :
    subsetResidues (fun _ => true) base rs = rs := by
  induction rs generalizing base with
  | nil => rfl
  | cons r rs ih =>
    have hr : r.atoms ≠ [] := h r (by simp)
    simp only [subsetResidues, filterAtoms_true]
    have : r.atoms.isEmpty = false := by cases hra : r.atoms <;> simp_all
    simp [this, ih _ (fun x hx => h x (by simp [hx]))]

theorem rank_true (i : Nat) : rank (fun _ => true) i = i := by simp [rank, filter_const_true]

/-- **keeping every atom changes nothing** (chain ids, residue numbers, segment ids, serials, bonds), for
topologies without empty residues or chains -/
theorem c04_subset_all (t : Topology) (h : ∀ c ∈ t.chains, c.residues ≠ [] ∧ ∀ r ∈ c.residues, r.atoms ≠ []) :
    subset t (fun _ => true) = t := by
  have hc : ∀ base cs, (∀ c ∈ cs, c.residues ≠ [] ∧ ∀ r ∈ c.residues, r.atoms ≠ []) →
      subsetChains (fun _ => true) base cs = cs := by
    intro base cs
    induction cs generalizing base with
    | nil => intro _; rfl
    | cons c cs ih =>
      intro hh
      have h1 := hh c (by simp)
      simp only [subsetChains, subsetResidues_true base c.residues h1.2]
      have : c.residues.isEmpty = false := by cases hcr : c.residues <;> simp_all
      simp [this, ih _ (fun x hx => hh x (by simp [hx]))]
  cases t with
  | mk chains bonds =>
    simp only [subset, hc 0 chains h, rank_true, Bool.and_self]
    congr 1
    induction bonds with
    | nil => rfl
    | cons b bs ih => simp at ih ⊢

/-- **copy** is the identity on the value (every field, including chain ids); independence of a copy from its
source is a statement about object identity in the implementation and is settled by the correspondence run -/
theorem c04_copy (t : Topology) : copy t = t := rfl

theorem atoms_append (a b : List Chain) :
    (a ++ b).flatMap (fun c => c.residues.flatMap (·.atoms)) =
      a.flatMap (fun c => c.residues.flatMap (·.atoms)) ++ b.flatMap (fun c => c.residues.flatMap (·.atoms)) := by
  simp

/-- **join** appends: atoms of `a` then atoms of `b`, unchanged -/
theorem c04_join_atoms (a b : Topology) : (join a b true).atoms = a.atoms ++ b.atoms := by
  simp [join, Topology.atoms]

/-- bonds of `b` are shifted by the number of atoms of `a`, type and order kept -/
theorem c04_join_bonds (a b : Topology) (k : Bool) :
    (join a b k).bonds = a.bonds ++ b.bonds.map (fun x => ⟨x.i + a.nAtoms, x.j + a.nAtoms, x.type, x.order⟩) := rfl

theorem c04_join_chain_ids (a b : Topology) :
    (join a b true).chains.map (·.chainId) = a.chains.map (·.chainId) ++ b.chains.map (·.chainId) := by
  simp [join]

/-- **equal ⇒ hash-equal**: everything `__hash__` depends on is determined by what `__eq__` compares -/
theorem c04_eq_hash (a b : Topology) (h : eqKey a = eqKey b) : hashKey a = hashKey b := by
  have key : ∀ t : Topology, hashKey t =
      ((eqKey t).1.length, ((eqKey t).1.map (fun c => (c.map (fun r => r.2.length)).sum)).sum,
       (eqKey t).1.flatMap (fun c => c.map (·.1)), (eqKey t).2) := by
    intro t
    simp only [hashKey, eqKey, Topology.nAtoms, Chain.nAtoms, Residue.nAtoms, Topology.residues, List.length_map,
      List.map_map, Prod.mk.injEq, true_and]
    refine ⟨?_, ?_, trivial⟩
    · congr 1
      apply List.map_congr_left
      intro c _
      simp only [Function.comp_def, List.map_map, List.length_map]
      rfl
    · simp [List.flatMap, Function.comp_def, List.map_flatten]
  rw [key a, key b, h]

/-- PDB ATOM numbering without per-atom serials: consecutive from `next` inside a chain -/
theorem pdbSerialsRes_false (next : Nat) (as : List Atom) :
    pdbSerialsRes false next as = ((List.range' next as.length).map Int.ofNat, next + as.length) := by
  induction as generalizing next with
  | nil => simp [pdbSerialsRes]
  | cons a as ih =>
    simp only [pdbSerialsRes, ih, List.length_cons, List.range'_succ, List.map_cons]
    refine Prod.ext ?_ ?_ <;> simp <;> omega

/-- multi-chain files: atoms are numbered 1, 2, … and every TER record (one per chain) consumes one number -/
theorem c04_pdb_serials_two_chains (c1 c2 : Chain) (ter : Bool) :
    pdbSerials ⟨[c1, c2], []⟩ ter =
      (List.range' 1 c1.nAtoms).map Int.ofNat ++
      (List.range' (1 + c1.nAtoms + (if ter then 1 else 0)) c2.nAtoms).map Int.ofNat := by
  simp only [pdbSerials, pdbSerialsChains, List.length_cons, List.length_nil, chain_nAtoms_eq]
  have h2 : decide ((0 : Nat) + 1 + 1 < 2) = false := by decide
  rw [h2]
  simp only [pdbSerialsRes_false, List.append_nil]
  cases ter <;> simp <;> omega

/-- CONECT records carry the numbers of the ATOM records of the two bonded atoms, whatever `ter` is -/
theorem c04_pdb_conect (t : Topology) (ter : Bool) (b : Bond) (hb : b ∈ t.bonds) (x y : Int)
    (hx : (pdbSerials t ter)[b.i]? = some x) (hy : (pdbSerials t ter)[b.j]? = some y) :
    (x, y) ∈ pdbConect t ter := by
  simp only [pdbConect, List.mem_filterMap]
  exact ⟨b, hb, by simp [hx, hy]⟩

/-- non-vacuity: a two-chain ligand topology with explicit ids, zero residue number and a cross-chain bond -/
def exTop : Topology :=
  { chains := [⟨some "X", [⟨"LIG", 0, "S1", [⟨"C1", "C", some 7⟩, ⟨"C2", "C", some 9⟩]⟩]⟩,
               ⟨some "Y", [⟨"LIG", 5, "", [⟨"N1", "N", none⟩, ⟨"VS", "VS", none⟩]⟩]⟩],
    bonds := [⟨0, 1, some 1, some 1⟩, ⟨1, 2, none, none⟩, ⟨2, 3, some 2, some 2⟩] }

example : subset exTop (fun i => i != 0) =
    { chains := [⟨some "X", [⟨"LIG", 0, "S1", [⟨"C2", "C", some 9⟩]⟩]⟩,
                 ⟨some "Y", [⟨"LIG", 5, "", [⟨"N1", "N", none⟩, ⟨"VS", "VS", none⟩]⟩]⟩],
      bonds := [⟨0, 1, none, none⟩, ⟨1, 2, some 2, some 2⟩] } := by decide
example : pdbConect exTop false = [(1, 2), (2, 3), (3, 4)] := by decide
example : pdbConect exTop true = [(1, 2), (2, 4), (4, 5)] := by decide

end MdVerif.Topo
