import MdVerif.Model.Qcp
import MdVerif.Proofs.QcpSpectral
import Mathlib.Tactic.Ring
import Mathlib.Tactic.Linarith
import Mathlib.Tactic.Positivity
import Mathlib.Tactic.LinearCombination
/-!
# C06 — RMSD is the optimal-superposition RMSD and superpose attains it

With the code's literal formulas (flat `M[3i+j]`, the column-major reads of `K`, the 17-term `detK`, the adjugate-column quaternion,
the nine `rot` entries) and for all inputs:
* `c06_key_identity`     Σ R(q)[idx]·M[idx] = qᵀKq: `M`'s layout, `K` and the quaternion→matrix formula are mutually consistent
* `c06_rotation_orthogonal`, `c06_rotation_det`   R(q)R(q)ᵀ = |q|⁴ I and det R(q) = |q|⁶: a proper rotation after normalisation
* `c06_pair_residual`, `c06_residual`   for a unit quaternion Σ‖a_k R(q) − b_k‖² = G_a + G_b − 2 qᵀKq (induction over the atom list)
* `c06_charpoly`         det(K − λI) = λ⁴ + C₂λ² + C₁λ + C₀ with the code's C₂ = −2ΣM², C₁ = −8 det M, C₀ = detK
* `c06_adjugate_eigvec`  (K − λI)·q(λ) = (P(λ), 0, 0, 0): at a root the coded quaternion is an eigenvector of K for λ
* `c06_optimal_of_bound` if qᵀKq ≤ λ|q|² for all q (λ is the largest eigenvalue) and the coded quaternion q(λ) ≠ 0 has Kq = λq, then no
  rotation R(q) gives a smaller residual than G_a + G_b − 2λ and R(q(λ)/|q(λ)|) attains it
* `c06_symmetric`        swapping the two structures (M ↦ Mᵀ) leaves the polynomial unchanged; `c06_zero_self` a structure against itself
  has the root λ = G (msd 0)
* `c06_root_certificate` a quartic with P(h) > 0, P′(h) ≥ 0, P″(h) ≥ 0, h ≥ 0 has no root above h: used by the harness to certify
  that the value the solver returned is the *largest* root.
* `c06_rayleigh_bound`   **the spectral step** (Proofs/QcpSpectral.lean, from Mathlib's spectral theorem for Hermitian matrices): if no real root
                         of the code's polynomial exceeds λ, then qᵀKq ≤ λ|q|² for every quaternion
* `c06_optimal`          hence, with no hypothesis beyond "λ is the largest real root": no rotation R(q) has a smaller residual than
                         G_a + G_b − 2λ — for every number of atoms and every pair of structures
Not proved: that unit quaternions cover SO(3) (Euler–Rodrigues); stated in the trusted base.
-/
namespace MdVerif.Qcp
open MdVerif.Mic

theorem c06_key_identity (M : M9) (q : Quat) : frob (rotOf q) M = quadK M q := by
  simp only [frob, rotOf, quadK, keyK]; ring

/-- rows of R(q) are orthogonal with squared length |q|⁴ -/
theorem c06_rotation_orthogonal (q : Quat) :
    let R := rotOf q
    R.m0 * R.m0 + R.m1 * R.m1 + R.m2 * R.m2 = q.norm2 * q.norm2 ∧ R.m3 * R.m3 + R.m4 * R.m4 + R.m5 * R.m5 = q.norm2 * q.norm2 ∧
    R.m6 * R.m6 + R.m7 * R.m7 + R.m8 * R.m8 = q.norm2 * q.norm2 ∧ R.m0 * R.m3 + R.m1 * R.m4 + R.m2 * R.m5 = 0 ∧
    R.m0 * R.m6 + R.m1 * R.m7 + R.m2 * R.m8 = 0 ∧ R.m3 * R.m6 + R.m4 * R.m7 + R.m5 * R.m8 = 0 := by
  simp only [rotOf, Quat.norm2]
  refine ⟨by ring, by ring, by ring, by ring, by ring, by ring⟩

theorem c06_rotation_det (q : Quat) : detM (rotOf q) = q.norm2 * q.norm2 * q.norm2 := by
  simp only [detM, rotOf, Quat.norm2]; ring

/-- one atom pair: ‖aR(q) − b‖² = |q|⁴|a|² + |b|² − 2 Σ R[idx]·(a⊗b)[idx] -/
theorem c06_pair_residual (q : Quat) (a b : V3) :
    ((applyRot (rotOf q) a).sub b).norm2 = q.norm2 * q.norm2 * a.norm2 + b.norm2 - 2 * frob (rotOf q) (M9.ofPair a b) := by
  simp only [applyRot, rotOf, frob, M9.ofPair, V3.sub, V3.norm2, V3.dot, Quat.norm2]; ring

theorem frob_add (R A B : M9) : frob R (A.add B) = frob R A + frob R B := by
  simp only [frob, M9.add]; ring

/-- **the residual of any rotation R(q), |q| = 1, is G_a + G_b − 2 qᵀKq** (every number of atoms) -/
theorem c06_residual (q : Quat) (hq : q.norm2 = 1) (pairs : List (V3 × V3)) :
    (pairs.map (fun p => ((applyRot (rotOf q) p.1).sub p.2).norm2)).sum
      = traceG (pairs.map (·.1)) + traceG (pairs.map (·.2)) - 2 * quadK (innerM pairs) q := by
  rw [← c06_key_identity]
  induction pairs with
  | nil => simp [traceG, innerM, frob, M9.zero]
  | cons p ps ih =>
    simp only [List.map_cons, List.sum_cons, traceG, innerM, List.foldr_cons] at ih ⊢
    rw [ih, c06_pair_residual, frob_add, hq]
    ring

/-- 4×4 determinant of the symmetric matrix with entries `k`, shifted by `−l` on the diagonal (cofactor expansion) -/
def det4 (k : K10) (l : Rat) : Rat :=
  let a := k.k00 - l; let f := k.k11 - l; let h := k.k22 - l; let j := k.k33 - l
  let b := k.k01; let c := k.k02; let d := k.k03; let g := k.k12; let e := k.k13; let i := k.k23
  a * (f * (h * j - i * i) - g * (g * j - i * e) + e * (g * i - h * e))
  - b * (b * (h * j - i * i) - g * (c * j - i * d) + e * (c * i - h * d))
  + c * (b * (g * j - e * i) - f * (c * j - i * d) + e * (c * e - g * d))
  - d * (b * (g * i - e * h) - f * (c * i - h * d) + g * (c * e - g * d))

/-- **the code's coefficients are those of the characteristic polynomial of K** -/
theorem c06_charpoly (M : M9) (l : Rat) : det4 (keyK M) l = P M l := by
  simp only [det4, P, C2, C1, C0, detM, keyK]; ring

/-- **the coded quaternion is the first column of the adjugate**: (K − λI) q(λ) = (P(λ), 0, 0, 0) -/
theorem c06_adjugate_eigvec (M : M9) (l : Rat) :
    let k := keyK M; let q := quatOf M l
    (k.k00 - l) * q.q0 + k.k01 * q.q1 + k.k02 * q.q2 + k.k03 * q.q3 = P M l ∧
    k.k01 * q.q0 + (k.k11 - l) * q.q1 + k.k12 * q.q2 + k.k13 * q.q3 = 0 ∧
    k.k02 * q.q0 + k.k12 * q.q1 + (k.k22 - l) * q.q2 + k.k23 * q.q3 = 0 ∧
    k.k03 * q.q0 + k.k13 * q.q1 + k.k23 * q.q2 + (k.k33 - l) * q.q3 = 0 := by
  simp only [quatOf, P, C2, C1, C0, detM, keyK]
  refine ⟨by ring, by ring, by ring, by ring⟩

theorem quatOf_eq_adjCol (M : M9) (l : Rat) : quatOf M l = adjCol M l 0 := by
  simp [quatOf, adjCol, cofactor4, shifted, List.range, List.range.loop, List.filter, keyK]
  refine ⟨by ring, by ring, by ring, by ring⟩

/-- **every column of the adjugate works**: (K − λI)·adjCol_j = P(λ)·e_j, j = 0..3 -/
theorem c06_adjugate_columns (M : M9) (l : Rat) (j : Nat) (hj : j < 4) (i : Nat) (hi : i < 4) :
    let q := adjCol M l j
    shifted M l i 0 * q.q0 + shifted M l i 1 * q.q1 + shifted M l i 2 * q.q2 + shifted M l i 3 * q.q3 = if i = j then P M l else 0 := by
  have hj' : j = 0 ∨ j = 1 ∨ j = 2 ∨ j = 3 := by omega
  have hi' : i = 0 ∨ i = 1 ∨ i = 2 ∨ i = 3 := by omega
  rcases hj' with rfl | rfl | rfl | rfl <;> rcases hi' with rfl | rfl | rfl | rfl <;>
    simp [adjCol, cofactor4, shifted, List.range, List.range.loop, List.filter, keyK, P, C2, C1, C0, detM] <;> ring

/-- the diagonal of the adjugate sums to −P′(λ): at a simple root some column is non-zero -/
theorem c06_adjugate_trace (M : M9) (l : Rat) :
    (adjCol M l 0).q0 + (adjCol M l 1).q1 + (adjCol M l 2).q2 + (adjCol M l 3).q3 = - dP M l := by
  simp [adjCol, cofactor4, shifted, List.range, List.range.loop, List.filter, keyK, dP, C2, C1, detM]
  ring

theorem norm2_nonneg (q : Quat) : 0 ≤ q.norm2 := by
  unfold Quat.norm2; nlinarith [mul_self_nonneg q.q0, mul_self_nonneg q.q1, mul_self_nonneg q.q2, mul_self_nonneg q.q3]

theorem norm2_eq_zero (q : Quat) (h : q.norm2 = 0) : q.q0 = 0 ∧ q.q1 = 0 ∧ q.q2 = 0 ∧ q.q3 = 0 := by
  unfold Quat.norm2 at h
  have h0 := mul_self_nonneg q.q0; have h1 := mul_self_nonneg q.q1; have h2 := mul_self_nonneg q.q2; have h3 := mul_self_nonneg q.q3
  refine ⟨?_, ?_, ?_, ?_⟩ <;> apply mul_self_eq_zero.mp <;> linarith

/-- the chosen column is one of the four and has the largest norm -/
theorem bestCol_spec (M : M9) (l : Rat) :
    (∃ j, j < 4 ∧ bestCol M l = adjCol M l j) ∧ ∀ j, j < 4 → (adjCol M l j).norm2 ≤ (bestCol M l).norm2 := by
  simp only [bestCol, List.foldl_cons, List.foldl_nil, quatOf_eq_adjCol]
  constructor
  · split_ifs <;> first | exact ⟨0, by omega, rfl⟩ | exact ⟨1, by omega, rfl⟩ | exact ⟨2, by omega, rfl⟩ | exact ⟨3, by omega, rfl⟩
  · intro j hj
    have hj' : j = 0 ∨ j = 1 ∨ j = 2 ∨ j = 3 := by omega
    rcases hj' with rfl | rfl | rfl | rfl <;> split_ifs <;> linarith

/-- **at a simple root the quaternion the code uses is a non-zero eigenvector**: the half-turn case, where the first column vanishes, included -/
theorem c06_bestCol_nonzero (M : M9) (l : Rat) (hsimple : dP M l ≠ 0) : (bestCol M l).norm2 ≠ 0 := by
  intro h0
  have hle := (bestCol_spec M l).2
  have hz : ∀ j, j < 4 → (adjCol M l j).norm2 = 0 := fun j hj => le_antisymm (h0 ▸ hle j hj) (norm2_nonneg _)
  have t := c06_adjugate_trace M l
  rw [(norm2_eq_zero _ (hz 0 (by omega))).1, (norm2_eq_zero _ (hz 1 (by omega))).2.1, (norm2_eq_zero _ (hz 2 (by omega))).2.2.1,
    (norm2_eq_zero _ (hz 3 (by omega))).2.2.2] at t
  apply hsimple; linarith

/-- and it satisfies K q = λ q at a root, whichever column was taken -/
theorem c06_bestCol_eigvec (M : M9) (l : Rat) (hroot : P M l = 0) (i : Nat) (hi : i < 4) :
    let q := bestCol M l
    shifted M l i 0 * q.q0 + shifted M l i 1 * q.q1 + shifted M l i 2 * q.q2 + shifted M l i 3 * q.q3 = 0 := by
  obtain ⟨j, hj, e⟩ := (bestCol_spec M l).1
  have := c06_adjugate_columns M l j hj i hi
  simp only [e]
  rw [this, hroot]; simp

/-- the first column does vanish for a half turn: structure b = a rotated by π about z (M = diag-like with m0 = −sxx …) -/
example : (quatOf (innerM [(⟨1, 0, 0⟩, ⟨-1, 0, 0⟩), (⟨0, 2, 0⟩, ⟨0, -2, 0⟩), (⟨0, 0, 3⟩, ⟨0, 0, 3⟩)]) 14).norm2 = 0 ∧
    (bestCol (innerM [(⟨1, 0, 0⟩, ⟨-1, 0, 0⟩), (⟨0, 2, 0⟩, ⟨0, -2, 0⟩), (⟨0, 0, 3⟩, ⟨0, 0, 3⟩)]) 14).norm2 ≠ 0 := by
  decide +kernel

/-- at a root, qᵀKq = λ|q|² for the coded quaternion -/
theorem c06_rayleigh_at_root (M : M9) (l : Rat) (hroot : P M l = 0) :
    quadK M (quatOf M l) = l * (quatOf M l).norm2 := by
  have h := c06_adjugate_eigvec M l
  obtain ⟨h0, h1, h2, h3⟩ := h
  rw [hroot] at h0
  simp only [quadK, Quat.norm2]
  linear_combination (quatOf M l).q0 * h0 + (quatOf M l).q1 * h1 + (quatOf M l).q2 * h2 + (quatOf M l).q3 * h3

/-- the same for the column the code actually uses -/
theorem c06_rayleigh_bestCol (M : M9) (l : Rat) (hroot : P M l = 0) :
    quadK M (bestCol M l) = l * (bestCol M l).norm2 := by
  have h0 := c06_bestCol_eigvec M l hroot 0 (by omega)
  have h1 := c06_bestCol_eigvec M l hroot 1 (by omega)
  have h2 := c06_bestCol_eigvec M l hroot 2 (by omega)
  have h3 := c06_bestCol_eigvec M l hroot 3 (by omega)
  simp only [shifted] at h0 h1 h2 h3
  simp only [quadK, Quat.norm2]
  linear_combination (bestCol M l).q0 * h0 + (bestCol M l).q1 * h1 + (bestCol M l).q2 * h2 + (bestCol M l).q3 * h3

/-- **optimality, given the Rayleigh bound**: no rotation R(q) does better than G_a + G_b − 2λ -/
theorem c06_optimal_of_bound (pairs : List (V3 × V3)) (l : Rat)
    (hbound : ∀ q : Quat, quadK (innerM pairs) q ≤ l * q.norm2) (q : Quat) (hq : q.norm2 = 1) :
    traceG (pairs.map (·.1)) + traceG (pairs.map (·.2)) - 2 * l
      ≤ (pairs.map (fun p => ((applyRot (rotOf q) p.1).sub p.2).norm2)).sum := by
  rw [c06_residual q hq]
  have := hbound q
  rw [hq] at this
  linarith

/-- and a unit quaternion with qᵀKq = λ attains it -/
theorem c06_attained (pairs : List (V3 × V3)) (l : Rat) (q : Quat) (hq : q.norm2 = 1) (hK : quadK (innerM pairs) q = l) :
    (pairs.map (fun p => ((applyRot (rotOf q) p.1).sub p.2).norm2)).sum
      = traceG (pairs.map (·.1)) + traceG (pairs.map (·.2)) - 2 * l := by
  rw [c06_residual q hq, hK]

def transposeM (M : M9) : M9 := ⟨M.m0, M.m3, M.m6, M.m1, M.m4, M.m7, M.m2, M.m5, M.m8⟩

/-- **symmetry**: rmsd(a, b) and rmsd(b, a) solve the same polynomial -/
theorem c06_symmetric (M : M9) (l : Rat) : P (transposeM M) l = P M l := by
  simp only [P, C2, C1, C0, detM, keyK, transposeM]; ring

/-- **a structure against itself**: M is symmetric and λ = trace M = G is a root, so the msd is 0 -/
theorem c06_zero_self (M : M9) (h1 : M.m1 = M.m3) (h2 : M.m2 = M.m6) (h5 : M.m5 = M.m7) :
    P M (M.m0 + M.m4 + M.m8) = 0 := by
  simp only [P, C2, C1, C0, detM, keyK, h1, h2, h5]; ring

theorem innerM_self_symm (l : List V3) :
    (innerM (l.map (fun a => (a, a)))).m1 = (innerM (l.map (fun a => (a, a)))).m3 ∧
    (innerM (l.map (fun a => (a, a)))).m2 = (innerM (l.map (fun a => (a, a)))).m6 ∧
    (innerM (l.map (fun a => (a, a)))).m5 = (innerM (l.map (fun a => (a, a)))).m7 ∧
    (innerM (l.map (fun a => (a, a)))).m0 + (innerM (l.map (fun a => (a, a)))).m4 + (innerM (l.map (fun a => (a, a)))).m8 = traceG l := by
  induction l with
  | nil => simp [innerM, M9.zero, traceG]
  | cons a as ih =>
    simp only [List.map_cons, innerM, List.foldr_cons, M9.add, M9.ofPair, traceG, List.sum_cons, V3.norm2, V3.dot] at ih ⊢
    obtain ⟨i1, i2, i3, i4⟩ := ih
    refine ⟨by rw [i1]; ring, by rw [i2]; ring, by rw [i3]; ring, by linarith⟩

/-- **root certificate**: P(h) > 0, P′(h) ≥ 0, P″(h) ≥ 0 at h ≥ 0 exclude any root above h (Taylor expansion with positive terms) -/
theorem c06_root_certificate (M : M9) (h x : Rat) (hh : 0 ≤ h) (hx : h < x) (h0 : 0 < P M h) (h1 : 0 ≤ dP M h) (h2 : 0 ≤ ddP M h) :
    0 < P M x := by
  have hd : 0 < x - h := by linarith
  have e : P M x = P M h + dP M h * (x - h) + ddP M h * (x - h) * (x - h) / 2 + 4 * h * (x - h) * (x - h) * (x - h)
      + (x - h) * (x - h) * (x - h) * (x - h) := by
    simp only [P, dP, ddP]; ring
  rw [e]
  have t1 : 0 ≤ dP M h * (x - h) := mul_nonneg h1 (le_of_lt hd)
  have t2 : 0 ≤ ddP M h * (x - h) * (x - h) / 2 := by positivity
  have t3 : 0 ≤ 4 * h * (x - h) * (x - h) * (x - h) := by positivity
  have t4 : 0 ≤ (x - h) * (x - h) * (x - h) * (x - h) := by positivity
  linarith

/-- non-vacuity: two 3-atom structures related by a quarter turn about z have msd 0: λ = G is a root -/
example : P (innerM [(⟨1, 0, 0⟩, ⟨0, 1, 0⟩), (⟨0, 2, 0⟩, ⟨-2, 0, 0⟩), (⟨0, 0, 3⟩, ⟨0, 0, 3⟩)]) 14 = 0 := by
  norm_num [P, C2, C1, C0, detM, keyK, innerM, M9.add, M9.ofPair, M9.zero]

/-- **the spectral step**: an upper bound of the real roots of the characteristic polynomial bounds the Rayleigh quotient of `K` -/
theorem c06_rayleigh_bound (M : M9) (lam : ℝ) (hmax : ∀ μ : ℝ, PR M μ = 0 → μ ≤ lam) (q : Quat) :
    ((quadK M q : Rat) : ℝ) ≤ lam * ((q.norm2 : Rat) : ℝ) := by
  rw [quadK_cast, norm2_cast]
  unfold keyKR
  apply rayleigh_le_of_root_bound
  intro μ hμ
  apply hmax
  rw [← det_keyKR_sub]
  unfold keyKR
  rw [det_K4_sub]
  exact hμ

/-- **optimality**: if λ is the largest real root of the polynomial the code solves (it is a root, and no real root exceeds it), then
no rotation of the form R(q), |q| = 1, brings the two structures closer than G_a + G_b − 2λ — for all structures and all atom counts -/
theorem c06_optimal (pairs : List (V3 × V3)) (lam : ℝ) (hmax : ∀ μ : ℝ, PR (innerM pairs) μ = 0 → μ ≤ lam)
    (q : Quat) (hq : q.norm2 = 1) :
    ((traceG (pairs.map (·.1)) + traceG (pairs.map (·.2)) : Rat) : ℝ) - 2 * lam
      ≤ (((pairs.map (fun p => ((applyRot (rotOf q) p.1).sub p.2).norm2)).sum : Rat) : ℝ) := by
  rw [c06_residual q hq pairs]
  have h := c06_rayleigh_bound (innerM pairs) lam hmax q
  rw [hq] at h
  push_cast at h ⊢
  linarith

/-- a rational root that bounds all real roots: the msd the code reports, (G_a + G_b − 2λ)/N, is then the minimum over all R(q), and the
quaternion the code uses attains it (`c06_attained` with `c06_rayleigh_bestCol`) -/
theorem c06_optimal_rational (pairs : List (V3 × V3)) (l : Rat) (hmax : ∀ μ : ℝ, PR (innerM pairs) μ = 0 → μ ≤ (l : ℝ))
    (q : Quat) (hq : q.norm2 = 1) :
    traceG (pairs.map (·.1)) + traceG (pairs.map (·.2)) - 2 * l
      ≤ (pairs.map (fun p => ((applyRot (rotOf q) p.1).sub p.2).norm2)).sum := by
  have h := c06_optimal pairs (l : ℝ) hmax q hq
  have : ((traceG (pairs.map (·.1)) + traceG (pairs.map (·.2)) - 2 * l : Rat) : ℝ)
      ≤ (((pairs.map (fun p => ((applyRot (rotOf q) p.1).sub p.2).norm2)).sum : Rat) : ℝ) := by
    push_cast at h ⊢; linarith
  exact_mod_cast this

/-- non-vacuity of the root hypothesis: for the quarter-turn example λ = 14 is a root and bounds every real root
(P(14 + t) = t⁴ + 56 t³ + 1120 t² + … has positive coefficients) -/
example : PR (innerM [(⟨1, 0, 0⟩, ⟨0, 1, 0⟩), (⟨0, 2, 0⟩, ⟨-2, 0, 0⟩), (⟨0, 0, 3⟩, ⟨0, 0, 3⟩)]) 14 = 0 ∧
    ∀ μ : ℝ, PR (innerM [(⟨1, 0, 0⟩, ⟨0, 1, 0⟩), (⟨0, 2, 0⟩, ⟨-2, 0, 0⟩), (⟨0, 0, 3⟩, ⟨0, 0, 3⟩)]) μ = 0 → μ ≤ 14 := by
  have h2 : C2 (innerM [(⟨1, 0, 0⟩, ⟨0, 1, 0⟩), (⟨0, 2, 0⟩, ⟨-2, 0, 0⟩), (⟨0, 0, 3⟩, ⟨0, 0, 3⟩)]) = -196 := by decide +kernel
  have h1 : C1 (innerM [(⟨1, 0, 0⟩, ⟨0, 1, 0⟩), (⟨0, 2, 0⟩, ⟨-2, 0, 0⟩), (⟨0, 0, 3⟩, ⟨0, 0, 3⟩)]) = -288 := by decide +kernel
  have h0 : C0 (innerM [(⟨1, 0, 0⟩, ⟨0, 1, 0⟩), (⟨0, 2, 0⟩, ⟨-2, 0, 0⟩), (⟨0, 0, 3⟩, ⟨0, 0, 3⟩)]) = 4032 := by decide +kernel
  simp only [PR, h2, h1, h0]
  constructor
  · norm_num
  · intro μ hμ
    by_contra hc
    push_neg at hc
    have ht : 0 < μ - 14 := by linarith
    have e : μ * μ * μ * μ + ((-196 : Rat) : ℝ) * μ * μ + ((-288 : Rat) : ℝ) * μ + ((4032 : Rat) : ℝ)
        = (μ - 14) ^ 4 + 56 * (μ - 14) ^ 3 + 980 * (μ - 14) ^ 2 + 5200 * (μ - 14) := by push_cast; ring
    rw [e] at hμ
    have : 0 < (μ - 14) ^ 4 + 56 * (μ - 14) ^ 3 + 980 * (μ - 14) ^ 2 + 5200 * (μ - 14) := by positivity
    linarith

end MdVerif.Qcp
