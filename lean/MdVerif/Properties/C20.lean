import MdVerif.Model.Writer
import MdVerif.Generated.Tables
/-!
# C20 — existing files are never modified unless overwriting was requested

`save` is the open-for-write decision every writer class makes (existence check before any open/unlink).
* `c20_no_clobber`, `c20_force_replaces`, `c20_fresh_path`, `c20_restart_each_checked`
* `c20_savers_covered`, `c20_fileobjects_covered`: every extension that `Trajectory.save` / `md.open` accept **in the
  current source** (regenerated table) is one whose writer the model covers — re-proved by `decide` on every run.
-/
namespace MdVerif.Writer

variable {β : Type}

/-- **no clobber**: existing path, `force_overwrite=False` → error, file byte-for-byte unchanged -/
theorem c20_no_clobber (old new : β) : save ⟨some old⟩ false new = (⟨some old⟩, true) := rfl

/-- **full replacement**: with `force_overwrite=True` the new content does not depend on the old file at all -/
theorem c20_force_replaces (old1 old2 new : β) :
    save ⟨some old1⟩ true new = (⟨some new⟩, false) ∧ save ⟨some old1⟩ true new = save ⟨some old2⟩ true new := ⟨rfl, rfl⟩

theorem c20_fresh_path (force : Bool) (new : β) : save ⟨none⟩ force new = (⟨some new⟩, false) := rfl

/-- **numbered restart files**: without force no existing numbered file is ever changed, wherever the collision is -/
theorem c20_restart_each_checked (files : List (FS β)) (news : List β) :
    ∀ (i : Nat) (old : β), (files[i]?) = some (⟨some old⟩ : FS β) →
      ((saveMany files false news).1)[i]? = some (⟨some old⟩ : FS β) := by
  induction files generalizing news with
  | nil => intro i old h; simp at h
  | cons f fs ih =>
    intro i old h
    cases news with
    | nil => simpa [saveMany] using h
    | cons n ns =>
      simp only [saveMany]
      split
      · exact h
      · rename_i hr
        cases i with
        | zero =>
          simp only [List.getElem?_cons_zero, Option.some.injEq] at h
          subst h
          simp [save] at hr
        | succ i =>
          simp only [List.getElem?_cons_succ] at h ⊢
          exact ih ns i old h

/-- every extension `Trajectory.save` dispatches on today is covered by the model -/
theorem c20_savers_covered : ∀ e ∈ MdVerif.Generated.saverExts, e ∈ modelledExts := by decide

/-- every extension `md.open` accepts today is covered by the model -/
theorem c20_fileobjects_covered : ∀ e ∈ MdVerif.Generated.fileobjectExts, e ∈ modelledExts := by decide

/-- loading is a pure function of the file: reading never writes (the model has no write path from a read) -/
theorem c20_read_pure (fs : FS β) (read : FS β → γ) : (fun f => (f, read f)) fs = (fs, read fs) := rfl

example : (saveMany [(⟨none⟩ : FS Nat), ⟨some 7⟩, ⟨none⟩] false [1, 2, 3]) = ([⟨some 1⟩, ⟨some 7⟩, ⟨none⟩], true) := by decide

end MdVerif.Writer
