import MdVerif.Proofs.FileSysLemmas
import MdVerif.Model.Writer
import MdVerif.Generated.Tables
/-!
# C20 — existing files are never modified unless overwriting was requested

`save` is the open-for-write decision every writer class makes (existence check before any open/unlink).
* `c20_no_clobber`, `c20_force_replaces`, `c20_fresh_path`, `c20_restart_each_checked`
* `c20_savers_covered`, `c20_fileobjects_covered`: every extension that `Trajectory.save` / `md.open` accept **in the
  current source** (regenerated table) is one whose writer the model covers — re-proved by `decide` on every run.
-/
namespace MdVerif.Writer

variable {β : Type}

/-- **no clobber**: existing path, `force_overwrite=False` → error, file byte-for-byte unchanged -/
theorem c20_no_clobber (old new : β) : save ⟨some old⟩ false new = (⟨some old⟩, true) := rfl

/-- **full replacement**: with `force_overwrite=True` the new content does not depend on the old file at all -/
theorem c20_force_replaces (old1 old2 new : β) :
    save ⟨some old1⟩ true new = (⟨some new⟩, false) ∧ save ⟨some old1⟩ true new = save ⟨some old2⟩ true new := ⟨rfl, rfl⟩

theorem c20_fresh_path (force : Bool) (new : β) : save ⟨none⟩ force new = (⟨some new⟩, false) := rfl

/-- **numbered restart files**: without force no existing numbered file is ever changed, wherever the collision is -/
theorem c20_restart_each_checked (files : List (FS β)) (news : List β) :
    ∀ (i : Nat) (old : β), (files[i]?) = some (⟨some old⟩ : FS β) →
      ((saveMany files false news).1)[i]? = some (⟨some old⟩ : FS β) := by
  induction files generalizing news with
  | nil => intro i old h; simp at h
  | cons f fs ih =>
    intro i old h
    cases news with
    | nil => simpa [saveMany] using h
    | cons n ns =>
      simp only [saveMany]
      split
      · exact h
      · rename_i hr
        cases i with
        | zero =>
          simp only [List.getElem?_cons_zero, Option.some.injEq] at h
          subst h
          simp [save] at hr
        | succ i =>
          simp only [List.getElem?_cons_succ] at h ⊢
          exact ih ns i old h

/-- every extension `Trajectory.save` dispatches on today is covered by the model -/
theorem c20_savers_covered : ∀ e ∈ MdVerif.Generated.saverExts, e ∈ modelledExts := by decide

/-- every extension `md.open` accepts today is covered by the model -/
theorem c20_fileobjects_covered : ∀ e ∈ MdVerif.Generated.fileobjectExts, e ∈ modelledExts := by decide

/-- loading is a pure function of the file: reading never writes (the model has no write path from a read) -/
theorem c20_read_pure (fs : FS β) (read : FS β → γ) : (fun f => (f, read f)) fs = (fs, read fs) := rfl

example : (saveMany [(⟨none⟩ : FS Nat), ⟨some 7⟩, ⟨none⟩] false [1, 2, 3]) = ([⟨some 1⟩, ⟨some 7⟩, ⟨none⟩], true) := by decide

end MdVerif.Writer

/-! ## a directory of files: frame condition, numbered files, truncation (Model/FileSys.lean) -/
namespace MdVerif.FileSys
variable {β : Type}

/-- **no clobber**: with `force_overwrite=False` an existing path is refused and the whole directory is left as it was -/
theorem c20_fs_no_clobber (d : Dir β) (p : String) (c old : β) (h : lookup d p = some old) :
    openWrite p false d c = (d, true) := by
  simp [openWrite, openWriteAt, h]

/-- **fully replaced**: with `force_overwrite=True` the path holds exactly the new content -/
theorem c20_fs_replaces (d : Dir β) (p : String) (c : β) :
    lookup (openWrite p true d c).1 p = some c ∧ (openWrite p true d c).2 = false := by
  simp [openWrite, openWriteAt, lookup_put_same]

/-- **frame condition**: no other path is touched, whatever the outcome -/
theorem c20_fs_frame (d : Dir β) (p q : String) (force : Bool) (c : β) (hq : q ≠ p) :
    lookup (openWrite p force d c).1 q = lookup d q := by
  unfold openWrite openWriteAt
  split
  · rfl
  · exact lookup_put_other d p q c hq

/-- a fresh path is created whatever the flag -/
theorem c20_fs_fresh (d : Dir β) (p : String) (force : Bool) (c : β) (h : lookup d p = none) :
    lookup (openWrite p force d c).1 p = some c ∧ (openWrite p force d c).2 = false := by
  simp [openWrite, openWriteAt, h, lookup_put_same]

/-- numbered files: nothing but the listed paths can change, and with `force_overwrite=False` an existing one among them is never changed -/
theorem c20_fs_many_frame (force : Bool) (d : Dir β) (ws : List (String × β)) (q : String) (hq : ∀ w ∈ ws, w.1 ≠ q) :
    lookup (saveMany force d ws).1 q = lookup d q := by
  induction ws generalizing d with
  | nil => rfl
  | cons w ws ih =>
    obtain ⟨p, c⟩ := w
    have hp : q ≠ p := fun e => hq (p, c) (by simp) e.symm
    simp only [saveMany]
    have hf := c20_fs_frame d p q force c hp
    cases ho : openWrite p force d c with
    | mk d' err =>
      rw [ho] at hf
      cases err with
      | true => simpa using hf
      | false =>
        simp only
        rw [ih d' (fun w hw => hq w (by simp [hw]))]
        exact hf

theorem c20_fs_many_no_clobber (d : Dir β) (ws : List (String × β)) (q : String) (old : β) (h : lookup d q = some old) :
    lookup (saveMany false d ws).1 q = some old := by
  induction ws generalizing d with
  | nil => exact h
  | cons w ws ih =>
    obtain ⟨p, c⟩ := w
    simp only [saveMany]
    by_cases hpq : p = q
    · subst hpq
      rw [c20_fs_no_clobber d p c old h]
      exact h
    · have hf := c20_fs_frame d p q false c (fun e => hpq e.symm)
      cases ho : openWrite p false d c with
      | mk d' err =>
        rw [ho] at hf
        cases err with
        | true => simp only; rw [hf]; exact h
        | false => simp only; exact ih d' (by rw [hf]; exact h)

/-- **why the open must truncate**: written over a longer file without truncation, the old tail stays (seeded change C20-rst7-opened-without-truncation) -/
theorem c20_overlay_keeps_tail (old new : List Nat) (h : new.length < old.length) : overlay old new ≠ new := by
  intro e
  have : (overlay old new).length = new.length := by rw [e]
  simp only [overlay, List.length_append, List.length_drop] at this
  omega

theorem c20_overlay_short (old new : List Nat) (h : old.length ≤ new.length) : overlay old new = new := by
  simp [overlay, List.drop_eq_nil_of_le h]

/-- **why the test must name the path that is opened**: checked under another spelling, an existing file is replaced although overwriting was
not requested (seeded change C20-zipped-exists-test-on-lowercased-path) -/
theorem c20_check_other_path_witness :
    (openWriteAt "exist_a.xyz" "Exist_A.xyz" false [("Exist_A.xyz", 1)] 2) = ([("Exist_A.xyz", 2)], false) := by decide

/-- **a save that cannot succeed touches nothing**: the saver rejects its input before it opens anything, the directory is as it was, whatever
the overwrite flag -/
theorem c20_fs_failed_save_frame {β : Type} (d : Dir β) (p : String) (force : Bool) (c : β) :
    save false p force d c = (d, true) := by
  simp [save]

/-- a save of a valid input is the open-for-write step: refused saves and accepted ones are covered by `c20_fs_no_clobber` / `c20_fs_replaces` -/
theorem c20_fs_valid_save {β : Type} (d : Dir β) (p : String) (force : Bool) (c : β) :
    save true p force d c = openWrite p force d c := by
  simp [save]

/-- **why a clean-up on the error path is wrong** (seeded change C20-failed-save-removes-the-target): the rejected save, asked not to overwrite,
removes the file that was there -/
theorem c20_cleanup_witness :
    lookup (saveWithCleanup false "box.mdcrd" false [("box.mdcrd", 1), ("other", 2)] 9).1 "box.mdcrd" = none ∧
    lookup (save false "box.mdcrd" false [("box.mdcrd", 1), ("other", 2)] 9).1 "box.mdcrd" = some 1 := by
  refine ⟨by decide, by decide⟩

end MdVerif.FileSys
