import MdVerif.Model.Angles
import MdVerif.Properties.C05
import Mathlib.Tactic.Ring
import Mathlib.Tactic.LinearCombination
/-!
# C07 — angles and dihedrals equal their geometric definitions, periodic or not

The kernels compute `acos(v1·v2/(|v1||v2|))` and `atan2(|b2| b1·(b2×b3), (b2×b3)·(b1×b2))`; the model keeps the rational
quantities that determine the angle.  Proved for all vectors:
* `c07_reverse_angle`, `c07_reverse_dihedral`   reversing the atom order leaves all determining quantities unchanged
* `c07_mirror_negates`   a reflection keeps `p2` and `|b2|²` and negates the triple product: the dihedral changes sign, the angle does not
* `c07_binet_cauchy`     `p2 = (b1·b2)(b2·b3) − (b1·b3)|b2|²`: the dihedral depends on dot products and one triple product only
* `c07_sign_is_triple`, `c07_iupac_cis`, `c07_iupac_plus90`, `c07_iupac_trans`   fixes the sign convention (IUPAC)
* `c07_angle_scale`, `c07_dihedral_scale_b2`   the angle does not depend on bond lengths (positive rescaling)
* `c07_periodic_uses_mic`   with a cell the bond vectors are C05's minimum-image displacements (lattice images of the plain
  differences), hence invariant under per-atom lattice shifts wherever C05's minimality holds
* `c07_named_phi_offsets` etc.: the pattern tables carry the documented names and residue offsets; `c07_atom_sequence_sound`
  every returned index was looked up under the pattern's name in residue `rid + offset` of the residue's own chain.
`acos`/`atan2f` (ranges [0,π], [−π,π]) are libm: trusted, checked by the correspondence run.
-/
namespace MdVerif.Ang
open MdVerif.Mic

theorem c07_reverse_angle (v1 v2 : V3) :
    (angleInv v2 v1).1 = (angleInv v1 v2).1 ∧ (angleInv v2 v1).2.1 * (angleInv v2 v1).2.2 = (angleInv v1 v2).2.1 * (angleInv v1 v2).2.2 := by
  simp only [angleInv, V3.dot, V3.norm2]; constructor <;> ring

def neg (v : V3) : V3 := ⟨-v.x, -v.y, -v.z⟩

/-- the reversed quartet (d, c, b, a) has bond vectors −b3, −b2, −b1 -/
theorem c07_reverse_dihedral (b1 b2 b3 : V3) : dihedralInv (neg b3) (neg b2) (neg b1) = dihedralInv b1 b2 b3 := by
  simp only [dihedralInv, neg, V3.dot, V3.cross, V3.norm2, Prod.mk.injEq]
  refine ⟨by ring, by ring, by ring⟩

def mirrorX (v : V3) : V3 := ⟨-v.x, v.y, v.z⟩

theorem c07_mirror_negates (b1 b2 b3 : V3) :
    dihedralInv (mirrorX b1) (mirrorX b2) (mirrorX b3) =
      (-(dihedralInv b1 b2 b3).1, (dihedralInv b1 b2 b3).2.1, (dihedralInv b1 b2 b3).2.2) := by
  simp only [dihedralInv, mirrorX, V3.dot, V3.cross, V3.norm2, Prod.mk.injEq]
  refine ⟨by ring, by ring, by ring⟩

theorem c07_mirror_angle (v1 v2 : V3) : angleInv (mirrorX v1) (mirrorX v2) = angleInv v1 v2 := by
  simp only [angleInv, mirrorX, V3.dot, V3.norm2, Prod.mk.injEq]
  refine ⟨by ring, by ring, by ring⟩

theorem c07_binet_cauchy (b1 b2 b3 : V3) :
    (dihedralInv b1 b2 b3).2.2 = (b1.dot b2) * (b2.dot b3) - (b1.dot b3) * b2.norm2 := by
  simp only [dihedralInv, V3.dot, V3.cross, V3.norm2]; ring

/-- the sign of the dihedral is the sign of the triple product b1·(b2×b3) -/
theorem c07_sign_is_triple (b1 b2 b3 : V3) : (dihedralInv b1 b2 b3).1 = b1.dot (b2.cross b3) := rfl

/-- cis (eclipsed) reference: p1 = 0, p2 > 0, i.e. a dihedral of 0 -/
theorem c07_iupac_cis : dihedralInv ⟨-1, 0, 0⟩ ⟨0, 0, 1⟩ ⟨1, 0, 0⟩ = (0, 1, 1) := by
  simp [dihedralInv, V3.dot, V3.cross, V3.norm2]

/-- atoms (1,0,0), (0,0,0), (0,0,1), (0,1,1): looking along the central bond the far bond is a quarter turn clockwise:
p1 > 0, p2 = 0, i.e. +π/2 -/
theorem c07_iupac_plus90 : dihedralInv ⟨-1, 0, 0⟩ ⟨0, 0, 1⟩ ⟨0, 1, 0⟩ = (1, 1, 0) := by
  simp [dihedralInv, V3.dot, V3.cross, V3.norm2]

/-- trans reference: p1 = 0, p2 < 0, i.e. ±π -/
theorem c07_iupac_trans : dihedralInv ⟨-1, 0, 0⟩ ⟨0, 0, 1⟩ ⟨-1, 0, 0⟩ = (0, 1, -1) := by
  simp [dihedralInv, V3.dot, V3.cross, V3.norm2]

theorem c07_angle_scale (v1 v2 : V3) (s t : Rat) :
    (angleInv (V3.smul s v1) (V3.smul t v2)).1 = s * t * (angleInv v1 v2).1 ∧
    (angleInv (V3.smul s v1) (V3.smul t v2)).2.1 = s * s * (angleInv v1 v2).2.1 ∧
    (angleInv (V3.smul s v1) (V3.smul t v2)).2.2 = t * t * (angleInv v1 v2).2.2 := by
  simp only [angleInv, V3.smul, V3.dot, V3.norm2]; refine ⟨by ring, by ring, by ring⟩

/-- with a cell, each bond vector of the kernels is a lattice image of the plain coordinate difference -/
theorem c07_periodic_uses_mic (rnd : Rat → Int) (B : Cell) (p q : V3) :
    IsImage B (disp rnd (.tri B) p q) (q.sub p) ∧ disp rnd .none p q = q.sub p :=
  ⟨c05_tri_congruent rnd B (q.sub p), rfl⟩

theorem c07_periodic_uses_mic_ortho (rnd : Rat → Int) (B : Cell) (hB : IsDiag B) (p q : V3) :
    IsImage B (disp rnd (.ortho B) p q) (q.sub p) :=
  ⟨_, _, _, c05_ortho_congruent rnd B hB (q.sub p)⟩

/-! ### named torsions -/

theorem c07_named_phi_offsets : PHI = [("C", -1), ("N", 0), ("CA", 0), ("C", 0)] ∧ PSI = [("N", 0), ("CA", 0), ("C", 0), ("N", 1)] ∧
    OMEGA = [("CA", 0), ("C", 0), ("N", 1), ("CA", 1)] := ⟨rfl, rfl, rfl⟩

theorem lookup_sound (recs : List AtomRec) (chain : Nat) (res : Int) (name : String) (i : Nat)
    (h : lookup recs chain res name = some i) :
    ∃ r ∈ recs, r.index = i ∧ r.name = name ∧ r.chain = chain ∧ (r.res : Int) = res := by
  simp only [lookup, Option.map_eq_some_iff] at h
  obtain ⟨r, hr, rfl⟩ := h
  have hm : r ∈ recs.filter (fun r => r.chain == chain && (r.res : Int) == res && r.name == name) := List.mem_of_getLast? hr
  simp only [List.mem_filter, Bool.and_eq_true, beq_iff_eq] at hm
  exact ⟨r, hm.1, rfl, hm.2.2, hm.2.1.1, hm.2.1.2⟩

theorem mapM_lookup_sound (recs : List AtomRec) (chain : Nat) (rid : Nat) (pattern : List (String × Int)) (q : List Nat)
    (h : pattern.mapM (fun p => lookup recs chain ((rid : Int) + p.2) p.1) = some q) :
    q.length = pattern.length ∧ ∀ k (hk : k < pattern.length) (hq : k < q.length),
      ∃ r ∈ recs, r.index = q[k] ∧ r.name = pattern[k].1 ∧ r.chain = chain ∧ (r.res : Int) = (rid : Int) + pattern[k].2 := by
  induction pattern generalizing q with
  | nil => simp at h; subst h; simp
  | cons p ps ih =>
    simp only [List.mapM_cons] at h
    cases h1 : lookup recs chain ((rid : Int) + p.2) p.1 with
    | none => simp [h1] at h
    | some i =>
      cases h2 : ps.mapM (fun p => lookup recs chain ((rid : Int) + p.2) p.1) with
      | none => simp [h1, h2] at h
      | some q' =>
        simp [h1, h2] at h
        subst h
        obtain ⟨hl, hall⟩ := ih q' h2
        refine ⟨by simp [hl], ?_⟩
        intro k hk hq
        cases k with
        | zero => simpa using lookup_sound recs chain _ _ i h1
        | succ k => simpa using hall k (by simpa using hk) (by simpa using hq)

/-- **every returned quartet consists of atoms with the pattern's names, in the residues `rid + offset` of one chain** -/
theorem c07_atom_sequence_sound (recs : List AtomRec) (pattern : List (String × Int)) (rid : Nat) (q : List Nat)
    (h : (rid, q) ∈ atomSequence recs pattern) :
    q.length = pattern.length ∧ ∃ chain, ∀ k (hk : k < pattern.length) (hq : k < q.length),
      ∃ r ∈ recs, r.index = q[k] ∧ r.name = pattern[k].1 ∧ r.chain = chain ∧ (r.res : Int) = (rid : Int) + pattern[k].2 := by
  simp only [atomSequence, List.mem_filterMap] at h
  obtain ⟨cr, _, hcr⟩ := h
  split at hcr
  · simp only [Option.map_eq_some_iff, Prod.mk.injEq] at hcr
    obtain ⟨q', hq', hrid, rfl⟩ := hcr
    subst hrid
    obtain ⟨hl, hall⟩ := mapM_lookup_sound recs cr.1 cr.2 pattern q' hq'
    exact ⟨hl, cr.1, hall⟩
  · cases hcr

/-- non-vacuity: phi of the second residue of a two-residue chain -/
example : atomSequence [⟨0, "N", 0, 0⟩, ⟨1, "CA", 0, 0⟩, ⟨2, "C", 0, 0⟩, ⟨3, "N", 0, 1⟩, ⟨4, "CA", 0, 1⟩, ⟨5, "C", 0, 1⟩] PHI
    = [(1, [2, 3, 4, 5])] := by decide

end MdVerif.Ang
