import MdVerif.Model.Hbond
import Mathlib.Tactic.Ring
import Mathlib.Tactic.Linarith
import Mathlib.Tactic.Positivity
/-!
# C14 — reported hydrogen bonds are exactly those meeting the stated criteria

* `c14_triplets_spec`      `_get_bond_triplets` yields exactly the (donor, hydrogen, acceptor) triples with an N–H or O–H bond whose two atoms
                           may participate, an N or O acceptor that may participate, acceptor ≠ donor
* `c14_cosLt_spec`         the square-root-free angle test decides `num / (2√(a²b²)) < k` for every sign combination
* `c14_present_close`, `c14_prefilter_sound`, `c14_bh_keep`   the distance prefilter of `_compute_bounded_geometry` never changes the result:
                           a triplet is returned iff its presence fraction exceeds `freq`
* `c14_wn_within_cutoff`   the Wernet–Nilsson cone lies inside the 0.33 nm prefilter
* `c14_store_best_two`     `store_energies` keeps, for every sequence of candidates, the two lowest energies (slot 0 ≤ slot 1 ≤ all others)
* `c14_ks_frame_best_two`, `c14_ks_frame_proline`   the slots of a donor in a frame are the two lowest qualifying energies among the evaluated candidates; prolines never donate
* `c14_candidates_spec`    which (donor, acceptor) residue pairs the kernel evaluates: both complete, C-alphas close, donor i+1 → acceptor i excluded
-/
namespace MdVerif.Hb
open MdVerif.Mic

theorem mem_donors (atoms : List HAtom) (bonds : List (Nat × Nat)) (heavy : Nat) (hh : heavy ≠ 1) (w s : Bool) (d h : Nat) :
    (d, h) ∈ donors atoms bonds heavy w s ↔
      ∃ ad ah, atoms[d]? = some ad ∧ atoms[h]? = some ah ∧ ad.elem = heavy ∧ ah.elem = 1 ∧ canPart w s ad = true ∧ canPart w s ah = true ∧
        ((d, h) ∈ bonds ∨ (h, d) ∈ bonds) := by
  simp only [donors, List.mem_filterMap]
  constructor
  · rintro ⟨b, hb, hm⟩
    cases h0 : atoms[b.1]? with
    | none => simp [h0] at hm
    | some a0 =>
      cases h1 : atoms[b.2]? with
      | none => simp [h0, h1] at hm
      | some a1 =>
        simp only [h0, h1] at hm
        split at hm
        · rename_i hc
          simp only [Bool.and_eq_true, Bool.or_eq_true, beq_iff_eq] at hc
          obtain ⟨⟨he, hp0⟩, hp1⟩ := hc
          by_cases e1 : a0.elem = 1
          · have : (b.2, b.1) = (d, h) := by simpa [e1] using hm
            obtain ⟨rfl, rfl⟩ := Prod.mk.inj this
            rcases he with ⟨x, _⟩ | ⟨_, y⟩
            · exact absurd (x ▸ e1) hh
            · exact ⟨a1, a0, h1, h0, y, e1, hp1, hp0, Or.inr (by simpa using hb)⟩
          · have : (b.1, b.2) = (d, h) := by simpa [e1] using hm
            obtain ⟨rfl, rfl⟩ := Prod.mk.inj this
            rcases he with ⟨x, y⟩ | ⟨x, _⟩
            · exact ⟨a0, a1, h0, h1, x, y, hp0, hp1, Or.inl (by simpa using hb)⟩
            · exact absurd x e1
        · simp at hm
  · rintro ⟨ad, ah, hd, hH, ed, eh, pd, ph, hb | hb⟩
    · refine ⟨(d, h), hb, ?_⟩
      have : ¬ ad.elem = 1 := by rw [ed]; exact hh
      simp [hd, hH, ed, eh, pd, ph, hh]
    · refine ⟨(h, d), hb, ?_⟩
      simp [hd, hH, ed, eh, pd, ph]

theorem mem_acceptors (atoms : List HAtom) (w s : Bool) (a : Nat) :
    a ∈ acceptors atoms w s ↔ ∃ x, atoms[a]? = some x ∧ (x.elem = 2 ∨ x.elem = 3) ∧ canPart w s x = true := by
  simp only [acceptors, List.mem_filter, List.mem_range]
  constructor
  · rintro ⟨_, hm⟩
    cases ha : atoms[a]? with
    | none => simp [ha] at hm
    | some x => exact ⟨x, rfl, by simpa [ha] using hm⟩
  · rintro ⟨x, hx, he, hp⟩
    refine ⟨(List.getElem?_eq_some_iff.mp hx).1, ?_⟩
    rcases he with he | he <;> simp [hx, he, hp]

/-- **the candidate triplets are exactly those the criteria describe** -/
theorem c14_triplets_spec (atoms : List HAtom) (bonds : List (Nat × Nat)) (w s : Bool) (d h a : Nat) :
    (d, h, a) ∈ triplets atoms bonds w s ↔
      (∃ ad ah, atoms[d]? = some ad ∧ atoms[h]? = some ah ∧ (ad.elem = 2 ∨ ad.elem = 3) ∧ ah.elem = 1 ∧ canPart w s ad = true ∧ canPart w s ah = true ∧
        ((d, h) ∈ bonds ∨ (h, d) ∈ bonds)) ∧
      (∃ x, atoms[a]? = some x ∧ (x.elem = 2 ∨ x.elem = 3) ∧ canPart w s x = true) ∧ a ≠ d := by
  simp only [triplets, List.mem_flatMap, List.mem_append, List.mem_filterMap]
  constructor
  · rintro ⟨dh, hdh, a', ha', hm⟩
    by_cases e : a' = dh.1
    · simp [e] at hm
    · have : (dh.1, dh.2, a') = (d, h, a) := by simpa [e] using hm
      obtain ⟨rfl, r2⟩ := Prod.mk.inj this
      obtain ⟨rfl, rfl⟩ := Prod.mk.inj r2
      refine ⟨?_, (mem_acceptors atoms w s _).mp ha', e⟩
      rcases hdh with hdh | hdh
      · obtain ⟨ad, ah, x1, x2, x3, x4, x5, x6, x7⟩ := (mem_donors atoms bonds 2 (by decide) w s dh.1 dh.2).mp hdh
        exact ⟨ad, ah, x1, x2, Or.inl x3, x4, x5, x6, x7⟩
      · obtain ⟨ad, ah, x1, x2, x3, x4, x5, x6, x7⟩ := (mem_donors atoms bonds 3 (by decide) w s dh.1 dh.2).mp hdh
        exact ⟨ad, ah, x1, x2, Or.inr x3, x4, x5, x6, x7⟩
  · rintro ⟨⟨ad, ah, x1, x2, x3, x4, x5, x6, x7⟩, hacc, hne⟩
    refine ⟨(d, h), ?_, a, (mem_acceptors atoms w s a).mpr hacc, by simp [hne]⟩
    rcases x3 with x3 | x3
    · exact Or.inl ((mem_donors atoms bonds 2 (by decide) w s d h).mpr ⟨ad, ah, x1, x2, x3, x4, x5, x6, x7⟩)
    · exact Or.inr ((mem_donors atoms bonds 3 (by decide) w s d h).mpr ⟨ad, ah, x1, x2, x3, x4, x5, x6, x7⟩)

/-- **the angle test without square roots**: with S = √ab2 > 0, `cosLt num ab2 k` decides `num < 2·k·S` -/
theorem c14_cosLt_spec (num ab2 k S : Rat) (hS : 0 < S) (hab : S * S = ab2) : cosLt num ab2 k = true ↔ num < 2 * k * S := by
  unfold cosLt
  by_cases hk0 : k = 0
  · simp [hk0]
  · simp only [hk0, if_false]
    by_cases hkp : 0 < k
    · simp only [hkp, if_true, Bool.or_eq_true, decide_eq_true_eq]
      have hpos : 0 < 2 * k * S := by positivity
      constructor
      · rintro (h | h)
        · linarith
        · by_contra hc
          have hc' : 2 * k * S ≤ num := not_lt.mp hc
          have : (2 * k * S) * (2 * k * S) ≤ num * num := mul_self_le_mul_self (le_of_lt hpos) hc'
          rw [← hab] at h; nlinarith
      · intro h
        by_cases hn : num < 0
        · exact Or.inl hn
        · right
          have hn' : 0 ≤ num := not_lt.mp hn
          have : num * num < (2 * k * S) * (2 * k * S) := mul_self_lt_mul_self hn' h
          rw [← hab]; nlinarith
    · have hkn : k < 0 := lt_of_le_of_ne (not_lt.mp hkp) hk0
      simp only [hkp, if_false, Bool.and_eq_true, decide_eq_true_eq]
      have hneg : 2 * k * S < 0 := by nlinarith
      constructor
      · rintro ⟨hn, hsq⟩
        by_contra hc
        have hc' : 2 * k * S ≤ num := not_lt.mp hc
        -- both negative: |num| ≤ |2kS|
        have : num * num ≤ (2 * k * S) * (2 * k * S) := by nlinarith
        rw [← hab] at hsq; nlinarith
      · intro h
        refine ⟨by linarith, ?_⟩
        have : (2 * k * S) * (2 * k * S) < num * num := by nlinarith
        rw [← hab]; nlinarith

theorem c14_present_close (pD pH pA : V3) (cut kcos : Rat) (h : bhPresent pD pH pA cut kcos = true) : bhClose pH pA cut = true := by
  simp only [bhPresent, bhClose, Bool.and_eq_true] at h ⊢
  exact h.1

theorem count_le_of_imp : ∀ (p c : List Bool), p.length = c.length → (∀ i : Nat, p[i]? = some true → c[i]? = some true) → p.count true ≤ c.count true := by
  intro p
  induction p with
  | nil => intro c _ _; simp
  | cons x xs ih =>
    intro c hl himp
    cases c with
    | nil => simp at hl
    | cons y ys =>
      have hl' : xs.length = ys.length := by simpa using hl
      have h' : ∀ i : Nat, xs[i]? = some true → ys[i]? = some true := fun i hi => by simpa using himp (i + 1) (by simpa using hi)
      have := ih ys hl' h'
      cases x with
      | false => simp only [List.count_cons]; cases y <;> simp <;> omega
      | true =>
        have hy : y = true := by simpa using himp 0 (by simp)
        subst hy; simp only [List.count_cons]; simp; omega

/-- **the distance prefilter is sound**: presence above `freq` implies closeness above `freq` -/
theorem c14_prefilter_sound (close pres : List Bool) (freq : Rat) (hl : pres.length = close.length)
    (himp : ∀ i : Nat, pres[i]? = some true → close[i]? = some true) (h : above pres freq = true) : above close freq = true := by
  simp only [above, decide_eq_true_eq, gt_iff_lt] at h ⊢
  have hc := count_le_of_imp pres close hl himp
  rw [hl] at h
  have hc' : ((pres.count true : Nat) : Rat) ≤ ((close.count true : Nat) : Rat) := by exact_mod_cast hc
  have : ((pres.count true : Nat) : Rat) / (close.length : Rat) ≤ ((close.count true : Nat) : Rat) / (close.length : Rat) :=
    div_le_div_of_nonneg_right hc' (by positivity)
  linarith

/-- **baker_hubbard returns a triplet iff its presence fraction exceeds `freq`** -/
theorem c14_bh_keep (close pres : List Bool) (freq : Rat) (hl : pres.length = close.length)
    (himp : ∀ i : Nat, pres[i]? = some true → close[i]? = some true) : bhKeep close pres freq = above pres freq := by
  unfold bhKeep
  cases h : above pres freq with
  | false => simp
  | true => simp [c14_prefilter_sound close pres freq hl himp h]

/-- **the Wernet–Nilsson cone lies inside its 0.33 nm prefilter** -/
theorem c14_wn_within_cutoff (r2 delta2 : Rat) (hd : 0 ≤ delta2) (h : wnPresent r2 delta2 = true) : r2 < (33 / 100) * (33 / 100) := by
  simp only [wnPresent, Bool.and_eq_true, decide_eq_true_eq] at h
  obtain ⟨hc, hr⟩ := h
  have hle : (33 : Rat) / 100 - 44 / 1000000 * delta2 ≤ 33 / 100 := by nlinarith
  nlinarith

/-! ### store_energies keeps the two lowest -/

/-- what the two slots hold after the candidates `l` (in order) -/
def Best2 (st : Slot × Slot) (l : List (Nat × Rat)) : Prop :=
  match st with
  | (none, none) => l = []
  | (some m, none) => l = [m]
  | (some m, some s) => ∃ i0 i1 : Nat, i0 ≠ i1 ∧ l[i0]? = some m ∧ l[i1]? = some s ∧ m.2 ≤ s.2 ∧ (∀ (j : Nat) (x : Nat × Rat), j ≠ i0 → l[j]? = some x → s.2 ≤ x.2)
  | (none, some _) => False

theorem store_best2 (st : Slot × Slot) (l : List (Nat × Rat)) (a : Nat) (e : Rat) (h : Best2 st l) : Best2 (store st a e) (l ++ [(a, e)]) := by
  obtain ⟨s0, s1⟩ := st
  cases s0 with
  | none =>
    cases s1 with
    | none => simp only [Best2] at h; subst h; simp [store, Best2]
    | some _ => simp [Best2] at h
  | some m =>
    obtain ⟨a0, e0⟩ := m
    cases s1 with
    | none =>
      simp only [Best2] at h; subst h
      by_cases hlt : e < e0
      · simp only [store, hlt, if_true, Best2]
        refine ⟨1, 0, by decide, by simp, by simp, le_of_lt hlt, ?_⟩
        intro j x hj hx
        have : j = 0 := by
          rcases j with _ | _ | j
          · rfl
          · exact absurd rfl hj
          · simp at hx
        subst this; simp at hx; subst hx; exact le_refl _
      · simp only [store, hlt, if_false, Best2]
        refine ⟨0, 1, by decide, by simp, by simp, not_lt.mp hlt, ?_⟩
        intro j x hj hx
        have : j = 1 := by
          rcases j with _ | _ | j
          · exact absurd rfl hj
          · rfl
          · simp at hx
        subst this; simp at hx; subst hx; exact le_refl _
    | some s =>
      obtain ⟨a1, e1⟩ := s
      simp only [Best2] at h
      obtain ⟨i0, i1, hne, h0, h1, hle, hall⟩ := h
      have hi0 : i0 < l.length := (List.getElem?_eq_some_iff.mp h0).1
      have hi1 : i1 < l.length := (List.getElem?_eq_some_iff.mp h1).1
      have app : ∀ j x, (l ++ [(a, e)])[j]? = some x → l[j]? = some x ∨ (j = l.length ∧ x = (a, e)) := by
        intro j x hx
        by_cases hj : j < l.length
        · left; rwa [List.getElem?_append_left hj] at hx
        · right
          have hj' : l.length ≤ j := not_lt.mp hj
          rw [List.getElem?_append_right hj'] at hx
          have : j - l.length = 0 := by
            by_contra hc
            have : 1 ≤ j - l.length := Nat.one_le_iff_ne_zero.mpr hc
            simp [List.getElem?_eq_none_iff.mpr (show [(a, e)].length ≤ j - l.length by simpa using this)] at hx
          rw [this] at hx; simp at hx
          exact ⟨by omega, hx.symm⟩
      have keep0 : (l ++ [(a, e)])[i0]? = some (a0, e0) := by rw [List.getElem?_append_left hi0]; exact h0
      have keep1 : (l ++ [(a, e)])[i1]? = some (a1, e1) := by rw [List.getElem?_append_left hi1]; exact h1
      have last : (l ++ [(a, e)])[l.length]? = some (a, e) := by simp
      by_cases hlt : e < e0
      · -- the new candidate becomes #0, the old #0 becomes #1
        simp only [store, hlt, if_true, Best2]
        refine ⟨l.length, i0, by omega, last, keep0, le_of_lt hlt, ?_⟩
        intro j x hj hx
        rcases app j x hx with hx' | ⟨hjl, _⟩
        · by_cases hj0 : j = i0
          · subst hj0; rw [h0] at hx'; cases hx'; exact le_refl _
          · exact le_trans hle (hall j x hj0 hx')
        · exact absurd hjl hj
      · simp only [store, hlt, if_false]
        by_cases hlt1 : e < e1
        · simp only [hlt1, if_true, Best2]
          refine ⟨i0, l.length, by omega, keep0, last, not_lt.mp hlt, ?_⟩
          intro j x hj hx
          rcases app j x hx with hx' | ⟨_, rfl⟩
          · exact le_trans (le_of_lt hlt1) (hall j x hj hx')
          · exact le_refl _
        · simp only [hlt1, if_false, Best2]
          refine ⟨i0, i1, hne, keep0, keep1, hle, ?_⟩
          intro j x hj hx
          rcases app j x hx with hx' | ⟨_, rfl⟩
          · exact hall j x hj hx'
          · exact not_lt.mp hlt1

/-- **for every sequence of candidates the slots hold the two lowest energies** -/
theorem c14_store_best_two (l : List (Nat × Rat)) : Best2 (l.foldl (fun st c => store st c.1 c.2) (none, none)) l := by
  suffices h : ∀ (pre : List (Nat × Rat)) (st : Slot × Slot), Best2 st pre → Best2 (l.foldl (fun st c => store st c.1 c.2) st) (pre ++ l) by
    simpa using h [] (none, none) (by simp [Best2])
  induction l with
  | nil => intro pre st h; simpa using h
  | cons c cs ih =>
    intro pre st h
    have := ih (pre ++ [c]) (store st c.1 c.2) (store_best2 st pre c.1 c.2 h)
    simpa using this

/-- **the two slots reported for a donor are the two lowest qualifying energies among the evaluated candidates**, whatever the structure -/
theorem c14_ks_frame_best_two (n : Nat) (skip proline : Nat → Bool) (caClose : Nat → Nat → Bool) (energy : Nat → Nat → Rat) (donor : Nat) :
    Best2 (ksFrame n skip proline caClose energy donor)
      (((ksCandidates n skip caClose).filter (fun da => da.1 == donor && energy da.1 da.2 < -1 / 2 && !proline da.1)).map (fun da => (da.2, energy da.1 da.2))) := by
  unfold ksFrame
  have h := c14_store_best_two (((ksCandidates n skip caClose).filter (fun da => da.1 == donor && energy da.1 da.2 < -1 / 2 && !proline da.1)).map (fun da => (da.2, energy da.1 da.2)))
  rw [List.foldl_map] at h
  exact h

/-- a proline never donates, and nothing above −0.5 kcal/mol is stored -/
theorem c14_ks_frame_proline (n : Nat) (skip proline : Nat → Bool) (caClose : Nat → Nat → Bool) (energy : Nat → Nat → Rat) (donor : Nat) (hp : proline donor = true) :
    ksFrame n skip proline caClose energy donor = (none, none) := by
  unfold ksFrame
  have : (ksCandidates n skip caClose).filter (fun da => da.1 == donor && energy da.1 da.2 < -1 / 2 && !proline da.1) = [] := by
    apply List.filter_eq_nil_iff.mpr
    intro da _
    by_cases hd : da.1 = donor
    · simp [hd, hp]
    · simp [hd]
  rw [this]; rfl

/-- **which residue pairs the kernel evaluates** -/
theorem c14_candidates_spec (n : Nat) (skip : Nat → Bool) (caClose : Nat → Nat → Bool) (d a : Nat) :
    (d, a) ∈ ksCandidates n skip caClose ↔
      d < n ∧ a < n ∧ skip d = false ∧ skip a = false ∧ ((d < a ∧ caClose d a = true) ∨ (a < d ∧ d ≠ a + 1 ∧ caClose a d = true)) := by
  simp only [ksCandidates, List.mem_flatMap, List.mem_range]
  constructor
  · rintro ⟨ri, hri, hm⟩
    by_cases hs : skip ri = true
    · simp [hs] at hm
    · have hs' : skip ri = false := by simpa using hs
      simp only [hs', Bool.false_eq_true, if_false, List.mem_flatMap, List.mem_filter, List.mem_range, Bool.and_eq_true, decide_eq_true_eq,
        Bool.not_eq_true'] at hm
      obtain ⟨rj, ⟨hrj, ⟨hlt, hsj⟩, hca⟩, hmem⟩ := hm
      simp only [List.mem_cons, Prod.mk.injEq] at hmem
      rcases hmem with ⟨rfl, rfl⟩ | hmem
      · exact ⟨hri, hrj, hs', hsj, Or.inl ⟨hlt, hca⟩⟩
      · by_cases hadj : rj = ri + 1
        · simp [hadj] at hmem
        · simp only [bne_iff_ne, ne_eq, hadj, not_false_eq_true, if_true, List.mem_cons, Prod.mk.injEq, List.not_mem_nil, or_false] at hmem
          obtain ⟨rfl, rfl⟩ := hmem
          exact ⟨hrj, hri, hsj, hs', Or.inr ⟨hlt, hadj, hca⟩⟩
  · rintro ⟨hd, ha, hsd, hsa, (⟨hlt, hca⟩ | ⟨hlt, hadj, hca⟩)⟩
    · refine ⟨d, hd, ?_⟩
      simp only [hsd, Bool.false_eq_true, if_false, List.mem_flatMap, List.mem_filter, List.mem_range, Bool.and_eq_true, decide_eq_true_eq,
        Bool.not_eq_true']
      exact ⟨a, ⟨ha, ⟨hlt, hsa⟩, hca⟩, by simp⟩
    · refine ⟨a, ha, ?_⟩
      simp only [hsa, Bool.false_eq_true, if_false, List.mem_flatMap, List.mem_filter, List.mem_range, Bool.and_eq_true, decide_eq_true_eq,
        Bool.not_eq_true']
      refine ⟨d, ⟨hd, ⟨hlt, hsd⟩, hca⟩, ?_⟩
      simp [hadj]

/-- non-vacuity: three candidates, the two lowest are kept in order -/
example : [(4, (-6 : Rat) / 10), (7, -2), (9, -1)].foldl (fun st c => store st c.1 c.2) (none, none) = (some (7, -2), some (9, -1)) := by
  decide +kernel

/-- **the law-of-cosines step of `_compute_bounded_geometry`**: when the three sides are the lengths of displacement vectors that close
into a triangle (`w = v − u`, as minimum-image sides do inside half the cell), `(a² + b² − c²)/(2ab)`'s numerator is twice the dot
product, i.e. the formula computes the cosine of the geometric angle between `u` and `v` -/
theorem c14_law_of_cosines (u v : V3) : u.norm2 + v.norm2 - (v.sub u).norm2 = 2 * u.dot v := by
  simp only [V3.norm2, V3.dot, V3.sub]; ring

/-- and when the sides do NOT close (sides taken to different periodic images, `w = v − u + l` with a lattice vector `l ≠ 0`), the formula
is off by `−2 l·(v − u) − |l|²`: this is the regime (a separation beyond half the cell) the property excludes -/
theorem c14_law_of_cosines_open (u v l : V3) :
    u.norm2 + v.norm2 - ((v.sub u).add l).norm2 = 2 * u.dot v - 2 * l.dot (v.sub u) - l.norm2 := by
  simp only [V3.norm2, V3.dot, V3.sub, V3.add]; ring

end MdVerif.Hb
