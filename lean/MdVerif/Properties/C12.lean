import MdVerif.Proofs.ScanLemmas
import MdVerif.Model.Selection
import MdVerif.Generated.Tables
/-!
# C12 — every selection expression selects exactly the atoms its meaning denotes

* `c12_select_exact`, `c12_select_sorted`  `select` returns, in increasing order, exactly the indices of the atoms on
  which the expression evaluates to a truthy value — for every topology size and every expression.
* `c12_ops_table`      every operator spelling **of the current source** (regenerated table) is classified by the model
  as the kind the source gives it, so aliases of one operator are one operator (`c12_alias_*`).
* `c12_prec_*`         schematic precedence theorems for arbitrary already-parsed operands `a b c` and **every** spelling:
  comparisons bind tighter than `not`, `not` tighter than `and`, `and` tighter than `or`; parentheses override;
  the regex match binds tighter than the connectives; a comparison chain keeps each operator.
* `c12_literal_*`      a literal used as a truth value, compared only with literals, or standing alone is rejected;
  unbalanced parentheses and dangling operators are rejected.
-/
namespace MdVerif.Sel

/-! ### exact and sorted -/

theorem select_go_spec (e : Expr) (atoms : List AtomView) (base : Nat) (res : List Nat)
    (h : select.go e base atoms = .ok res) :
    (∀ i, i ∈ res ↔ ∃ k, ∃ hk : k < atoms.length, i = base + k ∧ ∃ v, eval atoms[k] e = .ok v ∧ truthy v = true) ∧
    res.Pairwise (· < ·) ∧ ∀ i ∈ res, base ≤ i := by
  induction atoms generalizing base res with
  | nil =>
    simp only [select.go, Except.ok.injEq] at h
    subst h; simp
  | cons a r ih =>
    simp only [select.go] at h
    cases hev : eval a e with
    | error x => simp [hev] at h
    | ok v =>
      cases hgo : select.go e (base + 1) r with
      | error x => simp [hev, hgo] at h
      | ok rest =>
        simp only [hev, hgo, Except.ok.injEq] at h
        obtain ⟨h1, h2, h3⟩ := ih (base + 1) rest hgo
        have hmem : ∀ i, i ∈ rest → base + 1 ≤ i := h3
        by_cases ht : truthy v = true
        · simp only [ht, if_true] at h
          subst h
          refine ⟨?_, ?_, ?_⟩
          · intro i
            constructor
            · intro hi
              rcases List.mem_cons.mp hi with rfl | hi
              · exact ⟨0, by simp, by simp, v, by simpa using hev, ht⟩
              · obtain ⟨k, hk, rfl, v', hv', ht'⟩ := (h1 i).mp hi
                exact ⟨k + 1, by simp; omega, by omega, v', by simpa using hv', ht'⟩
            · rintro ⟨k, hk, rfl, v', hv', ht'⟩
              cases k with
              | zero => simp
              | succ k =>
                apply List.mem_cons_of_mem
                apply (h1 _).mpr
                exact ⟨k, by simp at hk; omega, by omega, v', by simpa using hv', ht'⟩
          · refine List.pairwise_cons.mpr ⟨fun x hx => ?_, h2⟩
            have := hmem x hx; omega
          · intro i hi
            rcases List.mem_cons.mp hi with rfl | hi
            · omega
            · have := hmem i hi; omega
        · simp only [ht] at h
          subst h
          refine ⟨?_, h2, fun i hi => by have := hmem i hi; omega⟩
          intro i
          constructor
          · intro hi
            obtain ⟨k, hk, rfl, v', hv', ht'⟩ := (h1 i).mp hi
            exact ⟨k + 1, by simp; omega, by omega, v', by simpa using hv', ht'⟩
          · rintro ⟨k, hk, rfl, v', hv', ht'⟩
            cases k with
            | zero =>
              simp at hv'
              rw [hev] at hv'
              cases hv'
              exact absurd ht' ht
            | succ k =>
              apply (h1 _).mpr
              exact ⟨k, by simp at hk; omega, by omega, v', by simpa using hv', ht'⟩

/-- **exactly the atoms on which the expression is true** -/
theorem c12_select_exact (atoms : List AtomView) (e : Expr) (res : List Nat) (h : select atoms e = .ok res) (i : Nat) :
    i ∈ res ↔ ∃ hi : i < atoms.length, ∃ v, eval atoms[i] e = .ok v ∧ truthy v = true := by
  have := (select_go_spec e atoms 0 res h).1 i
  constructor
  · intro hi
    obtain ⟨k, hk, rfl, v, hv, ht⟩ := this.mp hi
    exact ⟨by omega, v, by simpa using hv, ht⟩
  · rintro ⟨hi, v, hv, ht⟩
    exact this.mpr ⟨i, hi, by omega, v, hv, ht⟩

/-- **in increasing order, without duplicates** -/
theorem c12_select_sorted (atoms : List AtomView) (e : Expr) (res : List Nat) (h : select atoms e = .ok res) :
    res.Pairwise (· < ·) := (select_go_spec e atoms 0 res h).2.1

/-! ### the operator table of the current source -/

def kindName : OpKind → String
  | .cmp .lt => "lt" | .cmp .le => "le" | .cmp .eq => "eq" | .cmp .ne => "ne" | .cmp .ge => "ge" | .cmp .gt => "gt"
  | .regex => "regex" | .not => "not" | .and => "and" | .or => "or"

/-- every operator spelling the source defines today is known to the model, with the source's meaning -/
theorem c12_ops_table : ∀ p ∈ MdVerif.Generated.selOps, (opKind p.1).map kindName = some p.2 := by decide

/-- and the source defines no fewer than the documented spellings -/
theorem c12_ops_documented :
    ∀ sp ∈ ["and", "&&", "or", "||", "not", "!", "<", "<=", "==", "!=", ">=", ">", "lt", "le", "eq", "ne", "ge", "gt", "=~"],
      sp ∈ MdVerif.Generated.selOps.map (·.1) := by decide

/-- the documented keyword synonyms are spellings of one attribute in the current source -/
theorem c12_keyword_aliases :
    ∀ g ∈ [["all", "everything"], ["none", "nothing"], ["backbone", "is_backbone"], ["sidechain", "is_sidechain"],
           ["protein", "is_protein"], ["water", "is_water", "waters"], ["type", "element", "symbol"], ["residue", "resSeq"],
           ["resid", "resi"], ["resname", "resn"], ["rescode", "code", "resc"]],
      ∃ row ∈ MdVerif.Generated.selKeywords, ∀ w ∈ g, w ∈ row.2 := by decide

theorem c12_alias_and : opKind "and" = opKind "&&" := rfl
theorem c12_alias_or : opKind "or" = opKind "||" := rfl
theorem c12_alias_not : opKind "not" = opKind "!" := rfl
theorem c12_alias_cmp : opKind "<" = opKind "lt" ∧ opKind "<=" = opKind "le" ∧ opKind "==" = opKind "eq" ∧
    opKind "!=" = opKind "ne" ∧ opKind ">=" = opKind "ge" ∧ opKind ">" = opKind "gt" := ⟨rfl, rfl, rfl, rfl, rfl, rfl⟩

/-! ### precedence, for arbitrary operands and every spelling -/

def andSp := ["and", "&&"]
def orSp := ["or", "||"]
def notSp := ["not", "!"]
def cmpSp : List (String × CmpOp) :=
  [("<", .lt), ("lt", .lt), ("<=", .le), ("le", .le), ("==", .eq), ("eq", .eq), ("!=", .ne), ("ne", .ne), (">=", .ge), ("ge", .ge), (">", .gt), ("gt", .gt)]

/-- schematic operands: `A`, `B`, `C` stand for arbitrary non-literal sub-expressions (the parser never looks inside) -/
abbrev A : Expr := .opaque 1
abbrev B : Expr := .opaque 2
abbrev C : Expr := .opaque 3

/-- `a and b or c` is `(a and b) or c`; `a or b and c` is `a or (b and c)` — for every spelling -/
theorem c12_prec_and_or :
    ∀ s1 ∈ andSp, ∀ s2 ∈ orSp,
      parse [.tree A, .op s1, .tree B, .op s2, .tree C] = .ok (.bool false [.bool true [A, B], C]) ∧
      parse [.tree A, .op s2, .tree B, .op s1, .tree C] = .ok (.bool false [A, .bool true [B, C]]) := by
  intro s1 h1 s2 h2
  simp only [andSp, orSp, List.mem_cons, List.mem_nil_iff, or_false] at h1 h2
  rcases h1 with rfl | rfl <;> rcases h2 with rfl | rfl <;> exact ⟨rfl, rfl⟩

/-- `not a and b` is `(not a) and b`, and `not (a and b)` needs the parentheses -/
theorem c12_prec_not_and :
    ∀ n ∈ notSp, ∀ s ∈ andSp,
      parse [.op n, .tree A, .op s, .tree B] = .ok (.bool true [.not A, B]) ∧
      parse [.op n, .lp, .tree A, .op s, .tree B, .rp] = .ok (.not (.bool true [A, B])) := by
  intro n hn s hs
  simp only [andSp, notSp, List.mem_cons, List.mem_nil_iff, or_false] at hn hs
  rcases hn with rfl | rfl <;> rcases hs with rfl | rfl <;> exact ⟨rfl, rfl⟩

/-- comparisons bind tighter than `not` and the connectives: `not a == b and c < d` is `(not (a == b)) and (c < d)`,
for every pair of comparison spellings -/
theorem c12_prec_cmp (b d : Lit) :
    ∀ p ∈ cmpSp, ∀ q ∈ cmpSp,
      parse [.op "not", .tree A, .op p.1, .lit b, .op "and", .tree C, .op q.1, .lit d]
        = .ok (.bool true [.not (.cmp A [p.2] [.lit b]), .cmp C [q.2] [.lit d]]) := by
  intro p hp q hq
  simp only [cmpSp, List.mem_cons, List.mem_nil_iff, or_false] at hp hq
  rcases hp with rfl | rfl | rfl | rfl | rfl | rfl | rfl | rfl | rfl | rfl | rfl | rfl <;>
    rcases hq with rfl | rfl | rfl | rfl | rfl | rfl | rfl | rfl | rfl | rfl | rfl | rfl <;> rfl

/-- the same with every spelling of `not`, `and`, `or` around one comparison -/
theorem c12_prec_cmp_conn (b : Lit) :
    ∀ n ∈ notSp, ∀ s ∈ andSp ++ orSp,
      parse [.op n, .tree A, .op "==", .lit b, .op s, .tree C]
        = .ok (.bool (s == "and" || s == "&&") [.not (.cmp A [.eq] [.lit b]), C]) := by
  intro n hn s hs
  simp only [andSp, orSp, notSp, List.mem_cons, List.mem_nil_iff, or_false, List.cons_append, List.nil_append] at hn hs
  rcases hn with rfl | rfl <;> rcases hs with rfl | rfl | rfl | rfl <;> rfl

/-- the regex match binds tighter than the connectives on either side -/
theorem c12_prec_regex (pat : Lit) :
    ∀ s ∈ andSp,
      parse [.tree A, .op "=~", .lit pat, .op s, .tree C] = .ok (.bool true [.regex A (.lit pat), C]) ∧
      parse [.tree C, .op s, .tree A, .op "=~", .lit pat] = .ok (.bool true [C, .regex A (.lit pat)]) := by
  intro s hs
  simp only [andSp, List.mem_cons, List.mem_nil_iff, or_false] at hs
  rcases hs with rfl | rfl <;> exact ⟨rfl, rfl⟩

/-- a chain of comparisons keeps each operator: `lo <= x < hi` -/
theorem c12_cmp_chain (lo hi : Lit) :
    parse [.lit lo, .op "<=", .tree A, .op "<", .lit hi] = .ok (.cmp (.lit lo) [.le, .lt] [A, .lit hi]) := rfl

/-! ### rejection -/

/-- a literal as a truth value, a comparison of literals only, a lone literal -/
theorem c12_literal_rejected (l m : Lit) :
    parse [.tree A, .op "and", .lit l] = .error .literalTruth ∧
    parse [.op "not", .lit l] = .error .literalTruth ∧
    parse [.lit l, .op "<", .lit m] = .error .literalTruth ∧
    parse [.lit (.int 3)] = .error .literalTruth := ⟨rfl, rfl, rfl, rfl⟩

/-- unbalanced parentheses and dangling operators -/
theorem c12_malformed_rejected :
    parse [.lp, .tree A] = .error .parse ∧ parse [.tree A, .rp] = .error .parse ∧
    parse [.tree A, .op "and"] = .error .parse ∧ parse [.op "and", .tree A] = .error .parse ∧
    parse [.tree A, .op "or", .op "or", .tree A] = .error .parse ∧ parse ([] : List Tok) = .error .parse :=
  ⟨rfl, rfl, rfl, rfl, rfl, rfl⟩

/-- non-vacuity: "resid 3 and not name == CA" parses with the documented grouping -/
example :
    parse [.kw "resid", .lit (.int 3), .op "and", .op "not", .kw "name", .op "==", .lit (.str "CA")]
      = .ok (.bool true [.inlist "resid" [.int 3], .not (.cmp (.kw "name") [.eq] [.lit (.str "CA")])]) := rfl

/-! ## the character-level scanner (Model/SelScan.lean) -/

/-- **a bare word that begins with digits is one string literal** (the `fix:` for `name 1HB`): whatever the operator and keyword
tables, the text `ds ++ c :: r` (digits, a letter, letters or digits) scans to the single token `'…'` -/
theorem c12_scan_digit_word (ops kws : List String) (w : List Char) (h : isDigitWord w = true) :
    scan ops kws w = .ok [Tok.lit (.str (String.ofList w))] := by
  unfold isDigitWord at h
  have hsplit := List.takeWhile_append_dropWhile (p := isDigitC) (l := w)
  cases hdw : w.dropWhile isDigitC with
  | nil => simp [hdw] at h
  | cons c r =>
    rw [hdw] at h hsplit
    simp only [Bool.and_eq_true, Bool.not_eq_true', List.isEmpty_eq_false_iff] at h
    obtain ⟨⟨hne, hc⟩, hr⟩ := h
    -- the first character is a digit
    cases htw : w.takeWhile isDigitC with
    | nil => exact absurd htw hne
    | cons d ds =>
      have hdall : ∀ x ∈ d :: ds, isDigitC x = true := by
        intro x hx; rw [← htw] at hx; exact mem_takeWhile_true isDigitC w x hx
      have hd : isDigitC d = true := hdall d (by simp)
      have hw : w = d :: (ds ++ c :: r) := by rw [← hsplit, htw]; simp
      have halnum : w.all isAlnumC = true := by
        rw [← hsplit, htw]
        simp only [List.all_append, List.all_cons, Bool.and_eq_true]
        refine ⟨?_, by simp [isAlnumC, hc], hr⟩
        have := List.all_eq_true.mpr (fun x hx => by simp [isAlnumC, hdall x hx] : ∀ x ∈ d :: ds, isAlnumC x = true)
        simpa using this
      obtain ⟨htake, hdrop⟩ := takeWhile_all isWordC w (all_word_of_alnum w halnum)
      have hcin : c ∈ w := by rw [← hsplit]; simp
      have hnotdig : w.all isDigitC = false := by
        apply Bool.eq_false_iff.mpr
        intro hall
        have := (List.all_eq_true.mp hall) c hcin
        rw [alpha_not_digit c hc] at this; cases this
      have hnotnums : w.all isNumsC = false := by
        apply Bool.eq_false_iff.mpr
        intro hall
        have := (List.all_eq_true.mp hall) c hcin
        rw [alpha_not_nums c hc] at this; cases this
      have hnound : w.any (· == '_') = false := by
        apply Bool.eq_false_iff.mpr
        intro hany
        obtain ⟨x, hx, hxe⟩ := List.any_eq_true.mp hany
        have := alnum_ne x '_' ((List.all_eq_true.mp halnum) x hx) (by decide)
        rw [this] at hxe; cases hxe
      have hcls : classifyWord ops kws w = .ok (Tok.lit (.str (String.ofList w))) := by
        have hwne : w.isEmpty = false := by rw [hw]; rfl
        have hdwd : isDigitWord w = true := by
          unfold isDigitWord; rw [hdw]; simp [htw, hc, hr]
        simp [classifyWord, hwne, hnound, hnotdig, hnotnums, hdwd]
      obtain ⟨s1, s2, s3, s4, s5, s6⟩ := digit_not_special d hd
      have hnot : (w == ['n', 'o', 't']) = false := by
        rw [hw]
        have : (d == 'n') = false := by
          simp only [beq_eq_false_iff_ne, ne_eq]; rintro rfl; revert hd; decide
        simp [this]
      unfold scan
      rw [hw] at htake hdrop hcls hnot ⊢
      simp only [List.length_cons, scanFuel, s1, s2, s3, s4, s5, s6, htake, hdrop, hcls, hnot]
      rfl


/-- blanks before a token are ignored -/
theorem c12_scan_leading_blank (ops kws : List String) (c : Char) (cs : List Char) (h : isBlankC c = true) :
    scan ops kws (c :: cs) = scan ops kws cs := by
  simp [scan, scanFuel, h]

/-- how a word made of a letter followed by letters and digits is read: an operator spelling wins over a keyword, a keyword over a
bare-word string -/
theorem c12_classify_word (ops kws : List String) (c : Char) (r : List Char) (hc : isAlphaC c = true) (hr : r.all isAlnumC = true) :
    classifyWord ops kws (c :: r) =
      .ok (if ops.contains (String.ofList (c :: r)) then Tok.op (String.ofList (c :: r))
           else if kws.contains (String.ofList (c :: r)) then Tok.kw (String.ofList (c :: r))
           else Tok.lit (.str (String.ofList (c :: r)))) := by
  have halnum : (c :: r).all isAlnumC = true := by simp [isAlnumC, hc, hr]
  have hnound : (c :: r).any (· == '_') = false := by
    apply Bool.eq_false_iff.mpr
    intro hany
    obtain ⟨x, hx, hxe⟩ := List.any_eq_true.mp hany
    have := alnum_ne x '_' ((List.all_eq_true.mp halnum) x hx) (by decide)
    rw [this] at hxe; cases hxe
  have hnd : (c :: r).all isDigitC = false := by simp [alpha_not_digit c hc]
  have hnn : (c :: r).all isNumsC = false := by simp [alpha_not_nums c hc]
  have hdw : isDigitWord (c :: r) = false := by
    simp [isDigitWord, List.dropWhile, List.takeWhile, alpha_not_digit c hc]
  simp only [classifyWord, List.isEmpty_cons, hnound, hnd, hnn, hdw, hc, hr]
  simp only [Bool.false_eq_true, if_false, Bool.and_self, if_true]
  split <;> (try split) <;> rfl

def Tok.tag : Tok → String
  | .kw s => "k:" ++ s | .op s => "o:" ++ s | .lp => "(" | .rp => ")" | .tree _ => "t"
  | .lit (.int n) => "n:" ++ toString n | .lit (.dec a b) => s!"d:{a}/{b}" | .lit (.str s) => "s:" ++ s | .lit .bad => "bad"

def scanTags (s : String) : Option (List String) :=
  match scan (MdVerif.Generated.selOps.map (·.1)) (MdVerif.Generated.selKeywords.flatMap (·.2)) s.toList with
  | .ok ts => some (ts.map Tok.tag) | .error _ => none

/-! the scanner on concrete texts (tests of the definitions with the regenerated tables, not general claims) -/
example : scanTags "mass<5" = scanTags "mass < 5" := by decide +kernel
example : scanTags "(name CA)or index>=1" = some ["(", "k:name", "s:CA", ")", "o:or", "k:index", "o:>=", "n:1"] := by decide +kernel
example : scanTags "name 1HB 'C A'" = some ["k:name", "s:1HB", "s:C A"] := by decide +kernel
example : scanTags "not(protein)" = some ["s:not", "(", "k:protein", ")"] := by decide +kernel
example : scanTags "not protein" = some ["o:not", "k:protein"] := by decide +kernel
example : scanTags "mass .5 to 2." = some ["k:mass", "d:5/10", "s:to", "d:2/1"] := by decide +kernel
example : scanTags "name C_1" = none := by decide +kernel
example : scanTags "n_bonds 1.2.3" = some ["k:n_bonds", "bad"] := by decide +kernel

end MdVerif.Sel
