import MdVerif.Model.Selection
import MdVerif.Generated.Tables
/-!
# C12 — every selection expression selects exactly the atoms its meaning denotes

* `c12_select_exact`, `c12_select_sorted`  `select` returns, in increasing order, exactly the indices of the atoms on
  which the expression evaluates to a truthy value — for every topology size and every expression.
* `c12_ops_table`      every operator spelling **of the current source** (regenerated table) is classified by the model
  as the kind the source gives it, so aliases of one operator are one operator (`c12_alias_*`).
* `c12_prec_*`         schematic precedence theorems for arbitrary already-parsed operands `a b c` and **every** spelling:
  comparisons bind tighter than `not`, `not` tighter than `and`, `and` tighter than `or`; parentheses override;
  the regex match binds tighter than the connectives; a comparison chain keeps each operator.
* `c12_literal_*`      a literal used as a truth value, compared only with literals, or standing alone is rejected;
  unbalanced parentheses and dangling operators are rejected.
-/
namespace MdVerif.Sel

/-! ### exact and sorted -/

theorem select_go_spec (e : Expr) (atoms : List AtomView) (base : Nat) (res : List Nat)
    (h : select.go e base atoms = .ok res) :
    (∀ i, i ∈ res ↔ ∃ k, ∃ hk : k < atoms.length, i = base + k ∧ ∃ v, eval atoms[k] e = .ok v ∧ truthy v = true) ∧
    res.Pairwise (· < ·) ∧ ∀ i ∈ res, base ≤ i := by
  induction atoms generalizing base res with
  | nil =>
    simp only [select.go, Except.ok.injEq] at h
    subst h; simp
  | cons a r ih =>
    simp only [select.go] at h
    cases hev : eval a e with
    | error x => simp [hev] at h
    | ok v =>
      cases hgo : select.go e (base + 1) r with
      | error x => simp [hev, hgo] at h
      | ok rest =>
        simp only [hev, hgo, Except.ok.injEq] at h
        obtain ⟨h1, h2, h3⟩ := ih (base + 1) rest hgo
        have hmem : ∀ i, i ∈ rest → base + 1 ≤ i := h3
        by_cases ht : truthy v = true
        · simp only [ht, if_true] at h
          subst h
          refine ⟨?_, ?_, ?_⟩
          · intro i
            constructor
            · intro hi
              rcases List.mem_cons.mp hi with rfl | hi
              · exact ⟨0, by simp, by simp, v, by simpa using hev, ht⟩
              · obtain ⟨k, hk, rfl, v', hv', ht'⟩ := (h1 i).mp hi
                exact ⟨k + 1, by simp; omega, by omega, v', by simpa using hv', ht'⟩
            · rintro ⟨k, hk, rfl, v', hv', ht'⟩
              cases k with
              | zero => simp
              | succ k =>
                apply List.mem_cons_of_mem
                apply (h1 _).mpr
                exact ⟨k, by simp at hk; omega, by omega, v', by simpa using hv', ht'⟩
          · refine List.pairwise_cons.mpr ⟨fun x hx => ?_, h2⟩
            have := hmem x hx; omega
          · intro i hi
            rcases List.mem_cons.mp hi with rfl | hi
            · omega
            · have := hmem i hi; omega
        · simp only [ht] at h
          subst h
          refine ⟨?_, h2, fun i hi => by have := hmem i hi; omega⟩
          intro i
          constructor
          · intro hi
            obtain ⟨k, hk, rfl, v', hv', ht'⟩ := (h1 i).mp hi
            exact ⟨k + 1, by simp; omega, by omega, v', by simpa using hv', ht'⟩
          · rintro ⟨k, hk, rfl, v', hv', ht'⟩
            cases k with
            | zero =>
              simp at hv'
              rw [hev] at hv'
              cases hv'
              exact absurd ht' ht
            | succ k =>
              apply (h1 _).mpr
              exact ⟨k, by simp at hk; omega, by omega, v', by simpa using hv', ht'⟩

/-- **exactly the atoms on which the expression is true** -/
theorem c12_select_exact (atoms : List AtomView) (e : Expr) (res : List Nat) (h : select atoms e = .ok res) (i : Nat) :
    i ∈ res ↔ ∃ hi : i < atoms.length, ∃ v, eval atoms[i] e = .ok v ∧ truthy v = true := by
  have := (select_go_spec e atoms 0 res h).1 i
  constructor
  · intro hi
    obtain ⟨k, hk, rfl, v, hv, ht⟩ := this.mp hi
    exact ⟨by omega, v, by simpa using hv, ht⟩
  · rintro ⟨hi, v, hv, ht⟩
    exact this.mpr ⟨i, hi, by omega, v, hv, ht⟩

/-- **in increasing order, without duplicates** -/
theorem c12_select_sorted (atoms : List AtomView) (e : Expr) (res : List Nat) (h : select atoms e = .ok res) :
    res.Pairwise (· < ·) := (select_go_spec e atoms 0 res h).2.1

/-! ### the operator table of the current source -/

def kindName : OpKind → String
  | .cmp .lt => "lt" | .cmp .le => "le" | .cmp .eq => "eq" | .cmp .ne => "ne" | .cmp .ge => "ge" | .cmp .gt => "gt"
  | .regex => "regex" | .not => "not" | .and => "and" | .or => "or"

/-- every operator spelling the source defines today is known to the model, with the source's meaning -/
theorem c12_ops_table : ∀ p ∈ MdVerif.Generated.selOps, (opKind p.1).map kindName = some p.2 := by decide

/-- and the source defines no fewer than the documented spellings -/
theorem c12_ops_documented :
    ∀ sp ∈ ["and", "&&", "or", "||", "not", "!", "<", "<=", "==", "!=", ">=", ">", "lt", "le", "eq", "ne", "ge", "gt", "=~"],
      sp ∈ MdVerif.Generated.selOps.map (·.1) := by decide

/-- the documented keyword synonyms are spellings of one attribute in the current source -/
theorem c12_keyword_aliases :
    ∀ g ∈ [["all", "everything"], ["none", "nothing"], ["backbone", "is_backbone"], ["sidechain", "is_sidechain"],
           ["protein", "is_protein"], ["water", "is_water", "waters"], ["type", "element", "symbol"], ["residue", "resSeq"],
           ["resid", "resi"], ["resname", "resn"], ["rescode", "code", "resc"]],
      ∃ row ∈ MdVerif.Generated.selKeywords, ∀ w ∈ g, w ∈ row.2 := by decide

theorem c12_alias_and : opKind "and" = opKind "&&" := rfl
theorem c12_alias_or : opKind "or" = opKind "||" := rfl
theorem c12_alias_not : opKind "not" = opKind "!" := rfl
theorem c12_alias_cmp : opKind "<" = opKind "lt" ∧ opKind "<=" = opKind "le" ∧ opKind "==" = opKind "eq" ∧
    opKind "!=" = opKind "ne" ∧ opKind ">=" = opKind "ge" ∧ opKind ">" = opKind "gt" := ⟨rfl, rfl, rfl, rfl, rfl, rfl⟩

/-! ### precedence, for arbitrary operands and every spelling -/

def andSp := ["and", "&&"]
def orSp := ["or", "||"]
def notSp := ["not", "!"]
def cmpSp : List (String × CmpOp) :=
  [("<", .lt), ("lt", .lt), ("<=", .le), ("le", .le), ("==", .eq), ("eq", .eq), ("!=", .ne), ("ne", .ne), (">=", .ge), ("ge", .ge), (">", .gt), ("gt", .gt)]

/-- schematic operands: `A`, `B`, `C` stand for arbitrary non-literal sub-expressions (the parser never looks inside) -/
abbrev A : Expr := .opaque 1
abbrev B : Expr := .opaque 2
abbrev C : Expr := .opaque 3

/-- `a and b or c` is `(a and b) or c`; `a or b and c` is `a or (b and c)` — for every spelling -/
theorem c12_prec_and_or :
    ∀ s1 ∈ andSp, ∀ s2 ∈ orSp,
      parse [.tree A, .op s1, .tree B, .op s2, .tree C] = .ok (.bool false [.bool true [A, B], C]) ∧
      parse [.tree A, .op s2, .tree B, .op s1, .tree C] = .ok (.bool false [A, .bool true [B, C]]) := by
  intro s1 h1 s2 h2
  simp only [andSp, orSp, List.mem_cons, List.mem_nil_iff, or_false] at h1 h2
  rcases h1 with rfl | rfl <;> rcases h2 with rfl | rfl <;> exact ⟨rfl, rfl⟩

/-- `not a and b` is `(not a) and b`, and `not (a and b)` needs the parentheses -/
theorem c12_prec_not_and :
    ∀ n ∈ notSp, ∀ s ∈ andSp,
      parse [.op n, .tree A, .op s, .tree B] = .ok (.bool true [.not A, B]) ∧
      parse [.op n, .lp, .tree A, .op s, .tree B, .rp] = .ok (.not (.bool true [A, B])) := by
  intro n hn s hs
  simp only [andSp, notSp, List.mem_cons, List.mem_nil_iff, or_false] at hn hs
  rcases hn with rfl | rfl <;> rcases hs with rfl | rfl <;> exact ⟨rfl, rfl⟩

/-- comparisons bind tighter than `not` and the connectives: `not a == b and c < d` is `(not (a == b)) and (c < d)`,
for every pair of comparison spellings -/
theorem c12_prec_cmp (b d : Lit) :
    ∀ p ∈ cmpSp, ∀ q ∈ cmpSp,
      parse [.op "not", .tree A, .op p.1, .lit b, .op "and", .tree C, .op q.1, .lit d]
        = .ok (.bool true [.not (.cmp A [p.2] [.lit b]), .cmp C [q.2] [.lit d]]) := by
  intro p hp q hq
  simp only [cmpSp, List.mem_cons, List.mem_nil_iff, or_false] at hp hq
  rcases hp with rfl | rfl | rfl | rfl | rfl | rfl | rfl | rfl | rfl | rfl | rfl | rfl <;>
    rcases hq with rfl | rfl | rfl | rfl | rfl | rfl | rfl | rfl | rfl | rfl | rfl | rfl <;> rfl

/-- the same with every spelling of `not`, `and`, `or` around one comparison -/
theorem c12_prec_cmp_conn (b : Lit) :
    ∀ n ∈ notSp, ∀ s ∈ andSp ++ orSp,
      parse [.op n, .tree A, .op "==", .lit b, .op s, .tree C]
        = .ok (.bool (s == "and" || s == "&&") [.not (.cmp A [.eq] [.lit b]), C]) := by
  intro n hn s hs
  simp only [andSp, orSp, notSp, List.mem_cons, List.mem_nil_iff, or_false, List.cons_append, List.nil_append] at hn hs
  rcases hn with rfl | rfl <;> rcases hs with rfl | rfl | rfl | rfl <;> rfl

/-- the regex match binds tighter than the connectives on either side -/
theorem c12_prec_regex (pat : Lit) :
    ∀ s ∈ andSp,
      parse [.tree A, .op "=~", .lit pat, .op s, .tree C] = .ok (.bool true [.regex A (.lit pat), C]) ∧
      parse [.tree C, .op s, .tree A, .op "=~", .lit pat] = .ok (.bool true [C, .regex A (.lit pat)]) := by
  intro s hs
  simp only [andSp, List.mem_cons, List.mem_nil_iff, or_false] at hs
  rcases hs with rfl | rfl <;> exact ⟨rfl, rfl⟩

/-- a chain of comparisons keeps each operator: `lo <= x < hi` -/
theorem c12_cmp_chain (lo hi : Lit) :
    parse [.lit lo, .op "<=", .tree A, .op "<", .lit hi] = .ok (.cmp (.lit lo) [.le, .lt] [A, .lit hi]) := rfl

/-! ### rejection -/

/-- a literal as a truth value, a comparison of literals only, a lone literal -/
theorem c12_literal_rejected (l m : Lit) :
    parse [.tree A, .op "and", .lit l] = .error .literalTruth ∧
    parse [.op "not", .lit l] = .error .literalTruth ∧
    parse [.lit l, .op "<", .lit m] = .error .literalTruth ∧
    parse [.lit (.int 3)] = .error .literalTruth := ⟨rfl, rfl, rfl, rfl⟩

/-- unbalanced parentheses and dangling operators -/
theorem c12_malformed_rejected :
    parse [.lp, .tree A] = .error .parse ∧ parse [.tree A, .rp] = .error .parse ∧
    parse [.tree A, .op "and"] = .error .parse ∧ parse [.op "and", .tree A] = .error .parse ∧
    parse [.tree A, .op "or", .op "or", .tree A] = .error .parse ∧ parse ([] : List Tok) = .error .parse :=
  ⟨rfl, rfl, rfl, rfl, rfl, rfl⟩

/-- non-vacuity: "resid 3 and not name == CA" parses with the documented grouping -/
example :
    parse [.kw "resid", .lit (.int 3), .op "and", .op "not", .kw "name", .op "==", .lit (.str "CA")]
      = .ok (.bool true [.inlist "resid" [.int 3], .not (.cmp (.kw "name") [.eq] [.lit (.str "CA")])]) := rfl

end MdVerif.Sel
