import MdVerif.Model.UnitCell
import MdVerif.Properties.C03
import Mathlib.Tactic.Linarith
import Mathlib.Tactic.Ring
import Mathlib.Tactic.FieldSimp
import Mathlib.Tactic.LinearCombination
import Mathlib.Tactic.Positivity
/-!
# C17 — unit-cell lengths/angles and box vectors describe the same cell

For all lengths and all angle triples, with `cγ² + sγ² = 1`, `sγ ≠ 0` and `cz² = c² − cx² − cy²` (what `cos`, `sin`, `sqrt` deliver):
* `c17_lengths`      |A|² = a², |B|² = b², |C|² = c²
* `c17_angles`       B·C = bc·cos α, C·A = ca·cos β, A·B = ab·cos γ   (pins the naming of the three angles)
* `c17_orientation`  A along x, B in the xy-plane, det = a·b·sγ·cz (positive when the factors are)
* `c17_volume_sq`    det² = a²b²c²(1 − cα² − cβ² − cγ² + 2cαcβcγ): the positivity condition is exactly det ≠ 0
* `c17_rotated_description`  any rotated (orthogonal `R`) description has the same squared lengths and dot products,
  hence the same lengths, angles and |volume|; `c17_det_rotated` det(RB) = det R · det B
* `c17_volume_triple`  the volume is the triple product
* `c17_cell_complete_invariant`  over any history of trajectory operations (C03's state machine) every trajectory's cell,
  when present, has one entry per frame; `c17_have_iff`, `c17_vectors_none_clears`, `c17_half_set_not_reported` for the setters.
-/
namespace MdVerif.UnitCell
open MdVerif.Mic

theorem c17_lengths (p : Params) (hs : p.cγ * p.cγ + p.sγ * p.sγ = 1)
    (hz : p.cz * p.cz = p.c * p.c - (p.c * p.cβ) * (p.c * p.cβ)
      - (p.c * (p.cα - p.cβ * p.cγ) / p.sγ) * (p.c * (p.cα - p.cβ * p.cγ) / p.sγ)) :
    (ofVectors (toVectorsRaw p)).1 = (p.a * p.a, p.b * p.b, p.c * p.c) := by
  simp only [ofVectors, toVectorsRaw, V3.norm2, V3.dot, Prod.mk.injEq]
  refine ⟨by ring, by linear_combination p.b * p.b * hs, by linarith⟩

theorem c17_angles (p : Params) (hne : p.sγ ≠ 0) :
    (ofVectors (toVectorsRaw p)).2 = (p.b * p.c * p.cα, p.c * p.a * p.cβ, p.a * p.b * p.cγ) := by
  simp only [ofVectors, toVectorsRaw, V3.dot, Prod.mk.injEq]
  refine ⟨?_, by ring, by ring⟩
  field_simp
  ring

theorem c17_orientation (p : Params) :
    (toVectorsRaw p).a.y = 0 ∧ (toVectorsRaw p).a.z = 0 ∧ (toVectorsRaw p).b.z = 0 ∧
    det (toVectorsRaw p) = p.a * (p.b * p.sγ) * p.cz := by
  refine ⟨rfl, rfl, rfl, ?_⟩
  simp only [toVectorsRaw, det, V3.dot, V3.cross]; ring

theorem c17_volume_pos (p : Params) (ha : 0 < p.a) (hb : 0 < p.b) (hs : 0 < p.sγ) (hz : 0 < p.cz) :
    0 < det (toVectorsRaw p) := by
  rw [(c17_orientation p).2.2.2]; positivity

theorem c17_volume_sq (p : Params) (hs : p.cγ * p.cγ + p.sγ * p.sγ = 1) (hne : p.sγ ≠ 0)
    (hz : p.cz * p.cz = p.c * p.c - (p.c * p.cβ) * (p.c * p.cβ)
      - (p.c * (p.cα - p.cβ * p.cγ) / p.sγ) * (p.c * (p.cα - p.cβ * p.cγ) / p.sγ)) :
    det (toVectorsRaw p) * det (toVectorsRaw p) =
      p.a * p.a * (p.b * p.b) * (p.c * p.c) * (1 - p.cα * p.cα - p.cβ * p.cβ - p.cγ * p.cγ + 2 * p.cα * p.cβ * p.cγ) := by
  rw [(c17_orientation p).2.2.2]
  have h2 : p.sγ * p.sγ = 1 - p.cγ * p.cγ := by linarith
  have e : p.sγ * p.sγ * (p.cz * p.cz) =
      p.c * p.c * (1 - p.cα * p.cα - p.cβ * p.cβ - p.cγ * p.cγ + 2 * p.cα * p.cβ * p.cγ) := by
    rw [hz]
    field_simp
    have h3 : p.sγ ^ 2 = 1 - p.cγ ^ 2 := by rw [sq, sq]; exact h2
    rw [h3]; ring
  calc p.a * (p.b * p.sγ) * p.cz * (p.a * (p.b * p.sγ) * p.cz)
      = p.a * p.a * (p.b * p.b) * (p.sγ * p.sγ * (p.cz * p.cz)) := by ring
    _ = _ := by rw [e]; ring

theorem dot_rotated (R : M3) (hR : R.Orthogonal) (u v : V3) : (R.apply u).dot (R.apply v) = u.dot v := by
  obtain ⟨h1, h2, h3, h4, h5, h6⟩ := hR
  simp only [M3.apply, V3.dot]
  linear_combination (u.x * v.x) * h1 + (u.y * v.y) * h2 + (u.z * v.z) * h3 + (u.x * v.y + u.y * v.x) * h4
    + (u.x * v.z + u.z * v.x) * h5 + (u.y * v.z + u.z * v.y) * h6

/-- **any rotated description of a cell has the same lengths and angles** -/
theorem c17_rotated_description (R : M3) (hR : R.Orthogonal) (B : Cell) :
    ofVectors (R.applyCell B) = ofVectors B := by
  simp only [ofVectors, M3.applyCell, V3.norm2, dot_rotated R hR]

/-- det(RB) = det R · det B, so |volume| is unchanged by a rotation (det R = ±1) -/
theorem c17_det_rotated (R : M3) (B : Cell) :
    det (R.applyCell B) = R.r1.dot (R.r2.cross R.r3) * det B := by
  simp only [det, M3.applyCell, M3.apply, V3.dot, V3.cross]; ring

/-- volumes are the triple product of the vectors, in any cyclic order -/
theorem c17_volume_triple (B : Cell) : det B = B.b.dot (B.c.cross B.a) ∧ det B = B.c.dot (B.a.cross B.b) := by
  simp only [det, V3.dot, V3.cross]; constructor <;> ring

/-! ### completeness of the cell through trajectory operations -/

/-- after any history of the operations of C03's model, every trajectory that has a cell has one entry per frame (`SafeRun`: the side
condition of C03's invariant for in-place assignment through views; it does not concern the cell, it is inherited from that theorem) -/
theorem c17_cell_complete_invariant {F T : Type} (ops : TrajModel.FrameOps F T) (w : TrajModel.World F T)
    (l : List (TrajModel.Op F)) (hI : TrajModel.Inv ops w) (hs : TrajModel.SafeRun ops w l) :
    ∀ t ∈ (TrajModel.run ops w l).trajs, ∀ c, t.cell = some c → c.length = t.rows.length ∧ t.time.length = t.rows.length := by
  intro t ht c hc
  have h := (TrajModel.c03_cache_invariant ops w l hI hs t ht).1
  exact ⟨h.2.1 c hc, h.1⟩

theorem c17_have_iff (s : CellState) : haveUnitcell s = true ↔ s.lengths.isSome ∧ s.angles.isSome := by
  simp [haveUnitcell]

theorem c17_vectors_none_clears (n : Nat) (s : CellState) :
    haveUnitcell (cellStep n s (.setVectors none)) = false := rfl

theorem c17_vectors_set_complete (n : Nat) (s : CellState) :
    haveUnitcell (cellStep n s (.setVectors (some n))) = true := by simp [cellStep, haveUnitcell]

/-- vectors are reported only for a complete cell: after clearing one half nothing is reported -/
theorem c17_half_set_not_reported (n : Nat) (s : CellState) :
    vectorsReported (cellStep n s (.setLengths none)) = false ∧ vectorsReported (cellStep n s (.setAngles none)) = false := by
  simp [cellStep, vectorsReported, haveUnitcell]

/-- whatever the history of assignments, the stored halves always cover exactly `n` frames -/
theorem c17_setters_lengths (n : Nat) (ops : List CellOp) (s : CellState)
    (h : (∀ k, s.lengths = some k → k = n) ∧ (∀ k, s.angles = some k → k = n)) :
    (∀ k, (ops.foldl (cellStep n) s).lengths = some k → k = n) ∧ (∀ k, (ops.foldl (cellStep n) s).angles = some k → k = n) := by
  induction ops generalizing s with
  | nil => exact h
  | cons op ops ih =>
    apply ih
    cases op with
    | setLengths v =>
      cases v with
      | none => exact ⟨by simp [cellStep], h.2⟩
      | some k => simp only [cellStep]; split <;> simp_all
    | setAngles v =>
      cases v with
      | none => exact ⟨h.1, by simp [cellStep]⟩
      | some k => simp only [cellStep]; split <;> simp_all
    | setVectors v =>
      cases v with
      | none => exact ⟨fun k hk => by simp [cellStep] at hk, fun k hk => by simp [cellStep] at hk⟩
      | some k =>
        simp only [cellStep]
        by_cases hk : k = n
        · subst hk
          exact ⟨fun j hj => by simp at hj; exact hj.symm, fun j hj => by simp at hj; exact hj.symm⟩
        · simp only [hk, if_false]; exact h

/-- non-vacuity: the 60-degree rhombic cell with rational trigonometric values (cos 60° = 1/2 on β, a 3-4-5 angle on γ) -/
example : let p : Params := ⟨2, 5, 3, 0, 0, 3/5, 4/5, 3⟩
    p.cγ * p.cγ + p.sγ * p.sγ = 1 ∧ p.sγ ≠ 0 ∧
    p.cz * p.cz = p.c * p.c - (p.c * p.cβ) * (p.c * p.cβ)
      - (p.c * (p.cα - p.cβ * p.cγ) / p.sγ) * (p.c * (p.cα - p.cβ * p.cγ) / p.sγ) := by
  norm_num

end MdVerif.UnitCell
