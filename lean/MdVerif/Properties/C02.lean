import MdVerif.Proofs.CursorLemmas
/-!
# C02 — partial loading equals slicing the fully loaded trajectory

`file : List α` is the list of frames of an arbitrary file; loading the whole file is `file`.
* `c02_load_stride`      `md.load(f, stride=s)`            = `file[::s]`
* `c02_load_frame`       `md.load_frame(f, i)`             = `file[i:i+1]`
* `c02_iterload_concat_partial`  chunks of `md.iterload(f, chunk, stride, skip)` concatenate to
  `file[skip::stride]`, all but the last have `chunk` frames, none is empty, and the loop terminates
  for every fuel above `len(file)` — for every format, file, chunk ≥ 1, stride ≥ 1, skip ≤ len,
  *except* XTC/TRR with `skip > 0 ∧ stride > 1` (and `skip = len` for XTC/TRR, whose `seek` refuses it).
* `c02_iterload_xtc_nonterminating`  in that excluded class the XTC reader never signals the end:
  no amount of fuel suffices (known finding; Cython source, cannot be rebuilt here).
* `c02_iterload_chunk0`, `c02_atom_indices_commute`, `c02_load_list`.
-/
namespace MdVerif

theorem c02_load_stride (junk : α) (fmt : Fmt) (file : List α) (s : Nat) (hs : 1 ≤ s) :
    load junk fmt file s = everyNth s file := by
  have h := read_none_spec junk fmt file St.init s hs (by cases fmt <;> simp [cur, St.init])
    (fun _ => rfl) (fun h => by simp [St.init] at h; exact absurd h.2.2 (by simp))
  have hc : cur fmt St.init = 0 := by cases fmt <;> rfl
  rw [hc] at h
  simpa [load] using h.1

theorem c02_load_frame (junk : α) (fmt : Fmt) (file : List α) (i : Nat) (hi : i < file.length) :
    loadFrame junk fmt file i = (file.drop i).take 1 := by
  have hne : ∀ st : St, ¬ Eff fmt st 1 := fun st h => by have := h.2.1; omega
  cases fmt <;>
    simp only [loadFrame, seek, hi, if_true, St.init, Nat.min_eq_left (Nat.le_of_lt hi)] <;>
    first
    | (have h := read_some_spec junk Fmt.h5 file ⟨i, 0, false⟩ 1 1 (Nat.le_refl _) (by simp [cur]; omega) (hne _)
       simpa [cur, everyNth_one] using h.1)
    | (have h := read_some_spec junk Fmt.nc file ⟨i, 0, false⟩ 1 1 (Nat.le_refl _) (by simp [cur]; omega) (hne _)
       simpa [cur, everyNth_one] using h.1)
    | (have h := read_some_spec junk Fmt.xtc file ⟨i, i, true⟩ 1 1 (Nat.le_refl _) (by simp [cur]; omega) (hne _)
       simpa [cur, everyNth_one] using h.1)
    | (have h := read_some_spec junk Fmt.trr file ⟨i, i, true⟩ 1 1 (Nat.le_refl _) (by simp [cur]; omega) (hne _)
       simpa [cur, everyNth_one] using h.1)
    | (have h := read_some_spec junk Fmt.dcd file ⟨i, i, false⟩ 1 1 (Nat.le_refl _) (by simp [cur]; omega) (hne _)
       simpa [cur, everyNth_one] using h.1)
    | (have h := read_some_spec junk Fmt.txt file ⟨i, i, false⟩ 1 1 (Nat.le_refl _) (by simp [cur]; omega) (hne _)
       simpa [cur, everyNth_one] using h.1)

/-- chunks of the requested size, the last one possibly shorter, none empty -/
def ChunksOk (c : Nat) : List (List α) → Prop
  | [] => True
  | [x] => x ≠ [] ∧ x.length ≤ c
  | x :: y :: r => x.length = c ∧ ChunksOk c (y :: r)

theorem ChunksOk.head_ne_nil {c : Nat} (hc : 1 ≤ c) {x : List α} {r : List (List α)}
    (h : ChunksOk c (x :: r)) : x ≠ [] := by
  cases r with
  | nil => exact h.1
  | cons y r => intro hx; have := h.1; simp [hx] at this; omega

/-- the `while True` loop of `iterload`, from any reader state outside the efficient-striding branch -/
theorem iterGo_spec (junk : α) (fmt : Fmt) (file : List α) (chunk s : Nat) (hc : 1 ≤ chunk) (hs : 1 ≤ s) :
    ∀ (fuel : Nat) (st : St), cur fmt st ≤ file.length → ¬ Eff fmt st s → file.length - cur fmt st < fuel →
      ∃ chunks, iterGo junk fmt file chunk s fuel st = some chunks ∧
        chunks.flatten = everyNth s (file.drop (cur fmt st)) ∧ ChunksOk chunk chunks := by
  intro fuel
  induction fuel with
  | zero => intro st _ _ h; omega
  | succ fuel ih =>
    intro st hle hne hfuel
    obtain ⟨h1, h2, h3⟩ := read_some_spec junk fmt file st chunk s hs hle hne
    simp only [iterGo]
    by_cases hemp : (read junk fmt file st (some chunk) s).1.isEmpty = true
    · simp only [hemp, if_true]
      refine ⟨[], rfl, ?_, trivial⟩
      rw [h1] at hemp
      have : (everyNth s (file.drop (cur fmt st))).take chunk = [] := by simpa using hemp
      rcases List.take_eq_nil_iff.mp this with h | h
      · omega
      · simp [h]
    · simp only [hemp]
      rw [h1] at hemp
      have hE : everyNth s (file.drop (cur fmt st)) ≠ [] := by
        intro h; simp [h] at hemp
      have hlt : cur fmt st < file.length := by
        rcases Nat.lt_or_ge (cur fmt st) file.length with h | h
        · exact h
        · exact absurd (by simp [List.drop_eq_nil_of_le h]) hE
      have hpos : 1 ≤ chunk * s := Nat.mul_pos hc hs
      have hne' : ¬ Eff fmt (read junk fmt file st (some chunk) s).2 s := by
        intro h; exact hne ⟨h.1, h.2.1, by rw [← h3]; exact h.2.2⟩
      obtain ⟨chunks, e1, e2, e3⟩ := ih (read junk fmt file st (some chunk) s).2
        (by rw [h2]; exact Nat.min_le_right _ _) hne' (by rw [h2]; omega)
      refine ⟨(read junk fmt file st (some chunk) s).1 :: chunks, by simp [e1], ?_, ?_⟩
      · rw [List.flatten_cons, e2, h1, h2, drop_min_length, ← List.drop_drop, ← everyNth_drop s hs,
          List.take_append_drop]
      · cases chunks with
        | nil =>
          refine ⟨?_, ?_⟩
          · rw [h1]; intro h; simp [h] at hemp
          · rw [h1]; simp; omega
        | cons y r =>
          refine ⟨?_, e3⟩
          have hy : y ≠ [] := ChunksOk.head_ne_nil hc e3
          have hfl : (y :: r).flatten ≠ [] := by simp [hy]
          rw [e2, h2, drop_min_length, ← List.drop_drop, ← everyNth_drop s hs] at hfl
          have : chunk < (everyNth s (file.drop (cur fmt st))).length := by
            rcases Nat.lt_or_ge chunk (everyNth s (file.drop (cur fmt st))).length with h | h
            · exact h
            · exact absurd (List.drop_eq_nil_of_le h) hfl
          rw [h1]; simp; omega

/-- **C02, chunked iteration (partial: excludes XTC/TRR with `skip>0 ∧ stride>1`).** -/
theorem c02_iterload_concat_partial (junk : α) (fmt : Fmt) (file : List α) (chunk s skip fuel : Nat)
    (hc : 1 ≤ chunk) (hs : 1 ≤ s) (hk : skip ≤ file.length) (hf : file.length < fuel)
    (hx : (fmt = .xtc ∨ fmt = .trr) → skip < file.length ∧ (skip = 0 ∨ s = 1)) :
    ∃ chunks, iterload junk fmt file chunk s skip fuel = some chunks ∧
      chunks.flatten = everyNth s (file.drop skip) ∧ ChunksOk chunk chunks := by
  have hc0 : chunk ≠ 0 := by omega
  simp only [iterload, hc0, if_false]
  by_cases h0 : skip = 0
  · subst h0
    simp only [Nat.lt_irrefl, if_false]
    have hcur : cur fmt St.init = 0 := by cases fmt <;> rfl
    have := iterGo_spec junk fmt file chunk s hc hs fuel St.init (by rw [hcur]; omega)
      (fun h => by simp [St.init] at h; exact absurd h.2.2 (by simp)) (by rw [hcur]; omega)
    simpa [hcur] using this
  · have hpos : skip > 0 := Nat.pos_of_ne_zero h0
    simp only [hpos, if_true]
    cases fmt
    · simpa [seek, cur, St.init] using iterGo_spec junk .h5 file chunk s hc hs fuel ⟨skip, 0, false⟩
        (by simpa [cur] using hk) (fun h => by cases h.1 <;> contradiction) (by simp [cur]; omega)
    · simpa [seek, cur, St.init] using iterGo_spec junk .nc file chunk s hc hs fuel ⟨skip, 0, false⟩
        (by simpa [cur] using hk) (fun h => by cases h.1 <;> contradiction) (by simp [cur]; omega)
    · obtain ⟨hlt, hs1⟩ := hx (Or.inl rfl)
      have hs1 : s = 1 := by omega
      simpa [seek, cur, hlt] using iterGo_spec junk .xtc file chunk s hc hs fuel ⟨skip, skip, true⟩
        (by simpa [cur] using hk) (fun h => by have := h.2.1; omega) (by simp [cur]; omega)
    · obtain ⟨hlt, hs1⟩ := hx (Or.inr rfl)
      have hs1 : s = 1 := by omega
      simpa [seek, cur, hlt] using iterGo_spec junk .trr file chunk s hc hs fuel ⟨skip, skip, true⟩
        (by simpa [cur] using hk) (fun h => by have := h.2.1; omega) (by simp [cur]; omega)
    · simpa [seek, cur, Nat.min_eq_left hk, St.init] using iterGo_spec junk .dcd file chunk s hc hs fuel ⟨skip, skip, false⟩
        (by simpa [cur] using hk) (fun h => by cases h.1 <;> contradiction) (by simp [cur]; omega)
    · simpa [seek, cur, Nat.min_eq_left hk, St.init] using iterGo_spec junk .txt file chunk s hc hs fuel ⟨skip, skip, false⟩
        (by simpa [cur] using hk) (fun h => by cases h.1 <;> contradiction) (by simp [cur]; omega)

/-- `chunk = 0`: one chunk holding the strided, skipped full load (after the repair of `iterload`). -/
theorem c02_iterload_chunk0 (junk : α) (fmt : Fmt) (file : List α) (s skip fuel : Nat) :
    iterload junk fmt file 0 s skip fuel = some [everyNth s (file.drop skip)] := by
  simp [iterload, c02_load_stride junk fmt file 1 (Nat.le_refl _), everyNth_one]

/-- the XTC reader in its seek-based striding mode, at the end of the file: one frame of junk, same state -/
theorem xtc_eff_stuck (junk : α) (file : List α) (s chunk : Nat) (st : St)
    (hp : file.length ≤ st.phys) (hq : file.length ≤ st.pos + s) (hs : 1 < s) (ho : st.offs = true) :
    read junk .xtc file st (some (chunk + 1)) s = ([junk], st) := by
  have h1 : file[st.phys]? = none := List.getElem?_eq_none hp
  have h2 : ¬ st.pos + s < file.length := by omega
  simp [read, hs, ho, xtcEffLoop, h1, h2]

theorem xtc_iterGo_stuck (junk : α) (file : List α) (s chunk : Nat) (st : St)
    (hp : file.length ≤ st.phys) (hq : file.length ≤ st.pos + s) (hs : 1 < s) (ho : st.offs = true) :
    ∀ fuel, iterGo junk .xtc file (chunk + 1) s fuel st = none := by
  intro fuel
  induction fuel with
  | zero => rfl
  | succ fuel ih => simp [iterGo, xtc_eff_stuck junk file s chunk st hp hq hs ho, ih]

theorem iterGo_none_of_step (junk : α) (fmt : Fmt) (file : List α) (chunk s : Nat) (st st' : St) (fs : List α)
    (hr : read junk fmt file st (some chunk) s = (fs, st')) (hn : fs.isEmpty = false)
    (h : ∀ fuel, iterGo junk fmt file chunk s fuel st' = none) :
    ∀ fuel, iterGo junk fmt file chunk s fuel st = none := by
  intro fuel
  cases fuel with
  | zero => rfl
  | succ fuel => simp [iterGo, hr, hn, h fuel]

/-- **Counterexample (known finding).** `md.iterload('x.xtc', chunk=100, stride=3, skip=1)` on a
10-frame file: no amount of fuel makes the loop see an empty chunk. -/
theorem c02_iterload_xtc_nonterminating (fuel : Nat) :
    iterload 999 .xtc (List.range 10) 100 3 1 fuel = none := by
  have h4 := xtc_iterGo_stuck 999 (List.range 10) 3 99 ⟨7, 10, true⟩ (by decide) (by decide) (by decide) rfl
  have h3 := iterGo_none_of_step 999 .xtc (List.range 10) 100 3 ⟨7, 9, true⟩ ⟨7, 10, true⟩ [9] (by decide) rfl h4
  have h2 := iterGo_none_of_step 999 .xtc (List.range 10) 100 3 ⟨7, 8, true⟩ ⟨7, 9, true⟩ [8] (by decide) rfl h3
  have h1 := iterGo_none_of_step 999 .xtc (List.range 10) 100 3 ⟨1, 1, true⟩ ⟨7, 8, true⟩ [1, 4, 7] (by decide) rfl h2
  simpa [iterload, seek] using h1 fuel

/-- reading a subset of atoms commutes with every kind of partial load: the reader is parametric
in the frame type, so mapping `pick idx` over the frames of the file or over the result is the same. -/
theorem c02_atom_indices_commute (g : α → β) (junk : α) (fmt : Fmt) (file : List α) (s : Nat) (hs : 1 ≤ s) :
    load (g junk) fmt (file.map g) s = (load junk fmt file s).map g := by
  rw [c02_load_stride _ _ _ _ hs, c02_load_stride _ _ _ _ hs, everyNth_map]

/-- `md.load([f1, …, fk])` is `join` of the individual loads (`Trajectory.join` = concatenation, C03). -/
def loadMany (junk : α) (fmt : Fmt) (files : List (List α)) (s : Nat) : List α :=
  (files.map (fun f => load junk fmt f s)).flatten

theorem c02_load_list (junk : α) (fmt : Fmt) (files : List (List α)) (s : Nat) (hs : 1 ≤ s) :
    loadMany junk fmt files s = (files.map (everyNth s)).flatten := by
  simp [loadMany, c02_load_stride junk fmt _ s hs]

/-- non-vacuity of the iterload theorem: chunk not a multiple of stride, on the h5 reader -/
example : iterload 999 .h5 (List.range 10) 4 3 1 11 = some [[1, 4, 7]] := by decide
example : iterload 999 .dcd (List.range 10) 2 3 0 11 = some [[0, 3], [6, 9]] := by decide

/-! ### a strided read served in contiguous blocks

A reader that fetches the file in blocks of `b` frames and takes every `s`-th frame of each block, starting at the block's own first frame
(what a block-wise optimisation of a strided read does), returns `file[::s]` exactly when the stride phase survives each block boundary. -/

/-- blocks of `b` frames, each strided from its own first frame -/
def blockStrideAux (b s : Nat) : Nat → List α → List α
  | 0, _ => []
  | fuel + 1, l => if l.isEmpty then [] else everyNth s (l.take b) ++ blockStrideAux b s fuel (l.drop b)

def blockStride (b s : Nat) (l : List α) : List α := blockStrideAux b s l.length l

/-- one boundary at a multiple of the stride: the two halves strided separately give the whole -/
theorem c02_block_boundary (s k : Nat) (hs : 1 ≤ s) (l : List α) :
    everyNth s (l.take (k * s)) ++ everyNth s (l.drop (k * s)) = everyNth s l := by
  rw [everyNth_take s hs, ← everyNth_drop s hs, List.take_append_drop]

theorem blockStrideAux_spec (s k : Nat) (hs : 1 ≤ s) (hk : 1 ≤ k) :
    ∀ (fuel : Nat) (l : List α), l.length ≤ fuel → blockStrideAux (k * s) s fuel l = everyNth s l := by
  intro fuel
  induction fuel with
  | zero =>
    intro l hl
    have : l = [] := List.length_eq_zero_iff.mp (Nat.le_zero.mp hl)
    subst this; simp [blockStrideAux]
  | succ fuel ih =>
    intro l hl
    cases l with
    | nil => simp [blockStrideAux]
    | cons x xs =>
      have hb : 1 ≤ k * s := Nat.mul_le_mul hk hs
      have hlen : ((x :: xs).drop (k * s)).length ≤ fuel := by
        simp only [List.length_drop, List.length_cons] at hl ⊢
        omega
      simp only [blockStrideAux, List.isEmpty_cons, Bool.false_eq_true, if_false]
      rw [ih _ hlen, c02_block_boundary s k hs]

/-- **block-wise strided reads are exact when the block length is a multiple of the stride** (every file, every such block length) -/
theorem c02_block_stride (s k : Nat) (hs : 1 ≤ s) (hk : 1 ≤ k) (l : List α) : blockStride (k * s) s l = everyNth s l :=
  blockStrideAux_spec s k hs hk l.length l (Nat.le_refl _)

/-- … and only then: blocks of 4 frames with stride 3 return frames 0, 3, 4, 7, 8 of ten (one extra frame per boundary), not 0, 3, 6, 9 -/
theorem c02_block_stride_witness :
    blockStride 4 3 (List.range 10) = [0, 3, 4, 7, 8] ∧ everyNth 3 (List.range 10) = [0, 3, 6, 9] := by
  refine ⟨by decide, by decide⟩

end MdVerif
