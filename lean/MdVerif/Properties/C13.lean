import MdVerif.Model.Sasa
import Mathlib.Tactic.Linarith
import Mathlib.Tactic.Ring
import Mathlib.Tactic.Positivity
/-!
# C13 — solvent-accessible areas are correct, additive and selection-independent

Areas are point counts times `4πR²/n`.  For every structure, radii, point set and selection:
* `c13_scan_any`        the cyclic scan with the closest-neighbour cache finds a covering neighbour iff one exists, wherever it starts
* `c13_count_cache_free` the count of an atom does not depend on the cache: it is the number of its points covered by no neighbour
* `c13_prefilter_sound` a sphere that covers a point of sphere `i` passes the prefilter `|r_i − r_j|² < (R_i + R_j)²`
* `c13_count_exact`     hence the kernel's count equals the specification (points inside no *other* atom's sphere)
* `c13_isolated`        an atom without neighbours has all `n` points accessible: area `4π(r + probe)²`
* `c13_selection_independent`, `c13_unselected_untouched`  the mask only decides for which atoms a value is computed
* `c13_group_sum`       residue mode is the sum of atom mode over each residue's atoms
* `c13_radii_effect`    the count depends on the radii only through `R = r + probe` of each atom (change_radii / probe_radius)
-/
namespace MdVerif.Sasa
open MdVerif.Mic

theorem mem_rot {l : List α} {k : Nat} {x : α} : x ∈ rot l k ↔ x ∈ l := by
  unfold rot
  rw [List.mem_append]
  constructor
  · rintro (h | h)
    · exact List.mem_of_mem_drop h
    · exact List.mem_of_mem_take h
  · intro h
    rw [← List.take_append_drop k l, List.mem_append] at h
    exact h.symm

theorem c13_scan_any (nbrs : List Atom) (p : V3) (start : Nat) :
    (scan nbrs p start).1 = nbrs.any (covers p) := by
  unfold scan
  cases h : (rot nbrs (start % nbrs.length)).findIdx? (covers p) with
  | none =>
    simp only []
    rw [List.findIdx?_eq_none_iff] at h
    symm
    rw [Bool.eq_false_iff]
    intro hany
    rw [List.any_eq_true] at hany
    obtain ⟨x, hx, hc⟩ := hany
    have := h x (mem_rot.mpr hx)
    simp [hc] at this
  | some j =>
    simp only []
    symm
    rw [List.any_eq_true]
    have hlt := (List.findIdx?_eq_some_iff_getElem.mp h).1
    have hj := (List.findIdx?_eq_some_iff_getElem.mp h).2.1
    exact ⟨_, mem_rot.mp (List.getElem_mem hlt), hj⟩

theorem fold_count (nbrs : List Atom) (ai : Atom) (points : List V3) (c k : Nat) :
    (points.foldl (fun (st : Nat × Nat) s =>
      let r := scan nbrs (pointOf ai s) st.2
      (if r.1 then st.1 else st.1 + 1, r.2)) (c, k)).1
      = c + (points.filter (fun s => !(nbrs.any (covers (pointOf ai s))))).length := by
  induction points generalizing c k with
  | nil => simp
  | cons s ps ih =>
    simp only [List.foldl_cons, List.filter_cons]
    rw [ih]
    rw [c13_scan_any]
    cases hb : nbrs.any (covers (pointOf ai s)) <;> simp <;> omega

/-- **the closest-neighbour cache does not change the count** -/
theorem c13_count_cache_free (atoms : List Atom) (points : List V3) (i : Nat) (ai : Atom) :
    countAtom atoms points i ai =
      (points.filter (fun s => !((neighbors atoms i ai).any (covers (pointOf ai s))))).length := by
  unfold countAtom
  simp only []
  rw [fold_count]; simp

/-- **prefilter soundness** (triangle inequality in squared form, via Lagrange's identity) -/
theorem c13_prefilter_sound (ri rj p : V3) (Ri Rj : Rat) (hRi : 0 ≤ Ri) (hRj : 0 ≤ Rj)
    (hp : (p.sub ri).norm2 ≤ Ri * Ri) (hc : (p.sub rj).norm2 < Rj * Rj) :
    (ri.sub rj).norm2 < (Ri + Rj) * (Ri + Rj) := by
  simp only [V3.norm2, V3.dot, V3.sub] at *
  set ux := p.x - rj.x; set uy := p.y - rj.y; set uz := p.z - rj.z
  set vx := p.x - ri.x; set vy := p.y - ri.y; set vz := p.z - ri.z
  have e : (ri.x - rj.x) * (ri.x - rj.x) + (ri.y - rj.y) * (ri.y - rj.y) + (ri.z - rj.z) * (ri.z - rj.z)
      = (ux * ux + uy * uy + uz * uz) + (vx * vx + vy * vy + vz * vz) - 2 * (ux * vx + uy * vy + uz * vz) := by
    simp only [ux, uy, uz, vx, vy, vz]; ring
  rw [e]
  -- Cauchy–Schwarz: (u·v)² ≤ |u|²|v|²
  have cs : (ux * vx + uy * vy + uz * vz) * (ux * vx + uy * vy + uz * vz)
      ≤ (ux * ux + uy * uy + uz * uz) * (vx * vx + vy * vy + vz * vz) := by
    nlinarith [mul_self_nonneg (ux * vy - uy * vx), mul_self_nonneg (uy * vz - uz * vy), mul_self_nonneg (uz * vx - ux * vz)]
  have hu0 : 0 ≤ ux * ux + uy * uy + uz * uz := by nlinarith [mul_self_nonneg ux, mul_self_nonneg uy, mul_self_nonneg uz]
  have hv0 : 0 ≤ vx * vx + vy * vy + vz * vz := by nlinarith [mul_self_nonneg vx, mul_self_nonneg vy, mul_self_nonneg vz]
  have hprod : (ux * ux + uy * uy + uz * uz) * (vx * vx + vy * vy + vz * vz) ≤ (Rj * Rj) * (Ri * Ri) :=
    mul_le_mul (le_of_lt hc) hp hv0 (mul_self_nonneg Rj)
  have hd : -(ux * vx + uy * vy + uz * vz) ≤ Ri * Rj := by
    by_contra hcon
    push Not at hcon
    have h1 : 0 ≤ Ri * Rj := mul_nonneg hRi hRj
    have h2 : (Ri * Rj) * (Ri * Rj) < (-(ux * vx + uy * vy + uz * vz)) * (-(ux * vx + uy * vy + uz * vz)) :=
      mul_self_lt_mul_self h1 hcon
    have h3 : (-(ux * vx + uy * vy + uz * vz)) * (-(ux * vx + uy * vy + uz * vz))
        = (ux * vx + uy * vy + uz * vz) * (ux * vx + uy * vy + uz * vz) := by ring
    have h4 : (Rj * Rj) * (Ri * Ri) = (Ri * Rj) * (Ri * Rj) := by ring
    linarith
  linarith

/-- an atom without neighbours has every point accessible -/
theorem c13_isolated (atoms : List Atom) (points : List V3) (i : Nat) (ai : Atom) (h : neighbors atoms i ai = []) :
    countAtom atoms points i ai = points.length := by
  rw [c13_count_cache_free, h]; simp

/-- **the kernel's count is the specification's count** (points inside no other atom's expanded sphere), for
non-negative radii and points on or inside the unit sphere -/
theorem c13_count_exact (atoms : List Atom) (points : List V3) (i : Nat) (ai : Atom)
    (hrad : 0 ≤ ai.rad ∧ ∀ a ∈ atoms, 0 ≤ a.rad) (hpts : ∀ s ∈ points, s.norm2 ≤ 1) :
    countAtom atoms points i ai = countSpec atoms points i ai := by
  rw [c13_count_cache_free]
  unfold countSpec
  congr 1
  apply List.filter_congr
  intro s hs
  congr 1
  rw [Bool.eq_iff_iff, List.any_eq_true, List.any_eq_true]
  constructor
  · rintro ⟨n, hn, hc⟩
    simp only [neighbors, List.mem_map, List.mem_filter] at hn
    obtain ⟨⟨a, j⟩, ⟨hmem, hcond⟩, rfl⟩ := hn
    refine ⟨(a, j), hmem, ?_⟩
    simp only [Bool.and_eq_true] at hcond ⊢
    exact ⟨hcond.1, hc⟩
  · rintro ⟨⟨a, j⟩, hmem, hcond⟩
    simp only [Bool.and_eq_true] at hcond
    refine ⟨a, ?_, hcond.2⟩
    simp only [neighbors, List.mem_map, List.mem_filter]
    refine ⟨(a, j), ⟨hmem, ?_⟩, rfl⟩
    simp only [Bool.and_eq_true, decide_eq_true_eq]
    refine ⟨hcond.1, ?_⟩
    have ha : a ∈ atoms := (List.mem_zipIdx hmem).2.2 ▸ List.getElem_mem _ |> fun h => by
      have := List.mem_zipIdx hmem
      exact this.2.2 ▸ List.getElem_mem _
    have hcov : ((pointOf ai s).sub a.pos).norm2 < a.rad * a.rad := by simpa [covers] using hcond.2
    have hon : ((pointOf ai s).sub ai.pos).norm2 ≤ ai.rad * ai.rad := by
      have h1 := hpts s hs
      have e : ((pointOf ai s).sub ai.pos).norm2 = ai.rad * ai.rad * s.norm2 := by
        simp only [pointOf, V3.norm2, V3.dot, V3.sub, V3.add, V3.smul]; ring
      rw [e]
      have : 0 ≤ ai.rad * ai.rad := mul_self_nonneg _
      nlinarith
    exact c13_prefilter_sound ai.pos a.pos (pointOf ai s) ai.rad a.rad hrad.1 (hrad.2 a ha) hon hcov

/-- values of selected atoms do not depend on which other atoms are selected, nor on the buffer's previous content -/
theorem c13_selection_independent (points : List V3) (mask1 mask2 : List Bool) (buf1 buf2 : List Nat) (atoms : List Atom) (i : Nat)
    (h1 : mask1.getD i false = true) (h2 : mask2.getD i false = true) (hi : i < atoms.length) :
    (asaFrameBuf points mask1 buf1 atoms)[i]? = (asaFrameBuf points mask2 buf2 atoms)[i]? := by
  have e1 : mask1[i]?.getD false = true := by simpa [List.getD_eq_getElem?_getD] using h1
  have e2 : mask2[i]?.getD false = true := by simpa [List.getD_eq_getElem?_getD] using h2
  simp [asaFrameBuf, List.getElem?_map, List.getElem?_zipIdx, hi, e1, e2]

/-- unselected atoms are not touched (their slot keeps the buffer's value; the Python wrapper presets −1) -/
theorem c13_unselected_untouched (points : List V3) (mask : List Bool) (buf : List Nat) (atoms : List Atom) (i : Nat)
    (h : mask.getD i false = false) (hi : i < atoms.length) :
    (asaFrameBuf points mask buf atoms)[i]? = some (buf.getD i 0) := by
  have e1 : mask[i]?.getD false = false := by simpa [List.getD_eq_getElem?_getD] using h
  simp [asaFrameBuf, List.getElem?_map, List.getElem?_zipIdx, hi, e1]

/-- **a selection without members computes nothing**: every slot keeps the value the wrapper preset (−1), for every structure -/
theorem c13_empty_selection (points : List V3) (buf : List Nat) (atoms : List Atom) (i : Nat) (hi : i < atoms.length) :
    (asaFrameBuf points (maskOf atoms.length (some [])) buf atoms)[i]? = some (buf.getD i 0) := by
  apply c13_unselected_untouched _ _ _ _ _ _ hi
  simp [maskOf, List.getD_eq_getElem?_getD, List.getElem?_map, List.getElem?_range, hi]

/-- … whereas `None` selects every atom: taking an empty selection for `None` (seeded change C13-empty-selection-becomes-all-atoms) computes
every area instead of none -/
theorem c13_none_selects_all (n i : Nat) (hi : i < n) : (maskOf n none).getD i false = true ∧ (maskOf n (some [])).getD i false = false := by
  constructor
  · simp [maskOf, List.getD_eq_getElem?_getD, List.getElem?_replicate, hi]
  · simp [maskOf, List.getD_eq_getElem?_getD, List.getElem?_map, List.getElem?_range, hi]

/-- a listed atom is selected, an unlisted one is not -/
theorem c13_mask_spec (n i : Nat) (idx : List Nat) (hi : i < n) : (maskOf n (some idx)).getD i false = idx.contains i := by
  simp [maskOf, List.getD_eq_getElem?_getD, List.getElem?_map, List.getElem?_range, hi]

/-- residue mode: the value of group `g` is the sum over the atoms mapped to `g` -/
theorem c13_group_sum (nGroups : Nat) (mapping vals : List Nat) (g : Nat) (hg : g < nGroups) :
    (groupSums nGroups mapping vals)[g]? = some ((((mapping.zip vals).filter (fun p => p.1 == g)).map (·.2)).sum) := by
  simp [groupSums, hg]

/-- the counts depend on radii only through the expanded radius of each atom: adding `d` to the probe and subtracting it
from every atomic radius changes nothing -/
theorem c13_radii_effect (atoms : List Atom) (points : List V3) (i : Nat) (ai : Atom) (r probe d : Rat)
    (h : ai.rad = r + probe) : countAtom atoms points i { ai with rad := (r - d) + (probe + d) } = countAtom atoms points i ai := by
  have : (r - d) + (probe + d) = ai.rad := by rw [h]; ring
  rw [this]

end MdVerif.Sasa
