import MdVerif.Proofs.VoxGeometry
import MdVerif.Model.Neighbors
import MdVerif.Properties.C05
import MdVerif.Proofs.VoxLemmas
/-!
# C10 — neighbour searches return exactly the atoms within the cutoff

* `c10_neighbors_exact`, `c10_neighbors_order`, `c10_neighbors_nodup`   `compute_neighbors` = the haystack atoms (≠ the query atom)
  whose wrapped distance to some query atom is below the cutoff, in haystack order, without duplicates.
* `c10_wrap_is_min`  inside `cutoff ≤ h`, `2h ≤ min(a_x,b_y,c_z)` the wrap-only kernels decide "minimum-image distance < cutoff" exactly
  (this is what justifies the absence of a 27-image search in neighbors.cpp and neighborlist.cpp); orthorhombic: always.
* `c10_halflist_exact`, `c10_complete_mem`, `c10_neighborlist_symm`, `c10_neighborlist_irrefl`, `c10_neighborlist_nodup`,
  `c10_neighborlist_exact`   the completed list is symmetric, irreflexive, duplicate-free and holds exactly the other atoms
  within the cutoff, given that the wrapped squared distance is symmetric (`c10_d2_symm_ortho`).
The voxel pruning of neighborlist.cpp (that `getNeighbors` finds every member of `halfList`) is not proved: correspondence only.
-/
namespace MdVerif.Nb
open MdVerif.Mic

theorem c10_neighbors_exact (rnd : Rat → Int) (w : Wrap) (pos : List V3) (c2 : Rat) (q h : List Nat) (i : Nat) :
    i ∈ neighbors rnd w pos c2 q h ↔ i ∈ h ∧ ∃ j ∈ q, i ≠ j ∧ d2 rnd w pos i j < c2 := by
  simp [neighbors, List.mem_filter, List.any_eq_true]

theorem c10_neighbors_order (rnd : Rat → Int) (w : Wrap) (pos : List V3) (c2 : Rat) (q h : List Nat) :
    (neighbors rnd w pos c2 q h).Sublist h := List.filter_sublist

theorem c10_neighbors_nodup (rnd : Rat → Int) (w : Wrap) (pos : List V3) (c2 : Rat) (q h : List Nat) (hn : h.Nodup) :
    (neighbors rnd w pos c2 q h).Nodup := hn.sublist List.filter_sublist

/-- **wrap-only is enough inside half the smallest diagonal entry** -/
theorem c10_wrap_is_min (rnd : Rat → Int) (hr : NearestRound rnd) (B : Cell) (hB : LowerTri B)
    (ha : 0 < B.a.x) (hb : 0 < B.b.y) (hc : 0 < B.c.z) (r : V3) (cut : Rat) (hcut : 0 < cut)
    (h2a : 2 * cut ≤ B.a.x) (h2b : 2 * cut ≤ B.b.y) (h2c : 2 * cut ≤ B.c.z) :
    ((Wrap.tri B).apply rnd r).norm2 < cut * cut ↔ ∃ i j k : Int, (r.add (B.latt i j k)).norm2 < cut * cut := by
  constructor
  · intro h
    obtain ⟨i, j, k, e⟩ := isImage_of_reduce (wrapTri_image rnd (reduce rnd B) r)
    exact ⟨i, j, k, by rw [← e]; exact h⟩
  · rintro ⟨i, j, k, h⟩
    have := c05_tri_min rnd hr B hB ha hb hc r cut hcut h2a h2b h2c (r.add (B.latt i j k)) ⟨i, j, k, rfl⟩ h
    -- the minimum image is the wrapped vector
    obtain ⟨hRl, eax, eby, ecz⟩ := reduce_lower rnd B hB
    have uniq := c05_tri_unique rnd hr (reduce rnd B) hRl (by rw [eax]; exact ha) (by rw [eby]; exact hb) (by rw [ecz]; exact hc)
      r cut hcut (by rw [eax]; exact h2a) (by rw [eby]; exact h2b) (by rw [ecz]; exact h2c)
    obtain ⟨i', j', k', e'⟩ := reduce_latt_inv rnd B i j k
    obtain ⟨a, b, c, e⟩ := image_of_wrap rnd (reduce rnd B) r (r.add (B.latt i j k)) ⟨i', j', k', by rw [e']⟩
    obtain ⟨rfl, rfl, rfl⟩ := uniq a b c (by rw [← e]; exact h)
    rw [latt_zero] at e
    show (wrapTri rnd (reduce rnd B) r).norm2 < cut * cut
    rw [← e]; exact h

theorem c10_wrap_is_min_ortho (rnd : Rat → Int) (hr : NearestRound rnd) (B : Cell) (hB : IsDiag B)
    (ha : 0 < B.a.x) (hb : 0 < B.b.y) (hc : 0 < B.c.z) (r : V3) (c2 : Rat) :
    ((Wrap.ortho B).apply rnd r).norm2 < c2 ↔ ∃ i j k : Int, (r.add (B.latt i j k)).norm2 < c2 := by
  constructor
  · intro h
    exact ⟨_, _, _, by rw [← c05_ortho_congruent rnd B hB r]; exact h⟩
  · rintro ⟨i, j, k, h⟩
    exact lt_of_le_of_lt (c05_ortho_min rnd hr B hB ha hb hc r i j k) h

/-! ### the neighbour list -/

theorem c10_halflist_exact (rnd : Rat → Int) (w : Wrap) (pos : List V3) (c2 : Rat) (i j : Nat) :
    j ∈ halfList rnd w pos c2 i ↔ j < i ∧ d2 rnd w pos i j ≤ c2 := by
  simp [halfList, List.mem_filter]

theorem getD_map_range (n : Nat) (f : Nat → List Nat) (i : Nat) :
    ((List.range n).map f).getD i [] = if i < n then f i else [] := by
  simp only [List.getD_eq_getElem?_getD, List.getElem?_map, List.getElem?_range]
  split <;> simp_all

/-- membership in the completed list: from the own half list or from a later atom's half list -/
theorem c10_complete_mem (H : List (List Nat)) (k j : Nat) (hk : k < H.length) :
    j ∈ (complete H).getD k [] ↔ j ∈ H.getD k [] ∨ (j < H.length ∧ k ∈ H.getD j []) := by
  unfold complete
  rw [getD_map_range]
  simp [hk, List.mem_filter]

/-- well-formed half lists: only lower indices, no duplicates (what `if (index >= atomIndex) continue` ensures) -/
def HalfWF (H : List (List Nat)) : Prop := ∀ i, (∀ j ∈ H.getD i [], j < i) ∧ (H.getD i []).Nodup

theorem c10_neighborlist_symm (H : List (List Nat)) (hw : HalfWF H) (i j : Nat) (hi : i < H.length) (hj : j < H.length) :
    j ∈ (complete H).getD i [] ↔ i ∈ (complete H).getD j [] := by
  rw [c10_complete_mem H i j hi, c10_complete_mem H j i hj]
  constructor <;> rintro (h | ⟨_, h⟩) <;> first | (right; exact ⟨by assumption, h⟩) | (left; exact h)

theorem c10_neighborlist_irrefl (H : List (List Nat)) (hw : HalfWF H) (i : Nat) (hi : i < H.length) :
    i ∉ (complete H).getD i [] := by
  rw [c10_complete_mem H i i hi]
  rintro (h | ⟨_, h⟩) <;> exact absurd ((hw i).1 i h) (lt_irrefl i)

theorem c10_neighborlist_nodup (H : List (List Nat)) (hw : HalfWF H) (k : Nat) (hk : k < H.length) :
    ((complete H).getD k []).Nodup := by
  unfold complete
  rw [getD_map_range]
  simp only [hk, if_true]
  rw [List.nodup_append]
  refine ⟨(hw k).2, (List.nodup_range).filter _, ?_⟩
  intro a ha b hb
  have h1 := (hw k).1 a ha
  simp only [List.mem_filter, List.mem_range, List.contains_iff_mem] at hb
  have h2 := (hw b).1 k (by simpa using hb.2)
  omega

theorem halfWF_spec (rnd : Rat → Int) (w : Wrap) (pos : List V3) (c2 : Rat) :
    HalfWF ((List.range pos.length).map (halfList rnd w pos c2)) := by
  intro i
  rw [getD_map_range]
  split
  · exact ⟨fun j hj => ((c10_halflist_exact rnd w pos c2 i j).mp hj).1, (List.nodup_range).filter _⟩
  · exact ⟨by simp, by simp⟩

/-- **exactly the other atoms within the cutoff**, provided the wrapped squared distance is symmetric in the two atoms -/
theorem c10_neighborlist_exact (rnd : Rat → Int) (w : Wrap) (pos : List V3) (c2 : Rat)
    (hsym : ∀ i j, d2 rnd w pos i j = d2 rnd w pos j i) (i j : Nat) (hi : i < pos.length) (hj : j < pos.length) :
    j ∈ (neighborlist rnd w pos c2).getD i [] ↔ j ≠ i ∧ d2 rnd w pos i j ≤ c2 := by
  unfold neighborlist
  have hl : ((List.range pos.length).map (halfList rnd w pos c2)).length = pos.length := by simp
  rw [c10_complete_mem _ i j (by rw [hl]; exact hi)]
  rw [getD_map_range, getD_map_range]
  simp only [hi, hj, if_true, hl, c10_halflist_exact, true_and]
  constructor
  · rintro (⟨h1, h2⟩ | ⟨h1, h2⟩)
    · exact ⟨by omega, h2⟩
    · exact ⟨by omega, by rw [hsym]; exact h2⟩
  · rintro ⟨h1, h2⟩
    rcases Nat.lt_or_gt_of_ne h1 with h | h
    · left; exact ⟨h, h2⟩
    · right; exact ⟨h, by rw [hsym]; exact h2⟩

/-- the orthorhombic wrap is symmetric for roundings that are odd (`rnd (-x) = -rnd x`, true for C `roundf` and the SSE `round`) -/
theorem c10_d2_symm_ortho (rnd : Rat → Int) (hodd : ∀ x, rnd (-x) = -rnd x) (B : Cell) (pos : List V3) (i j : Nat) :
    d2 rnd (.ortho B) pos i j = d2 rnd (.ortho B) pos j i := by
  have key : ∀ r L : Rat, wrap1 rnd (-r) L = -wrap1 rnd r L := by
    intro r L
    unfold wrap1
    rw [neg_div, hodd]; push_cast; ring
  simp only [d2, Wrap.apply, distOrtho, V3.norm2, V3.dot, V3.sub]
  have ex : (getD0 pos i).x - (getD0 pos j).x = -((getD0 pos j).x - (getD0 pos i).x) := by ring
  have ey : (getD0 pos i).y - (getD0 pos j).y = -((getD0 pos j).y - (getD0 pos i).y) := by ring
  have ez : (getD0 pos i).z - (getD0 pos j).z = -((getD0 pos j).z - (getD0 pos i).z) := by ring
  rw [ex, ey, ez, key, key, key]; ring

theorem roundHA_odd (x : Rat) : roundHA (-x) = -roundHA x := by
  unfold roundHA
  by_cases h : 0 ≤ x
  · by_cases h0 : x = 0
    · subst h0
      have hz : ((2 : Rat)⁻¹).floor = 0 := by
        rw [floor_eq, Int.floor_eq_iff]; constructor <;> norm_num
      simp [hz]
    · have : ¬ (0 ≤ -x) := by
        intro hc; exact h0 (le_antisymm (by linarith) h)
      simp [h, this]
  · have : 0 ≤ -x := by linarith
    simp [h, this]

end MdVerif.Nb

/-! ## the voxel search of compute_neighborlist (Model/Voxels.lean) -/
namespace MdVerif.Vox
open MdVerif.Mic

/-- **`findLowerBound`**: within `[lower, upper)` of a sorted bin, everything before the result is `< x`, everything from it on is `≥ x` -/
theorem c10_lowerBound_spec (xs : List Rat) (x : Rat) (lower upper : Nat) (hs : Sorted xs) (hlu : lower ≤ upper) (hul : upper ≤ xs.length) :
    lower ≤ lowerBound xs x lower upper ∧ lowerBound xs x lower upper ≤ upper ∧
    (∀ i, lower ≤ i → i < lowerBound xs x lower upper → xs.getD i 0 < x) ∧
    (∀ i, lowerBound xs x lower upper ≤ i → i < upper → x ≤ xs.getD i 0) :=
  lowerBoundAux_spec xs x hs _ lower upper hlu hul (by omega)

/-- **`findUpperBound`**: everything before the result is `≤ x`, everything from it on is `> x` -/
theorem c10_upperBound_spec (xs : List Rat) (x : Rat) (lower upper : Nat) (hs : Sorted xs) (hlu : lower ≤ upper) (hul : upper ≤ xs.length) :
    lower ≤ upperBound xs x lower upper ∧ upperBound xs x lower upper ≤ upper ∧
    (∀ i, lower ≤ i → i < upperBound xs x lower upper → xs.getD i 0 ≤ x) ∧
    (∀ i, upperBound xs x lower upper ≤ i → i < upper → x < xs.getD i 0) :=
  upperBoundAux_spec xs x hs _ lower upper hlu hul (by omega)


/-- **the first range is exactly the atoms of the bin whose x lies in `[minx, maxx]`** -/
theorem c10_xrange_exact (xs : List Rat) (minx maxx L : Rat) (np : Bool) (hs : Sorted xs) (i : Nat) (hi : i < xs.length) :
    ((xRanges xs minx maxx L np).s0 ≤ i ∧ i < (xRanges xs minx maxx L np).e0) ↔ (minx ≤ xs.getD i 0 ∧ xs.getD i 0 ≤ maxx) := by
  rw [xRanges_s0, xRanges_e0]
  obtain ⟨a1, a2, a3, a4⟩ := c10_lowerBound_spec xs minx 0 xs.length hs (Nat.zero_le _) (le_refl _)
  obtain ⟨b1, b2, b3, b4⟩ := c10_upperBound_spec xs maxx (lowerBound xs minx 0 xs.length) xs.length hs a2 (le_refl _)
  constructor
  · rintro ⟨h1, h2⟩
    exact ⟨a4 i h1 hi, b3 i h1 h2⟩
  · rintro ⟨h1, h2⟩
    have hs0 : lowerBound xs minx 0 xs.length ≤ i := by
      by_contra hc
      exact absurd (a3 i (Nat.zero_le _) (by omega)) (not_lt.mpr h1)
    refine ⟨hs0, ?_⟩
    by_contra hc
    exact absurd (b4 i (by omega) hi) (not_lt.mpr h2)

/-- **the two ranges never overlap**: the periodic image range lies wholly before or wholly after the direct range, inside the bin -/
theorem c10_ranges_disjoint (xs : List Rat) (minx maxx L : Rat) (np : Bool) (hs : Sorted xs) (a b : Nat)
    (h : (xRanges xs minx maxx L np).second = some (a, b)) :
    (b ≤ (xRanges xs minx maxx L np).s0 ∨ (xRanges xs minx maxx L np).e0 ≤ a) ∧ b ≤ xs.length := by
  obtain ⟨a1, a2, a3, a4⟩ := c10_lowerBound_spec xs minx 0 xs.length hs (Nat.zero_le _) (le_refl _)
  obtain ⟨b1, b2, b3, b4⟩ := c10_upperBound_spec xs maxx (lowerBound xs minx 0 xs.length) xs.length hs a2 (le_refl _)
  rw [xRanges_s0, xRanges_e0]
  unfold xRanges at h
  simp only [] at h
  split at h
  · split at h
    · simp at h
    · split at h
      · simp only [Option.some.injEq, Prod.mk.injEq] at h
        obtain ⟨rfl, rfl⟩ := h
        exact ⟨Or.inl (Nat.min_le_right _ _), le_trans (Nat.min_le_right _ _) a2⟩
      · simp only [Option.some.injEq, Prod.mk.injEq] at h
        obtain ⟨rfl, rfl⟩ := h
        exact ⟨Or.inr (Nat.le_max_right _ _), le_refl _⟩
  · simp at h

/-- **no bin position is scanned twice** (so `getNeighbors` cannot push a neighbour twice) -/
theorem c10_visited_nodup (xs : List Rat) (minx maxx L : Rat) (np : Bool) (hs : Sorted xs) :
    (xRanges xs minx maxx L np).visited.Nodup := by
  unfold Ranges.visited
  cases hsec : (xRanges xs minx maxx L np).second with
  | none => simp [List.nodup_range']
  | some ab =>
    obtain ⟨a, b⟩ := ab
    have hd := (c10_ranges_disjoint xs minx maxx L np hs a b hsec).1
    simp only []
    rw [List.nodup_append]
    refine ⟨List.nodup_range' , List.nodup_range', ?_⟩
    intro x hx y hy
    simp only [List.mem_range'_1] at hx hy
    rcases hd with hd | hd <;> omega

/-- **the image range is exact on the part of the bin it may touch**: below the direct range it holds the atoms with `x + L ≤ maxx`
(their image shifted by `+L` falls into the interval), above it those with `x − L ≥ minx` -/
theorem c10_image_range_exact (xs : List Rat) (minx maxx L : Rat) (hs : Sorted xs) (a b : Nat)
    (h : (xRanges xs minx maxx L true).second = some (a, b)) (i : Nat) (hi : i < xs.length) :
    (0 < (xRanges xs minx maxx L true).s0 → a = 0 ∧ (i < (xRanges xs minx maxx L true).s0 → (i < b ↔ xs.getD i 0 ≤ maxx - L))) ∧
    ((xRanges xs minx maxx L true).s0 = 0 → b = xs.length ∧ ((xRanges xs minx maxx L true).e0 ≤ i → (a ≤ i ↔ minx + L ≤ xs.getD i 0))) := by
  obtain ⟨a1, a2, a3, a4⟩ := c10_lowerBound_spec xs minx 0 xs.length hs (Nat.zero_le _) (le_refl _)
  obtain ⟨b1, b2, b3, b4⟩ := c10_upperBound_spec xs maxx (lowerBound xs minx 0 xs.length) xs.length hs a2 (le_refl _)
  rw [xRanges_s0, xRanges_e0]
  unfold xRanges at h
  simp only [if_true] at h
  split at h
  · simp at h
  · split at h
    · rename_i hs0
      simp only [Option.some.injEq, Prod.mk.injEq] at h
      obtain ⟨rfl, rfl⟩ := h
      obtain ⟨c1, c2, c3, c4⟩ := c10_upperBound_spec xs (maxx - L) 0 (lowerBound xs minx 0 xs.length) hs (Nat.zero_le _) a2
      refine ⟨fun _ => ⟨rfl, fun hlt => ?_⟩, fun h0 => by omega⟩
      rw [Nat.min_eq_left c2]
      constructor
      · intro hb; exact c3 i (Nat.zero_le _) hb
      · intro hx
        by_contra hc
        exact absurd (c4 i (by omega) hlt) (not_lt.mpr hx)
    · rename_i hs0
      simp only [Option.some.injEq, Prod.mk.injEq] at h
      obtain ⟨rfl, rfl⟩ := h
      obtain ⟨c1, c2, c3, c4⟩ := c10_lowerBound_spec xs (minx + L) (upperBound xs maxx (lowerBound xs minx 0 xs.length) xs.length) xs.length hs b2 (le_refl _)
      refine ⟨fun hp => by omega, fun _ => ⟨rfl, fun hge => ?_⟩⟩
      rw [Nat.max_eq_left c1]
      constructor
      · intro ha; exact c4 i ha hi
      · intro hx
        by_contra hc
        exact absurd (c3 i hge (by omega)) (not_lt.mpr hx)

/-- why the image range must stay outside the direct one: scanning the whole bin for the image, as a "simplification" would, visits
position 1 twice for this bin (x = 0.1, 0.5, 0.9; interval [0.4, 1.6], box length 1) -/
theorem c10_whole_bin_image_range_witness :
    let xs : List Rat := [1/10, 5/10, 9/10]
    (xRanges xs (4/10) (16/10) 1 true).visited = [1, 2, 0] ∧
    (List.range' 1 2 ++ List.range' 0 (upperBound xs (16/10 - 1) 0 3)) = [1, 2, 0, 1] := by
  decide +kernel


/-- **the wrapped copy is a lattice image**: `prewrap B p = p − (i·a + j·b + k·c)` with the integers of `prewrapShift` -/
theorem c10_prewrap_lattice (B : Cell) (p : V3) :
    prewrap B p = p.sub (B.latt (prewrapShift B p).1 (prewrapShift B p).2.1 (prewrapShift B p).2.2) := by
  simp only [prewrap, prewrapShift, Cell.latt, V3.sub, V3.add, V3.smul]
  congr 1 <;> ring

/-- **and lies in the primary cell** of a reduced (lower-triangular) box: `0 ≤ z < c_z`, `0 ≤ y < b_y`, `0 ≤ x < a_x` -/
theorem c10_prewrap_in_cell (B : Cell) (p : V3) (h : LowerTri B) :
    0 ≤ (prewrap B p).z ∧ (prewrap B p).z < B.c.z ∧ 0 ≤ (prewrap B p).y ∧ (prewrap B p).y < B.b.y ∧
    0 ≤ (prewrap B p).x ∧ (prewrap B p).x < B.a.x := by
  obtain ⟨hay, haz, hbz, hax, hby, hcz⟩ := h
  have hz := sub_floor_mul_bound p.z B.c.z hcz
  simp only [prewrap, V3.sub, V3.smul, hay, haz, hbz, mul_zero, sub_zero]
  set p1y := p.y - ((p.z / B.c.z).floor : Rat) * B.c.y with hp1y
  have hy := sub_floor_mul_bound p1y B.b.y hby
  set p2x := p.x - ((p.z / B.c.z).floor : Rat) * B.c.x - ((p1y / B.b.y).floor : Rat) * B.b.x with hp2x
  have hx := sub_floor_mul_bound p2x B.a.x hax
  refine ⟨hz.1, hz.2, hy.1, hy.2, hx.1, hx.2⟩

theorem c10_voxel_index_lt (n : Nat) (size y : Rat) (hn : 0 < n) : voxelIndex n size y < n := by
  unfold voxelIndex
  simp only []
  split
  · exact hn
  · split
    · omega
    · rename_i h1 h2
      omega

/-- **the voxel window is wide enough**: two points at most `d` apart along an axis fall into voxels whose indices differ by at most
`⌊d/size⌋ + 1` — the `dIndex = int(maxDistance/voxelSize) + 1` of `getNeighbors` -/
theorem c10_voxel_window (n : Nat) (size y1 y2 d : Rat) (hs : 0 < size) (hd : |y1 - y2| ≤ d) :
    (voxelIndex n size y1 : Int) - (voxelIndex n size y2 : Int) ≤ (d / size).floor + 1 := by
  have hfl : (y1 / size).floor - (y2 / size).floor ≤ (d / size).floor + 1 := by
    simp only [floor_eq]
    have h1 := Int.floor_le (y1 / size)
    have h2 := Int.lt_floor_add_one (y2 / size)
    have h3 := Int.lt_floor_add_one (d / size)
    have hle : y1 / size - y2 / size ≤ d / size := by
      rw [← sub_div]; exact div_le_div_of_nonneg_right (le_trans (le_abs_self _) hd) (le_of_lt hs)
    have : ((⌊y1 / size⌋ - ⌊y2 / size⌋ : Int) : Rat) < ((⌊d / size⌋ + 1 + 1 : Int) : Rat) := by push_cast; linarith
    have := Int.cast_lt.mp this
    omega
  have hdn : 0 ≤ (d / size).floor := by
    simp only [floor_eq]
    apply Int.floor_nonneg.mpr
    exact div_nonneg (le_trans (abs_nonneg _) hd) (le_of_lt hs)
  unfold voxelIndex
  simp only []
  split <;> split <;> (try split) <;> (try split) <;> omega

/-- **a voxel holds the atoms filed under it**: a wrapped coordinate `0 ≤ y < n·size` lies in the row `[i·size, (i+1)·size)` of its index `i`
(what the geometric x window of `getNeighbors` assumes of every atom of the bin) -/
theorem c10_voxel_holds (n : Nat) (size y : Rat) (hs : 0 < size) (h0 : 0 ≤ y) (h1 : y < n * size) :
    (voxelIndex n size y : Rat) * size ≤ y ∧ y < ((voxelIndex n size y : Rat) + 1) * size := by
  have hf0 : 0 ≤ (y / size).floor := by
    simp only [floor_eq]; exact Int.floor_nonneg.mpr (div_nonneg h0 (le_of_lt hs))
  have hfn : (y / size).floor ≤ (n : Int) - 1 := by
    simp only [floor_eq]
    have : y / size < (n : Rat) := by rw [div_lt_iff₀ hs]; exact h1
    have h2 : (⌊y / size⌋ : Int) < (n : Int) := by
      have := lt_of_le_of_lt (Int.floor_le (y / size)) this
      exact_mod_cast this
    omega
  have hidx : ((voxelIndex n size y : Nat) : Int) = (y / size).floor := by
    unfold voxelIndex
    simp only []
    split
    · omega
    · split
      · omega
      · exact Int.toNat_of_nonneg hf0
  have hcast : (voxelIndex n size y : Rat) = (((y / size).floor : Int) : Rat) := by
    have := congrArg (fun k : Int => (k : Rat)) hidx
    simpa using this
  rw [hcast]
  simp only [floor_eq]
  have ha := Int.floor_le (y / size)
  have hb := Int.lt_floor_add_one (y / size)
  constructor
  · exact (le_div_iff₀ hs).mp ha
  · exact (div_lt_iff₀ hs).mp hb

/-- an atom a rounding error below the lower face is filed under the first row … -/
theorem c10_voxel_edge_low (n : Nat) (size y : Rat) (hs : 0 < size) (hy : y < 0) : voxelIndex n size y = 0 := by
  have : (y / size).floor < 0 := by
    simp only [floor_eq]
    have : y / size < 0 := div_neg_of_neg_of_pos hy hs
    exact Int.floor_lt.mpr (by exact_mod_cast this)
  unfold voxelIndex
  simp only [this, if_true]

/-- … and one on (or a rounding error above) the upper face under the last row: in both cases the row next to the position itself -/
theorem c10_voxel_edge_high (n : Nat) (size y : Rat) (hs : 0 < size) (hn : 0 < n) (hy : n * size ≤ y) : voxelIndex n size y = n - 1 := by
  have hfl : (n : Int) ≤ (y / size).floor := by
    simp only [floor_eq]
    exact Int.le_floor.mpr (by rw [le_div_iff₀ hs]; exact_mod_cast hy)
  unfold voxelIndex
  simp only []
  split
  · omega
  · split
    · rfl
    · omega

/-- the voxel index as `getVoxelIndex` computed it before c99b18e9: the (already wrapped) coordinate folded once more into `[0, L)` -/
def voxelIndexRefold (n : Nat) (size L y : Rat) : Nat := voxelIndex n size (y - ((y / L).floor : Int) * L)

/-- **why the fold was wrong** (the two-atom reproduction of §12.13: b_y = 7/4, five rows): an atom at y = −10⁻⁷ was filed under the top
row, more than a cutoff away from its own position, while the clamped index files it under row 0 -/
theorem c10_refold_witness :
    voxelIndexRefold 5 (7/20) (7/4) (-1/10000000) = 4 ∧ voxelIndex 5 (7/20) (-1/10000000) = 0 ∧
    ((4 : Rat) * (7/20) - (-1/10000000) > 1) := by
  refine ⟨by decide +kernel, by decide +kernel, by norm_num⟩

end MdVerif.Vox

/-! ## the geometric x window of a voxel (rectangular branches of `Voxels::getNeighbors`), over the reals -/
namespace MdVerif.VoxGeo

/-- **the x window of a voxel is wide enough** (rectangular branch of `Voxels::getNeighbors`, no periodic image): an atom `p` inside the voxel
`[ylo, yhi] × [zlo, zhi]` that is closer than the cutoff `d` to the centre atom `c` has its x coordinate strictly inside
`(c_x − √(d² − dy² − dz²), c_x + √(d² − dy² − dz²))`, where `dy`, `dz` are the distances from `c` to the voxel's rows — and that radicand is
positive, so the voxel is not skipped.  With `c10_xrange_exact` (the range scanned is exactly the atoms with minx ≤ x ≤ maxx) no neighbour is lost. -/
theorem c10_window_sound (cx cy cz px py pz ylo yhi zlo zhi d : ℝ)
    (hy1 : ylo ≤ py) (hy2 : py ≤ yhi) (hz1 : zlo ≤ pz) (hz2 : pz ≤ zhi)
    (hd : (px - cx) ^ 2 + (py - cy) ^ 2 + (pz - cz) ^ 2 < d ^ 2) :
    0 < d ^ 2 - gap cy ylo yhi ^ 2 - gap cz zlo zhi ^ 2 ∧
    cx - Real.sqrt (d ^ 2 - gap cy ylo yhi ^ 2 - gap cz zlo zhi ^ 2) < px ∧
    px < cx + Real.sqrt (d ^ 2 - gap cy ylo yhi ^ 2 - gap cz zlo zhi ^ 2) := by
  have gy := gap_le cy ylo yhi py hy1 hy2
  have gz := gap_le cz zlo zhi pz hz1 hz2
  have gy2 : gap cy ylo yhi ^ 2 ≤ (py - cy) ^ 2 := by
    rw [← sq_abs (py - cy)]; exact pow_le_pow_left₀ (gap_nonneg _ _ _) gy 2
  have gz2 : gap cz zlo zhi ^ 2 ≤ (pz - cz) ^ 2 := by
    rw [← sq_abs (pz - cz)]; exact pow_le_pow_left₀ (gap_nonneg _ _ _) gz 2
  have hx : (px - cx) ^ 2 < d ^ 2 - gap cy ylo yhi ^ 2 - gap cz zlo zhi ^ 2 := by linarith
  refine ⟨lt_of_le_of_lt (sq_nonneg _) hx, ?_, ?_⟩
  · have := Real.neg_sqrt_lt_of_sq_lt hx; linarith
  · have := Real.lt_sqrt_of_sq_lt hx; linarith


/-- **periodic rectangular cell**: an atom in another voxel row (no image of the centre atom lies in that row) whose periodic image
`p − (k_y·L_y, k_z·L_z)` in y and z is closer than the cutoff to `c`, with x shifted by `s` (the image offset along x), has its x coordinate
inside the window computed from the wrapped row distances -/
theorem c10_window_sound_periodic (cx cy cz px py pz ylo yhi zlo zhi d Ly Lz : ℝ) (ky kz : ℤ) (hLy : 0 < Ly) (hLz : 0 < Lz)
    (hy1 : ylo ≤ py) (hy2 : py ≤ yhi) (hz1 : zlo ≤ pz) (hz2 : pz ≤ zhi)
    (houty : ¬ (ylo ≤ cy + ky * Ly ∧ cy + ky * Ly ≤ yhi)) (houtz : ¬ (zlo ≤ cz + kz * Lz ∧ cz + kz * Lz ≤ zhi))
    (hd : (px - cx) ^ 2 + (py - cy - ky * Ly) ^ 2 + (pz - cz - kz * Lz) ^ 2 < d ^ 2) :
    0 < d ^ 2 - gapP Ly cy ylo yhi ^ 2 - gapP Lz cz zlo zhi ^ 2 ∧
    cx - Real.sqrt (d ^ 2 - gapP Ly cy ylo yhi ^ 2 - gapP Lz cz zlo zhi ^ 2) < px ∧
    px < cx + Real.sqrt (d ^ 2 - gapP Ly cy ylo yhi ^ 2 - gapP Lz cz zlo zhi ^ 2) := by
  have gy := gapP_le Ly cy ylo yhi py hLy hy1 hy2 ky houty
  have gz := gapP_le Lz cz zlo zhi pz hLz hz1 hz2 kz houtz
  have ny : 0 ≤ gapP Ly cy ylo yhi := le_min (abs_nonneg _) (abs_nonneg _)
  have nz : 0 ≤ gapP Lz cz zlo zhi := le_min (abs_nonneg _) (abs_nonneg _)
  have gy2 : gapP Ly cy ylo yhi ^ 2 ≤ (py - cy - ky * Ly) ^ 2 := by
    rw [← sq_abs (py - cy - ky * Ly)]; exact pow_le_pow_left₀ ny gy 2
  have gz2 : gapP Lz cz zlo zhi ^ 2 ≤ (pz - cz - kz * Lz) ^ 2 := by
    rw [← sq_abs (pz - cz - kz * Lz)]; exact pow_le_pow_left₀ nz gz 2
  have hx : (px - cx) ^ 2 < d ^ 2 - gapP Ly cy ylo yhi ^ 2 - gapP Lz cz zlo zhi ^ 2 := by linarith
  refine ⟨lt_of_le_of_lt (sq_nonneg _) hx, ?_, ?_⟩
  · have := Real.neg_sqrt_lt_of_sq_lt hx; linarith
  · have := Real.lt_sqrt_of_sq_lt hx; linarith

end MdVerif.VoxGeo
