import MdVerif.Model.Neighbors
import MdVerif.Properties.C05
/-!
# C10 — neighbour searches return exactly the atoms within the cutoff

* `c10_neighbors_exact`, `c10_neighbors_order`, `c10_neighbors_nodup`   `compute_neighbors` = the haystack atoms (≠ the query atom)
  whose wrapped distance to some query atom is below the cutoff, in haystack order, without duplicates.
* `c10_wrap_is_min`  inside `cutoff ≤ h`, `2h ≤ min(a_x,b_y,c_z)` the wrap-only kernels decide "minimum-image distance < cutoff" exactly
  (this is what justifies the absence of a 27-image search in neighbors.cpp and neighborlist.cpp); orthorhombic: always.
* `c10_halflist_exact`, `c10_complete_mem`, `c10_neighborlist_symm`, `c10_neighborlist_irrefl`, `c10_neighborlist_nodup`,
  `c10_neighborlist_exact`   the completed list is symmetric, irreflexive, duplicate-free and holds exactly the other atoms
  within the cutoff, given that the wrapped squared distance is symmetric (`c10_d2_symm_ortho`).
The voxel pruning of neighborlist.cpp (that `getNeighbors` finds every member of `halfList`) is not proved: correspondence only.
-/
namespace MdVerif.Nb
open MdVerif.Mic

theorem c10_neighbors_exact (rnd : Rat → Int) (w : Wrap) (pos : List V3) (c2 : Rat) (q h : List Nat) (i : Nat) :
    i ∈ neighbors rnd w pos c2 q h ↔ i ∈ h ∧ ∃ j ∈ q, i ≠ j ∧ d2 rnd w pos i j < c2 := by
  simp [neighbors, List.mem_filter, List.any_eq_true]

theorem c10_neighbors_order (rnd : Rat → Int) (w : Wrap) (pos : List V3) (c2 : Rat) (q h : List Nat) :
    (neighbors rnd w pos c2 q h).Sublist h := List.filter_sublist

theorem c10_neighbors_nodup (rnd : Rat → Int) (w : Wrap) (pos : List V3) (c2 : Rat) (q h : List Nat) (hn : h.Nodup) :
    (neighbors rnd w pos c2 q h).Nodup := hn.sublist List.filter_sublist

/-- **wrap-only is enough inside half the smallest diagonal entry** -/
theorem c10_wrap_is_min (rnd : Rat → Int) (hr : NearestRound rnd) (B : Cell) (hB : LowerTri B)
    (ha : 0 < B.a.x) (hb : 0 < B.b.y) (hc : 0 < B.c.z) (r : V3) (cut : Rat) (hcut : 0 < cut)
    (h2a : 2 * cut ≤ B.a.x) (h2b : 2 * cut ≤ B.b.y) (h2c : 2 * cut ≤ B.c.z) :
    ((Wrap.tri B).apply rnd r).norm2 < cut * cut ↔ ∃ i j k : Int, (r.add (B.latt i j k)).norm2 < cut * cut := by
  constructor
  · intro h
    obtain ⟨i, j, k, e⟩ := isImage_of_reduce (wrapTri_image rnd (reduce rnd B) r)
    exact ⟨i, j, k, by rw [← e]; exact h⟩
  · rintro ⟨i, j, k, h⟩
    have := c05_tri_min rnd hr B hB ha hb hc r cut hcut h2a h2b h2c (r.add (B.latt i j k)) ⟨i, j, k, rfl⟩ h
    -- the minimum image is the wrapped vector
    obtain ⟨hRl, eax, eby, ecz⟩ := reduce_lower rnd B hB
    have uniq := c05_tri_unique rnd hr (reduce rnd B) hRl (by rw [eax]; exact ha) (by rw [eby]; exact hb) (by rw [ecz]; exact hc)
      r cut hcut (by rw [eax]; exact h2a) (by rw [eby]; exact h2b) (by rw [ecz]; exact h2c)
    obtain ⟨i', j', k', e'⟩ := reduce_latt_inv rnd B i j k
    obtain ⟨a, b, c, e⟩ := image_of_wrap rnd (reduce rnd B) r (r.add (B.latt i j k)) ⟨i', j', k', by rw [e']⟩
    obtain ⟨rfl, rfl, rfl⟩ := uniq a b c (by rw [← e]; exact h)
    rw [latt_zero] at e
    show (wrapTri rnd (reduce rnd B) r).norm2 < cut * cut
    rw [← e]; exact h

theorem c10_wrap_is_min_ortho (rnd : Rat → Int) (hr : NearestRound rnd) (B : Cell) (hB : IsDiag B)
    (ha : 0 < B.a.x) (hb : 0 < B.b.y) (hc : 0 < B.c.z) (r : V3) (c2 : Rat) :
    ((Wrap.ortho B).apply rnd r).norm2 < c2 ↔ ∃ i j k : Int, (r.add (B.latt i j k)).norm2 < c2 := by
  constructor
  · intro h
    exact ⟨_, _, _, by rw [← c05_ortho_congruent rnd B hB r]; exact h⟩
  · rintro ⟨i, j, k, h⟩
    exact lt_of_le_of_lt (c05_ortho_min rnd hr B hB ha hb hc r i j k) h

/-! ### the neighbour list -/

theorem c10_halflist_exact (rnd : Rat → Int) (w : Wrap) (pos : List V3) (c2 : Rat) (i j : Nat) :
    j ∈ halfList rnd w pos c2 i ↔ j < i ∧ d2 rnd w pos i j ≤ c2 := by
  simp [halfList, List.mem_filter]

theorem getD_map_range (n : Nat) (f : Nat → List Nat) (i : Nat) :
    ((List.range n).map f).getD i [] = if i < n then f i else [] := by
  simp only [List.getD_eq_getElem?_getD, List.getElem?_map, List.getElem?_range]
  split <;> simp_all

/-- membership in the completed list: from the own half list or from a later atom's half list -/
theorem c10_complete_mem (H : List (List Nat)) (k j : Nat) (hk : k < H.length) :
    j ∈ (complete H).getD k [] ↔ j ∈ H.getD k [] ∨ (j < H.length ∧ k ∈ H.getD j []) := by
  unfold complete
  rw [getD_map_range]
  simp [hk, List.mem_filter]

/-- well-formed half lists: only lower indices, no duplicates (what `if (index >= atomIndex) continue` ensures) -/
def HalfWF (H : List (List Nat)) : Prop := ∀ i, (∀ j ∈ H.getD i [], j < i) ∧ (H.getD i []).Nodup

theorem c10_neighborlist_symm (H : List (List Nat)) (hw : HalfWF H) (i j : Nat) (hi : i < H.length) (hj : j < H.length) :
    j ∈ (complete H).getD i [] ↔ i ∈ (complete H).getD j [] := by
  rw [c10_complete_mem H i j hi, c10_complete_mem H j i hj]
  constructor <;> rintro (h | ⟨_, h⟩) <;> first | (right; exact ⟨by assumption, h⟩) | (left; exact h)

theorem c10_neighborlist_irrefl (H : List (List Nat)) (hw : HalfWF H) (i : Nat) (hi : i < H.length) :
    i ∉ (complete H).getD i [] := by
  rw [c10_complete_mem H i i hi]
  rintro (h | ⟨_, h⟩) <;> exact absurd ((hw i).1 i h) (lt_irrefl i)

theorem c10_neighborlist_nodup (H : List (List Nat)) (hw : HalfWF H) (k : Nat) (hk : k < H.length) :
    ((complete H).getD k []).Nodup := by
  unfold complete
  rw [getD_map_range]
  simp only [hk, if_true]
  rw [List.nodup_append]
  refine ⟨(hw k).2, (List.nodup_range).filter _, ?_⟩
  intro a ha b hb
  have h1 := (hw k).1 a ha
  simp only [List.mem_filter, List.mem_range, List.contains_iff_mem] at hb
  have h2 := (hw b).1 k (by simpa using hb.2)
  omega

theorem halfWF_spec (rnd : Rat → Int) (w : Wrap) (pos : List V3) (c2 : Rat) :
    HalfWF ((List.range pos.length).map (halfList rnd w pos c2)) := by
  intro i
  rw [getD_map_range]
  split
  · exact ⟨fun j hj => ((c10_halflist_exact rnd w pos c2 i j).mp hj).1, (List.nodup_range).filter _⟩
  · exact ⟨by simp, by simp⟩

/-- **exactly the other atoms within the cutoff**, provided the wrapped squared distance is symmetric in the two atoms -/
theorem c10_neighborlist_exact (rnd : Rat → Int) (w : Wrap) (pos : List V3) (c2 : Rat)
    (hsym : ∀ i j, d2 rnd w pos i j = d2 rnd w pos j i) (i j : Nat) (hi : i < pos.length) (hj : j < pos.length) :
    j ∈ (neighborlist rnd w pos c2).getD i [] ↔ j ≠ i ∧ d2 rnd w pos i j ≤ c2 := by
  unfold neighborlist
  have hl : ((List.range pos.length).map (halfList rnd w pos c2)).length = pos.length := by simp
  rw [c10_complete_mem _ i j (by rw [hl]; exact hi)]
  rw [getD_map_range, getD_map_range]
  simp only [hi, hj, if_true, hl, c10_halflist_exact, true_and]
  constructor
  · rintro (⟨h1, h2⟩ | ⟨h1, h2⟩)
    · exact ⟨by omega, h2⟩
    · exact ⟨by omega, by rw [hsym]; exact h2⟩
  · rintro ⟨h1, h2⟩
    rcases Nat.lt_or_gt_of_ne h1 with h | h
    · left; exact ⟨h, h2⟩
    · right; exact ⟨h, by rw [hsym]; exact h2⟩

/-- the orthorhombic wrap is symmetric for roundings that are odd (`rnd (-x) = -rnd x`, true for C `roundf` and the SSE `round`) -/
theorem c10_d2_symm_ortho (rnd : Rat → Int) (hodd : ∀ x, rnd (-x) = -rnd x) (B : Cell) (pos : List V3) (i j : Nat) :
    d2 rnd (.ortho B) pos i j = d2 rnd (.ortho B) pos j i := by
  have key : ∀ r L : Rat, wrap1 rnd (-r) L = -wrap1 rnd r L := by
    intro r L
    unfold wrap1
    rw [neg_div, hodd]; push_cast; ring
  simp only [d2, Wrap.apply, distOrtho, V3.norm2, V3.dot, V3.sub]
  have ex : (getD0 pos i).x - (getD0 pos j).x = -((getD0 pos j).x - (getD0 pos i).x) := by ring
  have ey : (getD0 pos i).y - (getD0 pos j).y = -((getD0 pos j).y - (getD0 pos i).y) := by ring
  have ez : (getD0 pos i).z - (getD0 pos j).z = -((getD0 pos j).z - (getD0 pos i).z) := by ring
  rw [ex, ey, ez, key, key, key]; ring

theorem roundHA_odd (x : Rat) : roundHA (-x) = -roundHA x := by
  unfold roundHA
  by_cases h : 0 ≤ x
  · by_cases h0 : x = 0
    · subst h0
      have hz : ((2 : Rat)⁻¹).floor = 0 := by
        rw [floor_eq, Int.floor_eq_iff]; constructor <;> norm_num
      simp [hz]
    · have : ¬ (0 ≤ -x) := by
        intro hc; exact h0 (le_antisymm (by linarith) h)
      simp [h, this]
  · have : 0 ≤ -x := by linarith
    simp [h, this]

end MdVerif.Nb
