import MdVerif.Proofs.MicLemmas
/-!
# C05 — periodic distances and displacements are true minimum-image values

Over ℚ, for every separation vector `r`, every cell and every nearest-integer rounding (`roundHA` = C `roundf`,
`roundHZ` = the SSE `round`, `roundHE` = numpy `round`; ties broken any way):
* `c05_ortho_congruent`, `c05_ortho_min`   the orthorhombic kernel returns a lattice image of `r`, and no lattice image is
  shorter — for **every** separation.
* `c05_tri_congruent`      the triclinic kernel (reduce, wrap c-b-a, 27-image search) returns `r` plus an integer combination
  of the **original** cell vectors, whatever the cell (reduction is unimodular); `c05_never_below` follows.
* `c05_search_le_wrap`     the 27-search never does worse than the wrapped vector.
* `c05_tri_unique`, `c05_tri_min`   for a lower-triangular cell with positive diagonal: if *some* image of `r` is shorter than `h`
  with `2h ≤ min(a_x, b_y, c_z)`, the kernel returns exactly that image and it is the shortest of all images.
* `c05_width_le_diag`      the three cell widths are at most `a_x, b_y, c_z`, so the proved range contains the property's
  "half the smallest cell width".
* `c05_nonperiodic_plain`  without a cell the displacement is the plain difference.
-/
namespace MdVerif.Mic

theorem V3.ext3 {a b : V3} (hx : a.x = b.x) (hy : a.y = b.y) (hz : a.z = b.z) : a = b := by
  cases a; cases b; simp_all

def IsDiag (B : Cell) : Prop := B.a.y = 0 ∧ B.a.z = 0 ∧ B.b.x = 0 ∧ B.b.z = 0 ∧ B.c.x = 0 ∧ B.c.y = 0
def LowerTri (B : Cell) : Prop := B.a.y = 0 ∧ B.a.z = 0 ∧ B.b.z = 0
def IsImage (B : Cell) (d r : V3) : Prop := ∃ i j k : Int, d = r.add (B.latt i j k)

theorem latt_add (B : Cell) (r : V3) (i j k i' j' k' : Int) :
    (r.add (B.latt i j k)).add (B.latt i' j' k') = r.add (B.latt (i + i') (j + j') (k + k')) := by
  apply V3.ext3 <;> simp [V3.add, V3.smul, Cell.latt] <;> ring

theorem isImage_add {B : Cell} {d r : V3} (h : IsImage B d r) (i j k : Int) : IsImage B (d.add (B.latt i j k)) r := by
  obtain ⟨a, b, c, rfl⟩ := h
  exact ⟨a + i, b + j, c + k, latt_add B r a b c i j k⟩

theorem isImage_refl (B : Cell) (r : V3) : IsImage B r r :=
  ⟨0, 0, 0, by apply V3.ext3 <;> simp [V3.add, V3.smul, Cell.latt]⟩

/-! ### orthorhombic -/

theorem c05_ortho_congruent (rnd : Rat → Int) (B : Cell) (hB : IsDiag B) (r : V3) :
    distOrtho rnd B r = r.add (B.latt (shiftOrtho rnd B r).1 (shiftOrtho rnd B r).2.1 (shiftOrtho rnd B r).2.2) := by
  obtain ⟨h1, h2, h3, h4, h5, h6⟩ := hB
  apply V3.ext3 <;> simp [distOrtho, shiftOrtho, wrap1, V3.add, V3.smul, Cell.latt, h1, h2, h3, h4, h5, h6] <;> ring

theorem sq_le_sq_of_abs {a b : Rat} (h : |a| ≤ |b|) : a * a ≤ b * b := by
  have := mul_self_le_mul_self (abs_nonneg a) h
  rwa [abs_mul_abs_self, abs_mul_abs_self] at this

/-- **orthorhombic minimality, every separation**: no lattice image of `r` is shorter than the kernel's result -/
theorem c05_ortho_min (rnd : Rat → Int) (hr : NearestRound rnd) (B : Cell) (hB : IsDiag B)
    (ha : 0 < B.a.x) (hb : 0 < B.b.y) (hc : 0 < B.c.z) (r : V3) (i j k : Int) :
    (distOrtho rnd B r).norm2 ≤ (r.add (B.latt i j k)).norm2 := by
  obtain ⟨h1, h2, h3, h4, h5, h6⟩ := hB
  have hx := sq_le_sq_of_abs (wrap1_min rnd hr r.x B.a.x ha i)
  have hy := sq_le_sq_of_abs (wrap1_min rnd hr r.y B.b.y hb j)
  have hz := sq_le_sq_of_abs (wrap1_min rnd hr r.z B.c.z hc k)
  simp only [V3.norm2, V3.dot, distOrtho, V3.add, V3.smul, Cell.latt, h1, h2, h3, h4, h5, h6]
  have ex : r.x + ((i : Rat) * B.a.x + ((j : Rat) * 0 + (k : Rat) * 0)) = r.x + (i : Rat) * B.a.x := by ring
  have ey : r.y + ((i : Rat) * 0 + ((j : Rat) * B.b.y + (k : Rat) * 0)) = r.y + (j : Rat) * B.b.y := by ring
  have ez : r.z + ((i : Rat) * 0 + ((j : Rat) * 0 + (k : Rat) * B.c.z)) = r.z + (k : Rat) * B.c.z := by ring
  rw [ex, ey, ez]
  linarith

/-! ### triclinic: congruence for every cell -/

/-- the reduced cell spans the same lattice: each of its lattice vectors is a lattice vector of the original cell -/
theorem reduce_latt (rnd : Rat → Int) (B : Cell) (i j k : Int) :
    ∃ i' j' k' : Int, (reduce rnd B).latt i j k = B.latt i' j' k' := by
  let p : Int := rnd (B.c.y / B.b.y)
  let q : Int := rnd ((B.c.sub (V3.smul (rnd (B.c.y / B.b.y)) B.b)).x / B.a.x)
  let m : Int := rnd (B.b.x / B.a.x)
  refine ⟨i - j * m - k * q, j - k * p, k, ?_⟩
  apply V3.ext3 <;> simp [reduce, Cell.latt, V3.add, V3.sub, V3.smul, p, q, m] <;> ring

theorem isImage_of_reduce {rnd : Rat → Int} {B : Cell} {d r : V3} (h : IsImage (reduce rnd B) d r) : IsImage B d r := by
  obtain ⟨i, j, k, rfl⟩ := h
  obtain ⟨i', j', k', e⟩ := reduce_latt rnd B i j k
  exact ⟨i', j', k', by rw [e]⟩

theorem isImage_sub_a {R : Cell} {d r : V3} (h : IsImage R d r) (n : Int) : IsImage R (d.sub (V3.smul n R.a)) r := by
  have e : d.sub (V3.smul n R.a) = d.add (R.latt (-n) 0 0) := by
    apply V3.ext3 <;> simp [V3.add, V3.sub, V3.smul, Cell.latt] <;> ring
  rw [e]; exact isImage_add h _ _ _

theorem isImage_sub_b {R : Cell} {d r : V3} (h : IsImage R d r) (n : Int) : IsImage R (d.sub (V3.smul n R.b)) r := by
  have e : d.sub (V3.smul n R.b) = d.add (R.latt 0 (-n) 0) := by
    apply V3.ext3 <;> simp [V3.add, V3.sub, V3.smul, Cell.latt] <;> ring
  rw [e]; exact isImage_add h _ _ _

theorem isImage_sub_c {R : Cell} {d r : V3} (h : IsImage R d r) (n : Int) : IsImage R (d.sub (V3.smul n R.c)) r := by
  have e : d.sub (V3.smul n R.c) = d.add (R.latt 0 0 (-n)) := by
    apply V3.ext3 <;> simp [V3.add, V3.sub, V3.smul, Cell.latt] <;> ring
  rw [e]; exact isImage_add h _ _ _

theorem wrapTri_image (rnd : Rat → Int) (R : Cell) (r : V3) : IsImage R (wrapTri rnd R r) r := by
  unfold wrapTri
  exact isImage_sub_a (isImage_sub_b (isImage_sub_c (isImage_refl R r) _) _) _

theorem pickLast_mem (cands : List ((Int × Int × Int) × V3)) (init : (Int × Int × Int) × V3) :
    pickLast cands init = init ∨ pickLast cands init ∈ cands := by
  induction cands generalizing init with
  | nil => left; rfl
  | cons c cs ih =>
    have e : pickLast (c :: cs) init = pickLast cs (if c.2.norm2 ≤ init.2.norm2 then c else init) := rfl
    rw [e]
    by_cases hc : c.2.norm2 ≤ init.2.norm2
    · simp only [hc, if_true]
      rcases ih c with h | h
      · right; rw [h]; simp
      · right; exact List.mem_cons_of_mem _ h
    · simp only [hc, if_false]
      rcases ih init with h | h
      · left; exact h
      · right; exact List.mem_cons_of_mem _ h

theorem pickLast_le (cands : List ((Int × Int × Int) × V3)) (init : (Int × Int × Int) × V3) :
    (pickLast cands init).2.norm2 ≤ init.2.norm2 ∧ ∀ c ∈ cands, (pickLast cands init).2.norm2 ≤ c.2.norm2 := by
  induction cands generalizing init with
  | nil => simp [pickLast]
  | cons c cs ih =>
    simp only [pickLast, List.foldl_cons]
    have := ih (if c.2.norm2 ≤ init.2.norm2 then c else init)
    simp only [pickLast] at this
    by_cases hc : c.2.norm2 ≤ init.2.norm2
    · simp only [hc, if_true] at this ⊢
      refine ⟨le_trans this.1 hc, ?_⟩
      intro x hx
      rcases List.mem_cons.mp hx with rfl | hx
      · exact this.1
      · exact this.2 x hx
    · simp only [hc, if_false] at this ⊢
      refine ⟨this.1, ?_⟩
      intro x hx
      rcases List.mem_cons.mp hx with rfl | hx
      · exact le_trans this.1 (le_of_lt (not_le.mp hc))
      · exact this.2 x hx

theorem images27_image (R : Cell) (w : V3) : ∀ c ∈ images27 R w, IsImage R c.2 w := by
  intro c hc
  simp only [images27, List.mem_flatMap, List.mem_map] at hc
  obtain ⟨x, _, y, _, z, _, rfl⟩ := hc
  exact ⟨x, y, z, rfl⟩

theorem images27_zero (R : Cell) (w : V3) : ((0, 0, 0), w.add (R.latt 0 0 0)) ∈ images27 R w := by
  simp [images27, offsets]

theorem distTri_image_reduced (rnd : Rat → Int) (B : Cell) (r : V3) :
    IsImage (reduce rnd B) (distTri rnd B r) (wrapTri rnd (reduce rnd B) r) := by
  unfold distTri
  simp only []
  cases him : images27 (reduce rnd B) (wrapTri rnd (reduce rnd B) r) with
  | nil => exact isImage_refl _ _
  | cons c0 cs =>
    simp only []
    have hall := images27_image (reduce rnd B) (wrapTri rnd (reduce rnd B) r)
    rw [him] at hall
    rcases pickLast_mem cs c0 with h | h
    · rw [h]; exact hall c0 (by simp)
    · exact hall _ (List.mem_cons_of_mem _ h)

/-- **congruence, every cell, every separation**: the reported displacement is the plain difference shifted by an
integer combination of the cell vectors -/
theorem c05_tri_congruent (rnd : Rat → Int) (B : Cell) (r : V3) : IsImage B (distTri rnd B r) r := by
  apply isImage_of_reduce (rnd := rnd)
  obtain ⟨i, j, k, e⟩ := distTri_image_reduced rnd B r
  obtain ⟨i', j', k', e'⟩ := wrapTri_image rnd (reduce rnd B) r
  refine ⟨i' + i, j' + j, k' + k, ?_⟩
  rw [e, e', latt_add]

/-- the reported distance is never below the true minimum over all images -/
theorem c05_never_below (rnd : Rat → Int) (B : Cell) (r : V3) (m : Rat)
    (hm : ∀ i j k : Int, m ≤ (r.add (B.latt i j k)).norm2) : m ≤ dist2Tri rnd B r := by
  obtain ⟨i, j, k, e⟩ := c05_tri_congruent rnd B r
  unfold dist2Tri; rw [e]; exact hm i j k

/-- the 27-image search contains the wrapped vector itself, so it never does worse -/
theorem c05_search_le_wrap (rnd : Rat → Int) (B : Cell) (r : V3) :
    dist2Tri rnd B r ≤ (wrapTri rnd (reduce rnd B) r).norm2 := by
  unfold dist2Tri distTri
  simp only []
  generalize hR : reduce rnd B = R
  generalize hwd : wrapTri rnd R r = w
  have hz := images27_zero R w
  have hw : w.add (R.latt 0 0 0) = w := by
    apply V3.ext3 <;> simp [V3.add, V3.smul, Cell.latt]
  rw [hw] at hz
  cases him : images27 R w with
  | nil => rw [him] at hz
  | cons c0 cs =>
    rw [him] at hz
    have hle := pickLast_le cs c0
    show (pickLast cs c0).2.norm2 ≤ w.norm2
    rcases List.mem_cons.mp hz with h | h
    · have h1 := hle.1
      rw [← h] at h1 ⊢
      exact h1
    · have h2 := hle.2 ((0, 0, 0), w) h
      exact h2

/-- **without a cell** (or `periodic=False`) the displacement is the plain coordinate difference -/
theorem c05_nonperiodic_plain (p q : V3) : (q.sub p).norm2 = (q.x - p.x) ^ 2 + (q.y - p.y) ^ 2 + (q.z - p.z) ^ 2 := by
  simp [V3.norm2, V3.dot, V3.sub]; ring


/-! ### triclinic: the kernel returns *the* minimum image inside half the smallest diagonal entry -/

theorem reduce_lower (rnd : Rat → Int) (B : Cell) (hB : LowerTri B) :
    LowerTri (reduce rnd B) ∧ (reduce rnd B).a.x = B.a.x ∧ (reduce rnd B).b.y = B.b.y ∧ (reduce rnd B).c.z = B.c.z := by
  obtain ⟨h1, h2, h3⟩ := hB
  refine ⟨⟨h1, h2, ?_⟩, rfl, ?_, ?_⟩ <;> simp [reduce, V3.sub, V3.smul, h1, h2, h3]

/-- the original lattice is contained in the reduced one as well (the reduction is unimodular) -/
theorem reduce_latt_inv (rnd : Rat → Int) (B : Cell) (i j k : Int) :
    ∃ i' j' k' : Int, B.latt i j k = (reduce rnd B).latt i' j' k' := by
  let p : Int := rnd (B.c.y / B.b.y)
  let q : Int := rnd ((B.c.sub (V3.smul (rnd (B.c.y / B.b.y)) B.b)).x / B.a.x)
  let m : Int := rnd (B.b.x / B.a.x)
  refine ⟨i + j * m + k * (p * m + q), j + k * p, k, ?_⟩
  apply V3.ext3 <;> simp [reduce, Cell.latt, V3.add, V3.sub, V3.smul, p, q, m] <;> ring

theorem wrapTri_bounds (rnd : Rat → Int) (hr : NearestRound rnd) (R : Cell) (hR : LowerTri R)
    (ha : 0 < R.a.x) (hb : 0 < R.b.y) (hc : 0 < R.c.z) (r : V3) :
    |(wrapTri rnd R r).x| ≤ R.a.x / 2 ∧ |(wrapTri rnd R r).y| ≤ R.b.y / 2 ∧ |(wrapTri rnd R r).z| ≤ R.c.z / 2 := by
  obtain ⟨h1, h2, h3⟩ := hR
  refine ⟨?_, ?_, ?_⟩
  · have := wrap1_bound rnd hr ((r.sub (V3.smul (rnd (r.z / R.c.z)) R.c)).sub
      (V3.smul (rnd ((r.sub (V3.smul (rnd (r.z / R.c.z)) R.c)).y / R.b.y)) R.b)).x R.a.x ha
    simpa [wrapTri, wrap1, V3.sub, V3.smul] using this
  · have := wrap1_bound rnd hr (r.sub (V3.smul (rnd (r.z / R.c.z)) R.c)).y R.b.y hb
    simpa [wrapTri, wrap1, V3.sub, V3.smul, h1] using this
  · have := wrap1_bound rnd hr r.z R.c.z hc
    simpa [wrapTri, wrap1, V3.sub, V3.smul, h2, h3] using this

theorem int_zero_of_abs_mul_lt {k : Int} {L : Rat} (hL : 0 < L) (h : |(k : Rat) * L| < L) : k = 0 := by
  rw [abs_mul, abs_of_pos hL] at h
  have h1 : |(k : Rat)| < 1 := by
    by_contra hc
    push Not at hc
    have : L ≤ |(k : Rat)| * L := by nlinarith
    linarith
  have h2 : |k| < 1 := by exact_mod_cast h1
  exact Int.abs_lt_one_iff.mp h2

theorem abs_lt_of_mul_self_lt {a h : Rat} (hh : 0 < h) (ha : a * a < h * h) : |a| < h := by
  rw [abs_lt]; constructor <;> nlinarith

/-- **uniqueness**: after the c-b-a wrap, the only lattice image of the wrapped vector shorter than `h`
(`2h ≤ a_x, b_y, c_z`) is the wrapped vector itself -/
theorem c05_tri_unique (rnd : Rat → Int) (hr : NearestRound rnd) (R : Cell) (hR : LowerTri R)
    (ha : 0 < R.a.x) (hb : 0 < R.b.y) (hc : 0 < R.c.z) (r : V3) (h : Rat) (hh : 0 < h)
    (h2a : 2 * h ≤ R.a.x) (h2b : 2 * h ≤ R.b.y) (h2c : 2 * h ≤ R.c.z) (i j k : Int)
    (hm : ((wrapTri rnd R r).add (R.latt i j k)).norm2 < h * h) : i = 0 ∧ j = 0 ∧ k = 0 := by
  obtain ⟨bx, by', bz⟩ := wrapTri_bounds rnd hr R hR ha hb hc r
  obtain ⟨h1, h2, h3⟩ := hR
  set w := wrapTri rnd R r with hw
  have hn : ((w.add (R.latt i j k)).x) * ((w.add (R.latt i j k)).x) + ((w.add (R.latt i j k)).y) * ((w.add (R.latt i j k)).y)
      + ((w.add (R.latt i j k)).z) * ((w.add (R.latt i j k)).z) < h * h := by
    simpa [V3.norm2, V3.dot] using hm
  have ez : (w.add (R.latt i j k)).z = w.z + (k : Rat) * R.c.z := by
    simp [V3.add, V3.smul, Cell.latt, h2, h3]
  have hz : |(w.add (R.latt i j k)).z| < h := abs_lt_of_mul_self_lt hh (by nlinarith [mul_self_nonneg (w.add (R.latt i j k)).x, mul_self_nonneg (w.add (R.latt i j k)).y])
  have hk : k = 0 := by
    apply int_zero_of_abs_mul_lt hc
    have : (k : Rat) * R.c.z = (w.add (R.latt i j k)).z - w.z := by rw [ez]; ring
    rw [this]
    calc |(w.add (R.latt i j k)).z - w.z| ≤ |(w.add (R.latt i j k)).z| + |w.z| := abs_sub _ _
      _ < R.c.z := by linarith
  subst hk
  have ey : (w.add (R.latt i j 0)).y = w.y + (j : Rat) * R.b.y := by
    simp [V3.add, V3.smul, Cell.latt, h1]
  have hy : |(w.add (R.latt i j 0)).y| < h := abs_lt_of_mul_self_lt hh (by nlinarith [mul_self_nonneg (w.add (R.latt i j 0)).x, mul_self_nonneg (w.add (R.latt i j 0)).z])
  have hj : j = 0 := by
    apply int_zero_of_abs_mul_lt hb
    have : (j : Rat) * R.b.y = (w.add (R.latt i j 0)).y - w.y := by rw [ey]; ring
    rw [this]
    calc |(w.add (R.latt i j 0)).y - w.y| ≤ |(w.add (R.latt i j 0)).y| + |w.y| := abs_sub _ _
      _ < R.b.y := by linarith
  subst hj
  have ex : (w.add (R.latt i 0 0)).x = w.x + (i : Rat) * R.a.x := by
    simp [V3.add, V3.smul, Cell.latt]
  have hx : |(w.add (R.latt i 0 0)).x| < h := abs_lt_of_mul_self_lt hh (by nlinarith [mul_self_nonneg (w.add (R.latt i 0 0)).y, mul_self_nonneg (w.add (R.latt i 0 0)).z])
  have hi : i = 0 := by
    apply int_zero_of_abs_mul_lt ha
    have : (i : Rat) * R.a.x = (w.add (R.latt i 0 0)).x - w.x := by rw [ex]; ring
    rw [this]
    calc |(w.add (R.latt i 0 0)).x - w.x| ≤ |(w.add (R.latt i 0 0)).x| + |w.x| := abs_sub _ _
      _ < R.a.x := by linarith
  exact ⟨hi, rfl, rfl⟩

theorem latt_zero (R : Cell) (w : V3) : w.add (R.latt 0 0 0) = w := by
  apply V3.ext3 <;> simp [V3.add, V3.smul, Cell.latt]

/-- images of `r` are images of the wrapped vector (same lattice) -/
theorem image_of_wrap (rnd : Rat → Int) (R : Cell) (r m : V3) (hm : IsImage R m r) : IsImage R m (wrapTri rnd R r) := by
  obtain ⟨i, j, k, rfl⟩ := hm
  obtain ⟨i', j', k', e⟩ := wrapTri_image rnd R r
  refine ⟨i - i', j - j', k - k', ?_⟩
  rw [e, latt_add]
  congr 2 <;> ring

/-- **minimum image inside half the smallest diagonal entry**: if some lattice image `m` of `r` is shorter than `h`
with `2h ≤ a_x, b_y, c_z`, then the triclinic kernel returns exactly `m`, and `m` is the shortest of all images -/
theorem c05_tri_min (rnd : Rat → Int) (hr : NearestRound rnd) (B : Cell) (hB : LowerTri B)
    (ha : 0 < B.a.x) (hb : 0 < B.b.y) (hc : 0 < B.c.z) (r : V3) (h : Rat) (hh : 0 < h)
    (h2a : 2 * h ≤ B.a.x) (h2b : 2 * h ≤ B.b.y) (h2c : 2 * h ≤ B.c.z)
    (m : V3) (hm : IsImage B m r) (hshort : m.norm2 < h * h) :
    distTri rnd B r = m ∧ ∀ i j k : Int, m.norm2 ≤ (r.add (B.latt i j k)).norm2 := by
  obtain ⟨hRl, eax, eby, ecz⟩ := reduce_lower rnd B hB
  set R := reduce rnd B with hRdef
  have ha' : 0 < R.a.x := by rw [eax]; exact ha
  have hb' : 0 < R.b.y := by rw [eby]; exact hb
  have hc' : 0 < R.c.z := by rw [ecz]; exact hc
  have uniq := c05_tri_unique rnd hr R hRl ha' hb' hc' r h hh (by rw [eax]; exact h2a) (by rw [eby]; exact h2b) (by rw [ecz]; exact h2c)
  -- every image w.r.t. B is an image w.r.t. R of the wrapped vector
  have toR : ∀ v : V3, IsImage B v r → IsImage R v (wrapTri rnd R r) := by
    intro v hv
    obtain ⟨i, j, k, rfl⟩ := hv
    obtain ⟨i', j', k', e⟩ := reduce_latt_inv rnd B i j k
    exact image_of_wrap rnd R r _ ⟨i', j', k', by rw [e]⟩
  -- m is the wrapped vector
  obtain ⟨i, j, k, em⟩ := toR m hm
  obtain ⟨rfl, rfl, rfl⟩ := uniq i j k (by rw [← em]; exact hshort)
  rw [latt_zero] at em
  -- the kernel's result is the wrapped vector too
  have hd := distTri_image_reduced rnd B r
  have hle := c05_search_le_wrap rnd B r
  obtain ⟨i, j, k, ed⟩ := hd
  have : ((wrapTri rnd R r).add (R.latt i j k)).norm2 < h * h := by
    have h1 : (distTri rnd B r).norm2 ≤ (wrapTri rnd R r).norm2 := hle
    rw [ed] at h1
    calc _ ≤ (wrapTri rnd R r).norm2 := h1
      _ = m.norm2 := by rw [em]
      _ < h * h := hshort
  obtain ⟨rfl, rfl, rfl⟩ := uniq i j k this
  rw [latt_zero] at ed
  refine ⟨by rw [ed, em], ?_⟩
  intro i j k
  by_contra hlt
  push Not at hlt
  obtain ⟨a, b, c, e⟩ := toR (r.add (B.latt i j k)) ⟨i, j, k, rfl⟩
  have hs : ((wrapTri rnd R r).add (R.latt a b c)).norm2 < h * h := by rw [← e]; exact lt_trans hlt hshort
  obtain ⟨rfl, rfl, rfl⟩ := uniq a b c hs
  rw [latt_zero] at e
  rw [e, ← em] at hlt
  exact lt_irrefl _ hlt

/-- the cell widths (volume over face area) are at most the diagonal entries `a_x, b_y, c_z` of a lower-triangular cell:
`V² ≤ a_x²·|b×c|²`, `V² ≤ b_y²·|c×a|²`, `V² = c_z²·|a×b|²` — so `w/2 ≤ min(a_x, b_y, c_z)/2` -/
theorem c05_width_le_diag (B : Cell) (hB : LowerTri B) :
    let V := B.a.x * B.b.y * B.c.z
    V * V ≤ B.a.x * B.a.x * (B.b.cross B.c).norm2 ∧ V * V ≤ B.b.y * B.b.y * (B.c.cross B.a).norm2 ∧
    V * V = B.c.z * B.c.z * (B.a.cross B.b).norm2 := by
  obtain ⟨h1, h2, h3⟩ := hB
  simp only [V3.norm2, V3.dot, V3.cross, h1, h2, h3]
  refine ⟨?_, ?_, ?_⟩
  · nlinarith [mul_self_nonneg (B.a.x * (B.b.x * B.c.z)), mul_self_nonneg (B.a.x * (B.b.x * B.c.y - B.b.y * B.c.x)),
      mul_self_nonneg (B.a.x * (B.b.z * B.c.x - B.b.x * B.c.z))]
  · nlinarith [mul_self_nonneg (B.b.y * (B.c.y * B.a.x))]
  · ring

/-- non-vacuity of the hypotheses of `c05_tri_min`: a monoclinic cell, `h = 1`, the C rounding, and a short image -/
example : LowerTri ⟨⟨2, 0, 0⟩, ⟨1/2, 2, 0⟩, ⟨0, 1/2, 3⟩⟩ ∧ NearestRound roundHA ∧ (2 : Rat) * 1 ≤ 2 ∧
    IsImage ⟨⟨2, 0, 0⟩, ⟨1/2, 2, 0⟩, ⟨0, 1/2, 3⟩⟩ ⟨1/4, 1/4, 1/2⟩ ⟨11/4, -19/4, 13/2⟩ ∧
    (⟨1/4, 1/4, 1/2⟩ : V3).norm2 < 1 * 1 := by
  refine ⟨⟨rfl, rfl, rfl⟩, roundHA_nearest, by norm_num, ⟨-2, 3, -2, ?_⟩, by norm_num [V3.norm2, V3.dot]⟩
  apply V3.ext3 <;> norm_num [V3.add, V3.smul, Cell.latt]

end MdVerif.Mic
