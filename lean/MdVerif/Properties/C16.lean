import MdVerif.Model.Descr
import MdVerif.Properties.C05
import Mathlib.Tactic.Ring
import Mathlib.Tactic.Linarith
import Mathlib.Tactic.FieldSimp
import Mathlib.Tactic.Positivity
import Mathlib.Data.Rat.Floor
import Mathlib.Algebra.Order.Floor.Ring
import Mathlib.Algebra.BigOperators.Group.List.Basic
/-!
# C16 — derived descriptors equal their defining formulas

* `c16_contact_slice`   for every residue-pair list and membership table the slice `atom_distances[index : index + n]` with the running
                        offset `index = Σ_{k<i} n_k` is exactly the list of distances of `itertools.product(members(r0), members(r1))`
* `c16_product_mem`, `c16_membership_spec`, `c16_all_pairs_spec`   which atom pairs / residue pairs are designated
* `c16_square_symm`     squareform is symmetric
* `c16_moments`         the one-pass update of moments.cpp yields, for every input list, the mean and the second and third central moments
* `c16_parallel_axis`, `c16_com_minimises`, `c16_rg_about_geometric_centre`   Σw|x−c|² = Σw|x−com|² + W|com−c|²: the radius of gyration
                        about any point other than the centre of mass is too large (the defect fixed in compute_rg)
* `c16_gyration_trace`  trace of the gyration tensor = unweighted Rg²; `c16_inertia_trace`
* `c16_charpoly3`, `c16_shape_from_invariants`   det(S − xI) = −x³ + tr·x² − e₂x + det, and for numbers λ with those elementary symmetric
                        functions Σλ² = tr(S²): relative shape anisotropy is a rational function of the tensor
-/
namespace MdVerif.Descr
open MdVerif.Mic

/-! ### contacts -/

theorem flatten_slice {α : Type} (L : List (List α)) : ∀ (i : Nat) (h : i < L.length),
    (L.flatten.drop ((L.take i).map List.length).sum).take (L[i].length) = L[i] := by
  induction L with
  | nil => intro i h; simp at h
  | cons a L ih =>
    intro i h
    cases i with
    | zero => simp
    | succ i =>
      have h' : i < L.length := by simpa using h
      simp only [List.take_succ_cons, List.map_cons, List.sum_cons, List.flatten_cons, List.getElem_cons_succ]
      rw [List.drop_append]
      have : List.drop (a.length + ((L.take i).map List.length).sum) a = [] := by
        apply List.drop_eq_nil_of_le; omega
      rw [this, List.nil_append]
      have e : a.length + ((L.take i).map List.length).sum - a.length = ((L.take i).map List.length).sum := by omega
      rw [e]
      exact ih i h'

theorem product_length (a b : List Nat) : (product a b).length = a.length * b.length := by
  induction a with
  | nil => simp [product]
  | cons x xs ih =>
    simp only [product, List.flatMap_cons, List.length_append, List.length_map] at ih ⊢
    rw [ih]; simp [Nat.add_mul, Nat.add_comm]

theorem c16_product_mem (a b : List Nat) (x y : Nat) : (x, y) ∈ product a b ↔ x ∈ a ∧ y ∈ b := by
  simp [product]

/-- **the running offset selects exactly the designated atom pairs of residue pair i** -/
theorem c16_contact_slice {α : Type} (mem : Nat → List Nat) (rps : List (Nat × Nat)) (d : Nat × Nat → α) (i : Nat) (h : i < rps.length) :
    sliceFor ((atomPairs mem rps).map d) (pairCounts mem rps) i = (product (mem rps[i].1) (mem rps[i].2)).map d := by
  let L := rps.map (fun p => (product (mem p.1) (mem p.2)).map d)
  have hL : (atomPairs mem rps).map d = L.flatten := by
    simp only [atomPairs, L, List.flatMap_def, List.map_flatten, List.map_map]
    rfl
  have hc : pairCounts mem rps = L.map List.length := by
    simp only [pairCounts, L, List.map_map]
    apply List.map_congr_left
    intro p _
    simp [product_length]
  have hi : i < L.length := by simpa [L] using h
  have hg : (pairCounts mem rps).getD i 0 = (L[i]).length := by
    rw [hc]; simp [List.getD_eq_getElem?_getD, hi]
  have ht : ((pairCounts mem rps).take i).sum = ((L.take i).map List.length).sum := by
    rw [hc, List.map_take]
  unfold sliceFor
  rw [hL, hg, ht, flatten_slice L i hi]
  simp [L]

theorem c16_membership_spec (s : Scheme) (atoms : List AtomRec) (r k : Nat) :
    k ∈ membership s atoms r ↔ ∃ a, atoms[k]? = some a ∧ a.res = r ∧ keep s a = true := by
  simp only [membership, List.mem_filter, List.mem_range]
  constructor
  · rintro ⟨hk, hm⟩
    cases ha : atoms[k]? with
    | none => simp [ha] at hm
    | some a => exact ⟨a, rfl, by simpa [ha] using hm⟩
  · rintro ⟨a, ha, hr, hkp⟩
    refine ⟨?_, by simp [ha, hr, hkp]⟩
    have := List.getElem?_eq_some_iff.mp ha
    exact this.1

/-- **contacts='all'**: exactly the residue pairs at least three apart, in one chain, both with an alpha carbon -/
theorem c16_all_pairs_spec (n : Nat) (hasCA : Nat → Bool) (chain : Nat → Nat) (i j : Nat) :
    (i, j) ∈ allPairs n hasCA chain true ↔ i < n ∧ j < n ∧ i + 3 ≤ j ∧ hasCA i = true ∧ hasCA j = true ∧ chain i = chain j := by
  simp only [allPairs, List.mem_flatMap, List.mem_range, Bool.true_and]
  constructor
  · rintro ⟨i', hi', hm⟩
    by_cases hc : hasCA i' = true
    · simp only [hc, Bool.not_true, Bool.false_eq_true, if_false, List.mem_map, List.mem_filter, List.mem_range, Bool.and_eq_true,
        decide_eq_true_eq, Bool.not_eq_true', Bool.not_eq_false, beq_iff_eq, Prod.mk.injEq] at hm
      obtain ⟨j', ⟨hj', ⟨h3, hcj⟩, hch⟩, rfl, rfl⟩ := hm
      exact ⟨hi', hj', h3, hc, by simpa using hcj, hch⟩
    · simp [hc] at hm
  · rintro ⟨hi, hj, h3, hci, hcj, hch⟩
    refine ⟨i, hi, ?_⟩
    simp only [hci, Bool.not_true, Bool.false_eq_true, if_false, List.mem_map, List.mem_filter, List.mem_range, Bool.and_eq_true,
      decide_eq_true_eq, Bool.not_eq_true', Bool.not_eq_false, beq_iff_eq, Prod.mk.injEq]
    exact ⟨j, ⟨hj, ⟨h3, by simpa using hcj⟩, hch⟩, by simp⟩

theorem c16_square_symm (dists : List Rat) (rps : List (Nat × Nat)) (i j : Nat) : squareEntry dists rps i j = squareEntry dists rps j i := by
  unfold squareEntry
  have : (fun pd : (Nat × Nat) × Rat => (pd.1.1 == i && pd.1.2 == j) || (pd.1.1 == j && pd.1.2 == i))
       = (fun pd : (Nat × Nat) × Rat => (pd.1.1 == j && pd.1.2 == i) || (pd.1.1 == i && pd.1.2 == j)) := by
    funext pd; exact Bool.or_comm _ _
  rw [this]

/-! ### one-pass moments -/

def s1 (l : List Rat) : Rat := l.sum
def s2 (l : List Rat) : Rat := (l.map (fun x => x * x)).sum
def s3 (l : List Rat) : Rat := (l.map (fun x => x * x * x)).sum

/-- the state after the prefix `pre`, in closed form (division by zero is 0 for the empty prefix, matching `Mom.clear`) -/
def MomInv (s : Mom) (pre : List Rat) : Prop :=
  s.n = pre.length ∧ s.u = s1 pre / pre.length ∧ s.m2 = s2 pre - s1 pre * s1 pre / pre.length ∧
  s.m3 = s3 pre - 3 * s1 pre * s2 pre / pre.length + 2 * s1 pre * s1 pre * s1 pre / (pre.length * pre.length)

theorem s1_snoc (l : List Rat) (x : Rat) : s1 (l ++ [x]) = s1 l + x := by simp [s1]
theorem s2_snoc (l : List Rat) (x : Rat) : s2 (l ++ [x]) = s2 l + x * x := by simp [s2]
theorem s3_snoc (l : List Rat) (x : Rat) : s3 (l ++ [x]) = s3 l + x * x * x := by simp [s3]

theorem push_inv (s : Mom) (pre : List Rat) (x : Rat) (h : MomInv s pre) : MomInv (s.push x) (pre ++ [x]) := by
  obtain ⟨hn, hu, h2, h3⟩ := h
  cases pre with
  | nil =>
    simp only [List.length_nil, Nat.cast_zero, div_zero, s1, s2, s3, List.sum_nil, List.map_nil, sub_zero, mul_zero, add_zero] at hn hu h2 h3
    simp [MomInv, Mom.push, hn, hu, h2, h3, s1, s2, s3]
    ring
  | cons y ys =>
    have hN : ((y :: ys).length : Rat) ≠ 0 := by simp; positivity
    have hN1 : ((y :: ys).length : Rat) + 1 ≠ 0 := by positivity
    set N : Rat := ((y :: ys).length : Rat) with hNdef
    have hlen : (((y :: ys) ++ [x]).length : Rat) = N + 1 := by simp [hNdef]
    refine ⟨by simp [Mom.push, hn], ?_, ?_, ?_⟩
    · simp only [Mom.push, hn, hlen, s1_snoc, hu]
      push_cast
      rw [← hNdef]; field_simp; ring
    · simp only [Mom.push, hn, hlen, s1_snoc, s2_snoc, hu, h2]
      push_cast
      rw [← hNdef]; field_simp; ring
    · simp only [Mom.push, hn, hlen, s1_snoc, s2_snoc, s3_snoc, hu, h2, h3]
      push_cast
      rw [← hNdef]; field_simp; ring

theorem foldl_inv (l : List Rat) : ∀ (pre : List Rat) (s : Mom), MomInv s pre → MomInv (l.foldl Mom.push s) (pre ++ l) := by
  induction l with
  | nil => intro pre s h; simpa using h
  | cons x xs ih =>
    intro pre s h
    have := ih (pre ++ [x]) (s.push x) (push_inv s pre x h)
    simpa using this

theorem sum_dev2 (l : List Rat) (c : Rat) : (l.map (fun x => (x - c) * (x - c))).sum = s2 l - 2 * c * s1 l + l.length * c * c := by
  induction l with
  | nil => simp [s1, s2]
  | cons x xs ih => simp only [List.map_cons, List.sum_cons, ih, s1, s2, List.length_cons]; push_cast; ring

theorem sum_dev3 (l : List Rat) (c : Rat) :
    (l.map (fun x => (x - c) * (x - c) * (x - c))).sum = s3 l - 3 * c * s2 l + 3 * c * c * s1 l - l.length * c * c * c := by
  induction l with
  | nil => simp [s1, s2, s3]
  | cons x xs ih => simp only [List.map_cons, List.sum_cons, ih, s1, s2, s3, List.length_cons]; push_cast; ring

/-- **moments.cpp computes the mean and the second and third central moments**, for every non-empty input -/
theorem c16_moments (l : List Rat) (hl : l ≠ []) :
    let m := pushAll l
    let mu := l.sum / l.length
    m.mean = mu ∧ m.second = (l.map (fun x => (x - mu) * (x - mu))).sum / l.length ∧
    m.third = (l.map (fun x => (x - mu) * (x - mu) * (x - mu))).sum / l.length := by
  have h := foldl_inv l [] Mom.clear (by simp [MomInv, Mom.clear, s1, s2, s3])
  simp only [List.nil_append] at h
  obtain ⟨hn, hu, h2, h3⟩ := h
  have hN : (l.length : Rat) ≠ 0 := by
    have : 0 < l.length := List.length_pos_iff.mpr hl
    positivity
  refine ⟨hu, ?_, ?_⟩
  · show (pushAll l).m2 / ((pushAll l).n : Rat) = _
    rw [sum_dev2]
    unfold pushAll
    rw [h2, hn]
    simp only [s1]
    field_simp; ring
  · show (pushAll l).m3 / ((pushAll l).n : Rat) = _
    rw [sum_dev3]
    unfold pushAll
    rw [h3, hn]
    simp only [s1]
    field_simp; ring

/-! ### mass-weighted sums -/

theorem wDev2_expand (l : List (Rat × V3)) (c : V3) : wDev2 l c = wSecond l - 2 * c.dot (wFirst l) + wTotal l * c.norm2 := by
  induction l with
  | nil => simp [wDev2, wSecond, wFirst, wTotal, V3.dot]
  | cons p ps ih =>
    simp only [wDev2, wSecond, wFirst, wTotal, List.map_cons, List.sum_cons, List.foldr_cons] at ih ⊢
    rw [ih]
    simp only [V3.norm2, V3.dot, V3.sub, V3.add, V3.smul]; ring

/-- **parallel-axis identity**: Σw|x−c|² = Σw|x−com|² + W|com−c|² -/
theorem c16_parallel_axis (l : List (Rat × V3)) (hW : wTotal l ≠ 0) (c : V3) :
    wDev2 l c = wDev2 l (com l) + wTotal l * ((com l).sub c).norm2 := by
  rw [wDev2_expand, wDev2_expand l (com l)]
  simp only [com, V3.norm2, V3.dot, V3.sub, V3.smul]
  field_simp; ring

/-- the centre of mass minimises the weighted spread (positive total weight) -/
theorem c16_com_minimises (l : List (Rat × V3)) (hW : 0 < wTotal l) (c : V3) : wDev2 l (com l) ≤ wDev2 l c := by
  rw [c16_parallel_axis l (ne_of_gt hW) c]
  have : 0 ≤ ((com l).sub c).norm2 := by
    simp only [V3.norm2, V3.dot]; nlinarith [mul_self_nonneg ((com l).sub c).x, mul_self_nonneg ((com l).sub c).y, mul_self_nonneg ((com l).sub c).z]
  nlinarith

/-- the value computed about any other centre (the geometric centre, before the fix) exceeds Rg² by |com − c|² -/
theorem c16_rg_about_other_centre (l : List (Rat × V3)) (hW : wTotal l ≠ 0) (c : V3) :
    wDev2 l c / wTotal l = rg2 l + ((com l).sub c).norm2 := by
  rw [c16_parallel_axis l hW c, rg2]; field_simp

theorem wOuter_tr (l : List (Rat × V3)) (c : V3) : (wOuter l c).tr = wDev2 l c := by
  induction l with
  | nil => simp [wOuter, wDev2, Sym3.tr]
  | cons p ps ih =>
    simp only [wOuter, wDev2, Sym3.tr, List.foldr_cons, List.map_cons, List.sum_cons] at ih ⊢
    rw [← ih]; simp only [V3.norm2, V3.dot, V3.sub]; ring

theorem wTotal_unit (xs : List V3) : wTotal (xs.map (fun x => ((1 : Rat), x))) = xs.length := by
  induction xs with
  | nil => simp [wTotal]
  | cons x xs ih => simp only [wTotal, List.map_cons, List.sum_cons, List.length_cons, List.map_map] at ih ⊢; rw [ih]; push_cast; ring

/-- **trace of the gyration tensor = squared radius of gyration with equal masses** -/
theorem c16_gyration_trace (xs : List V3) : (gyration xs).tr = rg2 (xs.map (fun x => ((1 : Rat), x))) := by
  simp only [gyration, rg2, Sym3.scale, Sym3.tr]
  rw [← wOuter_tr, wTotal_unit]
  simp only [Sym3.tr]; ring

theorem c16_inertia_trace (l : List (Rat × V3)) : (inertia l).tr = 2 * wDev2 l (com l) := by
  rw [← wOuter_tr]; simp only [inertia, Sym3.tr]; ring

/-- the characteristic polynomial of a symmetric 3×3 tensor in its invariants -/
theorem c16_charpoly3 (s : Sym3) (x : Rat) : s.charpoly x = -(x * x * x) + s.tr * x * x - s.e2 * x + s.det := by
  simp only [Sym3.charpoly, Sym3.det, Sym3.tr, Sym3.e2]; ring

/-- **shape descriptors from invariants**: numbers with the tensor's elementary symmetric functions have Σλ = tr S and Σλ² = tr S²,
so κ² = 3/2·tr(S²)/tr(S)² − 1/2 -/
theorem c16_shape_from_invariants (s : Sym3) (l1 l2 l3 : Rat) (h1 : l1 + l2 + l3 = s.tr) (h2 : l1 * l2 + l1 * l3 + l2 * l3 = s.e2) :
    l1 * l1 + l2 * l2 + l3 * l3 = s.tr2 ∧
    3 / 2 * (l1 * l1 + l2 * l2 + l3 * l3) / ((l1 + l2 + l3) * (l1 + l2 + l3)) - 1 / 2 = 3 / 2 * s.tr2 / (s.tr * s.tr) - 1 / 2 := by
  have e : l1 * l1 + l2 * l2 + l3 * l3 = s.tr2 := by
    have : l1 * l1 + l2 * l2 + l3 * l3 = (l1 + l2 + l3) * (l1 + l2 + l3) - 2 * (l1 * l2 + l1 * l3 + l2 * l3) := by ring
    rw [this, h1, h2]; simp only [Sym3.tr, Sym3.e2, Sym3.tr2]; ring
  exact ⟨e, by rw [e, h1]⟩

/-- non-vacuity: three values, moments by one pass and by definition -/
example : (pushAll [1, 2, 6]).mean = 3 ∧ (pushAll [1, 2, 6]).second = 14 / 3 ∧ (pushAll [1, 2, 6]).third = 6 := by
  decide +kernel

/-! ## radial distribution function: histogram bins, shell volumes (π factored out) -/

theorem floorR_eq (x : Rat) : x.floor = ⌊x⌋ := rfl

theorem edge_zero (lo hi : Rat) (n : Nat) : edge lo hi n 0 = lo := by simp [edge]
theorem edge_last (lo hi : Rat) (n : Nat) (hn : 0 < n) : edge lo hi n n = hi := by
  have : (n : Rat) ≠ 0 := by exact_mod_cast (Nat.pos_iff_ne_zero.mp hn)
  simp only [edge]; field_simp; ring

/-- **every value of the range falls into exactly the bin whose edges enclose it** (half-open bins, the last one closed) -/
theorem c16_rdf_bin_spec (lo hi : Rat) (n : Nat) (d : Rat) (hlh : lo < hi) (hn : 0 < n) (k : Nat) (h : binIndex lo hi n d = some k) :
    k < n ∧ edge lo hi n k ≤ d ∧ (d < edge lo hi n (k + 1) ∨ (d = hi ∧ k = n - 1)) := by
  have hnq : (0 : Rat) < n := by exact_mod_cast hn
  have hw : 0 < hi - lo := by linarith
  unfold binIndex at h
  split at h
  · simp at h
  · rename_i hr
    push_neg at hr
    split at h
    · rename_i he
      simp only [Option.some.injEq] at h
      subst h
      refine ⟨by omega, ?_, Or.inr ⟨he, rfl⟩⟩
      have e : ((n - 1 : Nat) : Rat) = (n : Rat) - 1 := by
        rw [Nat.cast_sub hn]; simp
      simp only [edge, e]
      rw [he]
      have : lo + (hi - lo) * ((n : Rat) - 1) / n = hi - (hi - lo) / n := by field_simp; ring
      rw [this]
      have : 0 < (hi - lo) / n := div_pos hw hnq
      linarith
    · rename_i hne
      simp only [Option.some.injEq] at h
      set q := (d - lo) * n / (hi - lo) with hq
      have hq0 : 0 ≤ q := by
        apply div_nonneg _ (le_of_lt hw)
        exact mul_nonneg (by linarith [hr.1]) (le_of_lt hnq)
      have hdlt : d < hi := lt_of_le_of_ne hr.2 hne
      have hqn : q < n := by
        rw [hq, div_lt_iff₀ hw]
        have : (d - lo) < (hi - lo) := by linarith
        nlinarith
      have hf0 : 0 ≤ q.floor := by rw [floorR_eq]; exact Int.floor_nonneg.mpr hq0
      have hk : (k : Int) = q.floor := by rw [← h]; exact Int.toNat_of_nonneg hf0
      have h1 : ((q.floor : Int) : Rat) ≤ q := by rw [floorR_eq]; exact Int.floor_le q
      have h2 : q < ((q.floor : Int) : Rat) + 1 := by rw [floorR_eq]; exact Int.lt_floor_add_one q
      have hkq : (k : Rat) = ((q.floor : Int) : Rat) := by exact_mod_cast hk
      refine ⟨?_, ?_, Or.inl ?_⟩
      · have : (k : Rat) < n := by rw [hkq]; linarith
        exact_mod_cast this
      · simp only [edge]
        have : (hi - lo) * k / n ≤ d - lo := by
          rw [div_le_iff₀ hnq]
          have : (k : Rat) * (hi - lo) ≤ q * (hi - lo) := by rw [hkq]; exact mul_le_mul_of_nonneg_right h1 (le_of_lt hw)
          have e : q * (hi - lo) = (d - lo) * n := by rw [hq]; field_simp
          linarith
        linarith
      · simp only [edge]
        have : d - lo < (hi - lo) * ((k + 1 : Nat) : Rat) / n := by
          rw [lt_div_iff₀ hnq]
          have : q * (hi - lo) < ((k : Rat) + 1) * (hi - lo) := by rw [hkq]; exact mul_lt_mul_of_pos_right h2 hw
          have e : q * (hi - lo) = (d - lo) * n := by rw [hq]; field_simp
          push_cast; linarith
        linarith

/-- **the shell volumes tile the sphere between the two ends of the range** (telescoping sum) -/
theorem c16_rdf_shell_sum (lo hi : Rat) (n : Nat) (hn : 0 < n) :
    ((List.range n).map (shellVolOverPi lo hi n)).sum = 4 / 3 * (hi * hi * hi - lo * lo * lo) := by
  have key : ∀ m : Nat, ((List.range m).map (shellVolOverPi lo hi n)).sum
      = 4 / 3 * (edge lo hi n m * edge lo hi n m * edge lo hi n m - lo * lo * lo) := by
    intro m
    induction m with
    | zero => simp [edge]
    | succ m ih =>
      rw [List.range_succ, List.map_append, List.sum_append, ih]
      simp only [List.map_cons, List.map_nil, List.sum_cons, List.sum_nil, shellVolOverPi]
      ring
  rw [key n, edge_last lo hi n hn]

/-- bin centres are the midpoints of equal bins -/
theorem c16_rdf_centres (lo hi : Rat) (n k : Nat) (hn : 0 < n) : binCentre lo hi n k = lo + (hi - lo) * (2 * k + 1) / (2 * n) := by
  have : (n : Rat) ≠ 0 := by exact_mod_cast (Nat.pos_iff_ne_zero.mp hn)
  simp only [binCentre, edge]; push_cast; field_simp; ring

theorem c16_rdf_bin_lt (lo hi : Rat) (n : Nat) (d : Rat) (hlh : lo < hi) (hn : 0 < n) (k : Nat) (h : binIndex lo hi n d = some k) : k < n :=
  (c16_rdf_bin_spec lo hi n d hlh hn k h).1

theorem indicator_sum (n k0 : Nat) (h : k0 < n) : ((List.range n).map (fun k => if k0 = k then 1 else 0)).sum = 1 := by
  induction n with
  | zero => omega
  | succ n ih =>
    rw [List.range_succ, List.map_append, List.sum_append]
    simp only [List.map_cons, List.map_nil, List.sum_cons, List.sum_nil]
    by_cases hk : k0 = n
    · subst hk
      have : ((List.range k0).map (fun k => if k0 = k then 1 else 0)).sum = 0 := by
        apply List.sum_eq_zero
        intro x hx
        simp only [List.mem_map, List.mem_range] at hx
        obtain ⟨k, hk, rfl⟩ := hx
        simp; omega
      simp [this]
    · have := ih (by omega)
      simp [this, hk]

theorem indicator_none (n : Nat) (o : Option Nat) (h : ∀ k, k < n → o ≠ some k) :
    ((List.range n).map (fun k => if o == some k then 1 else 0)).sum = 0 := by
  apply List.sum_eq_zero
  intro x hx
  simp only [List.mem_map, List.mem_range] at hx
  obtain ⟨k, hk, rfl⟩ := hx
  have := h k hk
  simp [this]

/-- **the histogram counts every distance of the range exactly once** -/
theorem c16_rdf_hist_total (lo hi : Rat) (n : Nat) (ds : List Rat) (hlh : lo < hi) (hn : 0 < n) :
    (histogram lo hi n ds).sum = (ds.filter (fun d => decide (lo ≤ d ∧ d ≤ hi))).length := by
  induction ds with
  | nil => simp [histogram]
  | cons d ds ih =>
    have split : (histogram lo hi n (d :: ds)).sum = ((List.range n).map (fun k => if binIndex lo hi n d == some k then 1 else 0)).sum + (histogram lo hi n ds).sum := by
      simp only [histogram, List.filter_cons]
      rw [← List.sum_map_add]
      congr 1
      apply List.map_congr_left
      intro k _
      by_cases hb : (binIndex lo hi n d == some k) = true <;> simp [hb]; omega
    rw [split, ih]
    by_cases hr : lo ≤ d ∧ d ≤ hi
    · have hsome : ∃ k, binIndex lo hi n d = some k := by
        unfold binIndex
        have : ¬ (d < lo ∨ hi < d) := by push_neg; exact hr
        simp only [this, if_false]
        split <;> exact ⟨_, rfl⟩
      obtain ⟨k0, hk0⟩ := hsome
      have hlt := c16_rdf_bin_lt lo hi n d hlh hn k0 hk0
      have e : ((List.range n).map (fun k => if binIndex lo hi n d == some k then 1 else 0)).sum = 1 := by
        rw [hk0]
        have := indicator_sum n k0 hlt
        simpa using this
      rw [e]
      simp [hr]; omega
    · have hnone : binIndex lo hi n d = none := by
        unfold binIndex
        have : d < lo ∨ hi < d := by
          by_contra hc; push_neg at hc; exact hr hc
        simp [this]
      rw [hnone]
      have e := indicator_none n (none : Option Nat) (fun k _ => by simp)
      rw [e]
      simp [hr]

end MdVerif.Descr
