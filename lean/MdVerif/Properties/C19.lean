import MdVerif.Proofs.DcdLemmas
import MdVerif.Model.Writer
/-!
# C19 — incremental writing equals one-shot writing and survives a crash

* `c19_partition`        any sequence of conforming writes leaves exactly the concatenation of their frames:
                         every ordered partition of a trajectory gives the file of the one-shot write
* `c19_partition_indep`  two partitions of the same frames give the same file
* `c19_refused_unchanged`, `c19_refusal_complete`   a write that changes atom count / cell / time presence (per the
                         format's policy) is refused and the file is what it was
* `c19_close_load`       after any history (with refused writes anywhere) the closed file holds the accepted frames
* `c19_durable_prefix`, `c19_flush_durable`   at every point the durable part is a prefix of what was written, and after
                         `flush` it is everything: killing the process then loses nothing
-/
namespace MdVerif.Writer

variable {α : Type}

theorem write_accept (p : Policy) (w : W α) (c : Chunk α) (h : ∀ s, w.schema = some s → conforms p s c.sch = true) :
    (write p w c).2 = true ∧ (write p w c).1.content = w.content ++ c.frames ∧
    (write p w c).1.schema = some (w.schema.getD c.sch) := by
  unfold write
  cases hs : w.schema with
  | none => simp
  | some s => simp [h s hs]

/-- **partition**: conforming chunks are simply appended, whatever their sizes and number -/
theorem c19_partition (p : Policy) (sch : Schema) (chunks : List (Chunk α)) (hc : ∀ c ∈ chunks, c.sch = sch)
    (w : W α) (hw : ∀ s, w.schema = some s → s = sch) :
    (run p w (chunks.map .write)).content = w.content ++ chunks.flatMap (·.frames) := by
  induction chunks generalizing w with
  | nil => simp [run]
  | cons c cs ih =>
    have hcs : c.sch = sch := hc c (by simp)
    have hconf : ∀ s, w.schema = some s → conforms p s c.sch = true := by
      intro s hs; rw [hw s hs, hcs]; simp [conforms]
    obtain ⟨_, h2, h3⟩ := write_accept p w c hconf
    have := ih (fun x hx => hc x (by simp [hx])) (write p w c).1 (by
      intro s hs; rw [h3] at hs
      cases hws : w.schema with
      | none => simp [hws] at hs; rw [← hs, hcs]
      | some s0 => simp [hws] at hs; rw [← hs]; exact hw s0 hws)
    simp only [List.map_cons, run, List.foldl_cons, step] at this ⊢
    rw [this, h2]; simp

/-- two ways of cutting the same frames into consecutive writes give the same file -/
theorem c19_partition_indep (p : Policy) (sch : Schema) (a b : List (Chunk α))
    (ha : ∀ c ∈ a, c.sch = sch) (hb : ∀ c ∈ b, c.sch = sch) (h : a.flatMap (·.frames) = b.flatMap (·.frames)) :
    closeLoad (run p W.init (a.map .write)) = closeLoad (run p W.init (b.map .write)) := by
  simp only [closeLoad]
  rw [c19_partition p sch a ha W.init (by simp [W.init]), c19_partition p sch b hb W.init (by simp [W.init]), h]

/-- **a refused write leaves the file untouched** -/
theorem c19_refused_unchanged (p : Policy) (w : W α) (c : Chunk α) (h : (write p w c).2 = false) :
    (write p w c).1 = w := by
  unfold write at h ⊢
  cases hs : w.schema with
  | none => simp [hs] at h
  | some s =>
    simp only [hs] at h ⊢
    split <;> simp_all

/-- **every layout change the format's policy names is refused** -/
theorem c19_refusal_complete (p : Policy) (w : W α) (c : Chunk α) (s : Schema) (hs : w.schema = some s)
    (h : s.natoms ≠ c.sch.natoms ∨ (p.checkCell = true ∧ s.cell ≠ c.sch.cell) ∨ (p.checkTime = true ∧ s.time ≠ c.sch.time)) :
    (write p w c).2 = false := by
  have : conforms p s c.sch = false := by
    unfold conforms
    rcases h with h | ⟨h1, h2⟩ | ⟨h1, h2⟩
    · simp [h]
    · simp [h1, h2]
    · simp [h1, h2]
  simp [write, hs, this]

/-- changing the atom count is refused by every format -/
theorem c19_atom_count_refused (f : Fmt) (w : W α) (c : Chunk α) (s : Schema) (hs : w.schema = some s)
    (h : s.natoms ≠ c.sch.natoms) : (write (policy f) w c).2 = false :=
  c19_refusal_complete _ w c s hs (Or.inl h)

/-- **after close the file holds exactly the accepted frames**, for every history -/
theorem c19_close_load (p : Policy) (ops : List (Op α)) (w : W α) :
    closeLoad (run p w ops) = w.content ++ accepted p w ops := by
  induction ops generalizing w with
  | nil => simp [run, closeLoad, accepted]
  | cons op ops ih =>
    cases op with
    | write c =>
      have := ih (write p w c).1
      simp only [run, List.foldl_cons, step, closeLoad, accepted] at this ⊢
      rw [this]
      by_cases hacc : (write p w c).2 = true
      · have hcont : (write p w c).1.content = w.content ++ c.frames := by
          unfold write at hacc ⊢
          cases hs : w.schema with
          | none => simp
          | some s => simp only [hs] at hacc ⊢; split <;> simp_all
        simp [hacc, hcont]
      · have hf : (write p w c).2 = false := by simpa using hacc
        rw [c19_refused_unchanged p w c hf]; simp [hf]
    | flush =>
      have := ih (flush w)
      simp only [run, List.foldl_cons, step, closeLoad, accepted] at this ⊢
      rw [this]; simp [flush]

/-- the durable part is always a prefix of the content: a crash never invents or reorders frames -/
theorem c19_durable_prefix (p : Policy) (ops : List (Op α)) (w : W α) (h : w.durable <+: w.content) :
    (run p w ops).durable <+: (run p w ops).content := by
  induction ops generalizing w with
  | nil => exact h
  | cons op ops ih =>
    apply ih
    cases op with
    | flush => simp [step, flush]
    | write c =>
      simp only [step, write]
      cases hs : w.schema with
      | none =>
        simp only []
        split
        · exact List.prefix_refl _
        · exact List.IsPrefix.trans h (List.prefix_append _ _)
      | some s =>
        simp only []
        split
        · simp only []
          split
          · exact List.prefix_refl _
          · exact List.IsPrefix.trans h (List.prefix_append _ _)
        · exact h

/-- **flush ⇒ durable**: once `flush` has returned, a kill loses none of the frames written so far -/
theorem c19_flush_durable (p : Policy) (ops : List (Op α)) (w : W α) :
    crashLoad (run p w (ops ++ [.flush])) = closeLoad (run p w ops) := by
  simp [run, List.foldl_append, step, flush, crashLoad, closeLoad]

/-- HDF5 flushes inside every `write`: durable after each write without an explicit flush -/
theorem c19_h5_autoflush (w : W α) (c : Chunk α) (h : (write (policy .h5) w c).2 = true) :
    crashLoad (write (policy .h5) w c).1 = closeLoad (write (policy .h5) w c).1 := by
  unfold write at h ⊢
  cases hs : w.schema with
  | none => simp [policy, crashLoad, closeLoad]
  | some s => simp only [hs] at h ⊢; split <;> simp_all [policy, crashLoad, closeLoad]

/-- non-vacuity: 5 frames written as 2+3 and as 1+1+3 with a refused ragged write in between -/
example :
    closeLoad (run (policy .nc) W.init
      [.write ⟨[0, 1], ⟨12, true, true⟩⟩, .write ⟨[9, 9], ⟨12, true, false⟩⟩, .write ⟨[2, 3, 4], ⟨12, true, true⟩⟩])
      = [0, 1, 2, 3, 4] := by decide
example :
    crashLoad (run (policy .xtc) W.init [.write ⟨[0, 1], ⟨12, true, true⟩⟩, .flush, .write ⟨[2], ⟨12, true, false⟩⟩]) = [0, 1] := by
  decide

end MdVerif.Writer

/-! ## the frame count in the control record of a .dcd file being written (Model/Dcd.lean) -/
namespace MdVerif.Dcd

/-- **after every write call the control record counts the frames that are in the file** (what a reader of a file whose writer was killed
relies on; the seeded change C19-dcd-header-count-at-powers-of-two broke it) -/
theorem c19_dcd_header_counts (h0 : Header) (fs : List Frame) (h00 : h0.nset = 0) :
    (fs.foldl appendFrame ⟨h0, []⟩).header.nset = fs.length ∧ (fs.foldl appendFrame ⟨h0, []⟩).frames = fs := by
  have gen : ∀ (fl : File) (gs : List Frame), (gs.foldl appendFrame fl).header.nset = fl.header.nset + gs.length ∧
      (gs.foldl appendFrame fl).frames = fl.frames ++ gs := by
    intro fl gs
    induction gs generalizing fl with
    | nil => simp
    | cons g gs ih =>
      have := ih (appendFrame fl g)
      simp only [List.foldl_cons, List.length_cons]
      refine ⟨by rw [this.1]; simp [appendFrame]; omega, by rw [this.2]; simp [appendFrame]⟩
  have := gen ⟨h0, []⟩ fs
  simpa [h00] using this

end MdVerif.Dcd
