import MdVerif.Model.Image
import MdVerif.Proofs.MicLemmas
import MdVerif.Properties.C05
import MdVerif.Properties.C09
import Mathlib.Tactic.Ring
import Mathlib.Tactic.Linarith
import Mathlib.Tactic.FieldSimp
/-!
# C11 — re-imaging moves atoms only by lattice vectors and makes molecules whole

For every lower-triangular cell with positive diagonal (the form `unitcell_vectors` always has), every rounding rule that rounds
to a nearest integer, any number of atoms and bonds:
* `c11_offset_lattice`      the offset `make_whole` subtracts is an integer combination of the cell vectors
* `c11_offset_recovers`     if the two atoms are `d + lattice vector` apart with |d| componentwise below half the cell diagonal, the offset
                            is exactly that lattice vector: the bonded pair ends `d` apart
* `c11_make_whole_lattice`  after `make_whole` every atom has moved by a lattice vector (induction over the bond list)
* `c11_whole_of_valid_order` if the bond list is in a valid placement order (the second atom of every pair is new) and the input is a
                            whole configuration scrambled by arbitrary lattice vectors per atom, every listed pair ends at its whole separation
* `c11_placement_order_valid` the order `_bonds_in_placement_order` produces is valid, for every bond graph (BFS invariant)
* `c11_order_matters`       the order the code used before the fix (sorted by first atom) is not: concrete molecule left broken
* `c11_molshift_lattice`, `c11_molshift_in_cell`   `wrap_mols` moves a molecule by a lattice vector that puts its centre in the cell
* `c11_wrap_rigid`, `c11_wrap_lattice`   every atom of a non-anchor molecule gets the same shift; after `wrap_mols` every atom is at
                            `old + common translation + lattice vector`
* `c11_anchor_lattice`      an anchor molecule moves as a unit by a lattice vector
* `c11_mic_unchanged`       consequently the minimum-image displacement of any pair (inside C05's range) is unchanged
-/
namespace MdVerif.Image
open MdVerif.Mic

theorem v3ext {a b : V3} (hx : a.x = b.x) (hy : a.y = b.y) (hz : a.z = b.z) : a = b := V3.ext3 hx hy hz

/-- rounding to a nearest integer recovers an integer displaced by less than a half -/
theorem round_int_add (rnd : Rat → Int) (hr : NearestRound rnd) (n : Int) (t : Rat) (ht : |t| < 1 / 2) : rnd ((n : Rat) + t) = n := by
  have h := hr ((n : Rat) + t)
  have h1 : |((n : Rat) - (rnd ((n : Rat) + t) : Rat))| < 1 := by
    have e : (n : Rat) - (rnd ((n : Rat) + t) : Rat) = ((n : Rat) + t - (rnd ((n : Rat) + t) : Rat)) - t := by ring
    rw [e]
    calc |((n : Rat) + t - (rnd ((n : Rat) + t) : Rat)) - t| ≤ |(n : Rat) + t - (rnd ((n : Rat) + t) : Rat)| + |t| := abs_sub _ _
      _ < 1 := by linarith
  have h2 : |((n - rnd ((n : Rat) + t) : Int) : Rat)| < 1 := by push_cast; exact h1
  have h3 : |n - rnd ((n : Rat) + t)| < 1 := by exact_mod_cast h2
  have : n - rnd ((n : Rat) + t) = 0 := Int.abs_lt_one_iff.mp h3
  omega

/-- for a lower-triangular cell the literal loops give the vectorised formula -/
theorem bondOffset_eq_anchor (rnd : Rat → Int) (B : Cell) (hB : LowerTri B) (d : V3) : bondOffset rnd B d = anchorOffset rnd B d := by
  obtain ⟨h1, h2, h3⟩ := hB
  apply v3ext <;> simp [bondOffset, anchorOffset, V3.add, V3.smul, h1, h2, h3] <;> ring

theorem anchorOffset_lattice (rnd : Rat → Int) (B : Cell) (d : V3) : ∃ i j k : Int, anchorOffset rnd B d = B.latt i j k := by
  refine ⟨rnd ((d.x - ((V3.smul (rnd (d.z / B.c.z) : Int) B.c).add (V3.smul (rnd ((d.y - (V3.smul (rnd (d.z / B.c.z) : Int) B.c).y) / B.b.y) : Int) B.b)).x) / B.a.x),
    rnd ((d.y - (V3.smul (rnd (d.z / B.c.z) : Int) B.c).y) / B.b.y), rnd (d.z / B.c.z), ?_⟩
  simp only [anchorOffset, Cell.latt]
  apply v3ext <;> simp [V3.add, V3.smul] <;> ring

theorem c11_offset_lattice (rnd : Rat → Int) (B : Cell) (hB : LowerTri B) (d : V3) : ∃ i j k : Int, bondOffset rnd B d = B.latt i j k := by
  rw [bondOffset_eq_anchor rnd B hB]; exact anchorOffset_lattice rnd B d

/-- componentwise "shorter than half the cell" -/
def Small (B : Cell) (d : V3) : Prop := |d.x| < B.a.x / 2 ∧ |d.y| < B.b.y / 2 ∧ |d.z| < B.c.z / 2

theorem abs_div_lt_half {t L : Rat} (hL : 0 < L) (h : |t| < L / 2) : |t / L| < 1 / 2 := by
  rw [abs_div, abs_of_pos hL, div_lt_iff₀ hL]; linarith

theorem c11_offset_recovers (rnd : Rat → Int) (hr : NearestRound rnd) (B : Cell) (hB : LowerTri B)
    (ha : 0 < B.a.x) (hb : 0 < B.b.y) (hc : 0 < B.c.z) (d : V3) (hd : Small B d) (i j k : Int) :
    bondOffset rnd B (d.add (B.latt i j k)) = B.latt i j k := by
  rw [bondOffset_eq_anchor rnd B hB]
  obtain ⟨h1, h2, h3⟩ := hB
  obtain ⟨dx, dy, dz⟩ := hd
  have ec : rnd ((d.add (B.latt i j k)).z / B.c.z) = k := by
    have e : (d.add (B.latt i j k)).z / B.c.z = (k : Rat) + d.z / B.c.z := by
      simp [V3.add, Cell.latt, V3.smul, h2, h3]; field_simp; ring
    rw [e]; exact round_int_add rnd hr k _ (abs_div_lt_half hc dz)
  have eb : rnd (((d.add (B.latt i j k)).y - (V3.smul (k : Rat) B.c).y) / B.b.y) = j := by
    have e : ((d.add (B.latt i j k)).y - (V3.smul (k : Rat) B.c).y) / B.b.y = (j : Rat) + d.y / B.b.y := by
      simp [V3.add, Cell.latt, V3.smul, h1]; field_simp; ring
    rw [e]; exact round_int_add rnd hr j _ (abs_div_lt_half hb dy)
  have ea : rnd (((d.add (B.latt i j k)).x - ((V3.smul (k : Rat) B.c).add (V3.smul (j : Rat) B.b)).x) / B.a.x) = i := by
    have e : ((d.add (B.latt i j k)).x - ((V3.smul (k : Rat) B.c).add (V3.smul (j : Rat) B.b)).x) / B.a.x = (i : Rat) + d.x / B.a.x := by
      simp [V3.add, Cell.latt, V3.smul]; field_simp; ring
    rw [e]; exact round_int_add rnd hr i _ (abs_div_lt_half ha dx)
  simp only [anchorOffset]
  rw [ec, eb, ea]
  apply v3ext <;> simp [V3.add, Cell.latt, V3.smul] <;> ring

/-! ### make_whole over a bond list -/

/-- `pos` is the configuration `w` with every atom displaced by some lattice vector -/
def Shifted (B : Cell) (pos w : Nat → V3) : Prop := ∀ k, ∃ i j l : Int, pos k = (w k).add (B.latt i j l)

theorem sub_latt (B : Cell) (r : V3) (i j k i' j' k' : Int) :
    (r.add (B.latt i j k)).sub (B.latt i' j' k') = r.add (B.latt (i - i') (j - j') (k - k')) := by
  apply v3ext <;> simp [V3.add, V3.sub, Cell.latt, V3.smul] <;> ring

theorem step_shifted (rnd : Rat → Int) (B : Cell) (hB : LowerTri B) (pos w : Nat → V3) (h : Shifted B pos w) (bd : Nat × Nat) :
    Shifted B (wholeStep rnd B pos bd) w := by
  intro k
  by_cases hk : k = bd.2
  · obtain ⟨i, j, l, e⟩ := h bd.2
    obtain ⟨i', j', l', e'⟩ := c11_offset_lattice rnd B hB ((pos bd.2).sub (pos bd.1))
    refine ⟨i - i', j - j', l - l', ?_⟩
    simp only [wholeStep, upd, hk, if_true]
    rw [e', e, sub_latt]
  · obtain ⟨i, j, l, e⟩ := h k
    exact ⟨i, j, l, by simp only [wholeStep, upd, hk, if_false]; exact e⟩

theorem shifted_refl (B : Cell) (pos : Nat → V3) : Shifted B pos pos := fun k => ⟨0, 0, 0, (latt_zero B (pos k)).symm⟩

/-- **make_whole moves every atom by a lattice vector**, whatever the bond list -/
theorem c11_make_whole_lattice (rnd : Rat → Int) (B : Cell) (hB : LowerTri B) (pos : Nat → V3) (bonds : List (Nat × Nat)) :
    Shifted B (makeWhole rnd B pos bonds) pos := by
  suffices h : ∀ (p w : Nat → V3), Shifted B p w → Shifted B (makeWhole rnd B p bonds) w from h pos pos (shifted_refl B pos)
  induction bonds with
  | nil => intro p w h; exact h
  | cons bd bs ih => intro p w h; exact ih _ w (step_shifted rnd B hB p w h bd)

theorem step_other (rnd : Rat → Int) (B : Cell) (pos : Nat → V3) (bd : Nat × Nat) (k : Nat) (hk : k ≠ bd.2) :
    wholeStep rnd B pos bd k = pos k := by simp [wholeStep, upd, hk]

/-- atoms already seen are not moved again by a valid remainder of the list -/
theorem fold_untouched (rnd : Rat → Int) (B : Cell) (bs : List (Nat × Nat)) :
    ∀ (seen : List Nat) (pos : Nat → V3), validOrder seen bs = true → ∀ k ∈ seen, makeWhole rnd B pos bs k = pos k := by
  induction bs with
  | nil => intro seen pos _ k _; rfl
  | cons bd bs ih =>
    intro seen pos hv k hk
    simp only [validOrder, Bool.and_eq_true, Bool.not_eq_true', bne_iff_ne, ne_eq] at hv
    obtain ⟨⟨hns, _⟩, hrest⟩ := hv
    have hne : k ≠ bd.2 := by
      intro e; subst e
      have : seen.contains bd.2 = true := by simpa using hk
      rw [this] at hns; exact absurd hns (by decide)
    show makeWhole rnd B (wholeStep rnd B pos bd) bs k = pos k
    rw [ih (bd.1 :: bd.2 :: seen) _ hrest k (by simp [hk]), step_other rnd B pos bd k hne]

theorem sub_add_latt (B : Cell) (p q : V3) (i j k i' j' k' : Int) :
    (q.add (B.latt i' j' k')).sub (p.add (B.latt i j k)) = (q.sub p).add (B.latt (i' - i) (j' - j) (k' - k)) := by
  apply v3ext <;> simp [V3.add, V3.sub, Cell.latt, V3.smul] <;> ring

theorem add_sub_cancel_v (p q : V3) : (p.add q).sub q = p := by
  apply v3ext <;> simp [V3.add, V3.sub]

/-- **a valid placement order makes every listed pair whole**: input = whole configuration `w` scrambled by arbitrary lattice vectors -/
theorem c11_whole_of_valid_order (rnd : Rat → Int) (hr : NearestRound rnd) (B : Cell) (hB : LowerTri B)
    (ha : 0 < B.a.x) (hb : 0 < B.b.y) (hc : 0 < B.c.z) (w : Nat → V3) (bs : List (Nat × Nat)) :
    ∀ (seen : List Nat) (pos : Nat → V3), validOrder seen bs = true → Shifted B pos w →
      (∀ bd ∈ bs, Small B ((w bd.2).sub (w bd.1))) →
      ∀ bd ∈ bs, (makeWhole rnd B pos bs bd.2).sub (makeWhole rnd B pos bs bd.1) = (w bd.2).sub (w bd.1) := by
  induction bs with
  | nil => intro _ _ _ _ _ bd hbd; cases hbd
  | cons b0 bs ih =>
    intro seen pos hv hs hsmall bd hbd
    have hv' := hv
    simp only [validOrder, Bool.and_eq_true, Bool.not_eq_true', bne_iff_ne, ne_eq] at hv'
    obtain ⟨⟨_, hne⟩, hrest⟩ := hv'
    have hs1 := step_shifted rnd B hB pos w hs b0
    rcases List.mem_cons.mp hbd with rfl | hin
    · -- the head pair: placed now, untouched afterwards
      show (makeWhole rnd B (wholeStep rnd B pos bd) bs bd.2).sub (makeWhole rnd B (wholeStep rnd B pos bd) bs bd.1) = _
      rw [fold_untouched rnd B bs (bd.1 :: bd.2 :: seen) _ hrest bd.2 (by simp),
        fold_untouched rnd B bs (bd.1 :: bd.2 :: seen) _ hrest bd.1 (by simp)]
      obtain ⟨i, j, l, e1⟩ := hs bd.1
      obtain ⟨i', j', l', e2⟩ := hs bd.2
      have hne' : bd.1 ≠ bd.2 := fun e => hne e.symm
      simp only [wholeStep, upd, if_true, hne', if_false]
      rw [e1, e2, sub_add_latt, c11_offset_recovers rnd hr B hB ha hb hc _ (hsmall bd (by simp)), sub_latt, sub_add_latt]
      have z : ∀ a b : Int, a - (a - b) - b = 0 := fun a b => by ring
      rw [z, z, z, latt_zero]
    · exact ih (b0.1 :: b0.2 :: seen) _ hrest hs1 (fun b hb' => hsmall b (List.mem_cons_of_mem _ hb')) bd hin

/-! ### the placement order computed by the code is valid -/

def atomsOf (ps : List (Nat × Nat)) : List Nat := ps.flatMap (fun p => [p.1, p.2])

theorem validOrder_snoc (ps : List (Nat × Nat)) : ∀ (seen : List Nat) (i j : Nat),
    validOrder seen (ps ++ [(i, j)]) = (validOrder seen ps && !((seen ++ atomsOf ps).contains j) && (j != i)) := by
  induction ps with
  | nil => intro seen i j; simp [validOrder, atomsOf]
  | cons p ps ih =>
    intro seen i j
    simp only [List.cons_append, validOrder, ih]
    have key : (p.1 :: p.2 :: (seen ++ atomsOf ps)).contains j = (seen ++ atomsOf (p :: ps)).contains j := by
      simp only [atomsOf, List.flatMap_cons, List.contains_eq_mem, List.mem_append, List.mem_cons, List.not_mem_nil, or_false, decide_eq_decide]
      tauto
    rw [key]
    cases validOrder (p.1 :: p.2 :: seen) ps <;> simp [Bool.and_assoc]

/-- BFS invariant: the pairs so far are in valid order, every atom they mention is marked placed -/
def BfsInv (st : Bfs) : Prop := validOrder [] st.pairs = true ∧ ∀ a ∈ atomsOf st.pairs, a ∈ st.placed

theorem visitNeighbor_inv (i : Nat) (st : Bfs) (j : Nat) (h : BfsInv st) (hi : i ∈ st.placed) :
    BfsInv (visitNeighbor i st j) ∧ i ∈ (visitNeighbor i st j).placed ∧ (∀ a ∈ st.placed, a ∈ (visitNeighbor i st j).placed) := by
  unfold visitNeighbor
  by_cases hc : st.placed.contains j = true
  · simp only [hc, if_true]; exact ⟨h, hi, fun a ha => ha⟩
  · simp only [hc]
    have hj : j ∉ st.placed := by simpa using hc
    refine ⟨⟨?_, ?_⟩, by simp [hi], fun a ha => by simp [ha]⟩
    · show validOrder [] (st.pairs ++ [(i, j)]) = true
      rw [validOrder_snoc, h.1]
      have h1 : ¬ j ∈ atomsOf st.pairs := fun hm => hj (h.2 j hm)
      have h2 : j ≠ i := fun e => hj (e ▸ hi)
      simp [h1, h2]
    · show ∀ a ∈ atomsOf (st.pairs ++ [(i, j)]), a ∈ j :: st.placed
      intro a ha
      simp only [atomsOf, List.flatMap_append, List.mem_append, List.flatMap_cons, List.flatMap_nil, List.append_nil, List.mem_cons,
        List.not_mem_nil, or_false] at ha
      rcases ha with ha | rfl | rfl
      · exact List.mem_cons_of_mem _ (h.2 a ha)
      · exact List.mem_cons_of_mem _ hi
      · exact List.mem_cons_self

theorem visitAtom_inv (n : Nat) (bonds : List (Nat × Nat)) (i : Nat) (st : Bfs) (h : BfsInv st) (hi : i ∈ st.placed) :
    BfsInv (visitAtom n bonds st i) ∧ (∀ a ∈ st.placed, a ∈ (visitAtom n bonds st i).placed) := by
  unfold visitAtom
  generalize neighborsOf n bonds i = nb
  induction nb generalizing st with
  | nil => exact ⟨h, fun a ha => ha⟩
  | cons j js ih =>
    obtain ⟨h1, h2, h3⟩ := visitNeighbor_inv i st j h hi
    obtain ⟨g1, g2⟩ := ih (visitNeighbor i st j) h1 h2
    exact ⟨g1, fun a ha => g2 a (h3 a ha)⟩

theorem visitNeighbor_next (i : Nat) (st : Bfs) (j : Nat) (hn : ∀ a ∈ st.next, a ∈ st.placed) :
    ∀ a ∈ (visitNeighbor i st j).next, a ∈ (visitNeighbor i st j).placed := by
  unfold visitNeighbor
  split
  · exact hn
  · intro a ha
    simp only [List.mem_append, List.mem_cons, List.not_mem_nil, or_false] at ha
    rcases ha with ha | rfl
    · exact List.mem_cons_of_mem _ (hn a ha)
    · exact List.mem_cons_self

theorem visitAtom_next (n : Nat) (bonds : List (Nat × Nat)) (i : Nat) (st : Bfs) (hn : ∀ a ∈ st.next, a ∈ st.placed) :
    ∀ a ∈ (visitAtom n bonds st i).next, a ∈ (visitAtom n bonds st i).placed := by
  unfold visitAtom
  generalize neighborsOf n bonds i = nb
  induction nb generalizing st with
  | nil => exact hn
  | cons j js ih => exact ih _ (visitNeighbor_next i st j hn)

theorem level_inv (n : Nat) (bonds : List (Nat × Nat)) (queue : List Nat) :
    ∀ st : Bfs, BfsInv st → (∀ a ∈ queue, a ∈ st.placed) → (∀ a ∈ st.next, a ∈ st.placed) →
      BfsInv (queue.foldl (visitAtom n bonds) st) ∧ (∀ a ∈ (queue.foldl (visitAtom n bonds) st).next, a ∈ (queue.foldl (visitAtom n bonds) st).placed) := by
  induction queue with
  | nil => intro st h _ hn; exact ⟨h, hn⟩
  | cons i q ih =>
    intro st h hq hn
    obtain ⟨h1, h2⟩ := visitAtom_inv n bonds i st h (hq i List.mem_cons_self)
    exact ih _ h1 (fun a ha => h2 a (hq a (List.mem_cons_of_mem _ ha))) (visitAtom_next n bonds i st hn)

theorem bfsLevels_inv (n : Nat) (bonds : List (Nat × Nat)) : ∀ (fuel : Nat) (st : Bfs) (queue : List Nat),
    BfsInv st → (∀ a ∈ queue, a ∈ st.placed) → BfsInv (bfsLevels n bonds fuel st queue) := by
  intro fuel
  induction fuel with
  | zero => intro st _ h _; exact h
  | succ f ih =>
    intro st queue h hq
    unfold bfsLevels
    split
    · exact h
    · obtain ⟨g1, g2⟩ := level_inv n bonds queue { st with next := [] } h hq (by simp)
      exact ih _ _ g1 g2

/-- **the order `_bonds_in_placement_order` produces is valid, for every bond graph** -/
theorem c11_placement_order_valid (n : Nat) (bonds : List (Nat × Nat)) : validOrder [] (placementOrder n bonds) = true := by
  unfold placementOrder
  suffices h : ∀ (roots : List Nat) (st : Bfs), BfsInv st → BfsInv (roots.foldl (visitRoot n bonds) st) from
    (h (List.range n) ⟨[], [], []⟩ ⟨rfl, by simp [atomsOf]⟩).1
  intro roots
  induction roots with
  | nil => intro st h; exact h
  | cons r rs ih =>
    intro st h
    apply ih
    unfold visitRoot
    split
    · exact h
    · apply bfsLevels_inv
      · exact ⟨h.1, fun a ha => List.mem_cons_of_mem _ (h.2 a ha)⟩
      · intro a ha; simp at ha; subst ha; exact List.mem_cons_self

/-- the order used before the fix (bonds sorted by their first atom) is not valid: bonds 0-5, 3-4, 3-5 with atom 3 one cell away
leave the bonded pair (0, 5) two nm apart in a 2 nm cube -/
theorem c11_order_matters :
    let B : Cell := ⟨⟨2, 0, 0⟩, ⟨0, 2, 0⟩, ⟨0, 0, 2⟩⟩
    let pos : Nat → V3 := fun k => if k = 0 then ⟨1/2, 1/2, 1/2⟩ else if k = 5 then ⟨3/5, 1/2, 1/2⟩ else if k = 3 then ⟨27/10, 1/2, 1/2⟩ else ⟨14/5, 1/2, 1/2⟩
    validOrder [] [(0, 5), (3, 4), (3, 5)] = false ∧
    ((makeWhole roundHA B pos [(0, 5), (3, 4), (3, 5)] 5).sub (makeWhole roundHA B pos [(0, 5), (3, 4), (3, 5)] 0)).x = 21/10 ∧
    validOrder [] (placementOrder 6 [(0, 5), (3, 5), (3, 4)]) = true ∧
    ((makeWhole roundHA B pos (placementOrder 6 [(0, 5), (3, 5), (3, 4)]) 5).sub (makeWhole roundHA B pos (placementOrder 6 [(0, 5), (3, 5), (3, 4)]) 0)).x = 1/10 := by
  decide +kernel

/-! ### wrap_mols -/

theorem c11_molshift_lattice (B : Cell) (hB : LowerTri B) (ctr : V3) : ∃ i j k : Int, molShift B ctr = B.latt i j k := by
  obtain ⟨h1, h2, h3⟩ := hB
  refine ⟨-(((ctr.x - B.c.x * (ctr.z / B.c.z).floor - B.b.x * ((ctr.y - B.c.y * (ctr.z / B.c.z).floor) / B.b.y).floor) / B.a.x).floor),
    -(((ctr.y - B.c.y * (ctr.z / B.c.z).floor) / B.b.y).floor), -((ctr.z / B.c.z).floor), ?_⟩
  apply v3ext <;> simp [molShift, Cell.latt, V3.add, V3.smul, h1, h2, h3] <;> ring

theorem floor_wrap_bounds (x L : Rat) (hL : 0 < L) : 0 ≤ x - L * ((x / L).floor : Rat) ∧ x - L * ((x / L).floor : Rat) < L := by
  have h1 : ((x / L).floor : Rat) ≤ x / L := by rw [floor_eq]; exact Int.floor_le _
  have h2 : x / L < ((x / L).floor : Rat) + 1 := by rw [floor_eq]; exact Int.lt_floor_add_one _
  have e : x = x / L * L := by field_simp
  constructor
  · nlinarith
  · nlinarith

/-- the wrapped centre lies in the cell: 0 ≤ z < c_z, 0 ≤ y < b_y, 0 ≤ x < a_x -/
theorem c11_molshift_in_cell (B : Cell) (hB : LowerTri B) (ha : 0 < B.a.x) (hb : 0 < B.b.y) (hc : 0 < B.c.z) (ctr : V3) :
    let p := ctr.add (molShift B ctr)
    (0 ≤ p.x ∧ p.x < B.a.x) ∧ (0 ≤ p.y ∧ p.y < B.b.y) ∧ (0 ≤ p.z ∧ p.z < B.c.z) := by
  obtain ⟨h1, h2, h3⟩ := hB
  simp only [molShift, V3.add, h1, h2, h3]
  refine ⟨?_, ?_, ?_⟩
  · have := floor_wrap_bounds (ctr.x - B.c.x * ((ctr.z / B.c.z).floor : Rat) - B.b.x * (((ctr.y - B.c.y * ((ctr.z / B.c.z).floor : Rat)) / B.b.y).floor : Rat)) B.a.x ha
    constructor <;> [linarith [this.1]; linarith [this.2]]
  · have := floor_wrap_bounds (ctr.y - B.c.y * ((ctr.z / B.c.z).floor : Rat)) B.b.y hb
    constructor <;> [linarith [this.1]; linarith [this.2]]
  · have := floor_wrap_bounds ctr.z B.c.z hc
    constructor <;> [linarith [this.1]; linarith [this.2]]

/-- a non-anchor molecule moves as a unit; other atoms do not move -/
theorem c11_wrap_rigid (B : Cell) (pos : Nat → V3) (mol : List Nat) :
    (∀ k ∈ mol, ∀ k' ∈ mol, (wrapMol B pos mol k').sub (wrapMol B pos mol k) = (pos k').sub (pos k)) ∧
    (∀ k, k ∉ mol → wrapMol B pos mol k = pos k) := by
  constructor
  · intro k hk k' hk'
    have c1 : mol.contains k = true := by simpa using hk
    have c2 : mol.contains k' = true := by simpa using hk'
    simp only [wrapMol, c1, c2, if_true]
    apply v3ext <;> simp [V3.add, V3.sub]
  · intro k hk
    simp only [wrapMol]
    split
    · rename_i h; exact absurd (by simpa using h) hk
    · rfl

/-- `pos'` is `pos` translated by `T` plus a lattice vector per atom -/
def ShiftedBy (B : Cell) (T : V3) (pos' pos : Nat → V3) : Prop := ∀ k, ∃ i j l : Int, pos' k = ((pos k).add T).add (B.latt i j l)

theorem wrapMol_shifted (B : Cell) (hB : LowerTri B) (T : V3) (p pos : Nat → V3) (h : ShiftedBy B T p pos) (mol : List Nat) :
    ShiftedBy B T (wrapMol B p mol) pos := by
  intro k
  obtain ⟨i, j, l, e⟩ := h k
  by_cases hc : mol.contains k = true
  · obtain ⟨i', j', l', e'⟩ := c11_molshift_lattice B hB (centroid p mol)
    refine ⟨i + i', j + j', l + l', ?_⟩
    simp only [wrapMol, hc, if_true]
    rw [e', e, latt_add]
  · exact ⟨i, j, l, by simp only [wrapMol, hc]; exact e⟩

/-- **after `wrap_mols` every atom is at `old + common translation + lattice vector`** -/
theorem c11_wrap_lattice (B : Cell) (hB : LowerTri B) (T : V3) (pos : Nat → V3) (mols : List (List Nat)) :
    ShiftedBy B T (wrapMols B T pos mols) pos := by
  unfold wrapMols
  suffices h : ∀ p, ShiftedBy B T p pos → ShiftedBy B T (mols.foldl (wrapMol B) p) pos from
    h _ (fun k => ⟨0, 0, 0, (latt_zero B _).symm⟩)
  induction mols with
  | nil => intro p h; exact h
  | cons m ms ih => intro p h; exact ih _ (wrapMol_shifted B hB T p pos h m)

/-- an anchor molecule joins the cluster by one lattice vector, as a unit -/
theorem c11_anchor_lattice (rnd : Rat → Int) (B : Cell) (pos : Nat → V3) (mol : List Nat) (a1 a2 : Nat) :
    ∃ i j l : Int, ∀ k, anchorMove rnd B pos mol a1 a2 k = if mol.contains k then (pos k).add (B.latt i j l) else pos k := by
  obtain ⟨i, j, l, e⟩ := anchorOffset_lattice rnd B ((pos a2).sub (pos a1))
  refine ⟨-i, -j, -l, fun k => ?_⟩
  simp only [anchorMove, e]
  split
  · apply v3ext <;> simp [V3.add, V3.sub, Cell.latt, V3.smul] <;> ring
  · rfl

/-- **consequence: minimum-image displacements are unchanged** (inside C05's range: some image of the separation shorter than h ≤ half the diagonal) -/
theorem c11_mic_unchanged (rnd : Rat → Int) (hr : NearestRound rnd) (B : Cell) (hB : LowerTri B)
    (ha : 0 < B.a.x) (hb : 0 < B.b.y) (hc : 0 < B.c.z) (T : V3) (pos' pos : Nat → V3) (hs : ShiftedBy B T pos' pos) (p q : Nat)
    (h : Rat) (hh : 0 < h) (h2a : 2 * h ≤ B.a.x) (h2b : 2 * h ≤ B.b.y) (h2c : 2 * h ≤ B.c.z)
    (m : V3) (hm : IsImage B m ((pos q).sub (pos p))) (hshort : m.norm2 < h * h) :
    distTri rnd B ((pos' q).sub (pos' p)) = distTri rnd B ((pos q).sub (pos p)) := by
  obtain ⟨i, j, l, e1⟩ := hs p
  obtain ⟨i', j', l', e2⟩ := hs q
  have e : (pos' q).sub (pos' p) = ((pos q).sub (pos p)).add (B.latt (i' - i) (j' - j) (l' - l)) := by
    rw [e1, e2]; apply v3ext <;> simp [V3.add, V3.sub, Cell.latt, V3.smul] <;> ring
  rw [e]
  exact c09_lattice_shift_tri rnd hr B hB ha hb hc _ h hh h2a h2b h2c m hm hshort _ _ _

/-! ### the driver's list evaluators compute the model -/

theorem ofList_set (l : List V3) (j : Nat) (v : V3) (hj : j < l.length) : ofList (l.set j v) = upd (ofList l) j v := by
  funext k
  simp only [ofList, upd, List.getD_eq_getElem?_getD, List.getElem?_set]
  by_cases h : j = k
  · subst h; simp [hj]
  · have h' : ¬ k = j := fun e => h e.symm
    simp [h, h']

theorem wholeStepL_eq (rnd : Rat → Int) (B : Cell) (l : List V3) (bd : Nat × Nat) (h : bd.2 < l.length) :
    ofList (wholeStepL rnd B l bd) = wholeStep rnd B (ofList l) bd := by
  simp only [wholeStepL, wholeStep]
  rw [ofList_set _ _ _ h]; rfl

theorem wholeStepL_length (rnd : Rat → Int) (B : Cell) (l : List V3) (bd : Nat × Nat) : (wholeStepL rnd B l bd).length = l.length := by
  simp [wholeStepL]

/-- **the list evaluator of the driver is `makeWhole`** (all second atoms in range) -/
theorem makeWholeL_eq (rnd : Rat → Int) (B : Cell) (bonds : List (Nat × Nat)) : ∀ (l : List V3), (∀ bd ∈ bonds, bd.2 < l.length) →
    ofList (makeWholeL rnd B l bonds) = makeWhole rnd B (ofList l) bonds := by
  induction bonds with
  | nil => intro l _; rfl
  | cons bd bs ih =>
    intro l h
    show ofList (makeWholeL rnd B (wholeStepL rnd B l bd) bs) = makeWhole rnd B (wholeStep rnd B (ofList l) bd) bs
    rw [ih _ (fun b hb => by rw [wholeStepL_length]; exact h b (List.mem_cons_of_mem _ hb)), wholeStepL_eq rnd B l bd (h bd List.mem_cons_self)]

theorem wrapMolL_eq (B : Cell) (l : List V3) (mol : List Nat) (h : ∀ k ∈ mol, k < l.length) :
    ofList (wrapMolL B l mol) = wrapMol B (ofList l) mol := by
  funext k
  simp only [ofList, wrapMolL, wrapMol, List.getD_eq_getElem?_getD, List.getElem?_mapIdx]
  by_cases hk : k < l.length
  · simp [hk]
  · have hc : k ∉ mol := fun hm => hk (h k hm)
    have hn : l[k]? = none := by simp; omega
    simp [hn, hc]

theorem wrapMolL_length (B : Cell) (l : List V3) (mol : List Nat) : (wrapMolL B l mol).length = l.length := by
  simp [wrapMolL]

/-- **the list evaluator of the driver is `wrapMols`** (all molecule atoms in range) -/
theorem wrapMolsL_eq (B : Cell) (T : V3) (l : List V3) (mols : List (List Nat)) (h : ∀ m ∈ mols, ∀ k ∈ m, k < l.length) (k : Nat) (hk : k < l.length) :
    ofList (wrapMolsL B T l mols) k = wrapMols B T (ofList l) mols k := by
  unfold wrapMolsL wrapMols
  suffices g : ∀ (l' : List V3) (f : Nat → V3), l'.length = l.length → (∀ k, k < l.length → ofList l' k = f k) →
      (∀ k, k < l.length → ofList (mols.foldl (wrapMolL B) l') k = mols.foldl (wrapMol B) f k) by
    refine g _ _ (by simp) ?_ k hk
    intro k hk
    simp [ofList, List.getD_eq_getElem?_getD, hk]
  induction mols with
  | nil => intro l' f _ he; exact he
  | cons m ms ih =>
    intro l' f hl he
    refine ih (fun m' hm' => h m' (List.mem_cons_of_mem _ hm')) (wrapMolL B l' m) (wrapMol B f m) (by rw [wrapMolL_length, hl]) ?_
    intro k hk
    rw [wrapMolL_eq B l' m (fun a ha => by rw [hl]; exact h m List.mem_cons_self a ha)]
    have hm := h m List.mem_cons_self
    have hc : centroid (ofList l') m = centroid f m := by
      simp only [centroid, vsum]
      congr 1
      suffices gg : ∀ (m' : List Nat) (acc : V3), (∀ a ∈ m', a < l.length) →
          m'.foldl (fun acc k => acc.add (ofList l' k)) acc = m'.foldl (fun acc k => acc.add (f k)) acc from gg m _ hm
      intro m'
      induction m' with
      | nil => intro _ _; rfl
      | cons a as ih2 =>
        intro acc ha
        simp only [List.foldl_cons]
        rw [he a (ha a List.mem_cons_self)]
        exact ih2 _ (fun b hb => ha b (List.mem_cons_of_mem _ hb))
    simp only [wrapMol, hc, he k hk]

/-- non-vacuity: a triclinic cell and a separation that satisfy the hypotheses of `c11_offset_recovers` -/
example : LowerTri ⟨⟨2, 0, 0⟩, ⟨1/2, 3, 0⟩, ⟨-1/2, 1, 4⟩⟩ ∧ Small ⟨⟨2, 0, 0⟩, ⟨1/2, 3, 0⟩, ⟨-1/2, 1, 4⟩⟩ ⟨1/10, -1/10, 3/20⟩ ∧
    bondOffset roundHA ⟨⟨2, 0, 0⟩, ⟨1/2, 3, 0⟩, ⟨-1/2, 1, 4⟩⟩ ((⟨1/10, -1/10, 3/20⟩ : V3).add ((⟨⟨2, 0, 0⟩, ⟨1/2, 3, 0⟩, ⟨-1/2, 1, 4⟩⟩ : Cell).latt 3 (-2) 1))
      = (⟨⟨2, 0, 0⟩, ⟨1/2, 3, 0⟩, ⟨-1/2, 1, 4⟩⟩ : Cell).latt 3 (-2) 1 := by
  refine ⟨⟨rfl, rfl, rfl⟩, ?_, by decide +kernel⟩
  simp only [Small]; norm_num

end MdVerif.Image
