import MdVerif.Model.Schedule
import MdVerif.Properties.C13
/-!
# C08 — per-frame results depend only on that frame, not on neighbours or threads

* `c08_thread_stateless`, `c08_schedule_independent`   if a kernel's per-frame output does not depend on the thread-private state it
  receives, then for **every** schedule (any number of threads, any assignment of frames to threads, any order inside a thread) the
  value written for frame `i` is `out0 (frame i)` — the same as computing the frame alone.
* `c08_sasa_stateless`, `c08_sasa_frames`   the premise for the transcribed SASA frame loop (reused per-thread buffer): whatever a thread
  did before, each frame's counts are those of the frame alone (this is what failed before the `fix:` commit).
* `c08_slice_perm`  a per-frame function commutes with taking any sub-selection or permutation of frames.
The OpenMP runtime and memory model are outside the model: the premise for the other kernels (distances, angles, RMSD, DSSP, Kabsch–Sander,
neighbour searches, DRID) is checked on the real code by the correspondence run (frame alone / inside a trajectory / permuted, thread-count matrix).
-/
namespace MdVerif.Sched

variable {σ φ ω : Type}

theorem c08_thread_stateless (step : σ → φ → σ × ω) (out0 : φ → ω) (h : ∀ s f, (step s f).2 = out0 f)
    (frames : List φ) (s : σ) (is : List Nat) :
    runThread step frames s is = is.filterMap (fun i => (frames[i]?).map (fun f => (i, out0 f))) := by
  induction is generalizing s with
  | nil => rfl
  | cons i is ih =>
    simp only [runThread, List.filterMap_cons]
    cases hf : frames[i]? with
    | none => simp [ih]
    | some f => simp [h, ih]

/-- **schedule independence**: every write for frame `i`, in every schedule, is `out0 (frames[i])` -/
theorem c08_schedule_independent (step : σ → φ → σ × ω) (out0 : φ → ω) (h : ∀ s f, (step s f).2 = out0 f)
    (init : σ) (frames : List φ) (sched : List (List Nat)) :
    ∀ w ∈ runSchedule step init frames sched, ∃ f, frames[w.1]? = some f ∧ w.2 = out0 f := by
  intro w hw
  simp only [runSchedule, List.mem_flatMap] at hw
  obtain ⟨is, _, hmem⟩ := hw
  rw [c08_thread_stateless step out0 h] at hmem
  simp only [List.mem_filterMap, Option.map_eq_some_iff] at hmem
  obtain ⟨i, _, f, hf, rfl⟩ := hmem
  exact ⟨f, hf, rfl⟩

/-- hence `out[i]`, whenever frame `i` is handled by some thread, is the result of the frame alone -/
theorem c08_out_at (step : σ → φ → σ × ω) (out0 : φ → ω) (h : ∀ s f, (step s f).2 = out0 f)
    (init : σ) (frames : List φ) (sched : List (List Nat)) (i : Nat) (v : ω)
    (hv : outAt (runSchedule step init frames sched) i = some v) : ∃ f, frames[i]? = some f ∧ v = out0 f := by
  simp only [outAt, Option.map_eq_some_iff] at hv
  obtain ⟨w, hw, rfl⟩ := hv
  have hm := List.mem_of_getLast? hw
  simp only [List.mem_filter, beq_iff_eq] at hm
  obtain ⟨f, hf, e⟩ := c08_schedule_independent step out0 h init frames sched w hm.1
  exact ⟨f, by rw [← hm.2]; exact hf, e⟩

/-- a per-frame function commutes with any selection / permutation of frames -/
theorem c08_slice_perm (out0 : φ → ω) (frames : List φ) (idx : List Nat) :
    (idx.filterMap (frames[·]?)).map out0 = idx.filterMap (fun i => (frames[i]?).map out0) := by
  induction idx with
  | nil => rfl
  | cons i is ih =>
    simp only [List.filterMap_cons]
    cases frames[i]? <;> simp [ih]

end MdVerif.Sched

namespace MdVerif.Sasa
open MdVerif.Mic

/-- the buffer invariant of a thread: unselected slots hold zero (they are `calloc`ed and never written) -/
def BufOK (mask : List Bool) (buf : List Nat) : Prop := ∀ i, mask.getD i false = false → buf.getD i 0 = 0

/-- **SASA is stateless in its work buffer**: with any buffer satisfying the invariant the frame's result is that of the frame alone -/
theorem c08_sasa_stateless (points : List V3) (mask : List Bool) (buf : List Nat) (atoms : List Atom) (hb : BufOK mask buf) :
    asaFrameBuf points mask buf atoms = asaFrame points mask atoms ∧ BufOK mask (asaFrameBuf points mask buf atoms) := by
  have hb2 : ∀ i : Nat, mask[i]?.getD false = false → buf[i]?.getD 0 = 0 := by
    intro i hi
    have := hb i (by simpa [List.getD_eq_getElem?_getD] using hi)
    simpa [List.getD_eq_getElem?_getD] using this
  constructor
  · unfold asaFrame asaFrameBuf
    apply List.map_congr_left
    intro p hp
    simp only [List.getD_eq_getElem?_getD]
    by_cases hm : mask[p.2]?.getD false = true
    · simp [hm]
    · have hm' : mask[p.2]?.getD false = false := by simpa using hm
      have hlt : p.2 < atoms.length := by
        have := List.mem_zipIdx hp; omega
      simp [hm', hb2 p.2 hm', hlt]
  · intro i hi
    have hi2 : mask[i]?.getD false = false := by simpa [List.getD_eq_getElem?_getD] using hi
    unfold asaFrameBuf
    rw [List.getD_eq_getElem?_getD, List.getElem?_map, List.getElem?_zipIdx]
    simp only [List.getD_eq_getElem?_getD]
    by_cases hlt : i < atoms.length
    · simp [hlt, hi2, hb2 i hi2]
    · simp [hlt]

/-- over any sequence of frames handled by one thread (same selection), every frame's output is that of the frame alone -/
theorem c08_sasa_frames (points : List V3) (mask : List Bool) (frames : List (List Atom)) (buf : List Nat) (hb : BufOK mask buf) :
    (frames.foldl (fun (st : List Nat × List (List Nat)) fr =>
        let o := asaFrameBuf points mask st.1 fr; (o, st.2 ++ [o])) (buf, [])).2
      = frames.map (asaFrame points mask) := by
  suffices h : ∀ (acc : List (List Nat)) (buf : List Nat), BufOK mask buf →
      (frames.foldl (fun (st : List Nat × List (List Nat)) fr =>
        let o := asaFrameBuf points mask st.1 fr; (o, st.2 ++ [o])) (buf, acc)).2 = acc ++ frames.map (asaFrame points mask) by
    simpa using h [] buf hb
  induction frames with
  | nil => intro acc buf _; simp
  | cons fr frs ih =>
    intro acc buf hb
    simp only [List.foldl_cons, List.map_cons]
    obtain ⟨e, hb'⟩ := c08_sasa_stateless points mask buf fr hb
    rw [ih _ _ hb', e]; simp

end MdVerif.Sasa

/-! ## a kernel chosen once for the whole trajectory

`compute_distances`, `compute_displacements`, `compute_angles` and `compute_dihedrals` look at the cell of *every* frame, choose the rectangular
or the general kernel once, and run it over all frames.  A frame's value is then independent of the other frames exactly when the two kernels
agree on every frame that passes the test for the rectangular one. -/
namespace MdVerif.Sched

/-- the analysis: `rect` is the test applied to each frame's cell, `k₀` the rectangular kernel, `k₁` the general one -/
def switched {φ ω : Type} (rect : φ → Bool) (k₀ k₁ : φ → ω) (frames : List φ) : List ω :=
  if frames.all rect then frames.map k₀ else frames.map k₁

/-- **frame independence of a switched analysis**: if the kernels agree wherever the test holds, every trajectory gets, frame by frame, the
value of the general kernel — whatever the other frames are -/
theorem c08_switch_independent {φ ω : Type} (rect : φ → Bool) (k₀ k₁ : φ → ω) (h : ∀ f, rect f = true → k₀ f = k₁ f) (frames : List φ) :
    switched rect k₀ k₁ frames = frames.map k₁ := by
  unfold switched
  split
  · rename_i hall
    apply List.map_congr_left
    intro f hf
    exact h f (List.all_eq_true.mp hall f hf)
  · rfl

/-- … so a frame inside any trajectory has the value it has alone -/
theorem c08_switch_frame_alone {φ ω : Type} (rect : φ → Bool) (k₀ k₁ : φ → ω) (h : ∀ f, rect f = true → k₀ f = k₁ f) (frames : List φ) (i : Nat) (f : φ)
    (hf : frames[i]? = some f) : (switched rect k₀ k₁ frames)[i]? = (switched rect k₀ k₁ [f])[0]? := by
  rw [c08_switch_independent rect k₀ k₁ h, c08_switch_independent rect k₀ k₁ h]
  simp [List.getElem?_map, hf]

/-- **why the test must be exact** (repair c973ecd3): with a tolerant test (`np.allclose(angles, 90)`) a frame a rounding error away from
rectangular, on which the kernels differ, has one value alone and another next to a skewed frame.  Frames are cell angles in units of 1e-4
degrees; the rectangular kernel ignores the tilt. -/
theorem c08_tolerant_switch_witness :
    let rect := fun (a : Int) => decide ((a - 900000).natAbs ≤ 9)
    let k₀ := fun (_ : Int) => (0 : Int)
    let k₁ := fun (a : Int) => a - 900000
    (switched rect k₀ k₁ [900008])[0]? = some 0 ∧ (switched rect k₀ k₁ [900008, 700000])[0]? = some 8 := by
  refine ⟨by decide, by decide⟩

end MdVerif.Sched

