import MdVerif.Properties.C05
import MdVerif.Properties.C07
import MdVerif.Properties.C17
import MdVerif.Properties.C16
/-!
# C09 — observables are invariant under rigid motion and lattice translation

Every kernel works on coordinate differences, and every decision/observable of C05, C07, C10, C13, C14, C15, C16 is a function
of dot products of differences plus (for dihedral signs) one triple product.  Proved for all vectors and all orthogonal `R`:
* `c09_translation`         differences are unchanged by a common translation
* `c09_dot_invariant`, `c09_norm2_invariant`   `(Ru)·(Rv) = u·v`: distances, angle cosines, `p2`, contact minima, H-bond and DSSP
  decision quantities, burial predicates are invariant under rotations *and* reflections
* `c09_triple_rotated`      `(Ru)·((Rv)×(Rw)) = det R · u·(v×w)`: the dihedral sign is kept by proper rotations (det R = 1) and flipped by
  improper ones; `c09_dihedral_invariant` assembles the three determining quantities
* `c09_image_set_shift`     the set of periodic images of a separation is unchanged when either atom is moved by a lattice vector
* `c09_lattice_shift_ortho` the orthorhombic kernel's distance is unchanged by any lattice shift (every separation)
* `c09_lattice_shift_tri`   inside C05's range the triclinic kernel returns the very same displacement after a lattice shift
-/
namespace MdVerif.Mic
open MdVerif.UnitCell MdVerif.Ang

theorem c09_translation (p q t : V3) : (q.add t).sub (p.add t) = q.sub p := by
  apply V3.ext3 <;> simp [V3.add, V3.sub]

theorem c09_dot_invariant (R : M3) (hR : R.Orthogonal) (u v : V3) : (R.apply u).dot (R.apply v) = u.dot v :=
  dot_rotated R hR u v

theorem c09_norm2_invariant (R : M3) (hR : R.Orthogonal) (u : V3) : (R.apply u).norm2 = u.norm2 :=
  dot_rotated R hR u u

theorem apply_sub (R : M3) (u v : V3) : R.apply (u.sub v) = (R.apply u).sub (R.apply v) := by
  apply V3.ext3 <;> simp [M3.apply, V3.sub, V3.dot] <;> ring

/-- squared distance between two rotated atoms -/
theorem c09_distance_invariant (R : M3) (hR : R.Orthogonal) (p q : V3) :
    ((R.apply q).sub (R.apply p)).norm2 = (q.sub p).norm2 := by
  rw [← apply_sub, c09_norm2_invariant R hR]

def detM (R : M3) : Rat := R.r1.dot (R.r2.cross R.r3)

theorem c09_triple_rotated (R : M3) (u v w : V3) :
    (R.apply u).dot ((R.apply v).cross (R.apply w)) = detM R * u.dot (v.cross w) := by
  simp only [M3.apply, detM, V3.dot, V3.cross]; ring

/-- the three quantities that determine a dihedral after rotating all four atoms -/
theorem c09_dihedral_invariant (R : M3) (hR : R.Orthogonal) (b1 b2 b3 : V3) :
    dihedralInv (R.apply b1) (R.apply b2) (R.apply b3) =
      (detM R * (dihedralInv b1 b2 b3).1, (dihedralInv b1 b2 b3).2.1, (dihedralInv b1 b2 b3).2.2) := by
  have h3 : (dihedralInv (R.apply b1) (R.apply b2) (R.apply b3)).2.2 = (dihedralInv b1 b2 b3).2.2 := by
    rw [c07_binet_cauchy, c07_binet_cauchy]
    simp only [V3.norm2, dot_rotated R hR]
  have h1 : (dihedralInv (R.apply b1) (R.apply b2) (R.apply b3)).1 = detM R * (dihedralInv b1 b2 b3).1 := c09_triple_rotated R b1 b2 b3
  have h2 : (dihedralInv (R.apply b1) (R.apply b2) (R.apply b3)).2.1 = (dihedralInv b1 b2 b3).2.1 := dot_rotated R hR b2 b2
  exact Prod.ext h1 (Prod.ext h2 h3)

theorem c09_angle_invariant (R : M3) (hR : R.Orthogonal) (v1 v2 : V3) :
    angleInv (R.apply v1) (R.apply v2) = angleInv v1 v2 := by
  simp only [angleInv, V3.norm2, dot_rotated R hR]

/-- moving either atom by a lattice vector does not change the set of images of their separation -/
theorem c09_image_set_shift (B : Cell) (r d : V3) (a b c : Int) :
    IsImage B d (r.add (B.latt a b c)) ↔ IsImage B d r := by
  constructor
  · rintro ⟨i, j, k, rfl⟩
    exact ⟨a + i, b + j, c + k, latt_add B r a b c i j k⟩
  · rintro ⟨i, j, k, rfl⟩
    refine ⟨i - a, j - b, k - c, ?_⟩
    rw [latt_add]; congr 2 <;> ring

/-- **orthorhombic cells, every separation**: the reported distance is unchanged by any lattice shift -/
theorem c09_lattice_shift_ortho (rnd : Rat → Int) (hr : NearestRound rnd) (B : Cell) (hB : IsDiag B)
    (ha : 0 < B.a.x) (hb : 0 < B.b.y) (hc : 0 < B.c.z) (r : V3) (a b c : Int) :
    (distOrtho rnd B (r.add (B.latt a b c))).norm2 = (distOrtho rnd B r).norm2 := by
  apply le_antisymm
  · -- the result for r is an image of the shifted separation
    have h := c05_ortho_congruent rnd B hB r
    have := c05_ortho_min rnd hr B hB ha hb hc (r.add (B.latt a b c))
      ((shiftOrtho rnd B r).1 - a) ((shiftOrtho rnd B r).2.1 - b) ((shiftOrtho rnd B r).2.2 - c)
    rw [latt_add] at this
    have e : r.add (B.latt (a + ((shiftOrtho rnd B r).1 - a)) (b + ((shiftOrtho rnd B r).2.1 - b)) (c + ((shiftOrtho rnd B r).2.2 - c)))
        = distOrtho rnd B r := by rw [h]; congr 2 <;> ring
    rw [e] at this; exact this
  · have h := c05_ortho_congruent rnd B hB (r.add (B.latt a b c))
    have := c05_ortho_min rnd hr B hB ha hb hc r
      (a + (shiftOrtho rnd B (r.add (B.latt a b c))).1) (b + (shiftOrtho rnd B (r.add (B.latt a b c))).2.1)
      (c + (shiftOrtho rnd B (r.add (B.latt a b c))).2.2)
    rw [← latt_add, ← h] at this; exact this

/-- **skewed cells, inside C05's range**: the very same displacement is returned after a lattice shift -/
theorem c09_lattice_shift_tri (rnd : Rat → Int) (hr : NearestRound rnd) (B : Cell) (hB : LowerTri B)
    (ha : 0 < B.a.x) (hb : 0 < B.b.y) (hc : 0 < B.c.z) (r : V3) (h : Rat) (hh : 0 < h)
    (h2a : 2 * h ≤ B.a.x) (h2b : 2 * h ≤ B.b.y) (h2c : 2 * h ≤ B.c.z)
    (m : V3) (hm : IsImage B m r) (hshort : m.norm2 < h * h) (a b c : Int) :
    distTri rnd B (r.add (B.latt a b c)) = distTri rnd B r := by
  rw [(c05_tri_min rnd hr B hB ha hb hc r h hh h2a h2b h2c m hm hshort).1]
  exact (c05_tri_min rnd hr B hB ha hb hc (r.add (B.latt a b c)) h hh h2a h2b h2c m
    ((c09_image_set_shift B r m a b c).mpr hm) hshort).1

/-- non-vacuity: a proper rotation with rational entries (3-4-5 about z followed by a quarter turn about x) is orthogonal with det 1 -/
example : (⟨⟨3/5, -4/5, 0⟩, ⟨0, 0, -1⟩, ⟨4/5, 3/5, 0⟩⟩ : M3).Orthogonal ∧ detM ⟨⟨3/5, -4/5, 0⟩, ⟨0, 0, -1⟩, ⟨4/5, 3/5, 0⟩⟩ = 1 := by
  simp only [M3.Orthogonal, detM, V3.dot, V3.cross]; norm_num

end MdVerif.Mic

/-! ## shape descriptors: the gyration tensor and the radius of gyration do not see a translation

`compute_gyration_tensor`, `compute_rg` and everything derived from them (asphericity, acylindricity, relative shape anisotropy, principal
moments) subtract the centre of the very coordinates they are given; `c09_gyration_translate` is the statement for every list of positions and
every translation, `c09_uncentred_witness` shows that the tensor taken about a fixed point (what a stale "already centred" flag amounts to) is
not invariant. -/
namespace MdVerif.Descr
open MdVerif.Mic MdVerif.UnitCell

/-- every position moved by `t`, weights kept -/
def shiftW (t : V3) (l : List (Rat × V3)) : List (Rat × V3) := l.map (fun p => (p.1, p.2.add t))

theorem wTotal_shift (t : V3) (l : List (Rat × V3)) : wTotal (shiftW t l) = wTotal l := by
  simp [wTotal, shiftW, List.map_map, Function.comp_def]

theorem wFirst_shift (t : V3) (l : List (Rat × V3)) : wFirst (shiftW t l) = (wFirst l).add (V3.smul (wTotal l) t) := by
  induction l with
  | nil => simp [wFirst, shiftW, wTotal, V3.add, V3.smul]
  | cons p ps ih =>
    simp only [wFirst, shiftW, wTotal, List.map_cons, List.foldr_cons, List.sum_cons] at ih ⊢
    rw [ih]
    simp only [V3.add, V3.smul, V3.mk.injEq]
    refine ⟨by ring, by ring, by ring⟩

/-- **the centre of mass moves with the system** -/
theorem c09_com_translate (t : V3) (l : List (Rat × V3)) (hW : wTotal l ≠ 0) : com (shiftW t l) = (com l).add t := by
  simp only [com, wFirst_shift, wTotal_shift, V3.add, V3.smul, V3.mk.injEq]
  refine ⟨by field_simp, by field_simp, by field_simp⟩

theorem sub_shift (a c t : V3) : (a.add t).sub (c.add t) = a.sub c := by
  simp only [V3.add, V3.sub, V3.mk.injEq]
  refine ⟨by ring, by ring, by ring⟩

theorem wOuter_shift (t c : V3) (l : List (Rat × V3)) : wOuter (shiftW t l) (c.add t) = wOuter l c := by
  induction l with
  | nil => rfl
  | cons p ps ih =>
    simp only [wOuter, shiftW, List.map_cons, List.foldr_cons] at ih ⊢
    rw [ih, sub_shift]

theorem wDev2_shift (t c : V3) (l : List (Rat × V3)) : wDev2 (shiftW t l) (c.add t) = wDev2 l c := by
  rw [← wOuter_tr, ← wOuter_tr, wOuter_shift]

/-- **the squared radius of gyration (any weights with non-zero total) is unchanged by a translation** -/
theorem c09_rg_translate (t : V3) (l : List (Rat × V3)) (hW : wTotal l ≠ 0) : rg2 (shiftW t l) = rg2 l := by
  simp only [rg2]
  rw [c09_com_translate t l hW, wDev2_shift, wTotal_shift]

/-- **the gyration tensor is unchanged by a translation**, for every non-empty list of positions and every `t` -/
theorem c09_gyration_translate (t : V3) (xs : List V3) (hx : xs ≠ []) : gyration (xs.map (fun x => x.add t)) = gyration xs := by
  have hmap : (xs.map (fun x => x.add t)).map (fun x => ((1 : Rat), x)) = shiftW t (xs.map (fun x => ((1 : Rat), x))) := by
    simp [shiftW, List.map_map, Function.comp_def]
  have hW : wTotal (xs.map (fun x => ((1 : Rat), x))) ≠ 0 := by
    rw [wTotal_unit]
    have : xs.length ≠ 0 := by
      intro h; exact hx (List.length_eq_zero_iff.mp h)
    exact_mod_cast this
  simp only [gyration]
  rw [hmap, c09_com_translate t _ hW, wOuter_shift, List.length_map]

/-- every position rotated (or reflected) by `R`, weights kept -/
def rotW (R : M3) (l : List (Rat × V3)) : List (Rat × V3) := l.map (fun p => (p.1, R.apply p.2))

theorem wTotal_rot (R : M3) (l : List (Rat × V3)) : wTotal (rotW R l) = wTotal l := by
  simp [wTotal, rotW, List.map_map, Function.comp_def]

theorem apply_add (R : M3) (u v : V3) : R.apply (u.add v) = (R.apply u).add (R.apply v) := by
  simp only [M3.apply, V3.add, V3.dot, V3.mk.injEq]
  refine ⟨by ring, by ring, by ring⟩

theorem apply_smul (R : M3) (k : Rat) (v : V3) : R.apply (V3.smul k v) = V3.smul k (R.apply v) := by
  simp only [M3.apply, V3.smul, V3.dot, V3.mk.injEq]
  refine ⟨by ring, by ring, by ring⟩

theorem wFirst_rot (R : M3) (l : List (Rat × V3)) : wFirst (rotW R l) = R.apply (wFirst l) := by
  induction l with
  | nil => simp [wFirst, rotW, M3.apply, V3.dot]
  | cons p ps ih =>
    simp only [wFirst, rotW, List.map_cons, List.foldr_cons] at ih ⊢
    rw [ih, apply_add, apply_smul]

/-- the centre of mass turns with the system (any linear map) -/
theorem c09_com_rotate (R : M3) (l : List (Rat × V3)) : com (rotW R l) = R.apply (com l) := by
  simp only [com, wFirst_rot, wTotal_rot, apply_smul]

theorem wDev2_rot (R : M3) (hR : R.Orthogonal) (c : V3) (l : List (Rat × V3)) : wDev2 (rotW R l) (R.apply c) = wDev2 l c := by
  induction l with
  | nil => rfl
  | cons p ps ih =>
    simp only [wDev2, rotW, List.map_cons, List.sum_cons] at ih ⊢
    rw [ih, ← MdVerif.Mic.apply_sub, MdVerif.Mic.c09_norm2_invariant R hR]

/-- **the squared radius of gyration is unchanged by every rotation and reflection** (any weights) -/
theorem c09_rg_rotate (R : M3) (hR : R.Orthogonal) (l : List (Rat × V3)) : rg2 (rotW R l) = rg2 l := by
  simp only [rg2]
  rw [c09_com_rotate, wDev2_rot R hR, wTotal_rot]

/-- … and so is the trace of the gyration tensor (the sum of the principal moments) -/
theorem c09_gyration_trace_rotate (R : M3) (hR : R.Orthogonal) (xs : List V3) :
    (gyration (xs.map R.apply)).tr = (gyration xs).tr := by
  rw [c16_gyration_trace, c16_gyration_trace]
  have : (xs.map R.apply).map (fun x => ((1 : Rat), x)) = rotW R (xs.map (fun x => ((1 : Rat), x))) := by
    simp [rotW, List.map_map, Function.comp_def]
  rw [this, c09_rg_rotate R hR]

/-- the tensor taken about the origin instead (the centring pass skipped): moving two atoms by (1, 0, 0) changes it -/
theorem c09_uncentred_witness :
    (wOuter [((1 : Rat), (⟨0, 0, 0⟩ : V3)), (1, ⟨1, 0, 0⟩)] ⟨0, 0, 0⟩).xx = 1 ∧
    (wOuter (shiftW ⟨1, 0, 0⟩ [((1 : Rat), (⟨0, 0, 0⟩ : V3)), (1, ⟨1, 0, 0⟩)]) ⟨0, 0, 0⟩).xx = 5 ∧
    (gyration [(⟨0, 0, 0⟩ : V3), ⟨1, 0, 0⟩]).xx = (gyration [(⟨1, 0, 0⟩ : V3), ⟨2, 0, 0⟩]).xx := by
  refine ⟨by decide +kernel, by decide +kernel, by decide +kernel⟩

end MdVerif.Descr

