import MdVerif.Model.Dssp
import MdVerif.Generated.Tables
import Mathlib.Tactic.Ring
import Mathlib.Tactic.Linarith
/-!
# C15 — secondary-structure codes follow the DSSP rules on the backbone H-bonds

With `B donor acceptor` the hydrogen-bond relation reported by kabsch_sander:
* `c15_bridge_symm`      the bridge test is symmetric in its two residues (both types)
* `c15_start_iff_turn`   after the flag loop, residue i carries START or START_AND_END for stride s **iff** there is an s-turn at i
                         (bond i+s → i inside one chain): the imperative END/MIDDLE/START bookkeeping is exactly the declarative n-turn
* `c15_isTurn_spec`      a residue is inside a turn iff some s-turn (s = 3, 4, 5) starts 1 … s−1 residues before it
* `c15_turn_bend_spec`   the last pass gives T / S exactly to loop residues (not skipped, not first/last) inside a turn / with a sharp bend
* `c15_alpha_spec`       after the first helix pass a residue is H iff it lies in a minimal 4-helix (consecutive 4-turns at i−1 and i cover i … i+3) or was H before
* `c15_helix_pass_spec`  declarative form of each helix pass (alpha, 3-10, pi): a residue ends with the pass's code iff it is covered by a minimal helix
                         whose residues were all acceptable *before* the pass (loop/G for 3-10, loop/I/H for pi — pi overrides alpha); `helices_eq` instantiates it
* `c15_skip_no_bridge`   a residue lacking N, CA, C or O is never a bridge partner
* `c15_length`, `c15_na`, `c15_simplified_image`   one code per residue; incomplete residues are "NA" in both alphabets; the simplified alphabet is
                         the fixed image H,G,I→H, E,B→E, T,S,' '→C (`c15_simplify_table` re-checks it against dssp.py's table)
-/
namespace MdVerif.Dssp

theorem c15_bridge_symm (B : Nat → Nat → Bool) (chain : Nat → Nat) (n i j : Nat) : testBridge B chain n i j = testBridge B chain n j i := by
  unfold testBridge
  generalize okAt chain n i = ci
  generalize okAt chain n j = cj
  generalize B (i + 1) j = b1
  generalize B j (i - 1) = b2
  generalize B (j + 1) i = b3
  generalize B i (j - 1) = b4
  generalize B (i + 1) (j - 1) = b5
  generalize B (j + 1) (i - 1) = b6
  generalize B j i = b7
  generalize B i j = b8
  cases ci <;> cases cj <;> cases b1 <;> cases b2 <;> cases b3 <;> cases b4 <;> cases b5 <;> cases b6 <;> cases b7 <;> cases b8 <;> rfl

/-! ### helix flags = n-turns -/

theorem getD_mapIdx {α : Type} (l : List α) (f : Nat → α → α) (i : Nat) (d : α) :
    (l.mapIdx f).getD i d = if i < l.length then f i (l.getD i d) else d := by
  simp only [List.getD_eq_getElem?_getD, List.getElem?_mapIdx]
  by_cases h : i < l.length
  · simp [h]
  · have : l[i]? = none := by simp; omega
    simp [h, this]

/-- the declarative n-turn: a hydrogen bond from residue i+s to residue i inside one chain -/
def turn (B : Nat → Nat → Bool) (chain : Nat → Nat) (n s i : Nat) : Bool := decide (i + s < n) && B (i + s) i && chain i == chain (i + s)

theorem isStart_ite (p : Prop) [Decidable p] : (if p then HF.startEnd else HF.start).isStart = true := by split <;> rfl

theorem flagStep_length (B : Nat → Nat → Bool) (chain : Nat → Nat) (n s : Nat) (fl : List HF) (i : Nat) : (flagStep B chain n s fl i).length = fl.length := by
  unfold flagStep setIf; split <;> simp

theorem flagStep_spec (B : Nat → Nat → Bool) (chain : Nat → Nat) (n s : Nat) (hs : 1 ≤ s) (fl : List HF) (k : Nat) (hlen : fl.length = n)
    (hinv : ∀ x, startAt fl x = (decide (x < k) && turn B chain n s x)) :
    ∀ x, startAt (flagStep B chain n s fl k) x = (decide (x < k + 1) && turn B chain n s x) := by
  intro x
  unfold flagStep
  by_cases ht : turn B chain n s k = true
  · have ht' : (decide (k + s < n) && B (k + s) k && chain k == chain (k + s)) = true := ht
    simp only [ht', if_true]
    have hkn : k + s < n := by
      simp only [turn, Bool.and_eq_true, decide_eq_true_eq] at ht; exact ht.1.1
    simp only [startAt, setIf, getD_mapIdx, List.length_mapIdx, hlen]
    by_cases hxk : x = k
    · subst hxk
      have : x < n := by omega
      simp only [this, if_true, beq_self_eq_true]
      have hlt : decide (x < x + 1) = true := by simp
      rw [hlt, ht, Bool.true_and]
      first | exact isStart_ite _ | simp [isStart_ite]
    · have hne : (x == k) = false := by simpa using hxk
      by_cases hxn : x < n
      · simp only [hxn, if_true, hne, Bool.false_eq_true, if_false]
        by_cases hxs : x = k + s
        · subst hxs
          simp only [beq_self_eq_true, if_true]
          have : ¬ (k + s < k + 1) := by omega
          simp [HF.isStart, this]
        · have hne2 : (x == k + s) = false := by simpa using hxs
          simp only [hne2, Bool.false_eq_true, if_false]
          have old := hinv x
          simp only [startAt] at old
          by_cases hmid : (k < x ∧ x < k + s) ∧ fl.getD x HF.none = HF.none
          · have c : (decide (k < x) && decide (x < k + s) && (fl.getD x HF.none == HF.none)) = true := by
              rw [hmid.2]; simp [hmid.1.1, hmid.1.2]
            simp only [c, if_true]
            have : ¬ (x < k + 1) := by omega
            simp [HF.isStart, this]
          · have c : (decide (k < x) && decide (x < k + s) && (fl.getD x HF.none == HF.none)) = false := by
              by_contra hc
              simp only [Bool.not_eq_false, Bool.and_eq_true, decide_eq_true_eq, beq_iff_eq] at hc
              exact hmid ⟨⟨hc.1.1, hc.1.2⟩, hc.2⟩
            simp only [c, Bool.false_eq_true, if_false]
            rw [old]
            have : decide (x < k + 1) = decide (x < k) := by
              have : (x < k + 1) ↔ (x < k) := by omega
              simp [this]
            rw [this]
      · simp only [hxn, if_false]
        have : turn B chain n s x = false := by
          simp only [turn]
          have : ¬ (x + s < n) := by omega
          simp [this]
        simp [HF.isStart, this]
  · have ht0 : turn B chain n s k = false := by simpa using ht
    have ht' : (decide (k + s < n) && B (k + s) k && chain k == chain (k + s)) = false := ht0
    simp only [ht', Bool.false_eq_true, if_false]
    rw [hinv x]
    by_cases hxk : x = k
    · subst hxk; simp [ht0]
    · have : decide (x < k + 1) = decide (x < k) := by
        have : (x < k + 1) ↔ (x < k) := by omega
        simp [this]
      rw [this]

theorem helixFlags_inv (B : Nat → Nat → Bool) (chain : Nat → Nat) (n s : Nat) (hs : 1 ≤ s) : ∀ k,
    ((List.range k).foldl (flagStep B chain n s) (List.replicate n HF.none)).length = n ∧
    ∀ x, startAt ((List.range k).foldl (flagStep B chain n s) (List.replicate n HF.none)) x = (decide (x < k) && turn B chain n s x) := by
  intro k
  induction k with
  | zero =>
    refine ⟨by simp, fun x => ?_⟩
    simp only [List.range_zero, List.foldl_nil, startAt, List.getD_eq_getElem?_getD]
    by_cases h : x < n <;> simp [h, HF.isStart]
  | succ k ih =>
    rw [List.range_succ, List.foldl_append]
    simp only [List.foldl_cons, List.foldl_nil]
    exact ⟨by rw [flagStep_length]; exact ih.1, flagStep_spec B chain n s hs _ k ih.1 ih.2⟩

/-- **the flag bookkeeping is the declarative n-turn** -/
theorem c15_start_iff_turn (B : Nat → Nat → Bool) (chain : Nat → Nat) (n s : Nat) (hs : 1 ≤ s) (i : Nat) :
    startAt (helixFlags B chain n s) i = turn B chain n s i := by
  have h := (helixFlags_inv B chain n s hs n).2 i
  unfold helixFlags
  rw [h]
  by_cases hi : i < n
  · simp [hi]
  · have : turn B chain n s i = false := by
      simp only [turn]
      have : ¬ (i + s < n) := by omega
      simp [this]
    simp [this]

theorem helixFlags_length (B : Nat → Nat → Bool) (chain : Nat → Nat) (n s : Nat) (hs : 1 ≤ s) : (helixFlags B chain n s).length = n :=
  (helixFlags_inv B chain n s hs n).1

/-- **inside a turn** = some s-turn, s ∈ {3, 4, 5}, starts 1 … s−1 residues earlier -/
theorem c15_isTurn_spec (B : Nat → Nat → Bool) (chain : Nat → Nat) (n i : Nat) :
    isTurn (helixFlags B chain n 3) (helixFlags B chain n 4) (helixFlags B chain n 5) i = true ↔
      ∃ s k, (s = 3 ∨ s = 4 ∨ s = 5) ∧ 1 ≤ k ∧ k < s ∧ k ≤ i ∧ turn B chain n s (i - k) = true := by
  simp only [isTurn, List.any_cons, List.any_nil, Bool.or_false, Bool.or_eq_true, List.any_eq_true, List.mem_range, Bool.and_eq_true,
    decide_eq_true_eq, c15_start_iff_turn B chain n 3 (by omega), c15_start_iff_turn B chain n 4 (by omega), c15_start_iff_turn B chain n 5 (by omega)]
  constructor
  · rintro (⟨k, hk, ⟨h1, h2⟩, h3⟩ | ⟨k, hk, ⟨h1, h2⟩, h3⟩ | ⟨k, hk, ⟨h1, h2⟩, h3⟩)
    · exact ⟨3, k, Or.inl rfl, h1, hk, h2, h3⟩
    · exact ⟨4, k, Or.inr (Or.inl rfl), h1, hk, h2, h3⟩
    · exact ⟨5, k, Or.inr (Or.inr rfl), h1, hk, h2, h3⟩
  · rintro ⟨s, k, (rfl | rfl | rfl), h1, hk, h2, h3⟩
    · exact Or.inl ⟨k, hk, ⟨h1, h2⟩, h3⟩
    · exact Or.inr (Or.inl ⟨k, hk, ⟨h1, h2⟩, h3⟩)
    · exact Or.inr (Or.inr ⟨k, hk, ⟨h1, h2⟩, h3⟩)

/-- **turns and bends**: the last pass changes exactly the loop residues that are not skipped and not the first or last -/
theorem c15_turn_bend_spec (f3 f4 f5 : List HF) (chain : Nat → Nat) (skip kappa : Nat → Bool) (n : Nat) (sec : List SS) (i : Nat) (hi : i < sec.length) :
    (turnsBends f3 f4 f5 chain skip kappa n sec).getD i .loop =
      if 1 ≤ i ∧ i + 1 < n ∧ sec.getD i .loop = .loop ∧ skip i = false then
        (if isTurn f3 f4 f5 i = true then .turn else if bendOK chain skip n i = true ∧ kappa i = true then .bend else .loop)
      else sec.getD i .loop := by
  simp only [turnsBends, getD_mapIdx, hi, if_true]
  generalize sec.getD i SS.loop = v
  by_cases h1 : 1 ≤ i <;> by_cases h2 : i + 1 < n <;> cases v <;> cases hs : skip i <;> simp [h1, h2, hs, Bool.and_eq_true]

theorem fillIf_length (sec : List SS) (lo len : Nat) (ok : SS → Bool) (ss : SS) : (fillIf sec lo len ok ss).length = sec.length := by
  unfold fillIf; split <;> simp

/-- the alpha pass over residues `< k` -/
def alphaPass (f4 : List HF) (n : Nat) (sec : List SS) (k : Nat) : List SS :=
  (List.range k).foldl (fun sec i =>
    if 1 ≤ i && i + 4 < n && startAt f4 i && startAt f4 (i - 1) then fillIf sec i 4 (fun _ => true) .alpha else sec) sec

/-- **minimal alpha helices**: after the pass a residue is H iff it was H or lies in i … i+3 for consecutive 4-turn starts at i−1 and i -/
theorem c15_alpha_spec (f4 : List HF) (n : Nat) (sec : List SS) (k : Nat) :
    (alphaPass f4 n sec k).length = sec.length ∧
    ∀ j, j < sec.length → ((alphaPass f4 n sec k).getD j .loop = .alpha ↔
      (sec.getD j .loop = .alpha ∨ ∃ i, i < k ∧ 1 ≤ i ∧ i + 4 < n ∧ startAt f4 i = true ∧ startAt f4 (i - 1) = true ∧ i ≤ j ∧ j < i + 4)) ∧
      ((alphaPass f4 n sec k).getD j .loop ≠ .alpha → (alphaPass f4 n sec k).getD j .loop = sec.getD j .loop) := by
  induction k with
  | zero => simp [alphaPass]
  | succ k ih =>
    obtain ⟨hl, hj⟩ := ih
    have hstep : alphaPass f4 n sec (k + 1) =
        (if 1 ≤ k && k + 4 < n && startAt f4 k && startAt f4 (k - 1) then fillIf (alphaPass f4 n sec k) k 4 (fun _ => true) .alpha else alphaPass f4 n sec k) := by
      simp [alphaPass, List.range_succ, List.foldl_append]
    rw [hstep]
    by_cases hc : (decide (1 ≤ k) && decide (k + 4 < n) && startAt f4 k && startAt f4 (k - 1)) = true
    · simp only [hc, if_true]
      have hall : (List.range 4).all (fun t => (fun _ : SS => true) ((alphaPass f4 n sec k).getD (k + t) .loop)) = true := by simp
      simp only [Bool.and_eq_true, decide_eq_true_eq] at hc
      obtain ⟨⟨⟨c1, c2⟩, c3⟩, c4⟩ := hc
      refine ⟨by rw [fillIf_length]; exact hl, fun j hjl => ?_⟩
      have hjl' : j < (alphaPass f4 n sec k).length := by rw [hl]; exact hjl
      simp only [fillIf, hall, if_true, getD_mapIdx, hjl']
      obtain ⟨h1, h2⟩ := hj j hjl
      by_cases hin : k ≤ j ∧ j < k + 4
      · simp only [hin.1, hin.2, decide_true, Bool.and_self, if_true]
        exact ⟨⟨fun _ => Or.inr ⟨k, by omega, c1, c2, c3, c4, hin.1, hin.2⟩, fun _ => trivial⟩, fun h => absurd rfl h⟩
      · have : (decide (k ≤ j) && decide (j < k + 4)) = false := by
          by_contra hh; simp only [Bool.not_eq_false, Bool.and_eq_true, decide_eq_true_eq] at hh; exact hin hh
        simp only [this, Bool.false_eq_true, if_false]
        refine ⟨?_, h2⟩
        rw [h1]
        constructor
        · rintro (h | ⟨i, hi, r⟩)
          · exact Or.inl h
          · exact Or.inr ⟨i, by omega, r⟩
        · rintro (h | ⟨i, hi, r1, r2, r3, r4, r5, r6⟩)
          · exact Or.inl h
          · by_cases hik : i = k
            · subst hik; exact absurd ⟨r5, r6⟩ hin
            · exact Or.inr ⟨i, by omega, r1, r2, r3, r4, r5, r6⟩
    · have hc' : (decide (1 ≤ k) && decide (k + 4 < n) && startAt f4 k && startAt f4 (k - 1)) = false := by simpa using hc
      simp only [hc', Bool.false_eq_true, if_false]
      refine ⟨hl, fun j hjl => ?_⟩
      obtain ⟨h1, h2⟩ := hj j hjl
      refine ⟨?_, h2⟩
      rw [h1]
      constructor
      · rintro (h | ⟨i, hi, r⟩)
        · exact Or.inl h
        · exact Or.inr ⟨i, by omega, r⟩
      · rintro (h | ⟨i, hi, r1, r2, r3, r4, r5, r6⟩)
        · exact Or.inl h
        · by_cases hik : i = k
          · subst hik
            simp only [Bool.and_eq_false_iff, decide_eq_false_iff_not] at hc'
            rcases hc' with ((hx | hx) | hx) | hx
            · exact absurd r1 hx
            · exact absurd r2 hx
            · rw [r3] at hx; exact absurd hx (by decide)
            · rw [r4] at hx; exact absurd hx (by decide)
          · exact Or.inr ⟨i, by omega, r1, r2, r3, r4, r5, r6⟩

/-! ### all three helix passes at once -/

/-- one helix pass over residues `< k`: minimal helices of length `len` written as `ss` where every covered residue passes `ok` -/
def genPass (cond : Nat → Bool) (len : Nat) (ok : SS → Bool) (ss : SS) (sec : List SS) (k : Nat) : List SS :=
  (List.range k).foldl (fun sec i => if cond i then fillIf sec i len ok ss else sec) sec

/-- residue x is covered by an accepted segment starting before k -/
def covered (cond : Nat → Bool) (len : Nat) (ok : SS → Bool) (sec : List SS) (k x : Nat) : Prop :=
  ∃ i, i < k ∧ cond i = true ∧ (∀ t, t < len → ok (sec.getD (i + t) .loop) = true) ∧ i ≤ x ∧ x < i + len

/-- **declarative form of a helix pass** (alpha: `ok = true`; 3-10: loop or G; pi: loop, I or H): a residue ends as `ss` iff it is covered by a
minimal helix all of whose residues were acceptable *before the pass*; every other residue is unchanged.  The imperative pass re-tests the
evolving array; this shows the evolution never matters. -/
theorem c15_helix_pass_spec (cond : Nat → Bool) (len : Nat) (ok : SS → Bool) (ss : SS) (hok : ok ss = true) (sec : List SS) (k : Nat) :
    (genPass cond len ok ss sec k).length = sec.length ∧
    ∀ x, x < sec.length → ((covered cond len ok sec k x → (genPass cond len ok ss sec k).getD x .loop = ss) ∧
      (¬ covered cond len ok sec k x → (genPass cond len ok ss sec k).getD x .loop = sec.getD x .loop)) := by
  induction k with
  | zero =>
    refine ⟨rfl, fun x _ => ⟨fun h => ?_, fun _ => rfl⟩⟩
    obtain ⟨i, hi, _⟩ := h; omega
  | succ k ih =>
    obtain ⟨hl, hx⟩ := ih
    have hstep : genPass cond len ok ss sec (k + 1) =
        (if cond k then fillIf (genPass cond len ok ss sec k) k len ok ss else genPass cond len ok ss sec k) := by
      simp [genPass, List.range_succ, List.foldl_append]
    -- the acceptability test on the evolving array equals the test on the original array
    have hsame : ∀ y, ok ((genPass cond len ok ss sec k).getD y .loop) = ok (sec.getD y .loop) := by
      intro y
      by_cases hy : y < sec.length
      · by_cases hc : covered cond len ok sec k y
        · rw [(hx y hy).1 hc, hok]
          obtain ⟨i, _, _, hall, h1, h2⟩ := hc
          have := hall (y - i) (by omega)
          rw [show i + (y - i) = y by omega] at this
          exact this.symm
        · rw [(hx y hy).2 hc]
      · have h1 : (genPass cond len ok ss sec k).getD y .loop = .loop := by
          rw [List.getD_eq_getElem?_getD]; have : (genPass cond len ok ss sec k)[y]? = none := by simp; omega
          simp [this]
        have h2 : sec.getD y .loop = .loop := by
          rw [List.getD_eq_getElem?_getD]; have : sec[y]? = none := by simp; omega
          simp [this]
        rw [h1, h2]
    have hmono : ∀ x, covered cond len ok sec k x → covered cond len ok sec (k + 1) x := by
      rintro x ⟨i, hi, r⟩; exact ⟨i, by omega, r⟩
    rw [hstep]
    by_cases hck : cond k = true
    · simp only [hck, if_true]
      by_cases hall : (List.range len).all (fun t => ok ((genPass cond len ok ss sec k).getD (k + t) .loop)) = true
      · -- the segment at k is accepted
        have hall' : ∀ t, t < len → ok (sec.getD (k + t) .loop) = true := by
          intro t ht
          have := List.all_eq_true.mp hall t (List.mem_range.mpr ht)
          rw [hsame] at this; exact this
        refine ⟨by rw [fillIf_length]; exact hl, fun x hxl => ?_⟩
        have hxl' : x < (genPass cond len ok ss sec k).length := by rw [hl]; exact hxl
        simp only [fillIf, hall, if_true, getD_mapIdx, hxl']
        by_cases hin : k ≤ x ∧ x < k + len
        · have : (decide (k ≤ x) && decide (x < k + len)) = true := by simp [hin.1, hin.2]
          simp only [this, if_true]
          exact ⟨fun _ => trivial, fun hn => absurd ⟨k, by omega, hck, hall', hin.1, hin.2⟩ hn⟩
        · have : (decide (k ≤ x) && decide (x < k + len)) = false := by
            by_contra hh; simp only [Bool.not_eq_false, Bool.and_eq_true, decide_eq_true_eq] at hh; exact hin hh
          simp only [this, Bool.false_eq_true, if_false]
          constructor
          · rintro ⟨i, hi, r1, r2, r3, r4⟩
            by_cases hik : i = k
            · subst hik; exact absurd ⟨r3, r4⟩ hin
            · exact (hx x hxl).1 ⟨i, by omega, r1, r2, r3, r4⟩
          · intro hn
            exact (hx x hxl).2 (fun hc => hn (hmono x hc))
      · -- rejected: nothing changes, and k contributes no accepted segment
        have hall0 : (List.range len).all (fun t => ok ((genPass cond len ok ss sec k).getD (k + t) .loop)) = false := by simpa using hall
        have hrej : ¬ (∀ t, t < len → ok (sec.getD (k + t) .loop) = true) := by
          intro h
          apply hall
          apply List.all_eq_true.mpr
          intro t ht
          rw [hsame]; exact h t (List.mem_range.mp ht)
        simp only [fillIf, hall0, Bool.false_eq_true, if_false]
        refine ⟨hl, fun x hxl => ⟨?_, ?_⟩⟩
        · rintro ⟨i, hi, r1, r2, r3, r4⟩
          by_cases hik : i = k
          · subst hik; exact absurd r2 hrej
          · exact (hx x hxl).1 ⟨i, by omega, r1, r2, r3, r4⟩
        · intro hn; exact (hx x hxl).2 (fun hc => hn (hmono x hc))
    · have hck' : cond k = false := by simpa using hck
      simp only [hck', Bool.false_eq_true, if_false]
      refine ⟨hl, fun x hxl => ⟨?_, ?_⟩⟩
      · rintro ⟨i, hi, r1, r2, r3, r4⟩
        by_cases hik : i = k
        · subst hik; rw [hck'] at r1; exact absurd r1 (by decide)
        · exact (hx x hxl).1 ⟨i, by omega, r1, r2, r3, r4⟩
      · intro hn; exact (hx x hxl).2 (fun hc => hn (hmono x hc))

/-- the three passes of `helices` are instances of `genPass` -/
theorem helices_eq (f3 f4 f5 : List HF) (n : Nat) (sec : List SS) :
    helices f3 f4 f5 n sec =
      genPass (fun i => 1 ≤ i && i + 5 < n && startAt f5 i && startAt f5 (i - 1)) 5 (fun s => s == .loop || s == .helix5 || s == .alpha) .helix5
        (genPass (fun i => 1 ≤ i && i + 3 < n && startAt f3 i && startAt f3 (i - 1)) 3 (fun s => s == .loop || s == .helix3) .helix3
          (genPass (fun i => 1 ≤ i && i + 4 < n && startAt f4 i && startAt f4 (i - 1)) 4 (fun _ => true) .alpha sec n) n) n := by
  rfl

/-! ### skipped residues, shape, alphabets -/

def BridgeOK (skip : Nat → Bool) (b : Bridge) : Prop := (∀ x ∈ b.is, skip x = false) ∧ (∀ x ∈ b.js, skip x = false)

theorem extend_ok (skip : Nat → Bool) (t : BT) (i j : Nat) (hi : skip i = false) (hj : skip j = false) :
    ∀ (bs bs' : List Bridge), (∀ b ∈ bs, BridgeOK skip b) → extend t i j bs = some bs' → ∀ b ∈ bs', BridgeOK skip b := by
  intro bs
  induction bs with
  | nil => intro bs' _ h; simp [extend] at h
  | cons b bs ih =>
    intro bs' hall h
    have hb := hall b List.mem_cons_self
    have hrest : ∀ x ∈ bs, BridgeOK skip x := fun x hx => hall x (List.mem_cons_of_mem _ hx)
    unfold extend at h
    split at h
    · cases he : extend t i j bs with
      | none => simp [he] at h
      | some r =>
        simp [he] at h; subst h
        intro x hx
        rcases List.mem_cons.mp hx with rfl | hx
        · exact hb
        · exact ih r hrest he x hx
    · split at h
      · simp at h; subst h
        intro x hx
        rcases List.mem_cons.mp hx with rfl | hx
        · refine ⟨fun y hy => ?_, fun y hy => ?_⟩
          · rcases List.mem_append.mp hy with hy | hy
            · exact hb.1 y hy
            · simp at hy; subst hy; exact hi
          · rcases List.mem_append.mp hy with hy | hy
            · exact hb.2 y hy
            · simp at hy; subst hy; exact hj
        · exact hrest x hx
      · split at h
        · simp at h; subst h
          intro x hx
          rcases List.mem_cons.mp hx with rfl | hx
          · refine ⟨fun y hy => ?_, fun y hy => ?_⟩
            · rcases List.mem_append.mp hy with hy | hy
              · exact hb.1 y hy
              · simp at hy; subst hy; exact hi
            · rcases List.mem_cons.mp hy with rfl | hy
              · exact hj
              · exact hb.2 y hy
          · exact hrest x hx
        · cases he : extend t i j bs with
          | none => simp [he] at h
          | some r =>
            simp [he] at h; subst h
            intro x hx
            rcases List.mem_cons.mp hx with rfl | hx
            · exact hb
            · exact ih r hrest he x hx

/-- **an incomplete residue is never a bridge partner** -/
theorem c15_skip_no_bridge (B : Nat → Nat → Bool) (chain : Nat → Nat) (skip : Nat → Bool) (n : Nat) :
    ∀ b ∈ collect B chain skip n, BridgeOK skip b := by
  unfold collect
  suffices h : ∀ (l : List Nat) (bs : List Bridge), (∀ b ∈ bs, BridgeOK skip b) → ∀ b ∈ l.foldl (fun bs i =>
      if i < 1 || ¬ (i + 4 < n) then bs else
      (List.range n).foldl (fun bs j =>
        if j < i + 3 || ¬ (j + 1 < n) then bs else
        let t := testBridge B chain n j i
        if t == .none || skip i || skip j then bs else
        match extend t i j bs with
        | some bs' => bs'
        | none => bs ++ [{ type := t, is := [i], js := [j], chainI := chain i, chainJ := chain j }]) bs) bs, BridgeOK skip b from
    h (List.range n) [] (by simp)
  intro l
  induction l with
  | nil => intro bs h; simpa using h
  | cons i is ih =>
    intro bs hbs
    simp only [List.foldl_cons]
    apply ih
    split
    · exact hbs
    · -- inner loop
      suffices g : ∀ (l2 : List Nat) (bs : List Bridge), (∀ b ∈ bs, BridgeOK skip b) → ∀ b ∈ l2.foldl (fun bs j =>
          if j < i + 3 || ¬ (j + 1 < n) then bs else
          let t := testBridge B chain n j i
          if t == .none || skip i || skip j then bs else
          match extend t i j bs with
          | some bs' => bs'
          | none => bs ++ [{ type := t, is := [i], js := [j], chainI := chain i, chainJ := chain j }]) bs, BridgeOK skip b from
        g (List.range n) bs hbs
      intro l2
      induction l2 with
      | nil => intro bs h; simpa using h
      | cons j js ih2 =>
        intro bs hbs
        simp only [List.foldl_cons]
        apply ih2
        split
        · exact hbs
        · split
          · exact hbs
          · rename_i hcond
            simp only [Bool.or_eq_true, not_or, Bool.not_eq_true] at hcond
            obtain ⟨⟨_, hsi⟩, hsj⟩ := hcond
            split
            · rename_i bs' he
              exact extend_ok skip _ i j hsi hsj bs bs' hbs he
            · intro b hb
              rcases List.mem_append.mp hb with hb | hb
              · exact hbs b hb
              · simp at hb; subst hb
                exact ⟨by simp [hsi], by simp [hsj]⟩

theorem turnsBends_length (f3 f4 f5 : List HF) (chain : Nat → Nat) (skip kappa : Nat → Bool) (n : Nat) (sec : List SS) :
    (turnsBends f3 f4 f5 chain skip kappa n sec).length = sec.length := by simp [turnsBends]

theorem foldl_fill_length (n : Nat) (g : Nat → List SS → List SS) (hg : ∀ i s, (g i s).length = s.length) (l : List Nat) (sec : List SS) :
    (l.foldl (fun s i => g i s) sec).length = sec.length := by
  induction l generalizing sec with
  | nil => rfl
  | cons i is ih => simp only [List.foldl_cons]; rw [ih, hg]

theorem helices_length (f3 f4 f5 : List HF) (n : Nat) (sec : List SS) : (helices f3 f4 f5 n sec).length = sec.length := by
  unfold helices
  rw [foldl_fill_length n (fun i sec => if 1 ≤ i && i + 5 < n && startAt f5 i && startAt f5 (i - 1) then fillIf sec i 5 (fun s => s == .loop || s == .helix5 || s == .alpha) .helix5 else sec)
      (fun i s => by split <;> simp [fillIf_length]),
    foldl_fill_length n (fun i sec => if 1 ≤ i && i + 3 < n && startAt f3 i && startAt f3 (i - 1) then fillIf sec i 3 (fun s => s == .loop || s == .helix3) .helix3 else sec)
      (fun i s => by split <;> simp [fillIf_length]),
    foldl_fill_length n (fun i sec => if 1 ≤ i && i + 4 < n && startAt f4 i && startAt f4 (i - 1) then fillIf sec i 4 (fun _ => true) .alpha else sec)
      (fun i s => by split <;> simp [fillIf_length])]

theorem markBridges_length (sec : List SS) (bs : List Bridge) : (markBridges sec bs).length = sec.length := by
  unfold markBridges
  induction bs generalizing sec with
  | nil => rfl
  | cons b bs ih => simp only [List.foldl_cons]; rw [ih]; simp [setRange]

/-- **one code per residue** -/
theorem c15_length (B : Nat → Nat → Bool) (chain : Nat → Nat) (skip kappa : Nat → Bool) (n : Nat) (simplified : Bool) :
    (computeDssp B chain skip kappa n simplified).length = n := by
  simp only [computeDssp, dsspFrame, List.length_mapIdx, turnsBends_length, helices_length, betaSheets, markBridges_length, List.length_replicate]

/-- **incomplete residues are "NA"**, in both alphabets, and only they -/
theorem c15_na (B : Nat → Nat → Bool) (chain : Nat → Nat) (skip kappa : Nat → Bool) (n : Nat) (simplified : Bool) (i : Nat) (hi : i < n) :
    ((computeDssp B chain skip kappa n simplified).getD i "" = "NA") ↔ skip i = true := by
  have hlen : (dsspFrame B chain skip kappa n).length = n := by
    simp only [dsspFrame, turnsBends_length, helices_length, betaSheets, markBridges_length, List.length_replicate]
  simp only [computeDssp, List.getD_eq_getElem?_getD, List.getElem?_mapIdx]
  have : (dsspFrame B chain skip kappa n)[i]? = some ((dsspFrame B chain skip kappa n)[i]'(by rw [hlen]; exact hi)) := List.getElem?_eq_getElem _
  rw [this]
  simp only [Option.map_some, Option.getD_some]
  by_cases hs : skip i = true
  · simp [hs]
  · simp only [hs, Bool.false_eq_true, if_false, iff_false]
    intro h
    have := congrArg String.length h
    rw [String.length_singleton] at this
    exact absurd this (by decide)

/-- **the simplified alphabet is the fixed three-letter image** -/
theorem c15_simplified_image (s : SS) :
    simplify s.code = (match s with | .alpha | .helix3 | .helix5 => 'H' | .strand | .bridge => 'E' | .turn | .bend | .loop => 'C') := by
  cases s <;> rfl

/-- dssp.py's SIMPLIFIED_CODE_TRANSLATION (regenerated from the source on every run) is this map -/
theorem c15_simplify_table : ∀ p ∈ MdVerif.Generated.dsspSimplified, simplify p.1 = p.2 := by decide

/-- non-vacuity: an i+4→i ladder of hydrogen bonds over twelve residues gives a helix with loop ends -/
example : (computeDssp (fun d a => d == a + 4 && a < 8) (fun _ => 0) (fun _ => false) (fun _ => false) 12 false)
    = [" ", "H", "H", "H", "H", "H", "H", "H", "H", "H", "H", " "] := by decide +kernel

end MdVerif.Dssp
