import MdVerif.Proofs.TextRecordLemmas
import MdVerif.Proofs.DcdLemmas
import MdVerif.Proofs.XdrLemmas
import MdVerif.Model.Formats
import MdVerif.Proofs.MicLemmas
import MdVerif.Proofs.TextLemmas
import Mathlib.Tactic.Ring
import Mathlib.Tactic.Linarith
import Mathlib.Tactic.FieldSimp
import Mathlib.Tactic.Positivity
/-!
# C01 — save then load reproduces the trajectory, in every writable format

* `c01_unit_roundtrip`     converting to the file's native unit and back is the identity (no factor cancels "on the way back" only)
* `c01_fixed_error`, `c01_fixed_idempotent`   a p-decimal text field is within 10⁻ᵖ/2 of the value and re-saving a loaded value changes nothing
* `c01_xtc_error`          the XTC quantisation is within 0.0005 nm
* `c01_loaded_error`       for every format, atom count and gro precision: |loaded − x| ≤ precision (0 for the float32 formats and for XTC frames of ≤ 9 atoms)
* `c01_stored_native`      text formats hold exactly the p-decimal rounding of the value in native units
-/
namespace MdVerif.Fmt
open MdVerif.Mic

theorem pow10_pos (p : Nat) : 0 < pow10 p := by unfold pow10; positivity

theorem unitFactor_pos (f : F) : 0 < unitFactor f := by cases f <;> simp [unitFactor]

theorem c01_unit_roundtrip (f : F) (x : Rat) : fromNative f (toNative f x) = x := by
  have := unitFactor_pos f
  simp only [fromNative, toNative]; field_simp

/-- **a p-decimal field is within half a unit of the last place** -/
theorem c01_fixed_error (p : Nat) (x : Rat) : |fixedQ p x - x| ≤ 1 / (2 * pow10 p) := by
  have hp := pow10_pos p
  have h := roundHE_nearest (x * pow10 p)
  have e : fixedQ p x - x = -((x * pow10 p - (roundHE (x * pow10 p) : Rat)) / pow10 p) := by
    simp only [fixedQ]; field_simp; ring
  rw [e, abs_neg, abs_div, abs_of_pos hp, div_le_iff₀ hp]
  calc |x * pow10 p - (roundHE (x * pow10 p) : Rat)| ≤ 1 / 2 := h
    _ = 1 / (2 * pow10 p) * pow10 p := by field_simp

theorem roundHE_int (n : Int) : roundHE (n : Rat) = n := by
  have h := roundHE_nearest (n : Rat)
  have h2 : |((n - roundHE (n : Rat) : Int) : Rat)| ≤ 1 / 2 := by push_cast; exact h
  have h3 : |((n - roundHE (n : Rat) : Int) : Rat)| < 1 := lt_of_le_of_lt h2 (by norm_num)
  have h4 : |n - roundHE (n : Rat)| < 1 := by exact_mod_cast h3
  have : n - roundHE (n : Rat) = 0 := Int.abs_lt_one_iff.mp h4
  omega

/-- **saving a loaded value again reproduces it exactly** -/
theorem c01_fixed_idempotent (p : Nat) (x : Rat) : fixedQ p (fixedQ p x) = fixedQ p x := by
  have hp := pow10_pos p
  have e : fixedQ p x * pow10 p = (roundHE (x * pow10 p) : Rat) := by simp only [fixedQ]; field_simp
  simp only [fixedQ] at e ⊢
  rw [e, roundHE_int]

theorem c01_xtc_error (x : Rat) : |xtcQ x - x| ≤ 1 / 2000 := by
  have h := roundHA_nearest (x * 1000)
  have e : xtcQ x - x = -((x * 1000 - (roundHA (x * 1000) : Rat)) / 1000) := by simp only [xtcQ]; ring
  rw [e, abs_neg, abs_div, abs_of_pos (by norm_num : (0 : Rat) < 1000), div_le_iff₀ (by norm_num : (0 : Rat) < 1000)]
  linarith

/-- **every format**: the value read back is within the format's stated precision of the value saved -/
theorem c01_loaded_error (f : F) (g n : Nat) (x : Rat) : |loaded f g n x - x| ≤ precision f g n := by
  have hu := unitFactor_pos f
  by_cases hx : f = .xtc
  · subst hx
    simp only [loaded, stored, precision, fromNative, unitFactor, div_one]
    split
    · simp
    · exact c01_xtc_error x
  · cases hd : decimals g f with
    | none =>
      have : loaded f g n x = x := by
        cases f <;> simp_all [loaded, stored, decimals] <;> exact c01_unit_roundtrip _ x
      have hp : precision f g n = 0 := by cases f <;> simp_all [precision, decimals]
      rw [this, hp]; simp
    | some p =>
      have hl : loaded f g n x = fixedQ p (toNative f x) / unitFactor f := by
        cases f <;> simp_all [loaded, stored, decimals, fromNative]
      have hp : precision f g n = 1 / (2 * pow10 p * unitFactor f) := by
        cases f <;> simp_all [precision, decimals]
      rw [hl, hp]
      have e : fixedQ p (toNative f x) / unitFactor f - x = (fixedQ p (toNative f x) - toNative f x) / unitFactor f := by
        simp only [toNative]; field_simp
      rw [e, abs_div, abs_of_pos hu, div_le_iff₀ hu]
      have := c01_fixed_error p (toNative f x)
      have hp10 := pow10_pos p
      calc |fixedQ p (toNative f x) - toNative f x| ≤ 1 / (2 * pow10 p) := this
        _ = 1 / (2 * pow10 p * unitFactor f) * unitFactor f := by field_simp

/-- **native layout**: a text format holds exactly the p-decimal rounding of the coordinate in its native unit -/
theorem c01_stored_native (f : F) (g n p : Nat) (x : Rat) (hf : f ≠ .xtc) (hd : decimals g f = some p) :
    stored f g n x = fixedQ p (x * unitFactor f) := by
  cases f <;> simp_all [stored, decimals, toNative]

/-- restart file suffixes of a 12-frame trajectory: two digits, zero padded, counted from 1 (the general statement is checked against the
files mdtraj writes by the correspondence run) -/
example : (List.range 12).map (fun i => String.ofList (restartSuffix 12 i)) = ["01", "02", "03", "04", "05", "06", "07", "08", "09", "10", "11", "12"] := by
  decide +kernel

/-- non-vacuity: 1.23456 nm in a .pdb (angstrom, three decimals) is stored as 12.346 and read back as 1.2346 -/
example : stored .pdb 3 20 (123456 / 100000) = 12346 / 1000 ∧ loaded .pdb 3 20 (123456 / 100000) = 12346 / 10000 := by
  decide +kernel

end MdVerif.Fmt

/-! ## digit level: the text the writers emit and the readers scan (Model/TextFmt.lean) -/
namespace MdVerif.Txt
open MdVerif.Mic MdVerif.Fmt

theorem c01_field_roundtrip (w p : Nat) (x : Rat) : parseField (fmtFixed w p x) = some (fixedQ p x) := by
  have hp : 0 < pow10 p := by unfold pow10; positivity
  have hq : (0 : Nat) < 10 ^ p := by positivity
  set m := (scaled p x).natAbs with hm
  have hu : parseUnsigned ((natDigits (m / 10 ^ p)).map digitChar ++ '.' :: (fracDigits p (m % 10 ^ p)).map digitChar)
      = some ((m : Rat) / pow10 p) := by
    rw [parseUnsigned_digits _ _ (natDigits_lt _) (fracDigits_lt _ _) (natDigits_ne_nil _)]
    rw [ofDigits_natDigits, ofDigits_fracDigits, fracDigits_length, Nat.mod_mod]
    have := natdiv_add_mod_cast m (10 ^ p) hq
    have e : ((10 ^ p : Nat) : Rat) = pow10 p := by unfold pow10; push_cast; rfl
    rw [e] at this
    rw [this]
  unfold parseField fmtFixed padLeft
  rw [dropWhile_replicate_blank _ _ (fixedBody_head p x)]
  have hs := scaled_sign p x
  unfold fixedBody
  by_cases hx : x < 0
  · simp only [hx, if_true, List.cons_append, List.nil_append]
    rw [← hm, hu]
    simp only [Option.map_some, fixedQ]
    have : ((scaled p x : Int) : Rat) = -((m : Nat) : Rat) := by
      have h0 := hs.1 hx
      have : (scaled p x) = -((m : Nat) : Int) := by omega
      rw [this]; push_cast; ring
    unfold scaled at this
    rw [this]; congr 1; ring
  · simp only [hx, if_false, List.nil_append]
    rw [← hm]
    have hne := natDigits_ne_nil (m / 10 ^ p)
    cases hd : natDigits (m / 10 ^ p) with
    | nil => exact absurd hd hne
    | cons a l =>
      have ha : a < 10 := natDigits_lt _ a (by rw [hd]; simp)
      have hnm : digitChar a ≠ '-' := (digitChar_props a ha).2.2.2.1
      rw [hd] at hu
      simp only [List.map_cons, List.cons_append] at hu ⊢
      split
      · rename_i r heq
        simp at heq
        exact absurd heq.1 hnm
      · rename_i r heq
        rw [hu]
        simp only [fixedQ]
        have : ((scaled p x : Int) : Rat) = ((m : Nat) : Rat) := by
          have h0 := hs.2 (not_lt.mp hx)
          have : (scaled p x) = ((m : Nat) : Int) := by omega
          rw [this]; push_cast; ring
        unfold scaled at this
        rw [this]

theorem c01_field_width (w p : Nat) (x : Rat) : (fmtFixed w p x).length = max w (fixedBody p x).length := by
  unfold fmtFixed padLeft
  simp only [List.length_append, List.length_replicate]
  omega

/-- **which values fit**: the integer part may use the columns left by the sign, the point and the decimals -/
theorem c01_fits_iff (w p : Nat) (x : Rat) (hw : p + 3 ≤ w) :
    Fits w p x ↔ (scaled p x).natAbs < 10 ^ (w - p - 1 - (if x < 0 then 1 else 0)) * 10 ^ p := by
  unfold Fits
  rw [fixedBody_length]
  have hq : (0 : Nat) < 10 ^ p := by positivity
  by_cases hx : x < 0
  · simp only [hx, if_true]
    have := natDigits_length_le ((scaled p x).natAbs / 10 ^ p) (w - p - 1 - 1) (by omega)
    rw [← Nat.div_lt_iff_lt_mul hq, ← this]; omega
  · simp only [hx, if_false]
    have := natDigits_length_le ((scaled p x).natAbs / 10 ^ p) (w - p - 1 - 0) (by omega)
    rw [← Nat.div_lt_iff_lt_mul hq, ← this]; omega

theorem c01_fixed_line_roundtrip (w p : Nat) (xs : List Rat) (hw : 0 < w) (hf : ∀ x ∈ xs, Fits w p x) :
    parseFixedLine w (renderFixedLine w p xs) = some (xs.map (fixedQ p)) := by
  unfold parseFixedLine renderFixedLine
  induction xs with
  | nil => simp [chunks_nil]
  | cons x xs ih =>
    have hx := hf x (by simp)
    have ih' := ih (fun y hy => hf y (by simp [hy]))
    simp only [List.map_cons, List.flatten_cons]
    rw [chunks_append w _ _ (fits_length w p x hx) hw]
    simp only [List.mapM_cons, c01_field_roundtrip, ih']
    rfl

/-- **an .mdcrd coordinate block reads back as the three-decimal rounding of every value**, provided each value fits its eight columns
(the writer raises "Overflow error" otherwise, see `c01_mdcrd_overflow_detected`) -/
theorem c01_mdcrd_frame_roundtrip (xs : List Rat) (hf : ∀ x ∈ xs, Fits 8 3 x) :
    mdcrdParse (mdcrdFrame xs) = some (xs.map (fixedQ 3)) := by
  unfold mdcrdParse mdcrdFrame
  have key : ∀ gs : List (List Rat), (∀ g ∈ gs, ∀ x ∈ g, Fits 8 3 x) →
      ((gs.map (renderFixedLine 8 3)).mapM (parseFixedLine 8)) = some (gs.map (List.map (fixedQ 3))) := by
    intro gs
    induction gs with
    | nil => intro _; rfl
    | cons g gs ih =>
      intro h
      have h1 := c01_fixed_line_roundtrip 8 3 g (by norm_num) (h g (by simp))
      have h2 := ih (fun g' hg' => h g' (by simp [hg']))
      simp only [List.map_cons, List.mapM_cons, h1, h2]
      rfl
  rw [key _ (fun g hg x hx => hf x ((groupsOf_mem 10 xs g hg).1 x hx))]
  simp only [Option.map_some]
  rw [← List.map_flatten, groupsOf_flatten 10 (by norm_num)]

/-- every line of the block holds at most ten fields, i.e. at most 80 columns -/
theorem c01_mdcrd_line_width (xs : List Rat) (hf : ∀ x ∈ xs, Fits 8 3 x) : ∀ l ∈ mdcrdFrame xs, l.length ≤ 80 ∧ l ≠ [] := by
  intro l hl
  unfold mdcrdFrame at hl
  rcases List.mem_map.mp hl with ⟨g, hg, rfl⟩
  have hm := groupsOf_mem 10 xs g hg
  have hlen : ∀ g : List Rat, (∀ x ∈ g, Fits 8 3 x) → (renderFixedLine 8 3 g).length = 8 * g.length := by
    intro g
    induction g with
    | nil => intro _; simp [renderFixedLine]
    | cons a g ih =>
      intro h
      have ha : (fmtFixed 8 3 a).length = 8 := by
        rw [c01_field_width]; have := h a (by simp); unfold Fits at this; omega
      have := ih (fun y hy => h y (by simp [hy]))
      simp only [renderFixedLine, List.map_cons, List.flatten_cons, List.length_append, ha] at this ⊢
      simp only [List.length_cons]; omega
  have := hlen g (fun x hx => hf x (hm.1 x hx))
  constructor
  · rw [this]; have := hm.2.1; omega
  · intro e
    have h0 : g.length = 0 := by
      rw [e] at this; simp only [List.length_nil] at this; omega
    exact hm.2.2 (List.length_eq_zero_iff.mp h0)

/-- the writer's overflow test `len(out) > 8` fires exactly for the values that do not fit -/
theorem c01_mdcrd_overflow_detected (x : Rat) : 8 < (fmtFixed 8 3 x).length ↔ ¬ Fits 8 3 x := by
  rw [c01_field_width]; unfold Fits; omega

theorem c01_pdb83_width (x : Rat) (s : List Char) (h : pdb83 x = some s) : s.length = 8 := by
  unfold pdb83 at h
  have hw := c01_field_width 8 3 x
  by_cases h1 : (fmtFixed 8 3 x).length = 8
  · simp [h1] at h; rw [← h]; exact h1
  · simp only [h1, if_false] at h
    split at h
    · simp at h; rw [← h, List.length_take]; omega
    · simp at h

theorem c01_pdb83_fits (x : Rat) (h : Fits 8 3 x) : (pdb83 x).bind parseField = some (fixedQ 3 x) := by
  unfold pdb83
  have : (fmtFixed 8 3 x).length = 8 := by rw [c01_field_width]; unfold Fits at h; omega
  simp [this, c01_field_roundtrip]

/-- **blank-separated records** (`.xyz`, `.lammpstrj`, the mdcrd box line): whatever the magnitudes, `line.split()` recovers every field,
because a separator is always written -/
theorem c01_spaced_roundtrip (w p : Nat) (xs : List Rat) : parseTokens (renderSpaced w p xs) = some (xs.map (fixedQ p)) := by
  unfold parseTokens
  rw [splitWs_renderSpaced]
  induction xs with
  | nil => rfl
  | cons x xs ih =>
    have := c01_field_roundtrip 0 p x
    rw [fmtFixed_zero] at this
    simp only [List.map_cons, List.mapM_cons, this, ih]
    rfl

/-! ### whole records: the PDB ATOM line and the .gro atom line (Model/TextRecords.lean) -/

/-- **the ATOM record is 80 columns wide** whenever it can be written (the coordinates fit `_format_83`, the B-factor fits '%5.2f'): for every
serial number, every atom / residue / segment name, every residue number — what the writer asserts before printing the line -/
theorem c01_pdb_line_width (a : PdbAtom) (l : List Char) (h : pdbAtomLine a = some l) (hb : (fmtFixed 5 2 a.bfactor).length ≤ 5) :
    l.length = 80 := by
  unfold pdbAtomLine at h
  cases hx : pdb83 a.x with
  | none => simp [hx] at h
  | some fx =>
    cases hy : pdb83 a.y with
    | none => simp [hx, hy] at h
    | some fy =>
      cases hz : pdb83 a.z with
      | none => simp [hx, hy, hz] at h
      | some fz =>
        simp only [hx, hy, hz, Option.bind_eq_bind, Option.bind_some, Option.pure_def, Option.some.injEq] at h
        rw [← h]
        have e1 := fmtInt_serial_length a.serial
        have e2 := padRight_length 4 _ (pdbAtomName_length a.name a.symbol.length)
        have e3 := padLeft_length 3 (a.resName.take 3) (by simp)
        have e4 := fmtInt_resseq_length a.resSeq
        have e5 := c01_pdb83_width a.x fx hx
        have e6 := c01_pdb83_width a.y fy hy
        have e7 := c01_pdb83_width a.z fz hz
        have e8 := padLeft_length 5 _ hb
        have e9 := padRight_length 4 (a.segId.take 4) (by simp)
        have e10 := padLeft_length 2 _ (takeLast_length 2 (if a.symbol.isEmpty then [' '] else a.symbol))
        simp only [List.length_append, e1, e2, e3, e4, e5, e6, e7, e8, e9, e10, List.length_cons, List.length_nil, String.length_toList]
        rfl

/-- the residue-number field: numbers up to 9999 and down to -999 are printed as they are -/
theorem c01_resseq_kept (r : Int) (h1 : -1000 < r) (h2 : r < 10000) : resseqField r = r := by
  unfold resseqField
  split
  · exact Int.emod_eq_of_lt (by omega) h2
  · have : (-r) % 1000 = -r := Int.emod_eq_of_lt (by omega) (by omega)
    omega

/-- **a .gro atom line has 20 + 3(p+5) columns** when the names fit their five columns and the coordinates their fields -/
theorem c01_gro_line_width (p : Nat) (resSeq : Int) (resName atomName : List Char) (serial : Nat) (x y z : Rat)
    (hr : -10000 < resSeq) (hn1 : resName.length ≤ 5) (hn2 : atomName.length ≤ 5)
    (hx : Fits (p + 5) p x) (hy : Fits (p + 5) p y) (hz : Fits (p + 5) p z) :
    (groAtomLine p resSeq resName atomName serial x y z).length = 20 + 3 * (p + 5) := by
  have e1 : (fmtInt 5 (if 100000 ≤ resSeq then resSeq % 100000 else resSeq)).length = 5 := by
    apply padLeft_length
    split
    · apply intBody_length_nonneg _ 5 (by decide) (Int.emod_nonneg _ (by decide))
      have := Int.emod_lt_of_pos resSeq (show (0 : Int) < 100000 by decide); omega
    · by_cases h0 : 0 ≤ resSeq
      · exact intBody_length_nonneg _ 5 (by decide) h0 (by omega)
      · have := intBody_length_neg resSeq 4 (by decide) (by omega) (by omega); omega
  have e2 := padRight_length 5 resName hn1
  have e3 := padLeft_length 5 atomName hn2
  have e4 := fmtInt_serial_length serial
  have e5 := fits_length (p + 5) p x hx
  have e6 := fits_length (p + 5) p y hy
  have e7 := fits_length (p + 5) p z hz
  simp only [groAtomLine, groField, List.length_append, e1, e2, e3, e4, e5, e6, e7]
  omega

/-- **the CRYST1 record has 71 columns** (the 70 of the format and a trailing blank) when the cell fits its fields (edges below 100000 Å, i.e. 10 µm; angles below 1000°): beyond that the
fields grow and run together — where an independent reader takes other numbers from the fixed columns -/
theorem c01_cryst1_width (a b c al be ga : Rat) (h1 : Fits 9 3 a) (h2 : Fits 9 3 b) (h3 : Fits 9 3 c)
    (h4 : Fits 7 2 al) (h5 : Fits 7 2 be) (h6 : Fits 7 2 ga) : (cryst1Line a b c al be ga).length = 71 := by
  simp only [cryst1Line, List.length_append, fits_length _ _ _ h1, fits_length _ _ _ h2, fits_length _ _ _ h3,
    fits_length _ _ _ h4, fits_length _ _ _ h5, fits_length _ _ _ h6, List.length_cons, List.length_nil, List.length_replicate]

/-- a cell edge of 200 µm takes eleven columns of its nine: the following field starts two columns late -/
theorem c01_cryst1_overflow_witness : (fmtFixed 9 3 (2000000 : Rat)).length = 11 := by decide +kernel

end MdVerif.Txt

namespace MdVerif.Txt
open MdVerif.Mic MdVerif.Fmt

/-- the box line `"{:8.3f} {:8.3f} {:8.3f}"` is read back by the peek as its three rounded lengths, whatever their magnitude -/
theorem c01_mdcrd_box_roundtrip (a b c : Rat) : mdcrdPeek (mdcrdBoxLine a b c) = some [fixedQ 3 a, fixedQ 3 b, fixedQ 3 c] := by
  have h := c01_spaced_roundtrip 8 3 [a, b, c]
  have e : renderSpaced 8 3 [a, b, c] = ' ' :: mdcrdBoxLine a b c := by
    simp [renderSpaced, mdcrdBoxLine]
  rw [e] at h
  unfold mdcrdPeek
  unfold parseTokens splitWs at h ⊢
  simpa [splitWsAux, isBlank] using h

/-- non-vacuity: −275.303 fills its eight columns exactly, −1000 Å does not fit, 9999.999 does, 10000 does not -/
example : Fits 8 3 (-275303 / 1000) ∧ ¬ Fits 8 3 (-1000) ∧ Fits 8 3 (9999999 / 1000) ∧ ¬ Fits 8 3 10000 := by decide +kernel

/-- the case repaired by 378cb2b2: a three-field coordinate line whose negative values touch is *not* a box line for the peek
(`float("-275.303-351.348")` is a `ValueError`), while the fixed-column reader recovers all three values -/
theorem c01_touching_fields_witness :
    mdcrdPeek (renderFixedLine 8 3 [-275303 / 1000, -351348 / 1000, -1]) = none ∧
    parseFixedLine 8 (renderFixedLine 8 3 [-275303 / 1000, -351348 / 1000, -1]) = some [-275303 / 1000, -351348 / 1000, -1] := by
  decide +kernel

/-- **known finding, as a theorem about the format**: the coordinate line of a one-atom frame whose fields do not touch has exactly the
shape of a box line — the peek accepts it, so a cell-less multi-frame one-atom .mdcrd cannot be told from a file with cells -/
theorem c01_counterexample_one_atom :
    mdcrdPeek (renderFixedLine 8 3 [1, 2, 3]) = some [1, 2, 3] ∧ mdcrdPeek (mdcrdBoxLine 1 2 3) = some [1, 2, 3] := by
  decide +kernel

end MdVerif.Txt

/-! ## the bytes of a .trr file (Model/Xdr.lean) -/
namespace MdVerif.Xdr

/-- **the .trr layout round trip**: for every list of frames (any number of atoms, any payload words), the bytes `write_trr` emits are read
back as exactly those frames by a reader that only follows the sizes announced in each header -/
theorem c01_trr_roundtrip (fs : List Frame) (h : ∀ f ∈ fs, f.WF) : readTrr (writeTrr fs) = some fs := by
  have hb : ∀ w ∈ fs.flatMap renderFrame, w < 4294967296 := by
    intro w hw
    obtain ⟨f, hf, hwf⟩ := List.mem_flatMap.mp hw
    exact render_words_bound f (h f hf) w hwf
  simp only [readTrr, writeTrr, toWords_bytesOfWords _ hb, Option.bind_some]
  exact parseAll_render fs h _ (by have := flatMap_render_length fs; omega)


/-- two different frame lists give different files: whatever differs (a transposed box, a shifted column) is in the bytes -/
theorem c01_trr_injective (fs gs : List Frame) (hf : ∀ f ∈ fs, f.WF) (hg : ∀ f ∈ gs, f.WF) (h : writeTrr fs = writeTrr gs) : fs = gs := by
  have a := c01_trr_roundtrip fs hf
  have b := c01_trr_roundtrip gs hg
  rw [h, b] at a
  exact (Option.some.inj a).symm

theorem bytesOfWords_length (ws : List Nat) : (bytesOfWords ws).length = 4 * ws.length := by
  induction ws with
  | nil => rfl
  | cons w ws ih => simp only [bytesOfWords, List.flatMap_cons, List.length_append, be32, List.length_cons, List.length_nil] at ih ⊢; omega

/-- size of a frame on disk: 84 header bytes, 36 for the box, 12 per atom -/
theorem c01_trr_frame_bytes (f : Frame) : (bytesOfWords (renderFrame f)).length = 84 + 4 * f.box.length + 4 * f.x.length := by
  rw [bytesOfWords_length]
  simp [renderFrame, tagWords]
  omega

/-- every frame of one file has the same size, so frame `k` starts at byte `k · size` (what `seek` relies on) -/
theorem c01_trr_offsets (fs : List Frame) (nb nx : Nat) (h : ∀ f ∈ fs, f.box.length = nb ∧ f.x.length = nx) :
    (writeTrr fs).length = fs.length * (84 + 4 * nb + 4 * nx) := by
  induction fs with
  | nil => simp [writeTrr, bytesOfWords]
  | cons f fs ih =>
    have hf := h f (by simp)
    have := ih (fun g hg => h g (by simp [hg]))
    simp only [writeTrr, List.flatMap_cons, bytesOfWords, List.flatMap_append, List.length_append] at this ⊢
    have e : (bytesOfWords (renderFrame f)).length = 84 + 4 * nb + 4 * nx := by rw [c01_trr_frame_bytes, hf.1, hf.2]
    simp only [bytesOfWords] at e
    rw [e, this, List.length_cons, Nat.add_mul, Nat.one_mul, Nat.add_comm]

/-- **the .xtc layout of small systems** (at most nine atoms: coordinates stored as plain floats): header, box and coordinates of every frame
are read back from the bytes -/
theorem c01_xtc_small_roundtrip (fs : List XtcFrame) (h : ∀ f ∈ fs, f.SmallWF) : readXtc (writeXtc fs) = some fs := by
  have hb : ∀ w ∈ fs.flatMap renderXtc, w < 4294967296 := by
    intro w hw
    obtain ⟨f, hf, hwf⟩ := List.mem_flatMap.mp hw
    exact renderXtc_bound f (h f hf) w hwf
  simp only [readXtc, writeXtc, toWords_bytesOfWords _ hb, Option.bind_some]
  exact parseXtcAll_render fs h _ (by have := flatMap_xtc_length fs; omega)

/-! single precision words (tests of the decoder on constants) -/
example : f32ToRat 0x3F800000 = some 1 := by decide +kernel
example : f32ToRat 0xBFC00000 = some (-3/2) := by decide +kernel
example : f32ToRat 0x00000000 = some 0 := by decide +kernel
example : f32ToRat 0x3DCCCCCD = some (13421773 / 134217728) := by decide +kernel      -- float32(0.1)
example : f32ToRat 0x00000001 = some (1 / (2 : Rat) ^ 149) := by decide +kernel              -- the smallest subnormal
example : f32ToRat 0x7F800000 = none := by decide +kernel                            -- +inf
example : f32ToRat 0x4B000001 = some 8388609 := by decide +kernel                    -- 2^23 + 1

/-- the transposed box is another file (the seeded change C01-trr-box-transposed-on-write-and-read) -/
example : writeTrr [⟨1, 0, 0, 0, [1, 2, 3, 4, 5, 6, 7, 8, 9], [0, 0, 0]⟩] ≠ writeTrr [⟨1, 0, 0, 0, [1, 4, 7, 2, 5, 8, 3, 6, 9], [0, 0, 0]⟩] := by decide +kernel

end MdVerif.Xdr

/-! ## the bytes of a .dcd file (Model/Dcd.lean) -/
namespace MdVerif.Dcd

/-- **the .dcd layout round trip**: header and frames (any atom count, with or without the cell record, any payload) are read back from the
bytes mdtraj writes by a reader that derives the number of frames from the size of the file -/
theorem c01_dcd_roundtrip (h : Header) (fs : List Frame) (hw : h.WF) (hf : ∀ f ∈ fs, f.WF h.hasCell h.natoms) :
    readDcd (writeDcd h fs) = some (h, fs) := by
  have hb : ∀ w ∈ renderFile h fs, w < 4294967296 := by
    intro w hm
    simp only [renderFile, List.mem_append] at hm
    rcases hm with hm | hm
    · exact renderHeader_bound h hw w hm
    · obtain ⟨f, hfm, hwf⟩ := List.mem_flatMap.mp hm
      exact renderFrame_bound h.hasCell h.natoms f (hf f hfm) hw.2.2.2.2.2.2.2 w hwf
  have e1 : toWords (bytesOfWords (renderHeader h ++ fs.flatMap renderFrame)) = some (renderHeader h ++ fs.flatMap renderFrame) :=
    toWords_bytesOfWords _ hb
  have e2 := parseHeader_render h hw (fs.flatMap renderFrame)
  have e3 := parseFrames_render h.hasCell h.natoms fs hf ((fs.flatMap renderFrame).length + 1) (by have := flatMap_frames_length fs; omega)
  simp only [readDcd, writeDcd, renderFile, e1, Option.bind_eq_bind, Option.bind_some, e2, e3, Option.pure_def]

/-! double precision words (tests of the decoder on constants) -/
example : f64ToRat 0 0x3FF00000 = some 1 := by decide +kernel
example : f64ToRat 0 0xC0040000 = some (-5/2) := by decide +kernel
example : f64ToRat 0x9999999A 0x3FB99999 = some (3602879701896397 / 36028797018963968) := by decide +kernel    -- 0.1
example : f64ToRat 0 0x7FF00000 = none := by decide +kernel

end MdVerif.Dcd
