import MdVerif.Model.Formats
import MdVerif.Proofs.MicLemmas
import Mathlib.Tactic.Ring
import Mathlib.Tactic.Linarith
import Mathlib.Tactic.FieldSimp
import Mathlib.Tactic.Positivity
/-!
# C01 — save then load reproduces the trajectory, in every writable format

* `c01_unit_roundtrip`     converting to the file's native unit and back is the identity (no factor cancels "on the way back" only)
* `c01_fixed_error`, `c01_fixed_idempotent`   a p-decimal text field is within 10⁻ᵖ/2 of the value and re-saving a loaded value changes nothing
* `c01_xtc_error`          the XTC quantisation is within 0.0005 nm
* `c01_loaded_error`       for every format, atom count and gro precision: |loaded − x| ≤ precision (0 for the float32 formats and for XTC frames of ≤ 9 atoms)
* `c01_stored_native`      text formats hold exactly the p-decimal rounding of the value in native units
-/
namespace MdVerif.Fmt
open MdVerif.Mic

theorem pow10_pos (p : Nat) : 0 < pow10 p := by unfold pow10; positivity

theorem unitFactor_pos (f : F) : 0 < unitFactor f := by cases f <;> simp [unitFactor]

theorem c01_unit_roundtrip (f : F) (x : Rat) : fromNative f (toNative f x) = x := by
  have := unitFactor_pos f
  simp only [fromNative, toNative]; field_simp

/-- **a p-decimal field is within half a unit of the last place** -/
theorem c01_fixed_error (p : Nat) (x : Rat) : |fixedQ p x - x| ≤ 1 / (2 * pow10 p) := by
  have hp := pow10_pos p
  have h := roundHE_nearest (x * pow10 p)
  have e : fixedQ p x - x = -((x * pow10 p - (roundHE (x * pow10 p) : Rat)) / pow10 p) := by
    simp only [fixedQ]; field_simp; ring
  rw [e, abs_neg, abs_div, abs_of_pos hp, div_le_iff₀ hp]
  calc |x * pow10 p - (roundHE (x * pow10 p) : Rat)| ≤ 1 / 2 := h
    _ = 1 / (2 * pow10 p) * pow10 p := by field_simp

theorem roundHE_int (n : Int) : roundHE (n : Rat) = n := by
  have h := roundHE_nearest (n : Rat)
  have h2 : |((n - roundHE (n : Rat) : Int) : Rat)| ≤ 1 / 2 := by push_cast; exact h
  have h3 : |((n - roundHE (n : Rat) : Int) : Rat)| < 1 := lt_of_le_of_lt h2 (by norm_num)
  have h4 : |n - roundHE (n : Rat)| < 1 := by exact_mod_cast h3
  have : n - roundHE (n : Rat) = 0 := Int.abs_lt_one_iff.mp h4
  omega

/-- **saving a loaded value again reproduces it exactly** -/
theorem c01_fixed_idempotent (p : Nat) (x : Rat) : fixedQ p (fixedQ p x) = fixedQ p x := by
  have hp := pow10_pos p
  have e : fixedQ p x * pow10 p = (roundHE (x * pow10 p) : Rat) := by simp only [fixedQ]; field_simp
  simp only [fixedQ] at e ⊢
  rw [e, roundHE_int]

theorem c01_xtc_error (x : Rat) : |xtcQ x - x| ≤ 1 / 2000 := by
  have h := roundHA_nearest (x * 1000)
  have e : xtcQ x - x = -((x * 1000 - (roundHA (x * 1000) : Rat)) / 1000) := by simp only [xtcQ]; ring
  rw [e, abs_neg, abs_div, abs_of_pos (by norm_num : (0 : Rat) < 1000), div_le_iff₀ (by norm_num : (0 : Rat) < 1000)]
  linarith

/-- **every format**: the value read back is within the format's stated precision of the value saved -/
theorem c01_loaded_error (f : F) (g n : Nat) (x : Rat) : |loaded f g n x - x| ≤ precision f g n := by
  have hu := unitFactor_pos f
  by_cases hx : f = .xtc
  · subst hx
    simp only [loaded, stored, precision, fromNative, unitFactor, div_one]
    split
    · simp
    · exact c01_xtc_error x
  · cases hd : decimals g f with
    | none =>
      have : loaded f g n x = x := by
        cases f <;> simp_all [loaded, stored, decimals] <;> exact c01_unit_roundtrip _ x
      have hp : precision f g n = 0 := by cases f <;> simp_all [precision, decimals]
      rw [this, hp]; simp
    | some p =>
      have hl : loaded f g n x = fixedQ p (toNative f x) / unitFactor f := by
        cases f <;> simp_all [loaded, stored, decimals, fromNative]
      have hp : precision f g n = 1 / (2 * pow10 p * unitFactor f) := by
        cases f <;> simp_all [precision, decimals]
      rw [hl, hp]
      have e : fixedQ p (toNative f x) / unitFactor f - x = (fixedQ p (toNative f x) - toNative f x) / unitFactor f := by
        simp only [toNative]; field_simp
      rw [e, abs_div, abs_of_pos hu, div_le_iff₀ hu]
      have := c01_fixed_error p (toNative f x)
      have hp10 := pow10_pos p
      calc |fixedQ p (toNative f x) - toNative f x| ≤ 1 / (2 * pow10 p) := this
        _ = 1 / (2 * pow10 p * unitFactor f) * unitFactor f := by field_simp

/-- **native layout**: a text format holds exactly the p-decimal rounding of the coordinate in its native unit -/
theorem c01_stored_native (f : F) (g n p : Nat) (x : Rat) (hf : f ≠ .xtc) (hd : decimals g f = some p) :
    stored f g n x = fixedQ p (x * unitFactor f) := by
  cases f <;> simp_all [stored, decimals, toNative]

/-- restart file suffixes of a 12-frame trajectory: two digits, zero padded, counted from 1 (the general statement is checked against the
files mdtraj writes by the correspondence run) -/
example : (List.range 12).map (fun i => String.ofList (restartSuffix 12 i)) = ["01", "02", "03", "04", "05", "06", "07", "08", "09", "10", "11", "12"] := by
  decide +kernel

/-- non-vacuity: 1.23456 nm in a .pdb (angstrom, three decimals) is stored as 12.346 and read back as 1.2346 -/
example : stored .pdb 3 20 (123456 / 100000) = 12346 / 1000 ∧ loaded .pdb 3 20 (123456 / 100000) = 12346 / 10000 := by
  decide +kernel

end MdVerif.Fmt
