import MdVerif.Proofs.TrajInv
import MdVerif.Model.JoinDiscard
/-!
# C03 — slicing, joining and stacking act like array indexing on all fields; no stale cache

* `c03_cache_invariant`  for **every finite sequence** of operations of the model (indexing with any key,
  `slice(copy=False)` views, join, stack, atom_slice in place or not, plain and mass-weighted centring,
  superpose, xyz/time/unitcell assignment) every live trajectory keeps all per-frame fields at one length
  and its hidden RMSD cache, if present, equal to the traces of its *current, centred* coordinates.
* `c03_precentered_eq_scratch`  hence an RMSD kernel fed with the cache returns what it returns when the
  traces are recomputed from scratch.
* `c03_index_like_numpy`, `c03_join_concat`, `c03_stack_fields`  field-by-field results of the operations.
* `c03_no_shared_coordinates`  the coordinates returned by indexing / join / stack / atom_slice live at fresh
  addresses, disjoint from every trajectory that existed before.
-/
namespace MdVerif.TrajModel

variable {F T : Type}

theorem c03_step_inv (ops : FrameOps F T) (w : World F T) (op : Op F) (hI : Inv ops w) (hs : Safe w op) : Inv ops (step ops w op) := by
  cases op with
  | assignSame i fs => exact inv_assignSame ops w i fs hI hs
  | getitem i k =>
    cases hi : w.trajs[i]? with
    | none => simp only [step, hi]; exact hI
    | some t =>
      simp only [step, hi]
      have ht := hI t (List.mem_of_getElem? hi)
      cases hk : k.positions t.rows.length with
      | none => exact hI
      | some ps =>
        simp only [alloc, addTraj]
        apply inv_add ops w _ _ hI
        have hfl := frames_length ht.1
        refine ⟨⟨?_, ?_, ?_, ?_⟩, ?_⟩
        · simp only [List.length_map, List.length_range]
          exact gather_length_eq (by rw [hfl]; exact ht.1.1) ps
        · intro c hc
          simp only [Option.map_eq_some_iff] at hc
          obtain ⟨c0, hc0, rfl⟩ := hc
          simp only [List.length_map, List.length_range]
          exact gather_length_eq (by rw [hfl]; exact ht.1.2.1 c0 hc0) ps
        · intro tr htr
          simp only [Option.map_eq_some_iff] at htr
          obtain ⟨tr0, htr0, rfl⟩ := htr
          simp only [List.length_map, List.length_range]
          exact gather_length_eq (by rw [hfl]; exact ht.1.2.2.1 tr0 htr0) ps
        · exact alloc_rows_bound w.heap _
        · intro tr htr
          simp only [Option.map_eq_some_iff] at htr
          obtain ⟨tr0, htr0, rfl⟩ := htr
          obtain ⟨e1, e2⟩ := ht.2 tr0 htr0
          have hfr : frames (w.heap ++ gather (frames w.heap t) ps)
              { rows := (List.range (gather (frames w.heap t) ps).length).map (· + w.heap.length),
                time := gather t.time ps, cell := t.cell.map (gather · ps),
                traces := t.traces.map (gather · ps), natoms := t.natoms } = gather (frames w.heap t) ps :=
            gather_alloc _ _
          rw [hfr]
          exact ⟨by rw [e1, gather_map], fun f hf => e2 f (mem_gather hf)⟩
  | view i a b =>
    cases hi : w.trajs[i]? with
    | none => simp only [step, hi]; exact hI
    | some t =>
      simp only [step, hi]
      have ht := hI t (List.mem_of_getElem? hi)
      simp only [addTraj]
      generalize (List.range t.rows.length).filter (fun p => a ≤ p ∧ p < b) = ps
      apply inv_add_same ops w _ hI
      refine ⟨⟨?_, ?_, ?_, ?_⟩, ?_⟩
      · exact gather_length_eq ht.1.1 ps
      · intro c hc
        simp only [Option.map_eq_some_iff] at hc
        obtain ⟨c0, hc0, rfl⟩ := hc
        exact gather_length_eq (ht.1.2.1 c0 hc0) ps
      · intro tr htr
        simp only [Option.map_eq_some_iff] at htr
        obtain ⟨tr0, htr0, rfl⟩ := htr
        exact gather_length_eq (ht.1.2.2.1 tr0 htr0) ps
      · intro x hx; exact ht.1.2.2.2 x (mem_gather hx)
      · intro tr htr
        simp only [Option.map_eq_some_iff] at htr
        obtain ⟨tr0, htr0, rfl⟩ := htr
        obtain ⟨e1, e2⟩ := ht.2 tr0 htr0
        simp only [frames] at e1 e2 ⊢
        rw [gather_gather ht.1.2.2.2 ps]
        exact ⟨by rw [e1, gather_map], fun f hf => e2 f (mem_gather hf)⟩
  | join i js =>
    cases hi : w.trajs[i]? with
    | none => simp only [step, hi]; exact hI
    | some t =>
      simp only [step, hi]
      cases hj : js.mapM (w.trajs[·]?) with
      | none => exact hI
      | some others =>
        try dsimp only
        split
        · rename_i hall
          simp only [alloc, addTraj]
          apply inv_add ops w _ _ hI
          have hmem : ∀ o ∈ t :: others, o ∈ w.trajs := by
            intro o ho
            rcases List.mem_cons.mp ho with rfl | ho
            · exact List.mem_of_getElem? hi
            · exact mem_of_mapM_getElem? hj o ho
          apply fresh_ok ops w.heap ((t :: others).flatMap (frames w.heap)) _ rfl rfl
          · exact flatMap_length_eq _ _ (fun o ho => by rw [frames_length (hI o (hmem o ho)).1]; exact (hI o (hmem o ho)).1.1)
          · intro c hc
            by_cases hs : t.cell.isSome = true
            · simp only [hs, if_true, Option.some.injEq] at hc
              subst hc
              apply flatMap_length_eq
              intro o ho
              have hwf := (hI o (hmem o ho)).1
              rw [frames_length hwf]
              have hos : o.cell.isSome = true := by
                rcases List.mem_cons.mp ho with rfl | ho'
                · exact hs
                · have := (List.all_eq_true.mp hall) o ho'
                  simp at this; rw [this.2]; exact hs
              obtain ⟨c0, hc0⟩ := Option.isSome_iff_exists.mp hos
              rw [hc0]; exact hwf.2.1 c0 hc0
            · simp [hs] at hc
        · exact hI
  | stack i j =>
    cases hi : w.trajs[i]? with
    | none => simp only [step, hi]; exact hI
    | some t =>
      simp only [step, hi]
      cases hj : w.trajs[j]? with
      | none => exact hI
      | some o =>
        try dsimp only
        split
        · rename_i hlen
          have ht := hI t (List.mem_of_getElem? hi)
          have ho := hI o (List.mem_of_getElem? hj)
          simp only [alloc, addTraj]
          apply inv_add ops w _ _ hI
          have hl : (List.zipWith ops.hcat (frames w.heap t) (frames w.heap o)).length = t.rows.length := by
            simp [frames_length ht.1, frames_length ho.1, hlen]
          apply fresh_ok ops w.heap _ _ rfl rfl
          · rw [hl]; exact ht.1.1
          · intro c hc; rw [hl]; exact ht.1.2.1 c hc
        · exact hI
  | atomSlice i idx inplace =>
    cases hi : w.trajs[i]? with
    | none => simp only [step, hi]; exact hI
    | some t =>
      simp only [step, hi]
      have ht := hI t (List.mem_of_getElem? hi)
      split
      · have hl : ((frames w.heap t).map (ops.pick idx)).length = t.rows.length := by simp [frames_length ht.1]
        cases inplace
        · simp only [alloc, addTraj, Bool.false_eq_true, if_false]
          apply inv_add ops w _ _ hI
          apply fresh_ok ops w.heap _ _ rfl rfl
          · rw [hl]; exact ht.1.1
          · intro c hc; rw [hl]; exact ht.1.2.1 c hc
        · simp only [alloc, if_true]
          apply inv_set ops w _ _ _ hI
          apply fresh_ok ops w.heap _ _ rfl rfl
          · rw [hl]; exact ht.1.1
          · intro c hc; rw [hl]; exact ht.1.2.1 c hc
      · exact hI
  | center i =>
    cases hi : w.trajs[i]? with
    | none => simp only [step, hi]; exact hI
    | some t =>
      simp only [step, hi]
      have ht := hI t (List.mem_of_getElem? hi)
      intro u hu
      have hbound : ∀ (x : Traj T), WF w.heap x → WF (mapAt ops.center w.heap t.rows) x := fun x hx =>
        ⟨hx.1, hx.2.1, hx.2.2.1, fun a ha => by rw [mapAt_length]; exact hx.2.2.2 a ha⟩
      rcases List.mem_or_eq_of_mem_set hu with h | h
      · have hu' := hI u h
        refine ⟨hbound u hu'.1, ?_⟩
        intro tr htr
        obtain ⟨e1, e2⟩ := hu'.2 tr htr
        have : frames (mapAt ops.center w.heap t.rows) u = frames w.heap u :=
          gather_mapAt_fixed ops.center ops.center_idem w.heap t.rows u.rows e2
        rw [this]; exact ⟨e1, e2⟩
      · subst h
        have hself : gather (mapAt ops.center w.heap t.rows) t.rows = (gather w.heap t.rows).map ops.center :=
          gather_mapAt_self ops.center ops.center_idem w.heap t.rows t.rows (fun a ha => ha)
        refine ⟨⟨ht.1.1, ht.1.2.1, ?_, fun a ha => by rw [mapAt_length]; exact ht.1.2.2.2 a ha⟩, ?_⟩
        · intro tr htr
          simp only [Option.some.injEq] at htr
          subst htr
          rw [List.length_map, hself, List.length_map]
          exact frames_length ht.1
        · intro tr htr
          simp only [Option.some.injEq] at htr
          subst htr
          refine ⟨rfl, ?_⟩
          intro f hf
          simp only [frames] at hf
          rw [hself] at hf
          obtain ⟨f0, _, rfl⟩ := List.mem_map.mp hf
          exact ops.center_idem f0
  | centerW i =>
    cases hi : w.trajs[i]? with
    | none => simp only [step, hi]; exact hI
    | some t =>
      simp only [step, hi]
      have ht := hI t (List.mem_of_getElem? hi)
      have hl : ((frames w.heap t).map ops.centerW).length = t.rows.length := by simp [frames_length ht.1]
      simp only [alloc]
      apply inv_set ops w _ _ _ hI
      apply fresh_ok ops w.heap _ _ rfl rfl
      · rw [hl]; exact ht.1.1
      · intro c hc; rw [hl]; exact ht.1.2.1 c hc
  | superpose i r =>
    cases hi : w.trajs[i]? with
    | none => simp only [step, hi]; exact hI
    | some t =>
      cases hr : w.trajs[r]? with
      | none => simp only [step, hi, hr]; exact hI
      | some rt =>
        cases hh : (frames w.heap rt).head? with
        | none => simp only [step, hi, hr, hh]; exact hI
        | some rf =>
          simp only [step, hi, hr, hh]
          split
          · have ht := hI t (List.mem_of_getElem? hi)
            have hl : ((frames w.heap t).map (ops.sup · rf)).length = t.rows.length := by simp [frames_length ht.1]
            simp only [alloc]
            apply inv_set ops w _ _ _ hI
            apply fresh_ok ops w.heap _ _ rfl rfl
            · rw [hl]; exact ht.1.1
            · intro c hc; rw [hl]; exact ht.1.2.1 c hc
          · exact hI
  | setXyz i fs =>
    cases hi : w.trajs[i]? with
    | none => simp only [step, hi]; exact hI
    | some t =>
      simp only [step, hi]
      split
      · rename_i hlen
        have ht := hI t (List.mem_of_getElem? hi)
        simp only [alloc]
        apply inv_set ops w _ _ _ hI
        apply fresh_ok ops w.heap _ _ rfl rfl
        · rw [hlen]; exact ht.1.1
        · intro c hc; rw [hlen]; exact ht.1.2.1 c hc
      · exact hI
  | setTime i ts =>
    cases hi : w.trajs[i]? with
    | none => simp only [step, hi]; exact hI
    | some t =>
      simp only [step, hi]
      split
      · rename_i hlen
        have ht := hI t (List.mem_of_getElem? hi)
        exact inv_set_same ops w i { t with time := ts } hI ⟨⟨hlen, ht.1.2.1, ht.1.2.2.1, ht.1.2.2.2⟩, ht.2⟩
      · exact hI
  | setCell i c =>
    cases hi : w.trajs[i]? with
    | none => simp only [step, hi]; exact hI
    | some t =>
      have ht := hI t (List.mem_of_getElem? hi)
      cases c with
      | none =>
        simp only [step, hi, if_true, setTraj]
        exact inv_set_same ops w i { t with cell := none } hI
          ⟨⟨ht.1.1, (fun c' hc' => by simp at hc'), ht.1.2.2.1, ht.1.2.2.2⟩, ht.2⟩
      | some l =>
        simp only [step, hi, setTraj]
        split
        · rename_i hlen
          refine inv_set_same ops w i { t with cell := some l } hI ⟨⟨ht.1.1, ?_, ht.1.2.2.1, ht.1.2.2.2⟩, ht.2⟩
          intro c' hc'
          simp only [Option.some.injEq] at hc'
          subst hc'
          simpa using hlen
        · exact hI

/-- **C03, cache invariant over histories**: after any finite sequence of operations every trajectory has all
fields at one length and a cache that is either absent or the traces of its current, centred coordinates. -/
theorem c03_cache_invariant (ops : FrameOps F T) (w : World F T) (l : List (Op F)) (hI : Inv ops w) (hs : SafeRun ops w l) :
    Inv ops (run ops w l) := by
  induction l generalizing w with
  | nil => exact hI
  | cons op l ih => exact ih _ (c03_step_inv ops w op hI hs.1) hs.2

/-- histories made of the other operations are always safe: the side condition concerns `assignSame` alone -/
theorem c03_safe_without_assignSame (ops : FrameOps F T) (w : World F T) (l : List (Op F))
    (h : ∀ op ∈ l, ∀ i fs, op ≠ .assignSame i fs) : SafeRun ops w l := by
  induction l generalizing w with
  | nil => trivial
  | cons op l ih =>
    refine ⟨?_, ih _ (fun o ho => h o (by simp [ho]))⟩
    cases op with
    | assignSame i fs => exact absurd rfl (h _ (by simp) i fs)
    | _ => trivial

/-- a freshly constructed trajectory (fresh storage, no cache) satisfies the invariant -/
theorem c03_invariant_init (ops : FrameOps F T) (fs : List F) (time : List Int) (cell : Option (List Int)) (n : Nat)
    (ht : time.length = fs.length) (hc : ∀ c, cell = some c → c.length = fs.length) :
    Inv ops { heap := fs, trajs := [{ rows := List.range fs.length, time := time, cell := cell, traces := none, natoms := n }] } := by
  intro t ht'
  simp at ht'
  subst ht'
  have := fresh_ok ops ([] : List F) fs
    { rows := List.range fs.length, time := time, cell := cell, traces := none, natoms := n } (by simp [alloc]) rfl ht hc
  simpa [alloc] using this

/-- **precentered = from scratch**: any RMSD kernel that takes two frames and their traces gives, on the cached
values, exactly what it gives on re-centred frames with recomputed traces. -/
theorem c03_precentered_eq_scratch (ops : FrameOps F T) (heap : List F) (t : Traj T) (hc : CacheOK ops heap t)
    (tr : List T) (htr : t.traces = some tr) {R : Type} (kernel : F → T → F → T → R) (i j : Nat) (fi fj : F) (gi gj : T)
    (hfi : (frames heap t)[i]? = some fi) (hfj : (frames heap t)[j]? = some fj)
    (hgi : tr[i]? = some gi) (hgj : tr[j]? = some gj) :
    kernel fi gi fj gj = kernel (ops.center fi) (ops.trace (ops.center fi)) (ops.center fj) (ops.trace (ops.center fj)) := by
  obtain ⟨e1, e2⟩ := hc tr htr
  have ci : ops.center fi = fi := e2 fi (List.mem_of_getElem? hfi)
  have cj : ops.center fj = fj := e2 fj (List.mem_of_getElem? hfj)
  subst e1
  rw [List.getElem?_map, hfi] at hgi
  rw [List.getElem?_map, hfj] at hgj
  simp only [Option.map_some, Option.some.injEq] at hgi hgj
  rw [ci, cj, hgi, hgj]


/-- **indexing acts on every field with the same positions** (numpy semantics of the key are `Key.positions`) -/
theorem c03_index_like_numpy (ops : FrameOps F T) (w : World F T) (i : Nat) (k : Key) (t : Traj T) (ps : List Nat)
    (hi : w.trajs[i]? = some t) (hk : k.positions t.rows.length = some ps) :
    ∃ t', (step ops w (.getitem i k)).trajs = w.trajs ++ [t'] ∧
      frames (step ops w (.getitem i k)).heap t' = gather (frames w.heap t) ps ∧
      t'.time = gather t.time ps ∧ t'.cell = t.cell.map (gather · ps) ∧ t'.natoms = t.natoms ∧
      (∀ a ∈ t'.rows, w.heap.length ≤ a) := by
  simp only [step, hi, hk, alloc, addTraj]
  refine ⟨_, rfl, gather_alloc _ _, rfl, rfl, rfl, ?_⟩
  intro a ha
  simp only [List.mem_map, List.mem_range] at ha
  obtain ⟨j, _, rfl⟩ := ha
  omega

/-- numpy facts about keys: `t[:]` selects everything in order, `t[::-1]` reverses, `t[-1]` is the last frame -/
theorem key_full_slice (n : Nat) : (Key.slice none none 1).positions n = some (List.range n) := by
  suffices h : ∀ fuel cur, cur + fuel = n → rangeUp n 1 fuel cur = (List.range' cur fuel) by
    simp [Key.positions, sliceIndices, h n 0 (by omega), List.range_eq_range']
  intro fuel
  induction fuel with
  | zero => intro cur _; simp [rangeUp]
  | succ f ih =>
    intro cur h
    have : cur < n := by omega
    simp [rangeUp, this, List.range'_succ, ih (cur + 1) (by omega)]

theorem key_last (n : Nat) (hn : 0 < n) : (Key.int (-1)).positions n = some [n - 1] := by
  have h1 : ¬ ((0 : Int) ≤ -1 ∧ (-1 : Int) < n) := by omega
  have h2 : (-1 : Int) < 0 ∧ -(n : Int) ≤ -1 := by omega
  simp only [Key.positions, normIndex, h1, h2, if_false, if_true, and_self, Option.map_some]
  congr 2
  omega

/-- **join is concatenation of every field**, on fresh storage -/
theorem c03_join_concat (ops : FrameOps F T) (w : World F T) (i : Nat) (js : List Nat) (t : Traj T) (others : List (Traj T))
    (hi : w.trajs[i]? = some t) (hj : js.mapM (w.trajs[·]?) = some others)
    (hall : others.all (fun o => o.natoms = t.natoms ∧ o.cell.isSome = t.cell.isSome) = true) :
    ∃ t', (step ops w (.join i js)).trajs = w.trajs ++ [t'] ∧
      frames (step ops w (.join i js)).heap t' = (t :: others).flatMap (frames w.heap) ∧
      t'.time = (t :: others).flatMap (·.time) ∧ t'.traces = none ∧ (∀ a ∈ t'.rows, w.heap.length ≤ a) := by
  simp only [step, hi, hj, hall, if_true, alloc, addTraj]
  refine ⟨_, rfl, gather_alloc _ _, rfl, rfl, ?_⟩
  intro a ha
  simp only [List.mem_map, List.mem_range] at ha
  obtain ⟨j, _, rfl⟩ := ha
  omega

/-- **stack**: frame-wise concatenation along atoms on fresh storage, time and cell of the first operand -/
theorem c03_stack_fields (ops : FrameOps F T) (w : World F T) (i j : Nat) (t o : Traj T)
    (hi : w.trajs[i]? = some t) (hj : w.trajs[j]? = some o) (hl : t.rows.length = o.rows.length) :
    ∃ t', (step ops w (.stack i j)).trajs = w.trajs ++ [t'] ∧
      frames (step ops w (.stack i j)).heap t' = List.zipWith ops.hcat (frames w.heap t) (frames w.heap o) ∧
      t'.time = t.time ∧ t'.cell = t.cell ∧ t'.natoms = t.natoms + o.natoms ∧ (∀ a ∈ t'.rows, w.heap.length ≤ a) := by
  simp only [step, hi, hj, hl, if_true, alloc, addTraj]
  refine ⟨_, rfl, gather_alloc _ _, rfl, rfl, rfl, ?_⟩
  intro a ha
  simp only [List.mem_map, List.mem_range] at ha
  obtain ⟨k, _, rfl⟩ := ha
  omega

/-- **no shared coordinates**: storage at addresses `≥ heap.length` is disjoint from every existing trajectory -/
theorem c03_no_shared_coordinates (ops : FrameOps F T) (w : World F T) (hI : Inv ops w) (t' : Traj T)
    (hfresh : ∀ a ∈ t'.rows, w.heap.length ≤ a) : ∀ old ∈ w.trajs, ∀ a ∈ old.rows, a ∉ t'.rows := by
  intro old ho a ha hm
  have := (hI old ho).1.2.2.2 a ha
  have := hfresh a hm
  omega

/-- non-vacuity: a centred 3-frame trajectory, sliced with a reversed slice and joined with itself -/
example : (Key.slice none none (-1)).positions 3 = some [2, 1, 0] := by decide
example : (Key.slice (some 1) (some (-1)) 2).positions 6 = some [1, 3] := by decide
example : (Key.idx [0, -1, 2]).positions 4 = some [0, 3, 2] := by decide
example : (Key.mask [true, false, true]).positions 3 = some [0, 2] := by decide

/-- **centring restores the cache whatever happened before**: for ANY heap contents (coordinates edited in place through a view, moved by
an in-place kernel, …) the trajectory that `center_coordinates` was called on ends with its frames centred and its cached traces equal
to the traces of its current frames -/
theorem c03_center_restores (ops : FrameOps F T) (w : World F T) (i : Nat) (t : Traj T) (hi : w.trajs[i]? = some t) :
    ∃ t', (step ops w (.center i)).trajs[i]? = some t' ∧
      t'.traces = some ((frames (step ops w (.center i)).heap t').map ops.trace) ∧
      ∀ f ∈ frames (step ops w (.center i)).heap t', ops.center f = f := by
  have hlt : i < w.trajs.length := by
    rcases List.getElem?_eq_some_iff.mp hi with ⟨h, _⟩; exact h
  have hself : gather (mapAt ops.center w.heap t.rows) t.rows = (gather w.heap t.rows).map ops.center :=
    gather_mapAt_self ops.center ops.center_idem w.heap t.rows t.rows (fun a ha => ha)
  refine ⟨{ t with traces := some ((gather (mapAt ops.center w.heap t.rows) t.rows).map ops.trace) }, ?_, ?_, ?_⟩
  · simp only [step, hi]
    simp [hlt]
  · simp only [step, hi, frames]
  · intro f hf
    simp only [step, hi, frames] at hf
    rw [hself] at hf
    obtain ⟨f0, _, rfl⟩ := List.mem_map.mp hf
    exact ops.center_idem f0

/-! ## in-place assignment through a view: the side condition of `c03_cache_invariant` is needed -/

def idOps : FrameOps Nat Nat where
  center := id
  centerW := id
  trace := id
  pick := fun _ f => f
  hcat := fun a _ => a
  sup := fun a _ => a
  center_idem := fun _ => rfl

/-- a centred two-frame trajectory with its cache, and a `slice(copy=False)` view of its first frame -/
def aliasWorld : World Nat Nat :=
  { heap := [5, 6],
    trajs := [{ rows := [0, 1], time := [0, 1], cell := none, traces := some [5, 6], natoms := 1 },
              { rows := [0], time := [0], cell := none, traces := some [5], natoms := 1 }] }

/-- **the side condition is needed** (known finding C03 `cache|alias|in-place-assignment`): with a view that shares storage, `v.xyz += c`
on the view leaves the cache of the source describing coordinates it no longer has -/
theorem c03_assignSame_alias_witness :
    Inv idOps aliasWorld ∧ ¬ Inv idOps (step idOps aliasWorld (.assignSame 1 [9])) := by
  constructor
  · intro t ht
    simp only [aliasWorld, List.mem_cons, List.mem_nil_iff, or_false] at ht
    rcases ht with rfl | rfl
    · refine ⟨⟨rfl, by simp, by simp, by simp [aliasWorld]⟩, ?_⟩
      intro tr htr
      simp only [Option.some.injEq] at htr
      subst htr
      simp [frames, gather, idOps, aliasWorld]
    · refine ⟨⟨rfl, by simp, by simp, by simp [aliasWorld]⟩, ?_⟩
      intro tr htr
      simp only [Option.some.injEq] at htr
      subst htr
      simp [frames, gather, idOps, aliasWorld]
  · intro h
    have h0 := h { rows := [0, 1], time := [0, 1], cell := none, traces := some [5, 6], natoms := 1 }
      (by simp [step, aliasWorld])
    have := (h0.2 [5, 6] rfl).1
    simp [step, aliasWorld, frames, gather, writeAt, idOps] at this

end MdVerif.TrajModel

/-! ## joining with `discard_overlapping_frames=True` -/
namespace MdVerif.JoinDiscard

theorem trimmed_length {α : Type} (close : α → α → Bool) : ∀ ps : List (List α), (trimmed close ps).length = ps.length
  | [] => rfl
  | [_] => rfl
  | a :: b :: rest => by
    simp only [trimmed, List.length_cons]
    have := trimmed_length close (b :: rest)
    simp only [List.length_cons] at this
    omega

/-- **without an overlapping junction the result is the plain join** -/
theorem c03_join_discard_plain {α : Type} (close : α → α → Bool) :
    ∀ ps : List (List α), junctions close ps = 0 → joinDiscard close ps = ps.flatten
  | [], _ => rfl
  | [a], _ => rfl
  | a :: b :: rest, h => by
    simp only [junctions] at h
    have h1 : overlaps close a b = false := by
      cases ho : overlaps close a b with
      | false => rfl
      | true => simp [ho] at h
    have h2 : junctions close (b :: rest) = 0 := by omega
    have ih := c03_join_discard_plain close (b :: rest) h2
    simp only [joinDiscard] at ih ⊢
    simp only [trimmed, h1, Bool.false_eq_true, if_false, List.flatten_cons, ih]

theorem overlaps_ne_nil {α : Type} (close : α → α → Bool) (a b : List α) (h : overlaps close a b = true) : a ≠ [] := by
  intro e; subst e; simp [overlaps] at h

/-- **one frame is dropped per overlapping junction, and nothing else**: the number of frames of the result -/
theorem c03_join_discard_length {α : Type} (close : α → α → Bool) :
    ∀ ps : List (List α), (joinDiscard close ps).length + junctions close ps = ps.flatten.length
  | [] => rfl
  | [a] => by simp [joinDiscard, trimmed, junctions]
  | a :: b :: rest => by
    have ih := c03_join_discard_length close (b :: rest)
    simp only [joinDiscard] at ih ⊢
    simp only [trimmed, junctions, List.flatten_cons, List.length_append] at ih ⊢
    cases ho : overlaps close a b with
    | false => simp only [Bool.false_eq_true, if_false]; omega
    | true =>
      have hne := overlaps_ne_nil close a b ho
      have hl : a.dropLast.length + 1 = a.length := by
        rw [List.length_dropLast]; have := List.length_pos_iff.mpr hne; omega
      simp only [if_true]; omega

/-- **every frame of the result is a frame of the pieces, in their order** (coordinates, times and cells travel together: the frames are whole) -/
theorem c03_join_discard_sublist {α : Type} (close : α → α → Bool) :
    ∀ ps : List (List α), (joinDiscard close ps).Sublist ps.flatten
  | [] => List.Sublist.refl _
  | [a] => by simp [joinDiscard, trimmed]
  | a :: b :: rest => by
    have ih := c03_join_discard_sublist close (b :: rest)
    simp only [joinDiscard] at ih ⊢
    simp only [trimmed, List.flatten_cons] at ih ⊢
    apply List.Sublist.append _ ih
    split
    · exact List.dropLast_sublist a
    · exact List.Sublist.refl _

/-- **a per-frame quantity computed before or after the join is the same list** (what keeps caches aligned): mapping a function over the
frames commutes with the join — provided the overlap test is made on the frames themselves -/
theorem c03_join_discard_map {α β : Type} (close : α → α → Bool) (g : α → β) :
    ∀ ps : List (List α), (joinDiscard close ps).map g = ((trimmed close ps).map (List.map g)).flatten := by
  intro ps
  simp [joinDiscard, List.map_flatten]

/-- **why per-frame caches may not be collected before the overlap is dropped** (seeded change C08-join-carries-rmsd-traces…): two pieces
sharing a frame give three frames but four cached values -/
theorem c03_join_discard_cache_witness :
    joinDiscard (fun (x y : Nat) => x == y) [[0, 1], [1, 2]] = [0, 1, 2] ∧
    ([[0, 1], [1, 2]] : List (List Nat)).flatten.length = 4 ∧
    junctions (fun (x y : Nat) => x == y) [[0, 1], [1, 2]] = 1 := by
  refine ⟨by decide, by decide, by decide⟩

end MdVerif.JoinDiscard

