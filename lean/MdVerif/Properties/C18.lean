import MdVerif.Proofs.CursorLemmas
/-!
# C18 — an open trajectory file behaves as a cursor over its frames

Every format reader of `Model/Cursor.lean` refines the abstract cursor `specStep` on every
finite in-range operation script (induction over the script; the file and its size are arbitrary).
TRR is proved only for scripts whose reads stay inside the file (`c18_refines_trr_partial`);
outside that class the current code violates the property (`c18_trr_counterexample_*`,
known finding, replayed on the real reader by the harness on every run).
-/
namespace MdVerif

/-- coupling invariant between a reader state and the abstract cursor position -/
def Coupled (fmt : Fmt) (file : List α) (st : St) (pos : Nat) : Prop :=
  st.pos = pos ∧ pos ≤ file.length ∧ (fmt = .h5 ∨ fmt = .nc ∨ st.phys = pos)

/-- reads that do not run into the end of the file -/
def Op.noEof (file : List α) (pos : Nat) : Op → Prop
  | .read n => pos + n ≤ file.length
  | .readAll => False
  | _ => True

def opsNoEof (file : List α) : Nat → List Op → Prop
  | _, [] => True
  | pos, op :: ops => op.noEof file pos ∧ opsNoEof file (specStep file pos op).1 ops

theorem length_take_drop (file : List α) (p n : Nat) :
    ((file.drop p).take n).length = min n (file.length - p) := by simp

theorem step_readAll_of_ne (junk : α) (fmt : Fmt) (file : List α) (st : St) (hf : fmt ≠ .trr) :
    step junk fmt file st .readAll =
      ((read junk fmt file st none 1).2, .frames (read junk fmt file st none 1).1) := by
  simp [step, hf]

theorem c18_step_refines (junk : α) (fmt : Fmt) (file : List α) (st : St) (pos : Nat) (op : Op)
    (hc : Coupled fmt file st pos) (hr : op.inRange file pos)
    (ht : fmt = .trr → op.noEof file pos) :
    (step junk fmt file st op).2 = (specStep file pos op).2 ∧
    Coupled fmt file (step junk fmt file st op).1 (specStep file pos op).1 := by
  obtain ⟨h1, h2, h3⟩ := hc
  cases op with
  | read n =>
    have hn : 1 ≤ n := hr
    have hne : ¬ Eff fmt st 1 := fun h => by have := h.2.1; omega
    cases fmt
    · -- h5
      have hs := read_some_spec junk .h5 file st n 1 (Nat.le_refl _) (by simp [cur]; omega) hne
      simp only [cur, everyNth_one, Nat.mul_one] at hs
      simp only [step, specStep, hs.1, h1]
      refine ⟨trivial, ?_, ?_, Or.inl rfl⟩
      · rw [hs.2.1, h1]
      · exact Nat.min_le_right _ _
    · have hs := read_some_spec junk .nc file st n 1 (Nat.le_refl _) (by simp [cur]; omega) hne
      simp only [cur, everyNth_one, Nat.mul_one] at hs
      simp only [step, specStep, hs.1, h1]
      refine ⟨trivial, ?_, ?_, Or.inr (Or.inl rfl)⟩
      · rw [hs.2.1, h1]
      · exact Nat.min_le_right _ _
    · -- xtc
      have hp : st.phys = pos := by simpa using h3
      have hle : pos ≤ file.length := h2
      simp only [step, specStep, read, hp, seqLoop_eq file 1 (Nat.le_refl _) n pos hle, everyNth_one,
        Nat.mul_one, h1]
      refine ⟨by simp, ?_, Nat.min_le_right _ _, ?_⟩
      · simp; omega
      · simp
    · -- trr
      have hp : st.phys = pos := by simpa using h3
      have hle : pos ≤ file.length := h2
      have hno : pos + n ≤ file.length := ht rfl
      simp only [step, specStep, read, hp, seqLoop_eq file 1 (Nat.le_refl _) n pos hle, everyNth_one,
        Nat.mul_one, h1]
      refine ⟨by simp, ?_, Nat.min_le_right _ _, ?_⟩
      · simp; split <;> omega
      · simp
    · -- dcd
      have hp : st.phys = pos := by simpa using h3
      have hle : pos ≤ file.length := h2
      simp only [step, specStep, read, hp, seqLoop_eq file 1 (Nat.le_refl _) n pos hle, everyNth_one,
        Nat.mul_one]
      exact ⟨trivial, rfl, Nat.min_le_right _ _, Or.inr (Or.inr rfl)⟩
    · -- txt
      have hp : st.phys = pos := by simpa using h3
      have hle : pos ≤ file.length := h2
      simp only [step, specStep, read, hp, seqLoop_eq file 1 (Nat.le_refl _) n pos hle, everyNth_one,
        Nat.mul_one]
      exact ⟨trivial, rfl, Nat.min_le_right _ _, Or.inr (Or.inr rfl)⟩
  | readAll =>
    have hne : ¬ Eff fmt st 1 := fun h => by have := h.2.1; omega
    cases fmt
    · have hs := read_none_spec junk .h5 file st 1 (Nat.le_refl _) (by simp [cur]; omega) (by simp) hne
      simp only [cur, everyNth_one] at hs
      rw [step_readAll_of_ne junk _ file st (by decide)]
      simp only [specStep, hs.1, h1]
      exact ⟨trivial, hs.2, Nat.le_refl _, Or.inl rfl⟩
    · have hs := read_none_spec junk .nc file st 1 (Nat.le_refl _) (by simp [cur]; omega) (by simp) hne
      simp only [cur, everyNth_one] at hs
      rw [step_readAll_of_ne junk _ file st (by decide)]
      simp only [specStep, hs.1, h1]
      exact ⟨trivial, hs.2, Nat.le_refl _, Or.inr (Or.inl rfl)⟩
    · have hp : st.phys = pos := by simpa using h3
      have hle : pos ≤ file.length := h2
      rw [step_readAll_of_ne junk _ file st (by decide)]
      simp only [specStep, read, hp, seqLoop_eq file 1 (Nat.le_refl _) _ pos hle, everyNth_one,
        Nat.mul_one, h1]
      refine ⟨by simp only [Out.frames.injEq]; exact List.take_of_length_le (by simp; omega), ?_, Nat.le_refl _, ?_⟩
      · simp; omega
      · simp; omega
    · exact absurd (ht rfl) (by simp [Op.noEof])
    · have hp : st.phys = pos := by simpa using h3
      have hle : pos ≤ file.length := h2
      rw [step_readAll_of_ne junk _ file st (by decide)]
      simp only [specStep, read, hp, seqLoop_eq file 1 (Nat.le_refl _) _ pos hle, everyNth_one,
        Nat.mul_one, h1]
      refine ⟨by simp only [Out.frames.injEq]; exact List.take_of_length_le (by simp), ?_, Nat.le_refl _, ?_⟩
      · simp; omega
      · simp; omega
    · have hp : st.phys = pos := by simpa using h3
      have hle : pos ≤ file.length := h2
      rw [step_readAll_of_ne junk _ file st (by decide)]
      simp only [specStep, read, hp, seqLoop_eq file 1 (Nat.le_refl _) _ pos hle, everyNth_one,
        Nat.mul_one]
      refine ⟨by simp only [Out.frames.injEq]; exact List.take_of_length_le (by simp), ?_, Nat.le_refl _, ?_⟩
      · simp
      · simp
  | seek k =>
    have hk : k < file.length := hr
    cases fmt <;> simp [step, specStep, seek, hk, Coupled, Nat.le_of_lt hk, Nat.min_eq_left (Nat.le_of_lt hk)]
  | seekRel d =>
    obtain ⟨hd0, hd1⟩ : 0 ≤ (pos : Int) + d ∧ (pos : Int) + d < file.length := hr
    have hk : ((pos : Int) + d).toNat < file.length := by omega
    subst h1
    have hneg : ¬ ((st.pos : Int) + d < 0) := by omega
    cases fmt <;> simp [step, specStep, seek, hk, hneg, Coupled, Nat.le_of_lt hk, Nat.min_eq_left (Nat.le_of_lt hk)]
  | tell =>
    subst h1
    exact ⟨rfl, rfl, h2, h3⟩
  | len =>
    cases fmt <;> simp [step, specStep, len, Coupled, h1, h2] <;> simpa using h3

/-- **C18 (all formats but TRR).** On every in-range script the reader's outputs (frames
returned, `tell`, `len`) are those of the abstract cursor — for every file and every script length. -/
theorem c18_refines (junk : α) (fmt : Fmt) (hf : fmt ≠ .trr) (file : List α) (ops : List Op) :
    ∀ (st : St) (pos : Nat), Coupled fmt file st pos → opsInRange file pos ops →
      runOps junk fmt file st ops = runSpec file pos ops := by
  induction ops with
  | nil => intros; rfl
  | cons op ops ih =>
    intro st pos hc hr
    obtain ⟨hr1, hr2⟩ := hr
    have h := c18_step_refines junk fmt file st pos op hc hr1 (fun h => absurd h hf)
    simp only [runOps, runSpec, h.1]
    congr 1
    exact ih _ _ h.2 hr2

/-- fresh handle -/
theorem c18_refines_from_open (junk : α) (fmt : Fmt) (hf : fmt ≠ .trr) (file : List α) (ops : List Op)
    (hr : opsInRange file 0 ops) : runOps junk fmt file St.init ops = runSpec file 0 ops :=
  c18_refines junk fmt hf file ops St.init 0 ⟨rfl, Nat.zero_le _, Or.inr (Or.inr rfl)⟩ hr

/-- **C18 for TRR, partial**: scripts whose reads never run into the end of the file. -/
theorem c18_refines_trr_partial (junk : α) (file : List α) (ops : List Op) :
    ∀ (st : St) (pos : Nat), Coupled .trr file st pos → opsInRange file pos ops → opsNoEof file pos ops →
      runOps junk .trr file st ops = runSpec file pos ops := by
  induction ops with
  | nil => intros; rfl
  | cons op ops ih =>
    intro st pos hc hr hn
    obtain ⟨hr1, hr2⟩ := hr
    obtain ⟨hn1, hn2⟩ := hn
    have h := c18_step_refines junk .trr file st pos op hc hr1 (fun _ => hn1)
    simp only [runOps, runSpec, h.1]
    congr 1
    exact ih _ _ h.2 hr2 hn2

/-- TRR: the failed end-of-file decode is counted (`read(); tell()` on a 7-frame file). -/
theorem c18_trr_counterexample_tell :
    runOps 999 .trr (List.range 7) St.init [.readAll, .tell] ≠ runSpec (List.range 7) 0 [.readAll, .tell] := by
  decide

/-- TRR: `read()` when nothing is left raises instead of returning no frames. -/
theorem c18_trr_counterexample_readall_at_eof :
    runOps 999 .trr (List.range 7) St.init [.read 7, .readAll] ≠ runSpec (List.range 7) 0 [.read 7, .readAll] := by
  decide

/-- `len` does not depend on the history. -/
theorem c18_len_history_free (junk : α) (fmt : Fmt) (file : List α) (st : St) :
    (step junk fmt file st .len).2 = .num file.length := by
  cases fmt <;> rfl

/-- Two handles on one file: an interleaving of two scripts. The model has one state per handle. -/
def runTwo (junk : α) (fmt : Fmt) (file : List α) : St → St → List (Bool × Op) → List (Bool × Out α)
  | _, _, [] => []
  | a, b, (true, op) :: r => let x := step junk fmt file a op; (true, x.2) :: runTwo junk fmt file x.1 b r
  | a, b, (false, op) :: r => let x := step junk fmt file b op; (false, x.2) :: runTwo junk fmt file a x.1 r

def proj (h : Bool) : List (Bool × β) → List β
  | [] => []
  | (b, x) :: r => if b = h then x :: proj h r else proj h r

/-- each handle's outputs in any interleaving are those of its own script run alone -/
theorem c18_two_handles (junk : α) (fmt : Fmt) (file : List α) (ops : List (Bool × Op)) :
    ∀ a b, proj true (runTwo junk fmt file a b ops) = runOps junk fmt file a (proj true ops) ∧
           proj false (runTwo junk fmt file a b ops) = runOps junk fmt file b (proj false ops) := by
  induction ops with
  | nil => intros; exact ⟨rfl, rfl⟩
  | cons x r ih =>
    intro a b
    obtain ⟨h, op⟩ := x
    cases h
    · have := ih a (step junk fmt file b op).1
      simp [runTwo, proj, runOps, this.1, this.2]
    · have := ih (step junk fmt file a op).1 b
      simp [runTwo, proj, runOps, this.1, this.2]

/-- non-vacuity: a concrete in-range script on a 7-frame file, for a format with a real stream -/
example : opsInRange (List.range 7) 0 [.read 3, .tell, .seek 5, .readAll, .tell, .seekRel (-6), .read 9, .len] := by
  simp [opsInRange, Op.inRange, specStep]
example : runOps 999 .xtc (List.range 7) St.init [.read 3, .tell, .seek 5, .readAll, .tell, .seekRel (-6), .read 9, .len]
    = [.frames [0,1,2], .num 3, .unit, .frames [5,6], .num 7, .unit, .frames [1,2,3,4,5,6], .num 7] := by
  decide

/-- **why the cursor arithmetic is done in unbounded integers** (the model's `Nat`; repairs 61eaf4cc, 2e2dad3a): carried out in the narrow
type of an argument such as `np.uint8(200)` or `np.int8(100)`, position 100 plus 200 frames is 44 and position 100 plus 100 frames is −56 —
the positions the HDF5 and NetCDF readers reported -/
theorem c18_narrow_integer_witness :
    ((100 : UInt8) + 200).toNat = 44 ∧ ((100 : Int8) + 100).toInt = -56 ∧ (100 + 200 : Nat) = 300 := by
  refine ⟨by decide, by decide, by decide⟩

end MdVerif
