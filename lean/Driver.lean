/-
Line protocol: one request per input line, one canonical response per output line.
Imports only `MdVerif.Model.*` / `MdVerif.Driver.*` (core Lean, no Mathlib) so that it links as an executable.
-/
import MdVerif.Driver.Cursor
import MdVerif.Driver.Traj
import MdVerif.Driver.Topo
import MdVerif.Driver.Writer
import MdVerif.Driver.Sel
import MdVerif.Driver.Mic
import MdVerif.Driver.Cell
import MdVerif.Driver.Nb
import MdVerif.Driver.Ang
import MdVerif.Driver.Sasa
import MdVerif.Driver.Qcp
import MdVerif.Driver.Image
import MdVerif.Driver.Descr
import MdVerif.Driver.Hbond
import MdVerif.Driver.Dssp
import MdVerif.Driver.Formats
open MdVerif MdVerif.Driver MdVerif.Driver.TrajP MdVerif.Driver.TopoP MdVerif.Driver.WriterP MdVerif.Driver.SelP MdVerif.Driver.MicP MdVerif.Driver.CellP MdVerif.Driver.NbP MdVerif.Driver.AngP MdVerif.Driver.SasaP MdVerif.Driver.QcpP MdVerif.Driver.ImageP MdVerif.Driver.DescrP MdVerif.Driver.HbP MdVerif.Driver.DsspP MdVerif.Driver.FmtP

def handle (line : String) : String :=
  let ws := (line.splitOn " ").filter (· ≠ "")
  match ws with
  | "cursor" :: _ | "spec" :: _ | "load" :: _ | "loadframe" :: _ | "iter" :: _ => handleCursor ws
  | "traj" :: _ | "key" :: _ => handleTraj ws
  | "itopsubset" :: _ | "itopsubsetl" :: _ | "itopjoin" :: _ | "itopnested" :: _ | "topsubset" :: _ | "topjoin" :: _ | "toprows" :: _ | "toppdb" :: _ | "topeqhash" :: _ => handleTopo ws
  | "writer" :: _ | "save" :: _ | "fsys" :: _ | "fsave" :: _ | "joindiscard" :: _ | "topedit" :: _ => handleWriter ws
  | "sel" :: _ | "selraw" :: _ => handleSel ws
  | "mic" :: _ => handleMic ws
  | "cell" :: _ | "cellops" :: _ => handleCell ws
  | "nbl" :: _ | "nbs" :: _ | "vox" :: _ => handleNb ws
  | "ang" :: _ | "dih" :: _ | "tors" :: _ => handleAng ws
  | "sasa" :: _ | "sasamask" :: _ => handleSasa ws
  | "qcp" :: _ | "qrot" :: _ => handleQcp ws
  | "contacts" :: _ | "allpairs" :: _ | "moments" :: _ | "drid" :: _ | "wsums" :: _ | "rdf" :: _ => handleDescr ws
  | "hbtrip" :: _ | "bh" :: _ | "wn" :: _ | "ks" :: _ => handleHb ws
  | "dssp" :: _ => handleDssp ws
  | "trr" :: _ | "dcd" :: _ | "xtc" :: _ | "fmtq" :: _ | "rstnames" :: _ | "txt" :: _ | "txtparse" :: _ => handleFmt ws
  | "imgorder" :: _ | "imgvalid" :: _ | "imgwhole" :: _ | "imgwrap" :: _ => handleImage ws
  | _ => "bad-op"

partial def loop (h : IO.FS.Stream) (out : IO.FS.Stream) : IO Unit := do
  let line ← h.getLine
  if line.isEmpty then return ()
  let l := (line.dropEnd (if line.endsWith "\n" then 1 else 0)).toString
  out.putStrLn (handle l)
  loop h out

def main : IO Unit := do
  let out ← IO.getStdout
  loop (← IO.getStdin) out
