"""Worker for C08: computes every per-frame analysis on a fixed trajectory (whole, frame by frame, permuted) under the
OMP_NUM_THREADS / OMP_SCHEDULE / OMP_DYNAMIC of its environment and prints a JSON of per-(function, frame) hashes."""
import hashlib
import json
import os
import sys
import warnings

sys.path.insert(0, os.path.dirname(os.path.abspath(__file__)))
import mdv_boot  # noqa: E402,F401
import numpy as np  # noqa: E402

warnings.filterwarnings("ignore")


def h(x):
    a = np.ascontiguousarray(np.asarray(x))
    return hashlib.md5(a.tobytes() + str(a.shape).encode() + str(a.dtype).encode()).hexdigest()[:12]


def functions(md, n_atoms):
    rs = np.random.RandomState(3)
    pairs = rs.randint(0, n_atoms, (25, 2)); pairs = pairs[pairs[:, 0] != pairs[:, 1]]
    trip = rs.randint(0, n_atoms, (20, 3)); trip = trip[(trip[:, 0] != trip[:, 1]) & (trip[:, 1] != trip[:, 2]) & (trip[:, 0] != trip[:, 2])]
    quad = np.array([(i, i + 1, i + 2, i + 3) for i in range(0, 40, 3)])
    F = {
        "distances": lambda t: md.compute_distances(t, pairs),
        "displacements": lambda t: md.compute_displacements(t, pairs),
        "angles": lambda t: md.compute_angles(t, trip),
        "dihedrals": lambda t: md.compute_dihedrals(t, quad),
        "phi": lambda t: md.compute_phi(t)[1],
        "sasa": lambda t: md.shrake_rupley(t, n_sphere_points=60),
        "sasa_residue": lambda t: md.shrake_rupley(t, n_sphere_points=30, mode="residue"),
        "dssp": lambda t: np.array(md.compute_dssp(t, simplified=False)).astype("U2"),
        "kabsch_sander": lambda t: np.array([m.toarray() for m in md.kabsch_sander(t)]),
        "wernet_nilsson": lambda t: np.array([hashlib.md5(np.asarray(x).tobytes()).hexdigest()[:8] for x in md.wernet_nilsson(t)]),
        "neighbors": lambda t: np.array([hashlib.md5(np.asarray(x).tobytes()).hexdigest()[:8] for x in md.compute_neighbors(t, 0.4, [0, 9, 33])]),
        "contacts": lambda t: md.compute_contacts(t, contacts=[[0, 4], [1, 7], [2, 9]])[0],
        "rg": lambda t: md.compute_rg(t),
        "com": lambda t: md.compute_center_of_mass(t),
        "gyration": lambda t: md.compute_gyration_tensor(t),
        "drid": lambda t: md.compute_drid(t),
        "neighborlist0": lambda t: np.array([hashlib.md5(np.sort(np.asarray(md.compute_neighborlist(t, 0.35, frame=f)[5])).tobytes()).hexdigest()[:8] for f in range(t.n_frames)]),
    }
    return F


def main():
    import mdtraj as md
    n_frames = int(sys.argv[1])
    seed = int(sys.argv[2])
    t = md.load(os.path.join(mdv_boot.REPO, "tests", "data", "2EQQ.pdb"))[:n_frames]
    # a skewed cell smaller than the protein, so that many separations cross cell faces, whose shape changes from frame to frame in one
    # parameter at a time (alpha only keeps a_x, b_x, c_x bit-identical; sometimes nothing changes): results must depend on the frame's own cell only
    lengths = np.zeros((t.n_frames, 3), dtype=np.float32); angles = np.zeros((t.n_frames, 3), dtype=np.float32)
    lengths[0] = (2.0, 2.3, 2.6); angles[0] = (80.0, 75.0, 65.0)
    for f in range(1, t.n_frames):
        lengths[f] = lengths[f - 1]; angles[f] = angles[f - 1]
        step = (f - 1) % 6
        if step == 0:
            angles[f, 0] += 4.0
        elif step == 2:
            lengths[f, 2] += 0.125
        elif step == 3:
            angles[f, 2] += 3.0
        elif step == 4:
            lengths[f, 1] += 0.125
        elif step == 5:
            angles[f, 0] -= 6.0
    t.unitcell_lengths = lengths
    t.unitcell_angles = angles
    F = functions(md, t.n_atoms)
    perm = np.random.RandomState(seed).permutation(t.n_frames)
    out = {}
    for name, fn in F.items():
        whole = fn(t)
        out[name + "|whole"] = [h(whole[i]) for i in range(t.n_frames)]
        pm = fn(t[perm])
        inv = np.argsort(perm)
        out[name + "|perm"] = [h(pm[inv[i]]) for i in range(t.n_frames)]
        if os.environ.get("C08_SINGLE") == "1":
            out[name + "|single"] = [h(fn(t[i])[0]) for i in range(t.n_frames)]
    def fresh_ref():
        # md.rmsd centres target *and* reference in place (documented): never reuse a reference object between calls
        return md.Trajectory(t.xyz.copy(), t.topology)
    for par in (True, False):
        tt = md.Trajectory(t.xyz.copy(), t.topology)
        r = md.rmsd(tt, fresh_ref(), 3, parallel=par)
        out["rmsd|par%d|whole" % par] = [h(r[i]) for i in range(t.n_frames)]
        tt = md.Trajectory(t.xyz.copy(), t.topology)
        tt.superpose(fresh_ref(), 3, parallel=par)
        out["superpose|par%d|whole" % par] = [h(tt.xyz[i]) for i in range(t.n_frames)]
        if os.environ.get("C08_SINGLE") == "1":
            sr, ss = [], []
            for i in range(t.n_frames):
                one = md.Trajectory(t.xyz[i:i + 1].copy(), t.topology)
                sr.append(h(md.rmsd(one, fresh_ref(), 3, parallel=par)[0]))
                one = md.Trajectory(t.xyz[i:i + 1].copy(), t.topology)
                one.superpose(fresh_ref(), 3, parallel=par)
                ss.append(h(one.xyz[0]))
            out["rmsd|par%d|single" % par] = sr
            out["superpose|par%d|single" % par] = ss
    # separate alignment selections given as index arrays and as slices (a slice of one frame is a contiguous view of the coordinates)
    for label, sel in (("arange", np.arange(10, 90)), ("slice0", slice(0, 80)), ("slice", slice(10, 90)), ("stride", slice(None, None, 3))):
        tt = md.Trajectory(t.xyz.copy(), t.topology)
        tt.superpose(fresh_ref(), 3, atom_indices=sel)
        out["superpose-sel-%s|whole" % label] = [h(tt.xyz[i]) for i in range(t.n_frames)]
        if os.environ.get("C08_SINGLE") == "1":
            ss = []
            for i in range(t.n_frames):
                one = md.Trajectory(t.xyz[i:i + 1].copy(), t.topology)
                one.superpose(fresh_ref(), 3, atom_indices=sel)
                ss.append(h(one.xyz[0]))
            out["superpose-sel-%s|single" % label] = ss
    print("RESULT " + json.dumps(out))


if __name__ == "__main__":
    main()
