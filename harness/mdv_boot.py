"""Import first in every harness module: makes `import mdtraj` use the extension
modules rebuilt from /repo's current working tree (in /verif/.build/ext) instead of
the .so files that happen to lie in the tree, and the Python sources of /repo."""
import importlib.abc
import importlib.machinery
import importlib.util
import os
import sys

ROOT = os.path.dirname(os.path.dirname(os.path.abspath(__file__)))
REPO = os.environ.get("MDV_REPO", "/repo")
EXT = os.path.join(ROOT, ".build", "ext")
GUARD = "MDTRAJ_VERIF"
os.environ.setdefault(GUARD, "1")

_NAMES = [
    "mdtraj.formats.xtc", "mdtraj.formats.trr", "mdtraj.formats.dcd", "mdtraj.formats.dtr",
    "mdtraj._rmsd", "mdtraj._lprmsd", "mdtraj.geometry._geometry", "mdtraj.geometry.drid",
    "mdtraj.geometry.neighbors", "mdtraj.geometry.neighborlist",
]


class _Finder(importlib.abc.MetaPathFinder):
    def find_spec(self, name, path, target=None):
        if name in _NAMES:
            p = os.path.join(EXT, name.replace(".", "__") + ".so")
            if os.path.exists(p):
                loader = importlib.machinery.ExtensionFileLoader(name, p)
                return importlib.util.spec_from_file_location(name, p, loader=loader)
        return None


if not any(isinstance(f, _Finder) for f in sys.meta_path):
    sys.meta_path.insert(0, _Finder())
if REPO not in sys.path:
    sys.path.insert(0, REPO)
