"""Shared machinery of the checks: build steps, Lean driver I/O, axiom audit,
evidence, known findings, violation reporting.  See DESIGN.md section 4."""
import contextlib
import fcntl
import hashlib
import json
import os
import random
import re
import shutil
import signal
import subprocess
import sys
import time

ROOT = os.path.dirname(os.path.dirname(os.path.abspath(__file__)))
REPO = os.environ.get("MDV_REPO", "/repo")
LEAN = os.path.join(ROOT, "lean")
BUILD = os.path.join(ROOT, ".build")
EVID = os.path.join(ROOT, "evidence")
PY = "/venv/bin/python"
STD_AXIOMS = {"propext", "Classical.choice", "Quot.sound"}
FORBIDDEN = re.compile(r"\bsorry\b|\badmit\b|^\s*axiom\s|native_decide|bv_decide|implemented_by|\bunsafe\s|maxHeartbeats\s+0\b", re.M)

TRUSTED_BASE = [
    "Lean 4.33 kernel; every property theorem audited with #print axioms (allowed: propext, Classical.choice, Quot.sound)",
    "Mathlib v4.33 modules imported one by one by the proof files",
    "hand-written Lean model tied to /repo by the correspondence run of this check (differential test; bounded by generator quality)",
    "tools/rebuild_ext.py: extensions recompiled from the working tree's C/C++ plus the Cython-generated C already in the tree (no Cython here: .pyx edits are detected as drift, not compiled)",
    "tools/extract_tables.py: regenerates MdVerif/Generated/Tables.lean from the repo's Python tables and C literals",
]


class Timeout(Exception):
    pass


@contextlib.contextmanager
def time_limit(seconds):
    def handler(signum, frame):
        raise Timeout("case exceeded %ss" % seconds)
    old = signal.signal(signal.SIGALRM, handler)
    signal.setitimer(signal.ITIMER_REAL, seconds)
    try:
        yield
    finally:
        signal.setitimer(signal.ITIMER_REAL, 0)
        signal.signal(signal.SIGALRM, old)


@contextlib.contextmanager
def build_lock():
    os.makedirs(BUILD, exist_ok=True)
    fh = open(os.path.join(BUILD, "lock"), "w")
    fcntl.flock(fh, fcntl.LOCK_EX)
    try:
        yield
    finally:
        fcntl.flock(fh, fcntl.LOCK_UN)
        fh.close()


def run(cmd, cwd=None, timeout=3600, input=None, env=None):
    e = dict(os.environ)
    if env:
        e.update(env)
    r = subprocess.run(cmd, cwd=cwd, capture_output=True, text=True, timeout=timeout, input=input, env=e)
    return r.returncode, r.stdout, r.stderr


def strip_comments(src):
    src = re.sub(r"/-.*?-/", "", src, flags=re.S)
    return re.sub(r"--.*", "", src)


# ----------------------------------------------------------------------------- build


def rebuild_extensions():
    sys.path.insert(0, os.path.join(ROOT, "tools"))
    import rebuild_ext
    res = rebuild_ext.build_all(jobs=int(os.environ.get("MDV_JOBS", "10")))
    drift = {}
    for n in rebuild_ext.EXTS:
        d = rebuild_ext.pyx_drift(n)
        if d:
            drift[n] = d[:10]
    return res, drift


def extract_tables():
    rc, out, err = run([PY, os.path.join(ROOT, "tools", "extract_tables.py")], cwd=ROOT, timeout=300)
    return rc == 0, (out + err)[-3000:]


def lake_build(targets):
    rc, out, err = run(["lake", "build"] + targets, cwd=LEAN, timeout=3000)
    return rc == 0, (out + err)[-6000:]


def theorem_names(pid):
    p = os.path.join(LEAN, "MdVerif", "Properties", pid + ".lean")
    src = strip_comments(open(p).read())
    return re.findall(r"^\s*theorem\s+([A-Za-z0-9_.']+)", src, flags=re.M)


def property_source_files(pid):
    """Lean files the property's theorems depend on (transitively, inside MdVerif)."""
    seen, todo = [], ["MdVerif.Properties." + pid]
    while todo:
        m = todo.pop()
        if m in seen:
            continue
        seen.append(m)
        p = os.path.join(LEAN, *m.split(".")) + ".lean"
        if not os.path.exists(p):
            continue
        for imp in re.findall(r"^import\s+(MdVerif[\w.]*)", open(p).read(), flags=re.M):
            todo.append(imp)
    return [os.path.join(LEAN, *m.split(".")) + ".lean" for m in seen]


def audit(pid):
    """-> (ok, detail, n_theorems, axioms_by_theorem)"""
    names = theorem_names(pid)
    bad = []
    for f in property_source_files(pid):
        if os.path.exists(f):
            m = FORBIDDEN.search(strip_comments(open(f).read()))
            if m:
                bad.append("%s: forbidden token %r" % (os.path.relpath(f, LEAN), m.group(0)))
    os.makedirs(os.path.join(BUILD, "audit"), exist_ok=True)
    af = os.path.join(BUILD, "audit", "Audit_%s_%d.lean" % (pid, os.getpid()))
    with open(af, "w") as fh:
        fh.write("import MdVerif.Properties.%s\n" % pid)
        src = open(os.path.join(LEAN, "MdVerif", "Properties", pid + ".lean")).read()
        for ns in ["MdVerif"] + re.findall(r"^namespace\s+(\S+)", src, flags=re.M):
            fh.write("open %s\n" % ns)
        for n in names:
            fh.write("#print axioms %s\n" % n)
    rc, out, err = run(["lake", "env", "lean", af], cwd=LEAN, timeout=1200)
    os.unlink(af)
    axioms = {}
    for m in re.finditer(r"'([^']+)' (does not depend on any axioms|depends on axioms: \[([^\]]*)\])", out):
        axioms[m.group(1)] = set() if m.group(3) is None else {a.strip() for a in m.group(3).replace("\n", " ").split(",")}
    for n in names:
        key = [k for k in axioms if k == n or k.endswith("." + n)]
        if not key:
            bad.append("theorem %s: no axiom report (%s)" % (n, (out + err)[-300:]))
        elif not axioms[key[0]] <= STD_AXIOMS:
            bad.append("theorem %s depends on %s" % (n, sorted(axioms[key[0]] - STD_AXIOMS)))
    if rc != 0:
        bad.append("audit file failed: " + (out + err)[-500:])
    if not names:
        bad.append("no theorems found for " + pid)
    return (not bad), "; ".join(bad), len(names), {k: sorted(v) for k, v in axioms.items()}


class LeanDriver:
    """One request line in, one response line out (compiled driver, Mathlib-free)."""

    def __init__(self):
        self.exe = os.path.join(LEAN, ".lake", "build", "bin", "driver")

    def query(self, lines, timeout=1800):
        if not lines:
            return []
        data = "\n".join(lines) + "\n"
        r = subprocess.run([self.exe], input=data, capture_output=True, text=True, timeout=timeout)
        out = r.stdout.split("\n")
        if out and out[-1] == "":
            out.pop()
        if r.returncode != 0 or len(out) != len(lines):
            raise RuntimeError("driver failed rc=%s got %d lines for %d requests: %s" % (r.returncode, len(out), len(lines), r.stderr[-500:]))
        return out


# ----------------------------------------------------------------------------- context


class Ctx:
    def __init__(self, pid, tier, seed, replay=None):
        self.pid, self.tier, self.seed, self.replay = pid, tier, seed, replay
        self.rng = random.Random("%s-%s-%d" % (pid, "x", seed))
        self.t0 = time.time()
        self.counters = {}
        self.samples = []
        self.nontrivial = set()
        self.evaluations = 0
        self.violations = []   # failing input found: dict(key, what, replay)
        self.broken = []       # proof obligation / correspondence no longer checks
        self.notes = []
        self.obligations = 0
        self.discharged = 0
        self.axioms = {}
        self.assumptions = []
        self.rule = ""
        self.exhaustive = None
        self.scratch = os.path.join(BUILD, "scratch", "%s-%d" % (pid, os.getpid()))
        os.makedirs(self.scratch, exist_ok=True)
        self.driver = LeanDriver()
        self.lean_ok = False
        self.drift = {}

    @property
    def quick(self):
        return self.tier == "quick"

    def n(self, quick, thorough):
        return quick if self.tier == "quick" else thorough

    def count(self, name, k=1):
        self.counters[name] = self.counters.get(name, 0) + k

    def case(self, desc=None, nontrivial_key=None):
        """Register one evaluated case; nontrivial_key: hashable identity if it is non-trivial."""
        self.evaluations += 1
        if nontrivial_key is not None:
            self.nontrivial.add(hashlib.md5(repr(nontrivial_key).encode()).hexdigest())
        if desc is not None and len(self.samples) < 6 and (self.evaluations % 7 == 1):
            self.samples.append(desc)

    def violation(self, key, what, replay):
        """A concrete failing input/history of the property on the implementation."""
        self.violations.append(dict(key=key, what=what, replay=replay))

    def broke(self, name, detail, replay=None):
        """A proof obligation or correspondence stream no longer checks."""
        self.broken.append(dict(name=name, detail=str(detail)[:4000], replay=replay))

    # -- preparation: rebuild from the working tree, build + audit the proofs
    def prepare(self, need_ext=True):
        with build_lock():
            if need_ext:
                res, drift = rebuild_extensions()
                self.drift = drift
                for r in res:
                    if r["status"] == "failed":
                        self.broke("build:" + r["name"], "extension does not compile from the working tree: " + r.get("log", ""))
            if os.path.exists(os.path.join(ROOT, "tools", "extract_tables.py")):
                ok, log = extract_tables()
                if not ok:
                    self.broke("tables", "table extraction from the repo sources failed: " + log)
            ok, log = lake_build(["MdVerif.Properties." + self.pid, "driver"])
            if not ok:
                self.lean_ok = False
                self.broke("lake-build", "Lean build of Properties/%s or the driver failed: %s" % (self.pid, log))
                # try the driver alone so the failing-input search can still consult the model
                ok2, _ = lake_build(["driver"])
                self.driver_ok = ok2
            else:
                self.lean_ok = True
                self.driver_ok = True
        if self.lean_ok:
            ok, detail, nthm, axioms = audit(self.pid)
            self.obligations = nthm
            self.axioms = axioms
            if ok:
                self.discharged = nthm
            else:
                self.broke("axiom-audit", detail)
            if not self.quick:
                # thorough tier: the toolchain's independent re-checker replays the compiled proofs of this property's module
                rc, out, err = run(["lake", "env", "leanchecker", "MdVerif.Properties." + self.pid], cwd=LEAN, timeout=1800)
                self.notes.append("leanchecker MdVerif.Properties.%s: exit %d" % (self.pid, rc))
                if rc != 0:
                    self.broke("leanchecker", (out + err)[-2000:])

    def drift_for(self, *ext_names):
        """Report .pyx/.pxi drift (source edited but cannot be compiled here) for the given extensions."""
        for n in ext_names:
            if n in self.drift:
                self.broke("build-tie:" + n, "Cython source differs from the compiled artefact (cannot recompile .pyx here): %r" % (self.drift[n][:3],))

    # -- reporting
    def finish(self):
        known = load_known()
        os.makedirs(os.path.join(EVID, "replay"), exist_ok=True)
        exit_code = 0
        lines = []
        reported = set()
        n_viol = 0
        for v in self.violations:
            kf = match_known(known, self.pid, v["key"])
            if kf is not None:
                if ("K", kf["key"]) not in reported:
                    reported.add(("K", kf["key"]))
                    lines.append("KNOWN-FINDING: property=%s %s" % (self.pid, kf["what"]))
                continue
            if ("V", v["key"]) in reported:
                continue
            reported.add(("V", v["key"]))
            n_viol += 1
            path = self._write_replay(v["key"], dict(kind="failing-input", key=v["key"], what=v["what"], replay=v["replay"]))
            lines.append("VIOLATION property=%s replay=%s" % (self.pid, path))
            lines.append("  " + v["what"][:400])
            exit_code = 1
        if self.broken and exit_code == 0:
            n_viol += 1
            b = self.broken[0]
            path = self._write_replay("broken-" + b["name"], dict(kind="no-failing-input-found", no_longer_checks=[x["name"] for x in self.broken], details=self.broken))
            lines.append("VIOLATION property=%s replay=%s no-failing-input-found" % (self.pid, path))
            for b in self.broken[:6]:
                lines.append("  no longer checks: %s :: %s" % (b["name"], b["detail"][:400].replace("\n", " ")))
            if len(self.broken) > 6:
                lines.append("  ... and %d more" % (len(self.broken) - 6))
            exit_code = 1
        elif self.broken:
            for b in self.broken[:5]:
                lines.append("  also broken: %s :: %s" % (b["name"], b["detail"][:300].replace("\n", " ")))
        wall = time.time() - self.t0
        cov = dict(
            obligations=max(self.obligations, 1), discharged=self.discharged,
            checker_cmd="cd lean && lake build MdVerif.Properties.%s && lake env lean <#print axioms of every theorem in Properties/%s.lean>" % (self.pid, self.pid),
            trusted_base=TRUSTED_BASE + self.assumptions,
            theorems=sorted(self.axioms), axioms=self.axioms,
            evaluations=self.evaluations, distinct_nontrivial=len(self.nontrivial),
            rule=self.rule, samples=self.samples[:6] or ["(no case generated)"],
            counters=self.counters, notes=self.notes,
            broken=[b["name"] for b in self.broken],
            known_findings_seen=sorted(k for t, k in reported if t == "K"),
        )
        if self.exhaustive is not None:
            cov["exhaustive"] = self.exhaustive
        ev = dict(property_id=self.pid, tier=self.tier, seed=self.seed, level="proof", coverage=cov,
                  assumptions=self.assumptions, wall_s=round(wall, 2), violations=n_viol)
        with open(os.path.join(EVID, self.pid + ".json"), "w") as fh:
            json.dump(ev, fh, indent=1, default=str)
        shutil.rmtree(self.scratch, ignore_errors=True)
        for ln in lines:
            print(ln)
        print("%s tier=%s seed=%d theorems=%d/%d evaluations=%d nontrivial=%d wall=%.1fs -> %s" % (
            self.pid, self.tier, self.seed, self.discharged, self.obligations, self.evaluations,
            len(self.nontrivial), wall, "OK" if exit_code == 0 else "VIOLATION"))
        sys.stdout.flush()
        return exit_code

    def finish_replay(self, rp):
        """after re-running the generator of a replay file: was its violation (or broken obligation) reproduced on the current tree?"""
        shutil.rmtree(self.scratch, ignore_errors=True)
        if rp.get("kind") == "failing-input":
            hits = [v for v in self.violations if v["key"] == rp.get("key")]
            if hits:
                print("VIOLATION property=%s replay=%s" % (self.pid, self.replay))
                print("REPRODUCED property=%s key=%s" % (self.pid, rp.get("key")))
                print("  " + hits[0]["what"][:600])
                return 1
            print("NOT-REPRODUCED property=%s key=%s: the inputs of seed %d (tier %s) were generated again (%d evaluations) and this violation does not occur on the current tree" % (
                self.pid, rp.get("key"), self.seed, self.tier, self.evaluations))
            return 0
        names = set(rp.get("no_longer_checks", []))
        hits = [b for b in self.broken if b["name"] in names]
        if hits:
            print("VIOLATION property=%s replay=%s no-failing-input-found" % (self.pid, self.replay))
            print("REPRODUCED property=%s no-failing-input-found: %s" % (self.pid, hits[0]["name"]))
            print("  " + hits[0]["detail"][:600].replace("\n", " "))
            return 1
        print("NOT-REPRODUCED property=%s: %s check(s) again on the current tree" % (self.pid, ", ".join(sorted(names)) or "everything"))
        return 0

    def _write_replay(self, key, obj):
        h = hashlib.md5((self.pid + key).encode()).hexdigest()[:10]
        path = os.path.join(EVID, "replay", "%s-%s.json" % (self.pid, h))
        obj = dict(obj, property=self.pid, seed=self.seed, tier=self.tier)
        with open(path, "w") as fh:
            json.dump(obj, fh, indent=1, default=str)
        return path


def load_known():
    p = os.path.join(ROOT, "known_findings.json")
    if not os.path.exists(p):
        return []
    return json.load(open(p)).get("findings", [])


def match_known(known, pid, key):
    for k in known:
        if k.get("property") == pid and k.get("status") == "known" and (
                k.get("key") == key or (k.get("key", "").endswith("|") and key.startswith(k["key"]))):
            return k
    return None


def isolated(fn, *args, timeout=60):
    """Run fn(*args) in a forked child so that a crash (abort, segfault) or hang of the real code is a result,
    not the end of the check.  -> ('ok', value) | ('crash', exitcode) | ('timeout', None) | ('error', text)"""
    import multiprocessing as mp
    mpc = mp.get_context("fork")
    parent, child = mpc.Pipe(duplex=False)

    def target():
        try:
            val = ("ok", fn(*args))
        except BaseException as e:  # noqa: BLE001
            import traceback
            val = ("error", "%s: %s\n%s" % (type(e).__name__, e, traceback.format_exc()[-1500:]))
        try:
            child.send(val)
        finally:
            child.close()
            os._exit(0)

    p = mpc.Process(target=target)
    p.start()
    child.close()
    val = None
    if parent.poll(timeout):
        try:
            val = parent.recv()
        except EOFError:
            val = None
    p.join(5 if val is not None else 0.1)
    if p.is_alive():
        p.kill()
        p.join()
        if val is None:
            return ("timeout", None)
    if val is None:
        return ("crash", p.exitcode)
    return val
