"""Tagged trajectory files of every format: frame i has xyz[i,0,0] = 0.1*(i+1) nm, a distinct time and
a distinct cell, so that a frame's identity can be read off any partial load without trusting the reader
under test."""
import os

import numpy as np

import mdv_boot  # noqa: F401
import mdtraj as md

# extension -> cursor model class of Model/Cursor.lean
MODEL_FMT = {
    "h5": "h5", "nc": "nc", "xtc": "xtc", "trr": "trr", "dcd": "dcd",
    "mdcrd": "txt", "xyz": "txt", "xyz.gz": "txt", "lammpstrj": "txt", "dtr": "dcd", "arc": "txt",
}
HAS_LEN = {"h5", "nc", "xtc", "trr", "dcd", "xyz", "xyz.gz", "dtr"}
NATIVE_SCALE = {"h5": 1.0, "xtc": 1.0, "trr": 1.0, "gro": 1.0}  # others: angstrom files -> x10


def make_top(n_atoms):
    top = md.Topology()
    ch = top.add_chain()
    r = None
    for a in range(n_atoms):
        if a % 3 == 0:
            r = top.add_residue("ALA", ch)
        top.add_atom(["N", "CA", "C"][a % 3], [md.element.nitrogen, md.element.carbon, md.element.carbon][a % 3], r)
    return top


def make_traj(n_frames, n_atoms=12, seed=0, cell=True):
    rng = np.random.RandomState(seed)
    xyz = rng.uniform(0.2, 2.5, (n_frames, n_atoms, 3)).astype(np.float32)
    xyz = np.round(xyz, 3)
    xyz[:, 0, 0] = 0.1 * (np.arange(n_frames) + 1)
    t = md.Trajectory(xyz, make_top(n_atoms), time=np.arange(n_frames) * 2.0 + 1)
    if cell:
        t.unitcell_lengths = np.tile([3, 3.5, 4], (n_frames, 1)) + 0.01 * np.arange(n_frames)[:, None]
        t.unitcell_angles = np.full((n_frames, 3), 90.0)
    return t


def frame_ids(xyz, scale):
    """ids of the frames in a coordinate array (native units: scale = 10 for angstrom files)."""
    x = np.asarray(xyz)
    if x.ndim != 3 or x.shape[0] == 0:
        return []
    v = x[:, 0, 0] / scale * 10.0 - 1.0
    ids = np.rint(v).astype(int)
    out = []
    for a, b in zip(v, ids):
        out.append(int(b) if abs(a - b) < 0.02 else -1)
    return out


def write_files(dirname, n_frames, exts, n_atoms=12, seed=0, cell=True):
    os.makedirs(dirname, exist_ok=True)
    t = make_traj(n_frames, n_atoms, seed, cell=cell)
    top = os.path.join(dirname, "top_%d.pdb" % n_atoms)
    if not os.path.exists(top):
        t[0].save(top)
    paths = {}
    for e in exts:
        p = os.path.join(dirname, "t%d_%d%s.%s" % (n_frames, n_atoms, "" if cell else "_nocell", e))
        if not os.path.exists(p):
            t.save(p)
        paths[e] = p
    return t, top, paths


def open_file(path, ext, n_atoms):
    kw = {"n_atoms": n_atoms} if ext == "mdcrd" else {}
    return md.open(path, **kw)


def coords_of(r):
    if hasattr(r, "coordinates"):
        return r.coordinates
    if isinstance(r, (tuple, list)):
        return r[0] if len(r) else np.zeros((0, 0, 3))
    return r
