"""C shims that #include the repo's C/C++ sources so that their static kernels can be driven through ctypes.
Compiled from /repo's current working tree on every run (content-hash cache in /verif/.build/shim)."""
import ctypes
import hashlib
import os
import subprocess

import mdv_boot

ROOT = mdv_boot.ROOT
REPO = mdv_boot.REPO
OUT = os.path.join(ROOT, ".build", "shim")

SHIMS = {
    "sasa": dict(src="cshim/sasa_shim.cpp", defs={"SASA_CPP": "mdtraj/geometry/src/sasa.cpp"}, inc=["mdtraj/geometry/include"]),
    "dssp": dict(src="cshim/dssp_shim.cpp", defs={"DSSP_CPP": "mdtraj/geometry/src/dssp.cpp"}, inc=["mdtraj/geometry/include"]),
    "nbl": dict(src="cshim/nbl_shim.cpp", defs={"NBL_CPP": "mdtraj/geometry/src/neighborlist.cpp"}, inc=["mdtraj/geometry/include"]),
    "geom": dict(src="cshim/geom_shim.cpp", defs={"GEOM_CPP": "mdtraj/geometry/src/geometry.cpp"}, inc=["mdtraj/geometry/include", "mdtraj/geometry/src/kernels"]),
    "rmsd": dict(src="cshim/rmsd_shim.cpp", defs={"RMSD_CPP": "mdtraj/rmsd/src/theobald_rmsd.cpp"}, inc=["mdtraj/rmsd/include", "mdtraj/rmsd/src"]),
}


def build(name):
    """-> (ctypes.CDLL or None, error text)"""
    spec = SHIMS[name]
    os.makedirs(OUT, exist_ok=True)
    h = hashlib.sha256()
    files = [os.path.join(ROOT, spec["src"])] + [os.path.join(REPO, f) for f in spec["defs"].values()]
    for d in spec["inc"]:
        ad = os.path.join(REPO, d)
        files += [os.path.join(ad, f) for f in sorted(os.listdir(ad)) if f.endswith((".h", ".hpp"))]
    for f in files:
        try:
            h.update(open(f, "rb").read())
        except OSError:
            h.update(b"missing")
    so = os.path.join(OUT, "%s_%s.so" % (name, h.hexdigest()[:16]))
    if not os.path.exists(so):
        cmd = ["g++", "-shared", "-fPIC", "-O2", "-msse2", "-mssse3", "-fopenmp", "--std=c++11", "-w"]
        for k, v in spec["defs"].items():
            cmd.append('-D%s="%s"' % (k, os.path.join(REPO, v)))
        cmd += ["-I" + os.path.join(REPO, d) for d in spec["inc"]]
        cmd += [os.path.join(ROOT, spec["src"]), "-o", so + ".tmp%d" % os.getpid()]
        r = subprocess.run(cmd, capture_output=True, text=True)
        if r.returncode != 0:
            return None, r.stderr[-3000:]
        os.replace(so + ".tmp%d" % os.getpid(), so)
    try:
        return ctypes.CDLL(so), ""
    except OSError as e:
        return None, str(e)
