"""C08: per-frame results depend only on that frame, not on neighbours or threads.
The theorem (c08_schedule_independent) needs one premise per kernel: the per-frame output does not depend on thread-private
state.  It is proved for the transcribed SASA loop (c08_sasa_stateless) and checked on the real code for every kernel here:
worker processes started with different OMP_NUM_THREADS / OMP_SCHEDULE / OMP_DYNAMIC compute each analysis on a whole trajectory,
on a permuted trajectory and frame by frame; all hashes must be bit-for-bit equal.  Correspondence: a multi-frame shrake_rupley call
vs the per-frame counts of Model/Sasa.lean (c08_sasa_frames)."""
import json
import os
import subprocess
import warnings

import numpy as np

import shim
from props.c05 import rat
from props.c13 import sphere_points, make_system

HERE = os.path.dirname(os.path.dirname(os.path.abspath(__file__)))


def worker(n_frames, seed, env):
    e = dict(os.environ)
    e.update(env)
    r = subprocess.run(["/venv/bin/python", os.path.join(HERE, "c08_worker.py"), str(n_frames), str(seed)], capture_output=True, text=True, env=e, timeout=900)
    for line in r.stdout.splitlines():
        if line.startswith("RESULT "):
            return json.loads(line[7:]), None
    return None, (r.stderr or r.stdout)[-800:]


def run(ctx):
    warnings.filterwarnings("ignore")
    import mdtraj as md
    from mdtraj.geometry.sasa import _ATOMIC_RADII
    ctx.rule = ("every per-frame analysis (distances, displacements, angles, dihedrals, phi, SASA atom/residue, DSSP, Kabsch-Sander, Wernet-Nilsson, "
                "neighbours, neighbour list, contacts, Rg, centre of mass, gyration tensor, DRID, RMSD and superpose with parallel in {True, False}) on 2EQQ "
                "with a triclinic cell: whole trajectory vs a random frame permutation vs frame by frame, in worker processes with OMP_NUM_THREADS in "
                "{1,2,3,5,8,16,frames+3} x OMP_SCHEDULE x OMP_DYNAMIC, repeated; non-trivial = distinct (function, frame, environment) comparison")
    ctx.assumptions.append("the OpenMP runtime and memory model: data races would be observed here, not proved absent")
    rng = ctx.rng
    seen = {}

    def viol(key, what, rp):
        seen.setdefault(key, (what, rp))
    n_frames = ctx.n(12, 20)        # >= 10: a bond present in one frame only is then 'rare' for any cross-frame frequency filter
    envs = [dict(OMP_NUM_THREADS="1", C08_SINGLE="1"), dict(OMP_NUM_THREADS="3"), dict(OMP_NUM_THREADS="16", OMP_DYNAMIC="true")]
    if not ctx.quick:
        envs += [dict(OMP_NUM_THREADS="2", OMP_SCHEDULE="dynamic,1"), dict(OMP_NUM_THREADS="5", OMP_SCHEDULE="static,2"), dict(OMP_NUM_THREADS="8", OMP_SCHEDULE="guided"),
                 dict(OMP_NUM_THREADS=str(n_frames + 3)), dict(OMP_NUM_THREADS="3"), dict(OMP_NUM_THREADS="16")]
    base = None
    for ei, env in enumerate(envs):
        res, err = worker(n_frames, ctx.seed + 1, env)
        desc = {k: v for k, v in env.items() if k != "C08_SINGLE"}
        if res is None:
            viol("worker-failed", "the analyses could not be computed under %s: %s" % (desc, err), dict(env=desc))
            continue
        if base is None:
            base = res
        for key, hashes in res.items():
            name, variant = key.rsplit("|", 1)
            ref = base.get(name + "|whole")
            for i, hv in enumerate(hashes):
                ctx.case(dict(function=name, variant=variant, env=desc) if len(ctx.samples) < 5 else None, (key, i, ei))
                ctx.count("comparisons")
                if ref is not None and hv != ref[i]:
                    what = {"whole": "differs between thread settings", "perm": "differs inside a permuted trajectory", "single": "differs when the frame is computed alone"}[variant]
                    viol("%s|%s" % (name.split("|")[0], variant), "%s: the result for frame %d %s (%s vs OMP_NUM_THREADS=1 whole trajectory)" % (name, i, what, desc),
                         dict(function=name, frame=i, env=desc, variant=variant))
                    break
    # parallel flag irrelevant
    if base is not None:
        for f in ("rmsd", "superpose"):
            if base.get(f + "|par1|whole") != base.get(f + "|par0|whole"):
                viol(f + "|parallel-flag", "%s differs between parallel=True and parallel=False" % f, dict(function=f))

    # ---- trajectories assembled from centred pieces (join with and without a discarded overlapping frame, slices, permutations), RMSD with
    # precentered=True: a frame's value is that of the same coordinates in a fresh one-frame trajectory, whatever the object went through
    for k in range(ctx.n(6, 30)):
        n_at, n_fr = rng.choice([9, 20, 37]), rng.choice([8, 14])
        rs = np.random.RandomState(ctx.seed * 131 + k)
        X = (rs.rand(n_fr, n_at, 3) * 2 + np.cumsum(rs.rand(n_fr, 1, 3) * 0.3, axis=0)).astype(np.float32)
        top_ = md.Topology(); ch_ = top_.add_chain(); r_ = top_.add_residue("ALA", ch_)
        for _ in range(n_at):
            top_.add_atom("C", md.element.carbon, r_)
        cut = rng.randrange(2, n_fr - 2)
        overlap = k % 2 == 0
        p1 = md.Trajectory(X[:cut + (1 if overlap else 0)].copy(), top_, time=np.arange(cut + (1 if overlap else 0), dtype=float))
        p2 = md.Trajectory(X[cut:].copy(), top_, time=np.arange(cut, n_fr, dtype=float))
        p1.center_coordinates(); p2.center_coordinates()
        how = ["join-discard", "join", "md.join-discard", "slice", "permutation"][k % 5] if overlap else ["join", "slice", "permutation", "md.join"][k % 4]
        if how == "join-discard":
            J = p1.join(p2, discard_overlapping_frames=True)
        elif how == "md.join-discard":
            J = md.join([p1, p2], discard_overlapping_frames=True)
        elif how == "md.join":
            J = md.join([p1, p2])
        else:
            J = p1.join(p2)
            if how == "slice":
                J = J[1::2]
            elif how == "permutation":
                J = J[[int(i) for i in rs.permutation(J.n_frames)]]
        ref_ = md.Trajectory(X[:1].copy(), top_); ref_.center_coordinates()
        for pc in (True, False):
            got = md.rmsd(J, md.Trajectory(ref_.xyz.copy(), top_) if not pc else ref_, 0, precentered=pc)
            for f in range(J.n_frames):
                one = md.Trajectory(J.xyz[f:f + 1].copy(), top_)
                if pc:
                    one.center_coordinates()
                r1 = md.Trajectory(X[:1].copy(), top_); r1.center_coordinates()
                alone = md.rmsd(one, r1, 0, precentered=pc)[0]
                ctx.case(None, ("assembled", k, pc, f)); ctx.count("frames of assembled trajectories (RMSD, precentered)")
                # (compared as mean square deviations: next to zero the square root turns the rounding of the inner products into 1e-4 nm)
                if abs(float(got[f]) ** 2 - float(alone) ** 2) > 1e-5:
                    viol("rmsd|assembled|%s" % how.replace("md.", ""), "md.rmsd(precentered=%s) for frame %d of a trajectory assembled from centred pieces by %s: %.6f; the same coordinates alone: %.6f" % (
                        pc, f, how, float(got[f]), float(alone)), dict(how=how, frame=f, precentered=pc, n_frames=n_fr, cut=cut, overlap=overlap))
                    break

    # ---- a frame whose cell is a rounding error (up to 1e-3 degrees) away from rectangular, alone and next to a clearly skewed frame: the
    # kernel is chosen for the whole trajectory, so the frame's own values must not depend on which one was chosen
    for k in range(ctx.n(6, 30)):
        rs = np.random.RandomState(ctx.seed * 977 + k)
        L = rs.uniform(2.5, 4.0, 3)
        xyz_ = (rs.rand(2, 20, 3) * L).astype(np.float32)
        near = 90 + rs.uniform(-9e-4, 9e-4, 3) * np.array([1, k % 2, 1])
        if k % 3 == 0:
            near = np.array([90.0, 90.0, 90.0])   # exactly rectangular: the hypothesis of c08_switch_independent (the two kernels agree there)
        tn = md.Trajectory(xyz_, None, unitcell_lengths=[L, L], unitcell_angles=[near, [70, 80, 95]])
        prs = np.array([(i, j) for i in range(20) for j in range(i + 1, 20)])
        quad = np.array([[0, 1, 2, 3], [4, 5, 6, 7], [8, 9, 10, 11], [12, 13, 14, 15]])
        ctx.case(None, ("near-rectangular", k)); ctx.count("nearly rectangular frames next to a skewed one")
        for nm, fn, tol_ in (("compute_distances", lambda tr: md.compute_distances(tr, prs), 5e-6), ("compute_displacements", lambda tr: md.compute_displacements(tr, prs), 5e-6),
                             ("compute_angles", lambda tr: md.compute_angles(tr, quad[:, :3]), 5e-6), ("compute_dihedrals", lambda tr: md.compute_dihedrals(tr, quad), 2e-5)):
            a_, b_ = fn(tn)[0], fn(tn[0])[0]
            d_ = np.abs(a_ - b_)
            if nm == "compute_dihedrals":
                d_ = np.minimum(d_, 2 * np.pi - d_)
            if d_.max() > tol_:
                viol("near-rectangular|" + nm, "%s for a frame with cell angles %s: inside a trajectory whose other frame is skewed it differs from the frame alone by %.3g" % (
                    nm, near.tolist(), d_.max()), dict(function=nm, angles=near.tolist(), lengths=L.tolist()))

    # ---- correspondence: multi-frame shrake_rupley vs per-frame model counts (c08_sasa_frames)
    lib, err = shim.build("sasa")
    if lib is None:
        ctx.broke("shim:sasa", err)
    else:
        for k in range(ctx.n(4, 25)):
            n_atoms, nsp, nfr = rng.choice([5, 9, 14]), rng.choice([7, 30, 60]), rng.choice([2, 3, 5])
            frames = [make_system(md, rng, n_atoms) for _ in range(nfr)]
            t = md.Trajectory(np.concatenate([f.xyz for f in frames]), frames[0].topology)
            probe = 0.14
            radii = np.array([_ATOMIC_RADII[a.element.symbol] + probe for a in t.topology.atoms], dtype=np.float32)
            pts = sphere_points(lib, nsp)
            got = md.shrake_rupley(t, n_sphere_points=nsp)
            reqs = ["sasa 1/100000 %d %s %s" % (nsp, " ".join(rat(x) for x in pts.ravel()), " ".join(" ".join(rat(x) for x in list(t.xyz[f, a]) + [radii[a]]) for a in range(n_atoms)))
                    for f in range(nfr)]
            model = ctx.driver.query(reqs) if ctx.driver_ok else None
            const = 4.0 * np.pi * radii.astype(np.float64) ** 2 / nsp
            for f in range(nfr):
                cnt = np.rint(got[f].astype(np.float64) / const).astype(int)
                ctx.case(None, ("sasa-frames", k, f)); ctx.count("multi-frame SASA frames")
                alone = md.shrake_rupley(t[f], n_sphere_points=nsp)[0]
                if not np.array_equal(alone, got[f]):
                    viol("sasa|single", "shrake_rupley: frame %d inside a %d-frame trajectory differs from the frame alone (max %.3g)" % (f, nfr, np.abs(alone - got[f]).max()),
                         dict(n_atoms=n_atoms, n_frames=nfr, n_sphere_points=nsp))
                if model is not None:
                    for i, part in enumerate(model[f].split(",")):
                        ck, cs, mg = [int(x) for x in part.split(":")]
                        if abs(cnt[i] - ck) > mg:
                            ctx.broke("correspondence:sasa-frames", "frame %d of %d atom %d: impl count %d model %d" % (f, nfr, i, cnt[i], ck))
                            break
    for key, (what, rp) in seen.items():
        ctx.violation(key, what, rp)


def replay(ctx, path):
    print(json.load(open(path))["what"])
    return 1
