"""C16: derived descriptors equal their defining formulas.
Theorems (Properties/C16.lean): the running-offset slice of compute_contacts is exactly the distance list of the designated atom-pair product;
membership / 'all' pair specifications; squareform symmetry; the one-pass moments of moments.cpp are the mean and central moments;
parallel-axis identity (radius of gyration about the centre of mass), gyration/inertia traces, characteristic polynomial and shape invariants.
Correspondence: compute_contacts (all schemes, 'all' and explicit pairs) vs the model's membership + offset bookkeeping on exact squared distances;
DRID partner sets and moments vs the model; centre of mass, Rg², gyration and inertia tensors and the invariants of the principal moments vs the model.
Oracle (independent of both): float64 re-evaluation of every documented formula from the docs' definitions (own residue designation, explicit
histogram for the RDF, explicit sums for moments, Karplus coefficients from the cited tables)."""
import json
import warnings
from fractions import Fraction

import numpy as np

from props.c05 import cells, rat, brute_min

TEMPL = {
    "ALA": ["N", "H", "CA", "HA", "CB", "HB1", "HB2", "HB3", "C", "O"],
    "GLY": ["N", "H", "CA", "HA2", "HA3", "C", "O"],
    "SER": ["N", "H", "CA", "HA", "CB", "HB2", "HB3", "OG", "HG", "C", "O"],
    "LYS": ["N", "H", "CA", "HA", "CB", "CG", "CD", "CE", "NZ", "HZ1", "C", "O"],
    "HOH": ["O", "H1", "H2"],
    "NA": ["NA"],
    "LIG": ["C1", "N1", "O1", "H1", "CA"],
}
PROTEIN = {"ALA", "GLY", "SER", "LYS"}
BACKBONE_LIKE = {"C", "CA", "N", "O", "HA", "H"}


def elem(md, name, resname):
    E = md.element
    if resname == "NA":
        return E.sodium
    return {"C": E.carbon, "N": E.nitrogen, "O": E.oxygen, "H": E.hydrogen}[name[0]]


def build(md, rng):
    top = md.Topology()
    with_h = rng.random() < 0.75
    late_h = with_h and rng.random() < 0.3     # the atoms of a residue are then not one contiguous block of indices
    deferred = []
    centers = []
    pos = np.zeros(3)
    for ci in range(rng.choice([1, 2, 3])):
        ch = top.add_chain()
        for ri in range(rng.randrange(3, 9)):
            name = rng.choice(["ALA", "GLY", "SER", "LYS", "ALA", "GLY", "HOH", "NA", "LIG"])
            r = top.add_residue(name, ch, ri + 1)
            pos = pos + np.array([rng.gauss(0, 1) for _ in range(3)]) * 0.25
            n_added = 0
            for an in TEMPL[name]:
                if an[0] == "H" and not with_h and name != "HOH":
                    continue
                if rng.random() < 0.07 and name in PROTEIN:
                    continue
                c_ = pos + np.array([rng.gauss(0, 1) for _ in range(3)]) * 0.12
                if late_h and an[0] == "H" and n_added > 0:
                    deferred.append((an, name, r, c_))      # hydrogens added after all heavy atoms, as "add hydrogens" tools do
                    continue
                top.add_atom(an, elem(md, an, name), r)
                centers.append(c_)
                n_added += 1
            if n_added == 0:
                top.add_atom(TEMPL[name][0], elem(md, TEMPL[name][0], name), r)
                centers.append(pos.copy())
    for an, name, r, c_ in deferred:
        top.add_atom(an, elem(md, an, name), r)
        centers.append(c_)
    xyz = np.round(np.array(centers) * 1024) / 1024
    # bonds: consecutive atoms inside a residue (enough for DRID exclusions)
    atoms = list(top.atoms)
    for r in top.residues:
        al = list(r.atoms)
        for a, b in zip(al[:-1], al[1:]):
            if rng.random() < 0.8:
                top.add_bond(a, b)
    return top, xyz.astype(np.float32)


def designated(top, scheme):
    """residue -> atom indices, written from the documentation of compute_contacts"""
    out = []
    for r in top.residues:
        al = list(r.atoms)
        prot = r.name in PROTEIN
        if scheme == "closest":
            m = [a.index for a in al]
        elif scheme == "closest-heavy":
            m = [a.index for a in al if a.element.symbol != "H"]
        elif scheme == "sidechain":
            m = [a.index for a in al if prot and a.name not in BACKBONE_LIKE]
        elif scheme == "sidechain-heavy":
            if r.name == "GLY":
                m = [a.index for a in al if a.name not in BACKBONE_LIKE]
            else:
                m = [a.index for a in al if prot and a.name not in BACKBONE_LIKE and a.element.symbol != "H"]
        out.append(m)
    return out


def dist(box, x, y):
    r = y.astype(np.float64) - x.astype(np.float64)
    return float(np.sqrt(brute_min(box, r))) if box is not None else float(np.linalg.norm(r))


J_TABLES = {   # published Karplus coefficients (A, B, C, phi0 in degrees)
    ("HN_HA", "Ruterjans1999"): (7.90, -1.05, 0.65, -60), ("HN_HA", "Bax2007"): (8.4, -1.36, 0.33, -60), ("HN_HA", "Bax1997"): (7.09, -1.42, 1.55, -60),
    ("HN_C", "Bax2007"): (4.36, -1.08, -0.01, 180), ("HN_CB", "Bax2007"): (3.71, -0.59, 0.08, 60),
}


def run(ctx):
    warnings.filterwarnings("ignore")
    np.seterr(all="ignore")
    import mdtraj as md
    ctx.rule = ("random multi-chain topologies (ALA/GLY/SER/LYS with or without hydrogens and with missing atoms, water, ions, a ligand with an atom named CA) on a 2^-10 nm "
                "grid x contact schemes {ca, closest, closest-heavy, sidechain, sidechain-heavy} x 'all' (ignore_nonprotein both) or explicit pairs (reversed, repeated, "
                "adjacent, non-protein) x periodic (cells of C05) / non-periodic x soft_min; centre of mass (with selections), centre of geometry, Rg with and without "
                "masses, gyration and inertia tensors, principal moments, asphericity, acylindricity, relative shape anisotropy, density, RDF with r_range / bin_width / n_bins, "
                "DRID with atom subsets, directors and nematic order, dipole moments, J couplings; non-trivial = distinct (system, descriptor, configuration)")
    ctx.assumptions += ["float32 coordinates: distances compared within 2e-6 relative + 1e-6 nm; eigenvalue-based descriptors within 1e-5 relative to the tensor scale",
                        "residues for which a scheme designates no atom (e.g. water in a sidechain scheme, glycine without hydrogens) have no defined contact distance: excluded, counted"]
    rng = ctx.rng
    seen = {}

    def viol(key, what, rp):
        seen.setdefault(key, (what, rp))
    reqs, meta = [], []
    for k in range(ctx.n(40, 300)):
        top, xyz = build(md, rng)
        n = top.n_atoms
        nres = top.n_residues
        nfr = rng.choice([1, 2])
        X = np.array([xyz + (np.array([[rng.gauss(0, 1) for _ in range(3)] for _ in range(n)]) * 0.02 if f else 0) for f in range(nfr)])
        X = (np.round(X * 1024) / 1024).astype(np.float32)
        t = md.Trajectory(X.copy(), top)
        periodic = rng.random() < 0.4
        box = None
        if periodic:
            kind, b = cells(rng)
            t.unitcell_vectors = np.tile(b[None], (nfr, 1, 1))
            box = t.unitcell_vectors[0].astype(np.float64)
        desc = dict(n_atoms=n, n_residues=nres, chains=top.n_chains, frames=nfr, periodic=periodic)
        rp0 = dict(desc, residues=[(r.name, [a.name for a in r.atoms], r.chain.index) for r in top.residues], xyz=X.tolist() if n <= 60 else None,
                   box=None if box is None else box.tolist(), seed=ctx.seed, case=k)
        recs = " ".join("%d|%s|%d|%d|%d" % (a.residue.index, a.name, a.element.symbol == "H", a.residue.is_protein, a.residue.name == "GLY") for a in top.atoms)
        hasca = [any(a.name.lower() == "ca" for a in r.atoms) for r in top.residues]
        chain_of = [r.chain.index for r in top.residues]

        # ---------------- contacts
        for scheme in ("ca", "closest", "closest-heavy", "sidechain", "sidechain-heavy"):
            mode = rng.choice(["all", "all-nonprotein", "explicit"] + (["explicit"] * 4 if scheme.startswith("sidechain") else []))
            soft = rng.random() < 0.3 and scheme != "ca"
            des = designated(top, scheme) if scheme != "ca" else None
            if mode == "explicit":
                cand = [(i, j) for i in range(nres) for j in range(nres) if i != j]
                pairs = [rng.choice(cand) for _ in range(rng.randrange(1, 8))]
                if rng.random() < 0.3:
                    pairs.append(pairs[0])
                keep_undefined = des is not None and rng.random() < 0.4
                if des is not None and not keep_undefined:
                    pairs = [p for p in pairs if des[p[0]] and des[p[1]]]
                    if not pairs:
                        ctx.count("contacts: no defined pair (skipped)")
                        continue
                contacts = np.array(pairs)
                want_pairs = pairs
            else:
                ign = mode == "all"
                want_pairs = [(i, j) for i in range(nres) for j in range(i + 3, nres)
                              if chain_of[i] == chain_of[j] and (not ign or (hasca[i] and hasca[j]))]
                contacts = "all"
            rp = dict(rp0, call="compute_contacts", scheme=scheme, contacts=mode, soft_min=soft, pairs=[list(map(int, p)) for p in want_pairs][:50])
            kw = dict(scheme=scheme, periodic=periodic, soft_min=soft, ignore_nonprotein=(mode != "all-nonprotein"))
            if scheme == "ca":
                multi = [i for i in range(nres) if sum(a.name.lower() == "ca" for a in top.residue(i).atoms) > 1]
                exp_pairs = [p for p in want_pairs if hasca[p[0]] and hasca[p[1]]]
            else:
                multi = []
                exp_pairs = want_pairs
                undefined = [pi for pi, p in enumerate(want_pairs) if not des[p[0]] or not des[p[1]]]
                if undefined and mode != "explicit":
                    ctx.count("contacts: a residue has no designated atom (undefined, skipped)")
                    continue
                if undefined:
                    # a pair for which the scheme designates no atom has no contact distance: the call may refuse, or mark the entry (nothing
                    # finite and positive); it must never hand back an ordinary-looking distance under that pair's label
                    try:
                        ud, up = md.compute_contacts(t, contacts, **kw)
                    except Exception:
                        ctx.count("contacts: a pair without designated atoms is refused loudly")
                        continue
                    ctx.case(None, (k, scheme, "undefined-pair", soft)); ctx.count("contacts: calls with an undefined pair that returned")
                    vals = np.asarray(ud)[:, undefined] if np.asarray(ud).ndim == 2 and np.asarray(ud).shape[1] == len(want_pairs) else None
                    if vals is None or np.any(np.isfinite(vals) & (vals > 0)):
                        r0, r1 = want_pairs[undefined[0]]
                        viol("contacts|undefined-pair-gets-a-value|" + scheme, "compute_contacts(%s%s) returns the distance %s for residues %d-%d although the scheme designates no atom in one of them (%s / %s)" % (
                            scheme, ", soft_min" if soft else "", None if vals is None else vals[:, 0][:3], r0, r1, top.residue(r0), top.residue(r1)), rp)
                    continue
            try:
                got_d, got_p = md.compute_contacts(t, contacts, **kw)
            except ValueError as e:
                if not want_pairs and "No acceptable residue pairs" in str(e):
                    ctx.count("contacts: no acceptable pairs (documented ValueError)")
                    continue
                if scheme == "ca" and not exp_pairs:
                    ctx.count("contacts: no listed pair has alpha carbons in both residues (nothing defined)")
                    continue
                if scheme == "ca" and "More than 1 alpha carbon" in str(e):
                    ctx.count("contacts: several CA in a residue (documented ValueError)")
                    continue
                viol("contacts|raises|" + scheme, "compute_contacts(%s, %s) raised ValueError: %s" % (mode, scheme, e), rp)
                continue
            except Exception as e:
                viol("contacts|raises|" + scheme, "compute_contacts(%s, %s) raised %s: %s" % (mode, scheme, type(e).__name__, e), rp)
                continue
            ctx.count("compute_contacts calls"); ctx.count("scheme:" + scheme)
            ctx.case(dict(desc, scheme=scheme, contacts=mode) if len(ctx.samples) < 4 else None, (k, scheme, mode, soft))
            gp = [tuple(int(x) for x in p) for p in np.asarray(got_p).reshape(-1, 2)]
            if gp != [tuple(p) for p in exp_pairs]:
                viol("contacts|pair-labels|%s|%s" % (scheme, mode), "compute_contacts(%s, %s) returns residue pairs %s, expected %s" % (mode, scheme, gp[:10], exp_pairs[:10]), rp)
                continue
            if got_d.shape != (nfr, len(exp_pairs)):
                viol("contacts|shape", "distances have shape %s for %d pairs" % (got_d.shape, len(exp_pairs)), rp)
                continue
            for f in range(nfr):
                for pi, (r0, r1) in enumerate(exp_pairs):
                    if scheme == "ca":
                        a0 = [a.index for a in top.residue(r0).atoms if a.name.lower() == "ca"][0]
                        a1 = [a.index for a in top.residue(r1).atoms if a.name.lower() == "ca"][0]
                        ds = [dist(box, X[f, a0], X[f, a1])]
                    else:
                        ds = [dist(box, X[f, a], X[f, b]) for a in des[r0] for b in des[r1]]
                    if soft:
                        ds = np.array(ds)
                        want = 20.0 / np.log(np.sum(np.exp(20.0 / np.maximum(ds, 1e-12)))) if ds.min() > 0.03 else None
                    else:
                        want = min(ds)
                    if want is None or not np.isfinite(want):
                        continue
                    if abs(got_d[f, pi] - want) > 4e-6 * max(1.0, want) + (1e-4 * want if soft else 0):
                        if soft and got_d[f, pi] == 0 and min(ds) < 20.0 / 88.0:
                            # exp(beta / d) overflows float32 for d < beta / 88.7
                            viol("contacts|soft_min|float32-overflow-below-0.227nm", "compute_contacts(soft_min=True) returns 0 for residues %d-%d whose closest designated atoms are %.4f nm apart; "
                                 "the documented expression gives %.6f (exp(20/d) overflows float32)" % (r0, r1, min(ds), want), rp)
                            continue
                        viol("contacts|value|%s|%s|%s" % (scheme, "soft" if soft else "min", "periodic" if periodic else "plain"),
                             "compute_contacts(%s, %s%s): residues %d-%d frame %d: %.6f, definition gives %.6f" % (mode, scheme, ", soft_min" if soft else "", r0, r1, f, got_d[f, pi], want), rp)
                        break
            # squareform
            if len(exp_pairs):
                sq = md.geometry.squareform(got_d, got_p)
                ok = True
                last = {}
                for pi, (r0, r1) in enumerate(exp_pairs):
                    last[(r0, r1)] = pi; last[(r1, r0)] = pi
                # a pair listed in both orders has two values that may differ in the last bits (the soft minimum sums the atom pairs in another
                # order): the entry must be one of the values listed for that pair of residues, and the map symmetric to rounding
                both = {}
                for pi, (r0, r1) in enumerate(exp_pairs):
                    both.setdefault((min(r0, r1), max(r0, r1)), []).append(pi)
                for (r0, r1), pi in last.items():
                    cands = both[(min(r0, r1), max(r0, r1))]
                    if not any(np.array_equal(sq[:, r0, r1], got_d[:, q], equal_nan=True) for q in cands):
                        ok = False
                if not ok or not np.allclose(sq, sq.transpose(0, 2, 1), rtol=1e-5, atol=1e-6, equal_nan=True) or sq.shape[1] != max(max(p) for p in exp_pairs) + 1:
                    viol("squareform", "squareform does not place the distances at [i, j] and [j, i]", rp)
            # model
            if not periodic and not soft:
                if mode == "explicit":
                    reqs.append("contacts %s %d %s %s %s" % (scheme, n, recs, ",".join("%d-%d" % tuple(p) for p in want_pairs), " ".join(rat(x) for x in X[0].ravel())))
                    meta.append(("contacts", k, scheme, got_d[0], gp))
            if mode != "explicit":
                reqs.append("allpairs %d %d %s %s" % (nres, mode == "all", "".join("1" if h else "0" for h in hasca), ",".join(map(str, chain_of))))
                meta.append(("allpairs", k, scheme, None, [tuple(p) for p in want_pairs]))

        # ---------------- mass-weighted sums, tensors, shape
        masses = np.array([a.element.mass for a in top.atoms])
        rpm = dict(rp0, call="moments of the mass distribution")
        X64 = X.astype(np.float64)
        com = np.array([(X64[f] * masses[:, None]).sum(0) / masses.sum() for f in range(nfr)])
        ctx.case(None, (k, "masssums"))
        got = md.compute_center_of_mass(t)
        if np.abs(got - com).max() > 1e-6:
            viol("com|value", "compute_center_of_mass differs from sum(m x)/sum(m) by %.3g nm" % np.abs(got - com).max(), rpm)
        sel = rng.choice(["name CA", "element C", "resid 0 to 2", "not element H"])
        idx = top.select(sel)
        if len(idx):
            got = md.compute_center_of_mass(t, select=sel)
            want = np.array([(X64[f, idx] * masses[idx, None]).sum(0) / masses[idx].sum() for f in range(nfr)])
            if np.abs(got - want).max() > 1e-6:
                viol("com|select", "compute_center_of_mass(select=%r) differs from the definition by %.3g nm" % (sel, np.abs(got - want).max()), rpm)
        cog = X64.mean(1)
        if np.abs(md.compute_center_of_geometry(t) - cog).max() > 1e-6:
            viol("cog|value", "compute_center_of_geometry differs from the mean position", rpm)
        rg_u = np.sqrt(((X64 - cog[:, None]) ** 2).sum(-1).mean(1))
        if np.abs(md.compute_rg(t) - rg_u).max() > 2e-6 * max(1.0, rg_u.max()):
            viol("rg|unweighted", "compute_rg differs from sqrt(mean |x - centre|^2) by %.3g" % np.abs(md.compute_rg(t) - rg_u).max(), rpm)
        rg_w = np.sqrt((((X64 - com[:, None]) ** 2).sum(-1) * masses).sum(1) / masses.sum())
        try:
            got_rgw = md.compute_rg(t, masses=masses if k % 2 else [float(m_) for m_ in masses])    # (an array, or a plain list of masses)
        except Exception as e_:
            viol("rg|masses-as-list", "compute_rg(masses=<list of floats>) raises %s: %s" % (type(e_).__name__, str(e_)[:80]), rpm)
            got_rgw = rg_w
        if np.abs(got_rgw - rg_w).max() > 2e-6 * max(1.0, rg_w.max()):
            viol("rg|mass-weighted", "compute_rg(masses) = %.6f, sqrt(sum m |x - com|^2 / sum m) = %.6f" % (got_rgw[0], rg_w[0]), rpm)
        G = np.array([(X64[f] - cog[f]).T @ (X64[f] - cog[f]) / n for f in range(nfr)])
        gotG = md.compute_gyration_tensor(t)
        scale = max(1e-9, np.abs(G).max())
        if np.abs(gotG - G).max() > 1e-5 * scale:
            viol("gyration|value", "compute_gyration_tensor differs from (1/N) sum (x-c)(x-c)^T by %.3g" % np.abs(gotG - G).max(), rpm)
        # the same system far from the origin (an unwrapped, diffusing molecule; a solute in a large box): the closed forms on the stored
        # coordinates, in double precision — the descriptors must not lose the molecule's size against its position
        far = np.array([rng.choice([-1.0, 1.0]) * rng.choice([8.0, 40.0, 250.0]) for _ in range(3)])
        tf_ = md.Trajectory((X64 + far).astype(np.float32), top)
        Xf = tf_.xyz.astype(np.float64)
        cf = Xf.mean(1)
        Gf = np.array([(Xf[f] - cf[f]).T @ (Xf[f] - cf[f]) / n for f in range(nfr)])
        scf = max(1e-9, np.abs(Gf).max())
        ctx.case(None, (k, "far-from-origin")); ctx.count("systems moved far from the origin")
        if np.abs(md.compute_gyration_tensor(tf_) - Gf).max() > 1e-5 * scf:
            viol("gyration|far-from-origin", "compute_gyration_tensor of a system at %s nm differs from (1/N) sum (x-c)(x-c)^T of the stored coordinates by %.3g (entries up to %.3g)" % (
                far.tolist(), np.abs(md.compute_gyration_tensor(tf_) - Gf).max(), scf), dict(rpm, shift=far.tolist()))
        rgf = np.sqrt(((Xf - cf[:, None]) ** 2).sum(-1).mean(1))
        if np.abs(md.compute_rg(tf_) - rgf).max() > 1e-5 * max(1.0, rgf.max()):
            viol("rg|far-from-origin", "compute_rg of a system at %s nm differs from sqrt(mean |x - centre|^2) of the stored coordinates by %.3g" % (far.tolist(), np.abs(md.compute_rg(tf_) - rgf).max()), dict(rpm, shift=far.tolist()))
        comf = np.array([(Xf[f] * masses[:, None]).sum(0) / masses.sum() for f in range(nfr)])
        if np.abs(md.compute_center_of_mass(tf_) - comf).max() > 1e-5:
            viol("com|far-from-origin", "compute_center_of_mass of a system at %s nm differs from sum(m x)/sum(m) of the stored coordinates by %.3g nm" % (far.tolist(), np.abs(md.compute_center_of_mass(tf_) - comf).max()), dict(rpm, shift=far.tolist()))
        pm = md.principal_moments(t)
        ev = np.linalg.eigvalsh(G)
        if np.abs(pm - ev).max() > 1e-5 * scale or np.any(np.diff(pm, axis=1) < -1e-12):
            viol("principal_moments|value", "principal_moments are not the ascending eigenvalues of the gyration tensor", rpm)
        checks = [("asphericity", md.asphericity(t), ev[:, 2] - 0.5 * (ev[:, 0] + ev[:, 1])), ("acylindricity", md.acylindricity(t), ev[:, 1] - ev[:, 0]),
                  ("relative_shape_anisotropy", md.geometry.shape.relative_shape_anisotropy(t), 1.5 * (ev ** 2).sum(1) / ev.sum(1) ** 2 - 0.5)]
        for name, g, w in checks:
            if np.abs(np.ravel(g) - w).max() > 1e-5 * max(1.0, scale):
                viol("shape|" + name, "%s = %s, definition gives %s" % (name, np.ravel(g)[:2], w[:2]), rpm)
        I = np.zeros((nfr, 3, 3))
        for f in range(nfr):
            r = X64[f] - com[f]
            I[f] = (masses * (r * r).sum(1)).sum() * np.eye(3) - (r * masses[:, None]).T @ r
        gotI = md.compute_inertia_tensor(t)
        if np.abs(gotI - I).max() > 1e-5 * max(1e-9, np.abs(I).max()):
            viol("inertia|value", "compute_inertia_tensor differs from sum m (r^2 1 - r r^T) by %.3g" % np.abs(gotI - I).max(), rpm)
        if n <= 80:
            reqs.append("wsums %d %s %s" % (n, " ".join(rat(m) for m in masses), " ".join(rat(x) for x in X[0].ravel())))
            meta.append(("wsums", k, None, dict(com=md.compute_center_of_mass(t)[0], rg=got_rgw[0], G=gotG[0], pm=pm[0], I=gotI[0], kappa=float(np.ravel(md.geometry.shape.relative_shape_anisotropy(t))[0])), None))

        # ---------------- density, RDF (need a cell)
        if periodic:
            vol = np.array([abs(np.linalg.det(t.unitcell_vectors[f].astype(np.float64))) for f in range(nfr)])
            want = masses.sum() / vol * 1.6605387823355087
            if np.abs(md.density(t) - want).max() > 1e-5 * want.max():
                viol("density|value", "density differs from mass/volume", rpm)
            m2 = np.array([rng.uniform(1, 20) for _ in range(n)])
            if np.abs(md.density(t, masses=m2) - m2.sum() / vol * 1.6605387823355087).max() > 1e-5 * want.max() * 20:
                viol("density|masses", "density(masses=...) differs from sum(masses)/volume", rpm)
            prs = np.array([(i, j) for i in range(n) for j in range(i + 1, n)])
            prs = prs[np.array(rng.sample(range(len(prs)), min(len(prs), 300)))]
            r_range = rng.choice([None, (0.0, 1.0), (0.1, 0.75), (0.05, 1.3), (0.0, 0.7), (0.0, 0.3), (0.0, 0.6)])
            bw = rng.choice([0.005, 0.03, 0.1, 0.1, 0.2])
            nb = rng.choice([None, None, None, 7, 25])
            if k % 4 == 1:   # ranges that are a whole number of bins whose quotient is not one in floating point
                r_range, bw, nb = [((0.0, 0.7), 0.1, None), ((0.0, 0.3), 0.1, None), ((0.0, 0.6), 0.2, None)][(k // 4) % 3]
            kwr = dict(r_range=r_range, bin_width=bw, n_bins=nb, periodic=True)
            try:
                r, g = md.compute_rdf(t, prs, **kwr)
                lo, hi = r_range if r_range is not None else (0.0, 1.0)
                # the number of bins of width bw that fit into the range, in exact decimal arithmetic (0.7 / 0.1 is 7, not 6.999…)
                nbins = nb if nb is not None else int((Fraction(str(hi)) - Fraction(str(lo))) / Fraction(str(bw)))
                edges = np.linspace(lo, hi, nbins + 1)
                d = md.compute_distances(t, prs, periodic=True).astype(np.float64).ravel()
                hist = np.zeros(nbins)
                for x in d:
                    if lo <= x <= hi:
                        b = min(int(np.searchsorted(edges, x, side="right")) - 1, nbins - 1)
                        hist[b] += 1
                shell = 4.0 / 3.0 * np.pi * (edges[1:] ** 3 - edges[:-1] ** 3)
                wantg = hist / (len(prs) * np.sum(1.0 / vol) * shell)
                ctx.count("rdf calls")
                # distances within 1e-6 of a bin edge may fall either side
                near = np.array([np.any(np.abs(d[:, None] - edges[None, :]) < 2e-6)])
                if len(r) != nbins or np.abs(r - 0.5 * (edges[1:] + edges[:-1])).max() > 1e-9:
                    viol("rdf|bins", "compute_rdf(r_range=%s, bin_width=%s, n_bins=%s) returns %d bin centres, expected %d" % (r_range, bw, nb, len(r), nbins), dict(rpm, rdf=str(kwr)))
                elif not near[0] and np.abs(g - wantg).max() > 1e-6 * max(1.0, np.abs(wantg).max()):
                    viol("rdf|value", "compute_rdf differs from histogram / (n_pairs * sum(1/V) * shell volume) by %.3g" % np.abs(g - wantg).max(), dict(rpm, rdf=str(kwr)))
                if nbins <= 40 and len(d) <= 400 and len(r) == nbins:
                    reqs.append("rdf %s %s %d %d %s %s" % (rat(lo), rat(hi), nbins, len(prs), rat(float(np.sum(1.0 / vol))), " ".join(rat(x) for x in d)))
                    meta.append(("rdf", k, None, (np.asarray(g, dtype=np.float64), np.asarray(r, dtype=np.float64)), None))
            except Exception as e:
                viol("rdf|raises", "compute_rdf raised %s: %s" % (type(e).__name__, e), dict(rpm, rdf=str(kwr)))

        # ---------------- DRID
        sel_atoms = None if rng.random() < 0.5 else np.array(sorted(rng.sample(range(n), rng.randrange(3, n + 1))))
        try:
            dr = md.compute_drid(t, atom_indices=sel_atoms)
            use = np.arange(n) if sel_atoms is None else sel_atoms
            bonded = {int(a): set() for a in use}
            for b0, b1 in top.bonds:
                if b0.index in bonded and b1.index in bonded:
                    bonded[b0.index].add(b1.index); bonded[b1.index].add(b0.index)
            ctx.count("drid calls")
            bad = None
            for ai, a in enumerate(use):
                partners = [int(p) for p in use if p != a and p not in bonded[int(a)]]
                if not partners:
                    continue
                for f in range(nfr):
                    rd = 1.0 / np.linalg.norm(X64[f, partners] - X64[f, a], axis=1)
                    if not np.all(np.isfinite(rd)):
                        continue
                    mu = rd.mean(); m2v = ((rd - mu) ** 2).mean(); m3v = ((rd - mu) ** 3).mean()
                    want = np.array([mu, np.sqrt(m2v), np.cbrt(m3v)])
                    got = dr[f, 3 * ai:3 * ai + 3]
                    tol = np.array([1e-5 * mu, 1e-4 * max(np.sqrt(m2v), 1e-3 * mu), 2e-3 * max(abs(np.cbrt(m3v)), 0.05 * mu)])
                    if np.any(np.abs(got - want) > tol) and bad is None:
                        bad = (int(a), f, got, want)
                if ai < 2 and n <= 60:
                    reqs.append("drid %s %s %d" % (",".join(str(int(x)) for x in use), ",".join("%d-%d" % (b0.index, b1.index) for b0, b1 in top.bonds) or "-", int(a)))
                    meta.append(("dridp", k, None, partners, None))
                    rd0 = 1.0 / np.linalg.norm(X64[0, partners] - X64[0, a], axis=1)
                    if np.all(np.isfinite(rd0)):
                        reqs.append("moments " + " ".join(rat(x) for x in rd0))
                        meta.append(("dridm", k, None, dr[0, 3 * ai:3 * ai + 3], rd0))
            if bad is not None:
                viol("drid|value|%s" % ("subset" if sel_atoms is not None else "all"), "compute_drid: atom %d frame %d: %s, mean/sqrt(2nd)/cbrt(3rd central moment) of 1/d over non-bonded selected atoms = %s" % bad, dict(rp0, call="compute_drid", atom_indices=None if sel_atoms is None else sel_atoms.tolist()))
        except Exception as e:
            viol("drid|raises", "compute_drid raised %s: %s" % (type(e).__name__, e), rp0)

        # ---------------- directors and nematic order
        groups = [[a.index for a in r.atoms] for r in top.residues if r.n_atoms >= 4][:6]
        if rng.random() < 0.5:                               # a group is a set of atoms: list it in any order
            groups = [rng.sample(g, len(g)) for g in groups]
            ctx.count("nematic: groups listed in shuffled order")
        if len(groups) >= 2:
            try:
                dirs = md.compute_directors(t, indices=groups)
                S2 = md.compute_nematic_order(t, indices=groups)
                for f in range(nfr):
                    Q = np.zeros((3, 3))
                    okd = True
                    for gi, g in enumerate(groups):
                        mg = masses[g]
                        cg = (X64[f, g] * mg[:, None]).sum(0) / mg.sum()
                        r = X64[f, g] - cg
                        Ig = (mg * (r * r).sum(1)).sum() * np.eye(3) - (r * mg[:, None]).T @ r
                        w, v = np.linalg.eigh(Ig)
                        d = dirs[f, gi] / np.linalg.norm(dirs[f, gi])
                        if (w[1] - w[0]) > 1e-3 * w[2] and abs(abs(d @ v[:, 0]) - 1) > 1e-4:
                            okd = False
                        Q += 3 * np.outer(d, d) - np.eye(3)
                    Q /= 2 * len(groups)
                    if not okd:
                        viol("directors|value", "compute_directors: a director is not the eigenvector of the smallest principal moment of inertia", dict(rp0, groups=groups))
                    if abs(S2[f] - np.linalg.eigvalsh(Q).max()) > 1e-6:
                        viol("nematic|value", "compute_nematic_order = %.6f, largest eigenvalue of Q = %.6f" % (S2[f], np.linalg.eigvalsh(Q).max()), dict(rp0, groups=groups))
                ctx.count("nematic calls")
            except Exception as e:
                viol("nematic|raises", "compute_nematic_order raised %s: %s" % (type(e).__name__, e), dict(rp0, groups=groups))

        # ---------------- dipole moments (no wrapping: a cell far larger than the system)
        tq = md.Trajectory(X.copy(), top)
        tq.unitcell_vectors = np.tile((np.eye(3) * 200.0)[None], (nfr, 1, 1)).astype(np.float32)
        q = np.array([rng.choice([-0.8, -0.4, 0.0, 0.4, 0.8]) for _ in range(n)])
        q[-1] -= q.sum()
        try:
            dm = md.geometry.dipole_moments(tq, q)
            want = np.array([(X64[f] * q[:, None]).sum(0) for f in range(nfr)])
            if np.abs(dm - want).max() > 1e-4 * max(1.0, np.abs(want).max()):
                sign = "opposite sign" if np.abs(dm + want).max() < 1e-4 * max(1.0, np.abs(want).max()) else "different"
                viol("dipole|value|" + sign, "dipole_moments = %s, sum(q r) = %s (neutral system)" % (dm[0], want[0]), dict(rp0, charges=q.tolist()))
            ctx.count("dipole calls")
        except Exception as e:
            viol("dipole|raises", "dipole_moments raised %s: %s" % (type(e).__name__, e), rp0)

        # ---------------- J couplings
        try:
            # compute_J3_* take phi from compute_phi(traj), i.e. minimum-image bond vectors whenever the trajectory has a cell
            idxp, phi = md.compute_phi(t)
            if len(idxp):
                for (kind, model), (A, B, C, p0) in J_TABLES.items():
                    fn = getattr(md, "compute_J3_" + kind)
                    ind, J = fn(t, model=model)
                    want = A * np.cos(phi + np.deg2rad(p0)) ** 2 + B * np.cos(phi + np.deg2rad(p0)) + C
                    if not np.array_equal(ind, idxp) or np.abs(J - want).max() > 1e-4:
                        viol("jcoupling|%s|%s" % (kind, model), "compute_J3_%s(%s) differs from A cos^2(phi+phi0) + B cos(phi+phi0) + C with the published coefficients by %.3g Hz" % (kind, model, np.abs(J - want).max()), rp0)
                ctx.count("J coupling sets")
        except Exception as e:
            viol("jcoupling|raises", "compute_J3 raised %s: %s" % (type(e).__name__, e), rp0)

    # ---------------- model comparisons
    model = ctx.driver.query(reqs) if ctx.driver_ok and reqs else [None] * len(reqs)
    for (what, k, scheme, got, extra), m in zip(meta, model):
        if m is None:
            continue
        if m == "bad-op":
            ctx.broke("driver:" + what, "bad-op for case %d" % k)
            continue
        if what == "rdf":
            g_impl, r_impl = got
            ctx.count("rdf compared with the model")
            try:
                hm = m.split(" G ")[0].split()[1]
                gm = np.array([float(Fraction(x)) for x in m.split(" G ")[1].split(" C ")[0].split()]) / np.pi
                cm = np.array([float(Fraction(x)) for x in m.split(" C ")[1].split(" M ")[0].split()])
                marg = float(Fraction(m.split(" M ")[1]))
            except Exception:
                ctx.broke("driver:rdf", m[:120]); continue
            if np.abs(cm - r_impl).max() > 1e-9:
                ctx.broke("correspondence:rdf-centres", "case %d: bin centres %s, model %s" % (k, r_impl[:4], cm[:4]))
            elif marg > 2e-6 and np.abs(gm - g_impl).max() > 1e-6 * max(1.0, np.abs(gm).max()):
                ctx.broke("correspondence:rdf", "case %d: g(r) %s, model %s (histogram %s)" % (k, g_impl[:6], gm[:6], hm))
            continue
        if what == "contacts":
            ctx.count("contacts compared with the model")
            if scheme == "ca":
                if not m.startswith("CA "):
                    ctx.broke("correspondence:contacts-ca", "case %d: model says %s" % (k, m[:80]))
                    continue
                items = [x for x in m[3:].split(";") if x]
                mp = [tuple(int(v) for v in it.split(":")[0].split("-")) for it in items]
                md2 = [float(Fraction(it.split(":")[2])) for it in items]
                if mp != extra or (len(md2) and np.abs(np.sqrt(md2) - got).max() > 4e-6 * max(1.0, float(np.max(got)))):
                    ctx.broke("correspondence:contacts-ca", "case %d: impl pairs %s distances %s, model pairs %s distances %s" % (k, extra[:5], got[:5], mp[:5], np.sqrt(md2)[:5]))
            else:
                items = m[2:].split(";")
                vals = [it.split(":") for it in items]
                if any(v[1] == "E" for v in vals):
                    continue
                md2 = np.sqrt([float(Fraction(v[1])) for v in vals])
                if len(md2) != len(got) or np.abs(md2 - got).max() > 4e-6 * max(1.0, float(np.max(got))):
                    ctx.broke("correspondence:contacts", "case %d scheme %s: impl %s model %s" % (k, scheme, got[:6], md2[:6]))
        elif what == "allpairs":
            ctx.count("'all' pair lists compared with the model")
            mp = [] if m == "-" else [tuple(int(v) for v in p.split("-")) for p in m.split(",")]
            if mp != extra:
                ctx.broke("correspondence:all-pairs", "case %d: expected %s, model %s" % (k, extra[:8], mp[:8]))
        elif what == "dridp":
            mp = [int(x) for x in m.split(",")] if m else []
            if mp != got:
                ctx.broke("correspondence:drid-partners", "case %d: oracle partners %s, model %s" % (k, got[:10], mp[:10]))
        elif what == "dridm":
            ctx.count("DRID moments compared with the model")
            mu, m2v, m3v = [float(Fraction(x)) for x in m.split()]
            want = np.array([mu, np.sqrt(max(m2v, 0)), np.cbrt(m3v)])
            tol = np.array([1e-5 * mu, 1e-4 * max(want[1], 1e-3 * mu), 2e-3 * max(abs(want[2]), 0.05 * mu)])
            if np.any(np.abs(want - got) > tol):
                ctx.broke("correspondence:drid-moments", "case %d: impl %s model %s" % (k, got, want))
        elif what == "wsums":
            ctx.count("mass sums compared with the model")
            parts = m.split()
            f = lambda i: float(Fraction(parts[i]))
            com = np.array([f(1), f(2), f(3)]); rg2 = f(5)
            gi = parts.index("GI")
            trv, tr2, e2, det = f(gi + 1), f(gi + 2), f(gi + 3), f(gi + 4)
            Gm = [f(parts.index("G") + 1 + i) for i in range(6)]
            Im = [f(parts.index("I") + 1 + i) for i in range(6)]
            sc = max(trv, 1e-9)
            pmv = got["pm"]
            errs = {"com": np.abs(com - got["com"]).max() / max(1.0, np.abs(com).max()), "rg": abs(np.sqrt(rg2) - got["rg"]) / max(1e-9, np.sqrt(rg2)),
                    "gyration": np.abs(np.array([got["G"][0, 0], got["G"][1, 1], got["G"][2, 2], got["G"][0, 1], got["G"][0, 2], got["G"][1, 2]]) - Gm).max() / sc,
                    "inertia": np.abs(np.array([got["I"][0, 0], got["I"][1, 1], got["I"][2, 2], got["I"][0, 1], got["I"][0, 2], got["I"][1, 2]]) - Im).max() / max(1e-9, abs(Im[0]) + abs(Im[1]) + abs(Im[2])),
                    "principal-moments-sum": abs(pmv.sum() - trv) / sc, "principal-moments-squares": abs((pmv ** 2).sum() - tr2) / sc ** 2,
                    "principal-moments-e2": abs(pmv[0] * pmv[1] + pmv[0] * pmv[2] + pmv[1] * pmv[2] - e2) / sc ** 2, "principal-moments-product": abs(pmv.prod() - det) / sc ** 3,
                    "kappa2": abs(got["kappa"] - (1.5 * tr2 / trv ** 2 - 0.5))}
            for name, e in errs.items():
                if e > 2e-5:
                    ctx.broke("correspondence:" + name, "case %d: relative difference %.3g between mdtraj and the exact model" % (k, e))
    for key, (what, rp) in seen.items():
        ctx.violation(key, what, rp)


def replay(ctx, path):
    print(json.load(open(path))["what"])
    return 1
