"""C13: solvent-accessible areas are correct, additive and selection-independent.
Correspondence: md.shrake_rupley (and the static kernel asa_frame through a C shim that #includes the repo's sasa.cpp) vs
Model/Sasa.lean over exact rationals (driver `sasa`), on the kernel's own float32 sphere points: the integer point count
recovered from each area must equal the model's (points within 1e-5 nm of a neighbour surface allowed either way).
Oracle: isolated atom, analytic two-sphere cap, residue = sum of atoms, selection independence, radii/probe effect,
independent numpy evaluation on the same point set."""
import ctypes
import warnings
from fractions import Fraction

import numpy as np

import shim
from props.c05 import rat


def sphere_points(lib, n):
    out = np.zeros((n, 3), dtype=np.float32)
    lib.shim_generate_sphere_points(out.ctypes.data_as(ctypes.c_void_p), n)
    return out


def numpy_counts(xyz, radii, pts):
    """independent evaluation on the same point set (float64)"""
    n = len(xyz)
    counts, marginal = np.zeros(n, dtype=int), np.zeros(n, dtype=int)
    X = xyz.astype(np.float64); R = radii.astype(np.float64); P = pts.astype(np.float64)
    for i in range(n):
        p = X[i] + R[i] * P
        acc = np.ones(len(P), dtype=bool)
        mar = np.zeros(len(P), dtype=bool)
        for j in range(n):
            if j == i:
                continue
            d = np.linalg.norm(p - X[j], axis=1)
            acc &= d >= R[j]
            mar |= np.abs(d - R[j]) < 1e-5
        counts[i], marginal[i] = acc.sum(), mar.sum()
    return counts, marginal


def make_system(md, rng, n_atoms):
    top = md.Topology()
    ch = top.add_chain()
    # mostly organic elements, plus ions and metals: the documented radii table (_ATOMIC_RADII) differs from Element.radius for about two dozen of them
    els = ["C", "N", "O", "H", "S"] * 3 + ["P", "Na", "K", "Cl", "Mg", "Ca", "Li", "Zn", "Fe", "Cs", "Ba", "Be", "F", "Br", "I"]
    # in a third of the systems the atom numbering does not follow the residues (atoms added to an earlier residue): per-atom tables
    # (radii) and the residue mapping must follow the atom indices, i.e. the coordinate columns
    res = [top.add_residue("ALA", ch) for _ in range((n_atoms + 3) // 4)]
    scattered = rng.random() < 0.33
    for a in range(n_atoms):
        r = res[rng.randrange(len(res))] if (scattered and a % 4) else res[a // 4]     # every residue keeps one atom
        top.add_atom("X%d" % a, md.element.get_by_symbol(rng.choice(els)), r)
    xyz = np.zeros((1, n_atoms, 3))
    placed = []
    for a in range(n_atoms):
        for _ in range(200):
            if placed and rng.random() < 0.8:
                base = placed[rng.randrange(len(placed))]
                d = np.array([rng.gauss(0, 1) for _ in range(3)])
                p = base + d / np.linalg.norm(d) * rng.uniform(0.1, 0.35)
            else:
                p = np.array([rng.uniform(0, 1.5) for _ in range(3)])
            if all(np.linalg.norm(p - q) > 0.08 for q in placed):
                break
        placed.append(p)
        xyz[0, a] = p
    xyz = (np.round(xyz * 1024) / 1024).astype(np.float32)
    return md.Trajectory(xyz, top)


def run(ctx):
    warnings.filterwarnings("ignore")
    import mdtraj as md
    from mdtraj.geometry.sasa import _ATOMIC_RADII
    ctx.rule = ("clustered structures without coincident atoms (2..30 atoms, elements C N O H S) x n_sphere_points in {1,2,7,50,100,240} x probe radius x "
                "change_radii x mode x atom_indices subsets x 1..3 frames; non-trivial = distinct (structure, parameters) in which at least one atom is "
                "partly buried; points within 1e-5 nm of a neighbour's surface may fall either way and are counted")
    ctx.assumptions += ["the sphere points are an input of the model: the kernel's own generate_sphere_points is called through the shim",
                        "the analytic two-sphere cap is compared within the quadrature tolerance 3/sqrt(n) (empirical)"]
    rng = ctx.rng
    seen = {}

    def viol(key, what, rp):
        seen.setdefault(key, (what, rp))
    lib, err = shim.build("sasa")
    if lib is None:
        ctx.broke("shim:sasa", "the shim that includes the repo's sasa.cpp does not compile: " + err)
        return
    reqs, meta = [], []
    for k in range(ctx.n(45, 400)):
        n_atoms = rng.choice([2, 3, 5, 8, 12, 20, 30])
        nsp = rng.choice([1, 2, 7, 50, 100, 240])
        probe = rng.choice([0.14, 0.14, 0.0, 0.1, 0.2])
        t = make_system(md, rng, n_atoms)
        change = rng.choice([None, None, {"C": 0.2}, {"H": 0.05, "O": 0.18}])
        radii_tab = dict(_ATOMIC_RADII)
        if change:
            radii_tab.update(change)
        radii = np.array([radii_tab[t.topology.atom(i).element.symbol] + probe for i in range(t.n_atoms)], dtype=np.float32)
        pts = sphere_points(lib, nsp)
        got = md.shrake_rupley(t, probe_radius=probe, n_sphere_points=nsp, change_radii=change)[0]
        const = 4.0 * np.pi * radii.astype(np.float64) ** 2 / nsp
        cnt = got.astype(np.float64) / const
        rp = dict(n_atoms=n_atoms, n_sphere_points=nsp, probe_radius=probe, change_radii=change, xyz=t.xyz[0].tolist(), elements=[t.topology.atom(i).element.symbol for i in range(t.n_atoms)], residue_of_atom=[t.topology.atom(i).residue.index for i in range(t.n_atoms)])
        if np.abs(cnt - np.rint(cnt)).max() > 1e-3 * max(1, nsp / 50):
            viol("not-a-count", "areas are not integer multiples of 4*pi*R^2/n: recovered counts %s" % cnt.round(4).tolist(), rp)
        icnt = np.rint(cnt).astype(int)
        want, marg = numpy_counts(t.xyz[0], radii, pts)
        buried = bool((want < nsp).any())
        ctx.case(dict(n_atoms=n_atoms, n_sphere_points=nsp, probe=probe, counts=icnt.tolist()) if len(ctx.samples) < 4 else None,
                 (n_atoms, nsp, probe, str(change), tuple(t.xyz[0].ravel()[:6])) if buried else None)
        ctx.count("shrake_rupley calls")
        if (np.abs(icnt - want) > marg).any():
            i = int(np.argmax(np.abs(icnt - want) - marg))
            viol("count|atom", "atom %d: %d accessible points reported, %d points lie outside every other expanded sphere (%d marginal)" % (i, icnt[i], want[i], marg[i]), rp)
        reqs.append("sasa 1/100000 %d %s %s" % (nsp, " ".join(rat(x) for x in pts.ravel()),
                                                " ".join(" ".join(rat(x) for x in list(t.xyz[0, a]) + [radii[a]]) for a in range(n_atoms))))
        meta.append((icnt, rp))
        # the static kernel on a dirty work buffer and with a mask
        mask = np.array([1 if rng.random() < 0.7 else 0 for _ in range(n_atoms)], dtype=np.int32)
        if mask.sum() == 0:
            mask[0] = 1
        areas = np.full(n_atoms, 7.25, dtype=np.float32)       # poisoned output buffer
        wb1 = np.full(n_atoms, 12345, dtype=np.int32); wb2 = np.full(3 * nsp, np.nan, dtype=np.float32)
        fr = np.ascontiguousarray(t.xyz[0])
        lib.shim_asa_frame(fr.ctypes.data_as(ctypes.c_void_p), n_atoms, radii.ctypes.data_as(ctypes.c_void_p), pts.ctypes.data_as(ctypes.c_void_p), nsp,
                           wb1.ctypes.data_as(ctypes.c_void_p), wb2.ctypes.data_as(ctypes.c_void_p), mask.ctypes.data_as(ctypes.c_void_p), areas.ctypes.data_as(ctypes.c_void_p))
        sel = mask == 1
        # the shim is a separate compilation of the same source (other optimisation flags): allow the last ulp of `count*constant*r*r`
        if not np.allclose(areas[sel], got[sel], rtol=1e-6, atol=0):
            viol("kernel|dirty-buffer", "asa_frame on a poisoned buffer gives %s for the selected atoms, a clean call %s" % (areas[sel].tolist(), got[sel].tolist()), rp)
        if not np.all(areas[~sel] == np.float32(7.25)):
            viol("kernel|unselected-touched", "asa_frame wrote to the slots of unselected atoms", rp)
        # selection independence, residue mode, -1 for unselected
        idx = np.where(sel)[0]
        ga = md.shrake_rupley(t, probe_radius=probe, n_sphere_points=nsp, change_radii=change, atom_indices=idx)[0]
        if not (np.array_equal(ga[sel], got[sel]) and np.all(ga[~sel] == -1)):
            viol("selection", "atom_indices=%s: selected atoms %s (all-atom run %s), unselected %s" % (idx.tolist(), ga[sel].tolist(), got[sel].tolist(), ga[~sel].tolist()), rp)
        # which atoms are computed at all: the pattern of -1 against the selection mask of the model (maskOf), for the selection, no selection
        # and the empty one
        if ctx.driver_ok:
            sels_ = [("none", None), ("-", np.array([], dtype=int)), (",".join(str(int(i_)) for i_ in idx) if len(idx) else "-", idx)]
            masks_ = ctx.driver.query(["sasamask %d %s" % (t.n_atoms, s_) for s_, _ in sels_])
            for (s_, arg_), mk_ in zip(sels_, masks_):
                try:
                    pat_ = "".join("0" if v_ == -1 else "1" for v_ in md.shrake_rupley(t, probe_radius=probe, n_sphere_points=nsp, change_radii=change, atom_indices=arg_)[0])
                except Exception as e_:
                    pat_ = "raised " + type(e_).__name__
                ctx.count("selection masks compared with the model")
                if mk_ != pat_:
                    ctx.broke("correspondence:selection-mask", "atom_indices=%s on %d atoms: computed atoms %s, the model's mask %s" % (s_, t.n_atoms, pat_, mk_))
                    break
        # a selection that matches nothing (top.select("resname LIG") without a ligand): nothing is computed, every atom and residue reports -1
        for empty_ in (np.array([], dtype=int), [], ()):
            try:
                ge = md.shrake_rupley(t, probe_radius=probe, n_sphere_points=nsp, change_radii=change, atom_indices=empty_)
                gre = md.shrake_rupley(t, probe_radius=probe, n_sphere_points=nsp, change_radii=change, atom_indices=empty_, mode="residue")
            except Exception as e:
                viol("selection|empty|raises", "atom_indices=%r (no atom selected) raises %s: %s" % (empty_, type(e).__name__, str(e)[:100]), rp)
                continue
            if not (np.all(ge == -1) and np.all(gre == -1) and ge.shape == (t.n_frames, t.n_atoms) and gre.shape == (t.n_frames, t.n_residues)):
                viol("selection|empty", "atom_indices=%r (no atom selected) gives atom areas %s and residue areas %s; every entry is -1 when nothing is selected" % (
                    empty_, ge[0].tolist(), gre[0].tolist()), rp)
        gr = md.shrake_rupley(t, probe_radius=probe, n_sphere_points=nsp, change_radii=change, mode="residue")[0]
        resid = np.array([t.topology.atom(i).residue.index for i in range(t.n_atoms)])
        sums = np.array([got[resid == r].astype(np.float64).sum() for r in range(t.n_residues)])
        if not np.allclose(gr, sums, rtol=2e-6, atol=1e-6):
            viol("residue-sum", "residue mode %s is not the sum of atom mode %s" % (gr.tolist(), sums.tolist()), rp)
        grs = md.shrake_rupley(t, probe_radius=probe, n_sphere_points=nsp, change_radii=change, mode="residue", atom_indices=idx)[0]
        want_rs = np.array([got[(resid == r) & sel].astype(np.float64).sum() if ((resid == r) & sel).any() else -1 for r in range(t.n_residues)])
        if not np.allclose(grs, want_rs, rtol=2e-6, atol=1e-6):
            viol("residue-selection", "residue mode with atom_indices: %s, expected %s" % (grs.tolist(), want_rs.tolist()), rp)
    # analytic cases
    for nsp in (50, 240, 960):
        for probe in (0.0, 0.14):
            t1 = make_system(md, rng, 1)
            R = _ATOMIC_RADII[next(t1.topology.atoms).element.symbol] + probe
            a = float(md.shrake_rupley(t1, probe_radius=probe, n_sphere_points=nsp)[0, 0])
            ctx.case(None, ("isolated", nsp, probe)); ctx.count("analytic cases")
            if abs(a - 4 * np.pi * R * R) > 1e-5 * 4 * np.pi * R * R:
                viol("isolated", "isolated atom: area %.6f, 4*pi*(r+probe)^2 = %.6f" % (a, 4 * np.pi * R * R), dict(n_sphere_points=nsp, probe=probe))
            top = md.Topology(); ch = top.add_chain(); r = top.add_residue("X", ch)
            top.add_atom("C1", md.element.carbon, r); top.add_atom("O1", md.element.oxygen, r)
            d = 0.2
            t2 = md.Trajectory(np.array([[[0, 0, 0], [d, 0, 0]]], dtype=np.float32), top)
            R1, R2 = _ATOMIC_RADII["C"] + probe, _ATOMIC_RADII["O"] + probe
            g = md.shrake_rupley(t2, probe_radius=probe, n_sphere_points=nsp)[0]
            h1 = R1 - (d * d + R1 * R1 - R2 * R2) / (2 * d)      # height of the cap of sphere 1 inside sphere 2
            want1 = 4 * np.pi * R1 * R1 - 2 * np.pi * R1 * max(0.0, min(2 * R1, h1))
            ctx.case(None, ("two-sphere", nsp, probe)); ctx.count("analytic cases")
            if abs(g[0] - want1) > 3.0 / np.sqrt(nsp) * 4 * np.pi * R1 * R1 / 4:
                viol("two-sphere", "two overlapping spheres: area %.5f, analytic cap-removed area %.5f (n=%d)" % (g[0], want1, nsp), dict(n_sphere_points=nsp, probe=probe))
    model = ctx.driver.query(reqs) if ctx.driver_ok else [None] * len(reqs)
    for (icnt, rp), m in zip(meta, model):
        if m is None:
            continue
        for i, part in enumerate(m.split(",")):
            ck, cs, mg = [int(x) for x in part.split(":")]
            if ck != cs:
                ctx.broke("model:kernel-vs-spec", "the transcribed kernel count %d differs from the specification count %d (atom %d)" % (ck, cs, i))
            if abs(icnt[i] - ck) > mg:
                ctx.broke("correspondence:sasa-count", "atom %d: impl count %d, model %d (marginal points %d); %s points, %s atoms" % (i, icnt[i], ck, mg, rp["n_sphere_points"], rp["n_atoms"]))
                break
    # ---- arguments: a numpy float64 probe radius is a radius; indices that are negative, boolean or two-dimensional, and a sphere without
    # points, are refused rather than given areas in other atoms' slots
    tv = make_system(md, rng, 8)
    ref_ = md.shrake_rupley(tv, probe_radius=0.14, n_sphere_points=50)
    ctx.case(None, ("arguments",)); ctx.count("argument-form calls", 6)
    try:
        got_ = md.shrake_rupley(tv, probe_radius=np.float64(0.14), n_sphere_points=50)
        if not np.array_equal(got_, ref_):
            viol("arguments|probe-float64", "probe_radius=np.float64(0.14) gives other areas than probe_radius=0.14", dict())
    except Exception as e:  # noqa: BLE001
        viol("arguments|probe-float64", "probe_radius=np.float64(0.14) raised %s: %s" % (type(e).__name__, str(e)[:80]), dict())
    for label_, bad_ in (("negative", [-1]), ("negative-mixed", [0, -1]), ("boolean-mask", np.array([True, False] * 4)), ("two-dimensional", [[0, 1]])):
        try:
            got_ = md.shrake_rupley(tv, probe_radius=0.14, n_sphere_points=50, atom_indices=bad_)[0]
            sel_ = np.zeros(8, bool); sel_[np.asarray(bad_).ravel().astype(int) % 8 if label_ != "boolean-mask" else np.asarray(bad_)] = True
            if not (np.allclose(got_[sel_], ref_[0][sel_]) and np.all(got_[~sel_] == -1)):
                viol("arguments|atom_indices|" + label_, "atom_indices=%s is accepted and gives %s (all-atom areas %s)" % (np.asarray(bad_).tolist(), got_.tolist(), ref_[0].tolist()), dict(atom_indices=np.asarray(bad_).tolist()))
        except (ValueError, IndexError, TypeError):
            pass
    for nsp_ in (0, -1):
        try:
            got_ = md.shrake_rupley(tv, n_sphere_points=nsp_)
            viol("arguments|n_sphere_points", "n_sphere_points=%d is accepted and gives %s" % (nsp_, got_[0][:3].tolist()), dict(n_sphere_points=nsp_))
        except (ValueError, OverflowError, MemoryError):
            pass
    for key, (what, rp) in seen.items():
        ctx.violation(key, what, rp)


def replay(ctx, path):
    import json
    print(json.load(open(path))["what"])
    return 1
