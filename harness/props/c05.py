"""C05: periodic distances and displacements are true minimum-image values.
Correspondence: compute_displacements / compute_distances / compute_distances_t (opt and reference paths, periodic or not)
vs Model/Mic.lean over exact rationals (driver `mic`): displacement vectors (bit-exact on the dyadic grid for
orthorhombic cells, within a float32 envelope otherwise), squared distances, with rounding ties excluded by the margins
the model reports.  Oracle: brute-force lattice enumeration in float64 around the result."""
import itertools
import warnings
from fractions import Fraction

import numpy as np

GRID = 64.0


def rat(x):
    f = Fraction(float(x))
    return "%d/%d" % (f.numerator, f.denominator) if f.denominator != 1 else str(f.numerator)


def cells(rng):
    """box vector triples (rows a, b, c), dyadic entries"""
    g = lambda v: round(v * 32) / 32.0
    L = g(rng.uniform(1.5, 4.0))
    out = []
    kind = rng.choice(["cubic", "ortho", "mono", "hex60", "hex120", "truncoct", "rhombdod", "tri", "tri", "unreduced"])
    if kind == "cubic":
        v = [[L, 0, 0], [0, L, 0], [0, 0, L]]
    elif kind == "ortho":
        v = [[L, 0, 0], [0, g(L * rng.uniform(1, 3)), 0], [0, 0, g(L * rng.uniform(1, 6))]]
    elif kind == "mono":
        v = [[L, 0, 0], [0, g(L * 1.2), 0], [g(L * rng.uniform(-0.45, 0.45)), 0, g(L * rng.uniform(0.9, 2))]]
    elif kind == "hex60":
        v = [[L, 0, 0], [g(L / 2), g(L * 0.8660254), 0], [0, 0, g(L * rng.uniform(0.8, 2))]]
    elif kind == "hex120":
        v = [[L, 0, 0], [g(-L / 2), g(L * 0.8660254), 0], [0, 0, g(L * rng.uniform(0.8, 2))]]
    elif kind == "truncoct":
        v = [[L, 0, 0], [g(L / 3), g(2 * np.sqrt(2) * L / 3), 0], [g(-L / 3), g(np.sqrt(2) * L / 3), g(np.sqrt(6) * L / 3)]]
    elif kind == "rhombdod":
        v = [[L, 0, 0], [0, L, 0], [g(L / 2), g(L / 2), g(np.sqrt(2) * L / 2)]]
    elif kind == "tri":
        a, b, c = L, g(L * rng.uniform(1, 2.5)), g(L * rng.uniform(1, 4))
        v = [[a, 0, 0], [g(b * rng.uniform(-0.5, 0.5)), b, 0], [g(a * rng.uniform(-0.5, 0.5)), g(b * rng.uniform(-0.5, 0.5)), c]]
    else:  # unreduced input form: c carries multiples of a and b
        a, b, c = L, g(L * 1.5), g(L * 2)
        v = [[a, 0, 0], [g(0.3 * a) + rng.choice([-1, 1, 2]) * a, b, 0], [g(0.2 * a) + rng.choice([1, -2]) * a, g(0.25 * b) + rng.choice([1, -1]) * b, c]]
    return kind, np.array(v, dtype=np.float32)


def make_traj(md, rng, n_frames, n_atoms, force_ortho=None):
    top = md.Topology()
    ch = top.add_chain()
    r = top.add_residue("X", ch)
    for i in range(n_atoms):
        top.add_atom("C%d" % i, md.element.carbon, r)
    kinds, vecs = [], []
    derived = rng.random() < 0.4       # later frames differ from the previous one in a single box component (or not at all)
    for f in range(n_frames):
        if derived and f > 0:
            v = vecs[-1].copy()
            which = rng.choice(["same", "cz", "by", "cy", "cx", "bx", "ax"])
            if which == "cz":
                v[2, 2] = round(float(v[2, 2]) * rng.choice([1.0625, 1.125]) * 32) / 32
            elif which == "by":
                v[1, 1] = round(float(v[1, 1]) * rng.choice([1.0625, 1.125]) * 32) / 32
            elif which == "ax":
                v[0, 0] = round(float(v[0, 0]) * rng.choice([1.0625, 1.125]) * 32) / 32
            elif which == "cy" and kinds[-1] not in ("cubic", "ortho"):
                v[2, 1] = v[2, 1] + rng.choice([-1, 1]) / 16
            elif which == "cx" and kinds[-1] not in ("cubic", "ortho"):
                v[2, 0] = v[2, 0] + rng.choice([-1, 1]) / 16
            elif which == "bx" and kinds[-1] not in ("cubic", "ortho"):
                v[1, 0] = v[1, 0] + rng.choice([-1, 1]) / 16
            kinds.append(kinds[-1]); vecs.append(v)
            continue
        while True:
            k, v = cells(rng)
            is_ortho = k in ("cubic", "ortho")
            if force_ortho is None or is_ortho == force_ortho:
                break
        kinds.append(k); vecs.append(v)
    vecs = np.array(vecs, dtype=np.float32)
    xyz = np.zeros((n_frames, n_atoms, 3), dtype=np.float32)
    # a quarter of the trajectories hold a compact group of atoms in every frame (a solute cut out of its solvent): every coordinate range
    # is below half the shortest cell edge, and in a skewed cell a periodic image can still be the nearer one
    compact = rng.random() < 0.25
    for f in range(n_frames):
        span = float(vecs[f].max())
        if compact:
            side = 0.49 * float(np.linalg.norm(vecs[f].astype(np.float64), axis=1).min())
            origin = np.array([rng.uniform(-1, 1) * span for _ in range(3)])
        for a in range(n_atoms):
            if compact:
                p = origin + np.array([rng.choice([0.0, 1.0, rng.random()]) * side for _ in range(3)])
            else:
                mode = rng.random()
                # inside the cell, a few cells away, tens of cells away (an unwrapped trajectory after a long run: the number of box lengths
                # to shift by must still come out right), nearly coincident
                scale = 1.0 if mode < 0.4 else (6.0 if mode < 0.68 else (40.0 if mode < 0.8 else 0.02))
                p = np.array([rng.uniform(-scale, scale) * span for _ in range(3)])
            xyz[f, a] = np.round(p * GRID) / GRID
    t = md.Trajectory(xyz, top)
    t.unitcell_vectors = vecs
    return t, kinds


def brute_min(box, r, R=3):
    """float64 brute force over the lattice points within R cells of the one nearest to -r (box rows a,b,c)"""
    # the same lattice in a reduced basis (c -= b*round(cy/by), c -= a*round(cx/ax), b -= a*round(bx/ax) for lower-triangular cells), so that the
    # minimum lies within R cells of the nearest lattice point even for strongly skewed input forms
    box = np.array(box, dtype=np.float64)
    if box[0, 1] == 0 and box[0, 2] == 0 and box[1, 2] == 0 and box[0, 0] != 0 and box[1, 1] != 0:
        box[2] -= box[1] * np.rint(box[2, 1] / box[1, 1])
        box[2] -= box[0] * np.rint(box[2, 0] / box[0, 0])
        box[1] -= box[0] * np.rint(box[1, 0] / box[0, 0])
    base = -np.rint(np.linalg.solve(box.T, r))
    rng_ = np.arange(-R, R + 1)
    I, J, K = np.meshgrid(rng_ + base[0], rng_ + base[1], rng_ + base[2], indexing="ij")
    L = (I[..., None] * box[0] + J[..., None] * box[1] + K[..., None] * box[2]).reshape(-1, 3)
    v = r[None, :] + L
    d2 = (v * v).sum(1)
    return float(d2.min())


def width(box):
    a, b, c = box.astype(np.float64)
    V = abs(np.dot(a, np.cross(b, c)))
    return min(V / np.linalg.norm(np.cross(b, c)), V / np.linalg.norm(np.cross(c, a)), V / np.linalg.norm(np.cross(a, b)))


def run(ctx):
    warnings.filterwarnings("ignore")
    import mdtraj as md
    ctx.rule = ("dyadic-grid coordinates (inside the cell, up to 6 cell lengths away, nearly coincident) x cells (cubic, orthorhombic, monoclinic, "
                "hexagonal 60/120, truncated octahedron, rhombic dodecahedron, random triclinic, unreduced input form; per-frame varying) x pair "
                "lists (with repeated pairs and i==j) x opt x periodic x time pairs; non-trivial = distinct (cell, separation) with |r| beyond half a cell "
                "length; cases within 1e-4 of a rounding tie or with near-degenerate best images are excluded from the model comparison and counted")
    ctx.assumptions += ["float32 rounding inside the kernels (comparison inside 2e-5 relative / 3e-5 nm absolute; bit-exact displacement is demanded "
                        "only for orthorhombic cells on the grid)", "sqrtf"]
    rng = ctx.rng
    seen = {}

    def viol(key, what, rp):
        seen.setdefault(key, (what, rp))

    n_traj = ctx.n(36, 300)
    reqs, meta = [], []
    for ti in range(n_traj):
        force = [True, False, None][ti % 3]
        t, kinds = make_traj(md, rng, n_frames=rng.choice([3, 4, 5]), n_atoms=6, force_ortho=force)
        pairs = np.array([(0, 1), (1, 2), (2, 3), (3, 4), (4, 5), (5, 0), (0, 1), (2, 2), (1, 4)])
        box = t.unitcell_vectors          # what the kernels are given (float32)
        orth = bool(np.allclose(t.unitcell_angles, 90))
        for opt in ([True, False] if ti % 4 == 0 else [True]):
            disp = md.compute_displacements(t, pairs, periodic=True, opt=opt)
            dist = md.compute_distances(t, pairs, periodic=True, opt=opt)
            for f in range(t.n_frames):
                for pi, (a, b) in enumerate(pairs):
                    r = t.xyz[f, b].astype(np.float64) - t.xyz[f, a].astype(np.float64)
                    kind = "ortho" if (orth and opt) else ("tri" if opt else ("trifirst" if not orth else "trifirst"))
                    rnd = ("hz" if orth else "ha") if opt else "he"
                    if not opt and orth:
                        kind = "triwraponly"
                    reqs.append("mic %s %s %s %s" % ("tri" if kind == "triwraponly" else kind, rnd, " ".join(rat(x) for x in box[f].ravel()), " ".join(rat(x) for x in r)))
                    meta.append(dict(ti=ti, f=f, pair=(int(a), int(b)), opt=opt, orth=orth, kind=kind, cell=kinds[f], box=box[f].copy(), r=r,
                                     disp=disp[f, pi].astype(np.float64), dist=float(dist[f, pi])))
        # non-periodic, and periodic=True without a cell
        dn = md.compute_displacements(t, pairs, periodic=False)
        plain = t.xyz[:, pairs[:, 1]] - t.xyz[:, pairs[:, 0]]
        ctx.case(None, None); ctx.count("non-periodic calls")
        if not np.array_equal(dn, plain):
            viol("nonperiodic", "compute_displacements(periodic=False) differs from the plain coordinate difference", dict(traj=ti))
        t2 = md.Trajectory(t.xyz.copy(), t.topology)
        if not np.allclose(md.compute_distances(t2, pairs, periodic=True), np.linalg.norm(plain, axis=-1), rtol=2e-6, atol=1e-6):
            viol("nocell", "compute_distances(periodic=True) on a trajectory without cell is not the plain Euclidean distance", dict(traj=ti))
        # time-pair variant against the single-frame kernels
        if ti % 2 == 0 and t.n_frames >= 3:        # every cell regime (the regime cycles with ti % 3)
            nfr_ = t.n_frames
            # the diagonal, then a fixed-lag chain (0,1),(1,2),(2,3)..., then random pairs with repeats and reversals
            times = [(0, 0), (1, 1), (2, 2)] + [(f, f + 1) for f in range(nfr_ - 1)] + [(rng.randrange(nfr_), rng.randrange(nfr_)) for _ in range(4)] + [(2, 1), (0, 2)]
            times = np.array(times)
            # the self pair (2, 2) between two frames is an atom's own displacement (van Hove / MSD analyses): keep atom 2 within a
            # fraction of the cell width of where it started, up to a lattice vector, so that this displacement is inside the defined range
            for f in range(1, nfr_):
                bf = box[f].astype(np.float64)
                step = np.array([rng.uniform(-1, 1) for _ in range(3)]) * 0.12 * float(width(bf))
                shift = rng.randrange(-2, 3) * bf[0] + rng.randrange(-2, 3) * bf[1] + rng.randrange(-2, 3) * bf[2]
                t.xyz[f, 2] = (t.xyz[0, 2].astype(np.float64) + step + shift).astype(np.float32)
            dt = md.compute_distances_t(t, pairs, times, periodic=True, opt=True)
            dr = md.compute_distances_t(t, pairs, times, periodic=True, opt=False)
            ctx.case(None, None); ctx.count("compute_distances_t calls")
            for k in range(3):
                same = md.compute_distances(t, pairs, periodic=True)[k]
                if not np.allclose(dt[k], same, rtol=2e-6, atol=2e-6):
                    viol("t-variant", "compute_distances_t with the time pair (k,k) differs from compute_distances on frame k", dict(traj=ti, frame=k))
            for k, (ta, tb) in enumerate(times):
                for pi, (a, b) in enumerate(pairs):
                    r = t.xyz[tb, b].astype(np.float64) - t.xyz[ta, a].astype(np.float64)
                    want = np.sqrt(brute_min(box[ta].astype(np.float64), r))
                    w = width(box[ta])
                    if want < 0.5 * w - 1e-3 and abs(dt[k, pi] - want) > 3e-5 + 2e-5 * want:
                        viol("t-variant-min", "compute_distances_t(opt=True) time pair %s pair %s: %.6f, minimum image %.6f" % ((ta, tb), (a, b), dt[k, pi], want), dict(traj=ti))
                    if want < 0.5 * w - 1e-3 and abs(dr[k, pi] - want) > 3e-5 + 2e-5 * want:
                        viol("t-variant-min-ref", "compute_distances_t(opt=False) time pair %s pair %s: %.6f, minimum image %.6f" % ((ta, tb), (a, b), dr[k, pi], want), dict(traj=ti))
    # ---- find_closest_contact: the closest pair of two groups is the minimum of compute_distances over the pairs (within the range where the
    # minimum image is defined); indices that name no atom are refused, not read
    for k_ in range(ctx.n(8, 60)):
        tq, kinds_q = make_traj(md, rng, n_frames=2, n_atoms=8, force_ortho=[True, False][k_ % 2])
        g1 = sorted(rng.sample(range(8), rng.randrange(1, 4))); g2 = sorted(rng.sample([a for a in range(8) if a not in g1], rng.randrange(1, 4)))
        fr_ = rng.randrange(2)
        prs = np.array([(a, b) for a in g1 for b in g2])
        dd = md.compute_distances(tq, prs, periodic=True)[fr_]
        ctx.case(None, None); ctx.count("find_closest_contact calls")
        try:
            i_, j_, d_ = md.find_closest_contact(tq, g1, g2, frame=fr_, periodic=True)
            if dd.min() < 0.5 * width(tq.unitcell_vectors[fr_]) - 1e-3 and (abs(d_ - dd.min()) > 3e-5 + 2e-5 * dd.min() or abs(dd[[tuple(p_) for p_ in prs.tolist()].index((i_, j_))] - dd.min()) > 3e-5):
                viol("closest-contact|value", "find_closest_contact(%s, %s) in a %s cell: pair (%d, %d) at %.6f, the smallest compute_distances over the pairs is %.6f" % (g1, g2, kinds_q[fr_], i_, j_, d_, dd.min()), dict(groups=[g1, g2]))
        except Exception as e:  # noqa: BLE001
            viol("closest-contact|raises", "find_closest_contact raised %s: %s" % (type(e).__name__, str(e)[:80]), dict(groups=[g1, g2]))
        for badg in ([8], [-1], []):
            try:
                r_ = md.find_closest_contact(tq, g1, badg, frame=fr_)
                viol("closest-contact|index-not-refused", "find_closest_contact(%s, %s) on 8 atoms returned %s instead of refusing the index" % (g1, badg, (r_,)), dict(group=badg))
            except (ValueError, IndexError, TypeError):
                pass
    model = ctx.driver.query(reqs) if ctx.driver_ok else [None] * len(reqs)
    excluded = 0
    for mt, m in zip(meta, model):
        box, r, disp, dist = mt["box"].astype(np.float64), mt["r"], mt["disp"], mt["dist"]
        w = width(box)
        far = float(np.linalg.norm(r)) > 0.5 * float(np.abs(box).max())
        ctx.case(dict(cell=mt["cell"], r=[float(x) for x in r], opt=mt["opt"], disp=[float(x) for x in disp]) if far else None,
                 (mt["cell"], tuple(np.round(box.ravel(), 5)), tuple(r)) if far else None)
        ctx.count("pairs:" + ("opt" if mt["opt"] else "ref") + (":ortho" if mt["orth"] else ":tri"))
        rp = dict(box=box.tolist(), r=r.tolist(), opt=mt["opt"], periodic=True, got_displacement=disp.tolist(), got_distance=dist, cell=mt["cell"])
        scale = max(1.0, float(np.abs(r).max()))
        tol = 3e-5 + 2e-6 * scale
        # --- oracle 1: congruence: (disp - r) is an integer combination of the box rows
        coef = np.linalg.solve(box.T, disp - r)
        if np.abs(coef - np.rint(coef)).max() > 1e-3:
            viol("not-congruent|%s|%s" % ("opt" if mt["opt"] else "ref", "ortho" if mt["orth"] else "tri"),
                 "displacement %s for r=%s in cell %s is not r plus an integer combination of the cell vectors (coefficients %s)" % (disp, r, box.tolist(), coef), rp)
        # --- oracle 2: distance is the length of the displacement
        if abs(dist - float(np.linalg.norm(disp))) > tol:
            viol("dist-vs-disp", "compute_distances %.7f is not the length %.7f of compute_displacements" % (dist, np.linalg.norm(disp)), rp)
        # --- oracle 3: minimality (always for orthorhombic cells; inside half the width for skewed cells), never below
        want = np.sqrt(brute_min(box, r))
        if dist < want - tol:
            viol("below-minimum", "distance %.7f is below the minimum image distance %.7f" % (dist, want), rp)
        inside = want < 0.5 * w - 1e-3
        if (mt["orth"] or inside) and abs(dist - want) > tol:
            viol("not-minimum|%s|%s" % ("opt" if mt["opt"] else "ref", "ortho" if mt["orth"] else "tri"),
                 "distance %.7f for r=%s in %s cell %s, minimum image distance %.7f (half width %.4f)" % (dist, r.tolist(), mt["cell"], box.tolist(), want, 0.5 * w), rp)
        # --- correspondence with the exact model
        if m is None:
            continue
        parts = m.split()
        md_, mn = [float(Fraction(x)) for x in parts[1:4]], float(Fraction(parts[5]))
        margin = float(Fraction(parts[7]))
        gap = float(Fraction(parts[9]))
        if margin < 1e-4 or gap < 1e-4 * max(mn, 1e-3) or (len(parts) > 11 and int(parts[11]) > 1):
            excluded += 1
            continue
        if mt["kind"] == "triwraponly":
            md_ = [float(Fraction(x)) for x in parts[13:16]]    # reference path on orthogonal cells: wrapped vector, no search
            mn = sum(x * x for x in md_)
        exact_ok = mt["orth"] and mt["opt"]
        if exact_ok and not np.array_equal(np.array(md_, dtype=np.float32), disp.astype(np.float32)):
            ctx.broke("correspondence:displacement-ortho", "cell %s r=%s: impl %s model %s" % (box.tolist(), r.tolist(), disp.tolist(), md_))
        elif np.abs(np.array(md_) - disp).max() > tol:
            ctx.broke("correspondence:displacement", "%s cell %s r=%s opt=%s: impl %s model %s" % (mt["cell"], box.tolist(), r.tolist(), mt["opt"], disp.tolist(), md_))
        if abs(dist * dist - mn) > 2 * tol * max(dist, 1e-3) + 1e-9:
            ctx.broke("correspondence:distance", "%s cell r=%s: impl d2 %.8f model %.8f" % (mt["cell"], r.tolist(), dist * dist, mn))
    ctx.counters["excluded near ties"] = excluded
    for key, (what, rp) in seen.items():
        ctx.violation(key, what, rp)


def replay(ctx, path):
    import json
    print(json.load(open(path))["what"])
    return 1
