"""C12: every selection expression selects exactly the atoms its meaning denotes.
Correspondence: Topology.select on generated expressions vs Model/Selection.lean (driver `sel`: token-level parser
with the code's precedence levels + evaluator), three ways with eval(select_expression()).
Oracle: the generator's own expression tree evaluated directly in Python under the documented meaning
(comparisons > not > and > or; aliases equivalent); malformed strings must be rejected."""
import itertools
import re
import warnings
from fractions import Fraction

CMP = {"lt": ["<", "lt"], "le": ["<=", "le"], "eq": ["==", "eq"], "ne": ["!=", "ne"], "ge": [">=", "ge"], "gt": [">", "gt"]}
AND, OR, NOT = ["and", "&&"], ["or", "||"], ["not", "!"]
BOOL_KW = [["all", "everything"], ["none", "nothing"], ["backbone", "is_backbone"], ["sidechain", "is_sidechain"],
           ["protein", "is_protein"], ["water", "waters", "is_water"]]
STR_KW = [["name"], ["resname", "resn"], ["type", "element", "symbol"], ["segment_id", "segname"], ["code", "rescode", "resc"]]
INT_KW = [["index"], ["n_bonds"], ["residue", "resSeq"], ["resid", "resi"], ["chainid"]]
FLT_KW = [["mass"]]


def hexs(s):
    return s.encode().hex()


def build_top(md):
    top = md.Topology()
    E = md.element
    c0 = top.add_chain("A")
    seq = [("ALA", 1), ("GLY", 2), ("PRO", 2), ("SER", 7)]
    atoms = {"ALA": ["N", "CA", "C", "O", "CB", "H"], "GLY": ["N", "CA", "C", "O", "H"], "PRO": ["N", "CA", "C", "O", "CB", "CG"], "SER": ["N", "CA", "C", "O", "CB", "OG"]}
    el = lambda n: {"N": E.nitrogen, "C": E.carbon, "O": E.oxygen, "H": E.hydrogen, "S": E.sulfur, "P": E.phosphorus}[n[0]]
    prev_c = None
    for rn, rs in seq:
        r = top.add_residue(rn, c0, rs, "SEGA")
        made = {}
        for an in atoms[rn]:
            made[an] = top.add_atom(an, el(an), r)
        top.add_bond(made["N"], made["CA"]); top.add_bond(made["CA"], made["C"]); top.add_bond(made["C"], made["O"])
        if prev_c is not None:
            top.add_bond(prev_c, made["N"])
        prev_c = made["C"]
    c1 = top.add_chain("B")
    for k in range(2):
        r = top.add_residue("HOH", c1, 10 + k, "")
        o = top.add_atom("O", E.oxygen, r); h1 = top.add_atom("H1", E.hydrogen, r); h2 = top.add_atom("H2", E.hydrogen, r)
        top.add_bond(o, h1); top.add_bond(o, h2)
    r = top.add_residue("NA", c1, 12, "ION")
    top.add_atom("NA", E.sodium, r)
    c2 = top.add_chain("C")
    r = top.add_residue("LIG", c2, 1, "SEGA")
    top.add_atom("C1", E.carbon, r); top.add_atom("CA", E.calcium, r); top.add_atom("O", E.oxygen, r)
    # a nucleotide: primed atom names can only be written as quoted literals whose content ends with the other kind of quote
    r = top.add_residue("DA", c2, 2, "SEGA")
    for an in ["P", "O5'", "C5'", "C4'", "O4'", "H5''", "C5"]:
        top.add_atom(an, el(an), r)
    # force-field style lower-case names that merely BEGIN with an operator or keyword spelling: each is one bare word, i.e. one literal
    r = top.add_residue("leu", c2, 3, "orx")
    for an in LOWER_NAMES:
        top.add_atom(an, E.carbon if an[0] != "n" else E.nitrogen, r)
    # hydrogen names of older PDB / GROMACS files begin with a digit (1HB, 2HD1); "HB", "HD1" and a residue "1HB" exist too, so that reading
    # "1HB" as the number 1 followed by the word HB selects other atoms
    r = top.add_residue("HID", c2, 4, "SEGA")
    for an in DIGIT_NAMES + ["HB", "HD1"]:
        top.add_atom(an, E.hydrogen, r)
    r = top.add_residue("5CY", c2, 5, "SEGA")
    top.add_atom("HB", E.hydrogen, r); top.add_atom("C1", E.carbon, r)
    r = top.add_residue("0E5", c2, 6, "2E5")
    top.add_atom("N", E.nitrogen, r); top.add_atom("CA", E.carbon, r)
    return top


DIGIT_NAMES = ["1HB", "2HB", "1HD1", "22HX", "0E5", "1e2"]      # the last two look like numbers in scientific notation and are names (0E5 is a PDB component id)


LOWER_NAMES = ["ne2", "and1", "orx", "lt3", "eq1", "ge1", "le5", "gta", "nex", "notb", "in2", "to1", "water1", "all2", "name3", "within"]


def atom_table(md, top):
    """attribute values of every atom for every keyword, taken from the real objects (inputs of the model)"""
    from mdtraj.core.selection import SelectionKeyword
    import ast
    rows = []
    for atom in top.atoms:
        row = {}
        for kw, node in SelectionKeyword.keyword_aliases.items():
            src = ast.unparse(node)
            try:
                row[kw] = eval(src, {"atom": atom})
            except Exception:  # noqa: BLE001
                row[kw] = None
        # the number of bonds of an atom, counted here from the bond list (not through the attribute the keyword reads)
        row["n_bonds"] = sum(1 for b in top.bonds if b[0] is atom or b[1] is atom)
        rows.append(row)
    return rows


def enc_val(v):
    if v is None:
        return "n"
    if isinstance(v, bool):
        return "b1" if v else "b0"
    if isinstance(v, int):
        return "i%d" % v
    if isinstance(v, float):
        f = Fraction(repr(v))
        return "d%d/%d" % (f.numerator, f.denominator)
    return "s" + hexs(str(v))


def enc_atoms(rows):
    return "|".join(",".join("%s=%s" % (k, enc_val(v)) for k, v in sorted(r.items())) for r in rows)


# ---- expression trees ------------------------------------------------------------------------------------------
# ("kwbool", group) ("inlist", group, [lit]) ("range", group, lo, hi) ("cmp", [operands], [ops]) ("regex", group, pat)
# ("not", e) ("and", [e]) ("or", [e]);  operands of cmp: ("kw", group) | ("lit", lit);  lit = ("n", int) | ("d", "5.5") | ("q", str) | ("w", str)
PREC = {"or": 0, "and": 1, "not": 2, "regex": 3, "cmp": 3, "kwbool": 4, "inlist": 4, "range": 4}


def gen_lit(rng, kind):
    if kind == "str":
        s = rng.choice(["CA", "CB", "N", "O", "H1", "ALA", "GLY", "HOH", "NA", "SEGA", "ION", "C", "H", "A", "G", "LIG", "Ca", "X9", "O5'", "C5'", "C4'", "H5''", "C5", "DA", "P"] + LOWER_NAMES + ["leu", "orx"] + DIGIT_NAMES + ["HB", "HD1", "5CY", "HID", "2E5"])
        return ("q", s) if ("'" in s or rng.random() < 0.35) else ("w", s)
    if kind == "int":
        return ("n", rng.choice([0, 1, 2, 3, 5, 7, 10, 11, 12, 25]))
    return rng.choice([("d", "1.5"), ("d", "12.5"), ("n", 14), ("d", "15.9"), ("n", 2), ("d", "22.99"), ("d", "40.1")])


def gen_leaf(rng):
    c = rng.random()
    if c < 0.2:
        return ("kwbool", rng.choice(BOOL_KW))
    kind, groups = rng.choice([("str", STR_KW), ("int", INT_KW), ("int", INT_KW), ("flt", FLT_KW)])
    g = rng.choice(groups)
    if c < 0.45:
        n = 1 if rng.random() < 0.6 else rng.randrange(2, 4)
        return ("inlist", g, [gen_lit(rng, kind) for _ in range(n)])
    if c < 0.55 and kind != "str":
        lo, hi = gen_lit(rng, kind), gen_lit(rng, kind)
        return ("range", g, lo, hi)
    if c < 0.65 and kind == "str":
        return ("regex", g, rng.choice(["C.*", "C[A-B]", "H[1-2]", "[A-Z][A-Z]", "O", ".A", "N.*A", "C", "C.'", "[CO]5'", "H5'.*"]))
    if c < 0.9:
        op = rng.choice(list(CMP))
        if kind == "str" and rng.random() < 0.8:
            op = rng.choice(["eq", "ne"])
        lit_kind = kind if rng.random() < 0.93 else rng.choice(["str", "int"])     # sometimes a type clash
        a, b = ("kw", g), ("lit", gen_lit(rng, lit_kind))
        if rng.random() < 0.25:
            a, b = b, a
        return ("cmp", [a, b], [op])
    # chained comparison  lo <= kw < hi
    if kind == "str":
        return ("inlist", g, [gen_lit(rng, kind)])
    return ("cmp", [("lit", gen_lit(rng, kind)), ("kw", g), ("lit", gen_lit(rng, kind))], [rng.choice(["le", "lt"]), rng.choice(["le", "lt", "ne"])])


def gen_expr(rng, depth):
    if depth == 0 or rng.random() < 0.25:
        return gen_leaf(rng)
    c = rng.random()
    if c < 0.25:
        return ("not", gen_expr(rng, depth - 1))
    kind = "and" if c < 0.65 else "or"
    return (kind, [gen_expr(rng, depth - 1) for _ in range(rng.choice([2, 2, 3]))])


class Render:
    """tokens for the model and the string for mdtraj, with random alias spellings and minimal parentheses"""

    def __init__(self, rng):
        self.rng = rng

    def lit(self, l):
        k, v = l
        if k == "n":
            return ["n:%d" % v], [str(v)]
        if k == "d":
            f = Fraction(v)
            return ["d:%d/%d" % (f.numerator, f.denominator)], [v]
        if k == "q":
            q = '"' if "'" in v else self.rng.choice("'\"")
            return ["s:" + hexs(v)], [q + v + q]
        return ["s:" + hexs(v)], [v]

    def operand(self, o):
        if o[0] == "kw":
            w = self.rng.choice(o[1])
            return ["k:" + w], [w]
        return self.lit(o[1])

    def expr(self, e, parent=-1):
        k = e[0]
        T, S = [], []
        if k == "kwbool":
            w = self.rng.choice(e[1]); T, S = ["k:" + w], [w]
        elif k == "inlist":
            w = self.rng.choice(e[1]); T, S = ["k:" + w], [w]
            for l in e[2]:
                t, s = self.lit(l); T += t; S += s
        elif k == "range":
            w = self.rng.choice(e[1]); T, S = ["k:" + w], [w]
            t, s = self.lit(e[2]); T += t; S += s
            T += ["s:" + hexs("to")]; S += ["to"]
            t, s = self.lit(e[3]); T += t; S += s
        elif k == "regex":
            w = self.rng.choice(e[1])
            q = '"' if "'" in e[2] else self.rng.choice("'\"")
            T, S = ["k:" + w, "o:" + hexs("=~"), "s:" + hexs(e[2])], [w, "=~", q + e[2] + q]
        elif k == "cmp":
            t, s = self.operand(e[1][0]); T += t; S += s
            for o, op in zip(e[1][1:], e[2]):
                sp = self.rng.choice(CMP[op]); T.append("o:" + hexs(sp)); S.append(sp)
                t, s = self.operand(o); T += t; S += s
        elif k == "not":
            sp = self.rng.choice(NOT)
            t, s = self.expr(e[1], PREC["not"])
            T, S = ["o:" + hexs(sp)] + t, [sp] + s
        else:
            sps = AND if k == "and" else OR
            for i, sub in enumerate(e[1]):
                if i:
                    sp = self.rng.choice(sps); T.append("o:" + hexs(sp)); S.append(sp)
                # operands of the same connective are parenthesised: (a and b) and c  is a different tree from  a and b and c
                t, s = self.expr(sub, PREC[k] + (1 if sub[0] == k else 0))
                T += t; S += s
        need = PREC[k] < parent or (PREC[k] == parent and k in ("and", "or")) or (self.rng.random() < 0.12)
        if need:
            return ["("] + T + [")"], ["("] + S + [")"]
        return T, S


class TypeErr(Exception):
    pass


def lit_value(l):
    k, v = l
    if k == "n":
        return v
    if k == "d":
        return float(v)
    return {"True": True, "False": False, "None": None}.get(v, v)


def py_cmp(op, a, b):
    try:
        return {"lt": lambda: a < b, "le": lambda: a <= b, "eq": lambda: a == b, "ne": lambda: a != b, "ge": lambda: a >= b, "gt": lambda: a > b}[op]()
    except TypeError:
        raise TypeErr()


def ev(e, row):
    """documented meaning, evaluated directly on the tree"""
    k = e[0]
    if k == "kwbool":
        return row[e[1][0]]
    if k == "inlist":
        v = row[e[1][0]]
        return any(v == lit_value(l) for l in e[2])
    if k == "range":
        v = row[e[1][0]]
        return py_cmp("le", lit_value(e[2]), v) and py_cmp("le", v, lit_value(e[3]))
    if k == "regex":
        v = row[e[1][0]]
        if not isinstance(v, str):
            raise TypeErr()
        return re.match(e[2], v) is not None
    if k == "cmp":
        vals = [row[o[1][0]] if o[0] == "kw" else lit_value(o[1]) for o in e[1]]
        for i, op in enumerate(e[2]):
            if not py_cmp(op, vals[i], vals[i + 1]):
                return False
        return True
    if k == "not":
        return not ev(e[1], row)
    if k == "and":
        for s in e[1]:
            if not ev(s, row):
                return False
        return True
    for s in e[1]:
        if ev(s, row):
            return True
    return False


def run(ctx):
    warnings.filterwarnings("ignore")
    import mdtraj as md
    ctx.rule = ("expressions generated from the grammar (every keyword and alias, every operator spelling, implicit lists, ranges, regex, "
                "chained comparisons, nesting; quoted and bare literals; occasional type clashes) on a topology with protein, water, an ion, "
                "a ligand, three chains, repeated names and residue numbers; exhaustive over operator spellings at depth 2 in the thorough tier; "
                "plus malformed strings; non-trivial = distinct expression with at least one connective or comparison")
    ctx.assumptions.append("pyparsing scans while it parses: Model/SelScan.lean is the token structure of texts whose words are delimited by blanks, parentheses, quotes or symbolic operators (word operators glued to a following word, escapes in quoted strings: outside the modelled domain); regex subset {literal, ., *, [a-z]}")
    rng = ctx.rng
    top = build_top(md)
    rows = atom_table(md, top)
    atoms_enc = enc_atoms(rows)
    exprs = []
    fixed = [
        ("and", [("cmp", [("kw", ["name"]), ("lit", ("w", "CA"))], ["eq"]), ("cmp", [("kw", ["resid", "resi"]), ("lit", ("n", 3))], ["eq"])]),
        ("and", [("inlist", ["resid"], [("n", 3)]), ("not", ("cmp", [("kw", ["name"]), ("lit", ("w", "CA"))], ["eq"]))]),
        ("and", [("cmp", [("kw", ["resid"]), ("lit", ("n", 3))], ["lt"]), ("inlist", ["name"], [("w", "CA")])]),
        ("and", [("regex", ["name"], "C.*"), ("inlist", ["resid"], [("n", 1)])]),
        ("or", [("inlist", ["name"], [("w", "CA")]), ("and", [("inlist", ["name"], [("w", "CB")]), ("inlist", ["resid"], [("n", 2)])])]),
        ("not", ("and", [("kwbool", ["protein"]), ("kwbool", ["backbone"])])),
    ]
    for f in fixed:
        for _ in range(6):
            exprs.append(f)
    for _ in range(ctx.n(220, 4000)):
        exprs.append(gen_expr(rng, rng.choice([1, 2, 2, 3, 4])))
    if not ctx.quick:
        # every pair of operator spellings at depth 2: (a OP1 b) CONN (c OP2 d) and NOT variants
        leaf = lambda g, v: ("cmp", [("kw", g), ("lit", v)], None)
        for op1, op2 in itertools.product(CMP, CMP):
            for conn in ("and", "or"):
                exprs.append((conn, [("cmp", [("kw", ["resid"]), ("lit", ("n", 2))], [op1]), ("not", ("cmp", [("kw", ["index"]), ("lit", ("n", 11))], [op2]))]))
    R = Render(rng)
    jobs = []
    for e in exprs:
        T, S = R.expr(e)
        jobs.append((e, T, " ".join(S)))
    # malformed strings
    bad = ["( name CA", "name CA )", "name CA and", "and name CA", "name CA or or resid 1", "CA", "name ==", "== CA", "not",
           "( )", "name CA && || resid 2", "3", "1", "0", "1.0", "0.0", "resid 1.2.3", "'CA' and protein", "not CA", "5 < 7", "protein and 5", "name =~"]
    model = ctx.driver.query(["sel %s %s" % (";".join(T), atoms_enc) for _, T, _ in jobs]) if ctx.driver_ok else [None] * len(jobs)
    seen = {}

    def viol(key, what, rp):
        seen.setdefault(key, (what, rp))

    for (e, T, s), m in zip(jobs, model):
        # oracle
        try:
            want = [i for i, row in enumerate(rows) if ev(e, row)]
            want_s = "OK " + ",".join(map(str, want))
        except TypeErr:
            want_s = "ERR"
        try:
            got = top.select(s)
            got_s = "OK " + ",".join(map(str, got.tolist()))
            if list(got) != sorted(got.tolist()):
                viol("unsorted", "select(%r) is not in increasing order: %s" % (s, got.tolist()), dict(expr=s))
        except Exception as ex:  # noqa: BLE001
            got_s = "ERR"
            gerr = type(ex).__name__
        try:
            src = top.select_expression(s)
            via = eval(src, {"topology": top, "re": re})
            via_s = "OK " + ",".join(map(str, list(via)))
        except Exception:  # noqa: BLE001
            via_s = "ERR"
        nontriv = s if any(t.startswith("o:") for t in T) else None
        ctx.case(dict(expr=s, selected=got_s), nontriv)
        ctx.count("expressions")
        ctx.count("type-clash expressions" if want_s == "ERR" else "well-typed expressions")
        rp = dict(expr=s, tree=repr(e)[:300])
        if got_s != want_s:
            shape = "-".join(sorted(set(x for x in re.findall(r"'(and|or|not|cmp|regex|range|inlist|kwbool)'", repr(e)))))
            viol("meaning|" + shape, "select(%r) gives %s, its documented meaning is %s" % (s, got_s, want_s), rp)
        if via_s != got_s:
            viol("select_expression", "eval(select_expression(%r)) gives %s, select gives %s" % (s, via_s, got_s), rp)
        if m is not None:
            mm = "ERR" if m.startswith("ERR") else m
            if mm != got_s:
                ctx.broke("correspondence:select", "%r: impl %s model %s" % (s, got_s, m))
    # ---- the text of the selection, scanned by the model (Model/SelScan.lean): the same expressions written with other spacing --
    # no blanks around parentheses, quotes and symbolic operators, tabs and runs of blanks elsewhere
    def respace(S):
        wordy = lambda t: re.fullmatch(r"[A-Za-z0-9_.]+", t) is not None
        sym = lambda t: re.fullmatch(r"[<>=!&|~]+", t) is not None
        out = S[0]
        for a, b in zip(S, S[1:]):
            must = (wordy(a) and wordy(b)) or (sym(a) and sym(b)) or (a[0] in "'\"" and b[0] == a[0])
            if a == "not":
                out += rng.choice([" ", "  ", " \t"])      # the operator is spelt "not " (blank included)
            else:
                out += rng.choice([" ", "  ", "\t", " \t "]) if must else rng.choice(["", "", " ", "  "])
            out += b
        return rng.choice(["", " ", "\t"]) + out + rng.choice(["", " ", "\n"])
    raws = []
    for (e, T, s_) in jobs[:ctx.n(260, 3000)]:
        raws.append((e, respace(s_.split(" ") if "'" not in s_ and '"' not in s_ else R.expr(e)[1])))
    junk = ["name C_1", "name CA#", "resid 1,2", "name [CA]", "index -1", "name CA;", "resSeq 1 to 5 ~", "name C*", "not(protein)", "name CA and not(name N)", "n_bonds_ 1", "is_proteinX", "name 'CA", "name \"CA"]
    compare_only = ["not\tprotein", "not\nprotein", "name not\tCA", "mass 1e5", "name 1 1HB", "resname 5CY HID", "name 2HB or name HB", "(name 1HB)", "name=='1HB'", "name==1HB",
                    "resname 0E5", "resname != 0E5", "not resname 0E5", "name 1e2", "segname 2E5", "resname ALA 0E5 HOH", "name 1e2 CA or resname 0E5"]
    junk += compare_only
    rawm = ctx.driver.query(["selraw %s %s" % (x.encode().hex(), atoms_enc) for _, x in raws] + ["selraw %s %s" % (x.encode().hex(), atoms_enc) for x in junk]) if ctx.driver_ok else [None] * (len(raws) + len(junk))
    for (e, x), m in zip(raws + [(None, j) for j in junk], rawm):
        ctx.case(dict(raw=x) if len(ctx.samples) < 6 else None, ("rawtext", x))
        ctx.count("selection texts scanned by the model")
        try:
            got_s = "OK " + ",".join(map(str, top.select(x).tolist()))
        except Exception:  # noqa: BLE001
            got_s = "ERR"
        if e is not None:
            try:
                want_s = "OK " + ",".join(map(str, [i for i, row in enumerate(rows) if ev(e, row)]))
            except TypeErr:
                want_s = "ERR"
            if got_s != want_s:
                viol("meaning|spacing", "select(%r) gives %s, its documented meaning is %s" % (x, got_s, want_s), dict(expr=x, tree=repr(e)[:300]))
        elif got_s != "ERR" and x not in compare_only:
            viol("malformed-accepted|" + x, "malformed selection %r was accepted and selected %s" % (x, got_s), dict(expr=x))
        if m is not None:
            if m == "UNMODELLED":
                ctx.count("selection texts outside the scanner's domain")
            elif ("ERR" if m.startswith("ERR") else m) != got_s:
                ctx.broke("correspondence:select-text", "%r: impl %s model %s" % (x, got_s, m))
    # raw strings: malformed ones must be rejected; odd-but-grammatical ones (a keyword-spelled word in literal
    # position is a bare-word literal) are compared with the model only
    odd = ["name CA resid", "water name CA", "name resid", "resid 1 to", "resname to to to", "name CA CB and resid 1 2",
           "mass 1 to 20 to", "index 3 4 5 or nothing", "not not protein", "! ! water", "( ( name CA ) )", "name 'CA' \"CB\""]
    all_ops = set(sum(CMP.values(), [])) | set(AND) | set(OR) | set(NOT) | {"=~"}
    all_kws = set(w for g in BOOL_KW + STR_KW + INT_KW + FLT_KW for w in g)

    def tokenize(raw):
        out = []
        for w in raw.split():
            if w in "()":
                out.append(w)
            elif w in all_ops:
                out.append("o:" + hexs(w))
            elif w in all_kws:
                out.append("k:" + w)
            elif re.fullmatch(r"[0-9]+", w):
                out.append("n:" + w)
            elif re.fullmatch(r"[0-9]*\.[0-9]+|[0-9]+\.[0-9]*", w):
                f = Fraction(w); out.append("d:%d/%d" % (f.numerator, f.denominator))
            elif re.fullmatch(r"[0-9.]+", w):
                out.append("b:")
            elif w[0] in "'\"" and w[-1] == w[0] and len(w) > 1:
                out.append("s:" + hexs(w[1:-1]))
            else:
                out.append("s:" + hexs(w))
        return out
    raw = [(x, True) for x in bad] + [(x, False) for x in odd]
    rm = ctx.driver.query(["sel %s %s" % (";".join(tokenize(x)) or "(", atoms_enc) for x, _ in raw]) if ctx.driver_ok else [None] * len(raw)
    for (x, must_reject), m in zip(raw, rm):
        ctx.case(dict(raw=x), ("raw", x))
        ctx.count("malformed strings" if must_reject else "odd strings")
        try:
            got = top.select(x)
            got_s = "OK " + ",".join(map(str, got.tolist()))
            if must_reject:
                viol("malformed-accepted|" + x, "malformed selection %r was accepted and selected %s" % (x, got.tolist()), dict(expr=x))
        except Exception:  # noqa: BLE001
            got_s = "ERR"
        if m is not None and ("ERR" if m.startswith("ERR") else m) != got_s:
            ctx.broke("correspondence:select-raw", "%r: impl %s model %s" % (x, got_s, m))
    # ---- the same Topology object edited between two selections (an ion deleted, an atom inserted, a bond added): the second selection
    # must describe the topology as it is now, for every keyword (indices, bond counts, residue membership all shift)
    top2 = build_top(md)
    stages = []
    try:
        top2.select("n_bonds 0 or index 3 or resid 2")                      # a selection before the edits
        ion = [a.index for a in top2.atoms if a.residue.name == "NA"]
        if ion:
            top2.delete_atom_by_index(ion[0]); stages.append("after deleting an unbonded ion")
        r_ = [r for r in top2.residues if r.name == "ALA"][0]
        last_ = max(a.index for a in r_.atoms)
        top2.insert_atom("HX", md.element.hydrogen, r_, index=last_ + 1, rindex=len(list(r_.atoms))); stages.append("after inserting an atom")
    except Exception as ex:  # noqa: BLE001
        ctx.broke("harness:c12-edit", "%s: %s" % (type(ex).__name__, ex))
    if stages:
        rows2 = atom_table(md, top2)
        for e in exprs[:ctx.n(60, 300)] + [("inlist", ["n_bonds"], [("n", 0)]), ("inlist", ["n_bonds"], [("n", 1), ("n", 4)]), ("cmp", [("kw", ["n_bonds"]), ("lit", ("n", 2))], ["ge"])]:
            T, S = R.expr(e)
            s2 = " ".join(S)
            try:
                want = [i for i, row in enumerate(rows2) if ev(e, row)]
                want_s = "OK " + ",".join(map(str, want))
            except TypeErr:
                want_s = "ERR"
            try:
                got_s = "OK " + ",".join(map(str, top2.select(s2).tolist()))
            except Exception:  # noqa: BLE001
                got_s = "ERR"
            ctx.case(None, ("edited", s2)); ctx.count("expressions on a topology edited between selections")
            if got_s != want_s:
                viol("meaning|edited-topology", "select(%r) on a topology edited in place (%s) gives %s, its documented meaning is %s" % (s2, "; ".join(stages), got_s, want_s), dict(expr=s2, stages=stages))
                break
    # ---- the same expressions on a second topology that differs only in what Topology.__eq__ does not compare (residue numbers, segment
    # ids), and on one topology renumbered in place between two selections
    topA, topB = build_top(md), build_top(md)
    for r in topB.residues:
        r.resSeq = r.resSeq + 100
        r.segment_id = {"SEGA": "SEGB", "": "W", "ION": "", "orx": "SEGA"}.get(r.segment_id, r.segment_id)
    rowsB = atom_table(md, topB)
    renum = [e for e in exprs if any(w in repr(e) for w in ("resSeq", "segname", "segment_id", "residue"))][:ctx.n(40, 200)]
    renum += [("inlist", ["resSeq", "residue"], [("n", 1), ("n", 3)]), ("inlist", ["segname", "segment_id"], [("w", "SEGA")]), ("cmp", [("kw", ["resSeq"]), ("lit", ("n", 100))], ["gt"])]
    for e in renum:
        T, S = R.expr(e)
        s4 = " ".join(S)
        outs = []
        for which, tp, rw in (("first", topA, rows), ("numbered otherwise", topB, rowsB)):
            try:
                want_s = "OK " + ",".join(map(str, [i for i, row in enumerate(rw) if ev(e, row)]))
            except TypeErr:
                want_s = "ERR"
            try:
                got_s = "OK " + ",".join(map(str, tp.select(s4).tolist()))
            except Exception:  # noqa: BLE001
                got_s = "ERR"
            outs.append((which, got_s, want_s))
        ctx.case(None, ("renumbered", s4)); ctx.count("expressions on two topologies that differ in residue numbers and segment ids only")
        bad_ = [o for o in outs if o[1] != o[2]]
        if bad_:
            viol("meaning|renumbered-topology", "select(%r) on the %s of two topologies that differ only in residue numbers / segment ids gives %s, its documented meaning is %s" % (s4, bad_[0][0], bad_[0][1], bad_[0][2]), dict(expr=s4))
            break
    topC = build_top(md)
    before = topC.select("resSeq 1 3 or segname SEGA")
    for r in topC.residues:
        r.resSeq = r.resSeq + 100
        r.segment_id = "Q"
    after = topC.select("resSeq 1 3 or segname SEGA")
    ctx.case(None, ("renumbered-in-place",)); ctx.count("selections repeated after renumbering in place")
    if len(before) == 0 or len(after) != 0:
        viol("meaning|renumbered-in-place", "select('resSeq 1 3 or segname SEGA') gives %s before and %s after every residue was renumbered (+100) and moved to segment Q in place" % (before.tolist()[:8], after.tolist()[:8]), dict(expr="resSeq 1 3 or segname SEGA"))
    # ---- atoms that are not numbered in chain/residue order (an atom appended to an earlier residue): still "in increasing order"; and
    # an empty selection is an integer index array like any other
    top3 = build_top(md)
    top3.add_atom("ZZ", md.element.carbon, next(iter(top3.residues)))
    for s3, pred in (("all", lambda a: True), ("name ZZ or index 0 1", lambda a: a.name == "ZZ" or a.index in (0, 1)), ("not protein", lambda a: not a.residue.is_protein), ("none", lambda a: False)):
        got = top3.select(s3)
        want = sorted(a.index for a in top3.atoms if pred(a))
        ctx.case(None, ("out-of-order", s3)); ctx.count("selections on a topology whose atoms are not in residue order")
        if got.tolist() != want:
            viol("unsorted|atoms-out-of-residue-order", "select(%r) on a topology with an atom appended to an earlier residue gives %s, expected %s" % (s3, got.tolist()[:12], want[:12]), dict(expr=s3))
        if got.dtype.kind not in "iu":
            viol("dtype|empty-selection", "select(%r) returns an array of dtype %s, not an integer index array" % (s3, got.dtype), dict(expr=s3))
    for key, (what, rp) in seen.items():
        ctx.violation(key, what, rp)


def replay(ctx, path):
    import json
    import mdtraj as md
    rp = json.load(open(path))["replay"]
    top = build_top(md)
    try:
        print(rp["expr"], "->", top.select(rp["expr"]).tolist())
    except Exception as e:  # noqa: BLE001
        print(rp["expr"], "-> raises", type(e).__name__, e)
    print(json.load(open(path))["what"])
    return 1
