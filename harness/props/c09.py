"""C09: observables are invariant under rigid motion and lattice translation.
The theorems (Properties/C09.lean) say every decision quantity is a function of dot products of differences (plus one triple
product), and that lattice shifts do not change the kernels' displacements inside C05's range.  The run applies
(a) exact rigid motions (the 24 proper 90-degree rotations and dyadic translations up to 500 nm on coordinates quantised to 2^-10 nm,
so the moved coordinates are exactly representable and discrete outputs must agree exactly), (b) generic rotations and
translations (continuous outputs, tolerance scaled with the float32 ulp of the offset), (c) per-atom lattice shifts and whole-system
translations of periodic systems, and compares every observable before and after."""
import itertools
import os
import warnings

import numpy as np

from props.c05 import cells, width


def rotations24():
    mats = []
    for perm in itertools.permutations(range(3)):
        for signs in itertools.product([1, -1], repeat=3):
            M = np.zeros((3, 3))
            for i, p in enumerate(perm):
                M[i, p] = signs[i]
            if round(np.linalg.det(M)) == 1:
                mats.append(M)
    return mats


def observables(md, t, discrete=True):
    n = t.n_atoms
    top = t.topology
    rs = np.random.RandomState(1)
    pairs = rs.randint(0, n, (40, 2)); pairs = pairs[pairs[:, 0] != pairs[:, 1]]
    trip = rs.randint(0, n, (30, 3)); trip = trip[(trip[:, 0] != trip[:, 1]) & (trip[:, 1] != trip[:, 2]) & (trip[:, 0] != trip[:, 2])]
    out = {}
    out["distances"] = md.compute_distances(t, pairs, periodic=False)
    out["angles"] = md.compute_angles(t, trip, periodic=False)
    out["phi"] = md.compute_phi(t, periodic=False)[1]
    out["psi"] = md.compute_psi(t, periodic=False)[1]
    out["chi1"] = md.compute_chi1(t, periodic=False)[1]
    out["rg"] = md.compute_rg(t)
    gt = md.compute_gyration_tensor(t)
    out["gyration_eig"] = np.sort(np.linalg.eigvalsh(gt), axis=-1)
    out["rmsd_to_frame0"] = md.rmsd(md.Trajectory(t.xyz.copy(), top), md.Trajectory(t.xyz.copy(), top), 0)
    out["contacts"] = md.compute_contacts(t, contacts=[[0, 5], [1, 8], [2, 9]], scheme="closest-heavy", periodic=False)[0]
    out["drid"] = md.compute_drid(t)
    out["sasa_total"] = md.shrake_rupley(t, n_sphere_points=480).sum(axis=1)
    if discrete:
        out["D:dssp"] = md.compute_dssp(t, simplified=False)
        out["D:baker_hubbard"] = sorted(map(tuple, md.baker_hubbard(t, periodic=False).tolist()))
        ks = md.kabsch_sander(t)
        out["D:kabsch_sander_pairs"] = [sorted(zip(*m.nonzero())) for m in ks]
        out["kabsch_sander_energies"] = np.array([np.sort(np.asarray(m[m.nonzero()]).ravel()) for m in ks][0])
        out["D:neighbors"] = [list(x) for x in md.compute_neighbors(t, 0.4, [0, 10, 20], periodic=False)]
        nl = md.compute_neighborlist(t, 0.35, periodic=False)
        out["D:neighborlist"] = [sorted(int(j) for j in x) for x in nl]
    return out


def compare(ctx, viol, name, a, b, tol, rp, tag):
    ctx.count("comparisons")
    if name.startswith("D:"):
        same = (a == b) if not isinstance(a, np.ndarray) else np.array_equal(a, b)
        if not same:
            viol("%s|%s" % (tag, name[2:]), "%s changes under %s" % (name[2:], rp["transform"]), rp)
        return
    a, b = np.asarray(a, dtype=np.float64), np.asarray(b, dtype=np.float64)
    if name == "rmsd_to_frame0":
        # near rmsd = 0 the QCP difference Ga+Gb-2*lambda cancels and sqrt amplifies float32 noise: compare mean square deviations
        a, b, tol = a * a, b * b, max(tol, 3e-5)
    if a.shape != b.shape:
        viol("%s|%s|shape" % (tag, name), "%s has a different shape after %s" % (name, rp["transform"]), rp)
        return
    if name in ("phi", "psi", "chi1", "dihedrals"):
        d = np.abs(a - b); d = np.minimum(d, 2 * np.pi - d)
    else:
        d = np.abs(a - b)
    scale = 1.0 if name != "sasa_total" else np.abs(a).max()
    lim = tol * scale if name != "sasa_total" else 0.02 * scale
    if d.size and d.max() > lim:
        viol("%s|%s" % (tag, name), "%s changes by %.3g (tolerance %.3g) under %s" % (name, d.max(), lim, rp["transform"]), rp)


def run(ctx):
    warnings.filterwarnings("ignore")
    import mdtraj as md
    ctx.rule = ("2EQQ (protein with hydrogens, 3 frames) quantised to 2^-10 nm x the 24 proper 90-degree rotations x dyadic translations up to 500 nm "
                "(exactly representable: discrete outputs compared exactly) and generic rotations/translations (continuous outputs, tolerance "
                "scaled with the float32 ulp of the offset); periodic systems x cells of C05 x per-atom lattice shifts |n|<=6 x whole-system "
                "translations; non-trivial = every (transform, observable) pair with a non-identity transform")
    ctx.assumptions += ["solvent-accessible area is invariant only up to its quadrature error (point set fixed in the lab frame): 2% on the total with 480 points",
                        "neighbour/contact decisions within 1e-4 nm of their cutoff are not compared under inexact transforms"]
    rng = ctx.rng
    seen = {}

    def viol(key, what, rp):
        seen.setdefault(key, (what, rp))
    base = md.load(os.path.join(md.__path__[0], "..", "tests", "data", "2EQQ.pdb"))[:3]
    base.unitcell_vectors = None
    base.xyz = np.round(base.xyz * 1024) / 1024
    ref = observables(md, base)
    R24 = rotations24()
    n_exact = ctx.n(4, 24)
    for k in range(n_exact):
        R = R24[rng.randrange(1, 24)] if ctx.quick else R24[k]
        tvec = np.array([rng.choice([0, 1, -3, 37, 500, -256]) + rng.randrange(0, 1024) / 1024.0 for _ in range(3)])
        moved = md.Trajectory((base.xyz.astype(np.float64) @ R.T + tvec).astype(np.float32), base.topology)
        back = (moved.xyz.astype(np.float64) - tvec) @ R
        exact = np.array_equal(back.astype(np.float32), base.xyz)
        rp = dict(transform="rotation %s then translation %s" % (R.tolist(), tvec.tolist()), exact=bool(exact))
        obs = observables(md, moved)
        ulp = float(np.spacing(np.float32(np.abs(moved.xyz).max())))
        for name in ref:
            ctx.case(dict(transform=rp["transform"], observable=name) if len(ctx.samples) < 3 else None, ("exact", k, name))
            compare(ctx, viol, name, ref[name], obs[name], max(2e-5, 40 * ulp), rp, "rigid-exact")
    for k in range(ctx.n(3, 20)):
        Q, _ = np.linalg.qr(np.array([[rng.gauss(0, 1) for _ in range(3)] for _ in range(3)]))
        if np.linalg.det(Q) < 0:
            Q[:, 0] *= -1
        tvec = np.array([rng.uniform(-1, 1) * rng.choice([1, 30, 400]) for _ in range(3)])
        moved = md.Trajectory((base.xyz.astype(np.float64) @ Q.T + tvec).astype(np.float32), base.topology)
        rp = dict(transform="generic rotation then translation %s" % tvec.round(3).tolist())
        obs = observables(md, moved, discrete=False)
        ulp = float(np.spacing(np.float32(np.abs(moved.xyz).max())))
        for name in obs:
            ctx.case(None, ("generic", k, name))
            compare(ctx, viol, name, ref[name], obs[name], max(5e-5, 60 * ulp) * (30 if name in ("phi", "psi", "chi1", "angles") else 1), rp, "rigid-generic")

    # ---- the moved coordinates handed over to a trajectory object with a history (centred, superposed, sliced), in place or through the
    # setter: what an observable gives depends on the coordinates it is given, not on what was done to the object before
    for k in range(ctx.n(10, 40)):
        R = R24[rng.randrange(0, 24)]
        tvec = np.array([rng.choice([1, -3, 37, -256]) + rng.randrange(0, 1024) / 1024.0 for _ in range(3)])
        new = (base.xyz.astype(np.float64) @ R.T + tvec).astype(np.float32)
        carrier = md.Trajectory(base.xyz.copy(), base.topology)
        hist = ["center", "center+superpose", "superpose", "center+slice", "rmsd"][k % 5]
        if "center" in hist:
            carrier.center_coordinates()
        if "superpose" in hist:
            carrier.superpose(carrier, 0)
        if hist == "rmsd":
            md.rmsd(carrier, carrier, 0)
        if "slice" in hist:
            carrier = carrier[:]
        how = ["in-place", "setter"][(k // 5) % 2]
        if how == "in-place":
            carrier.xyz[:] = new
        else:
            carrier.xyz = new
        rp = dict(transform="rotation %s then translation %s, written %s into a trajectory after %s" % (R.tolist(), tvec.tolist(), how, hist))
        obs = observables(md, carrier)
        ulp = float(np.spacing(np.float32(np.abs(new).max())))
        for name in ref:
            ctx.case(None, ("history", k, name))
            compare(ctx, viol, name, ref[name], obs[name], max(2e-5, 40 * ulp), rp, "rigid-history")
        ctx.count("moved coordinates written into a trajectory with a history")

    # ---- periodic systems: per-atom lattice shifts and whole-system translation
    collected = []
    for k in range(ctx.n(12, 100)):
        kind, box = cells(rng)
        w = width(box)
        n = 24
        top = md.Topology()
        ch = top.add_chain()
        for r_i in range(n // 3):
            r = top.add_residue("HOH", ch)
            o = top.add_atom("O", md.element.oxygen, r); h1 = top.add_atom("H1", md.element.hydrogen, r); h2 = top.add_atom("H2", md.element.hydrogen, r)
            top.add_bond(o, h1); top.add_bond(o, h2)
        xyz = np.zeros((1, n, 3))
        for r_i in range(n // 3):
            c = sum(rng.random() * box[i].astype(np.float64) for i in range(3))
            xyz[0, 3 * r_i] = c
            xyz[0, 3 * r_i + 1] = c + np.array([0.0957, 0, 0])
            xyz[0, 3 * r_i + 2] = c + np.array([-0.024, 0.0927, 0])
        # every second water donates a clear hydrogen bond to the next one (O...O 0.28 nm along O-H1): hydrogen-bond observables are non-empty
        for r_i in range(0, n // 3 - 1, 2):
            d = xyz[0, 3 * r_i + 1] - xyz[0, 3 * r_i]
            sh = xyz[0, 3 * r_i] + 0.28 * d / np.linalg.norm(d) - xyz[0, 3 * r_i + 3]
            xyz[0, 3 * r_i + 3:3 * r_i + 6] += sh
        xyz = np.round(xyz * 1024) / 1024
        t = md.Trajectory(xyz.astype(np.float32), top); t.unitcell_vectors = box[None]
        bv = t.unitcell_vectors[0].astype(np.float64)
        shift = np.zeros_like(xyz)
        mode = rng.choice(["per-atom", "whole-system", "both"])
        if mode in ("per-atom", "both"):
            for a in range(n):
                ijk = [rng.randrange(-6, 7) for _ in range(3)]
                shift[0, a] = ijk[0] * bv[0] + ijk[1] * bv[1] + ijk[2] * bv[2]
        if mode in ("whole-system", "both"):
            shift += np.array([rng.uniform(-3, 3) for _ in range(3)])
        t2 = md.Trajectory((xyz + shift).astype(np.float32), top); t2.unitcell_vectors = box[None]
        rp = dict(transform="%s lattice shift in %s cell" % (mode, kind), cell=bv.tolist())
        rs = np.random.RandomState(k)
        pairs = rs.randint(0, n, (30, 2)); pairs = pairs[pairs[:, 0] != pairs[:, 1]]
        trip = np.array([(3 * i + 1, 3 * i, 3 * i + 2) for i in range(n // 3)])
        quad = np.array([(3 * i + 1, 3 * i, 3 * i + 2, (3 * i + 3) % n) for i in range(n // 3)])
        d1 = md.compute_distances(t, pairs); d2 = md.compute_distances(t2, pairs)
        collected.append((kind, t, t2, w, rp["transform"]))
        # minimum-image observables are only defined below half the smallest width
        ok = d1[0] < 0.5 * w - 1e-3
        tol = 5e-5
        ctx.case(dict(transform=rp["transform"]) if len(ctx.samples) < 6 else None, ("periodic", k))
        ctx.count("periodic systems")
        if np.abs(d1[0][ok] - d2[0][ok]).max(initial=0) > tol:
            viol("lattice|distances|%s" % ("ortho" if kind in ("cubic", "ortho") else "tri"), "compute_distances changes by %.3g under a %s" % (np.abs(d1[0][ok] - d2[0][ok]).max(), rp["transform"]), rp)
        a1, a2 = md.compute_angles(t, trip), md.compute_angles(t2, trip)
        if np.abs(a1 - a2).max() > 2e-3:
            viol("lattice|angles", "compute_angles changes by %.3g under a %s" % (np.abs(a1 - a2).max(), rp["transform"]), rp)
        q1, q2 = md.compute_dihedrals(t, quad), md.compute_dihedrals(t2, quad)
        qd = np.abs(q1 - q2); qd = np.minimum(qd, 2 * np.pi - qd)
        dq = md.compute_distances(t, quad[:, 2:4])[0]
        okq = dq < 0.5 * w - 1e-3
        if qd[0][okq].max(initial=0) > 5e-3:
            viol("lattice|dihedrals", "compute_dihedrals changes by %.3g under a %s" % (qd[0][okq].max(), rp["transform"]), rp)
        cutoff = 0.3 * w
        full = md.compute_distances(t, np.array([(i, j) for i in range(n) for j in range(i + 1, n)]))[0]
        if np.abs(full - cutoff).min() > 2e-4:
            for name, fn in (("neighborlist", lambda tr: [sorted(int(j) for j in x) for x in md.compute_neighborlist(tr, cutoff)]),
                             ("neighbors", lambda tr: [list(x) for x in md.compute_neighbors(tr, cutoff, [0, 3, 6])])):
                if fn(t) != fn(t2):
                    viol("lattice|%s" % name, "compute_%s changes under a %s" % (name, rp["transform"]), rp)
        # hydrogen bonds (donor-hydrogen...acceptor triplets) of the two criteria that use minimum-image geometry
        if w > 0.8:
            def hb(tr):
                return (set(map(tuple, md.baker_hubbard(tr, periodic=True, exclude_water=False).tolist())),
                        set(map(tuple, md.wernet_nilsson(tr, periodic=True, exclude_water=False)[0].tolist())))
            (bh1, wn1), (bh2, wn2) = hb(t), hb(t2)
            ctx.count("periodic hydrogen-bond sets compared"); ctx.count("hydrogen bonds in them", len(bh1) + len(wn1))
            for name, s1, s2 in (("baker_hubbard", bh1, bh2), ("wernet_nilsson", wn1, wn2)):
                diff = sorted(s1 ^ s2)
                decided = []
                for (dn, hy, ac) in diff:
                    dha = float(md.compute_distances(t, [[hy, ac]])[0, 0]); dda = float(md.compute_distances(t, [[dn, ac]])[0, 0])
                    th = float(np.degrees(md.compute_angles(t, [[dn, hy, ac]])[0, 0])); dl = float(np.degrees(md.compute_angles(t, [[hy, dn, ac]])[0, 0]))
                    near = (abs(dha - 0.25) < 1e-3 or abs(th - 120.0) < 0.5) if name == "baker_hubbard" else abs(dda - (0.33 - 0.00044 * dl * dl)) < 1e-3
                    if not near and max(dha, dda) < 0.5 * w - 1e-3:
                        decided.append((dn, hy, ac))
                if decided:
                    viol("lattice|%s" % name, "%s(periodic=True) reports a different set of hydrogen bonds after a %s: %s appear or disappear" % (name, rp["transform"], decided[:4]), rp)
        c1 = md.compute_contacts(t, contacts=[[0, 1], [2, 5], [3, 7]], scheme="closest", periodic=True)[0]
        c2 = md.compute_contacts(t2, contacts=[[0, 1], [2, 5], [3, 7]], scheme="closest", periodic=True)[0]
        okc = c1[0] < 0.5 * w - 1e-3
        if np.abs(c1[0][okc] - c2[0][okc]).max(initial=0) > tol:
            viol("lattice|contacts", "compute_contacts(periodic=True) changes by %.3g under a %s" % (np.abs(c1[0][okc] - c2[0][okc]).max(), rp["transform"]), rp)
    # ---- the same systems as frames of ONE trajectory whose cell changes shape from frame to frame (a deforming cell; runs in different
    # cells joined), a rectangular frame first: the invariance must hold frame by frame, and a frame inside the trajectory gives what it gives alone
    if len(collected) >= 2:
        collected.sort(key=lambda c: 0 if c[0] in ("cubic", "ortho") else 1)
        for rev in (False, True):
            cs = collected[::-1] if rev else collected
            T = md.join([c[1] for c in cs], check_topology=False); T2 = md.join([c[2] for c in cs], check_topology=False)
            n = T.n_atoms
            allp = np.array([(i, j) for i in range(n) for j in range(i + 1, n)])
            trip = np.array([(3 * i + 1, 3 * i, 3 * i + 2) for i in range(n // 3)])
            D, D2 = md.compute_distances(T, allp), md.compute_distances(T2, allp)
            A, A2 = md.compute_angles(T, trip), md.compute_angles(T2, trip)
            C, C2 = (md.compute_contacts(x, contacts=[[0, 1], [2, 5], [3, 7]], scheme="closest", periodic=True)[0] for x in (T, T2))
            for f, c in enumerate(cs):
                alone = md.compute_distances(c[1], allp)[0]
                ok = alone < 0.5 * c[3] - 1e-3
                rp = dict(transform="%s; frame %d of a %d-frame trajectory with per-frame cells (first frame %s)" % (c[4], f, len(cs), cs[0][0]))
                ctx.case(None, ("varying-cell", rev, f)); ctx.count("frames of trajectories whose cell changes shape")
                if np.abs(D[f][ok] - D2[f][ok]).max(initial=0) > 5e-5:
                    viol("lattice|distances|varying-cell", "compute_distances changes by %.3g under a %s" % (np.abs(D[f][ok] - D2[f][ok]).max(), rp["transform"]), rp)
                if np.abs(D[f][ok] - alone[ok]).max(initial=0) > 5e-6:
                    viol("lattice|distances|varying-cell-frame-alone", "compute_distances gives %.6g for a frame inside a trajectory whose cell changes shape, %.6g for the same frame alone" % (
                        D[f][ok][np.argmax(np.abs(D[f][ok] - alone[ok]))], alone[ok][np.argmax(np.abs(D[f][ok] - alone[ok]))]), rp)
                if np.abs(A[f] - A2[f]).max() > 2e-3:
                    viol("lattice|angles|varying-cell", "compute_angles changes by %.3g under a %s" % (np.abs(A[f] - A2[f]).max(), rp["transform"]), rp)
                okc = C[f] < 0.5 * c[3] - 1e-3
                if np.abs(C[f][okc] - C2[f][okc]).max(initial=0) > 5e-5:
                    viol("lattice|contacts|varying-cell", "compute_contacts(periodic=True) changes by %.3g under a %s" % (np.abs(C[f][okc] - C2[f][okc]).max(), rp["transform"]), rp)
    # ---- a solute in the middle of a rectangular box, the solvent stored in other periodic images after the shift (unwrapped trajectory):
    # compute_neighbors around the solute must not change
    from props.c10 import _brute
    for k in range(ctx.n(8, 60)):
        L = np.array([rng.uniform(3.0, 5.0) for _ in range(3)])
        n = 150
        X = np.array([[rng.random() * L[a] for a in range(3)] for _ in range(n)])
        q = np.argsort(np.linalg.norm(X - L / 2, axis=1))[:3]
        reach = float(np.min(np.minimum(X[q].min(0), L - X[q].max(0))))
        cut = min(0.9 * reach, 0.45 * float(L.min())) * rng.uniform(0.5, 1.0)
        S = np.array([[rng.randrange(-2, 3) for _ in range(3)] for _ in range(n)], dtype=np.float64) * L
        S[q] = 0.0
        mk = lambda Y: md.Trajectory(Y[None].astype(np.float32), None, unitcell_lengths=[L], unitcell_angles=[[90.0, 90.0, 90.0]])
        t1, t2 = mk(X), mk(X + S)
        best = _brute(t1.xyz[0].astype(np.float64), t1.unitcell_vectors[0].astype(np.float64))
        open_ = {j for j in range(n) if any(abs(best[i, j] - cut) <= 2e-5 for i in q if i != j)}
        g1 = set(int(j) for j in md.compute_neighbors(t1, cut, q)[0]); g2 = set(int(j) for j in md.compute_neighbors(t2, cut, q)[0])
        ctx.case(None, ("central-solute", k)); ctx.count("central-solute systems")
        if (g1 ^ g2) - open_:
            viol("lattice|neighbors|central-solute", "compute_neighbors around 3 atoms in the middle of a rectangular cell changes when the other atoms are moved by lattice vectors: %s appear or disappear" % sorted((g1 ^ g2) - open_)[:6],
                 dict(transform="per-atom lattice shift of the haystack atoms, rectangular cell", lengths=L.tolist(), cutoff=cut, query=q.tolist(), seed=ctx.seed, case=k))
    for key, (what, rp) in seen.items():
        ctx.violation(key, what, rp)


def replay(ctx, path):
    import json
    print(json.load(open(path))["what"])
    return 1
