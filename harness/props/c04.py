"""C04: topology transformations preserve atoms, residues, chains and bonds.
Correspondence: Topology.subset / join / to_dataframe+from_dataframe / PDB numbering / ==,hash on random
topologies vs Model/Topology.lean (driver `topsubset`, `topjoin`, `toprows`, `toppdb`, `topeqhash`).
Oracle: plain-data expectations computed from the generator's own description; independence of copies under
edits; save+load through .h5 and .pdb; an independent reading of ATOM/TER/CONECT records."""
import copy as pycopy
import os
import pickle
import warnings

import numpy as np

TYPES = {None: "_", "Single": 1, "Double": 2, "Triple": 3, "Aromatic": 4, "Amide": 5}
ELEMS = ["C", "N", "O", "H", "S", "VS"]


# ---- plain-data topologies:  {"chains": [ {"id": str|None, "res": [ {"name","resSeq","seg","atoms":[(name, elem, serial)]} ]} ], "bonds": [(i,j,type,order)]}
def gen_top(rng, pdb_safe=False):
    chains = []
    serial = rng.choice([1, 1, 5, 100])
    n_chains = rng.choice([1, 1, 2, 3])
    explicit_ids = rng.random() < 0.6
    used_serial = rng.random() < 0.6
    for ci in range(n_chains):
        res = []
        rs = rng.choice([0, 1, 1, 7, -2 if not pdb_safe else 3])
        for ri in range(rng.randrange(1, 4)):
            name = rng.choice(["LIG", "LG2", "XYZ"] if pdb_safe else ["LIG", "ALA", "HOH", "GLY", "NA"])
            atoms = []
            for ai in range(rng.randrange(1, 4)):
                el = rng.choice(ELEMS if not pdb_safe else ["C", "N", "O", "S", "VS"])
                # virtual sites carry the names force fields give them (TIP4P M-site, lone pairs, Drude / dummy particles, centres of mass):
                # several of these begin with a chemical symbol, which a reader must not take for the element
                an = el + str(ai + 1) if el != "VS" else rng.choice(["V%d" % ai, "MW", "OM", "COM", "D%d" % (ai + 1), "LP%d" % (ai + 1), "EPW", "CM", "DU"])
                atoms.append((an, el, serial if used_serial else None))
                serial += rng.choice([1, 1, 1, 3])
            seg = rng.choice(["", "", "SEGA", "B"])
            res.append(dict(name=name, resSeq=rs, seg=seg, atoms=atoms))
            rs += rng.choice([1, 1, 1, 0 if not pdb_safe else 1, 5])   # repeated residue numbers
        cid = rng.choice("XYZQAB") if explicit_ids else None
        if pdb_safe and explicit_ids:
            cid = "XYZQAB"[ci]     # adjacent chains with one id are indistinguishable in a PDB file written without TER
        chains.append(dict(id=cid, res=res))
    n = sum(len(r["atoms"]) for c in chains for r in c["res"])
    bonds = []
    seen = set()
    for _ in range(rng.randrange(0, n + 2)):
        i, j = rng.randrange(n), rng.randrange(n)
        if i == j or (min(i, j), max(i, j)) in seen:
            continue
        seen.add((min(i, j), max(i, j)))
        ty = rng.choice([None, None, "Single", "Double", "Triple", "Aromatic", "Amide"])
        order = rng.choice([None, 1, 2, 3]) if ty is not None else None
        bonds.append((min(i, j), max(i, j), ty, order))   # add_bond stores the lower index first
    return dict(chains=chains, bonds=bonds)


def n_atoms(d):
    return sum(len(r["atoms"]) for c in d["chains"] for r in c["res"])


def build(md, d):
    top = md.Topology()
    tys = {None: None, "Single": md.core.topology.Single, "Double": md.core.topology.Double, "Triple": md.core.topology.Triple,
           "Aromatic": md.core.topology.Aromatic, "Amide": md.core.topology.Amide}
    for c in d["chains"]:
        ch = top.add_chain(c["id"])
        for r in c["res"]:
            rr = top.add_residue(r["name"], ch, r["resSeq"], r["seg"])
            for (an, el, sr) in r["atoms"]:
                top.add_atom(an, md.element.get_by_symbol(el), rr, serial=sr)
    atoms = list(top.atoms)
    for (i, j, ty, order) in d["bonds"]:
        top.add_bond(atoms[i], atoms[j], type=tys[ty], order=order)
    return top


def enc(d, bonds=True, chain_ids=True, serial=True, btype=True, sort_bonds=False):
    cs = []
    for c in d["chains"]:
        rs = []
        for r in c["res"]:
            at = ",".join("%s^%s^%s" % (a[0], a[1], "-" if (a[2] is None or not serial) else a[2]) for a in r["atoms"])
            rs.append("%s~%d~%s~%s" % (r["name"], r["resSeq"], r["seg"] or "-", at))
        cs.append("%s:%s" % ((c["id"] if (c["id"] is not None and chain_ids) else "-"), ";".join(rs)))
    bl = d["bonds"]
    if sort_bonds:
        bl = sorted((min(b[0], b[1]), max(b[0], b[1]), b[2], b[3]) for b in bl)
    bs = ",".join("%d-%d-%s-%s" % (b[0], b[1], TYPES[b[2]] if btype else "_", "_" if (b[3] is None or not btype) else b[3]) for b in bl)
    return ("/".join(cs) or "-") + " " + ((bs or "-") if bonds else "-")


def dump(top):
    """md.Topology -> plain data"""
    chains = []
    for c in top.chains:
        res = []
        for r in c.residues:
            res.append(dict(name=r.name, resSeq=int(r.resSeq), seg=r.segment_id or "",
                            atoms=[(a.name, a.element.symbol if a.element is not None else "VS", None if a.serial is None else int(a.serial)) for a in r.atoms]))
        chains.append(dict(id=c.chain_id, res=res))
    bonds = []
    for b in top.bonds:
        bonds.append((b[0].index, b[1].index, None if b.type is None else repr(b.type), None if b.order is None else int(b.order)))
    return dict(chains=chains, bonds=bonds)


def expected_subset(d, keep):
    out = dict(chains=[], bonds=[])
    k = 0
    newidx = {}
    for c in d["chains"]:
        res = []
        for r in c["res"]:
            atoms = []
            for a in r["atoms"]:
                if k in keep:
                    newidx[k] = len(newidx)
                    atoms.append(a)
                k += 1
            if atoms:
                res.append(dict(r, atoms=atoms))
        if res:
            out["chains"].append(dict(id=c["id"], res=res))
    for (i, j, ty, o) in d["bonds"]:
        if i in newidx and j in newidx:
            out["bonds"].append((newidx[i], newidx[j], ty, o))
    return out


# ---- topologies whose atom numbering does not follow the residues (an atom added to an earlier residue): d plus order[k] = flattened
# position of the atom that gets index k; bonds of d are over the indices
def gen_itop(rng, pdb_safe=False):
    d = gen_top(rng, pdb_safe)
    n = n_atoms(d)
    order = list(range(n))
    mode = rng.choice(["identity", "shuffle", "late", "late", "swap"])
    if mode == "shuffle":
        rng.shuffle(order)
    elif mode == "late" and n > 1:          # a few atoms are added afterwards to residues that exist already (hydrogens, virtual sites)
        late = sorted(rng.sample(range(n), rng.randrange(1, max(2, n // 2))))
        order = [i for i in order if i not in late] + late
    elif mode == "swap" and n > 1:
        i, j = rng.sample(range(n), 2)
        order[i], order[j] = order[j], order[i]
    return dict(d=d, order=order)


def build_i(md, it):
    d = it["d"]
    top = md.Topology()
    tys = {None: None, "Single": md.core.topology.Single, "Double": md.core.topology.Double, "Triple": md.core.topology.Triple,
           "Aromatic": md.core.topology.Aromatic, "Amide": md.core.topology.Amide}
    flat = []
    for c in d["chains"]:
        ch = top.add_chain(c["id"])
        for r in c["res"]:
            rr = top.add_residue(r["name"], ch, r["resSeq"], r["seg"])
            flat.extend((rr, a) for a in r["atoms"])
    atoms = []
    for pos in it["order"]:
        rr, (an, el, sr) = flat[pos]
        atoms.append(top.add_atom(an, md.element.get_by_symbol(el), rr, serial=sr))
    for (i, j, ty, order) in d["bonds"]:
        top.add_bond(atoms[i], atoms[j], type=tys[ty], order=order)
    return top


def _ienc(cids, res, atoms, bonds, btype=True):
    cs = ",".join("-" if c is None else c for c in cids) if cids else "="
    rs = ";".join("%s~%d~%s~%d" % (n, q, sg or "-", c) for (n, q, sg, c) in res) if res else "="
    at = ",".join("%s^%s^%s^%d" % (n, e, "-" if sr is None else sr, r) for (n, e, sr, r) in atoms) if atoms else "="
    bs = ",".join("%d-%d-%s-%s" % (b[0], b[1], TYPES[b[2]] if btype else "_", "_" if (b[3] is None or not btype) else b[3]) for b in bonds) or "-"
    return "%s %s %s %s" % (cs, rs, at, bs)


def ienc(it, btype=True):
    d = it["d"]
    cids = [c["id"] for c in d["chains"]]
    res, flat = [], []
    for ci, c in enumerate(d["chains"]):
        for r in c["res"]:
            flat.extend((a, len(res)) for a in r["atoms"])
            res.append((r["name"], r["resSeq"], r["seg"], ci))
    atoms = [(flat[pos][0][0], flat[pos][0][1], flat[pos][0][2], flat[pos][1]) for pos in it["order"]]
    return _ienc(cids, res, atoms, d["bonds"], btype)


def idump(top, btype=True, sort_bonds=False):
    """md.Topology -> the same text, atoms in index order"""
    chains = list(top.chains)
    cpos = {id(c): i for i, c in enumerate(chains)}
    residues = [r for c in chains for r in c.residues]
    rpos = {id(r): i for i, r in enumerate(residues)}
    res = [(r.name, int(r.resSeq), r.segment_id or "", cpos[id(r.chain)]) for r in residues]
    atoms = []
    for i in range(top.n_atoms):
        a = top.atom(i)
        if a.index != i:
            raise AssertionError("atom(%d).index == %d" % (i, a.index))
        atoms.append((a.name, a.element.symbol if a.element is not None else "VS", None if a.serial is None else int(a.serial), rpos[id(a.residue)]))
    bonds = [(b[0].index, b[1].index, None if b.type is None else repr(b.type), None if b.order is None else int(b.order)) for b in top.bonds]
    if sort_bonds:
        bonds = sorted((min(b[0], b[1]), max(b[0], b[1]), b[2], b[3]) for b in bonds)
    return _ienc([c.chain_id for c in chains], res, atoms, bonds, btype)


def iatom_cores(text):
    f = text.split(" ")[2]
    return [] if f == "=" else [tuple(x.split("^")[:3]) for x in f.split(",")]


def parse_pdb_numbers(path):
    serials, conect = [], []
    for line in open(path):
        if line.startswith(("ATOM", "HETATM")):
            serials.append(int(line[6:11]))
        elif line.startswith("CONECT"):
            nums = [int(line[k:k + 5]) for k in range(6, len(line.rstrip()), 5) if line[k:k + 5].strip()]
            for x in nums[1:]:
                conect.append((nums[0], x))
        elif line.startswith("ENDMDL"):
            pass
    return serials, conect


def run(ctx):
    warnings.filterwarnings("ignore")
    import mdtraj as md
    ctx.rule = ("random topologies (1-3 chains with or without explicit ids, repeated/zero/negative residue numbers, non-contiguous serials, "
                "virtual sites, typed/ordered bonds across residues and chains) x random strictly increasing subsets x copy/deepcopy/pickle/"
                "join/dataframe/h5/pdb followed by insert_atom/delete_atom_by_index/add_bond edits on either side; non-trivial = distinct "
                "(topology, transformation) with at least one bond or more than one chain")
    rng = ctx.rng
    N = ctx.n(120, 1200)
    tops = [gen_top(rng) for _ in range(N)]
    pdbtops = [gen_top(rng, pdb_safe=True) for _ in range(ctx.n(40, 300))]
    reqs, meta = [], []
    for k, d in enumerate(tops):
        n = n_atoms(d)
        keep = sorted(rng.sample(range(n), rng.randrange(0, n + 1)))
        mask = "".join("1" if i in keep else "0" for i in range(n))
        reqs.append("topsubset %s %s" % (enc(d), mask)); meta.append(("subset", k, keep))
        other = tops[rng.randrange(N)]
        keepseq = rng.random() < 0.6
        reqs.append("topjoin %s %s %d" % (enc(d), enc(other), 1 if keepseq else 0)); meta.append(("join", k, (other, keepseq)))
        reqs.append("toprows %s" % enc(d)); meta.append(("rows", k, None))
        reqs.append("topeqhash %s %s" % (enc(d), enc(other))); meta.append(("eqhash", k, other))
    for k, d in enumerate(pdbtops):
        for ter in (0, 1):
            reqs.append("toppdb %s %d" % (enc(d), ter)); meta.append(("pdb", k, ter))
    model = ctx.driver.query(reqs) if ctx.driver_ok else [None] * len(reqs)
    seen = {}

    def viol(key, what, rp):
        seen.setdefault(key, (what, rp))

    for (kind, k, arg), m in zip(meta, model):
        d = tops[k] if kind != "pdb" else pdbtops[k]
        top = build(md, d)
        nontriv = (kind, enc(d)) if (d["bonds"] or len(d["chains"]) > 1) else None
        ctx.case(dict(kind=kind, top=enc(d)) if kind in ("subset", "pdb") else None, nontriv)
        ctx.count("calls:" + kind)
        try:
            if kind == "subset":
                got = dump(top.subset(arg))
                exp = expected_subset(d, set(arg))
                if enc(got) != enc(exp):
                    what = [f for f, kw in (("chain ids", dict(chain_ids=False)), ("serials", dict(serial=False)), ("bonds", dict(bonds=False)))
                            if enc(got, **kw) == enc(exp, **kw)]
                    viol("subset|" + (what[0] if what else "structure"), "subset(%s) of %s gives %s, expected %s" % (arg, enc(d), enc(got), enc(exp)),
                         dict(kind=kind, top=enc(d), keep=arg))
                if m is not None and m != enc(got):
                    ctx.broke("correspondence:subset", "top %s keep %s: impl %s model %s" % (enc(d), arg, enc(got), m))
                # copies are independent: edit the source after subsetting/copying, the derived topology must not change
                as_traj = lambda t: md.Trajectory(np.zeros((1, t.n_atoms, 3), dtype=np.float32), t)
                for name, mk in (("copy", lambda t: t.copy()), ("deepcopy", pycopy.deepcopy), ("pickle", lambda t: pickle.loads(pickle.dumps(t))),
                                 # … and what keeps every atom: the result is a topology of its own all the same
                                 ("subset of all atoms", lambda t: t.subset(list(range(t.n_atoms)))),
                                 ("atom_slice of all atoms", lambda t: as_traj(t).atom_slice(np.arange(t.n_atoms)).topology),
                                 ("restrict_atoms to all atoms", lambda t: as_traj(t).restrict_atoms(np.arange(t.n_atoms), inplace=False).topology),
                                 ("slice of the trajectory", lambda t: as_traj(t)[0:1].topology)):
                    src = build(md, d)
                    cp = mk(src)
                    plain = name in ("copy", "deepcopy", "pickle")
                    if plain and enc(dump(cp)) != enc(d):
                        viol("%s|value" % name, "%s of %s gives %s" % (name, enc(d), enc(dump(cp))), dict(kind=name, top=enc(d)))
                    if plain and (not (cp == src) or hash(cp) != hash(src)):
                        viol("%s|eq-hash" % name, "%s(t) == t is %s, hashes equal: %s" % (name, cp == src, hash(cp) == hash(src)), dict(kind=name, top=enc(d)))
                    before = enc(dump(cp))
                    res0 = next(src.residues)
                    src.insert_atom("XX", md.element.carbon, res0, index=0)
                    if src.n_atoms > 2:
                        src.delete_atom_by_index(src.n_atoms - 1)
                    atoms = list(src.atoms)
                    if len(atoms) > 1:
                        src.add_bond(atoms[0], atoms[-1])
                    if enc(dump(cp)) != before:
                        viol("%s|not-independent" % name, "editing the source changed its %s: %s -> %s" % (name, before, enc(dump(cp))), dict(kind=name, top=enc(d)))
                    src2 = build(md, d)
                    cp2 = mk(src2)
                    cp2.insert_atom("YY", md.element.nitrogen, next(cp2.residues), index=0)
                    if cp2.n_atoms > 2:
                        cp2.delete_atom_by_index(1)
                    if enc(dump(src2)) != enc(d):
                        viol("%s|not-independent" % name, "editing the %s changed the source" % name, dict(kind=name, top=enc(d)))
            elif kind == "join":
                other, keepseq = arg
                got = dump(top.join(build(md, other), keep_resSeq=keepseq))
                if m is not None and m != enc(got):
                    ctx.broke("correspondence:join", "join %s + %s keep=%s: impl %s model %s" % (enc(d), enc(other), keepseq, enc(got), m))
                if keepseq:
                    na = n_atoms(d)
                    exp = dict(chains=d["chains"] + other["chains"], bonds=d["bonds"] + [(i + na, j + na, t, o) for (i, j, t, o) in other["bonds"]])
                    if enc(got) != enc(exp):
                        viol("join|value", "join of %s and %s gives %s" % (enc(d), enc(other), enc(got)), dict(kind=kind, top=enc(d), other=enc(other)))
            elif kind == "rows":
                atoms, bonds = top.to_dataframe()
                back = dump(md.Topology.from_dataframe(atoms, bonds))
                if m is not None and m != enc(back):
                    ctx.broke("correspondence:dataframe", "top %s: impl %s model %s" % (enc(d), enc(back), m))
                if enc(back, chain_ids=False) != enc(d, chain_ids=False):
                    merged = sum(len(c["res"]) for c in back["chains"]) != sum(len(c["res"]) for c in d["chains"])
                    viol("dataframe|" + ("merges-adjacent-identical-residues" if merged else "value"),
                         "to_dataframe/from_dataframe of %s gives %s" % (enc(d), enc(back)), dict(kind=kind, top=enc(d)))
                elif any(c["id"] is not None for c in d["chains"]) and enc(back) != enc(d):
                    viol("dataframe|chain-ids", "to_dataframe/from_dataframe drops chain ids: %s -> %s" % (enc(d), enc(back)), dict(kind=kind, top=enc(d)))
                # .h5 round trip (bond type/order are beyond the carrier)
                import mdtraj.formats
                p = os.path.join(ctx.scratch, "t.h5")
                tr = md.Trajectory(np.zeros((1, top.n_atoms, 3), dtype=np.float32), top)
                tr.save(p)
                back = dump(md.load(p).topology)
                if enc(back, btype=False) != enc(d, btype=False):
                    what = [f for f, kw in (("chain-ids", dict(chain_ids=False)), ("serials", dict(serial=False))) if enc(back, btype=False, **kw) == enc(d, btype=False, **kw)]
                    viol("h5|" + (what[0] if what else "value"), "save/load .h5 of %s gives %s" % (enc(d), enc(back)), dict(kind="h5", top=enc(d)))
            elif kind == "eqhash":
                o = build(md, arg)
                e, h = (top == o), (hash(top) == hash(o))
                if e and not h:
                    viol("eq-hash", "topologies compare equal but hash differently: %s vs %s" % (enc(d), enc(arg)), dict(kind=kind, top=enc(d), other=enc(arg)))
                # same topology with different residue numbers / segment ids / serials
                d2 = pycopy.deepcopy(d)
                for c in d2["chains"]:
                    for r in c["res"]:
                        r["resSeq"] += 3
                        r["seg"] = "ZZ"
                t2 = build(md, d2)
                if (top == t2) and hash(top) != hash(t2):
                    viol("eq-hash", "topologies differing only in resSeq/segment compare equal but hash differently: %s" % enc(d), dict(kind=kind, top=enc(d)))
                # the same topology with its bonds added in another order
                if len(d["bonds"]) >= 2:
                    d3 = pycopy.deepcopy(d)
                    d3["bonds"] = rng.sample(d3["bonds"], len(d3["bonds"]))
                    t3 = build(md, d3)
                    ctx.count("eq/hash with bonds added in another order")
                    if top != t3:
                        viol("eq|bond-order", "the same topology with its bonds added in another order does not compare equal: %s" % enc(d), dict(kind=kind, top=enc(d)))
                    elif hash(top) != hash(t3):
                        viol("eq-hash|bond-order", "topologies that differ only in the order their bonds were added compare equal but hash differently: %s" % enc(d), dict(kind=kind, top=enc(d)))
                if m is not None:
                    me = "eq=true" in m
                    if me != e:
                        ctx.broke("correspondence:eq", "%s vs %s: impl == is %s, model %s" % (enc(d), enc(arg), e, m))
            elif kind == "pdb":
                ter = bool(arg)
                p = os.path.join(ctx.scratch, "t.pdb")
                tr = md.Trajectory(np.random.RandomState(k).uniform(0, 3, (1, top.n_atoms, 3)).astype(np.float32), top)
                tr.save(p, ter=ter)
                serials, conect = parse_pdb_numbers(p)
                got = "S" + ",".join(map(str, serials)) + " C" + ",".join("%d-%d" % c for c in sorted(set((min(a, b), max(a, b)) for a, b in conect)))
                if m is not None:
                    ms, mc = m.split(" C")
                    pairs = []
                    for x in (mc.split(",") if mc else []):
                        cut = x.index("-", 1)      # serial numbers may be negative only in theory; split at the separator after the first digit
                        a, b = int(x[:cut]), int(x[cut + 1:])
                        pairs.append((min(a, b), max(a, b)))
                    mm = ms + " C" + ",".join("%d-%d" % c for c in sorted(set(pairs)))
                    if mm != got:
                        ctx.broke("correspondence:pdb-numbering", "top %s ter=%s: file has %s, model %s" % (enc(d), ter, got, mm))
                # the bonded pairs named by CONECT must be the bonded atoms: serial -> atom position
                pos = {s: i for i, s in enumerate(serials)}
                want = sorted(set((min(i, j), max(i, j)) for (i, j, _, _) in d["bonds"]))
                have = sorted(set((min(pos.get(a, -1), pos.get(b, -1)), max(pos.get(a, -1), pos.get(b, -1))) for a, b in conect))
                if want != have:
                    viol("pdb|conect|ter=%s" % ter, "CONECT records of %s (ter=%s) name atom pairs %s, bonds are %s" % (enc(d), ter, have, want), dict(kind=kind, top=enc(d), ter=ter))
                back = dump(md.load(p, standard_names=False).topology)
                bb = sorted(set((min(i, j), max(i, j)) for (i, j, _, _) in back["bonds"]))
                if bb != want:
                    viol("pdb|reload-bonds|ter=%s" % ter, "save/load .pdb (ter=%s) of %s: bonds %s, expected %s" % (ter, enc(d), bb, want), dict(kind=kind, top=enc(d), ter=ter))
                single = len(d["chains"]) == 1 and all(a[2] is not None for c in d["chains"] for r in c["res"] for a in r["atoms"])
                if enc(back, bonds=False, serial=single, chain_ids=all(c["id"] for c in d["chains"])) != enc(d, bonds=False, serial=single, chain_ids=all(c["id"] for c in d["chains"])):
                    viol("pdb|reload-atoms", "save/load .pdb of %s gives %s" % (enc(d), enc(back, bonds=False)), dict(kind=kind, top=enc(d), ter=ter))
        except Exception as e:  # noqa: BLE001
            viol("%s|raises|%s" % (kind, type(e).__name__), "%s on %s raised %s: %s" % (kind, enc(d), type(e).__name__, str(e)[:200]), dict(kind=kind, top=enc(d)))

    # ---- topologies whose atom numbering does not follow the residues (Model/TopoIdx.lean)
    NI = ctx.n(60, 500)
    itops = [gen_itop(rng) for _ in range(NI)]
    ireqs, imeta = [], []
    for k, it in enumerate(itops):
        n = len(it["order"])
        keep = sorted(rng.sample(range(n), rng.randrange(0, n + 1)))
        ireqs.append("itopsubset %s %s" % (ienc(it), "".join("1" if i in keep else "0" for i in range(n)))); imeta.append(("isubset", k, keep))
        other = itops[rng.randrange(NI)]
        keepseq = rng.random() < 0.5
        ireqs.append("itopjoin %s %s %d" % (ienc(it), ienc(other), 1 if keepseq else 0)); imeta.append(("ijoin", k, (other, keepseq)))
    imodel = ctx.driver.query(ireqs) if ctx.driver_ok else [None] * len(ireqs)
    for (kind, k, arg), m in zip(imeta, imodel):
        it = itops[k]
        top = build_i(md, it)
        shuffled = it["order"] != sorted(it["order"])
        ctx.case(dict(kind=kind, top=ienc(it)) if kind == "isubset" else None, (kind, ienc(it)) if shuffled else None)
        ctx.count("calls:" + kind + (":interleaved" if shuffled else ":ordered"))
        rp = dict(kind=kind, top=ienc(it))
        try:
            if idump(top) != ienc(it):
                viol("interleaved|build", "a topology built with add_atom reads back as %s, built as %s" % (idump(top), ienc(it)), rp)
                continue
            cores = iatom_cores(ienc(it))
            if kind == "isubset":
                got = idump(top.subset(arg))
                if iatom_cores(got) != [cores[i] for i in arg]:
                    viol("subset|interleaved-order", "subset(%s) of %s (atoms numbered across the residues): atoms %s, the kept atoms in index order are %s" % (
                        arg, ienc(it), iatom_cores(got), [cores[i] for i in arg]), dict(rp, keep=arg))
                if m is not None and m != got:
                    ctx.broke("correspondence:subset-indexed", "top %s keep %s: impl %s model %s" % (ienc(it), arg, got, m))
                # the coordinate columns of a trajectory follow the indices
                xyz = np.zeros((1, top.n_atoms, 3), dtype=np.float32)
                xyz[0, :, 0] = np.arange(top.n_atoms)
                tr = md.Trajectory(xyz, top)
                if arg:
                    sl = tr.atom_slice(arg)
                    names = [(sl.topology.atom(j).name, sl.topology.atom(j).residue.name, int(sl.topology.atom(j).residue.resSeq)) for j in range(sl.n_atoms)]
                    want = [(top.atom(i).name, top.atom(i).residue.name, int(top.atom(i).residue.resSeq)) for i in arg]
                    if names != want or [int(v) for v in sl.xyz[0, :, 0]] != list(arg):
                        viol("atom_slice|interleaved-pairing", "atom_slice(%s) of a trajectory over %s pairs columns %s with atoms %s, expected %s" % (
                            arg, ienc(it), [int(v) for v in sl.xyz[0, :, 0]], names, want), dict(rp, keep=arg))
                for name, mk in (("copy", lambda t: t.copy()), ("deepcopy", pycopy.deepcopy), ("pickle", lambda t: pickle.loads(pickle.dumps(t)))):
                    cp = mk(top)
                    if idump(cp) != ienc(it) or not (cp == top) or hash(cp) != hash(top):
                        viol("%s|interleaved" % name, "%s of %s gives %s (== source: %s)" % (name, ienc(it), idump(cp), cp == top), dict(rp, op=name))
                if top.n_atoms:
                    p = os.path.join(ctx.scratch, "ti.h5")
                    tr.save(p)
                    ld = md.load(p)
                    if idump(ld.topology, btype=False, sort_bonds=True) != idump(top, btype=False, sort_bonds=True) or not np.array_equal(ld.xyz, tr.xyz):
                        viol("h5|interleaved", "save/load .h5 of %s gives %s" % (ienc(it), idump(ld.topology, btype=False)), dict(rp, op="h5"))
            else:
                other, keepseq = arg
                otop = build_i(md, other)
                got = idump(top.join(otop, keep_resSeq=keepseq))
                if iatom_cores(got) != cores + iatom_cores(ienc(other)):
                    viol("join|interleaved-order", "join of %s and %s: atoms %s" % (ienc(it), ienc(other), iatom_cores(got)), dict(rp, other=ienc(other)))
                if m is not None and m != got:
                    ctx.broke("correspondence:join-indexed", "join %s + %s keep=%s: impl %s model %s" % (ienc(it), ienc(other), keepseq, got, m))
                if top.n_atoms and otop.n_atoms:
                    xa = np.zeros((1, top.n_atoms, 3), dtype=np.float32); xa[0, :, 0] = np.arange(top.n_atoms)
                    xb = np.zeros((1, otop.n_atoms, 3), dtype=np.float32); xb[0, :, 0] = 100 + np.arange(otop.n_atoms)
                    st = md.Trajectory(xa, top).stack(md.Trajectory(xb, otop))
                    names = [st.topology.atom(j).name for j in range(st.n_atoms)]
                    want = [top.atom(i).name for i in range(top.n_atoms)] + [otop.atom(i).name for i in range(otop.n_atoms)]
                    if names != want:
                        viol("stack|interleaved-pairing", "stack of trajectories over %s and %s: atoms %s, columns follow %s" % (ienc(it), ienc(other), names, want), dict(rp, other=ienc(other)))
        except Exception as e:  # noqa: BLE001
            viol("%s|raises|%s" % (kind, type(e).__name__), "%s on %s raised %s: %s" % (kind, ienc(it), type(e).__name__, str(e)[:200]), rp)
    # serial numbers beyond the five columns of a PDB file: the bonds written as CONECT records still join the same atoms after loading
    tb_ = md.Topology(); cb_ = tb_.add_chain(); rb_ = tb_.add_residue("LIG", cb_, 1)
    ab_ = [tb_.add_atom("C%d" % i_, md.element.carbon, rb_, serial=sr_) for i_, sr_ in enumerate([99999, 100000, 100001, 1, 250000])]
    for i_, j_ in ((2, 3), (0, 1), (3, 4)):
        tb_.add_bond(ab_[i_], ab_[j_])
    pb_ = os.path.join(ctx.scratch, "bigserial.pdb")
    ctx.case(None, ("pdb-big-serials",)); ctx.count("calls:pdb with serials beyond five columns")
    try:
        md.Trajectory(np.arange(15, dtype=np.float32).reshape(1, 5, 3) / 10, tb_).save(pb_)
        lb_ = md.load(pb_, standard_names=False)
        gb_ = sorted((min(b[0].index, b[1].index), max(b[0].index, b[1].index)) for b in lb_.topology.bonds)
        if gb_ != [(0, 1), (2, 3), (3, 4)] or lb_.n_atoms != 5:
            viol("pdb|serials-beyond-columns", "a single chain with unique serials [99999, 100000, 100001, 1, 250000] and bonds (0,1) (2,3) (3,4) reloads from .pdb with bonds %s" % gb_, dict())
    except Exception as e:  # noqa: BLE001
        viol("pdb|serials-beyond-columns", "saving / loading a .pdb with serials beyond 99999 raised %s: %s" % (type(e).__name__, str(e)[:100]), dict())
    # subsets given in any order, with repeats and values counted from the end: the atoms follow the list as numpy indexing would
    # (model: isubsetL, driver `itopsubsetl`; theorem c04_isubsetL_sorted makes the ordered subset its special case)
    lreqs, lmeta = [], []
    for k in range(ctx.n(30, 200)):
        it = itops[rng.randrange(NI)]
        n = len(it["order"])
        if n == 0:
            continue
        idx = [rng.randrange(-n, n) for _ in range(rng.randrange(1, 8))] if k % 2 else rng.sample(range(n), rng.randrange(1, n + 1))
        lreqs.append("itopsubsetl %s %s" % (ienc(it), ",".join(str(i % n) for i in idx))); lmeta.append((it, idx))
    lmodel = ctx.driver.query(lreqs) if ctx.driver_ok else [None] * len(lreqs)
    for (it, idx), m in zip(lmeta, lmodel):
        top = build_i(md, it)
        n = top.n_atoms
        ctx.case(None, ("subset-order", ienc(it), tuple(idx))); ctx.count("calls:subset in arbitrary order")
        with warnings.catch_warnings():
            warnings.simplefilter("ignore")
            try:
                sub = top.subset(idx)
            except Exception as e:  # noqa: BLE001
                viol("subset|order|raises", "subset(%s) of %s raised %s: %s" % (idx, ienc(it), type(e).__name__, e), dict(top=ienc(it), keep=idx))
                continue
        cores = iatom_cores(ienc(it))
        want = [cores[i % n] for i in idx]
        got_text = idump(sub)
        got = iatom_cores(got_text)
        resn = lambda t_, i_: (t_.atom(i_).residue.name, int(t_.atom(i_).residue.resSeq), t_.atom(i_).residue.chain.chain_id)
        if got != want or [resn(sub, j) for j in range(sub.n_atoms)] != [resn(top, i % n) for i in idx]:
            viol("subset|given-order", "subset(%s) of %s: atoms %s, numpy indexing of the atom list gives %s" % (idx, ienc(it), got, want), dict(top=ienc(it), keep=idx))
        if m is not None and m != got_text:
            ctx.broke("correspondence:subset-list", "top %s idx %s: impl %s model %s" % (ienc(it), idx, got_text, m))
    # ---- insert_atom with an index that is not a position of the atom list (negative, beyond the end): refused, or else every atom's index is
    # still its position afterwards
    for bad_index in (-1, -3, 99):
        tq = md.Topology(); cq = tq.add_chain(); rq = tq.add_residue("ALA", cq)
        for nm_ in ("N", "CA", "C", "O"):
            tq.add_atom(nm_, md.element.carbon, rq)
        ctx.case(None, ("insert-index", bad_index)); ctx.count("calls:insert_atom with an index outside the atom list")
        try:
            tq.insert_atom("XX", md.element.carbon, rq, index=bad_index)
            pos_ = [a.index for a in tq.atoms]
            if pos_ != list(range(tq.n_atoms)) or any(tq.atom(i).index != i for i in range(tq.n_atoms)):
                viol("edit|insert-index-outside", "insert_atom(index=%d) into a topology of 4 atoms is accepted and leaves the atoms with indices %s (atom(i).index is not i)" % (bad_index, pos_), dict(index=bad_index))
        except (ValueError, IndexError):
            pass
    # ---- editing: insert_atom(index=, rindex=) and delete_atom_by_index on topologies whose residues hold atoms of the same name and
    # element (two virtual sites "M", repeated ligand names): a plain-data shadow says what the topology must be after every edit; copies
    # of the edited topology compare equal to it and keep the order of the atoms inside each residue
    E_ = md.element
    for k in range(ctx.n(40, 300)):
        top = md.Topology()
        shadow, resorder, sbonds = [], {}, []      # atoms by index: [uid, name, elem]; residue -> [uid] in residue order; bonds (uid, uid)
        uid = 0
        handles = {}
        residues_ = []
        for ci in range(rng.choice([1, 2])):
            ch = top.add_chain()
            for ri in range(rng.randrange(1, 4)):
                r = top.add_residue(rng.choice(["LIG", "HOH", "ALA"]), ch, ri + 1)
                residues_.append(r); resorder[id(r)] = []
                for ai in range(rng.randrange(1, 5)):
                    nm = rng.choice(["M", "M", "H", "H", "C1", "O"])
                    a = top.add_atom(nm, E_.virtual if nm == "M" else E_.get_by_symbol(nm[0]), r)
                    shadow.append([uid, nm, id(r)]); resorder[id(r)].append(uid); handles[uid] = a; uid += 1
        ids_ = [x[0] for x in shadow]
        for _ in range(rng.randrange(0, len(ids_) + 2)):
            if len(ids_) >= 2:
                u, v = rng.sample(ids_, 2)
                if (u, v) not in sbonds and (v, u) not in sbonds:
                    top.add_bond(handles[u], handles[v]); sbonds.append((u, v))
        log = []
        bad = None
        eops, n0_, bonds0_ = [], len(shadow), list(sbonds)
        for step in range(rng.randrange(1, 6)):
            n = len(shadow)
            if n and rng.random() < 0.6:
                i = rng.randrange(n)
                top.delete_atom_by_index(i); log.append("delete %d" % i); eops.append("d%d" % i)
                u = shadow.pop(i)[0]
                for lst in resorder.values():
                    if u in lst:
                        lst.remove(u)
                sbonds = [b for b in sbonds if u not in b]
            else:
                r = rng.choice(residues_)
                i = rng.randrange(n + 1); ri_ = rng.randrange(len(resorder[id(r)]) + 1)
                nm = rng.choice(["M", "H", "C1"])
                a = top.insert_atom(nm, E_.virtual if nm == "M" else E_.get_by_symbol(nm[0]), r, index=i, rindex=ri_); log.append("insert %s at %d (place %d of its residue)" % (nm, i, ri_))
                eops.append("i%d:%d" % (i, uid))
                shadow.insert(i, [uid, nm, id(r)]); resorder[id(r)].insert(ri_, uid); handles[uid] = a; uid += 1
            pos = {x[0]: j for j, x in enumerate(shadow)}
            want_atoms = [(x[1], x[2]) for x in shadow]
            got_atoms = [(top.atom(j).name, id(top.atom(j).residue)) for j in range(top.n_atoms)] if top.n_atoms == len(shadow) else None
            want_res = [[pos[u] for u in resorder[id(r)]] for r in residues_]
            got_res = [[a.index for a in r.atoms] for r in residues_]
            want_b = sorted((min(pos[u], pos[v]), max(pos[u], pos[v])) for u, v in sbonds)
            got_b = sorted((min(b[0].index, b[1].index), max(b[0].index, b[1].index)) for b in top.bonds)
            if got_atoms != want_atoms or got_res != want_res or got_b != want_b or [top.atom(j).index for j in range(top.n_atoms)] != list(range(top.n_atoms)):
                bad = "after %s: atoms %s, atoms inside the residues %s, bonds %s; expected atoms %s, residues %s, bonds %s" % (
                    "; ".join(log), None if got_atoms is None else [x[0] for x in got_atoms], got_res, got_b, [x[0] for x in want_atoms], want_res, want_b)
                break
        ctx.case(None, ("edit", k)); ctx.count("calls:edit histories (insert_atom / delete_atom_by_index)")
        # the same history in the Lean edit model (TopoEdit.runE): order of the atoms by identity, their index fields, the bonds by position
        if ctx.driver_ok and not bad:
            line = ctx.driver.query(["topedit %d %s %s" % (n0_, ",".join("%d-%d" % b for b in bonds0_) or "-", ";".join(eops) or "-")])[0]
            inv_ = {id(a_): u_ for u_, a_ in handles.items()}
            got_line = "%s | %s | %s" % (",".join(str(inv_.get(id(top.atom(j)), -1)) for j in range(top.n_atoms)), ",".join(str(top.atom(j).index) for j in range(top.n_atoms)),
                                        ",".join("%d-%d" % (b[0].index, b[1].index) for b in top.bonds))
            norm_ = lambda l_: (l_.split(" | ")[0].strip(), l_.split(" | ")[1].strip(), sorted(tuple(sorted(map(int, x.split("-")))) for x in l_.split(" | ")[2].strip().split(",") if x)) if l_ and l_.count(" | ") == 2 else l_
            if norm_(line) != norm_(got_line):
                ctx.broke("correspondence:edit-history", "ops %s on %d atoms with bonds %s: impl '%s', model '%s'" % (eops, n0_, bonds0_, got_line, line))
        if bad:
            viol("edit|shadow", "insert_atom / delete_atom_by_index: " + bad, dict(log=log))
            continue
        for name_, mk_ in (("copy", lambda t_: t_.copy()), ("deepcopy", pycopy.deepcopy), ("pickle", lambda t_: pickle.loads(pickle.dumps(t_))), ("subset(all)", lambda t_: t_.subset(range(t_.n_atoms))),
                           ("Topology().join", lambda t_: md.Topology().join(t_) if t_.n_atoms else t_.copy())):
            if name_ == "subset(all)" and any(r.n_atoms == 0 for r in top.residues):
                continue            # subset drops the residues that keep no atom (c04_subset_no_empty)
            try:
                cp = mk_(top)
            except Exception as e:  # noqa: BLE001
                viol("edit|%s|raises" % name_, "%s of a topology edited by %s raised %s: %s" % (name_, "; ".join(log), type(e).__name__, e), dict(log=log))
                continue
            inner = lambda t_: [[a.index for a in r.atoms] for r in t_.residues]
            if not (cp == top) or inner(cp) != inner(top):
                viol("edit|%s|not-equal" % name_, "%s of a topology edited by %s: == source is %s, atoms inside the residues %s, in the source %s" % (name_, "; ".join(log), cp == top, inner(cp), inner(top)), dict(log=log))
    # .pdb: the file groups the atoms by residue; every atom must come back with its own coordinates
    for k in range(ctx.n(20, 150)):
        it = gen_itop(rng, pdb_safe=True)
        top = build_i(md, it)
        xyz = np.zeros((1, top.n_atoms, 3), dtype=np.float32)
        xyz[0, :, 0] = 0.1 * np.arange(top.n_atoms)
        p = os.path.join(ctx.scratch, "ti.pdb")
        ctx.case(None, ("ipdb", ienc(it)) if it["order"] != sorted(it["order"]) else None); ctx.count("calls:pdb-interleaved")
        try:
            md.Trajectory(xyz, top).save(p)
            ld = md.load(p, standard_names=False)
            got = [(a.name, a.residue.name, int(a.residue.resSeq), int(round(float(ld.xyz[0, a.index, 0]) * 10))) for a in ld.topology.atoms]
            want = [(a.name, r.name, int(r.resSeq), a.index) for c in top.chains for r in c.residues for a in r.atoms]
            if got != want:
                viol("pdb|interleaved-pairing", "save/load .pdb of %s: (atom, residue, resSeq, coordinate column) = %s, expected %s" % (ienc(it), got, want), dict(kind="ipdb", top=ienc(it)))
        except Exception as e:  # noqa: BLE001
            viol("ipdb|raises|%s" % type(e).__name__, "pdb save/load of %s raised %s: %s" % (ienc(it), type(e).__name__, str(e)[:200]), dict(kind="ipdb", top=ienc(it)))
    for key, (what, rp) in seen.items():
        ctx.violation(key, what, rp)


def replay(ctx, path):
    import json
    print(json.load(open(path))["what"])
    return 1
