"""C10: neighbour searches return exactly the atoms within the cutoff.
Correspondence: md.compute_neighbors and md.compute_neighborlist vs Model/Neighbors.lean over exact rationals (driver
`nbs`, `nbl`), pairs within 1e-5 nm of the cutoff excluded by the model's classification.
Oracle: brute-force minimum-image distances in float64; symmetry / irreflexivity / no duplicates; agreement with
compute_distances."""
import json
import os
import warnings
from fractions import Fraction

import numpy as np

from props.c05 import cells, rat, width, brute_min

TOL = "1/100000"


def make(md, rng, n_atoms, cell_mode, spread):
    top = md.Topology()
    ch = top.add_chain()
    r = top.add_residue("X", ch)
    for i in range(n_atoms):
        top.add_atom("C%d" % i, md.element.carbon, r)
    if cell_mode == "none":
        box, kind = None, "none"
        span = 3.0
    else:
        while True:
            kind, box = cells(rng)
            if (cell_mode == "ortho") == (kind in ("cubic", "ortho")):
                break
        span = float(box.max())
    xyz = np.zeros((1, n_atoms, 3), dtype=np.float32)
    centers = [np.array([rng.uniform(0, span) for _ in range(3)]) for _ in range(3)]
    for a in range(n_atoms):
        m = rng.random()
        if m < 0.4:
            p = rng.choice(centers) + np.array([rng.gauss(0, 0.25) for _ in range(3)])
        else:
            p = np.array([rng.uniform(0, span) for _ in range(3)])
        if box is not None and rng.random() < spread:
            ijk = [rng.randrange(-6, 7) for _ in range(3)]
            p = p + ijk[0] * box[0] + ijk[1] * box[1] + ijk[2] * box[2]
        if rng.random() < 0.1 and box is not None:
            p = np.round(p / (box[1, 1] / 4)) * (box[1, 1] / 4)      # on voxel boundaries
        xyz[0, a] = np.round(p * 256) / 256
    t = md.Trajectory(xyz, top)
    if box is not None:
        t.unitcell_vectors = box[None]
    return t, kind


def parse_rows(m):
    rows = []
    for part in m.split(";"):
        d, mb = part.split("/")
        rows.append((set(map(int, d.split(","))) if d else set(), set(map(int, mb.split(","))) if mb else set()))
    return rows


def voxel_stream(ctx, viol):
    """class Voxels of neighborlist.cpp, driven through cshim/nbl_shim.cpp, against Model/Voxels.lean: findLowerBound / findUpperBound on
    sorted bins with repeated x values, the bin positions getNeighbors scans (direct range, then the periodic image range) read off the order
    of its output, and getVoxelIndex."""
    import ctypes
    import shim
    from fractions import Fraction
    lib, err = shim.build("nbl")
    if lib is None:
        ctx.broke("shim:nbl", err)
        return
    P, I, F_ = ctypes.c_void_p, ctypes.c_int, ctypes.c_float
    lib.vox_new.restype = P; lib.vox_new.argtypes = [F_] * 6 + [P, I]
    lib.vox_insert.restype = None; lib.vox_insert.argtypes = [P, I, P]
    lib.vox_sort.restype = None; lib.vox_sort.argtypes = [P]
    lib.vox_free.restype = None; lib.vox_free.argtypes = [P]
    lib.vox_index.restype = None; lib.vox_index.argtypes = [P, P, P]
    lib.vox_lower.argtypes = [P, I, I, ctypes.c_double, I, I]; lib.vox_upper.argtypes = [P, I, I, ctypes.c_double, I, I]
    lib.vox_neighbors.argtypes = [P, I, F_, P, P, I]
    rng = ctx.rng
    if not ctx.driver_ok:
        return
    reqs, meta = [], []
    for k in range(ctx.n(60, 500)):
        L = rng.choice([1.0, 2.0, 4.0])
        n = rng.choice([1, 2, 3, 5, 8, 13, 30])
        grid = rng.choice([8, 16, 64])
        xs = [rng.randrange(0, int(L * grid)) / grid for _ in range(n)]               # repeated values are likely on the coarse grids
        if rng.random() < 0.3:
            xs = [min(x, L / 4) for x in xs] if rng.random() < 0.5 else [max(x, 3 * L / 4) for x in xs]   # everything at one end of the box
        box = np.diag([L, L, L]).astype(np.float32)
        locs = np.array([[x, L / 2, L / 2] for x in xs], dtype=np.float32)
        v = lib.vox_new(2 * L, 2 * L, 0.0, L, 0.0, L, box.ctypes.data, 1)                 # one voxel: ny = nz = 1
        try:
            for a in range(n):
                lib.vox_insert(v, a, locs[a].ctypes.data)
            lib.vox_sort(v)
            order = sorted(range(n), key=lambda a: (xs[a], a))                             # sortItems: by (x, atom)
            sx = [xs[a] for a in order]
            sxs = " ".join(rat(x) for x in sx)
            # ---- bisections
            for _ in range(4):
                lo = rng.randrange(0, n + 1); hi = rng.randrange(lo, n + 1)
                x = rng.choice(sx + [rng.uniform(-0.5, L + 0.5)]) if rng.random() < 0.5 else rng.randrange(-4, int(L * grid) + 4) / grid
                for name, fn in (("lb", lib.vox_lower), ("ub", lib.vox_upper)):
                    got = fn(v, 0, 0, float(x), lo, hi)
                    reqs.append("vox %s %s %d %d %s" % (name, rat(x), lo, hi, sxs)); meta.append(("bisect", name, got, (x, lo, hi, sx)))
                    # independent oracle: the definition
                    want = lo + (sum(1 for y in sx[lo:hi] if y < x) if name == "lb" else sum(1 for y in sx[lo:hi] if y <= x))
                    ctx.case(None, ("bisect", k, name, lo, hi, float(x))); ctx.count("bisections")
                    if got != want:
                        viol("voxels|bisection|" + name, "find%sBound(x=%s, %d, %d) on the sorted bin %s returns %d, the first position %s x is %d" % (
                            "Lower" if name == "lb" else "Upper", x, lo, hi, sx, got, "at or above" if name == "lb" else "above", want), dict(bin=sx, x=float(x), lower=lo, upper=hi))
            # ---- the scan of getNeighbors, read off the order of its output: the centre is the atom with the largest index
            if n >= 2:
                c = n - 1
                m = rng.choice([0.125, 0.25, 0.375, 0.4375]) * L / (2 if rng.random() < 0.3 else 1)
                out = (ctypes.c_int * (4 * n + 8))()
                cnt = lib.vox_neighbors(v, c, m, locs.ctypes.data, out, 4 * n + 8)
                got = list(out[:min(cnt, 4 * n + 8)])
                cx = xs[c]
                minx, maxx = cx - m, cx + m                                                  # exact on the dyadic grid
                need = minx < 0 or maxx > L
                reqs.append("vox ranges %s %s %s %d %s" % (rat(minx), rat(maxx), rat(L), 1 if need else 0, sxs)); meta.append(("scan", None, got, (order, c, m, L, sx)))
                # independent oracle: the atoms (other than the centre) within m of it by minimum image, each once
                dmin = {a: min(abs(xs[a] - cx), L - abs(xs[a] - cx)) for a in range(n) if a != c}
                want = sorted(a for a in dmin if dmin[a] < m - 1e-6)
                tie = {a for a in dmin if abs(dmin[a] - m) <= 1e-6}        # exactly at the cutoff: the property leaves these open
                ctx.case(None, ("scan", k)); ctx.count("neighbour scans")
                if len(set(got)) != len(got) or not set(want) <= set(got) or not set(got) <= set(want) | tie:
                    viol("voxels|scan|%s" % ("duplicates" if len(set(got)) != len(got) else "set"), "Voxels.getNeighbors for the atom at x=%s (cutoff %s, box %s) over the bin %s returns atoms %s, within the cutoff are %s" % (
                        cx, m, L, sx, got, want), dict(xs=xs, centre=c, cutoff=m, box=L))
        finally:
            lib.vox_free(v)
    # ---- voxel index (non-periodic grid over [miny, maxy])
    for k in range(ctx.n(40, 300)):
        span = rng.choice([1.0, 2.5, 7.0]); edge = rng.choice([0.25, 0.3, 0.5, 1.1])
        v = lib.vox_new(edge, edge, 0.0, span, 0.0, span, None, 0)
        try:
            ny = max(1, int(np.floor(np.float32(span) / np.float32(edge) + np.float32(0.5))))
            size = np.float32(span) / np.float32(ny)
            for _ in range(5):
                y = np.float32(rng.uniform(-0.2, span + 0.2)); z = np.float32(rng.uniform(0, span))
                loc = np.array([0.0, y, z], dtype=np.float32); out = (ctypes.c_int * 2)()
                lib.vox_index(v, loc.ctypes.data, out)
                reqs.append("vox index %d %s %s" % (ny, rat(float(size)), rat(float(y)))); meta.append(("index", None, out[0], (ny, float(size), float(y))))
                ctx.case(None, ("index", k, float(y))); ctx.count("voxel indices")
                if not 0 <= out[0] < ny:
                    viol("voxels|index|range", "getVoxelIndex(y=%s) = %d outside [0, %d)" % (y, out[0], ny), dict(y=float(y), ny=ny))
        finally:
            lib.vox_free(v)
    # ---- voxel index on the periodic grid of a skewed cell, for positions as _compute_neighborlist hands them over (wrapped into the brick,
    # possibly a rounding error outside it): the row of the position itself (c10_voxel_holds), the edge row when it is just outside
    # (c10_voxel_edge_low / _high) — never the row of a periodic copy
    for k in range(ctx.n(30, 200)):
        by = np.float32(rng.choice([1.75, 1.8125, 2.5, 3.0])); cz = np.float32(rng.choice([1.5, 2.3125, 2.75]))
        boxm = np.array([[2.09375, 0, 0], [-1.0625 if k % 2 else 0.625, by, 0], [-0.625, 0.875 if k % 3 else -0.5, cz]], dtype=np.float32)
        edge = np.float32(rng.choice([0.3, 0.35, 0.5, 0.8]))
        v = lib.vox_new(edge, edge, 0.0, float(by), 0.0, float(cz), boxm.ctypes.data, 1)
        try:
            ny = max(1, int(np.floor(by / edge + np.float32(0.5)))); nz = max(1, int(np.floor(cz / edge + np.float32(0.5))))
            sy = by / np.float32(ny); sz = cz / np.float32(nz)
            for j in range(6):
                y = np.float32(rng.uniform(0, float(by))); z = np.float32(rng.uniform(0, float(cz)))
                if j == 0:
                    y = np.float32(-rng.choice([1.2e-7, 1e-8, 2.4e-7]))
                elif j == 1:
                    z = np.float32(-rng.choice([1.2e-7, 1e-8, 2.4e-7]))
                elif j == 2:
                    y = by
                    for _ in range(rng.randrange(0, 4)):
                        y = np.nextafter(y, np.float32(0))
                elif j == 3:
                    z = cz
                    for _ in range(rng.randrange(0, 4)):
                        z = np.nextafter(z, np.float32(0))
                loc = np.array([0.5, y, z], dtype=np.float32); out = (ctypes.c_int * 2)()
                lib.vox_index(v, loc.ctypes.data, out)
                ctx.case(None, ("pindex", k, j)); ctx.count("voxel indices on the periodic grid of a skewed cell")
                for nm, val, nn, size, L, got in (("y", y, ny, sy, by, out[0]), ("z", z, nz, sz, cz, out[1])):
                    if val < 0 or val >= L or (L - val) < 4e-7 * L:
                        want = 0 if val < 0 else nn - 1
                        if got != want:
                            viol("voxels|index|face", "getVoxelIndex files a wrapped position with %s = %r (box length %r, %d rows) under row %d; the row next to the position is %d" % (
                                nm, float(val), float(L), nn, got, want), dict(axis=nm, value=float(val), box=boxm.tolist(), rows=nn))
                    else:
                        reqs.append("vox index %d %s %s" % (nn, rat(float(size)), rat(float(val)))); meta.append(("index", None, got, (nn, float(size), float(val))))
        finally:
            lib.vox_free(v)
    model = ctx.driver.query(reqs)
    for (kind, name, got, info), m in zip(meta, model):
        if m is None or m == "bad-op":
            ctx.broke("driver:vox", "%s %s" % (kind, m)); break
        if kind == "bisect":
            if int(m) != got:
                ctx.broke("correspondence:voxels-bisection", "find%sBound%s: impl %d, model %s" % ("Lower" if name == "lb" else "Upper", info[:3], got, m))
        elif kind == "scan":
            order, c, mm, L, sx = info
            vis = [int(x) for x in m.split(" V ")[1].split(",") if x != ""]
            want = [order[p] for p in vis if order[p] < c]
            ctx.count("scans compared with the model's visiting order")
            if want != got:
                ctx.broke("correspondence:voxels-scan", "bin %s centre atom %d cutoff %s box %s: getNeighbors pushes %s, the model scans positions %s = atoms %s" % (sx, c, mm, L, got, vis, want))
        elif kind == "index":
            idx, marg = m.split()
            if float(Fraction(marg)) > 1e-5 and int(idx) != got:
                ctx.broke("correspondence:voxels-index", "getVoxelIndex%s: impl %d, model %s" % (info, got, idx))


def skewed_large_cutoff_stream(ctx, md, viol):
    """Strongly skewed cells (angles 50..130 degrees) with a cutoff between 0.3 and 0.499 of the smallest cell width and a few hundred atoms
    in and around the primary cell: the regime in which the voxel window of compute_neighborlist spans a whole period of the grid.
    Oracle: the brute-force minimum image over a reduced basis (exact in float64), pairs within 1e-5 nm of the cutoff left open."""
    rng = ctx.rng
    done = 0
    for k in range(ctx.n(40, 300)):
        L = np.array([rng.uniform(2.5, 6.0) for _ in range(3)]); A = np.array([rng.uniform(50.0, 130.0) for _ in range(3)])
        ca, cb, cg = np.cos(np.radians(A))
        if 1 - ca * ca - cb * cb - cg * cg + 2 * ca * cb * cg < 0.05:
            continue                                                          # not a cell (or nearly flat)
        t0 = md.Trajectory(np.zeros((1, 1, 3), dtype=np.float32), None, unitcell_lengths=[L], unitcell_angles=[A])
        B = t0.unitcell_vectors[0].astype(np.float64)
        w = float(width(B))
        cut = rng.uniform(0.3, 0.499) * w
        n = rng.choice([60, 150, 250])
        X = np.array([[rng.random() for _ in range(3)] for _ in range(n)]) @ B
        if k % 2:
            X = X + np.array([[rng.randrange(-2, 3) for _ in range(3)] for _ in range(n)]) @ B
        t = md.Trajectory(X[None].astype(np.float32), None, unitcell_lengths=[L], unitcell_angles=[A])
        X32 = t.xyz[0].astype(np.float64)
        nl = md.compute_neighborlist(t, cut)
        nb = md.compute_neighbors(t, cut, np.arange(0, n, 7))[0]
        # brute force in float64 over images -2..2 of a reduced basis: exact below half the width
        Bf = t.unitcell_vectors[0].astype(np.float64)
        D = X32[None, :, :] - X32[:, None, :]
        frac = np.rint(D @ np.linalg.inv(Bf))
        D = D - frac @ Bf
        best = np.full((n, n), np.inf)
        for i in range(-2, 3):
            for j in range(-2, 3):
                for kk in range(-2, 3):
                    best = np.minimum(best, np.linalg.norm(D + (i * Bf[0] + j * Bf[1] + kk * Bf[2]), axis=-1))
        np.fill_diagonal(best, np.inf)
        sure = best < cut - 1e-5; open_ = np.abs(best - cut) <= 1e-5
        done += 1
        ctx.case(dict(cell=[L.round(3).tolist(), A.round(2).tolist()], cutoff_over_width=round(cut / w, 3), n_atoms=n) if len(ctx.samples) < 6 else None, ("skewed-large-cutoff", k))
        ctx.count("skewed cells with a cutoff of 0.3-0.5 widths")
        rp = dict(lengths=L.tolist(), angles=A.tolist(), cutoff=cut, width=w, n_atoms=n, seed=ctx.seed, case=k, xyz=t.xyz[0].tolist() if n <= 60 else None)
        for i in range(n):
            got = [int(j) for j in nl[i]]
            want = set(np.nonzero(sure[i])[0].tolist()); maybe = set(np.nonzero(open_[i])[0].tolist())
            if len(set(got)) != len(got) or not want <= set(got) or not set(got) <= want | maybe:
                viol("neighborlist|skewed-large-cutoff|%s" % ("duplicates" if len(set(got)) != len(got) else ("missing" if not want <= set(got) else "extra")),
                     "compute_neighborlist(cutoff=%.4f = %.3f widths) in the cell %s / %s: atom %d gets %s, within the cutoff are %s (missing %s, extra %s)" % (
                         cut, cut / w, L.round(3).tolist(), A.round(2).tolist(), i, sorted(got)[:12], sorted(want)[:12], sorted(want - set(got))[:6], sorted(set(got) - want - maybe)[:6]), rp)
                break
        q = set(range(0, n, 7))
        wantq = {j for j in range(n) if j not in q and any(sure[i, j] for i in q)}
        maybeq = {j for j in range(n) if j not in q and any(open_[i, j] for i in q)}
        gq = [int(j) for j in nb]
        # compute_neighbors reports haystack atoms (here: all atoms) other than the query atom itself
        wantq_all = {j for j in range(n) if any(sure[i, j] for i in q if i != j)}
        maybeq_all = {j for j in range(n) if any(open_[i, j] for i in q if i != j)}
        if len(set(gq)) != len(gq) or not wantq_all <= set(gq) or not set(gq) <= wantq_all | maybeq_all:
            viol("neighbors|skewed-large-cutoff", "compute_neighbors(cutoff=%.4f = %.3f widths) in the cell %s / %s: missing %s, extra %s" % (
                cut, cut / w, L.round(3).tolist(), A.round(2).tolist(), sorted(wantq_all - set(gq))[:6], sorted(set(gq) - wantq_all - maybeq_all)[:6]), rp)


def _brute(X, B):
    """all-pairs minimum-image distances in float64 (images -2..2 of the nearest one)"""
    D = X[None, :, :] - X[:, None, :]
    D = D - np.rint(D @ np.linalg.inv(B)) @ B
    best = np.full(D.shape[:2], np.inf)
    for i in range(-2, 3):
        for j in range(-2, 3):
            for k in range(-2, 3):
                best = np.minimum(best, np.linalg.norm(D + (i * B[0] + j * B[1] + k * B[2]), axis=-1))
    np.fill_diagonal(best, np.inf)
    return best


def central_query_stream(ctx, md, viol):
    """A solute in the middle of a rectangular solvent box: the query atoms plus the cutoff fit inside the primary cell, while the other
    atoms are stored in whatever periodic image they drifted to (an unwrapped trajectory).  compute_neighbors must find the minimum-image
    neighbours wherever they are stored."""
    rng = ctx.rng
    for k in range(ctx.n(10, 80)):
        L = np.array([rng.uniform(3.0, 5.0) for _ in range(3)])
        n = 200
        X = np.array([[rng.random() * L[a] for a in range(3)] for _ in range(n)])
        centre = L / 2
        q = np.argsort(np.linalg.norm(X - centre, axis=1))[:4]
        reach = float(np.min(np.minimum(X[q].min(0), L - X[q].max(0))))
        cut = min(0.9 * reach, 0.45 * float(L.min())) * rng.uniform(0.5, 1.0)
        S = np.array([[rng.randrange(-2, 3) for _ in range(3)] for _ in range(n)], dtype=np.float64) * L
        S[q] = 0.0
        t = md.Trajectory((X + S)[None].astype(np.float32), None, unitcell_lengths=[L], unitcell_angles=[[90.0, 90.0, 90.0]])
        B = t.unitcell_vectors[0].astype(np.float64); X32 = t.xyz[0].astype(np.float64)
        best = _brute(X32, B)
        hay = None if k % 2 else np.array(sorted(set(range(n)) - set(q.tolist())))
        got = [int(j) for j in md.compute_neighbors(t, cut, q, haystack_indices=hay)[0]]
        cand = range(n) if hay is None else hay.tolist()
        want = {j for j in cand if any(best[i, j] < cut - 1e-5 for i in q if i != j)}
        maybe = {j for j in cand if any(abs(best[i, j] - cut) <= 1e-5 for i in q if i != j)}
        ctx.case(None, ("central-query", k)); ctx.count("central-query systems (unwrapped haystack)")
        if len(set(got)) != len(got) or not want <= set(got) or not set(got) <= want | maybe:
            viol("neighbors|central-query|unwrapped-haystack", "compute_neighbors(cutoff=%.4f) around 4 atoms in the middle of the rectangular cell %s with the other atoms stored in other periodic images: missing %s, extra %s" % (
                cut, L.round(3).tolist(), sorted(want - set(got))[:6], sorted(set(got) - want - maybe)[:6]), dict(lengths=L.tolist(), cutoff=cut, query=q.tolist(), seed=ctx.seed, case=k))


def almost_rectangular_stream(ctx, md, viol):
    """Cells whose angles differ from 90 degrees by a few thousandths of a degree (flexible-cell or shear runs): still skewed cells.  A pair
    whose minimum image crosses the tilted face is placed at a distance that differs from the cutoff by less than the tilt moves it."""
    rng = ctx.rng
    for k in range(ctx.n(12, 80)):
        L = np.array([rng.uniform(3.5, 4.5) for _ in range(3)])
        A = np.array([90.0, 90.0, 90.0]); ax = rng.randrange(3)
        A[ax] += rng.choice([-1, 1]) * rng.choice([0.002, 0.003, 0.004, 0.005])
        if rng.random() < 0.3:
            A[(ax + 1) % 3] += rng.choice([-1, 1]) * 0.003
        dx = rng.choice([-0.5, 0.5, 0.3])
        p0 = np.array([2.0, 0.1, 2.0]); p1 = np.array([2.0 + dx, L[1] - 0.1, 2.0 + rng.choice([0.0, 0.2])])
        if rng.random() < 0.5:                                # the same across the c face
            p0 = np.array([2.0, 2.0, 0.1]); p1 = np.array([2.0 + dx, 2.0 + rng.choice([0.0, 0.2]), L[2] - 0.1])
        t = md.Trajectory(np.array([[p0, p1]], dtype=np.float32), None, unitcell_lengths=[L], unitcell_angles=[A])
        B = t.unitcell_vectors[0].astype(np.float64); X32 = t.xyz[0].astype(np.float64)
        d0 = float(_brute(X32, B)[0, 1])
        # the same pair in the exactly rectangular cell: how far the tilt moves the distance
        B0 = np.diag(np.diag(B)); d_rect = float(_brute(X32, B0)[0, 1])
        if abs(d0 - d_rect) < 6e-5:
            ctx.count("almost-rectangular pairs not moved enough by the tilt (skipped)")
            continue
        cut = 0.5 * (d0 + d_rect)                              # between the true distance and the rectangular-cell distance
        inside = d0 < cut
        ctx.case(None, ("almost-rectangular", k)); ctx.count("almost-rectangular cells")
        nl = [sorted(int(j) for j in x) for x in md.compute_neighborlist(t, cut)]
        nb = [int(j) for j in md.compute_neighbors(t, cut, [0])[0]]
        rp = dict(lengths=L.tolist(), angles=A.tolist(), xyz=t.xyz[0].tolist(), cutoff=cut, distance=d0, seed=ctx.seed, case=k)
        if nl != ([[1], [0]] if inside else [[], []]):
            viol("neighborlist|almost-rectangular", "compute_neighborlist(cutoff=%.6f) in the cell %s / %s: %s, the minimum-image distance of the two atoms is %.6f (%.6f if the cell were rectangular)" % (
                cut, L.round(3).tolist(), A.tolist(), nl, d0, d_rect), rp)
        if nb != ([1] if inside else []):
            viol("neighbors|almost-rectangular", "compute_neighbors(cutoff=%.6f) in the cell %s / %s: %s, the minimum-image distance of the two atoms is %.6f (%.6f if the cell were rectangular)" % (
                cut, L.round(3).tolist(), A.tolist(), nb, d0, d_rect), rp)


def degenerate_extent_stream(ctx, md, viol):
    """Non-periodic systems whose extent along y or z is zero or minute (a planar molecule lying in a coordinate plane, up to rounding
    noise), and cutoffs far beyond the system size: the voxel arithmetic must not overflow."""
    rng = ctx.rng
    for k in range(ctx.n(12, 80)):
        n = rng.choice([2, 10, 50])
        xyz = np.array([[rng.uniform(0, 2) for _ in range(3)] for _ in range(n)])
        flat = rng.choice([None, 1, 2, (1, 2)])
        eps = rng.choice([0.0, 1e-30, 1e-17, 1e-12, 1e-9])
        for ax in ((flat,) if isinstance(flat, int) else (flat or ())):
            xyz[:, ax] = np.array([rng.uniform(-1, 1) for _ in range(n)]) * eps + rng.choice([0.0, 0.7])
        cut = rng.choice([0.5, 0.5, 3.0, 1e6, 1e11, 1e20, float("inf")])
        t = md.Trajectory(xyz[None].astype(np.float32), None)
        X = t.xyz[0].astype(np.float64)
        try:
            nl = md.compute_neighborlist(t, cut, periodic=False)
        except Exception as e:
            viol("neighborlist|degenerate|raises", "compute_neighborlist(cutoff=%s, periodic=False) on %d atoms (flat axes %s, extent %s) raised %s: %s" % (cut, n, flat, eps, type(e).__name__, e), dict(xyz=xyz.tolist(), cutoff=str(cut)))
            continue
        d = np.linalg.norm(X[None] - X[:, None], axis=-1); np.fill_diagonal(d, np.inf)
        ctx.case(None, ("degenerate", k)); ctx.count("degenerate-extent systems")
        for i in range(n):
            want = set(np.nonzero(d[i] < cut - 1e-5)[0].tolist()); maybe = set(np.nonzero(np.abs(d[i] - cut) <= 1e-5)[0].tolist())
            got = [int(j) for j in nl[i]]
            if len(set(got)) != len(got) or not want <= set(got) or not set(got) <= want | maybe:
                viol("neighborlist|degenerate-extent|%s" % ("huge-cutoff" if cut > 1e3 else "flat"), "compute_neighborlist(cutoff=%s, periodic=False), %d atoms, flat axes %s with extent %s: atom %d gets %d neighbours, %d lie within the cutoff" % (
                    cut, n, flat, eps, i, len(got), len(want)), dict(xyz=xyz.tolist(), cutoff=str(cut), flat=str(flat), extent=eps))
                break


def face_stream(ctx, md, viol):
    """Atoms a hair below a face of a skewed cell (y or z of -1e-9 .. -1e-7: rounding noise of an imaging step): the wrap into the brick puts
    them exactly on the upper face in single precision, where the voxel index is folded once more."""
    rng = ctx.rng
    done = 0
    for k in range(ctx.n(40, 300)):
        kind, box = cells(rng)
        if kind in ("cubic", "ortho"):
            continue
        box = box.astype(np.float64)
        w = float(width(box))
        n = 30
        frac = np.array([[rng.random() for _ in range(3)] for _ in range(n)])
        xyz = frac @ box
        for a in range(6):
            ax = 1 if a % 2 == 0 else 2
            xyz[a, ax] = -rng.choice([1e-9, 1e-8, 1e-7])
        for a in range(6, 12):   # … and a few units in the last place below (or on) the upper face
            ax = 1 if a % 2 == 0 else 2
            top = np.float32(box[ax, ax])
            for _ in range(rng.randrange(0, 5)):
                top = np.nextafter(top, np.float32(0))
            xyz[a, ax] = float(top)
        cut = rng.uniform(0.15, 0.45) * w
        t = md.Trajectory(xyz[None].astype(np.float32), None)
        t.unitcell_vectors = box[None].astype(np.float32)
        pairs = np.array([(i, j) for i in range(n) for j in range(i + 1, n)])
        d = md.compute_distances(t, pairs)[0]
        nl = md.compute_neighborlist(t, cut)
        done += 1
        ctx.case(None, ("face", k)); ctx.count("systems with atoms a hair below a cell face")
        want = {i: set() for i in range(n)}; maybe = {i: set() for i in range(n)}
        for (i, j), dd in zip(pairs, d):
            if dd < cut - 1e-5:
                want[i].add(int(j)); want[j].add(int(i))
            elif dd < cut + 1e-5:
                maybe[i].add(int(j)); maybe[j].add(int(i))
        for i in range(n):
            got = [int(j) for j in nl[i]]
            if len(set(got)) != len(got) or not want[i] <= set(got) or not set(got) <= want[i] | maybe[i]:
                viol("neighborlist|atom-on-face|%s" % ("missing" if not want[i] <= set(got) else "extra"),
                     "compute_neighborlist(cutoff=%.4f) in a %s cell with atoms a hair below a face: atom %d gets %s, within the cutoff are %s" % (cut, kind, i, sorted(got), sorted(want[i])),
                     dict(cell=box.tolist(), xyz=xyz.tolist(), cutoff=cut))
                return


def tiny_cutoff_stream(ctx, md, viol):
    """Cutoffs far below the cell size, and one atom far away from the others without a cell: the voxel grid must not be sized by
    extent/cutoff alone.  Run in a child process with an address-space limit: exhausting memory ends the process (std::bad_alloc)."""
    import subprocess, sys, textwrap
    code = textwrap.dedent("""
        import sys, json, resource
        resource.setrlimit(resource.RLIMIT_AS, (6 << 30, 6 << 30))
        sys.path.insert(0, %r)
        import mdv_boot  # noqa: F401
        import numpy as np, mdtraj as md
        rs = np.random.RandomState(%d)
        out = []
        xyz = (rs.rand(1, 40, 3) * [3, 4, 5]).astype(np.float32)
        xyz[0, 1] = xyz[0, 0] + [2e-4, 0, 0]
        for ang in ([90, 90, 90], [80, 95, 110]):
            t = md.Trajectory(xyz, None, unitcell_lengths=[[3, 4, 5]], unitcell_angles=[ang])
            for cut in (1e-3, 5e-4, 1e-6):
                nl = md.compute_neighborlist(t, cut)
                out.append([sorted(int(j) for j in x) for x in nl][:2] + [sum(len(x) for x in nl)])
        x = np.array([[[0, 0, 0], [.1, 0, 0], [0, 1e5, 1e5]]], np.float32)
        out.append([sorted(int(j) for j in v) for v in md.compute_neighborlist(md.Trajectory(x, None), 0.5)])
        print("RESULT " + json.dumps(out))
    """) % (os.path.dirname(os.path.dirname(os.path.abspath(__file__))), ctx.seed)
    ctx.case(None, ("tiny-cutoff",)); ctx.count("tiny-cutoff / far-atom calls (child process)", 7)
    try:
        pr = subprocess.run([sys.executable, "-c", code], capture_output=True, text=True, timeout=600)
    except subprocess.TimeoutExpired:
        viol("neighborlist|tiny-cutoff|hangs", "compute_neighborlist with cutoffs of 1e-3..1e-6 nm in a 3 x 4 x 5 nm cell did not finish in 600 s", dict(cutoffs=[1e-3, 5e-4, 1e-6]))
        return
    line = [l for l in pr.stdout.splitlines() if l.startswith("RESULT ")]
    if not line:
        viol("neighborlist|tiny-cutoff|aborts", "compute_neighborlist with cutoffs of 1e-3..1e-6 nm in a 3 x 4 x 5 nm cell (or with one atom 1e5 nm away, no cell) ended the process (exit status %s): %s" % (
            pr.returncode, (pr.stderr.strip().splitlines() or ["no message"])[-1][:160]), dict(cutoffs=[1e-3, 5e-4, 1e-6]))
        return
    res = json.loads(line[0][7:])
    want = [[[1], [0], 2], [[1], [0], 2], [[], [], 0]] * 2 + [[[1], [0], []]]
    if res != want:
        viol("neighborlist|tiny-cutoff|value", "compute_neighborlist with tiny cutoffs: %s, expected %s (atoms 0 and 1 are 2e-4 nm apart)" % (res, want), dict(cutoffs=[1e-3, 5e-4, 1e-6]))


def run(ctx):
    warnings.filterwarnings("ignore")
    import mdtraj as md
    ctx.rule = ("coordinates (clustered, uniform, on voxel boundaries, shifted by up to 6 lattice vectors per axis out of the primary cell) x cutoff "
                "from tiny to half the cell width x cells of C05 and no cell x query/haystack subsets x 2..60 atoms; pairs within 1e-5 nm of the "
                "cutoff are excluded by the model; non-trivial = distinct system in which at least one atom has a neighbour")
    ctx.assumptions.append("of the voxel search of neighborlist.cpp the discrete skeleton is modelled (Model/Voxels.lean: bisections, scanned ranges, voxel index, pre-wrap) and driven through a shim; "
                           "the geometric bounds minx / maxx of triclinic cells are not: there compute_neighborlist is compared with the exact specification only")
    rng = ctx.rng
    seen = {}

    def viol(key, what, rp):
        seen.setdefault(key, (what, rp))
    jobs, reqs = [], []
    for k in range(ctx.n(70, 600)):
        mode = rng.choice(["none", "ortho", "tri", "tri", "ortho"])
        n = rng.choice([2, 3, 8, 20, 40, 60])
        spread = rng.choice([0.0, 0.0, 0.3, 1.0])
        t, kind = make(md, rng, n, mode, spread)
        if mode == "none":
            cutoff = rng.choice([0.05, 0.3, 0.6, 1.2])
            box = np.zeros((3, 3))
        else:
            box = t.unitcell_vectors[0].astype(np.float64)
            w = width(box)
            cutoff = rng.choice([0.02, 0.1, 0.25, 0.45, 0.499]) * w
        cutoff = float(np.float32(round(cutoff * 1024) / 1024)) or 1 / 1024
        orth = mode != "none" and bool(np.allclose(t.unitcell_angles, 90))
        wrapkind = "none" if mode == "none" else ("ortho" if orth else "tri")
        coords = " ".join(rat(x) for x in t.xyz[0].ravel())
        boxs = " ".join(rat(x) for x in (t.unitcell_vectors[0].ravel() if mode != "none" else np.eye(3).ravel()))
        # neighbour list
        jobs.append(("nbl", t, kind, cutoff, spread, None, None, wrapkind))
        reqs.append("nbl %s %s %s %s %s %s" % (wrapkind, "ha" if wrapkind == "tri" else "hz", rat(cutoff), TOL, boxs, coords))
        # compute_neighbors with subsets
        q = sorted(rng.sample(range(n), rng.randrange(1, min(n, 6) + 1)))
        h = sorted(rng.sample(range(n), rng.randrange(1, n + 1)))
        jobs.append(("nbs", t, kind, cutoff, spread, q, h, wrapkind))
        reqs.append("nbs %s %s %s %s %d %s %d %s %s %s" % (wrapkind, "ha" if wrapkind == "tri" else "hz", rat(cutoff), TOL, len(q), " ".join(map(str, q)),
                                                         len(h), " ".join(map(str, h)), boxs, coords))
    model = ctx.driver.query(reqs) if ctx.driver_ok else [None] * len(reqs)
    for (what, t, kind, cutoff, spread, q, h, wk), m in zip(jobs, model):
        n = t.n_atoms
        box = t.unitcell_vectors[0].astype(np.float64) if t.unitcell_vectors is not None else None
        rp = dict(call=what, cell=kind, box=None if box is None else box.tolist(), cutoff=cutoff, xyz=t.xyz[0].tolist(), query=q, haystack=h, shifted_fraction=spread)
        # float64 oracle matrix of minimum-image distances
        X = t.xyz[0].astype(np.float64)
        D = np.zeros((n, n))
        for i in range(n):
            for j in range(i + 1, n):
                r = X[j] - X[i]
                D[i, j] = D[j, i] = np.sqrt(brute_min(box, r)) if box is not None else np.linalg.norm(r)
        sure = lambda i, j: D[i, j] < cutoff - 2e-5
        maybe = lambda i, j: abs(D[i, j] - cutoff) <= 2e-5
        if what == "nbl":
            got = md.compute_neighborlist(t, cutoff, periodic=True)
            has = False
            for i in range(n):
                gi = [int(x) for x in got[i]]
                if len(gi) != len(set(gi)):
                    viol("neighborlist|duplicates", "compute_neighborlist: atom %d has duplicate neighbours %s" % (i, gi), rp)
                if i in gi:
                    viol("neighborlist|reflexive", "compute_neighborlist: atom %d is its own neighbour" % i, rp)
                for j in gi:
                    if i not in [int(x) for x in got[j]]:
                        viol("neighborlist|asymmetric", "compute_neighborlist: %d lists %d but not the reverse" % (i, j), rp)
                want = {j for j in range(n) if j != i and sure(i, j)}
                opt = {j for j in range(n) if j != i and maybe(i, j)}
                has = has or bool(want)
                miss, extra = want - set(gi), set(gi) - want - opt
                if miss or extra:
                    out = "outside" if spread > 0 else "inside"
                    viol("neighborlist|%s|%s|atoms-%s-primary-cell" % ("missing" if miss else "extra", "nocell" if box is None else ("ortho" if wk == "ortho" else "tri"), out),
                         "compute_neighborlist(cutoff=%.5f) in %s cell: atom %d misses %s, has extra %s (minimum-image distances %s)" % (
                             cutoff, kind, i, sorted(miss), sorted(extra), [round(D[i, j], 5) for j in sorted(miss | extra)]), rp)
                    break
            ctx.case(dict(call=what, cell=kind, n_atoms=n, cutoff=cutoff, shifted=spread), (what, kind, n, cutoff, spread, tuple(t.xyz[0, 0])) if has else None)
            ctx.count("neighborlist systems"); ctx.count("cell:" + kind)
            if m is not None:
                for i, (d, mb) in enumerate(parse_rows(m)):
                    gi = set(int(x) for x in got[i])
                    if not (d <= gi <= d | mb):
                        ctx.broke("correspondence:neighborlist", "%s cell cutoff %.5f atom %d: impl %s, model definite %s maybe %s" % (kind, cutoff, i, sorted(gi), sorted(d), sorted(mb)))
                        break
        else:
            got = [int(x) for x in md.compute_neighbors(t, cutoff, q, haystack_indices=h, periodic=True)[0]]
            want = [i for i in h if any(j != i and sure(i, j) for j in q)]
            opt = {i for i in h if any(j != i and maybe(i, j) for j in q)}
            ctx.case(dict(call=what, cell=kind, n_atoms=n, cutoff=cutoff, query=q, haystack=h), (what, kind, n, cutoff, tuple(q), tuple(h)) if want else None)
            ctx.count("compute_neighbors calls")
            if len(got) != len(set(got)) or [x for x in h if x in set(got)] != got:
                viol("neighbors|order", "compute_neighbors result %s is not a duplicate-free subsequence of the haystack %s" % (got, h), rp)
            miss, extra = set(want) - set(got), set(got) - set(want) - opt
            if miss or extra:
                viol("neighbors|%s|%s" % ("missing" if miss else "extra", wk), "compute_neighbors(cutoff=%.5f, query=%s) in %s cell misses %s, has extra %s" % (cutoff, q, kind, sorted(miss), sorted(extra)), rp)
            if m is not None:
                d, mb = parse_rows(m)[0]
                if not (d <= set(got) <= d | mb):
                    ctx.broke("correspondence:neighbors", "%s cell cutoff %.5f: impl %s, model definite %s maybe %s" % (kind, cutoff, got, sorted(d), sorted(mb)))
            # agreement with compute_distances on the same frame
            pairs = np.array([(i, j) for i in h for j in q if i != j])
            if len(pairs):
                dd = md.compute_distances(t, pairs, periodic=True)[0]
                viaD = {int(i) for (i, j), x in zip(pairs, dd) if x < cutoff - 2e-5}
                viaM = {int(i) for (i, j), x in zip(pairs, dd) if abs(x - cutoff) <= 2e-5}
                if not (viaD - viaM <= set(got) <= viaD | viaM):
                    viol("neighbors|vs-distances", "compute_neighbors %s disagrees with compute_distances < cutoff: %s" % (got, sorted(viaD)), rp)
    voxel_stream(ctx, viol)
    skewed_large_cutoff_stream(ctx, md, viol)
    degenerate_extent_stream(ctx, md, viol)
    tiny_cutoff_stream(ctx, md, viol)
    face_stream(ctx, md, viol)
    central_query_stream(ctx, md, viol)
    almost_rectangular_stream(ctx, md, viol)
    for key, (what, rp) in seen.items():
        ctx.violation(key, what, rp)


def replay(ctx, path):
    import json
    print(json.load(open(path))["what"])
    return 1
