"""C10: neighbour searches return exactly the atoms within the cutoff.
Correspondence: md.compute_neighbors and md.compute_neighborlist vs Model/Neighbors.lean over exact rationals (driver
`nbs`, `nbl`), pairs within 1e-5 nm of the cutoff excluded by the model's classification.
Oracle: brute-force minimum-image distances in float64; symmetry / irreflexivity / no duplicates; agreement with
compute_distances."""
import warnings
from fractions import Fraction

import numpy as np

from props.c05 import cells, rat, width, brute_min

TOL = "1/100000"


def make(md, rng, n_atoms, cell_mode, spread):
    top = md.Topology()
    ch = top.add_chain()
    r = top.add_residue("X", ch)
    for i in range(n_atoms):
        top.add_atom("C%d" % i, md.element.carbon, r)
    if cell_mode == "none":
        box, kind = None, "none"
        span = 3.0
    else:
        while True:
            kind, box = cells(rng)
            if (cell_mode == "ortho") == (kind in ("cubic", "ortho")):
                break
        span = float(box.max())
    xyz = np.zeros((1, n_atoms, 3), dtype=np.float32)
    centers = [np.array([rng.uniform(0, span) for _ in range(3)]) for _ in range(3)]
    for a in range(n_atoms):
        m = rng.random()
        if m < 0.4:
            p = rng.choice(centers) + np.array([rng.gauss(0, 0.25) for _ in range(3)])
        else:
            p = np.array([rng.uniform(0, span) for _ in range(3)])
        if box is not None and rng.random() < spread:
            ijk = [rng.randrange(-6, 7) for _ in range(3)]
            p = p + ijk[0] * box[0] + ijk[1] * box[1] + ijk[2] * box[2]
        if rng.random() < 0.1 and box is not None:
            p = np.round(p / (box[1, 1] / 4)) * (box[1, 1] / 4)      # on voxel boundaries
        xyz[0, a] = np.round(p * 256) / 256
    t = md.Trajectory(xyz, top)
    if box is not None:
        t.unitcell_vectors = box[None]
    return t, kind


def parse_rows(m):
    rows = []
    for part in m.split(";"):
        d, mb = part.split("/")
        rows.append((set(map(int, d.split(","))) if d else set(), set(map(int, mb.split(","))) if mb else set()))
    return rows


def run(ctx):
    warnings.filterwarnings("ignore")
    import mdtraj as md
    ctx.rule = ("coordinates (clustered, uniform, on voxel boundaries, shifted by up to 6 lattice vectors per axis out of the primary cell) x cutoff "
                "from tiny to half the cell width x cells of C05 and no cell x query/haystack subsets x 2..60 atoms; pairs within 1e-5 nm of the "
                "cutoff are excluded by the model; non-trivial = distinct system in which at least one atom has a neighbour")
    ctx.assumptions.append("the voxel pruning of neighborlist.cpp is not modelled: compute_neighborlist is compared with the exact specification only")
    rng = ctx.rng
    seen = {}

    def viol(key, what, rp):
        seen.setdefault(key, (what, rp))
    jobs, reqs = [], []
    for k in range(ctx.n(70, 600)):
        mode = rng.choice(["none", "ortho", "tri", "tri", "ortho"])
        n = rng.choice([2, 3, 8, 20, 40, 60])
        spread = rng.choice([0.0, 0.0, 0.3, 1.0])
        t, kind = make(md, rng, n, mode, spread)
        if mode == "none":
            cutoff = rng.choice([0.05, 0.3, 0.6, 1.2])
            box = np.zeros((3, 3))
        else:
            box = t.unitcell_vectors[0].astype(np.float64)
            w = width(box)
            cutoff = rng.choice([0.02, 0.1, 0.25, 0.45, 0.499]) * w
        cutoff = float(np.float32(round(cutoff * 1024) / 1024)) or 1 / 1024
        orth = mode != "none" and bool(np.allclose(t.unitcell_angles, 90))
        wrapkind = "none" if mode == "none" else ("ortho" if orth else "tri")
        coords = " ".join(rat(x) for x in t.xyz[0].ravel())
        boxs = " ".join(rat(x) for x in (t.unitcell_vectors[0].ravel() if mode != "none" else np.eye(3).ravel()))
        # neighbour list
        jobs.append(("nbl", t, kind, cutoff, spread, None, None, wrapkind))
        reqs.append("nbl %s %s %s %s %s %s" % (wrapkind, "ha" if wrapkind == "tri" else "hz", rat(cutoff), TOL, boxs, coords))
        # compute_neighbors with subsets
        q = sorted(rng.sample(range(n), rng.randrange(1, min(n, 6) + 1)))
        h = sorted(rng.sample(range(n), rng.randrange(1, n + 1)))
        jobs.append(("nbs", t, kind, cutoff, spread, q, h, wrapkind))
        reqs.append("nbs %s %s %s %s %d %s %d %s %s %s" % (wrapkind, "ha" if wrapkind == "tri" else "hz", rat(cutoff), TOL, len(q), " ".join(map(str, q)),
                                                         len(h), " ".join(map(str, h)), boxs, coords))
    model = ctx.driver.query(reqs) if ctx.driver_ok else [None] * len(reqs)
    for (what, t, kind, cutoff, spread, q, h, wk), m in zip(jobs, model):
        n = t.n_atoms
        box = t.unitcell_vectors[0].astype(np.float64) if t.unitcell_vectors is not None else None
        rp = dict(call=what, cell=kind, box=None if box is None else box.tolist(), cutoff=cutoff, xyz=t.xyz[0].tolist(), query=q, haystack=h, shifted_fraction=spread)
        # float64 oracle matrix of minimum-image distances
        X = t.xyz[0].astype(np.float64)
        D = np.zeros((n, n))
        for i in range(n):
            for j in range(i + 1, n):
                r = X[j] - X[i]
                D[i, j] = D[j, i] = np.sqrt(brute_min(box, r)) if box is not None else np.linalg.norm(r)
        sure = lambda i, j: D[i, j] < cutoff - 2e-5
        maybe = lambda i, j: abs(D[i, j] - cutoff) <= 2e-5
        if what == "nbl":
            got = md.compute_neighborlist(t, cutoff, periodic=True)
            has = False
            for i in range(n):
                gi = [int(x) for x in got[i]]
                if len(gi) != len(set(gi)):
                    viol("neighborlist|duplicates", "compute_neighborlist: atom %d has duplicate neighbours %s" % (i, gi), rp)
                if i in gi:
                    viol("neighborlist|reflexive", "compute_neighborlist: atom %d is its own neighbour" % i, rp)
                for j in gi:
                    if i not in [int(x) for x in got[j]]:
                        viol("neighborlist|asymmetric", "compute_neighborlist: %d lists %d but not the reverse" % (i, j), rp)
                want = {j for j in range(n) if j != i and sure(i, j)}
                opt = {j for j in range(n) if j != i and maybe(i, j)}
                has = has or bool(want)
                miss, extra = want - set(gi), set(gi) - want - opt
                if miss or extra:
                    out = "outside" if spread > 0 else "inside"
                    viol("neighborlist|%s|%s|atoms-%s-primary-cell" % ("missing" if miss else "extra", "nocell" if box is None else ("ortho" if wk == "ortho" else "tri"), out),
                         "compute_neighborlist(cutoff=%.5f) in %s cell: atom %d misses %s, has extra %s (minimum-image distances %s)" % (
                             cutoff, kind, i, sorted(miss), sorted(extra), [round(D[i, j], 5) for j in sorted(miss | extra)]), rp)
                    break
            ctx.case(dict(call=what, cell=kind, n_atoms=n, cutoff=cutoff, shifted=spread), (what, kind, n, cutoff, spread, tuple(t.xyz[0, 0])) if has else None)
            ctx.count("neighborlist systems"); ctx.count("cell:" + kind)
            if m is not None:
                for i, (d, mb) in enumerate(parse_rows(m)):
                    gi = set(int(x) for x in got[i])
                    if not (d <= gi <= d | mb):
                        ctx.broke("correspondence:neighborlist", "%s cell cutoff %.5f atom %d: impl %s, model definite %s maybe %s" % (kind, cutoff, i, sorted(gi), sorted(d), sorted(mb)))
                        break
        else:
            got = [int(x) for x in md.compute_neighbors(t, cutoff, q, haystack_indices=h, periodic=True)[0]]
            want = [i for i in h if any(j != i and sure(i, j) for j in q)]
            opt = {i for i in h if any(j != i and maybe(i, j) for j in q)}
            ctx.case(dict(call=what, cell=kind, n_atoms=n, cutoff=cutoff, query=q, haystack=h), (what, kind, n, cutoff, tuple(q), tuple(h)) if want else None)
            ctx.count("compute_neighbors calls")
            if len(got) != len(set(got)) or [x for x in h if x in set(got)] != got:
                viol("neighbors|order", "compute_neighbors result %s is not a duplicate-free subsequence of the haystack %s" % (got, h), rp)
            miss, extra = set(want) - set(got), set(got) - set(want) - opt
            if miss or extra:
                viol("neighbors|%s|%s" % ("missing" if miss else "extra", wk), "compute_neighbors(cutoff=%.5f, query=%s) in %s cell misses %s, has extra %s" % (cutoff, q, kind, sorted(miss), sorted(extra)), rp)
            if m is not None:
                d, mb = parse_rows(m)[0]
                if not (d <= set(got) <= d | mb):
                    ctx.broke("correspondence:neighbors", "%s cell cutoff %.5f: impl %s, model definite %s maybe %s" % (kind, cutoff, got, sorted(d), sorted(mb)))
            # agreement with compute_distances on the same frame
            pairs = np.array([(i, j) for i in h for j in q if i != j])
            if len(pairs):
                dd = md.compute_distances(t, pairs, periodic=True)[0]
                viaD = {int(i) for (i, j), x in zip(pairs, dd) if x < cutoff - 2e-5}
                viaM = {int(i) for (i, j), x in zip(pairs, dd) if abs(x - cutoff) <= 2e-5}
                if not (viaD - viaM <= set(got) <= viaD | viaM):
                    viol("neighbors|vs-distances", "compute_neighbors %s disagrees with compute_distances < cutoff: %s" % (got, sorted(viaD)), rp)
    for key, (what, rp) in seen.items():
        ctx.violation(key, what, rp)


def replay(ctx, path):
    import json
    print(json.load(open(path))["what"])
    return 1
