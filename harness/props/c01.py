"""C01: save then load reproduces the trajectory, in every writable format.
Theorems (Properties/C01.lean): unit conversion to the native unit and back is the identity; a p-decimal text field is within 10^-p/2 and is
idempotent under re-saving; the XTC quantisation is within 0.0005 nm; for every format |loaded - x| <= the format's precision; text formats hold
exactly the p-decimal rounding of the value in native units.
Correspondence: for every saved file (a) md.load's coordinates vs the model's `loaded` value of the same rational input, to float32 accuracy, with
rounding-tie margins excluded; (b) an independent reader written here from the format descriptions (fixed columns of mdcrd / pdb / gro / rst7,
tokens of xyz / lammpstrj, scipy's NetCDF reader for nc / ncrst, a Fortran-record reader for dcd) extracts the numbers in native units and layout and
compares them with the model's `stored` value exactly (text) or to float32 (binary); (c) the numbered restart files vs the model's names.
Oracle: frames/atoms counts, time stamps and unit cells wherever the format stores them (table in the model), in nm / ps / degrees."""
import gzip
import json
import os
import shutil
import struct
import warnings
from fractions import Fraction

import numpy as np

from props.c05 import rat

FORMATS = ["h5", "xtc", "trr", "dcd", "nc", "netcdf", "mdcrd", "crd", "xyz", "xyz.gz", "lammpstrj", "gro", "pdb", "pdb.gz", "dtr", "rst7", "ncrst"]
MODEL = {"netcdf": "nc", "ncdf": "nc", "crd": "mdcrd", "xyz.gz": "xyz", "pdb.gz": "pdb"}
NEEDS_CELL = {"lammpstrj", "dtr"}
RECTILINEAR_ONLY = {"mdcrd", "crd"}
SELF_TOPOLOGY = {"h5", "pdb", "pdb.gz", "gro"}


def make_top(md, n):
    t = md.Topology()
    c = t.add_chain()
    for i in range(n):
        r = t.add_residue("ALA", c, i + 1)
        t.add_atom("CA", md.element.carbon, r)
    return t


def fortran_records(buf):
    out, p = [], 0
    while p + 4 <= len(buf):
        (n,) = struct.unpack_from("<i", buf, p)
        out.append(buf[p + 4:p + 4 + n])
        p += 8 + n
    return out


def read_native(ext, path, n_atoms, precision=3):
    """independent reader: list of frames, each (coords as list of strings or floats in native units, cell or None, time or None)"""
    base = MODEL.get(ext, ext)
    opener = gzip.open if ext.endswith(".gz") else open
    if base in ("mdcrd", "xyz", "lammpstrj", "gro", "pdb", "rst7"):
        with opener(path, "rt") as fh:
            lines = fh.read().split("\n")
    frames = []
    if base == "mdcrd":
        body = lines[1:]
        fields = []
        li = 0
        per = 3 * n_atoms
        while li < len(body) and body[li] != "":
            cur = []
            while len(cur) < per:
                ln = body[li]; li += 1
                cur += [ln[j:j + 8] for j in range(0, len(ln), 8)]
            box = None
            if li < len(body) and len(body[li]) == 26 and body[li][8] == " " and body[li][17] == " ":
                box = body[li].split(); li += 1
            frames.append((cur, box, None))
        return frames
    if base == "xyz":
        li = 0
        while li < len(lines) and lines[li].strip():
            n = int(lines[li]); rows = lines[li + 2:li + 2 + n]
            frames.append(([tok for r in rows for tok in r.split()[1:4]], None, None))
            li += 2 + n
        return frames
    if base == "lammpstrj":
        li = 0
        while li < len(lines):
            if lines[li].startswith("ITEM: ATOMS"):
                rows = lines[li + 1:li + 1 + n_atoms]
                frames.append(([tok for r in rows for tok in r.split()[2:5]], None, None))
                li += n_atoms
            li += 1
        return frames
    if base == "gro":
        li = 0
        w = precision + 5
        while li < len(lines) and lines[li] != "":
            title = lines[li]; n = int(lines[li + 1]); rows = lines[li + 2:li + 2 + n]
            t = float(title.split("t=")[1].split()[0]) if "t=" in title else None
            frames.append(([r[20 + k * w:20 + (k + 1) * w] for r in rows for k in range(3)], lines[li + 2 + n].split(), t))
            li += 3 + n
        return frames
    if base == "pdb":
        cur, cell = [], None
        for ln in lines:
            if ln.startswith("CRYST1"):
                cell = [ln[6:15], ln[15:24], ln[24:33], ln[33:40], ln[40:47], ln[47:54]]
            elif ln.startswith(("ATOM", "HETATM")):
                cur += [ln[30:38], ln[38:46], ln[46:54]]
            elif ln.startswith("ENDMDL"):
                frames.append((cur, cell, None)); cur = []
        if cur:
            frames.append((cur, cell, None))
        return frames
    if base == "rst7":
        n = int(lines[1][:5]); t = float(lines[1][5:20])
        per = []
        li = 2
        while len(per) < 3 * n:
            ln = lines[li]; li += 1
            per += [ln[j:j + 12] for j in range(0, len(ln), 12)]
        box = None
        if li < len(lines) and lines[li].strip():
            ln = lines[li]
            box = [ln[j:j + 12] for j in range(0, len(ln), 12)]
        return [(per, box, t)]
    if base in ("nc", "ncrst"):
        from scipy.io import netcdf_file
        with netcdf_file(path, "r", mmap=False) as f:
            c = np.array(f.variables["coordinates"][:])
            tt = np.array(f.variables["time"][:]) if "time" in f.variables else None
            cl = np.array(f.variables["cell_lengths"][:]) if "cell_lengths" in f.variables else None
            ca = np.array(f.variables["cell_angles"][:]) if "cell_angles" in f.variables else None
        if base == "ncrst":
            return [(c.ravel().tolist(), None if cl is None else list(cl) + list(ca), None if tt is None else float(np.ravel(tt)[0]))]
        return [(c[i].ravel().tolist(), None if cl is None else list(cl[i]) + list(ca[i]), None if tt is None else float(tt[i])) for i in range(c.shape[0])]
    if base == "dcd":
        recs = fortran_records(open(path, "rb").read())
        hdr = recs[0]
        assert hdr[:4] == b"CORD"
        icntrl = struct.unpack_from("<20i", hdr, 4)
        has_cell = icntrl[10] != 0
        n = struct.unpack("<i", recs[2])[0]
        p = 3
        while p < len(recs):
            cell = None
            if has_cell:
                cell = list(struct.unpack("<6d", recs[p])); p += 1
            x = np.frombuffer(recs[p], "<f4"); y = np.frombuffer(recs[p + 1], "<f4"); z = np.frombuffer(recs[p + 2], "<f4"); p += 3
            frames.append((np.stack([x, y, z], 1).ravel().tolist(), cell, None))
        return frames
    return None


def read_xdr_frames(base, path):
    """Independent reader of GROMACS .trr / .xtc files (XDR, big endian): per frame (natoms, step, time, box rows in nm, coordinates in nm or
    None when XTC stores them compressed).  Layout as documented for the two formats, nothing taken from mdtraj."""
    buf = open(path, "rb").read()
    p = 0
    out = []

    def take(fmt):
        nonlocal p
        v = struct.unpack_from(">" + fmt, buf, p)
        p += struct.calcsize(">" + fmt)
        return v
    while p < len(buf):
        if base == "xtc":
            magic, natoms, step = take("3i")
            assert magic == 1995, "xtc magic %d" % magic
            (time,) = take("f")
            box = np.array(take("9f")).reshape(3, 3)
            (n2,) = take("i")
            assert n2 == natoms
            if natoms <= 9:
                xyz = np.array(take("%df" % (3 * natoms))).reshape(natoms, 3)
            else:
                take("f"); take("3i"); take("3i"); take("i")
                (nbytes,) = take("i")
                p += (nbytes + 3) // 4 * 4
                xyz = None
            out.append((natoms, step, time, box, xyz))
        else:
            magic, slen = take("2i")
            assert magic == 1993, "trr magic %d" % magic
            (n,) = take("i")
            p += (n + 3) // 4 * 4
            ir, e, box_size, vir, pres, top_, sym, x_size, v_size, f_size, natoms, step, nre = take("13i")
            dbl = (box_size == 72) if box_size else (x_size == natoms * 24)
            r = "d" if dbl else "f"
            time, lam = take("2" + r)
            box = np.array(take("9" + r)).reshape(3, 3) if box_size else None
            if vir:
                take("9" + r)
            if pres:
                take("9" + r)
            xyz = np.array(take("%d%s" % (3 * natoms, r))).reshape(natoms, 3) if x_size else None
            if v_size:
                take("%d%s" % (3 * natoms, r))
            if f_size:
                take("%d%s" % (3 * natoms, r))
            out.append((natoms, step, time, box, xyz))
    return out


def text_blocks(base, path, n_atoms, prec, has_box):
    """The coordinate text of a file written by mdtraj, cut out by column / line position only: per frame (driver request, raw text, kind)
    where the request renders the same values through the digit-level Lean model (Model/TextFmt.lean)."""
    opener = gzip.open if path.endswith(".gz") else open
    with opener(path, "rt") as fh:
        lines = fh.read().split("\n")
    if lines and lines[-1] == "":
        lines.pop()
    out = []
    if base == "mdcrd":
        per = -(-3 * n_atoms // 10)
        body = lines[1:]
        step = per + (1 if has_box else 0)
        for f in range(0, len(body), step):
            out.append(("mdcrd", "|".join(body[f:f + per]), body[f + per] if has_box and f + per < len(body) else None))
    elif base == "rst7":
        per = -(-n_atoms // 2)
        out.append(("fixed 12 7", "".join(lines[2:2 + per]), None))
    elif base == "gro":
        w = prec + 5
        step = n_atoms + 3
        for f in range(0, len(lines), step):
            out.append(("fixed %d %d" % (w, prec), "".join(l[20:20 + 3 * w] for l in lines[f + 2:f + 2 + n_atoms]), None))
    elif base == "pdb":
        cur = []
        for l in lines:
            if l.startswith(("ATOM", "HETATM")):
                cur.append(l[30:54])
            elif l.startswith("ENDMDL") and cur:
                out.append(("pdb83", "".join(cur), None)); cur = []
        if cur:
            out.append(("pdb83", "".join(cur), None))
    elif base == "xyz":
        step = n_atoms + 2
        for f in range(0, len(lines), step):
            out.append(("spaced 8 3", "".join(l[len(l.split(" ")[0]):] for l in lines[f + 2:f + 2 + n_atoms]), None))
    elif base == "lammpstrj":
        i = 0
        while i < len(lines):
            if lines[i].startswith("ITEM: ATOMS"):
                rows = lines[i + 1:i + 1 + n_atoms]
                out.append(("spaced 8 3", "".join(l[len(" ".join(l.split(" ")[:2])):] for l in rows), None))
                i += n_atoms
            i += 1
    return out


def record_stream(ctx, md, scratch, viol, reqs, meta):
    """Whole records against the Lean rendering (Model/TextRecords.lean): the ATOM lines of .pdb files and the atom lines of .gro files for
    topologies with names of every length, names that begin with a digit, two-letter elements, residue numbers around the field limits,
    long segment ids, given or missing serial numbers and B-factors."""
    rng = ctx.rng
    hx = lambda s_: s_.encode().hex() if s_ else "-"
    ATOMS = [("CA", "C"), ("N", "N"), ("HB1", "H"), ("1HB", "H"), ("HG11", "H"), ("FE", "Fe"), ("CL", "Cl"), ("O1P", "O"), ("HD11X", "H"), ("C", "C"), ("NA", "Na"), ("MW", "VS"), ("OXT", "O")]
    for k in range(ctx.n(6, 40)):
        top = md.Topology()
        n_ch = rng.choice([1, 1, 2])
        rows = []
        given_serials = n_ch == 1 and rng.random() < 0.5
        sr = rng.choice([1, 7, 99990])
        for ci in range(n_ch):
            ch = top.add_chain(rng.choice([None, None, "X", "Q"]))
            for ri in range(rng.randrange(1, 4)):
                rname = rng.choice(["ALA", "HOH", "LIGX", "NA", "G"])
                rseq = rng.choice([1, 42, 9999, 10000, 12345, -5, -999, -1000, 100000, 123456])
                seg = rng.choice(["", "", "SEGA", "TOOLONG", "B"])
                r = top.add_residue(rname, ch, rseq, seg)
                for ai in range(rng.randrange(1, 4)):
                    an, el = rng.choice(ATOMS)
                    a = top.add_atom(an, md.element.virtual if el == "VS" else md.element.get_by_symbol(el), r, serial=sr if given_serials else None)
                    rows.append(dict(name=an, sym=el, resn=rname, rseq=rseq, seg=seg, chain_obj=ch, chain_index=ci, serial=sr if given_serials else None))
                    sr += rng.choice([1, 1, 3])
        na = top.n_atoms
        xyz = np.array([[[rng.choice([1, -1]) * rng.choice([0.0125, 1.2345, 12.5, 99.9995, 123.4567]) for _ in range(3)] for _ in range(na)]], dtype=np.float32)
        bf = np.array([rng.choice([0.0, 1.5, 25.25, 99.99, -9.99]) for _ in range(na)]) if rng.random() < 0.5 else None
        t = md.Trajectory(xyz, top)
        with_cell = rng.random() < 0.7
        if with_cell:
            t.unitcell_lengths = np.array([[rng.choice([1.5, 12.3456, 99.99995, 250.0]) for _ in range(3)]], dtype=np.float32)
            t.unitcell_angles = np.array([rng.choice([[90.0, 90.0, 90.0], [75.5, 100.25, 115.0], [60.0, 60.0, 90.0]])], dtype=np.float32)
        ctx.case(None, ("records", k)); ctx.count("topologies written as whole records")
        # ---- pdb
        p = os.path.join(scratch, "rec.pdb")
        try:
            t.save(p, bfactors=bf) if bf is not None else t.save(p)
            lines = [l for l in open(p).read().split("\n") if l.startswith("ATOM")]
        except Exception as e:  # noqa: BLE001
            viol("records|pdb|raises", "saving a .pdb raised %s: %s" % (type(e).__name__, str(e)[:100]), dict(case=k))
            lines = None
        if lines is not None:
            if with_cell:
                cl = [l for l in open(p).read().split("\n") if l.startswith("CRYST1")]
                L10 = [float(np.float32(v) * np.float32(10.0)) for v in t.unitcell_lengths[0]]      # as save_pdb hands them over: single precision nm times ten
                if len(cl) != 1:
                    viol("native-layout|records|cryst1", "the .pdb file holds %d CRYST1 records" % len(cl), dict(case=k))
                else:
                    reqs.append("txt cryst1 %s %s" % (" ".join(rat(v) for v in L10), " ".join(rat(float(v)) for v in t.unitcell_angles[0])))
                    meta.append(("recline", k, "pdb", (cl[0], -1), dict(case=k, atom=-1)))
            if len(lines) != na:
                viol("native-layout|records|pdb", "the .pdb file holds %d ATOM records for %d atoms" % (len(lines), na), dict(case=k))
            else:
                use_serials = given_serials and all(0 <= r_["serial"] < 100000 for r_ in rows)
                # the file lists the atoms chain by chain, residue by residue: here that is the index order
                num = 1
                last_chain = None
                for i, (r_, line) in enumerate(zip(rows, lines)):
                    if last_chain is not None and r_["chain_index"] != last_chain:
                        num += 1            # the TER record of the chain before took a number
                    last_chain = r_["chain_index"]
                    serial = r_["serial"] if use_serials else num
                    cid = r_["chain_obj"].chain_id
                    chain = cid[0:1] if cid else "ABCDEFGHIJKLMNOPQRSTUVWXYZ"[r_["chain_index"] % 26]
                    sym = "" if r_["sym"] == "VS" else r_["sym"]
                    sym_for_line = md.element.virtual.symbol if r_["sym"] == "VS" else r_["sym"]
                    reqs.append("txt pdbline %d %s %s %s %s %d %s %s %s %s %s" % (serial, hx(r_["name"]), hx(sym_for_line), hx(r_["resn"]), hx(chain), r_["rseq"],
                                                                                 rat(float(xyz[0, i, 0]) * 10), rat(float(xyz[0, i, 1]) * 10), rat(float(xyz[0, i, 2]) * 10),
                                                                                 rat(float(bf[i]) if bf is not None else 0.0), hx(r_["seg"])))
                    meta.append(("recline", k, "pdb", (line, i), dict(case=k, atom=i)))
                    num += 1
        # ---- gro
        prec = rng.choice([1, 3, 5])
        p = os.path.join(scratch, "rec.gro")
        try:
            t.save(p, precision=prec)
            glines = open(p).read().split("\n")[2:2 + na]
        except Exception as e:  # noqa: BLE001
            viol("records|gro|raises", "saving a .gro raised %s: %s" % (type(e).__name__, str(e)[:100]), dict(case=k))
            glines = None
        if glines is not None:
            if with_cell:
                bl = open(p).read().split("\n")[2 + na]
                v = t.unitcell_vectors[0]
                reqs.append("txt grobox %s" % " ".join(rat(float(x_)) for x_ in (v[0, 0], v[1, 1], v[2, 2], v[0, 1], v[0, 2], v[1, 0], v[1, 2], v[2, 0], v[2, 1])))
                meta.append(("recline", k, "gro", (bl, -2), dict(case=k, atom=-2)))
            for i, (r_, line) in enumerate(zip(rows, glines)):
                serial = r_["serial"] if r_["serial"] is not None else i
                reqs.append("txt groline %d %d %s %s %d %s %s %s" % (prec, r_["rseq"], hx(r_["resn"]), hx(r_["name"]), serial, rat(float(xyz[0, i, 0])), rat(float(xyz[0, i, 1])), rat(float(xyz[0, i, 2]))))
                meta.append(("recline", k, "gro", (line, i), dict(case=k, atom=i)))


def overflow_stream(ctx, md, scratch, viol):
    """Field limits: coordinates around the widest value an eight-column field holds (-999.999 / 9999.999 angstrom).  The model says which
    values fit (`Fits 8 3`, theorem c01_fits_iff); mdcrd must refuse exactly the others (c01_mdcrd_overflow_detected), pdb degrades the
    decimals but keeps its columns (c01_pdb83_width), the blank-separated formats hold any magnitude (c01_spaced_roundtrip)."""
    rng = ctx.rng
    edge = [99.875, 99.9990234375, 100.0, 100.25, 999.875, 999.9990234375, 1000.0, 1000.5, 12.5, 0.25]
    for k in range(ctx.n(24, 120)):
        na = rng.choice([1, 2, 3, 4, 11])
        nf = rng.choice([1, 2])
        xyz = np.array([[[rng.choice([-1, 1]) * rng.choice(edge) for _ in range(3)] for _ in range(na)] for _ in range(nf)], dtype=np.float32)
        if rng.random() < 0.5:
            xyz[:, :, :] = np.where(np.abs(xyz) > 50, np.float32(12.5), xyz)          # half of the cases stay inside every field
        top = make_top(md, na)
        t = md.Trajectory(xyz.copy(), top)
        cell = rng.random() < 0.5
        if cell:
            t.unitcell_lengths = np.full((nf, 3), 2500.0, dtype=np.float32); t.unitcell_angles = np.full((nf, 3), 90.0, dtype=np.float32)
        for ext in ["mdcrd", "pdb", "xyz", "lammpstrj"]:
            if ext == "lammpstrj" and not cell:
                continue
            if ext == "mdcrd" and na == 1 and nf > 1 and not cell:
                continue                                     # the one-atom ambiguity (known finding) is the main stream's business
            path = os.path.join(scratch, "o%d.%s" % (k, ext))
            if os.path.exists(path):
                os.remove(path)
            ang = [rat(float(v) * 10) for v in xyz.ravel()]
            fit = ctx.driver.query(["txt fixed 8 3 " + " ".join(ang)])[0].startswith("F1") if ctx.driver_ok else None
            if fit is None:
                return
            rp = dict(format=ext, n_atoms=na, n_frames=nf, xyz=xyz.tolist(), cell=cell, stream="field-limits", seed=ctx.seed, case=k)
            ctx.case(None, ("overflow", k, ext)); ctx.count("field-limit cases: " + ext + (" (all fit)" if fit else " (overflow)"))
            try:
                t.save(path)
                raised = None
            except Exception as e:
                raised = e
            if ext == "mdcrd":
                if fit and raised is not None:
                    viol("save|raises|mdcrd|fits", "every coordinate fits its eight columns, but saving as .mdcrd raised %s: %s" % (type(raised).__name__, str(raised)[:100]), rp)
                if not fit and raised is None:
                    try:
                        l = md.load(path, top=top)
                        bad = l.n_frames != nf or np.abs(l.xyz - xyz).max() > 1e-3
                    except Exception:
                        bad = False                          # unreadable: loud
                    if bad:
                        viol("overflow|silent|mdcrd", "a coordinate wider than the eight-column field was written to .mdcrd without an error and the file reloads with different values", rp)
                    else:
                        ctx.broke("correspondence:fits|mdcrd", "case o%d: the model says a field overflows, the writer did not refuse" % k)
                continue
            if raised is not None:
                viol("save|raises|%s|field-limits" % ext, "saving coordinates up to %.3f nm as .%s raised %s: %s" % (float(np.abs(xyz).max()), ext, type(raised).__name__, str(raised)[:100]), rp)
                continue
            try:
                l = md.load(path) if ext == "pdb" else md.load(path, top=top)
            except Exception as e:
                viol("load|raises|%s|field-limits" % ext, "a .%s file written by mdtraj with coordinates up to %.3f nm cannot be read back: %s: %s" % (ext, float(np.abs(xyz).max()), type(e).__name__, str(e)[:100]), rp)
                continue
            blocks = text_blocks(ext, path, na, 3, cell)
            kinds = {"pdb": "pdb83", "xyz": "spaced 8 3", "lammpstrj": "spaced 8 3"}
            if len(blocks) != nf or l.n_frames != nf or l.n_atoms != na:
                viol("shape|%s|field-limits" % ext, ".%s: %d frames x %d atoms saved, %d blocks in the file, %d x %d loaded" % (ext, nf, na, len(blocks), l.n_frames, l.n_atoms), rp)
                continue
            for f, (kind, raw, _) in enumerate(blocks):
                vals = " ".join(rat(float(v) * 10) for v in xyz[f].ravel())
                m1, m2 = ctx.driver.query(["txt %s %s" % (kinds[ext], vals), "txtparse %s %s" % ("fixed 8" if ext == "pdb" else "tokens", raw.replace(" ", "_"))])
                if m1.partition(" ")[2].replace("_", " ") != raw:
                    ctx.broke("correspondence:text|" + ext, "field-limit case o%d frame %d: the file holds %r, the model renders %r" % (k, f, raw[:60], m1[:60]))
                if not m2.startswith("ok"):
                    ctx.broke("correspondence:scan|" + ext, "field-limit case o%d frame %d: the model's reader rejects %r" % (k, f, raw[:60]))
                    continue
                pv = np.array([float(Fraction(v)) for v in m2.split()[1:]]) / 10
                got = l.xyz[f].astype(np.float64).ravel()
                if len(pv) != len(got) or np.abs(pv - got).max() > 3e-6 * max(1.0, float(np.abs(pv).max())):
                    ctx.broke("correspondence:scan|" + ext, "field-limit case o%d frame %d: md.load returns %s, the model's reader scans %s" % (k, f, got[:6], pv[:6]))
                # the property itself: within the format's precision (pdb: the decimals that survive in eight columns)
                tol = 6e-5 if fit or ext != "pdb" else 6e-3
                if np.abs(got - xyz[f].astype(np.float64).ravel()).max() > tol * max(1.0, float(np.abs(xyz).max()) / 100):
                    viol("coords|beyond-precision|%s|field-limits" % ext, ".%s: coordinates %s nm reload as %s" % (ext, xyz[f].ravel()[:6], got[:6]), rp)


def run(ctx):
    warnings.filterwarnings("ignore")
    import mdtraj as md
    ctx.rule = ("trajectories of {1,2,3,8,9,10,11,50} atoms x {1,2,3,10} frames, coordinates on a 2^-10 nm grid with magnitudes 0.01 .. 90 nm and both signs, non-uniform "
                "times, cells {none, orthorhombic, triclinic, per-frame varying} x formats h5, xtc, trr, dcd, nc/netcdf, mdcrd/crd, xyz(.gz), lammpstrj, gro (precision 1..6), "
                "pdb(.gz) (ter / header / bfactors), dtr, rst7, ncrst; non-trivial = distinct (trajectory, format) that was saved and loaded")
    ctx.assumptions += ["format limits stated by the writers themselves are not violations: lammpstrj and dtr refuse cell-less trajectories, mdcrd refuses non-rectilinear cells, "
                        "xyz stores no cell, PDB holds one CRYST1 record (constant cells only are compared), formats without a time field reload with their own frame index",
                        "XTC compressed payload, TRR, HDF5 and DTR containers are read back through mdtraj only (no independent reader here); gzip through Python's gzip",
                        "coordinates whose rounding in the file's last decimal is within 1e-3 of a tie are excluded from the exact comparison"]
    rng = ctx.rng
    seen = {}

    def viol(key, what, rp):
        seen.setdefault(key, (what, rp))
    scratch = os.path.join(ctx.scratch if hasattr(ctx, "scratch") else "/verif/.build/scratch", "C01-%d" % os.getpid())
    shutil.rmtree(scratch, ignore_errors=True)
    os.makedirs(scratch)
    reqs, meta = [], []
    try:
        # every cell regime x every format that stores a cell is visited once (3 frames, 10 atoms) before the random cases
        CELLMODES = ["none", "ortho", "ortho-varying", "tri", "tri-varying", "tri-mono", "tri-hex", "tri-rdod", "tri-mono-varying", "tri-acute", "tri-after-ortho-varying"]
        forced = [(cm, ext) for cm in CELLMODES if cm != "none" for ext in ["h5", "xtc", "trr", "dcd", "nc", "lammpstrj", "gro", "dtr", "rst7", "ncrst", "mdcrd", "pdb"]]
        n_forced = len(forced) if not ctx.quick else len(forced)
        for k in range(n_forced + ctx.n(40, 300)):
            na = rng.choice([1, 2, 3, 8, 9, 10, 11, 50])
            nf = rng.choice([1, 2, 3, 10])
            if k < n_forced:
                na, nf = 10, 3
            mag = rng.choice([0.01, 1.0, 9.0, 90.0])
            xyz = np.array([[[rng.choice([-1, 1]) * rng.uniform(0.001, 1) * mag for _ in range(3)] for _ in range(na)] for _ in range(nf)])
            xyz = (np.round(xyz * 1024) / 1024 + 0.0).astype(np.float32)          # + 0.0: no negative zeros (a Rat has none)
            time = np.cumsum([rng.choice([0.5, 1.0, 2.25, 10.0]) for _ in range(nf)]).astype(np.float32)
            tmode = rng.choice(["plain", "plain", "negative-start", "tiny", "huge"])
            if tmode == "negative-start":                    # equilibration counted backwards: the first stamps are below zero
                time = (time - np.float32(12.5)).astype(np.float32)
            elif tmode == "tiny":                            # femtosecond-scale spacing: str() of such a float uses an exponent
                time = (time * np.float32(2.0 ** -20)).astype(np.float32)
            elif tmode == "huge":                            # long runs: 2^24 ps and beyond (still exactly representable steps)
                time = (time * np.float32(2.0 ** 22)).astype(np.float32)
            cellmode = rng.choice(CELLMODES) if k >= n_forced else forced[k][0]
            top = make_top(md, na)
            t = md.Trajectory(xyz.copy(), top, time=time.copy())
            if cellmode != "none":
                L = np.array([[2.5 + (0.25 * f if "varying" in cellmode else 0), 3.0, 4.125 + (0.5 * f if "varying" in cellmode else 0)] for f in range(nf)], dtype=np.float32) * (40 if mag > 10 else 1)
                if cellmode.startswith("ortho"):
                    A = np.full((nf, 3), 90.0, dtype=np.float32)
                elif "mono" in cellmode:                      # one or two angles exactly 90 degrees: monoclinic, hexagonal, rhombic dodecahedron;
                    A = np.array([[90.0, 75.0 + (15.0 * (f % 3) if "varying" in cellmode else 0), 90.0] for f in range(nf)], dtype=np.float32)   # varying: 75, 90 (a rectangular frame), 105
                elif "hex" in cellmode:
                    A = np.array([[90.0, 90.0, 120.0]] * nf, dtype=np.float32)
                elif "after-ortho" in cellmode:               # a shear run: the first frame rectangular, the later ones increasingly tilted
                    A = np.array([[90.0, 90.0, 90.0 - 5.0 * min(f, 4)] for f in range(nf)], dtype=np.float32)
                elif "acute" in cellmode:                     # a rhombohedral cell with every angle and (below 6 nm) every length under 60
                    A = np.array([[55.0, 55.0, 55.0]] * nf, dtype=np.float32)
                elif "rdod" in cellmode:
                    A = np.array([[60.0, 60.0, 90.0]] * nf, dtype=np.float32)
                else:
                    A = np.array([[80.0, 75.0 + (f if "varying" in cellmode else 0), 65.0] for f in range(nf)], dtype=np.float32)
                t.unitcell_lengths = L; t.unitcell_angles = A
            for ext in (rng.sample(FORMATS, 6) if k >= n_forced else [forced[k][1]]):
                base = MODEL.get(ext, ext)
                prec = rng.choice([1, 2, 3, 3, 4, 6]) if base == "gro" else 3
                opts = {}
                if base == "gro":
                    opts = dict(precision=prec)
                if base == "pdb":
                    opts = dict(ter=rng.random() < 0.5, header=rng.random() < 0.7)
                    if rng.random() < 0.4:
                        opts["bfactors"] = np.array([[rng.uniform(-9, 99) for _ in range(na)] for _ in range(nf)])
                if base == "pdb" and "varying" in cellmode:
                    continue                                  # one CRYST1 record per file: format limit
                path = os.path.join(scratch, "t%d.%s" % (k, ext))
                desc = dict(format=ext, n_atoms=na, n_frames=nf, magnitude=mag, cell=cellmode, times=tmode, options={a: (b if not isinstance(b, np.ndarray) else "array") for a, b in opts.items()})
                rp = dict(desc, xyz=xyz.tolist() if na * nf <= 60 else None, time=time.tolist(), lengths=None if cellmode == "none" else t.unitcell_lengths.tolist(),
                          angles=None if cellmode == "none" else t.unitcell_angles.tolist(), seed=ctx.seed, case=k)
                for q in os.listdir(scratch):
                    if q.startswith(os.path.basename(path)):
                        qq = os.path.join(scratch, q)
                        shutil.rmtree(qq) if os.path.isdir(qq) else os.remove(qq)
                try:
                    t.save(path, **opts)
                except Exception as e:
                    msg = str(e)
                    if (cellmode == "none" and ext in NEEDS_CELL) or (cellmode.startswith("tri") and ext in RECTILINEAR_ONLY):
                        ctx.count("refused loudly (format limit): " + base)
                        continue
                    if base == "gro" and mag >= 90 and False:
                        continue
                    viol("save|raises|%s|cell-%s|frames-%s" % (base, cellmode.split("-")[0], "1" if nf == 1 else "many"), "saving %d frames x %d atoms (cell %s) as .%s raised %s: %s" % (nf, na, cellmode, ext, type(e).__name__, msg[:200]), rp)
                    continue
                # ---- load back
                try:
                    if base in ("rst7", "ncrst") and nf > 1:
                        want_names = None
                        reqs.append("rstnames %d" % nf); meta.append(("names", k, ext, sorted(q for q in os.listdir(scratch) if q.startswith(os.path.basename(path) + ".")), os.path.basename(path)))
                        files = sorted(q for q in os.listdir(scratch) if q.startswith(os.path.basename(path) + "."))
                        loader = md.load_restrt if base == "rst7" else md.load_ncrestrt
                        parts = [loader(os.path.join(scratch, q), top=top) for q in files]
                        l = md.join(parts) if len(parts) > 1 else parts[0]
                        native = []
                        for q in files:
                            native += read_native(ext, os.path.join(scratch, q), na) or []
                    else:
                        if base == "rst7":
                            l = md.load_restrt(path, top=top)
                        elif base == "ncrst":
                            l = md.load_ncrestrt(path, top=top)
                        else:
                            l = md.load(path) if ext in SELF_TOPOLOGY else md.load(path, top=top)
                        native = read_native(ext, path, na, prec)
                except Exception as e:
                    viol("load|raises|%s|%s%s" % (base, "one-atom" if na == 1 else "general", "" if tmode == "plain" or base != "gro" else "|times-" + tmode), "a .%s file written by mdtraj (%d frames x %d atoms, |x| up to %g nm, cell %s) cannot be read back: %s: %s" % (ext, nf, na, mag, cellmode, type(e).__name__, str(e)[:200]), rp)
                    continue
                ctx.count("save/load pairs"); ctx.count("format:" + base)
                ctx.case(desc if len(ctx.samples) < 5 else None, (k, ext))
                if l.n_frames != nf or l.n_atoms != na:
                    special = "one-atom" if na == 1 else "general"
                    viol("shape|%s|%s" % (base, special), ".%s: saved %d frames x %d atoms, loaded %d x %d" % (ext, nf, na, l.n_frames, l.n_atoms), rp)
                    continue
                reqs.append("fmtq %s %d %d %s" % (base, prec, na, " ".join(rat(x) for x in xyz.ravel())))
                meta.append(("coords", k, ext, (l.xyz.astype(np.float64).ravel(), native, xyz.astype(np.float64).ravel(), mag), rp))
                # ---- digit level: the file's coordinate text vs the Lean rendering of the same values; the Lean scanner on the file's text
                if base in ("mdcrd", "rst7", "gro", "pdb", "xyz", "lammpstrj") and na * nf <= 400:
                    unit = 1 if base == "gro" else 10
                    files_ = [os.path.join(scratch, q) for q in files] if (base == "rst7" and nf > 1) else [path]
                    blocks = []
                    for q in files_:
                        blocks += text_blocks(base, q, na, prec, cellmode != "none")
                    if len(blocks) != nf:
                        viol("native-layout|frames|%s" % base, "the .%s file holds %d coordinate blocks for %d frames" % (ext, len(blocks), nf), rp)
                    else:
                        for f, (kind, raw, boxline) in enumerate(blocks):
                            vals = " ".join(rat(float(v) * unit) for v in xyz[f].ravel())
                            reqs.append("txt %s %s" % (kind, vals)); meta.append(("txt", k, ext, (raw, f), rp))
                            enc = raw.replace(" ", "_")
                            if enc:
                                pk = {"mdcrd": "mdcrd", "pdb83": "fixed 8", "spaced 8 3": "tokens"}.get(kind, "fixed %d" % (prec + 5 if base == "gro" else 12))
                                reqs.append("txtparse %s %s" % (pk, enc)); meta.append(("txtparse", k, ext, (l.xyz[f].astype(np.float64).ravel() * unit, f, xyz[f].astype(np.float64).ravel() * unit), rp))
                            if boxline is not None:
                                reqs.append("txt box %s" % " ".join(rat(float(v) * 10) for v in t.unitcell_lengths[f])); meta.append(("txt", k, ext, (boxline, f), rp))
                # ---- GROMACS binary files read by an independent XDR reader: atoms, time, box vectors (rows a, b, c in nm), coordinates
                if base in ("xtc", "trr"):
                    try:
                        xf = read_xdr_frames(base, path)
                    except Exception as e:  # noqa: BLE001
                        xf = None
                        viol("native-layout|xdr|%s" % base, "an independent XDR reader cannot follow the .%s file: %s: %s" % (ext, type(e).__name__, str(e)[:120]), rp)
                    if xf is not None:
                        ctx.count("files read by the independent reader")
                        if len(xf) != nf or any(fr[0] != na for fr in xf):
                            viol("native-layout|count|%s" % base, "an independent reader finds %d frames of %s atoms in the .%s file, expected %d x %d" % (len(xf), sorted(set(fr[0] for fr in xf)), ext, nf, na), rp)
                        else:
                            tn = np.array([fr[2] for fr in xf], dtype=np.float64)
                            if np.abs(tn - time).max() > 1e-5 * max(1.0, float(np.abs(time).max())):
                                viol("native-time|%s%s" % (base, "" if tmode == "plain" else "|times-" + tmode), "the time stamps in the .%s file are %s, the trajectory has %s" % (ext, tn[:4], time[:4]), rp)
                            for f, fr in enumerate(xf):
                                want = t.unitcell_vectors[f] if cellmode != "none" else np.zeros((3, 3))
                                if fr[3] is not None and np.abs(fr[3] - want).max() > 2e-6 * max(1.0, float(np.abs(want).max())):
                                    viol("native-cell-vectors|%s" % base, "the box vectors in frame %d of the .%s file are %s, the trajectory's are %s" % (f, ext, np.round(fr[3], 5).tolist(), np.round(want, 5).tolist()), rp)
                                    break
                                if fr[4] is not None and np.abs(fr[4] - xyz[f]).max() > 2e-6 * max(1.0, mag) + (0 if base == "trr" else 5.1e-4):
                                    viol("native-layout|value|%s|magnitude-%g" % (base, mag), "frame %d of the .%s file holds coordinates %s for %s" % (f, ext, fr[4].ravel()[:3], xyz[f].ravel()[:3]), rp)
                                    break
                # ---- the bytes of the .trr file read by the Lean model (Model/Xdr.lean, theorem c01_trr_roundtrip): exact comparison
                if base == "xtc" and os.path.getsize(path) <= 40000:
                    reqs.append("xtc " + open(path, "rb").read().hex())
                    meta.append(("xtcbytes", k, ext, (np.asarray(time, dtype=np.float32), None if cellmode == "none" else t.unitcell_vectors.astype(np.float32), xyz.astype(np.float32), na), rp))
                if base == "trr" and os.path.getsize(path) <= 40000:
                    reqs.append("trr " + open(path, "rb").read().hex())
                    meta.append(("trrbytes", k, ext, (np.asarray(time, dtype=np.float32), None if cellmode == "none" else t.unitcell_vectors.astype(np.float32), xyz.astype(np.float32), na), rp))
                # ---- the bytes of the .dcd file read by the Lean model (Model/Dcd.lean, theorem c01_dcd_roundtrip): control record and frames
                if base == "dcd" and os.path.getsize(path) <= 40000 and native:
                    reqs.append("dcd " + open(path, "rb").read().hex())
                    meta.append(("dcdbytes", k, ext, (native, nf, na, cellmode != "none"), rp))
                # ---- time
                stores_time = base in ("h5", "xtc", "trr", "nc", "gro", "dtr", "rst7", "ncrst")
                if stores_time and np.abs(l.time - time).max() > 1e-5 * max(1.0, float(np.abs(time).max())):
                    viol("time|%s|frames-%s%s" % (base, "1" if nf == 1 else "many", "" if tmode == "plain" else "|times-" + tmode), ".%s stores time stamps but reloads %s for %s" % (ext, l.time[:4], time[:4]), rp)
                if native and stores_time and base in ("nc", "ncrst", "rst7", "gro"):
                    tn = [fr[2] for fr in native]
                    if any(x is None for x in tn) or np.abs(np.array(tn, dtype=np.float64) - time).max() > 1e-5 * max(1.0, float(np.abs(time).max())):
                        viol("native-time|%s" % base, "the time stamps in the .%s file are %s, the trajectory has %s" % (ext, tn[:4], time[:4]), rp)
                # ---- cell
                if cellmode == "none":
                    if l.unitcell_lengths is not None and base not in ("lammpstrj",):
                        viol("cell|appears|%s|%s" % (base, "one-atom" if na == 1 else "general"), ".%s: a trajectory without a unit cell reloads with cell lengths %s" % (ext, l.unitcell_lengths[0]), rp)
                elif base != "xyz":
                    if l.unitcell_lengths is None:
                        viol("cell|lost|%s%s" % (base, "|two-atoms-all-below-60" if base == "rst7" and na == 2 and float(max(t.unitcell_lengths.max() * 10, t.unitcell_angles.max())) < 60 else ""), ".%s stores unit cells but the reloaded trajectory has none" % ext, rp)
                    else:
                        tolL = {"mdcrd": 6e-5, "pdb": 6e-5, "gro": 2e-5, "rst7": 1e-6}.get(base, 1e-5) * max(1.0, float(L.max()) / 4)
                        tolA = {"pdb": 6e-3}.get(base, 2e-3)
                        dL = np.abs(l.unitcell_lengths - t.unitcell_lengths).max(); dA = np.abs(l.unitcell_angles - t.unitcell_angles).max()
                        if dL > tolL or dA > tolA:
                            viol("cell|value|%s|%s" % (base, cellmode), ".%s: unit cell reloads with lengths off by %.3g nm and angles off by %.3g degrees (%s)" % (ext, dL, dA, cellmode), rp)
                        if native and native[0][1] is not None and base in ("nc", "ncrst", "dcd", "mdcrd", "pdb", "rst7"):
                            for f, fr in enumerate(native):
                                c = [float(x) for x in fr[1]]
                                if base == "dcd":          # A, gamma, B, beta, alpha, C
                                    nl, nang = [c[0], c[2], c[5]], [c[4], c[3], c[1]]
                                    nang = [np.degrees(np.arccos(v)) if abs(v) <= 1 else v for v in nang]
                                else:
                                    nl, nang = c[:3], (c[3:6] if len(c) >= 6 else None)
                                if np.abs(np.array(nl) / 10 - t.unitcell_lengths[f]).max() > tolL:
                                    viol("native-cell|%s" % base, "the cell lengths in the .%s file are %s angstrom for a cell of %s nm" % (ext, nl, t.unitcell_lengths[f]), rp)
                                    break
                                if nang is not None and np.abs(np.array(nang) - t.unitcell_angles[f]).max() > tolA:
                                    viol("native-cell-angles|%s" % base, "the cell angles in the .%s file are %s for %s" % (ext, nang, t.unitcell_angles[f]), rp)
                                    break

        # residue numbers beyond the five columns of a .gro / four of a .pdb file: the files must stay readable, every atom with its coordinates
        for ext_ in ("gro", "pdb"):
            tb = md.Topology(); cb = tb.add_chain()
            for i_, rs_ in enumerate([99998, 99999, 100000, 100001, 1234567]):
                rb = tb.add_residue("ALA", cb, rs_)
                tb.add_atom("CA", md.element.carbon, rb); tb.add_atom("CB", md.element.carbon, rb)
            xb = (np.arange(30, dtype=np.float32).reshape(1, 10, 3) / 8)
            pb = os.path.join(scratch, "bigres." + ext_)
            ctx.case(None, ("big-resSeq", ext_)); ctx.count("files with residue numbers beyond the field")
            try:
                md.Trajectory(xb, tb).save(pb)
                lb = md.load(pb)
                if lb.n_atoms != 10 or np.abs(lb.xyz - xb).max() > 2e-3 or [a.name for a in lb.topology.atoms] != ["CA", "CB"] * 5 or lb.n_residues != 5:
                    viol("resSeq|beyond-field|" + ext_, ".%s with residue numbers up to 1234567 reloads as %d atoms in %d residues, coordinates off by %.3g" % (ext_, lb.n_atoms, lb.n_residues, float(np.abs(lb.xyz - xb).max()) if lb.xyz.shape == xb.shape else -1), dict(ext=ext_))
            except Exception as e:  # noqa: BLE001
                viol("resSeq|beyond-field|" + ext_, "a .%s file written for residue numbers up to 1234567 cannot be read back: %s: %s" % (ext_, type(e).__name__, str(e)[:120]), dict(ext=ext_))
        # ---- a cell edited in place through the arrays the properties hand out (t.unitcell_lengths *= s; t.unitcell_angles[:, 2] = g) after
        # the vectors were asked for once: every format must store the cell the trajectory has now
        for k_ in range(ctx.n(2, 8)):
            te = md.Trajectory(np.round(np.random.RandomState(k_).rand(3, 7, 3), 3).astype(np.float32) * 2, make_top(md, 7), time=np.arange(3.0),
                               unitcell_lengths=np.tile([3.0, 3.5, 4.0], (3, 1)), unitcell_angles=np.tile([80.0, 85.0, 70.0], (3, 1)))
            _ = te.unitcell_vectors; _ = te.unitcell_volumes
            te.save(os.path.join(scratch, "edit0.xtc"))
            te.unitcell_lengths *= np.float32(1.25)
            te.unitcell_angles[:, 2] = 95.0
            te.unitcell_lengths[1] = [3.1, 3.3, 4.4]
            for ext_ in ("xtc", "trr", "gro", "h5", "dcd", "nc", "lammpstrj", "dtr", "pdb"):
                pe = os.path.join(scratch, "edited." + ext_)
                if os.path.isdir(pe):
                    shutil.rmtree(pe)
                ctx.case(None, ("cell-edited-in-place", k_, ext_)); ctx.count("saves after an in-place edit of the cell")
                try:
                    te.save(pe)
                    le = md.load(pe) if ext_ in ("h5", "pdb", "gro") else md.load(pe, top=te.topology)
                except Exception as e:  # noqa: BLE001
                    viol("cell|edited-in-place|raises|" + ext_, "saving / loading .%s after an in-place edit of the cell raised %s: %s" % (ext_, type(e).__name__, str(e)[:100]), dict(ext=ext_))
                    continue
                wl, wa = te.unitcell_lengths, te.unitcell_angles
                if ext_ == "pdb":
                    wl, wa = np.tile(wl[0], (3, 1)), np.tile(wa[0], (3, 1))          # one CRYST1 record: the first frame's cell
                if le.unitcell_lengths is None or np.abs(le.unitcell_lengths - wl).max() > 2e-3 or np.abs(le.unitcell_angles - wa).max() > 2e-2:
                    viol("cell|edited-in-place|" + ext_, ".%s written after the cell was edited in place (lengths *= 1.25, gamma = 95, one frame reassigned) reloads with lengths %s angles %s; the trajectory has %s %s" % (
                        ext_, None if le.unitcell_lengths is None else le.unitcell_lengths[0].round(4).tolist(), None if le.unitcell_angles is None else le.unitcell_angles[0].round(3).tolist(),
                        wl[0].round(4).tolist(), wa[0].round(3).tolist()), dict(ext=ext_))
        overflow_stream(ctx, md, scratch, viol)
        record_stream(ctx, md, scratch, viol, reqs, meta)
        model = ctx.driver.query(reqs) if ctx.driver_ok and reqs else [None] * len(reqs)
        for (what, k, ext, data, rp), m in zip(meta, model):
            if m is None:
                continue
            if m == "bad-op":
                ctx.broke("driver:" + what, "bad-op for case %d (%s)" % (k, ext))
                continue
            base = MODEL.get(ext, ext)
            if what == "names":
                files, stem = data, rp
                want = [stem + "." + s for s in m.split(",")]
                if files != want:
                    ctx.broke("correspondence:restart-names", "case %d: files %s, the model names %s" % (k, files[:4], want[:4]))
                continue
            if what == "dcdbytes":
                nat_, nf_, na_, hc_ = data
                ctx.count(".dcd files read byte by byte by the Lean model")
                if not m.startswith("ok"):
                    viol("native-layout|dcd|model-reader", "the byte-level model cannot follow the .dcd file mdtraj wrote (%s)" % m[:60], rp)
                    continue
                parts = m.split(";")
                nset, istart, nsavc, nstep, hcell, natoms = [int(v) for v in parts[0].split()[1:]]
                if nset != nf_ or natoms != na_ or len(parts) - 1 != nf_ or bool(hcell) != hc_:
                    viol("native-layout|dcd|control-record", "the control record of the .dcd file says %d frames of %d atoms, cell flag %d, and the file holds %d frames; the trajectory has %d frames of %d atoms, cell: %s" % (
                        nset, natoms, hcell, len(parts) - 1, nf_, na_, hc_), rp)
                    continue
                for f, fr in enumerate(parts[1:]):
                    cs_, rest_ = fr[2:].split(" X ")
                    xs_, rest_ = rest_.split(" Y ")
                    ys_, zs_ = rest_.split(" Z ")
                    fq = lambda a: [Fraction(v) for v in a.split()]
                    mx = [v for trip in zip(fq(xs_), fq(ys_), fq(zs_)) for v in trip]
                    px = [Fraction(float(v)) for v in nat_[f][0]]
                    pc = [] if nat_[f][1] is None else [Fraction(float(v)) for v in nat_[f][1]]
                    if mx != px or fq(cs_) != pc:
                        viol("native-layout|dcd|readers-disagree", "frame %d of the .dcd file: the byte-level model and the independent Python reader extract different numbers" % f, rp)
                        break
                continue
            if what == "recline":
                line, i_ = data
                ctx.count("whole records compared byte for byte with the Lean rendering")
                if not m.startswith("L "):
                    ctx.broke("correspondence:record|" + ext, "case %s atom %d: the model does not render the record mdtraj wrote (%s): %r" % (rp.get("case"), i_, m[:20], line))
                elif m[2:].replace("_", " ") != line:
                    a_, b_ = m[2:].replace("_", " "), line
                    j_ = next((q for q in range(min(len(a_), len(b_))) if a_[q] != b_[q]), min(len(a_), len(b_)))
                    ctx.broke("correspondence:record|" + ext, "case %s atom %d: the .%s file holds %r, the model renders %r (first difference at column %d)" % (rp.get("case"), i_, ext, b_, a_, j_ + 1))
                continue
            if what == "xtcbytes":
                tm_, bx_, xy_, na_ = data
                ctx.count(".xtc files read byte by byte by the Lean model")
                if not m.startswith("ok"):
                    viol("native-layout|xtc|model-reader", "the byte-level model cannot follow the .xtc file mdtraj wrote (%s)" % m[:60], rp)
                    continue
                frs = m[3:].split(";")
                if len(frs) != len(tm_):
                    viol("native-layout|count|xtc", "the byte-level model finds %d frames in the .xtc file, expected %d" % (len(frs), len(tm_)), rp)
                    continue
                for f, fr in enumerate(frs):
                    head, rest_ = fr.split(" B ")
                    bxs, xs = (rest_.split(" X ") + [""])[:2]
                    hn, hstep, ht = head.split()
                    fq = lambda a: [Fraction(v) for v in a.split()]
                    exact = lambda arr: [Fraction(float(v)) for v in np.asarray(arr, dtype=np.float32).ravel()]
                    if int(hn) != na_ or Fraction(ht) != Fraction(float(tm_[f])):
                        viol("native-time|xtc|bytes", "frame %d of the .xtc file: %s atoms, time %s; the trajectory has %d atoms, time %r" % (f, hn, ht, na_, float(tm_[f])), rp)
                        break
                    if fq(bxs) != (exact(bx_[f]) if bx_ is not None else [Fraction(0)] * 9):
                        viol("native-cell-vectors|xtc", "frame %d of the .xtc file holds the box %s, the trajectory's vectors are %s" % (f, [float(v) for v in fq(bxs)], None if bx_ is None else bx_[f].ravel().tolist()), rp)
                        break
                    if na_ <= 9 and fq(xs) != exact(xy_[f]):
                        viol("native-layout|value|xtc|bytes", "frame %d of the .xtc file (%d atoms, stored as plain floats) does not hold the float32 coordinates of the trajectory" % (f, na_), rp)
                        break
                continue
            if what == "trrbytes":
                tm_, bx_, xy_, na_ = data
                ctx.count(".trr files read byte by byte by the Lean model")
                if not m.startswith("ok"):
                    viol("native-layout|trr|model-reader", "the byte-level model cannot follow the .trr file mdtraj wrote (%s)" % m[:60], rp)
                    continue
                frs = m[3:].split(";")
                if len(frs) != len(tm_):
                    viol("native-layout|count|trr", "the byte-level model finds %d frames in the .trr file, expected %d" % (len(frs), len(tm_)), rp)
                    continue
                for f, fr in enumerate(frs):
                    head, rest_ = fr.split(" B ")
                    bxs, xs = rest_.split(" X ")
                    hn, hstep, ht, hl = head.split()
                    fq = lambda a: [Fraction(v) for v in a.split()]
                    exact = lambda arr: [Fraction(float(v)) for v in np.asarray(arr, dtype=np.float32).ravel()]
                    if int(hn) != na_ or Fraction(ht) != Fraction(float(tm_[f])):
                        viol("native-time|trr|bytes", "frame %d of the .trr file: %s atoms, time %s; the trajectory has %d atoms, time %r" % (f, hn, ht, na_, float(tm_[f])), rp)
                        break
                    if fq(bxs) != (exact(bx_[f]) if bx_ is not None else [Fraction(0)] * 9):
                        viol("native-cell-vectors|trr", "frame %d of the .trr file holds the box words %s, the trajectory's vectors are %s" % (f, [float(v) for v in fq(bxs)], None if bx_ is None else bx_[f].ravel().tolist()), rp)
                        break
                    if fq(xs) != exact(xy_[f]):
                        viol("native-layout|value|trr|bytes", "frame %d of the .trr file does not hold the float32 coordinates of the trajectory, atom by atom" % f, rp)
                        break
                continue
            if what == "txt":
                raw, f = data
                ctx.count("text blocks compared byte for byte with the Lean rendering")
                fits, _, text = m.partition(" ")
                if text.replace("_", " ") != raw:
                    a, b = text.replace("_", " "), raw
                    i = next((j for j in range(min(len(a), len(b))) if a[j] != b[j]), min(len(a), len(b)))
                    ctx.broke("correspondence:text|" + base, "case %d .%s frame %d: the file holds %r where the digit-level model renders %r (first difference at column %d of the block)" % (k, ext, f, b[max(0, i - 12):i + 12], a[max(0, i - 12):i + 12], i))
                continue
            if what == "txtparse":
                got, f, x = data
                ctx.count("text blocks scanned by the Lean reader")
                if not m.startswith("ok"):
                    ctx.broke("correspondence:scan|" + base, "case %d .%s frame %d: the model's reader rejects the coordinate text mdtraj wrote (%s)" % (k, ext, f, m))
                    continue
                pv = np.array([float(Fraction(v)) for v in m.split()[1:]])
                if len(pv) != len(got) or np.any(np.abs(pv - got) > 3e-6 * np.maximum(1.0, np.abs(x))):
                    ctx.broke("correspondence:scan|" + base, "case %d .%s frame %d: md.load returns %s where the model's reader scans %s from the same text" % (k, ext, f, got[:6], pv[:6]))
                continue
            got, native, x, mag = data
            ctx.count("coordinate sets compared with the model")
            vals = m.split(" V ")[1].split()
            precision = float(Fraction(m.split()[1]))
            st = []; ld = np.zeros(len(vals)); mg = np.zeros(len(vals))
            for i, v in enumerate(vals):
                a, b, c = v.split(":")
                st.append(Fraction(a)); ld[i] = float(Fraction(b)); mg[i] = float(Fraction(c))
            ok = mg > 1e-3
            err = np.abs(got - ld)
            tol = 3e-7 * np.maximum(1.0, np.abs(x)) + (1e-9 if base != "xtc" else 0)
            if np.any(err[ok] > tol[ok]):
                i = int(np.argmax(np.where(ok, err - tol, -1)))
                if err[i] > precision + tol[i] + 1e-7:
                    viol_key = "coords|beyond-precision|%s|magnitude-%g" % (base, mag)
                    seen.setdefault(viol_key, (".%s: coordinate %.7g nm reloads as %.7g nm, outside the format's precision %.3g (the model predicts %.7g)" % (ext, x[i], got[i], precision, ld[i]), rp))
                else:
                    ctx.broke("correspondence:loaded|" + base, "case %d .%s: coordinate %.9g nm reloads as %.9g, the model predicts %.9g (within the format precision, but not the predicted rounding)" % (k, ext, x[i], got[i], ld[i]))
            if native is not None:
                ctx.count("files read by the independent reader")
                flat = [v for fr in native for v in fr[0]]
                if len(flat) != len(st):
                    viol("native-layout|count|%s" % base, "an independent reader finds %d coordinate fields in the .%s file, expected %d" % (len(flat), ext, len(st)), rp)
                    continue
                for i, (v, s_) in enumerate(zip(flat, st)):
                    if not ok[i]:
                        continue
                    if isinstance(v, str):
                        try:
                            fv = Fraction(v.strip())
                        except Exception:
                            viol("native-layout|field|%s" % base, "field %d of the .%s file is %r: not a number in the documented column" % (i, ext, v), rp)
                            break
                        if fv != s_:
                            viol("native-layout|value|%s|magnitude-%g" % (base, mag), "the .%s file holds %s in the field of coordinate %.7g nm; the format's native value is %s" % (ext, v.strip(), x[i], float(s_)), rp)
                            break
                    else:
                        if abs(float(v) - float(s_)) > 3e-7 * max(1.0, abs(float(s_))):
                            viol("native-layout|value|%s|magnitude-%g" % (base, mag), "the .%s file holds %.9g for coordinate %.7g nm; the format's native value is %.9g" % (ext, v, x[i], float(s_)), rp)
                            break
    finally:
        shutil.rmtree(scratch, ignore_errors=True)
    for key, (what, rp) in seen.items():
        ctx.violation(key, what, rp)


def replay(ctx, path):
    print(json.load(open(path))["what"])
    return 1
